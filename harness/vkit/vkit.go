// Package vkit is the shared kit of the /verif harness: per-case statistics
// (what the evidence files are built from), tier / known-finding switches and
// small generator helpers. It is injected into the repository under test with
// `go build -overlay` as github.com/pilosa/pilosa/internal/vkit and must not
// import any pilosa package (in-package tests of every package import it).
package vkit

import (
	"encoding/json"
	"fmt"
	"hash/fnv"
	"os"
	"sort"
	"strings"
	"sync"
)

// Thorough reports whether the driver asked for the thorough tier.
func Thorough() bool { return os.Getenv("VERIF_TIER") == "thorough" }

// Scale returns q in the quick tier and th in the thorough tier.
func Scale(q, th int) int {
	if Thorough() {
		return th
	}
	return q
}

// Open reports whether known finding id is open *and* its witness still
// fails on this tree (decided by the driver, passed in VERIF_OPEN).
func Open(id string) bool {
	for _, s := range strings.Split(os.Getenv("VERIF_OPEN"), ",") {
		if s == id {
			return true
		}
	}
	return false
}

type agg struct {
	mu       sync.Mutex
	evals    int
	nt       map[uint64]struct{}
	all      map[uint64]struct{}
	classes  map[string]int
	excluded map[string]int
	samples  []json.RawMessage
	trivial  []json.RawMessage
	extra    map[string]interface{}
}

var global = &agg{
	nt:       map[uint64]struct{}{},
	all:      map[uint64]struct{}{},
	classes:  map[string]int{},
	excluded: map[string]int{},
	extra:    map[string]interface{}{},
}

const maxSamples = 4

// Case collects what one generated case looked like.
type Case struct {
	key     string
	classes []string
	nt      bool
	sample  interface{}
	done    bool
}

// NewCase starts the record of one generated case. Call Done (usually deferred).
func NewCase() *Case { return &Case{} }

// Key sets the value that identifies the generated input (hashed for distinctness).
func (c *Case) Key(parts ...interface{}) *Case {
	c.key = fmt.Sprint(parts...)
	return c
}

// Class adds a label counted in the evidence histogram.
func (c *Case) Class(format string, args ...interface{}) *Case {
	if len(args) == 0 {
		c.classes = append(c.classes, format)
	} else {
		c.classes = append(c.classes, fmt.Sprintf(format, args...))
	}
	return c
}

// ClassIf adds the label when cond holds.
func (c *Case) ClassIf(cond bool, label string) *Case {
	if cond {
		c.classes = append(c.classes, label)
	}
	return c
}

// NT marks the case non-trivial when cond holds (accumulates with OR).
func (c *Case) NT(cond bool) *Case {
	if cond {
		c.nt = true
	}
	return c
}

// Sample sets what is written out if this case is picked as a sample.
func (c *Case) Sample(v interface{}) *Case {
	c.sample = v
	return c
}

// Done records the case.
func (c *Case) Done() {
	if c.done {
		return
	}
	c.done = true
	g := global
	g.mu.Lock()
	defer g.mu.Unlock()
	g.evals++
	key := c.key
	if key == "" && c.sample != nil {
		key = fmt.Sprint(c.sample)
	}
	h := fnv.New64a()
	h.Write([]byte(key))
	hv := h.Sum64()
	g.all[hv] = struct{}{}
	seen := map[string]bool{}
	for _, cl := range c.classes {
		if !seen[cl] {
			seen[cl] = true
			g.classes[cl]++
		}
	}
	if c.nt {
		_, dup := g.nt[hv]
		g.nt[hv] = struct{}{}
		g.classes["_nontrivial"]++
		if !dup && len(g.samples) < maxSamples && c.sample != nil {
			if b, err := json.Marshal(c.sample); err == nil && len(b) < 6000 {
				g.samples = append(g.samples, b)
			}
		}
	} else if len(g.trivial) < 1 && c.sample != nil {
		if b, err := json.Marshal(c.sample); err == nil && len(b) < 6000 {
			g.trivial = append(g.trivial, b)
		}
	}
}

// Excluded counts a case steered around / tolerated because of an open known finding.
func Excluded(id string) {
	global.mu.Lock()
	global.excluded[id]++
	global.mu.Unlock()
}

// Count adds n to a free-form counter reported under coverage.counters.
func Count(name string, n int) {
	global.mu.Lock()
	global.classes[name] += n
	global.mu.Unlock()
}

// Extra records a free-form fact for the evidence file (last write wins).
func Extra(name string, v interface{}) {
	global.mu.Lock()
	global.extra[name] = v
	global.mu.Unlock()
}

type statsFile struct {
	Evaluations int                    `json:"evaluations"`
	NTHashes    []uint64               `json:"nt_hashes"`
	Distinct    int                    `json:"distinct"`
	Classes     map[string]int         `json:"classes"`
	Excluded    map[string]int         `json:"excluded"`
	Samples     []json.RawMessage      `json:"samples"`
	Trivial     []json.RawMessage      `json:"trivial_samples"`
	Extra       map[string]interface{} `json:"extra"`
}

// Flush (re)writes the statistics of this process to $VERIF_STATS.
// Every top-level test defers it; it is cheap and idempotent.
func Flush() {
	path := os.Getenv("VERIF_STATS")
	if path == "" {
		return
	}
	g := global
	g.mu.Lock()
	defer g.mu.Unlock()
	sf := statsFile{Evaluations: g.evals, Distinct: len(g.all), Classes: g.classes, Excluded: g.excluded,
		Samples: g.samples, Trivial: g.trivial, Extra: g.extra}
	for h := range g.nt {
		sf.NTHashes = append(sf.NTHashes, h)
	}
	sort.Slice(sf.NTHashes, func(i, j int) bool { return sf.NTHashes[i] < sf.NTHashes[j] })
	b, err := json.Marshal(sf)
	if err != nil {
		fmt.Fprintln(os.Stderr, "vkit: marshal stats:", err)
		return
	}
	tmp := path + ".tmp"
	if err := os.WriteFile(tmp, b, 0o644); err == nil {
		os.Rename(tmp, path)
	}
}
