# Per-property configuration of the driver (bin/vcheck).
# unit: one test binary invocation group.
#   pkg     package of /repo the overlay test files are compiled into
#   run     -test.run regexp
#   checks  rapid checks per tier (split over shards)
#   shards  processes per tier (rapid is single core)
#   rapid   False for plain enumerations (no -rapid.* flags)

def U(name, pkg, run, q, th, sq=4, sth=14, **kw):
    d = dict(name=name, pkg=pkg, run=run, checks={"quick": q, "thorough": th},
             shards={"quick": sq, "thorough": sth})
    d.update(kw)
    return d


HOOK_COMMITS = []
NOT_YET = {}

PROPS = {
    "C01": dict(
        level="exploration",
        technique="property-based testing (rapid): generated sets x encodings vs sorted-slice reference model",
        level_text="Every read and set operation of the roaring engine is compared with a naive sorted-slice model on thousands of generated "
                   "bitmaps per run whose containers are built directly in each encoding (array/bitmap/run), at the 4096/2048 thresholds, full, empty, "
                   "mapped, frozen, B-tree or slice backed; results must also be structurally valid (cached cardinality = popcount, runs sorted/disjoint) "
                   "and operands unchanged. Exploration, not proof: held on everything generated.",
        level_note="Trusted: Go toolchain, rapid, the 60-line set model. Inputs are limited to <=5 container keys per bitmap and Flip ranges <= 70000 values.",
        rule="rapid-generated bitmaps: 1-5 container keys from a pool incl. 0, adjacent keys, 2^16, maxContainerKey; per container a shape "
             "(single/few/runs/dense/array-near-4096/many-runs-near-2048/full/full-minus-one/empty) x encoding (array/bitmap/run) x transformer "
             "(built, B-tree, Optimize, Freeze, Clone, decoded from own bytes (mapped), built by AddN). distinct = hash of the generated specs; "
             "non-trivial = a threshold/full/empty/edge shape is present, or two containers with different encodings meet at one key, or a range endpoint "
             "touches an element edge, or >20 union operands, or a flip crossing a container edge / partially covering the set.",
        assumptions=["reference model = sorted []uint64 in harness/pkg/roaring/gen_test.go",
                     "arrays are generated with <= 4096 values (the largest the code itself creates); Flip range length <= 70000 (cost bound)",
                     "CountRange/SliceRange are only called with start <= end (documented precondition)"],
        tags=["groar"],
        units=[
            U("reads", "./roaring", "^TestVerifC01_Reads$", 2400, 60000),
            U("ops", "./roaring", "^TestVerifC01_Ops$", 1600, 36000),
            U("nary", "./roaring", "^TestVerifC01_NaryUnion$", 800, 14000, sq=3),
            U("flip", "./roaring", "^TestVerifC01_Flip$", 600, 14000, sq=2),
        ],
    ),
}


# per-property configuration files: harness/props.d/Cxx.py each define PROP = dict(...) (same keys as above)
import glob as _glob, os as _os
for _f in sorted(_glob.glob(_os.path.join(_os.path.dirname(_os.path.abspath(__file__)), "props.d", "C*.py"))):
    _ns = {"U": U}
    exec(compile(open(_f).read(), _f, "exec"), _ns)
    PROPS[_os.path.basename(_f)[:-3]] = _ns["PROP"]
