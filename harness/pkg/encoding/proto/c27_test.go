package proto_test

// C27 — every message/request/response type of proto.Serializer round-trips; arbitrary bytes never panic.

import (
	"encoding/hex"
	"fmt"
	"runtime/debug"
	"sort"
	"strings"
	"testing"

	gogoproto "github.com/gogo/protobuf/proto"
	"github.com/pilosa/pilosa"
	"github.com/pilosa/pilosa/encoding/proto"
	"github.com/pilosa/pilosa/internal"
	"github.com/pilosa/pilosa/internal/vkit"
	"pgregory.net/rapid"
)

func vc27Sorted(a []string) []string {
	b := append([]string(nil), a...)
	sort.Strings(b)
	return b
}

// The registry must name exactly the types of the two type switches of the Serializer and the result kinds of
// encodeQueryResponse: a type added to the code without a generator here fails this self-test.
func TestVerifC27_Registry(t *testing.T) {
	defer vkit.Flush()
	var reg []string
	for _, ty := range vc27Types {
		reg = append(reg, "*pilosa."+ty.name)
	}
	for _, fn := range []string{"Unmarshal", "encodeToProto"} {
		cases, err := vc27SwitchCases("encoding/proto/proto.go", fn)
		if err != nil {
			t.Fatalf("reading the type switch of %s: %v", fn, err)
		}
		if got, want := strings.Join(vc27Sorted(cases), " "), strings.Join(vc27Sorted(reg), " "); got != want {
			t.Fatalf("harness registry out of date: types handled by proto.go %s:\n  %s\nregistry:\n  %s", fn, got, want)
		}
		c := vkit.NewCase().Key("switch", fn)
		c.Class("typeswitch:" + fn).NT(true).Sample(map[string]interface{}{"func": fn, "types": len(cases)})
		c.Done()
	}
	cases, err := vc27SwitchCases("encoding/proto/proto.go", "encodeQueryResponse")
	if err != nil {
		t.Fatalf("reading the result kinds of encodeQueryResponse: %v", err)
	}
	if got, want := strings.Join(vc27Sorted(cases), " "), strings.Join(vc27Sorted(vc27ResultKinds), " "); got != want {
		t.Fatalf("harness registry out of date: result kinds of encodeQueryResponse:\n  %s\nregistry:\n  %s", got, want)
	}
	// the value kinds of attributes: the cases of encodeAttr's type switch plus its default branch
	attrCases, err := vc27SwitchCases("encoding/proto/proto.go", "encodeAttr")
	if err != nil {
		t.Fatalf("reading the value kinds of encodeAttr: %v", err)
	}
	attrCases = append(attrCases, "default")
	if got, want := strings.Join(vc27Sorted(attrCases), " "), strings.Join(vc27AttrKindNames, " "); got != want {
		t.Fatalf("harness registry out of date: value kinds of encodeAttr (+default):\n  %s\nattribute generators:\n  %s", got, want)
	}
	// every registry entry really is the type it names
	for _, ty := range vc27Types {
		if got := fmt.Sprintf("%T", ty.new()); got != "*pilosa."+ty.name {
			t.Fatalf("registry entry %s creates a %s", ty.name, got)
		}
	}
	vkit.Extra("exhaustive", true)
	vkit.Extra("message_types", len(vc27Types))
	vkit.Extra("result_kinds", len(vc27ResultKinds))
}

var vc27QueryResponseIdx = func() int {
	for i, ty := range vc27Types {
		if ty.name == "QueryResponse" {
			return i
		}
	}
	panic("no QueryResponse in the registry")
}()

func vc27Marshal(ser proto.Serializer, m pilosa.Message) (buf []byte, err error, pv interface{}) {
	defer func() {
		if r := recover(); r != nil {
			pv = r
		}
	}()
	buf, err = ser.Marshal(m)
	return
}

// vc27PanicInGenerated is set by vc27Unmarshal when the panic it recovered was raised inside the protobuf code generated
// by gogo/protobuf 1.2.0 (internal/*.pb.go), not in the hand-written decode functions: the signature of finding DP14.
var vc27PanicInGenerated bool

func vc27Unmarshal(ser proto.Serializer, buf []byte, m pilosa.Message) (err error, pv interface{}) {
	vc27PanicInGenerated = false
	defer func() {
		if r := recover(); r != nil {
			pv = r
			// the frames between the panic and this function: generated code only?
			st := string(debug.Stack())
			if i := strings.Index(st, "panic("); i >= 0 {
				st = st[i:]
			}
			if j := strings.Index(st, "encoding/proto.Serializer.Unmarshal"); j >= 0 {
				st = st[:j]
			}
			vc27PanicInGenerated = strings.Contains(st, "/internal/public.pb.go") || strings.Contains(st, "/internal/private.pb.go")
			if strings.Contains(st, "encoding/proto/proto.go") {
				vc27PanicInGenerated = false
			}
		}
	}()
	err = ser.Unmarshal(buf, m)
	return
}

func TestVerifC27_RoundTrip(t *testing.T) {
	defer vkit.Flush()
	var ser proto.Serializer
	rapid.Check(t, func(t *rapid.T) {
		// QueryResponse (10 result kinds) gets a quarter of the cases; the rest is spread over the other types
		k := rapid.IntRange(0, len(vc27Types)+len(vc27Types)/3).Draw(t, "type")
		if k >= len(vc27Types) {
			k = vc27QueryResponseIdx
		}
		ty := vc27Types[k]
		v := ty.gen(t)
		want := vc27Canon(v)
		c := vkit.NewCase().Key(want)
		defer c.Done()
		c.Class("type:" + ty.name)
		if qr, ok := v.(*pilosa.QueryResponse); ok {
			for _, r := range qr.Results {
				c.Class(fmt.Sprintf("result:%T", r))
			}
			c.ClassIf(qr.Err != nil, "result:err")
		}
		for kind, n := range vc27AttrKindSeen {
			if n > 0 {
				c.Class("attrvalue:" + kind)
				vc27AttrKindSeen[kind] = 0
			}
		}
		buf, err, pv := vc27Marshal(ser, v)
		if pv != nil {
			t.Fatalf("Marshal(%s) panicked: %v", want, pv)
		}
		if err != nil {
			t.Fatalf("Marshal(%s): %v", want, err)
		}
		c.NT(len(buf) > 0)
		c.Sample(map[string]interface{}{"type": ty.name, "value": want, "encoded_len": len(buf)})
		out := ty.new()
		err, pv = vc27Unmarshal(ser, buf, out)
		if pv != nil {
			t.Fatalf("Unmarshal(Marshal(%s)) panicked: %v", want, pv)
		}
		if err != nil {
			t.Fatalf("Unmarshal(Marshal(%s)): %v", want, err)
		}
		if got := vc27Canon(out); got != want {
			t.Fatalf("%s does not survive encoding:\n sent     %s\n received %s", ty.name, want, got)
		}
	})
}

// structure-aware byte generators
func vc27Mutate(t *rapid.T, valid []byte) []byte {
	b := append([]byte(nil), valid...)
	switch rapid.IntRange(0, 6).Draw(t, "mut") {
	case 0: // truncate
		if len(b) > 0 {
			b = b[:rapid.IntRange(0, len(b)-1).Draw(t, "cut")]
		}
	case 1: // flip bytes
		n := rapid.IntRange(1, 3).Draw(t, "nflip")
		for i := 0; i < n && len(b) > 0; i++ {
			b[rapid.IntRange(0, len(b)-1).Draw(t, "pos")] = rapid.Byte().Draw(t, "byte")
		}
	case 2: // insert
		pos := rapid.IntRange(0, len(b)).Draw(t, "pos")
		ins := rapid.SliceOfN(rapid.Byte(), 1, 4).Draw(t, "ins")
		b = append(b[:pos:pos], append(ins, b[pos:]...)...)
	case 3: // huge varint / length in place of a byte
		if len(b) > 0 {
			pos := rapid.IntRange(0, len(b)-1).Draw(t, "pos")
			huge := rapid.SampledFrom([][]byte{
				{0xff, 0xff, 0xff, 0xff, 0xff, 0xff, 0xff, 0xff, 0xff, 0x01}, // 2^64-1
				{0xff, 0xff, 0xff, 0xff, 0xff, 0xff, 0xff, 0xff, 0xff, 0x00}, // 2^63-1
				{0xff, 0xff, 0xff, 0xff, 0xff, 0xff, 0xff, 0xff, 0x7f},       // 2^63-1, 9 bytes
				{0xf0, 0xff, 0xff, 0xff, 0x07},                               // 2^31-16
			}).Draw(t, "huge")
			b = append(b[:pos:pos], append(append([]byte(nil), huge...), b[pos+1:]...)...)
		}
	case 4: // drop a prefix (re-synchronises on another field)
		if len(b) > 0 {
			b = b[rapid.IntRange(0, len(b)-1).Draw(t, "skip"):]
		}
	case 5: // duplicate (repeated / last-one-wins fields)
		b = append(b, valid...)
	default: // unchanged
	}
	return b
}

func TestVerifC27_Bytes(t *testing.T) {
	defer vkit.Flush()
	var ser proto.Serializer
	rapid.Check(t, func(t *rapid.T) {
		target := vc27Types[rapid.IntRange(0, len(vc27Types)-1).Draw(t, "target")]
		var data []byte
		kind := rapid.SampledFrom([]string{"random", "random", "own-mutated", "own-mutated", "own-mutated", "other-type", "other-mutated", "empty", "tags"}).Draw(t, "kind")
		switch kind {
		case "random":
			data = rapid.SliceOfN(rapid.Byte(), 0, 24).Draw(t, "bytes")
		case "own-mutated":
			buf, _, _ := vc27Marshal(ser, target.gen(t))
			data = vc27Mutate(t, buf)
		case "other-type", "other-mutated":
			other := vc27Types[rapid.IntRange(0, len(vc27Types)-1).Draw(t, "other")]
			buf, _, _ := vc27Marshal(ser, other.gen(t))
			data = buf
			if kind == "other-mutated" {
				data = vc27Mutate(t, buf)
			}
		case "tags":
			// a sequence of well-formed fields with small field numbers and arbitrary wire types / empty nested messages
			n := rapid.IntRange(1, 5).Draw(t, "nfields")
			for i := 0; i < n; i++ {
				field := rapid.IntRange(1, 15).Draw(t, "field")
				switch rapid.IntRange(0, 2).Draw(t, "wire") {
				case 0:
					data = append(data, byte(field<<3|0), rapid.Byte().Draw(t, "varint")&0x7f)
				case 1:
					inner := rapid.SliceOfN(rapid.Byte(), 0, 6).Draw(t, "inner")
					data = append(data, byte(field<<3|2), byte(len(inner)))
					data = append(data, inner...)
				default:
					data = append(data, byte(field<<3|2), 0) // empty nested message / string
				}
			}
		}
		c := vkit.NewCase().Key(target.name, data)
		defer c.Done()
		c.Class("target:" + target.name).Class("bytes:" + kind)
		out := target.new()
		err, pv := vc27Unmarshal(ser, data, out)
		if pv != nil && vc27PanicInGenerated && vkit.Open("DP14") {
			vkit.Excluded("DP14")
			c.Class("DP14-panic-in-generated-code")
			return
		}
		if pv != nil {
			t.Fatalf("Unmarshal of %d bytes %x into *pilosa.%s panicked: %v", len(data), data, target.name, pv)
		}
		// non-trivial: the bytes were a well-formed protobuf for the target, so the hand-written decode* code ran
		c.NT(err == nil)
		c.ClassIf(err == nil, "accepted").ClassIf(err != nil, "rejected")
		c.Sample(map[string]interface{}{"target": target.name, "kind": kind, "bytes": fmt.Sprintf("%x", data), "err": fmt.Sprint(err)})
	})
}

// every result type number x present/absent payload, built directly in the wire representation
func TestVerifC27_ResultKinds(t *testing.T) {
	defer vkit.Flush()
	var ser proto.Serializer
	for typ := uint32(0); typ < 16; typ++ {
		for _, payload := range []string{"none", "all", "emptypairs"} {
			r := &internal.QueryResult{Type: typ}
			switch payload {
			case "all":
				r.Row = &internal.Row{Columns: []uint64{1}}
				r.Pairs = []*internal.Pair{{ID: 1, Count: 2}}
				r.ValCount = &internal.ValCount{Val: 1, Count: 1}
				r.N = 7
				r.Changed = true
				r.RowIDs = []uint64{3}
				r.GroupCounts = []*internal.GroupCount{{Count: 1}}
				r.RowIdentifiers = &internal.RowIdentifiers{Rows: []uint64{1}}
			case "emptypairs":
				r.Pairs = []*internal.Pair{}
			}
			buf, err := gogoproto.Marshal(&internal.QueryResponse{Results: []*internal.QueryResult{r}})
			if err != nil {
				t.Fatalf("building the wire form: %v", err)
			}
			c := vkit.NewCase().Key("resultkind", typ, payload)
			c.Class(fmt.Sprintf("resulttype:%d", typ)).Class("payload:" + payload).NT(true)
			c.Sample(map[string]interface{}{"type": typ, "payload": payload})
			out := &pilosa.QueryResponse{}
			err, pv := vc27Unmarshal(ser, buf, out)
			c.Done()
			if pv != nil {
				t.Fatalf("Unmarshal of a QueryResponse whose result has type %d and payload %q panicked: %v", typ, payload, pv)
			}
			_ = err
		}
	}
	vkit.Extra("exhaustive", true)
}

// D5 (decode side): missing nested messages and unknown / empty results must give an error or a value.
func TestVerifWitness_D5_Proto(t *testing.T) {
	var ser proto.Serializer
	var failed []string
	for _, ty := range vc27Types {
		if err, pv := vc27Unmarshal(ser, nil, ty.new()); pv != nil {
			failed = append(failed, fmt.Sprintf("empty message into *pilosa.%s: panic %v (err %v)", ty.name, pv, err))
		}
	}
	for _, r := range []*internal.QueryResult{{Type: 9}, {Type: 3}, {Type: 8}, {Type: 77}} {
		buf, _ := gogoproto.Marshal(&internal.QueryResponse{Results: []*internal.QueryResult{r}})
		if _, pv := vc27Unmarshal(ser, buf, &pilosa.QueryResponse{}); pv != nil {
			failed = append(failed, fmt.Sprintf("QueryResponse with a result of type %d and no payload: panic %v", r.Type, pv))
		}
	}
	if len(failed) > 0 {
		t.Fatalf("decoding panics instead of returning an error or a value:\n  %s", strings.Join(failed, "\n  "))
	}
}

// DP7: NodeStatus.Node was not decoded.
func TestVerifWitness_DP7(t *testing.T) {
	var ser proto.Serializer
	in := &pilosa.NodeStatus{Node: &pilosa.Node{ID: "node1", State: "READY"}, Schema: &pilosa.Schema{}}
	buf, err := ser.Marshal(in)
	if err != nil {
		t.Fatal(err)
	}
	out := &pilosa.NodeStatus{}
	if err := ser.Unmarshal(buf, out); err != nil {
		t.Fatal(err)
	}
	if out.Node == nil || out.Node.ID != "node1" {
		t.Fatalf("NodeStatus.Node does not survive encoding: sent %+v, received %+v", in.Node, out.Node)
	}
}

// DP8: the options of an index are not part of the encoded schema.
func TestVerifWitness_DP8(t *testing.T) {
	var ser proto.Serializer
	in := &pilosa.NodeStatus{Node: &pilosa.Node{}, Schema: &pilosa.Schema{Indexes: []*pilosa.IndexInfo{{Name: "i", Options: pilosa.IndexOptions{Keys: true, TrackExistence: true}}}}}
	buf, err := ser.Marshal(in)
	if err != nil {
		t.Fatal(err)
	}
	out := &pilosa.NodeStatus{}
	if err := ser.Unmarshal(buf, out); err != nil {
		t.Fatal(err)
	}
	if got := out.Schema.Indexes[0].Options; got != in.Schema.Indexes[0].Options {
		t.Fatalf("IndexInfo.Options does not survive encoding: sent %+v, received %+v (a node that learns the schema from a NodeStatus / ResizeInstruction creates the index without keys)", in.Schema.Indexes[0].Options, got)
	}
}

// DP9: FieldOptions.NoStandardView was not encoded.
func TestVerifWitness_DP9(t *testing.T) {
	var ser proto.Serializer
	in := &pilosa.CreateFieldMessage{Index: "i", Field: "t", Meta: &pilosa.FieldOptions{Type: "time", TimeQuantum: "YMD", NoStandardView: true}}
	buf, err := ser.Marshal(in)
	if err != nil {
		t.Fatal(err)
	}
	out := &pilosa.CreateFieldMessage{}
	if err := ser.Unmarshal(buf, out); err != nil {
		t.Fatal(err)
	}
	if !out.Meta.NoStandardView {
		t.Fatalf("FieldOptions.NoStandardView does not survive encoding: the peers create the field with a standard view")
	}
}

// DP14 (open): the Unmarshal code generated by gogo/protobuf 1.2.0 (CVE-2021-3121) adds a length read from the
// input to its index without an overflow check; a length near 2^63 makes the index negative and the decoder panics.
func TestVerifWitness_DP14(t *testing.T) {
	var ser proto.Serializer
	data, _ := hex.DecodeString("830f828001ffffffffffffffffff000000")
	if _, pv := vc27Unmarshal(ser, data, &pilosa.TranslateKeysResponse{}); pv != nil {
		t.Fatalf("Unmarshal of %x into *pilosa.TranslateKeysResponse panics (in generated code: %v): %v", data, vc27PanicInGenerated, pv)
	}
}
