package proto_test

// C27 — registry of every message type of proto.Serializer, generators of values, canonical comparison.

import (
	"encoding/hex"
	"errors"
	"fmt"
	"go/ast"
	"go/parser"
	"go/token"
	"math"
	"os"
	"path/filepath"
	"reflect"
	"sort"
	"strings"

	"github.com/pilosa/pilosa"
	"github.com/pilosa/pilosa/internal/vkit"
	"github.com/pilosa/pilosa/roaring"
	"pgregory.net/rapid"
)

type vc27Type struct {
	name string
	new  func() pilosa.Message
	gen  func(t *rapid.T) pilosa.Message
}

func vc27Str(t *rapid.T, label string) string {
	switch rapid.IntRange(0, 5).Draw(t, label+"kind") {
	case 0:
		return ""
	case 1, 2:
		return rapid.SampledFrom([]string{"i", "f", "standard", "idx-1", "é", "日本語", "😀", "a b", "x\x00y", "NORMAL", "node0"}).Draw(t, label)
	default:
		return rapid.String().Draw(t, label)
	}
}

func vc27U64(t *rapid.T, label string) uint64 {
	switch rapid.IntRange(0, 4).Draw(t, label+"kind") {
	case 0:
		return 0
	case 1:
		return math.MaxUint64
	case 2:
		return uint64(rapid.IntRange(0, 1000).Draw(t, label))
	default:
		return rapid.Uint64().Draw(t, label)
	}
}

func vc27I64(t *rapid.T, label string) int64 {
	switch rapid.IntRange(0, 4).Draw(t, label+"kind") {
	case 0:
		return 0
	case 1:
		return rapid.SampledFrom([]int64{math.MaxInt64, math.MinInt64, -1}).Draw(t, label)
	default:
		return rapid.Int64().Draw(t, label)
	}
}

func vc27U64s(t *rapid.T, label string) []uint64 {
	n := rapid.SampledFrom([]int{0, 0, 1, 2, 5}).Draw(t, label+"n")
	if n == 0 && rapid.Bool().Draw(t, label+"nil") {
		return nil
	}
	out := make([]uint64, n)
	for i := range out {
		out[i] = vc27U64(t, label)
	}
	return out
}

func vc27I64s(t *rapid.T, label string) []int64 {
	n := rapid.SampledFrom([]int{0, 0, 1, 2, 5}).Draw(t, label+"n")
	if n == 0 && rapid.Bool().Draw(t, label+"nil") {
		return nil
	}
	out := make([]int64, n)
	for i := range out {
		out[i] = vc27I64(t, label)
	}
	return out
}

func vc27Strs(t *rapid.T, label string) []string {
	n := rapid.SampledFrom([]int{0, 0, 1, 2, 4}).Draw(t, label+"n")
	if n == 0 && rapid.Bool().Draw(t, label+"nil") {
		return nil
	}
	out := make([]string, n)
	for i := range out {
		out[i] = vc27Str(t, label)
	}
	return out
}

func vc27Node(t *rapid.T) *pilosa.Node {
	return &pilosa.Node{
		ID:            vc27Str(t, "nodeID"),
		URI:           pilosa.URI{Scheme: vc27Str(t, "scheme"), Host: vc27Str(t, "host"), Port: rapid.Uint16().Draw(t, "port")},
		IsCoordinator: rapid.Bool().Draw(t, "coord"),
		State:         vc27Str(t, "nodeState"),
	}
}

func vc27Nodes(t *rapid.T) []*pilosa.Node {
	n := rapid.IntRange(0, 3).Draw(t, "nnodes")
	out := make([]*pilosa.Node, n)
	for i := range out {
		out[i] = vc27Node(t)
	}
	return out
}

func vc27FieldOptions(t *rapid.T) pilosa.FieldOptions {
	return pilosa.FieldOptions{
		Base:           vc27I64(t, "base"),
		BitDepth:       uint(rapid.Uint64().Draw(t, "bitdepth")),
		Min:            vc27I64(t, "min"),
		Max:            vc27I64(t, "max"),
		Keys:           rapid.Bool().Draw(t, "keys"),
		NoStandardView: rapid.Bool().Draw(t, "nostd"),
		CacheSize:      rapid.Uint32().Draw(t, "cachesize"),
		CacheType:      vc27Str(t, "cachetype"),
		Type:           vc27Str(t, "ftype"),
		TimeQuantum:    pilosa.TimeQuantum(vc27Str(t, "tq")),
	}
}

func vc27Schema(t *rapid.T) *pilosa.Schema {
	s := &pilosa.Schema{}
	ni := rapid.IntRange(0, 3).Draw(t, "nindexes")
	for i := 0; i < ni; i++ {
		ii := &pilosa.IndexInfo{Name: vc27Str(t, "iname")}
		if !vkit.Open("DP8") {
			ii.Options = pilosa.IndexOptions{Keys: rapid.Bool().Draw(t, "ikeys"), TrackExistence: rapid.Bool().Draw(t, "itrack")}
		} else {
			vkit.Excluded("DP8")
		}
		nf := rapid.IntRange(0, 3).Draw(t, "nfields")
		for j := 0; j < nf; j++ {
			fi := &pilosa.FieldInfo{Name: vc27Str(t, "fname"), Options: vc27FieldOptions(t)}
			nv := rapid.IntRange(0, 2).Draw(t, "nviews")
			for k := 0; k < nv; k++ {
				fi.Views = append(fi.Views, &pilosa.ViewInfo{Name: vc27Str(t, "vname")})
			}
			ii.Fields = append(ii.Fields, fi)
		}
		s.Indexes = append(s.Indexes, ii)
	}
	return s
}

func vc27NodeStatus(t *rapid.T) *pilosa.NodeStatus {
	ns := &pilosa.NodeStatus{Node: vc27Node(t), Schema: vc27Schema(t)}
	ni := rapid.IntRange(0, 2).Draw(t, "nistatus")
	for i := 0; i < ni; i++ {
		is := &pilosa.IndexStatus{Name: vc27Str(t, "isname")}
		nf := rapid.IntRange(0, 2).Draw(t, "nfstatus")
		for j := 0; j < nf; j++ {
			is.Fields = append(is.Fields, &pilosa.FieldStatus{Name: vc27Str(t, "fsname"), AvailableShards: roaring.NewBitmap(vc27U64s(t, "avail")...)})
		}
		ns.Indexes = append(ns.Indexes, is)
	}
	return ns
}

func vc27ClusterStatus(t *rapid.T) *pilosa.ClusterStatus {
	return &pilosa.ClusterStatus{ClusterID: vc27Str(t, "clusterID"), State: vc27Str(t, "cstate"), Nodes: vc27Nodes(t)}
}

// vc27AttrKinds: one generator per value kind that encodeAttr accepts. The keys are the case types of its type
// switch plus "default" for the branch taken by every other value; TestVerifC27_Registry reads the switch from the
// source and fails when the two sets differ. In the default branch the only value that has a meaning of its own is
// nil ("attribute removed"): it is sent as an Attr without a type and decodes to key: nil.
var vc27AttrKinds = map[string]func(t *rapid.T, label string) interface{}{
	"string": func(t *rapid.T, label string) interface{} { return vc27Str(t, label+"sval") },
	"int64":  func(t *rapid.T, label string) interface{} { return vc27I64(t, label+"ival") },
	// decodes as the int64 of the same value (vc27Dump identifies the two inside attribute maps)
	"uint64": func(t *rapid.T, label string) interface{} {
		return uint64(rapid.Int64Range(0, math.MaxInt64).Draw(t, label+"uval"))
	},
	"bool": func(t *rapid.T, label string) interface{} { return rapid.Bool().Draw(t, label+"bval") },
	"float64": func(t *rapid.T, label string) interface{} {
		return rapid.SampledFrom([]float64{0, 1, -1.5, 1e21, math.MaxFloat64, math.SmallestNonzeroFloat64, math.Inf(1), 0.1, math.Copysign(0, -1)}).Draw(t, label+"fval")
	},
	"default": func(t *rapid.T, label string) interface{} { return nil },
}

var vc27AttrKindNames = func() []string {
	var names []string
	for k := range vc27AttrKinds {
		names = append(names, k)
	}
	sort.Strings(names)
	return names
}()

// attribute maps: every value kind of encodeAttr, nil maps, empty maps, empty keys
func vc27Attrs(t *rapid.T, label string) map[string]interface{} {
	n := rapid.IntRange(0, 4).Draw(t, label+"n")
	if n == 0 && rapid.Bool().Draw(t, label+"nil") {
		return nil
	}
	m := map[string]interface{}{}
	for i := 0; i < n; i++ {
		k := vc27Str(t, label+"key")
		kind := rapid.SampledFrom(vc27AttrKindNames).Draw(t, label+"vkind")
		m[k] = vc27AttrKinds[kind](t, label)
		vc27AttrKindSeen[kind]++
	}
	return m
}

// how often each attribute value kind was generated (reported as classes by the round-trip test)
var vc27AttrKindSeen = map[string]int{}

func vc27Row(t *rapid.T) *pilosa.Row {
	if rapid.IntRange(0, 7).Draw(t, "rownil") == 0 {
		return nil
	}
	r := pilosa.NewRow()
	for _, c := range vc27U64s(t, "cols") {
		if c > math.MaxUint64-pilosa.ShardWidth {
			c = 1 // SetBit of the last shard overflows the segment bounds; not a codec matter
		}
		r.SetBit(c)
	}
	r.Keys = vc27Strs(t, "rowkeys")
	r.Attrs = vc27Attrs(t, "rowattr")
	return r
}

func vc27Pair(t *rapid.T) pilosa.Pair {
	return pilosa.Pair{ID: vc27U64(t, "pid"), Key: vc27Str(t, "pkey"), Count: vc27U64(t, "pcount")}
}

var vc27ResultKinds = []string{"*pilosa.Row", "[]pilosa.Pair", "pilosa.ValCount", "uint64", "bool", "pilosa.RowIDs", "[]pilosa.GroupCount", "pilosa.RowIdentifiers", "pilosa.Pair", "nil"}

func vc27Result(t *rapid.T, kind string) interface{} {
	switch kind {
	case "*pilosa.Row":
		return vc27Row(t)
	case "[]pilosa.Pair":
		n := rapid.IntRange(0, 3).Draw(t, "npairs")
		ps := make([]pilosa.Pair, n)
		for i := range ps {
			ps[i] = vc27Pair(t)
		}
		return ps
	case "pilosa.ValCount":
		return pilosa.ValCount{Val: vc27I64(t, "val"), Count: vc27I64(t, "vcount")}
	case "uint64":
		return vc27U64(t, "n")
	case "bool":
		return rapid.Bool().Draw(t, "changed")
	case "pilosa.RowIDs":
		return pilosa.RowIDs(vc27U64s(t, "rowids"))
	case "[]pilosa.GroupCount":
		n := rapid.IntRange(0, 3).Draw(t, "ngc")
		gcs := make([]pilosa.GroupCount, n)
		for i := range gcs {
			ng := rapid.IntRange(0, 3).Draw(t, "ngroup")
			for j := 0; j < ng; j++ {
				fr := pilosa.FieldRow{Field: vc27Str(t, "grfield")}
				// a group member is identified by a row id or (keyed field) by a non-empty row key
				if rapid.Bool().Draw(t, "grkeyed") {
					fr.RowKey = vc27Str(t, "grkey")
					if fr.RowKey == "" {
						fr.RowKey = "k"
					}
				} else {
					fr.RowID = vc27U64(t, "grid")
				}
				gcs[i].Group = append(gcs[i].Group, fr)
			}
			gcs[i].Count = vc27U64(t, "gcount")
		}
		return gcs
	case "pilosa.RowIdentifiers":
		return pilosa.RowIdentifiers{Rows: vc27U64s(t, "rirows"), Keys: vc27Strs(t, "rikeys")}
	case "pilosa.Pair":
		return vc27Pair(t)
	default:
		return nil
	}
}

func vc27QueryResponse(t *rapid.T) pilosa.Message {
	qr := &pilosa.QueryResponse{}
	n := rapid.IntRange(0, 4).Draw(t, "nresults")
	for i := 0; i < n; i++ {
		kind := rapid.SampledFrom(vc27ResultKinds).Draw(t, "rkind")
		qr.Results = append(qr.Results, vc27Result(t, kind))
	}
	nc := rapid.IntRange(0, 2).Draw(t, "ncolattr")
	for i := 0; i < nc; i++ {
		qr.ColumnAttrSets = append(qr.ColumnAttrSets, &pilosa.ColumnAttrSet{ID: vc27U64(t, "caid"), Key: vc27Str(t, "cakey"), Attrs: vc27Attrs(t, "caattr")})
	}
	if rapid.Bool().Draw(t, "haserr") {
		msg := vc27Str(t, "errmsg")
		if msg == "" {
			msg = "e" // the empty message is how "no error" is encoded
		}
		qr.Err = errors.New(msg)
	}
	return qr
}

var vc27Types = []vc27Type{
	{"CreateShardMessage", func() pilosa.Message { return &pilosa.CreateShardMessage{} }, func(t *rapid.T) pilosa.Message {
		return &pilosa.CreateShardMessage{Index: vc27Str(t, "index"), Field: vc27Str(t, "field"), Shard: vc27U64(t, "shard")}
	}},
	{"CreateIndexMessage", func() pilosa.Message { return &pilosa.CreateIndexMessage{} }, func(t *rapid.T) pilosa.Message {
		return &pilosa.CreateIndexMessage{Index: vc27Str(t, "index"), Meta: &pilosa.IndexOptions{Keys: rapid.Bool().Draw(t, "keys"), TrackExistence: rapid.Bool().Draw(t, "track")}}
	}},
	{"DeleteIndexMessage", func() pilosa.Message { return &pilosa.DeleteIndexMessage{} }, func(t *rapid.T) pilosa.Message {
		return &pilosa.DeleteIndexMessage{Index: vc27Str(t, "index")}
	}},
	{"CreateFieldMessage", func() pilosa.Message { return &pilosa.CreateFieldMessage{} }, func(t *rapid.T) pilosa.Message {
		fo := vc27FieldOptions(t)
		return &pilosa.CreateFieldMessage{Index: vc27Str(t, "index"), Field: vc27Str(t, "field"), Meta: &fo}
	}},
	{"DeleteFieldMessage", func() pilosa.Message { return &pilosa.DeleteFieldMessage{} }, func(t *rapid.T) pilosa.Message {
		return &pilosa.DeleteFieldMessage{Index: vc27Str(t, "index"), Field: vc27Str(t, "field")}
	}},
	{"DeleteAvailableShardMessage", func() pilosa.Message { return &pilosa.DeleteAvailableShardMessage{} }, func(t *rapid.T) pilosa.Message {
		return &pilosa.DeleteAvailableShardMessage{Index: vc27Str(t, "index"), Field: vc27Str(t, "field"), ShardID: vc27U64(t, "shard")}
	}},
	{"CreateViewMessage", func() pilosa.Message { return &pilosa.CreateViewMessage{} }, func(t *rapid.T) pilosa.Message {
		return &pilosa.CreateViewMessage{Index: vc27Str(t, "index"), Field: vc27Str(t, "field"), View: vc27Str(t, "view")}
	}},
	{"DeleteViewMessage", func() pilosa.Message { return &pilosa.DeleteViewMessage{} }, func(t *rapid.T) pilosa.Message {
		return &pilosa.DeleteViewMessage{Index: vc27Str(t, "index"), Field: vc27Str(t, "field"), View: vc27Str(t, "view")}
	}},
	{"ClusterStatus", func() pilosa.Message { return &pilosa.ClusterStatus{} }, func(t *rapid.T) pilosa.Message { return vc27ClusterStatus(t) }},
	{"ResizeInstruction", func() pilosa.Message { return &pilosa.ResizeInstruction{} }, func(t *rapid.T) pilosa.Message {
		ri := &pilosa.ResizeInstruction{JobID: vc27I64(t, "job"), Node: vc27Node(t), Coordinator: vc27Node(t), NodeStatus: vc27NodeStatus(t), ClusterStatus: vc27ClusterStatus(t)}
		n := rapid.IntRange(0, 3).Draw(t, "nsources")
		for i := 0; i < n; i++ {
			ri.Sources = append(ri.Sources, &pilosa.ResizeSource{Node: vc27Node(t), Index: vc27Str(t, "sindex"), Field: vc27Str(t, "sfield"), View: vc27Str(t, "sview"), Shard: vc27U64(t, "sshard")})
		}
		return ri
	}},
	{"ResizeInstructionComplete", func() pilosa.Message { return &pilosa.ResizeInstructionComplete{} }, func(t *rapid.T) pilosa.Message {
		return &pilosa.ResizeInstructionComplete{JobID: vc27I64(t, "job"), Node: vc27Node(t), Error: vc27Str(t, "error")}
	}},
	{"SetCoordinatorMessage", func() pilosa.Message { return &pilosa.SetCoordinatorMessage{} }, func(t *rapid.T) pilosa.Message {
		return &pilosa.SetCoordinatorMessage{New: vc27Node(t)}
	}},
	{"UpdateCoordinatorMessage", func() pilosa.Message { return &pilosa.UpdateCoordinatorMessage{} }, func(t *rapid.T) pilosa.Message {
		return &pilosa.UpdateCoordinatorMessage{New: vc27Node(t)}
	}},
	{"NodeStateMessage", func() pilosa.Message { return &pilosa.NodeStateMessage{} }, func(t *rapid.T) pilosa.Message {
		return &pilosa.NodeStateMessage{NodeID: vc27Str(t, "nodeID"), State: vc27Str(t, "state")}
	}},
	{"RecalculateCaches", func() pilosa.Message { return &pilosa.RecalculateCaches{} }, func(t *rapid.T) pilosa.Message { return &pilosa.RecalculateCaches{} }},
	{"NodeEvent", func() pilosa.Message { return &pilosa.NodeEvent{} }, func(t *rapid.T) pilosa.Message {
		return &pilosa.NodeEvent{Event: pilosa.NodeEventType(rapid.IntRange(0, 3).Draw(t, "event")), Node: vc27Node(t)}
	}},
	{"NodeStatus", func() pilosa.Message { return &pilosa.NodeStatus{} }, func(t *rapid.T) pilosa.Message { return vc27NodeStatus(t) }},
	{"Node", func() pilosa.Message { return &pilosa.Node{} }, func(t *rapid.T) pilosa.Message { return vc27Node(t) }},
	{"QueryRequest", func() pilosa.Message { return &pilosa.QueryRequest{} }, func(t *rapid.T) pilosa.Message {
		return &pilosa.QueryRequest{Index: vc27Str(t, "index"), Query: vc27Str(t, "query"), Shards: vc27U64s(t, "shards"), ColumnAttrs: rapid.Bool().Draw(t, "ca"),
			Remote: rapid.Bool().Draw(t, "remote"), ExcludeRowAttrs: rapid.Bool().Draw(t, "era"), ExcludeColumns: rapid.Bool().Draw(t, "ec")}
	}},
	{"QueryResponse", func() pilosa.Message { return &pilosa.QueryResponse{} }, vc27QueryResponse},
	{"ImportRequest", func() pilosa.Message { return &pilosa.ImportRequest{} }, func(t *rapid.T) pilosa.Message {
		return &pilosa.ImportRequest{Index: vc27Str(t, "index"), Field: vc27Str(t, "field"), Shard: vc27U64(t, "shard"), RowIDs: vc27U64s(t, "rows"), ColumnIDs: vc27U64s(t, "cols"),
			RowKeys: vc27Strs(t, "rowkeys"), ColumnKeys: vc27Strs(t, "colkeys"), Timestamps: vc27I64s(t, "ts")}
	}},
	{"ImportValueRequest", func() pilosa.Message { return &pilosa.ImportValueRequest{} }, func(t *rapid.T) pilosa.Message {
		return &pilosa.ImportValueRequest{Index: vc27Str(t, "index"), Field: vc27Str(t, "field"), Shard: vc27U64(t, "shard"), ColumnIDs: vc27U64s(t, "cols"),
			ColumnKeys: vc27Strs(t, "colkeys"), Values: vc27I64s(t, "values")}
	}},
	{"ImportRoaringRequest", func() pilosa.Message { return &pilosa.ImportRoaringRequest{} }, func(t *rapid.T) pilosa.Message {
		m := &pilosa.ImportRoaringRequest{Clear: rapid.Bool().Draw(t, "clear")}
		n := rapid.IntRange(0, 3).Draw(t, "nviews")
		if n > 0 || rapid.Bool().Draw(t, "emptymap") {
			m.Views = map[string][]byte{}
		}
		for i := 0; i < n; i++ {
			m.Views[vc27Str(t, "viewname")] = rapid.SliceOfN(rapid.Byte(), 0, 12).Draw(t, "viewdata")
		}
		return m
	}},
	{"ImportResponse", func() pilosa.Message { return &pilosa.ImportResponse{} }, func(t *rapid.T) pilosa.Message {
		return &pilosa.ImportResponse{Err: vc27Str(t, "err")}
	}},
	{"BlockDataRequest", func() pilosa.Message { return &pilosa.BlockDataRequest{} }, func(t *rapid.T) pilosa.Message {
		return &pilosa.BlockDataRequest{Index: vc27Str(t, "index"), Field: vc27Str(t, "field"), View: vc27Str(t, "view"), Shard: vc27U64(t, "shard"), Block: vc27U64(t, "block")}
	}},
	{"BlockDataResponse", func() pilosa.Message { return &pilosa.BlockDataResponse{} }, func(t *rapid.T) pilosa.Message {
		return &pilosa.BlockDataResponse{RowIDs: vc27U64s(t, "rows"), ColumnIDs: vc27U64s(t, "cols")}
	}},
	{"TranslateKeysRequest", func() pilosa.Message { return &pilosa.TranslateKeysRequest{} }, func(t *rapid.T) pilosa.Message {
		return &pilosa.TranslateKeysRequest{Index: vc27Str(t, "index"), Field: vc27Str(t, "field"), Keys: vc27Strs(t, "keys")}
	}},
	{"TranslateKeysResponse", func() pilosa.Message { return &pilosa.TranslateKeysResponse{} }, func(t *rapid.T) pilosa.Message {
		return &pilosa.TranslateKeysResponse{IDs: vc27U64s(t, "ids")}
	}},
}

// ---- canonical rendering: nil and empty slices/maps are identified, *RowIdentifiers and RowIdentifiers are identified,
// errors are compared by message, rows by columns/keys/attrs, bitmaps by their values.
// Not part of the encoding by design (and skipped): QueryRequest.Index (travels in the URL), IndexInfo.ShardWidth (a constant of the build).

func vc27Canon(v interface{}) string {
	var sb strings.Builder
	vc27Dump(reflect.ValueOf(v), &sb)
	return sb.String()
}

func vc27Dump(v reflect.Value, sb *strings.Builder) {
	if !v.IsValid() {
		sb.WriteString("nil")
		return
	}
	if v.CanInterface() {
		switch x := v.Interface().(type) {
		case *pilosa.Row:
			if x == nil {
				sb.WriteString("Row(nil)")
				return
			}
			fmt.Fprintf(sb, "Row{cols:%v keys:%q attrs:", x.Columns(), x.Keys)
			vc27Dump(reflect.ValueOf(x.Attrs), sb)
			sb.WriteString("}")
			return
		case *roaring.Bitmap:
			if x == nil {
				sb.WriteString("Bitmap(nil)")
				return
			}
			fmt.Fprintf(sb, "Bitmap%v", x.Slice())
			return
		case *pilosa.RowIdentifiers:
			if x != nil {
				vc27Dump(reflect.ValueOf(*x), sb)
				return
			}
		case error:
			fmt.Fprintf(sb, "error(%q)", x.Error())
			return
		case []byte:
			sb.WriteString("bytes(" + hex.EncodeToString(x) + ")")
			return
		}
	}
	switch v.Kind() {
	case reflect.Ptr:
		if v.IsNil() {
			sb.WriteString("nil")
			return
		}
		sb.WriteString("&")
		vc27Dump(v.Elem(), sb)
	case reflect.Interface:
		if v.IsNil() {
			sb.WriteString("nil")
			return
		}
		vc27Dump(v.Elem(), sb)
	case reflect.Struct:
		t := v.Type()
		sb.WriteString(t.Name() + "{")
		for i := 0; i < t.NumField(); i++ {
			f := t.Field(i)
			if f.PkgPath != "" {
				continue
			}
			if (t.Name() == "QueryRequest" && f.Name == "Index") || (t.Name() == "IndexInfo" && f.Name == "ShardWidth") {
				continue
			}
			sb.WriteString(f.Name + ":")
			vc27Dump(v.Field(i), sb)
			sb.WriteString(" ")
		}
		sb.WriteString("}")
	case reflect.Slice, reflect.Array:
		fmt.Fprintf(sb, "%s[", v.Type().Elem().Kind())
		for i := 0; i < v.Len(); i++ {
			vc27Dump(v.Index(i), sb)
			sb.WriteString(",")
		}
		sb.WriteString("]")
	case reflect.Map:
		keys := v.MapKeys()
		sort.Slice(keys, func(i, j int) bool { return fmt.Sprint(keys[i]) < fmt.Sprint(keys[j]) })
		sb.WriteString("map{")
		for _, k := range keys {
			fmt.Fprintf(sb, "%q:", fmt.Sprint(k))
			el := v.MapIndex(k)
			if el.Kind() == reflect.Interface && !el.IsNil() && el.Elem().Kind() == reflect.Uint64 && el.Elem().Uint() <= math.MaxInt64 {
				// attribute values: a uint64 is stored and sent as the int64 of the same value
				fmt.Fprintf(sb, "int64(%d)", el.Elem().Uint())
			} else {
				vc27Dump(el, sb)
			}
			sb.WriteString(",")
		}
		sb.WriteString("}")
	case reflect.Float64, reflect.Float32:
		f := v.Float()
		if f == 0 {
			f = 0 // -0 and +0 are equal; proto3 does not put a zero on the wire at all
		}
		fmt.Fprintf(sb, "%s(%x)", v.Kind(), math.Float64bits(f))
	case reflect.String:
		fmt.Fprintf(sb, "%q", v.String())
	default:
		fmt.Fprintf(sb, "%s(%v)", v.Kind(), v)
	}
}

// ---- the type switches of the code under test, read from its source

func vc27RepoFile(rel string) (string, error) {
	root := os.Getenv("VERIF_REPO")
	if root == "" {
		return "", fmt.Errorf("VERIF_REPO is not set")
	}
	return filepath.Join(root, rel), nil
}

// vc27SwitchCases returns the type names (`*pilosa.X`, `[]pilosa.Pair`, `nil`, ...) of the first type switch in function fn of file rel.
func vc27SwitchCases(rel, fn string) ([]string, error) {
	path, err := vc27RepoFile(rel)
	if err != nil {
		return nil, err
	}
	fset := token.NewFileSet()
	f, err := parser.ParseFile(fset, path, nil, 0)
	if err != nil {
		return nil, err
	}
	var out []string
	found := false
	for _, d := range f.Decls {
		fd, ok := d.(*ast.FuncDecl)
		if !ok || fd.Name.Name != fn {
			continue
		}
		ast.Inspect(fd.Body, func(n ast.Node) bool {
			ts, ok := n.(*ast.TypeSwitchStmt)
			if !ok || found {
				return true
			}
			found = true
			for _, st := range ts.Body.List {
				cc := st.(*ast.CaseClause)
				for _, e := range cc.List {
					out = append(out, vc27ExprString(e))
				}
			}
			return false
		})
	}
	if !found {
		return nil, fmt.Errorf("no type switch found in %s of %s", fn, path)
	}
	return out, nil
}

func vc27ExprString(e ast.Expr) string {
	switch x := e.(type) {
	case *ast.StarExpr:
		return "*" + vc27ExprString(x.X)
	case *ast.SelectorExpr:
		return vc27ExprString(x.X) + "." + x.Sel.Name
	case *ast.Ident:
		return x.Name
	case *ast.ArrayType:
		return "[]" + vc27ExprString(x.Elt)
	}
	return fmt.Sprintf("%T", e)
}
