package server_test

// C18 (API level) — Row(f=r, from, to) and Rows(f, from, to) return exactly the columns / rows set with a
// timestamp in the (aligned, explicit) range, for every quantum, with and without the standard view.

import (
	"fmt"
	"strings"
	"testing"
	"time"

	"github.com/pilosa/pilosa"
	"github.com/pilosa/pilosa/internal/vkit"
	"pgregory.net/rapid"
)

type vC18Bit struct {
	Row, Col uint64
	TS       time.Time // zero = no timestamp
	ViaAPI   bool      // written with API.Import instead of Set()
}

func (b vC18Bit) String() string {
	ts := "-"
	if !b.TS.IsZero() {
		ts = b.TS.Format("2006-01-02T15:04")
	}
	p := "set"
	if b.ViaAPI {
		p = "imp"
	}
	return fmt.Sprintf("(%d,%d,%s,%s)", b.Row, b.Col, ts, p)
}

func vC18ViewCount(bits []vC18Bit, q pilosa.TimeQuantum) int {
	seen := map[string]bool{}
	for _, b := range bits {
		if b.TS.IsZero() {
			continue
		}
		for _, u := range q {
			seen[string(u)+vgtTrunc(b.TS, u).Format("2006010215")] = true
		}
	}
	return len(seen)
}

func TestVerifC18_API(t *testing.T) {
	defer vkit.Flush()
	srv := vgtStartServer()
	defer srv.Close()
	rapid.Check(t, func(t *rapid.T) {
		q := rapid.SampledFrom(vgtQuanta).Draw(t, "q")
		noStd := rapid.Bool().Draw(t, "noStandardView")
		nbits := rapid.IntRange(1, 12).Draw(t, "nbits")
		var bits []vC18Bit
		var anchors []time.Time
		resets := 0
		for i := 0; i < nbits; i++ {
			l := fmt.Sprintf("b%d", i)
			b := vC18Bit{
				Row: rapid.SampledFrom([]uint64{0, 1, 1, 2, 7, 100}).Draw(t, l+".row"),
				Col: rapid.SampledFrom(vgtColPool).Draw(t, l+".col"),
			}
			if rapid.IntRange(0, 7).Draw(t, l+".hasTS") > 0 {
				b.TS = vgtGenStamp(t, l, anchors)
				anchors = append(anchors, b.TS)
			}
			b.ViaAPI = rapid.Bool().Draw(t, l+".viaImport")
			if i > 0 && rapid.IntRange(0, 2).Draw(t, l+".again") == 0 {
				// the same (row, column) bit again, at another timestamp (or first without, then with one):
				// the model stays "columns with a timestamp in range"
				prev := bits[rapid.IntRange(0, i-1).Draw(t, l+".prev")]
				b.Row, b.Col = prev.Row, prev.Col
				if b.TS.IsZero() {
					b.TS = vgtGenStamp(t, l+".againTS", anchors)
					anchors = append(anchors, b.TS)
				}
				if rapid.IntRange(0, 3).Draw(t, l+".samePath") > 0 {
					b.ViaAPI = prev.ViaAPI
				}
				resets++
			}
			bits = append(bits, b)
		}
		c := vkit.NewCase().Key("api", q, noStd, fmt.Sprint(bits))
		defer c.Done()
		c.Class("q:"+string(q)).ClassIf(noStd, "noStandardView").ClassIf(resets > 0, "sameBitSeveralTimestamps")

		index, drop := srv.newIndex(t, pilosa.IndexOptions{})
		defer drop()
		srv.createField(t, index, "f", pilosa.OptFieldTypeTime(q, noStd))

		// write: Set() calls in one query, imports in one request per shard
		var sets []string
		var ir, ic []uint64
		var its []int64
		for _, b := range bits {
			if b.ViaAPI {
				ir, ic = append(ir, b.Row), append(ic, b.Col)
				if b.TS.IsZero() {
					its = append(its, 0)
				} else {
					its = append(its, b.TS.UnixNano())
				}
				continue
			}
			if b.TS.IsZero() {
				sets = append(sets, fmt.Sprintf("Set(%d, f=%d)", b.Col, b.Row))
			} else {
				sets = append(sets, fmt.Sprintf("Set(%d, f=%d, %s)", b.Col, b.Row, vgtPQLTime(b.TS)))
			}
		}
		srv.runBatched(t, index, sets)
		if len(ir) > 0 {
			srv.importIDs(t, index, "f", ir, ic, its, false)
		}

		// query ranges aligned to the finest unit
		unit := vgtFinest(q)
		nq := rapid.IntRange(2, 6).Draw(t, "nqueries")
		cut, edgeRange := false, false
		var described []string
		for qi := 0; qi < nq; qi++ {
			l := fmt.Sprintf("r%d", qi)
			var from, to time.Time
			kind := rapid.IntRange(0, 5).Draw(t, l+".kind")
			if kind <= 2 && kind >= 1 && len(anchors) == 0 {
				kind = 3
			}
			switch kind {
			case 1, 2: // ends right before / after the unit of a stored bit and starts near a coarser-unit boundary k units earlier
				s := anchors[rapid.IntRange(0, len(anchors)-1).Draw(t, l+".endAt")]
				to = vgtAdd(vgtTrunc(s, unit), unit, rapid.IntRange(0, 1).Draw(t, l+".incl"))
				cu := rapid.SampledFrom([]rune(string(q))).Draw(t, l+".cu")
				from = vgtAdd(vgtTrunc(s, cu), cu, -rapid.IntRange(0, 2).Draw(t, l+".back"))
				from = vgtAdd(from, unit, -rapid.IntRange(0, 2).Draw(t, l+".j"))
				edgeRange = true
			case 0: // whole span of the stored timestamps (+- a unit)
				from, to = vgtDate(2019, 1, 1, 0), vgtDate(2019, 1, 1, 0)
				for i, a := range anchors {
					if i == 0 || a.Before(from) {
						from = a
					}
					if i == 0 || a.After(to) {
						to = a
					}
				}
				from, to = vgtAdd(vgtTrunc(from, unit), unit, -1), vgtAdd(vgtTrunc(to, unit), unit, 2)
			default:
				from = vgtTrunc(vgtGenStamp(t, l+".from", anchors), unit)
				if rapid.Bool().Draw(t, l+".short") {
					to = vgtAdd(from, unit, rapid.IntRange(0, 5).Draw(t, l+".len"))
				} else {
					to = vgtTrunc(vgtGenStamp(t, l+".to", anchors), unit)
				}
			}
			if to.Before(from) {
				from, to = to, from
			}
			fromS, toS := vgtPQLTime(from), vgtPQLTime(to)
			if from.Year() >= 1971 && rapid.IntRange(0, 2).Draw(t, l+".unix") == 0 {
				fromS, toS = fmt.Sprint(from.Unix()), fmt.Sprint(to.Unix())
			}
			wantRows := map[uint64]bool{}
			wantCols := map[uint64]map[uint64]bool{}
			nIn, nStamped := 0, 0
			for _, b := range bits {
				if b.TS.IsZero() {
					continue
				}
				nStamped++
				if !b.TS.Before(from) && b.TS.Before(to) {
					nIn++
					wantRows[b.Row] = true
					if wantCols[b.Row] == nil {
						wantCols[b.Row] = map[uint64]bool{}
					}
					wantCols[b.Row][b.Col] = true
				}
			}
			if nIn > 0 && nIn < nStamped {
				cut = true
			}
			described = append(described, fromS+".."+toS)
			// Row for every row of the pool that occurs, plus one that does not
			var calls []string
			rowsAsked := []uint64{0, 1, 2, 7, 100, 55}
			for _, r := range rowsAsked {
				calls = append(calls, fmt.Sprintf("Row(f=%d, from=%s, to=%s)", r, fromS, toS))
			}
			calls = append(calls, fmt.Sprintf("Rows(f, from=%s, to=%s)", fromS, toS))
			pql := strings.Join(calls, " ")
			res, err := srv.query(index, pql)
			if err != nil {
				t.Fatalf("quantum %s noStandardView=%v bits %v: query %q failed: %v", q, noStd, bits, vgtClip(pql), err)
			}
			for i, r := range rowsAsked {
				got := vgtRowCols(t, res[i], calls[i])
				want := vgtSortedSet(wantCols[r])
				if !vgtEqU64(got, want) {
					t.Fatalf("quantum %s noStandardView=%v bits %v:\n%s = %v, want %v", q, noStd, bits, calls[i], got, want)
				}
			}
			gotRows := vgtRowIDs(t, res[len(rowsAsked)], calls[len(rowsAsked)])
			if want := vgtSortedSet(wantRows); !vgtEqU64(gotRows, want) {
				t.Fatalf("quantum %s noStandardView=%v bits %v:\n%s = %v, want %v", q, noStd, bits, calls[len(rowsAsked)], gotRows, want)
			}
			// Rows with an upper bound only: the lower end is the earliest view, so the answer is the rows having a
			// timestamp before `to` (no wall clock involved; Row(f=r, to=) walks up from year 1 and is left out for cost)
			{
				want := map[uint64]bool{}
				for _, b := range bits {
					if !b.TS.IsZero() && b.TS.Before(to) {
						want[b.Row] = true
					}
				}
				call := fmt.Sprintf("Rows(f, to=%s)", toS)
				res, err := srv.query(index, call)
				if err != nil {
					t.Fatalf("quantum %s noStandardView=%v bits %v: query %q failed: %v", q, noStd, bits, call, err)
				}
				if got := vgtRowIDs(t, res[0], call); !vgtEqU64(got, vgtSortedSet(want)) {
					t.Fatalf("quantum %s noStandardView=%v bits %v:\n%s = %v, want %v", q, noStd, bits, call, got, vgtSortedSet(want))
				}
			}
			// Rows restricted to one column
			if len(bits) > 0 {
				col := bits[rapid.IntRange(0, len(bits)-1).Draw(t, l+".colOf")].Col
				want := map[uint64]bool{}
				for r, cs := range wantCols {
					if cs[col] {
						want[r] = true
					}
				}
				call := fmt.Sprintf("Rows(f, from=%s, to=%s, column=%d)", fromS, toS, col)
				res, err := srv.query(index, call)
				if err != nil {
					t.Fatalf("quantum %s noStandardView=%v bits %v: query %q failed: %v", q, noStd, bits, call, err)
				}
				if got := vgtRowIDs(t, res[0], call); !vgtEqU64(got, vgtSortedSet(want)) {
					t.Fatalf("quantum %s noStandardView=%v bits %v:\n%s = %v, want %v", q, noStd, bits, call, got, vgtSortedSet(want))
				}
			}
		}
		nv := vC18ViewCount(bits, q)
		c.ClassIf(edgeRange, "rangeEndsAtStoredBit").ClassIf(cut, "rangeCutsData").ClassIf(nv >= 2, "multiView")
		c.NT(cut && nv >= 2)
		c.Sample(map[string]interface{}{"q": q, "noStandardView": noStd, "bits": fmt.Sprint(bits), "ranges": described})
	})
}

// TestVerifWitness_D21_API: Rows(f, from, to) on an "H" field whose only view is an afternoon hour.
func TestVerifWitness_D21_API(t *testing.T) {
	srv := vgtStartServer()
	defer srv.Close()
	index, drop := srv.newIndex(t, pilosa.IndexOptions{})
	defer drop()
	srv.createField(t, index, "f", pilosa.OptFieldTypeTime("H"))
	srv.mustQuery(t, index, "Set(1, f=7, 2019-01-01T13:00)")
	res, err := srv.query(index, "Rows(f, from=2019-01-01T00:00, to=2019-01-02T00:00)")
	if err != nil {
		t.Fatalf("Rows(f, from, to) after Set(1, f=7, 2019-01-01T13:00) on quantum H: %v", err)
	}
	if got := vgtRowIDs(t, res[0], "Rows"); !vgtEqU64(got, []uint64{7}) {
		t.Fatalf("Rows = %v want [7]", got)
	}
}

// TestVerifWitness_DT2_API: Rows(f, from, to) on a "D" field that has a standard view.
func TestVerifWitness_DT2_API(t *testing.T) {
	srv := vgtStartServer()
	defer srv.Close()
	index, drop := srv.newIndex(t, pilosa.IndexOptions{})
	defer drop()
	srv.createField(t, index, "f", pilosa.OptFieldTypeTime("D"))
	srv.mustQuery(t, index, "Set(1, f=7, 2019-01-03T00:00)")
	res, err := srv.query(index, "Rows(f, from=2019-01-01T00:00, to=2019-01-05T00:00)")
	if err != nil {
		t.Fatalf("Rows(f, from, to) after Set(1, f=7, 2019-01-03T00:00) on quantum D: %v", err)
	}
	if got := vgtRowIDs(t, res[0], "Rows"); !vgtEqU64(got, []uint64{7}) {
		t.Fatalf("Rows = %v want [7]", got)
	}
}
