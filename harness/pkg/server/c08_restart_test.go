package server_test

// C08 — Data and schema survive a clean restart unchanged.
//
// A rapid case is a generated history of schema changes and writes (through
// every write path) on one or two fresh indexes of a long-lived in-process
// server, with Reopen() at generated points. Oracle: a probe battery generated
// from the reference model (maps) answers identically before and after every
// restart and equals the model; Schema() (with options) is identical before
// and after.

import (
	"bytes"
	"context"
	"encoding/json"
	"fmt"
	"sort"
	"strconv"
	"strings"
	"testing"
	"time"

	"github.com/pilosa/pilosa"
	"github.com/pilosa/pilosa/encoding/proto"
	"github.com/pilosa/pilosa/internal/vkit"
	"github.com/pilosa/pilosa/roaring"
	"github.com/pilosa/pilosa/test"
	"pgregory.net/rapid"
)

// ---------------------------------------------------------------------------
// model

type vc8Field struct {
	Name      string
	Typ       string // set mutex bool int time
	Keys      bool
	CacheType string
	CacheSize uint32
	Min, Max  int64
	Quantum   string
	NoStd     bool

	bits     map[string]map[string]bool            // standard view: row -> cols
	tv       map[string]map[string]map[string]bool // time view suffix -> row -> cols
	vals     map[string]int64                      // int: col -> value
	rowAttrs map[string]map[string]interface{}
	rowPool  []string
	remote   map[uint64]bool // remote available shards announced to / removed from the field (shards >= 7, never holding data)
}

type vc8Index struct {
	Name   string
	Keys   bool
	Track  bool
	fields map[string]*vc8Field
	order  []string

	exist    map[string]bool
	colAttrs map[string]map[string]interface{}
	touched  map[uint64]bool // shards ever written (upper bound of available shards)
	colPool  []string
	colIDs   map[string]uint64 // keyed: ids observed through TranslateKeys
	// shards ever announced as remote to a field of this index; once a Store() ran while
	// there were any, it has created local fragments in them (Store runs on every
	// available shard of the index), so they are no longer purely remote
	everRemote       map[uint64]bool
	storeSinceRemote bool
}

func vc8set(m map[string]map[string]bool, r, c string) {
	if m[r] == nil {
		m[r] = map[string]bool{}
	}
	m[r][c] = true
}

func vc8sorted(m map[string]bool, numeric bool) []string {
	out := make([]string, 0, len(m))
	for k, v := range m {
		if v {
			out = append(out, k)
		}
	}
	vc8sortLabels(out, numeric)
	return out
}

func vc8sortLabels(out []string, numeric bool) {
	if numeric {
		sort.Slice(out, func(i, j int) bool {
			a, _ := strconv.ParseUint(out[i], 10, 64)
			b, _ := strconv.ParseUint(out[j], 10, 64)
			return a < b
		})
	} else {
		sort.Strings(out)
	}
}

func (f *vc8Field) rowsWithBits() []string {
	m := map[string]bool{}
	for r, cs := range f.bits {
		for _, v := range cs {
			if v {
				m[r] = true
				break
			}
		}
	}
	return vc8sorted(m, !f.Keys)
}

// ---------------------------------------------------------------------------
// generators

var vc8IntBounds = [][2]int64{{0, 0}, {-10, 10}, {5, 100}, {-100, -5}, {0, 1 << 62}, {-(1 << 62), 1 << 62}, {-3, 0}, {0, 7}}
var vc8Quanta = []string{"Y", "YM", "YMD", "YMDH", "M", "MD", "MDH", "D", "DH", "H"}
var vc8ColIDs = []uint64{0, 1, 65535, 65536, vc8SW - 1, vc8SW, vc8SW + 1, 2*vc8SW - 1, 3*vc8SW + 5}
var vc8RowIDs = []uint64{0, 1, 2, 3, 7, 100, 1000}
var vc8RemoteShards = []uint64{7, 8, 9, 12}
var vc8ColKeysAll = []string{"a", "b", "c", "k1", "x-y", "col_9", "Zed", "ünï", "käse,1", "sp ace"}
var vc8RowKeys = []string{"r1", "r2", "alpha", "B", "row-5", "z_9", "zeile ü"}
var vc8Times = []time.Time{
	time.Date(2018, 12, 31, 23, 0, 0, 0, time.UTC),
	time.Date(2019, 1, 1, 0, 0, 0, 0, time.UTC),
	time.Date(2019, 1, 1, 13, 0, 0, 0, time.UTC),
	time.Date(2019, 1, 2, 5, 0, 0, 0, time.UTC),
	time.Date(2019, 2, 28, 12, 0, 0, 0, time.UTC),
	time.Date(2020, 2, 29, 1, 0, 0, 0, time.UTC),
	time.Date(2020, 3, 1, 0, 0, 0, 0, time.UTC),
}

func vc8viewsFor(q string, ts time.Time) []string {
	var out []string
	for _, u := range q {
		switch u {
		case 'Y':
			out = append(out, ts.Format("2006"))
		case 'M':
			out = append(out, ts.Format("200601"))
		case 'D':
			out = append(out, ts.Format("20060102"))
		case 'H':
			out = append(out, ts.Format("2006010215"))
		}
	}
	return out
}

// vc8viewRange returns [from,to) of a time view suffix.
func vc8viewRange(s string) (time.Time, time.Time) {
	switch len(s) {
	case 4:
		t, _ := time.Parse("2006", s)
		return t, t.AddDate(1, 0, 0)
	case 6:
		t, _ := time.Parse("200601", s)
		return t, t.AddDate(0, 1, 0)
	case 8:
		t, _ := time.Parse("20060102", s)
		return t, t.AddDate(0, 0, 1)
	default:
		t, _ := time.Parse("2006010215", s)
		return t, t.Add(time.Hour)
	}
}

func vc8genField(t *rapid.T, name string, idx *vc8Index) *vc8Field {
	f := &vc8Field{Name: name, bits: map[string]map[string]bool{}, tv: map[string]map[string]map[string]bool{},
		vals: map[string]int64{}, rowAttrs: map[string]map[string]interface{}{}}
	f.Typ = rapid.SampledFrom([]string{"set", "set", "mutex", "bool", "int", "int", "time", "time"}).Draw(t, "ftype")
	switch f.Typ {
	case "set", "mutex":
		f.CacheType = rapid.SampledFrom([]string{"ranked", "lru", "none"}).Draw(t, "cacheType")
		f.CacheSize = rapid.SampledFrom([]uint32{0, 1, 3, 50000}).Draw(t, "cacheSize")
		f.Keys = rapid.IntRange(0, 3).Draw(t, "fkeys") == 0
	case "int":
		b := rapid.SampledFrom(vc8IntBounds).Draw(t, "bounds")
		f.Min, f.Max = b[0], b[1]
	case "time":
		f.Quantum = rapid.SampledFrom(vc8Quanta).Draw(t, "quantum")
		f.NoStd = rapid.IntRange(0, 3).Draw(t, "noStd") == 0
		f.Keys = rapid.IntRange(0, 4).Draw(t, "fkeys") == 0
	}
	if f.Keys {
		f.rowPool = vc8RowKeys
	} else if f.Typ == "bool" {
		f.rowPool = []string{"0", "1"}
	} else {
		for _, r := range vc8RowIDs {
			f.rowPool = append(f.rowPool, strconv.FormatUint(r, 10))
		}
	}
	return f
}

func (f *vc8Field) options() []pilosa.FieldOption {
	var o []pilosa.FieldOption
	switch f.Typ {
	case "set":
		o = append(o, pilosa.OptFieldTypeSet(f.CacheType, f.CacheSize))
	case "mutex":
		o = append(o, pilosa.OptFieldTypeMutex(f.CacheType, f.CacheSize))
	case "bool":
		o = append(o, pilosa.OptFieldTypeBool())
	case "int":
		o = append(o, pilosa.OptFieldTypeInt(f.Min, f.Max))
	case "time":
		o = append(o, pilosa.OptFieldTypeTime(pilosa.TimeQuantum(f.Quantum), f.NoStd))
	}
	if f.Keys {
		o = append(o, pilosa.OptFieldKeys())
	}
	return o
}

// topnCacheExact: a set/mutex field with a ranked or LRU cache that holds every row the
// generator can write (the row pool) in every fragment.
func (f *vc8Field) topnCacheExact() bool {
	if f.Typ != "set" && f.Typ != "mutex" || f.CacheType == "none" {
		return false
	}
	return f.CacheSize == 0 || int(f.CacheSize) > len(f.rowPool)
}

func (f *vc8Field) describe() string {
	return fmt.Sprintf("%s:%s keys=%v cache=%s/%d int=[%d,%d] q=%s noStd=%v", f.Name, f.Typ, f.Keys, f.CacheType, f.CacheSize, f.Min, f.Max, f.Quantum, f.NoStd)
}

func vc8genValue(t *rapid.T, f *vc8Field, label string) int64 {
	cands := []int64{0, f.Min, f.Max, f.Min + 1, f.Max - 1, 1, -1, 2, 7, -8, 100, (f.Min + f.Max) / 2}
	var ok []int64
	for _, c := range cands {
		if c >= f.Min && c <= f.Max {
			ok = append(ok, c)
		}
	}
	// zero (the "bit depth stays 0" value) is drawn often when it is in range
	if f.Min <= 0 && f.Max >= 0 && rapid.IntRange(0, 1).Draw(t, label+"zero") == 0 {
		return 0
	}
	return rapid.SampledFrom(ok).Draw(t, label)
}

// ---------------------------------------------------------------------------
// the running case

type vc8Case struct {
	t    *rapid.T
	cmd  *test.Command
	idxs []*vc8Index
	log  []string
	cls  map[string]bool
	nt   bool
	// an id had all of its attributes deleted since the last restart
	emptied bool
	// the bulk compound operations are run at most once per case (cost)
	bulkDone map[string]bool
}

func (c *vc8Case) logf(format string, a ...interface{}) {
	c.log = append(c.log, fmt.Sprintf(format, a...))
}

func (c *vc8Case) fatalf(format string, a ...interface{}) {
	c.t.Fatalf("%s\nhistory:\n  %s", fmt.Sprintf(format, a...), strings.Join(c.log, "\n  "))
}

func (c *vc8Case) query(idx *vc8Index, q string) pilosa.QueryResponse {
	var resp pilosa.QueryResponse
	var err error
	func() {
		defer func() {
			if r := recover(); r != nil {
				err = fmt.Errorf("PANIC: %v", r)
			}
		}()
		resp, err = c.cmd.API.Query(context.Background(), &pilosa.QueryRequest{Index: idx.Name, Query: q})
	}()
	if err != nil {
		c.fatalf("query %s on %s: %v", q, idx.Name, err)
	}
	return resp
}

func vc8colLit(idx *vc8Index, col string) string {
	if idx.Keys {
		return strconv.Quote(col)
	}
	return col
}

func vc8rowLit(f *vc8Field, row string) string {
	if f.Keys {
		return strconv.Quote(row)
	}
	if f.Typ == "bool" {
		if row == "1" {
			return "true"
		}
		return "false"
	}
	return row
}

func (c *vc8Case) touch(idx *vc8Index, col string) {
	if !idx.Keys {
		v, _ := strconv.ParseUint(col, 10, 64)
		idx.touched[v/vc8SW] = true
	}
}

func (c *vc8Case) drawCol(idx *vc8Index, label string, importPath bool) string {
	if idx.Keys {
		return rapid.SampledFrom(vc8ColKeysAll).Draw(c.t, label)
	}
	if rapid.IntRange(0, 5).Draw(c.t, label+"rnd") == 0 {
		return strconv.FormatUint(rapid.Uint64Range(0, 4*vc8SW-1).Draw(c.t, label), 10)
	}
	return strconv.FormatUint(rapid.SampledFrom(vc8ColIDs).Draw(c.t, label), 10)
}

// applySetBit updates the model for a bit written through Set/Import.
func (c *vc8Case) applySetBit(idx *vc8Index, f *vc8Field, row, col string, ts *time.Time) {
	switch f.Typ {
	case "mutex", "bool":
		for r := range f.bits {
			delete(f.bits[r], col)
		}
		vc8set(f.bits, row, col)
	case "time":
		if !f.NoStd {
			vc8set(f.bits, row, col)
		}
		if ts != nil {
			for _, v := range vc8viewsFor(f.Quantum, *ts) {
				if f.tv[v] == nil {
					f.tv[v] = map[string]map[string]bool{}
				}
				vc8set(f.tv[v], row, col)
			}
		}
	default:
		vc8set(f.bits, row, col)
	}
	if idx.Track {
		idx.exist[col] = true
	}
	c.touch(idx, col)
}

func (c *vc8Case) applyClearBit(f *vc8Field, row, col string) {
	if f.bits[row] != nil {
		delete(f.bits[row], col)
	}
	for _, v := range f.tv {
		if v[row] != nil {
			delete(v[row], col)
		}
	}
}

func (c *vc8Case) fieldsOf(idx *vc8Index, pred func(*vc8Field) bool) []*vc8Field {
	var out []*vc8Field
	for _, n := range idx.order {
		if f := idx.fields[n]; pred(f) {
			out = append(out, f)
		}
	}
	return out
}

func (c *vc8Case) createIndex(idx *vc8Index) {
	if _, err := c.cmd.API.CreateIndex(context.Background(), idx.Name, pilosa.IndexOptions{Keys: idx.Keys, TrackExistence: idx.Track}); err != nil {
		c.fatalf("CreateIndex(%s): %v", idx.Name, err)
	}
	idx.fields = map[string]*vc8Field{}
	idx.order = nil
	idx.exist = map[string]bool{}
	idx.colAttrs = map[string]map[string]interface{}{}
	idx.touched = map[uint64]bool{}
	idx.everRemote = map[uint64]bool{}
	idx.storeSinceRemote = false
	c.logf("CreateIndex(%s keys=%v track=%v)", idx.Name, idx.Keys, idx.Track)
}

func (c *vc8Case) createField(idx *vc8Index, f *vc8Field) {
	if _, err := c.cmd.API.CreateField(context.Background(), idx.Name, f.Name, f.options()...); err != nil {
		c.fatalf("CreateField(%s/%s): %v", idx.Name, f.describe(), err)
	}
	idx.fields[f.Name] = f
	idx.order = append(idx.order, f.Name)
	c.logf("CreateField(%s/%s)", idx.Name, f.describe())
	c.cls["field:"+f.Typ] = true
	if f.Keys {
		c.cls["field-keys"] = true
	}
}

func (c *vc8Case) deleteField(idx *vc8Index, name string) {
	if err := c.cmd.API.DeleteField(context.Background(), idx.Name, name); err != nil {
		c.fatalf("DeleteField(%s/%s): %v", idx.Name, name, err)
	}
	delete(idx.fields, name)
	for i, n := range idx.order {
		if n == name {
			idx.order = append(idx.order[:i:i], idx.order[i+1:]...)
			break
		}
	}
	c.logf("DeleteField(%s/%s)", idx.Name, name)
}

// step performs one generated operation. It returns false if nothing applicable was drawn.
func (c *vc8Case) step(i int) {
	t := c.t
	idx := c.idxs[rapid.IntRange(0, len(c.idxs)-1).Draw(t, "idx")]
	op := rapid.SampledFrom([]string{
		"createField", "set", "set", "set", "set", "clear", "clearRow", "store", "store", "import", "import",
		"importClear", "importValue", "importValue", "importRoaring", "importRoaring", "rowAttrs", "colAttrs", "attrsEmpty", "attrsEmpty", "bulkValueRetry", "bulkValueRetry", "bulkImportRetry", "snapWriteReopen", "snapWriteReopen", "remoteShardAdd", "remoteShardAdd", "remoteShardRemove", "remoteShardRemove", "deleteField", "recreateField",
		"recreateIndex", "reopen", "reopen",
	}).Draw(t, "op")
	bitFields := c.fieldsOf(idx, func(f *vc8Field) bool { return f.Typ != "int" })
	intFields := c.fieldsOf(idx, func(f *vc8Field) bool { return f.Typ == "int" })
	switch op {
	case "createField":
		if len(idx.order) >= 5 {
			return
		}
		name := fmt.Sprintf("f%d", rapid.IntRange(0, 6).Draw(t, "fname"))
		if idx.fields[name] != nil {
			return
		}
		c.createField(idx, vc8genField(t, name, idx))
	case "deleteField":
		if len(idx.order) == 0 {
			return
		}
		c.deleteField(idx, rapid.SampledFrom(idx.order).Draw(t, "delField"))
		c.cls["deleteField"] = true
	case "recreateField":
		if len(idx.order) == 0 {
			return
		}
		name := rapid.SampledFrom(idx.order).Draw(t, "recField")
		c.deleteField(idx, name)
		c.createField(idx, vc8genField(t, name, idx))
		c.cls["recreateField"] = true
		c.nt = true
	case "recreateIndex":
		if rapid.IntRange(0, 2).Draw(t, "really") != 0 {
			return
		}
		if err := c.cmd.API.DeleteIndex(context.Background(), idx.Name); err != nil {
			c.fatalf("DeleteIndex(%s): %v", idx.Name, err)
		}
		c.logf("DeleteIndex(%s)", idx.Name)
		idx.Keys = rapid.Bool().Draw(t, "ikeys")
		idx.Track = rapid.Bool().Draw(t, "itrack")
		c.createIndex(idx)
		c.cls["recreateIndex"] = true
		c.nt = true
	case "set":
		all := append(append([]*vc8Field{}, bitFields...), intFields...)
		if len(all) == 0 {
			return
		}
		f := all[rapid.IntRange(0, len(all)-1).Draw(t, "f")]
		col := c.drawCol(idx, "col", false)
		if f.Typ == "int" {
			v := vc8genValue(t, f, "val")
			q := fmt.Sprintf("Set(%s, %s=%d)", vc8colLit(idx, col), f.Name, v)
			c.query(idx, q)
			f.vals[col] = v
			if idx.Track {
				idx.exist[col] = true
			}
			c.touch(idx, col)
			c.logf("%s: %s", idx.Name, q)
			return
		}
		row := rapid.SampledFrom(f.rowPool).Draw(t, "row")
		var ts *time.Time
		q := fmt.Sprintf("Set(%s, %s=%s", vc8colLit(idx, col), f.Name, vc8rowLit(f, row))
		if f.Typ == "time" && (f.NoStd || rapid.IntRange(0, 3).Draw(t, "withTS") != 0) {
			x := rapid.SampledFrom(vc8Times).Draw(t, "ts")
			ts = &x
			q += ", " + x.Format("2006-01-02T15:04")
		}
		q += ")"
		c.query(idx, q)
		c.applySetBit(idx, f, row, col, ts)
		c.logf("%s: %s", idx.Name, q)
	case "clear":
		if len(bitFields) == 0 {
			return
		}
		f := bitFields[rapid.IntRange(0, len(bitFields)-1).Draw(t, "f")]
		col := c.drawCol(idx, "col", false)
		row := rapid.SampledFrom(f.rowPool).Draw(t, "row")
		q := fmt.Sprintf("Clear(%s, %s=%s)", vc8colLit(idx, col), f.Name, vc8rowLit(f, row))
		c.query(idx, q)
		c.applyClearBit(f, row, col)
		c.touch(idx, col)
		c.logf("%s: %s", idx.Name, q)
	case "clearRow":
		if len(bitFields) == 0 {
			return
		}
		f := bitFields[rapid.IntRange(0, len(bitFields)-1).Draw(t, "f")]
		row := rapid.SampledFrom(f.rowPool).Draw(t, "row")
		q := fmt.Sprintf("ClearRow(%s=%s)", f.Name, vc8rowLit(f, row))
		c.query(idx, q)
		delete(f.bits, row)
		for _, v := range f.tv {
			delete(v, row)
		}
		c.logf("%s: %s", idx.Name, q)
		c.cls["clearRow"] = true
	case "store":
		// Open finding DS6: Store() into a keyed field panics in executeSetRow. While its
		// witness still fails, destinations are unkeyed fields.
		ds6 := vkit.Open("DS6")
		dsts := c.fieldsOf(idx, func(f *vc8Field) bool { return f.Typ == "set" && !(ds6 && f.Keys) })
		if ds6 {
			vkit.Excluded("DS6")
		}
		srcs := c.fieldsOf(idx, func(f *vc8Field) bool { return f.Typ != "int" && !f.NoStd })
		if len(dsts) == 0 || len(srcs) == 0 {
			return
		}
		dst := dsts[rapid.IntRange(0, len(dsts)-1).Draw(t, "dst")]
		src := srcs[rapid.IntRange(0, len(srcs)-1).Draw(t, "src")]
		srow := rapid.SampledFrom(src.rowPool).Draw(t, "srow")
		drow := rapid.SampledFrom(dst.rowPool).Draw(t, "drow")
		q := fmt.Sprintf("Store(Row(%s=%s), %s=%s)", src.Name, vc8rowLit(src, srow), dst.Name, vc8rowLit(dst, drow))
		c.query(idx, q)
		if len(idx.everRemote) > 0 {
			idx.storeSinceRemote = true
		}
		cp := map[string]bool{}
		for k, v := range src.bits[srow] {
			if v {
				cp[k] = true
			}
		}
		dst.bits[drow] = cp
		// an index without available shards executes on shard 0 (and creates that
		// fragment); "touched" is an upper bound, so shard 0 is always added
		idx.touched[0] = true
		c.logf("%s: %s", idx.Name, q)
		c.cls["store"] = true
	case "import", "importClear":
		if len(bitFields) == 0 {
			return
		}
		f := bitFields[rapid.IntRange(0, len(bitFields)-1).Draw(t, "f")]
		clear := op == "importClear"
		if clear && f.Typ == "time" {
			return // clear-imports with time views: outside the documented use of Import
		}
		n := rapid.IntRange(1, 6).Draw(t, "n")
		type bit struct {
			row, col string
			ts       *time.Time
		}
		var bits []bit
		for k := 0; k < n; k++ {
			b := bit{row: rapid.SampledFrom(f.rowPool).Draw(t, "row"), col: c.drawCol(idx, "col", true)}
			if f.Typ == "time" && (f.NoStd || rapid.Bool().Draw(t, "withTS")) {
				x := rapid.SampledFrom(vc8Times).Draw(t, "ts")
				b.ts = &x
			}
			bits = append(bits, b)
		}
		var opts []pilosa.ImportOption
		if clear {
			opts = append(opts, pilosa.OptImportOptionsClear(true))
		}
		// group by shard (keyed requests are sharded by the server)
		groups := map[uint64][]bit{}
		var shards []uint64
		for _, b := range bits {
			sh := uint64(0)
			if !idx.Keys {
				v, _ := strconv.ParseUint(b.col, 10, 64)
				sh = v / vc8SW
			}
			if _, ok := groups[sh]; !ok {
				shards = append(shards, sh)
			}
			groups[sh] = append(groups[sh], b)
		}
		sort.Slice(shards, func(i, j int) bool { return shards[i] < shards[j] })
		for _, sh := range shards {
			req := &pilosa.ImportRequest{Index: idx.Name, Field: f.Name, Shard: sh}
			hasTS := false
			for _, b := range groups[sh] {
				if b.ts != nil {
					hasTS = true
				}
			}
			for _, b := range groups[sh] {
				if f.Keys {
					req.RowKeys = append(req.RowKeys, b.row)
				} else {
					r, _ := strconv.ParseUint(b.row, 10, 64)
					req.RowIDs = append(req.RowIDs, r)
				}
				if idx.Keys {
					req.ColumnKeys = append(req.ColumnKeys, b.col)
				} else {
					v, _ := strconv.ParseUint(b.col, 10, 64)
					req.ColumnIDs = append(req.ColumnIDs, v)
				}
				if hasTS {
					if b.ts != nil {
						req.Timestamps = append(req.Timestamps, b.ts.UnixNano())
					} else {
						req.Timestamps = append(req.Timestamps, 0)
					}
				}
			}
			desc := fmt.Sprintf("Import(%s/%s shard=%d rows=%v%v cols=%v%v ts=%v clear=%v)", idx.Name, f.Name, sh, req.RowIDs, req.RowKeys, req.ColumnIDs, req.ColumnKeys, req.Timestamps, clear)
			if err := c.cmd.API.Import(context.Background(), req, opts...); err != nil {
				c.fatalf("%s: %v", desc, err)
			}
			c.logf("%s", desc)
			for _, b := range groups[sh] {
				if clear {
					if f.bits[b.row] != nil {
						delete(f.bits[b.row], b.col)
					}
					c.touch(idx, b.col)
				} else {
					c.applySetBit(idx, f, b.row, b.col, b.ts)
				}
			}
		}
		if clear {
			c.cls["import-clear"] = true
		}
		c.cls["import"] = true
		if idx.Keys || f.Keys {
			c.cls["import-keys"] = true
		}
	case "importValue":
		if len(intFields) == 0 {
			return
		}
		f := intFields[rapid.IntRange(0, len(intFields)-1).Draw(t, "f")]
		n := rapid.IntRange(1, 5).Draw(t, "n")
		type cv struct {
			col string
			v   int64
		}
		groups := map[uint64][]cv{}
		var shards []uint64
		seen := map[string]bool{}
		for k := 0; k < n; k++ {
			x := cv{col: c.drawCol(idx, "col", true), v: vc8genValue(t, f, "val")}
			if seen[x.col] {
				continue
			}
			seen[x.col] = true
			sh := uint64(0)
			if !idx.Keys {
				v, _ := strconv.ParseUint(x.col, 10, 64)
				sh = v / vc8SW
			}
			if _, ok := groups[sh]; !ok {
				shards = append(shards, sh)
			}
			groups[sh] = append(groups[sh], x)
		}
		sort.Slice(shards, func(i, j int) bool { return shards[i] < shards[j] })
		for _, sh := range shards {
			req := &pilosa.ImportValueRequest{Index: idx.Name, Field: f.Name, Shard: sh}
			for _, x := range groups[sh] {
				if idx.Keys {
					req.ColumnKeys = append(req.ColumnKeys, x.col)
				} else {
					v, _ := strconv.ParseUint(x.col, 10, 64)
					req.ColumnIDs = append(req.ColumnIDs, v)
				}
				req.Values = append(req.Values, x.v)
			}
			desc := fmt.Sprintf("ImportValue(%s/%s shard=%d cols=%v%v vals=%v)", idx.Name, f.Name, sh, req.ColumnIDs, req.ColumnKeys, req.Values)
			if err := c.cmd.API.ImportValue(context.Background(), req); err != nil {
				c.fatalf("%s: %v", desc, err)
			}
			c.logf("%s", desc)
			for _, x := range groups[sh] {
				f.vals[x.col] = x.v
				if idx.Track {
					idx.exist[x.col] = true
				}
				c.touch(idx, x.col)
			}
		}
		c.cls["importValue"] = true
	case "importRoaring":
		fs := c.fieldsOf(idx, func(f *vc8Field) bool { return (f.Typ == "set" || f.Typ == "time") && !f.Keys })
		if len(fs) == 0 || idx.Keys {
			return
		}
		f := fs[rapid.IntRange(0, len(fs)-1).Draw(t, "f")]
		shard := rapid.SampledFrom([]uint64{0, 1, 3}).Draw(t, "shard")
		clear := rapid.IntRange(0, 3).Draw(t, "rclear") == 0
		view := ""
		if f.Typ == "time" && (f.NoStd || rapid.Bool().Draw(t, "tview")) {
			ts := rapid.SampledFrom(vc8Times).Draw(t, "ts")
			vs := vc8viewsFor(f.Quantum, ts)
			view = rapid.SampledFrom(vs).Draw(t, "view")
		}
		n := rapid.IntRange(1, 5).Draw(t, "n")
		bm := roaring.NewBitmap()
		type rc struct{ row, col string }
		var rcs []rc
		for k := 0; k < n; k++ {
			r := rapid.SampledFrom(vc8RowIDs).Draw(t, "row")
			off := rapid.SampledFrom([]uint64{0, 1, 65535, 65536, vc8SW - 1, 5}).Draw(t, "off")
			bm.Add(r*vc8SW + off)
			rcs = append(rcs, rc{strconv.FormatUint(r, 10), strconv.FormatUint(shard*vc8SW+off, 10)})
		}
		var buf bytes.Buffer
		if _, err := bm.WriteTo(&buf); err != nil {
			t.Fatalf("encoding roaring: %v", err)
		}
		req := &pilosa.ImportRoaringRequest{Clear: clear, Views: map[string][]byte{view: buf.Bytes()}}
		desc := fmt.Sprintf("ImportRoaring(%s/%s shard=%d view=%q clear=%v bits=%v)", idx.Name, f.Name, shard, view, clear, rcs)
		if err := c.cmd.API.ImportRoaring(context.Background(), idx.Name, f.Name, shard, false, req); err != nil {
			c.fatalf("%s: %v", desc, err)
		}
		c.logf("%s", desc)
		target := f.bits
		if view != "" {
			if f.tv[view] == nil {
				f.tv[view] = map[string]map[string]bool{}
			}
			target = f.tv[view]
		}
		for _, x := range rcs {
			if clear {
				if target[x.row] != nil {
					delete(target[x.row], x.col)
				}
			} else {
				vc8set(target, x.row, x.col)
			}
		}
		idx.touched[shard] = true
		c.cls["importRoaring"] = true
	case "rowAttrs":
		fs := c.fieldsOf(idx, func(f *vc8Field) bool { return f.Typ == "set" || f.Typ == "mutex" || f.Typ == "time" })
		if len(fs) == 0 {
			return
		}
		f := fs[rapid.IntRange(0, len(fs)-1).Draw(t, "f")]
		row := rapid.SampledFrom(f.rowPool).Draw(t, "row")
		k, lit, v := vc8genAttr(t)
		q := fmt.Sprintf("SetRowAttrs(%s, %s, %s=%s)", f.Name, vc8rowLit(f, row), k, lit)
		c.query(idx, q)
		vc8applyAttr(f.rowAttrs, row, k, v)
		c.logf("%s: %s", idx.Name, q)
		c.cls["rowAttrs"] = true
	case "bulkValueRetry":
		// ImportValue of a batch large enough for the fragment's bulk (snapshotting) path,
		// the same batch again (a client retry: changes no bit), a few small writes, restart.
		if idx.Keys || c.bulkDone["v"] {
			return
		}
		var f *vc8Field
		if len(intFields) > 0 {
			f = intFields[rapid.IntRange(0, len(intFields)-1).Draw(t, "f")]
		} else if len(idx.order) < 6 && idx.fields["fb"] == nil {
			f = &vc8Field{Name: "fb", Typ: "int", Min: -10, Max: 10, bits: map[string]map[string]bool{}, tv: map[string]map[string]map[string]bool{},
				vals: map[string]int64{}, rowAttrs: map[string]map[string]interface{}{}}
			c.createField(idx, f)
		} else {
			return
		}
		c.bulkDone["v"] = true
		v1, v2 := vc8genValue(t, f, "bv1"), vc8genValue(t, f, "bv2")
		depth := func(v int64) int {
			if v < 0 {
				v = -v
			}
			d := 0
			for ; v > 0; v >>= 1 {
				d++
			}
			if d < 1 {
				d = 1
			}
			return d
		}
		d := depth(v1)
		if depth(v2) < d {
			d = depth(v2)
		}
		n := 10000/(d+1) + 20 // n*(bitDepth+1) >= MaxOpN whatever the field's current depth (>= d)
		shard := rapid.SampledFrom([]uint64{0, 1}).Draw(t, "bshard")
		req := func() *pilosa.ImportValueRequest {
			r := &pilosa.ImportValueRequest{Index: idx.Name, Field: f.Name, Shard: shard}
			for i := 0; i < n; i++ {
				r.ColumnIDs = append(r.ColumnIDs, shard*vc8SW+2000+uint64(i))
				if i%2 == 0 {
					r.Values = append(r.Values, v1)
				} else {
					r.Values = append(r.Values, v2)
				}
			}
			return r
		}
		for pass := 0; pass < 2; pass++ {
			if err := c.cmd.API.ImportValue(context.Background(), req()); err != nil {
				c.fatalf("bulk ImportValue(%s/%s shard=%d n=%d): %v", idx.Name, f.Name, shard, n, err)
			}
			c.logf("ImportValue(%s/%s shard=%d cols=%d..%d vals=%d,%d alternating) [pass %d]", idx.Name, f.Name, shard, shard*vc8SW+2000, shard*vc8SW+2000+uint64(n)-1, v1, v2, pass+1)
		}
		for i := 0; i < n; i++ {
			col := strconv.FormatUint(shard*vc8SW+2000+uint64(i), 10)
			if i%2 == 0 {
				f.vals[col] = v1
			} else {
				f.vals[col] = v2
			}
			if idx.Track {
				idx.exist[col] = true
			}
		}
		idx.touched[shard] = true
		for k, m := 0, rapid.IntRange(1, 3).Draw(t, "nsmall"); k < m; k++ {
			col := strconv.FormatUint(shard*vc8SW+rapid.Uint64Range(1990, 2000+uint64(n)+5).Draw(t, "scol"), 10)
			v := vc8genValue(t, f, "sval")
			q := fmt.Sprintf("Set(%s, %s=%d)", col, f.Name, v)
			c.query(idx, q)
			f.vals[col] = v
			if idx.Track {
				idx.exist[col] = true
			}
			c.logf("%s: %s", idx.Name, q)
		}
		c.cls["bulk-ImportValue-retry-then-small-writes"] = true
		c.nt = true
		c.reopen()
	case "bulkImportRetry":
		// the same shape on a set field: an Import of more than MaxOpN bits (the fragment
		// snapshots), the same batch again, a few small writes, restart.
		if idx.Keys || c.bulkDone["s"] {
			return
		}
		fs := c.fieldsOf(idx, func(f *vc8Field) bool { return f.Typ == "set" && !f.Keys })
		if len(fs) == 0 {
			return
		}
		c.bulkDone["s"] = true
		f := fs[rapid.IntRange(0, len(fs)-1).Draw(t, "f")]
		rowS := rapid.SampledFrom(f.rowPool).Draw(t, "brow")
		rowID, _ := strconv.ParseUint(rowS, 10, 64)
		shard := rapid.SampledFrom([]uint64{0, 1}).Draw(t, "bshard")
		const n = 10300
		for pass := 0; pass < 2; pass++ {
			r := &pilosa.ImportRequest{Index: idx.Name, Field: f.Name, Shard: shard}
			for i := 0; i < n; i++ {
				r.RowIDs = append(r.RowIDs, rowID)
				r.ColumnIDs = append(r.ColumnIDs, shard*vc8SW+3000+uint64(i))
			}
			if err := c.cmd.API.Import(context.Background(), r); err != nil {
				c.fatalf("bulk Import(%s/%s shard=%d n=%d): %v", idx.Name, f.Name, shard, n, err)
			}
			c.logf("Import(%s/%s shard=%d row=%d cols=%d..%d) [pass %d]", idx.Name, f.Name, shard, rowID, shard*vc8SW+3000, shard*vc8SW+3000+n-1, pass+1)
		}
		for i := 0; i < n; i++ {
			c.applySetBit(idx, f, rowS, strconv.FormatUint(shard*vc8SW+3000+uint64(i), 10), nil)
		}
		for k, m := 0, rapid.IntRange(1, 3).Draw(t, "nsmall"); k < m; k++ {
			col := strconv.FormatUint(shard*vc8SW+rapid.Uint64Range(2990, 3000+n+5).Draw(t, "scol"), 10)
			if rapid.Bool().Draw(t, "sclear") {
				q := fmt.Sprintf("Clear(%s, %s=%s)", col, f.Name, rowS)
				c.query(idx, q)
				c.applyClearBit(f, rowS, col)
				c.logf("%s: %s", idx.Name, q)
			} else {
				r2 := rapid.SampledFrom(f.rowPool).Draw(t, "srow")
				q := fmt.Sprintf("Set(%s, %s=%s)", col, f.Name, r2)
				c.query(idx, q)
				c.applySetBit(idx, f, r2, col, nil)
				c.logf("%s: %s", idx.Name, q)
			}
		}
		c.cls["bulk-Import-retry-then-small-writes"] = true
		c.nt = true
		c.reopen()
	case "snapWriteReopen":
		// a write that makes the fragment snapshot (Store, ClearRow, or an import of more
		// than MaxOpN bits) on a field with a TopN cache, immediately followed by a restart
		fs := c.fieldsOf(idx, func(f *vc8Field) bool { return f.topnCacheExact() && !f.Keys })
		if len(fs) == 0 {
			return
		}
		f := fs[rapid.IntRange(0, len(fs)-1).Draw(t, "f")]
		kind := rapid.SampledFrom([]string{"store", "store", "clearRow", "bigImport"}).Draw(t, "snapKind")
		row := rapid.SampledFrom(f.rowPool).Draw(t, "row")
		switch {
		case kind == "store" && f.Typ == "set":
			srcs := c.fieldsOf(idx, func(g *vc8Field) bool { return g.Typ != "int" && !g.NoStd })
			src := srcs[rapid.IntRange(0, len(srcs)-1).Draw(t, "src")]
			srow := rapid.SampledFrom(src.rowPool).Draw(t, "srow")
			if rs := src.rowsWithBits(); len(rs) > 0 && rapid.IntRange(0, 3).Draw(t, "srcFull") != 0 {
				srow = rapid.SampledFrom(rs).Draw(t, "srowFull")
			}
			q := fmt.Sprintf("Store(Row(%s=%s), %s=%s)", src.Name, vc8rowLit(src, srow), f.Name, row)
			c.query(idx, q)
			if len(idx.everRemote) > 0 {
				idx.storeSinceRemote = true
			}
			cp := map[string]bool{}
			for k, v := range src.bits[srow] {
				if v {
					cp[k] = true
				}
			}
			f.bits[row] = cp
			idx.touched[0] = true
			c.logf("%s: %s", idx.Name, q)
		case kind == "bigImport" && !idx.Keys && !c.bulkDone["snap"] && f.Typ == "set":
			c.bulkDone["snap"] = true
			rowID, _ := strconv.ParseUint(row, 10, 64)
			shard := rapid.SampledFrom([]uint64{0, 1}).Draw(t, "bshard")
			const n = 10300
			r := &pilosa.ImportRequest{Index: idx.Name, Field: f.Name, Shard: shard}
			for i := 0; i < n; i++ {
				r.RowIDs = append(r.RowIDs, rowID)
				r.ColumnIDs = append(r.ColumnIDs, shard*vc8SW+20000+uint64(i))
			}
			if err := c.cmd.API.Import(context.Background(), r); err != nil {
				c.fatalf("big Import(%s/%s): %v", idx.Name, f.Name, err)
			}
			for i := 0; i < n; i++ {
				c.applySetBit(idx, f, row, strconv.FormatUint(shard*vc8SW+20000+uint64(i), 10), nil)
			}
			c.logf("Import(%s/%s shard=%d row=%d cols=%d..%d)", idx.Name, f.Name, shard, rowID, shard*vc8SW+20000, shard*vc8SW+20000+n-1)
		default:
			if rs := f.rowsWithBits(); len(rs) > 0 {
				row = rapid.SampledFrom(rs).Draw(t, "rowFull")
			}
			q := fmt.Sprintf("ClearRow(%s=%s)", f.Name, vc8rowLit(f, row))
			c.query(idx, q)
			delete(f.bits, row)
			c.logf("%s: %s", idx.Name, q)
		}
		c.cls["restart-right-after-snapshotting-write"] = true
		c.nt = true
		c.reopen()
	case "remoteShardAdd":
		// what a node receives when another node creates a shard: CreateShardMessage -> Field.AddRemoteAvailableShards
		if len(idx.order) == 0 {
			return
		}
		f := idx.fields[rapid.SampledFrom(idx.order).Draw(t, "f")]
		for k, m := 0, rapid.IntRange(1, 3).Draw(t, "nremote"); k < m; k++ {
			sh := rapid.SampledFrom(vc8RemoteShards).Draw(t, "rshard")
			body, err := pilosa.MarshalInternalMessage(&pilosa.CreateShardMessage{Index: idx.Name, Field: f.Name, Shard: sh}, proto.Serializer{})
			if err != nil {
				c.fatalf("marshal CreateShardMessage: %v", err)
			}
			if err := c.cmd.API.ClusterMessage(context.Background(), bytes.NewReader(body)); err != nil {
				c.fatalf("ClusterMessage(CreateShard %s/%s/%d): %v", idx.Name, f.Name, sh, err)
			}
			if f.remote == nil {
				f.remote = map[uint64]bool{}
			}
			f.remote[sh] = true
			idx.everRemote[sh] = true
			c.logf("ClusterMessage(CreateShardMessage %s/%s shard=%d)", idx.Name, f.Name, sh)
		}
		c.cls["remote-shards-added"] = true
	case "remoteShardRemove":
		fs := c.fieldsOf(idx, func(f *vc8Field) bool { return len(f.remote) > 0 })
		if len(fs) == 0 {
			return
		}
		f := fs[rapid.IntRange(0, len(fs)-1).Draw(t, "f")]
		var have []uint64
		for sh := range f.remote {
			have = append(have, sh)
		}
		sort.Slice(have, func(i, j int) bool { return have[i] < have[j] })
		sh := rapid.SampledFrom(have).Draw(t, "rshard")
		if err := c.cmd.API.DeleteAvailableShard(context.Background(), idx.Name, f.Name, sh); err != nil {
			c.fatalf("DeleteAvailableShard(%s/%s/%d): %v", idx.Name, f.Name, sh, err)
		}
		delete(f.remote, sh)
		c.logf("DeleteAvailableShard(%s/%s shard=%d)", idx.Name, f.Name, sh)
		c.cls["remote-shard-removed"] = true
		if rapid.IntRange(0, 2).Draw(t, "thenReopen") != 0 {
			c.cls["restart-right-after-remote-shard-removal"] = true
			c.nt = true
			c.reopen()
		}
	case "attrsEmpty":
		// delete every attribute of one row or column with nulls, so that the id is left
		// without attributes (set one first when the model has none to delete)
		rowFields := c.fieldsOf(idx, func(f *vc8Field) bool { return f.Typ == "set" || f.Typ == "mutex" || f.Typ == "time" })
		onRow := len(rowFields) > 0 && rapid.Bool().Draw(t, "onRow")
		var m map[string]map[string]interface{}
		var f *vc8Field
		var pool []string
		if onRow {
			f = rowFields[rapid.IntRange(0, len(rowFields)-1).Draw(t, "f")]
			m, pool = f.rowAttrs, f.rowPool
		} else {
			m, pool = idx.colAttrs, c.colsWithBits(idx)
			if len(pool) == 0 {
				pool = []string{c.drawCol(idx, "col", false)}
			}
		}
		var have []string
		for _, id := range pool {
			if len(m[id]) > 0 {
				have = append(have, id)
			}
		}
		var id string
		if len(have) > 0 {
			id = rapid.SampledFrom(have).Draw(t, "attrId")
		} else {
			id = rapid.SampledFrom(pool).Draw(t, "attrId")
			var q string
			if onRow {
				q = fmt.Sprintf("SetRowAttrs(%s, %s, x=%d)", f.Name, vc8rowLit(f, id), 7)
			} else {
				q = fmt.Sprintf("SetColumnAttrs(%s, x=%d)", vc8colLit(idx, id), 7)
			}
			c.query(idx, q)
			vc8applyAttr(m, id, "x", int64(7))
			c.logf("%s: %s", idx.Name, q)
		}
		var keys []string
		for k := range m[id] {
			keys = append(keys, k)
		}
		sort.Strings(keys)
		var nulls []string
		for _, k := range keys {
			nulls = append(nulls, k+"=null")
		}
		var q string
		if onRow {
			q = fmt.Sprintf("SetRowAttrs(%s, %s, %s)", f.Name, vc8rowLit(f, id), strings.Join(nulls, ", "))
		} else {
			q = fmt.Sprintf("SetColumnAttrs(%s, %s)", vc8colLit(idx, id), strings.Join(nulls, ", "))
		}
		c.query(idx, q)
		for _, k := range keys {
			vc8applyAttr(m, id, k, nil)
		}
		c.logf("%s: %s", idx.Name, q)
		c.emptied = true
		c.cls["attrs-emptied"] = true
	case "colAttrs":
		col := c.drawCol(idx, "col", false)
		if cols := c.colsWithBits(idx); len(cols) > 0 && rapid.IntRange(0, 3).Draw(t, "colWithBit") != 0 {
			col = rapid.SampledFrom(cols).Draw(t, "bitcol")
		}
		k, lit, v := vc8genAttr(t)
		q := fmt.Sprintf("SetColumnAttrs(%s, %s=%s)", vc8colLit(idx, col), k, lit)
		c.query(idx, q)
		vc8applyAttr(idx.colAttrs, col, k, v)
		c.logf("%s: %s", idx.Name, q)
		c.cls["colAttrs"] = true
	case "reopen":
		c.reopen()
	}
}

// colsWithBits lists the columns that hold a bit in the standard view of some field
// (their attributes are readable through Options(Row(..), columnAttrs=true)).
func (c *vc8Case) colsWithBits(idx *vc8Index) []string {
	m := map[string]bool{}
	for _, n := range idx.order {
		f := idx.fields[n]
		if f.Typ == "int" || f.NoStd {
			continue
		}
		for _, cs := range f.bits {
			for col, v := range cs {
				if v {
					m[col] = true
				}
			}
		}
	}
	return vc8sorted(m, !idx.Keys)
}

func (c *vc8Case) anyBits(idx *vc8Index) bool {
	for _, f := range idx.fields {
		for _, cs := range f.bits {
			if len(cs) > 0 {
				return true
			}
		}
		if len(f.vals) > 0 {
			return true
		}
	}
	return false
}

func vc8genAttr(t *rapid.T) (key, lit string, val interface{}) {
	key = rapid.SampledFrom([]string{"x", "y", "name"}).Draw(t, "akey")
	switch rapid.IntRange(0, 3).Draw(t, "akind") {
	case 0:
		s := rapid.SampledFrom([]string{"", "v", "hello world", "q\"uote"}).Draw(t, "astr")
		return key, strconv.Quote(s), s
	case 1:
		n := rapid.Int64Range(-5, 1000).Draw(t, "aint")
		return key, strconv.FormatInt(n, 10), n
	case 2:
		b := rapid.Bool().Draw(t, "abool")
		return key, strconv.FormatBool(b), b
	default:
		return key, "null", nil
	}
}

func vc8applyAttr(m map[string]map[string]interface{}, id, k string, v interface{}) {
	if m[id] == nil {
		m[id] = map[string]interface{}{}
	}
	if v == nil {
		delete(m[id], k)
	} else {
		m[id][k] = v
	}
}

// ---------------------------------------------------------------------------
// probe battery

type vc8Probe struct {
	desc string
	got  string
	want string // "" = no model expectation (before/after comparison only)
}

func vc8canonAttrs(m map[string]interface{}) string {
	keys := make([]string, 0, len(m))
	for k := range m {
		keys = append(keys, k)
	}
	sort.Strings(keys)
	var sb strings.Builder
	sb.WriteString("{")
	for _, k := range keys {
		fmt.Fprintf(&sb, "%s=%v(%T);", k, m[k], m[k])
	}
	sb.WriteString("}")
	return sb.String()
}

func (c *vc8Case) rowCols(idx *vc8Index, r *pilosa.Row) []string {
	var out []string
	if idx.Keys {
		out = append(out, r.Keys...)
		sort.Strings(out)
		return out
	}
	for _, v := range r.Columns() {
		out = append(out, strconv.FormatUint(v, 10))
	}
	return out
}

func (c *vc8Case) probeRow(idx *vc8Index, q string, wantCols map[string]bool, attrs map[string]interface{}, withAttrs bool) vc8Probe {
	resp := c.query(idx, q)
	r, ok := resp.Results[0].(*pilosa.Row)
	if !ok {
		c.fatalf("%s: result is %T, want *Row", q, resp.Results[0])
	}
	got := strings.Join(c.rowCols(idx, r), ",")
	want := strings.Join(vc8sorted(wantCols, !idx.Keys), ",")
	if withAttrs {
		got += " attrs=" + vc8canonAttrs(r.Attrs)
		want += " attrs=" + vc8canonAttrs(attrs)
	}
	if want == "" {
		want = "(none)"
	}
	if got == "" {
		got = "(none)"
	}
	return vc8Probe{desc: idx.Name + ": " + q, got: got, want: want}
}

func (c *vc8Case) battery() []vc8Probe {
	var ps []vc8Probe
	// TopN(n) reads the rank caches' sorted view, which is refreshed at most every
	// 10 s on its own: force it, so that the answers below are defined.
	if err := c.cmd.API.RecalculateCaches(context.Background()); err != nil {
		c.fatalf("RecalculateCaches: %v", err)
	}
	// schema
	sj, err := json.Marshal(c.cmd.API.Schema(context.Background()))
	if err != nil {
		c.fatalf("marshal schema: %v", err)
	}
	var mine []json.RawMessage
	var all []struct {
		Name string `json:"name"`
	}
	var raws []json.RawMessage
	json.Unmarshal(sj, &all)
	json.Unmarshal(sj, &raws)
	names := map[string]bool{}
	for _, idx := range c.idxs {
		names[idx.Name] = true
	}
	for i, a := range all {
		if names[a.Name] {
			mine = append(mine, raws[i])
		}
	}
	mj, _ := json.Marshal(mine)
	ps = append(ps, vc8Probe{desc: "Schema()", got: string(mj)})
	if w := c.schemaWant(); w != "" {
		ps = append(ps, vc8Probe{desc: "Schema() vs model", got: c.schemaGot(string(mj)), want: w})
	}
	avail := c.cmd.API.AvailableShardsByIndex(context.Background())
	for _, idx := range c.idxs {
		var sl []uint64
		if b := avail[idx.Name]; b != nil {
			sl = b.Slice()
		}
		ps = append(ps, vc8Probe{desc: "AvailableShards(" + idx.Name + ")", got: fmt.Sprint(sl)})
		if !idx.Keys {
			// validity: every shard holding live model data is available; nothing outside the touched set
			have := map[uint64]bool{}
			for _, s := range sl {
				have[s] = true
				if !idx.touched[s] && !idx.everRemote[s] {
					c.fatalf("AvailableShardsByIndex(%s) = %v contains shard %d that no write touched and no field lists as remote", idx.Name, sl, s)
				}
			}
			for _, s := range c.liveShards(idx) {
				if !have[s] {
					c.fatalf("AvailableShardsByIndex(%s) = %v lacks shard %d which holds data", idx.Name, sl, s)
				}
			}
		}
		for _, fn := range idx.order {
			ps = append(ps, c.fieldBattery(idx, idx.fields[fn])...)
			// per-field available shards; the shards >= 7 are exactly the remote ones of the model
			fld, err := c.cmd.API.Field(context.Background(), idx.Name, fn)
			if err != nil {
				c.fatalf("Field(%s/%s): %v", idx.Name, fn, err)
			}
			all := fld.AvailableShards().Slice()
			var gotR, wantR []uint64
			for _, sh := range all {
				if sh >= 7 {
					gotR = append(gotR, sh)
				}
			}
			for sh, v := range idx.fields[fn].remote {
				if v {
					wantR = append(wantR, sh)
				}
			}
			sort.Slice(wantR, func(i, j int) bool { return wantR[i] < wantR[j] })
			ps = append(ps, vc8Probe{desc: fmt.Sprintf("AvailableShards(%s/%s)", idx.Name, fn), got: fmt.Sprint(all)})
			pr := vc8Probe{desc: fmt.Sprintf("remote AvailableShards(%s/%s)", idx.Name, fn), got: "remote=" + fmt.Sprint(gotR), want: "remote=" + fmt.Sprint(wantR)}
			if idx.storeSinceRemote {
				// only the lower bound is defined: every remote shard of the model is listed
				pr.want = ""
				have := map[uint64]bool{}
				for _, sh := range gotR {
					have[sh] = true
				}
				for _, sh := range wantR {
					if !have[sh] {
						c.fatalf("AvailableShards(%s/%s) = %v lacks remote shard %d", idx.Name, fn, all, sh)
					}
				}
			}
			ps = append(ps, pr)
		}
		// key translation, forward direction
		if idx.Keys {
			keys := append([]string{}, vc8ColKeysAll...)
			var used []string
			for _, k := range keys {
				if c.colUsed(idx, k) {
					used = append(used, k)
				}
			}
			if len(used) > 0 {
				ps = append(ps, vc8Probe{desc: fmt.Sprintf("TranslateKeys(%s cols %v)", idx.Name, used), got: c.translate(idx.Name, "", used)})
			}
		}
		for _, fn := range idx.order {
			f := idx.fields[fn]
			if f.Keys {
				var used []string
				for _, k := range vc8RowKeys {
					if len(f.bits[k]) > 0 || len(f.rowAttrs[k]) > 0 {
						used = append(used, k)
					}
				}
				if len(used) > 0 {
					ps = append(ps, vc8Probe{desc: fmt.Sprintf("TranslateKeys(%s/%s rows %v)", idx.Name, f.Name, used), got: c.translate(idx.Name, f.Name, used)})
				}
			}
		}
	}
	return ps
}

func (c *vc8Case) remoteShard(idx *vc8Index, s uint64) bool {
	for _, f := range idx.fields {
		if f.remote[s] {
			return true
		}
	}
	return false
}

func (c *vc8Case) colUsed(idx *vc8Index, k string) bool {
	if idx.exist[k] || len(idx.colAttrs[k]) > 0 {
		return true
	}
	for _, f := range idx.fields {
		for _, cs := range f.bits {
			if cs[k] {
				return true
			}
		}
		if _, ok := f.vals[k]; ok {
			return true
		}
	}
	return false
}

func (c *vc8Case) translate(index, field string, keys []string) string {
	var ser proto.Serializer
	body, err := ser.Marshal(&pilosa.TranslateKeysRequest{Index: index, Field: field, Keys: keys})
	if err != nil {
		c.fatalf("marshal translate request: %v", err)
	}
	out, err := c.cmd.API.TranslateKeys(bytes.NewReader(body))
	if err != nil {
		c.fatalf("TranslateKeys(%s,%s,%v): %v", index, field, keys, err)
	}
	var resp pilosa.TranslateKeysResponse
	if err := ser.Unmarshal(out, &resp); err != nil {
		c.fatalf("unmarshal translate response: %v", err)
	}
	seen := map[uint64]bool{}
	for _, id := range resp.IDs {
		if id == 0 || seen[id] {
			c.fatalf("TranslateKeys(%s,%s,%v) = %v: ids must be positive and distinct", index, field, keys, resp.IDs)
		}
		seen[id] = true
	}
	return fmt.Sprint(resp.IDs)
}

func (c *vc8Case) liveShards(idx *vc8Index) []uint64 {
	m := map[uint64]bool{}
	add := func(col string) {
		v, _ := strconv.ParseUint(col, 10, 64)
		m[v/vc8SW] = true
	}
	for _, f := range idx.fields {
		for _, cs := range f.bits {
			for col, v := range cs {
				if v {
					add(col)
				}
			}
		}
		for _, vw := range f.tv {
			for _, cs := range vw {
				for col, v := range cs {
					if v {
						add(col)
					}
				}
			}
		}
		for col := range f.vals {
			add(col)
		}
	}
	var out []uint64
	for s := range m {
		out = append(out, s)
	}
	sort.Slice(out, func(i, j int) bool { return out[i] < out[j] })
	return out
}

// schemaWant renders what the model knows about the options (the subset that
// the creation request determines).
func (c *vc8Case) schemaWant() string {
	var sb strings.Builder
	idxs := append([]*vc8Index{}, c.idxs...)
	sort.Slice(idxs, func(i, j int) bool { return idxs[i].Name < idxs[j].Name })
	for _, idx := range idxs {
		fmt.Fprintf(&sb, "%s keys=%v track=%v [", idx.Name, idx.Keys, idx.Track)
		names := append([]string{}, idx.order...)
		sort.Strings(names)
		for _, n := range names {
			f := idx.fields[n]
			fmt.Fprintf(&sb, "%s type=%s keys=%v", f.Name, f.Typ, f.Keys)
			switch f.Typ {
			case "set", "mutex":
				ct := f.CacheType
				fmt.Fprintf(&sb, " cache=%s", ct)
				if f.CacheSize != 0 && ct != "none" {
					fmt.Fprintf(&sb, "/%d", f.CacheSize)
				}
			case "int":
				fmt.Fprintf(&sb, " min=%d max=%d", f.Min, f.Max)
			case "time":
				fmt.Fprintf(&sb, " q=%s noStd=%v", f.Quantum, f.NoStd)
			}
			sb.WriteString("; ")
		}
		sb.WriteString("] ")
	}
	return sb.String()
}

func (c *vc8Case) schemaGot(sj string) string {
	var infos []*pilosa.IndexInfo
	if err := json.Unmarshal([]byte(sj), &infos); err != nil {
		c.fatalf("unmarshal schema %s: %v", sj, err)
	}
	byName := map[string]*vc8Index{}
	for _, idx := range c.idxs {
		byName[idx.Name] = idx
	}
	var sb strings.Builder
	for _, ii := range infos {
		fmt.Fprintf(&sb, "%s keys=%v track=%v [", ii.Name, ii.Options.Keys, ii.Options.TrackExistence)
		for _, fi := range ii.Fields {
			o := fi.Options
			fmt.Fprintf(&sb, "%s type=%s keys=%v", fi.Name, o.Type, o.Keys)
			var mf *vc8Field
			if mi := byName[ii.Name]; mi != nil {
				mf = mi.fields[fi.Name]
			}
			switch o.Type {
			case "set", "mutex":
				fmt.Fprintf(&sb, " cache=%s", o.CacheType)
				if mf != nil && mf.CacheSize != 0 && mf.CacheType != "none" {
					fmt.Fprintf(&sb, "/%d", o.CacheSize)
				}
			case "int":
				fmt.Fprintf(&sb, " min=%d max=%d", o.Min, o.Max)
			case "time":
				fmt.Fprintf(&sb, " q=%s noStd=%v", o.TimeQuantum, o.NoStandardView)
			}
			sb.WriteString("; ")
		}
		sb.WriteString("] ")
	}
	return sb.String()
}

func (c *vc8Case) fieldBattery(idx *vc8Index, f *vc8Field) []vc8Probe {
	var ps []vc8Probe
	if f.Typ == "int" {
		return c.intBattery(idx, f)
	}
	// rows: every row of the pool (present or absent)
	for _, row := range f.rowPool {
		if !f.NoStd {
			withAttrs := f.Typ != "bool"
			ps = append(ps, c.probeRow(idx, fmt.Sprintf("Row(%s=%s)", f.Name, vc8rowLit(f, row)), f.bits[row], f.rowAttrs[row], withAttrs))
		}
	}
	if !f.NoStd {
		// Rows(f)
		resp := c.query(idx, fmt.Sprintf("Rows(%s)", f.Name))
		ri, ok := resp.Results[0].(pilosa.RowIdentifiers)
		if !ok {
			c.fatalf("Rows(%s): result is %T", f.Name, resp.Results[0])
		}
		var got []string
		if f.Keys {
			got = append(got, ri.Keys...)
			sort.Strings(got)
		} else {
			for _, r := range ri.Rows {
				got = append(got, strconv.FormatUint(r, 10))
			}
		}
		ps = append(ps, vc8Probe{desc: fmt.Sprintf("%s: Rows(%s)", idx.Name, f.Name), got: "rows=" + strings.Join(got, ","), want: "rows=" + strings.Join(f.rowsWithBits(), ",")})
	}
	if !f.NoStd {
		// Count and Not on the first populated row
		if rows := f.rowsWithBits(); len(rows) > 0 {
			row := rows[0]
			resp := c.query(idx, fmt.Sprintf("Count(Row(%s=%s))", f.Name, vc8rowLit(f, row)))
			ps = append(ps, vc8Probe{desc: fmt.Sprintf("%s: Count(Row(%s=%s))", idx.Name, f.Name, row), got: fmt.Sprint(resp.Results[0]), want: fmt.Sprint(len(vc8sorted(f.bits[row], false)))})
			if idx.Track {
				want := map[string]bool{}
				for col := range idx.exist {
					if !f.bits[row][col] {
						want[col] = true
					}
				}
				ps = append(ps, c.probeRow(idx, fmt.Sprintf("Not(Row(%s=%s))", f.Name, vc8rowLit(f, row)), want, nil, false))
			}
		}
		// column attributes of the columns of every populated row
		for _, row := range f.rowsWithBits() {
			resp := c.query(idx, fmt.Sprintf("Options(Row(%s=%s), columnAttrs=true)", f.Name, vc8rowLit(f, row)))
			var gotA, wantA []string
			for _, cas := range resp.ColumnAttrSets {
				id := strconv.FormatUint(cas.ID, 10)
				if idx.Keys {
					id = cas.Key
				}
				gotA = append(gotA, id+vc8canonAttrs(cas.Attrs))
			}
			for _, col := range vc8sorted(f.bits[row], !idx.Keys) {
				if len(idx.colAttrs[col]) > 0 {
					wantA = append(wantA, col+vc8canonAttrs(idx.colAttrs[col]))
				}
			}
			sort.Strings(gotA)
			sort.Strings(wantA)
			ps = append(ps, vc8Probe{desc: fmt.Sprintf("%s: columnAttrs of Row(%s=%s)", idx.Name, f.Name, row), got: "ca=" + strings.Join(gotA, "|"), want: "ca=" + strings.Join(wantA, "|")})
		}
		// TopN with explicit ids: exact counts
		if (f.Typ == "set" || f.Typ == "mutex") && f.CacheType != "none" && !f.Keys {
			ids := strings.Join(f.rowPool, ",")
			resp := c.query(idx, fmt.Sprintf("TopN(%s, ids=[%s])", f.Name, ids))
			pairs, ok := resp.Results[0].([]pilosa.Pair)
			if !ok {
				c.fatalf("TopN(%s): result is %T", f.Name, resp.Results[0])
			}
			var got, want []string
			for _, p := range pairs {
				got = append(got, fmt.Sprintf("%d:%d", p.ID, p.Count))
			}
			for _, r := range f.rowPool {
				if n := len(vc8sorted(f.bits[r], false)); n > 0 {
					want = append(want, fmt.Sprintf("%s:%d", r, n))
				}
			}
			sort.Strings(got)
			sort.Strings(want)
			ps = append(ps, vc8Probe{desc: fmt.Sprintf("%s: TopN(%s, ids=[%s])", idx.Name, f.Name, ids), got: "topn=" + strings.Join(got, ","), want: "topn=" + strings.Join(want, ",")})
		}
		// TopN from the caches (no ids), with and without a filter row. Sound where every
		// row ever written fits each fragment's cache and n covers all rows: the answer is
		// then the exact set of (row, count) pairs (order of ties is free, so compared sorted).
		if f.topnCacheExact() {
			pairStr := func(q string) string {
				resp := c.query(idx, q)
				pairs, ok := resp.Results[0].([]pilosa.Pair)
				if !ok {
					c.fatalf("%s: result is %T", q, resp.Results[0])
				}
				var got []string
				for _, p := range pairs {
					id := strconv.FormatUint(p.ID, 10)
					if f.Keys {
						id = p.Key
					}
					got = append(got, fmt.Sprintf("%s:%d", id, p.Count))
				}
				sort.Strings(got)
				return "topn=" + strings.Join(got, ",")
			}
			n := len(f.rowPool) + 1
			var want []string
			for _, r := range f.rowPool {
				if k := len(vc8sorted(f.bits[r], false)); k > 0 {
					want = append(want, fmt.Sprintf("%s:%d", r, k))
				}
			}
			sort.Strings(want)
			q := fmt.Sprintf("TopN(%s, n=%d)", f.Name, n)
			ps = append(ps, vc8Probe{desc: idx.Name + ": " + q, got: pairStr(q), want: "topn=" + strings.Join(want, ",")})
			// filter: the first populated row of the first other bit field with a standard view
			for _, on := range idx.order {
				g := idx.fields[on]
				if g.Typ == "int" || g.NoStd {
					continue
				}
				rows := g.rowsWithBits()
				if len(rows) == 0 {
					continue
				}
				src := g.bits[rows[0]]
				var wantF []string
				for _, r := range f.rowPool {
					k := 0
					for col, v := range f.bits[r] {
						if v && src[col] {
							k++
						}
					}
					if k > 0 {
						wantF = append(wantF, fmt.Sprintf("%s:%d", r, k))
					}
				}
				sort.Strings(wantF)
				q := fmt.Sprintf("TopN(%s, Row(%s=%s), n=%d)", f.Name, g.Name, vc8rowLit(g, rows[0]), n)
				ps = append(ps, vc8Probe{desc: idx.Name + ": " + q, got: pairStr(q), want: "topn=" + strings.Join(wantF, ",")})
				break
			}
		}
	}
	// time views: one single-unit range per existing view, all rows
	if f.Typ == "time" {
		var views []string
		for v := range f.tv {
			views = append(views, v)
		}
		sort.Strings(views)
		for _, v := range views {
			from, to := vc8viewRange(v)
			for _, row := range f.rowPool {
				if len(f.tv[v][row]) == 0 && row != f.rowPool[0] {
					continue
				}
				q := fmt.Sprintf("Row(%s=%s, from='%s', to='%s')", f.Name, vc8rowLit(f, row), from.Format("2006-01-02T15:04"), to.Format("2006-01-02T15:04"))
				ps = append(ps, c.probeRow(idx, q, f.tv[v][row], nil, false))
			}
		}
	}
	// export of the standard view (id -> key translation of rows and columns)
	if !f.NoStd && !idx.Keys {
		for _, sh := range c.liveShards(idx) {
			var buf bytes.Buffer
			err := c.cmd.API.ExportCSV(context.Background(), idx.Name, f.Name, sh, &buf)
			if err != nil {
				if err == pilosa.ErrFragmentNotFound {
					ps = append(ps, vc8Probe{desc: fmt.Sprintf("ExportCSV(%s/%s/%d)", idx.Name, f.Name, sh), got: "no fragment"})
					continue
				}
				c.fatalf("ExportCSV(%s/%s/%d): %v", idx.Name, f.Name, sh, err)
			}
			lines := strings.Split(strings.TrimSpace(buf.String()), "\n")
			sort.Strings(lines)
			var want []string
			for r, cs := range f.bits {
				for col, v := range cs {
					cv, _ := strconv.ParseUint(col, 10, 64)
					if v && cv/vc8SW == sh {
						want = append(want, r+","+col)
					}
				}
			}
			sort.Strings(want)
			g := strings.Join(lines, ";")
			ps = append(ps, vc8Probe{desc: fmt.Sprintf("ExportCSV(%s/%s/%d)", idx.Name, f.Name, sh), got: "csv=" + g, want: "csv=" + strings.Join(want, ";")})
		}
	} else if !f.NoStd && idx.Keys {
		var buf bytes.Buffer
		err := c.cmd.API.ExportCSV(context.Background(), idx.Name, f.Name, 0, &buf)
		if err == nil {
			lines := strings.Split(strings.TrimSpace(buf.String()), "\n")
			sort.Strings(lines)
			var want []string
			for r, cs := range f.bits {
				for col, v := range cs {
					if v {
						want = append(want, vc8csv(r)+","+vc8csv(col))
					}
				}
			}
			sort.Strings(want)
			ps = append(ps, vc8Probe{desc: fmt.Sprintf("ExportCSV(%s/%s/0)", idx.Name, f.Name), got: "csv=" + strings.Join(lines, ";"), want: "csv=" + strings.Join(want, ";")})
		} else if err != pilosa.ErrFragmentNotFound {
			c.fatalf("ExportCSV(%s/%s/0): %v", idx.Name, f.Name, err)
		}
	}
	return ps
}

func vc8csv(s string) string {
	if strings.ContainsAny(s, ",\" \n") && (strings.ContainsAny(s, ",\"\n") || strings.HasPrefix(s, " ")) {
		return `"` + strings.Replace(s, `"`, `""`, -1) + `"`
	}
	return s
}

func (c *vc8Case) intBattery(idx *vc8Index, f *vc8Field) []vc8Probe {
	var ps []vc8Probe
	cols := map[string]bool{}
	var sum int64
	first := true
	var mn, mx int64
	for col, v := range f.vals {
		cols[col] = true
		sum += v
		if first || v < mn {
			mn = v
		}
		if first || v > mx {
			mx = v
		}
		first = false
	}
	ps = append(ps, c.probeRow(idx, fmt.Sprintf("Row(%s != null)", f.Name), cols, nil, false))
	vcs := func(q string) pilosa.ValCount {
		resp := c.query(idx, q)
		vc, ok := resp.Results[0].(pilosa.ValCount)
		if !ok {
			c.fatalf("%s: result is %T", q, resp.Results[0])
		}
		return vc
	}
	s := vcs(fmt.Sprintf("Sum(field=%s)", f.Name))
	ps = append(ps, vc8Probe{desc: fmt.Sprintf("%s: Sum(field=%s)", idx.Name, f.Name), got: fmt.Sprintf("%d/%d", s.Val, s.Count), want: fmt.Sprintf("%d/%d", sum, len(f.vals))})
	for _, fn := range []string{"Min", "Max"} {
		vc := vcs(fmt.Sprintf("%s(field=%s)", fn, f.Name))
		wantV := mn
		if fn == "Max" {
			wantV = mx
		}
		n := 0
		for _, v := range f.vals {
			if v == wantV {
				n++
			}
		}
		if len(f.vals) == 0 {
			wantV = 0
		}
		ps = append(ps, vc8Probe{desc: fmt.Sprintf("%s: %s(field=%s)", idx.Name, fn, f.Name), got: fmt.Sprintf("%d/%d", vc.Val, vc.Count), want: fmt.Sprintf("%d/%d", wantV, n)})
	}
	// predicates on every stored value
	distinct := map[int64]bool{}
	for _, v := range f.vals {
		distinct[v] = true
	}
	var dv []int64
	for v := range distinct {
		dv = append(dv, v)
	}
	sort.Slice(dv, func(i, j int) bool { return dv[i] < dv[j] })
	if len(dv) > 5 {
		dv = dv[:5]
	}
	for _, p := range dv {
		type op struct {
			sym string
			fn  func(v int64) bool
		}
		ops := []op{{"==", func(v int64) bool { return v == p }}, {"!=", func(v int64) bool { return v != p }},
			{"<", func(v int64) bool { return v < p }}, {">=", func(v int64) bool { return v >= p }},
			{">", func(v int64) bool { return v > p }}, {"<=", func(v int64) bool { return v <= p }}}
		for _, o := range ops {
			want := map[string]bool{}
			for col, v := range f.vals {
				if o.fn(v) {
					want[col] = true
				}
			}
			ps = append(ps, c.probeRow(idx, fmt.Sprintf("Row(%s %s %d)", f.Name, o.sym, p), want, nil, false))
		}
	}
	return ps
}

func (c *vc8Case) checkModel(when string, ps []vc8Probe) {
	for _, p := range ps {
		if p.want != "" && p.got != p.want {
			c.fatalf("%s: %s\n  got  %s\n  want %s (model)", when, p.desc, p.got, p.want)
		}
	}
}

func (c *vc8Case) reopen() {
	before := c.battery()
	c.checkModel("before restart", before)
	// classes of the state being restarted
	for _, idx := range c.idxs {
		if idx.Keys {
			c.cls["restart:index-keys"] = true
			if c.anyBits(idx) {
				c.nt = true
			}
		}
		for _, f := range idx.fields {
			if f.Typ == "int" {
				d0 := true
				for _, v := range f.vals {
					if v != 0 {
						d0 = false
					}
				}
				if d0 && len(f.vals) > 0 {
					c.cls["restart:int-depth0-with-zeros"] = true
					c.nt = true
				} else if d0 {
					c.cls["restart:int-depth0-empty"] = true
					c.nt = true
				} else {
					c.cls["restart:int-with-values"] = true
				}
			}
			if f.Typ == "time" {
				gran := map[int]bool{}
				for v := range f.tv {
					gran[len(v)] = true
				}
				if len(gran) >= 2 {
					c.cls["restart:time-2-granularities"] = true
					c.nt = true
				}
				if f.NoStd {
					c.cls["restart:time-noStandardView"] = true
				}
			}
			if f.Keys && len(f.bits) > 0 {
				c.cls["restart:field-keys"] = true
				c.nt = true
			}
			if len(f.rowAttrs) > 0 {
				c.cls["restart:row-attrs"] = true
			}
		}
		if len(idx.colAttrs) > 0 {
			c.cls["restart:col-attrs"] = true
		}
	}
	if c.emptied {
		c.cls["restart:attrs-emptied-id"] = true
		c.nt = true
		c.emptied = false
	}
	if err := c.cmd.Reopen(); err != nil {
		c.fatalf("Reopen: %v", err)
	}
	c.logf("Reopen()")
	c.cls["reopen"] = true
	after := c.battery()
	if len(before) != len(after) {
		c.fatalf("probe battery changed size across restart: %d vs %d", len(before), len(after))
	}
	for i := range before {
		if before[i].got != after[i].got {
			c.fatalf("answer changed across restart: %s\n  before %s\n  after  %s", before[i].desc, before[i].got, after[i].got)
		}
	}
	c.checkModel("after restart", after)
}

func TestVerifC08_Restart(t *testing.T) {
	defer vkit.Flush()
	defer vc8CloseServer()
	rapid.Check(t, func(t *rapid.T) {
		cmd := vc8Server()
		c := &vc8Case{t: t, cmd: cmd, cls: map[string]bool{}, bulkDone: map[string]bool{}}
		seq := vc8seq
		nidx := rapid.IntRange(1, 2).Draw(t, "nidx")
		defer func() {
			for _, idx := range c.idxs {
				cmd.API.DeleteIndex(context.Background(), idx.Name)
			}
		}()
		for i := 0; i < nidx; i++ {
			idx := &vc8Index{Name: fmt.Sprintf("c8x%dn%d", seq, i), Keys: rapid.IntRange(0, 2).Draw(t, "ikeys") == 0, Track: rapid.Bool().Draw(t, "itrack")}
			c.idxs = append(c.idxs, idx)
			c.createIndex(idx)
			// start with a few fields so that the data operations have targets
			nf := rapid.IntRange(1, 3).Draw(t, "nfields")
			for j := 0; j < nf; j++ {
				c.createField(idx, vc8genField(t, fmt.Sprintf("f%d", j), idx))
			}
		}
		nsteps := rapid.IntRange(4, vkit.Scale(24, 40)).Draw(t, "nsteps")
		for i := 0; i < nsteps; i++ {
			c.step(i)
		}
		// final restart: every history is checked at least once
		c.reopen()

		// key = the history with the per-run index sequence number removed
		key := strings.Replace(strings.Join(c.log, "|"), fmt.Sprintf("c8x%dn", seq), "c8xN", -1)
		vc := vkit.NewCase().Key(key)
		var cl []string
		for k := range c.cls {
			cl = append(cl, k)
		}
		sort.Strings(cl)
		for _, k := range cl {
			vc.Class(k)
		}
		vc.NT(c.nt)
		smp := c.log
		if len(smp) > 14 {
			smp = smp[:14]
		}
		vc.Sample(map[string]interface{}{"history_prefix": smp, "steps": len(c.log)})
		vc.Done()
	})
}
