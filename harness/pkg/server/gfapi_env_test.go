package server_test

// gfapi — shared helpers of group gF for the API-level halves of C12 and C13:
// one long-lived single-node server per test function, a fresh index with a generated name per case.

import (
	"bytes"
	"context"
	"fmt"
	"sort"
	"strings"

	"github.com/pilosa/pilosa"
	"github.com/pilosa/pilosa/roaring"
	"github.com/pilosa/pilosa/test"
)

const vgaSW = uint64(pilosa.ShardWidth)

type vgaT interface {
	Fatalf(format string, args ...interface{})
}

type vgaEnv struct {
	cmd *test.Command
	seq int
}

func vgaStart() *vgaEnv { return &vgaEnv{cmd: test.MustRunCommand()} }

func (e *vgaEnv) Close() { e.cmd.Close() }

func (e *vgaEnv) newIndex(t vgaT, prefix string, opts pilosa.IndexOptions) (string, func()) {
	e.seq++
	name := fmt.Sprintf("%s%d", prefix, e.seq)
	if _, err := e.cmd.API.CreateIndex(context.Background(), name, opts); err != nil {
		t.Fatalf("creating index %s: %v", name, err)
	}
	return name, func() { _ = e.cmd.API.DeleteIndex(context.Background(), name) }
}

func (e *vgaEnv) field(t vgaT, index, field string, opts ...pilosa.FieldOption) {
	if _, err := e.cmd.API.CreateField(context.Background(), index, field, opts...); err != nil {
		t.Fatalf("creating field %s/%s: %v", index, field, err)
	}
}

func (e *vgaEnv) query(index, q string) ([]interface{}, error) {
	resp, err := e.cmd.API.Query(context.Background(), &pilosa.QueryRequest{Index: index, Query: q})
	if err != nil {
		return nil, err
	}
	return resp.Results, nil
}

// vgaCase carries the history of one generated case for failure messages.
type vgaCase struct {
	t     vgaT
	e     *vgaEnv
	index string
	desc  string
	hist  []string
}

func (c *vgaCase) fail(format string, args ...interface{}) {
	c.t.Fatalf("[%s] %s\nhistory:\n  %s", c.desc, fmt.Sprintf(format, args...), strings.Join(c.hist, "\n  "))
}

func (c *vgaCase) recalc() {
	if err := c.e.cmd.API.RecalculateCaches(context.Background()); err != nil {
		c.fail("RecalculateCaches: %v", err)
	}
}

func (c *vgaCase) q1(q string) interface{} {
	rs, err := c.e.query(c.index, q)
	if err != nil {
		c.fail("query %s: %v", q, err)
	}
	if len(rs) != 1 {
		c.fail("query %s: %d results, want 1", q, len(rs))
	}
	return rs[0]
}

func (c *vgaCase) qBool(q string) bool {
	b, ok := c.q1(q).(bool)
	if !ok {
		c.fail("query %s: result is not a bool", q)
	}
	return b
}

func (c *vgaCase) qCols(q string) []uint64 {
	r, ok := c.q1(q).(*pilosa.Row)
	if !ok {
		c.fail("query %s: result is not a row", q)
	}
	return r.Columns()
}

func (c *vgaCase) qRows(q string) []uint64 {
	r, ok := c.q1(q).(pilosa.RowIdentifiers)
	if !ok {
		c.fail("query %s: result is not a row list (%T)", q, c.q1(q))
	}
	return r.Rows
}

func (c *vgaCase) qPairs(q string) []pilosa.Pair {
	r, ok := c.q1(q).([]pilosa.Pair)
	if !ok {
		c.fail("query %s: result is not a pair list (%T)", q, c.q1(q))
	}
	return r
}

// importBits sends one Import request per shard (as clients do), keeping the order of the entries.
func (c *vgaCase) importBits(field string, rows, cols []uint64, clear bool) error {
	var shards []uint64
	by := map[uint64][2][]uint64{}
	for i := range rows {
		s := cols[i] / vgaSW
		if _, ok := by[s]; !ok {
			shards = append(shards, s)
		}
		x := by[s]
		x[0] = append(x[0], rows[i])
		x[1] = append(x[1], cols[i])
		by[s] = x
	}
	sort.Slice(shards, func(i, j int) bool { return shards[i] < shards[j] })
	for _, s := range shards {
		req := &pilosa.ImportRequest{Index: c.index, Field: field, Shard: s, RowIDs: by[s][0], ColumnIDs: by[s][1]}
		if err := c.e.cmd.API.Import(context.Background(), req, pilosa.OptImportOptionsClear(clear)); err != nil {
			return err
		}
	}
	return nil
}

// importRoaring sends one ImportRoaring request per shard in pilosa's roaring format.
func (c *vgaCase) importRoaring(field string, rows, cols []uint64, clear bool) {
	by := map[uint64][]uint64{}
	var shards []uint64
	for i := range rows {
		s := cols[i] / vgaSW
		if _, ok := by[s]; !ok {
			shards = append(shards, s)
		}
		by[s] = append(by[s], rows[i]*vgaSW+cols[i]%vgaSW)
	}
	sort.Slice(shards, func(i, j int) bool { return shards[i] < shards[j] })
	for _, s := range shards {
		var buf bytes.Buffer
		if _, err := roaring.NewBitmap(by[s]...).WriteTo(&buf); err != nil {
			c.fail("encoding roaring: %v", err)
		}
		req := &pilosa.ImportRoaringRequest{Clear: clear, Views: map[string][]byte{"": buf.Bytes()}}
		if err := c.e.cmd.API.ImportRoaring(context.Background(), c.index, field, s, false, req); err != nil {
			c.fail("ImportRoaring(shard %d): %v", s, err)
		}
	}
}

func vgaEq(a, b []uint64) bool {
	if len(a) != len(b) {
		return false
	}
	for i := range a {
		if a[i] != b[i] {
			return false
		}
	}
	return true
}

func vgaSorted(s map[uint64]struct{}) []uint64 {
	a := make([]uint64, 0, len(s))
	for k := range s {
		a = append(a, k)
	}
	sort.Slice(a, func(i, j int) bool { return a[i] < a[j] })
	return a
}

func vgaList(a []uint64) string {
	var sb strings.Builder
	for i, v := range a {
		if i > 0 {
			sb.WriteByte(',')
		}
		fmt.Fprintf(&sb, "%d", v)
	}
	return sb.String()
}
