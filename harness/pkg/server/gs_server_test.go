package server_test

// Shared by the gS checks (C03 API layer, C08): one long-lived in-process server.

import (
	"sync"

	"github.com/pilosa/pilosa"
	"github.com/pilosa/pilosa/test"
)

const vc8SW = pilosa.ShardWidth

// ---------------------------------------------------------------------------
// long-lived server

var (
	vc8mu    sync.Mutex
	vc8cmd   *test.Command
	vc8cases int
	vc8seq   int
)

// vc8Server returns the shared server, recycling it every 40 cases so that
// leftovers of failed (shrinking) cases do not accumulate.
func vc8Server() *test.Command {
	vc8mu.Lock()
	defer vc8mu.Unlock()
	if vc8cmd != nil && vc8cases >= 40 {
		vc8cmd.Close()
		vc8cmd = nil
	}
	if vc8cmd == nil {
		vc8cmd = test.MustRunCommand()
		vc8cases = 0
	}
	vc8cases++
	vc8seq++
	return vc8cmd
}

func vc8CloseServer() {
	vc8mu.Lock()
	defer vc8mu.Unlock()
	if vc8cmd != nil {
		vc8cmd.Close()
		vc8cmd = nil
	}
}
