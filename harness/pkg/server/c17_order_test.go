package server_test

// C17 (b) — arrival order through the real executor. A single node runs with one executor worker: local shard
// jobs are queued, executed and reduced in exactly the order of QueryRequest.Shards (checked at function level by
// TestVerifC17_Lever in the in-package half; on the unrepaired tree the D17 witness distinguishes the orders),
// so every arrival order is reachable through the public API.
// Every generated read query must give the same answer under every permutation and equal the model.

import (
	"context"
	"fmt"
	"testing"

	"github.com/pilosa/pilosa/internal/vkit"
	"pgregory.net/rapid"
)

func vc17Perms(xs []uint64) [][]uint64 {
	if len(xs) <= 1 {
		return [][]uint64{append([]uint64(nil), xs...)}
	}
	var out [][]uint64
	for i := range xs {
		rest := append(append([]uint64(nil), xs[:i]...), xs[i+1:]...)
		for _, p := range vc17Perms(rest) {
			out = append(out, append([]uint64{xs[i]}, p...))
		}
	}
	return out
}

func TestVerifC17_Order(t *testing.T) {
	defer vkit.Flush()
	m := vs1RunSingle(t, 1)
	defer m.Close()
	n := 0
	rapid.Check(t, func(t *rapid.T) {
		n++
		index := fmt.Sprintf("o%d", n)
		d := vc17GenData(t)
		nq := rapid.IntRange(3, 10).Draw(t, "nq")
		var qs []vc17Query
		var calls []string
		for i := 0; i < nq; i++ {
			q := vc17GenQuery(t, fmt.Sprintf("q%d", i), d)
			qs = append(qs, q)
			calls = append(calls, q.PQL)
		}
		shards := append([]uint64(nil), d.Shards...)
		if rapid.IntRange(0, 3).Draw(t, "emptyShard") == 0 {
			shards = append(shards, 9) // a shard without data takes part in the reduce as well
		}
		perms := vc17Perms(shards)
		if len(perms) > 6 && !vkit.Thorough() {
			// sample: identity, reverse and six random ones
			idx := rapid.SliceOfNDistinct(rapid.IntRange(1, len(perms)-2), 6, 6, func(i int) int { return i }).Draw(t, "perms")
			pick := [][]uint64{perms[0], perms[len(perms)-1]}
			for _, i := range idx {
				pick = append(pick, perms[i])
			}
			perms = pick
		} else if len(perms) > 24 {
			idx := rapid.SliceOfNDistinct(rapid.IntRange(1, len(perms)-2), 22, 22, func(i int) int { return i }).Draw(t, "perms")
			pick := [][]uint64{perms[0], perms[len(perms)-1]}
			for _, i := range idx {
				pick = append(pick, perms[i])
			}
			perms = pick
		}
		c := vkit.NewCase().Key("order", d.describe(), calls, shards)
		defer c.Done()
		vs1SetupErr(t, vc17Load(t, m, index, d), "loading %s", index)
		defer func() {
			vs1SetupErr(t, m.API.DeleteIndex(context.Background(), index), "deleting index %s", index)
		}()
		if err := m.API.RecalculateCaches(context.Background()); err != nil {
			t.Fatalf("recalculating caches: %v", err)
		}
		first := make([]string, len(qs))
		for pi, p := range perms {
			res := vs1Batch(t, m, index, calls, p, 40)
			for i, q := range qs {
				canon, problem := vc17Canon(q, res[i])
				if problem != "" {
					t.Fatalf("%s with Shards=%v: %s\n data: %s", q.PQL, p, problem, d.describe())
				}
				if pi == 0 {
					first[i] = canon
					if !vc17ModelAgrees(q, canon) {
						t.Fatalf("%s with Shards=%v = %s, model says %s\n data: %s", q.PQL, p, canon, q.Want, d.describe())
					}
				} else if canon != first[i] {
					t.Fatalf("%s depends on the arrival order of the shard results: Shards=%v gives %s, Shards=%v gives %s\n data: %s",
						q.PQL, perms[0], first[i], p, canon, d.describe())
				}
			}
		}
		// non-trivial: >= 2 shards tie on an extreme value / hold the same row ids, >= 2 arrival orders executed
		nt := false
		mod := vs1NewIntModel(vc17VMin, vc17VMax)
		mod.Vals = d.V
		a := mod.agg(nil)
		shMin, shMax := map[uint64]bool{}, map[uint64]bool{}
		for col, v := range d.V {
			if v == a.Min {
				shMin[col/vs1SW] = true
			}
			if v == a.Max {
				shMax[col/vs1SW] = true
			}
		}
		tieExtreme := len(shMin) > 1 || len(shMax) > 1
		overlapRows := false
		for _, cols := range d.S {
			sh := map[uint64]bool{}
			for col := range cols {
				sh[col/vs1SW] = true
			}
			if len(sh) > 1 {
				overlapRows = true
			}
		}
		nt = (tieExtreme || overlapRows) && len(perms) >= 2
		for _, q := range qs {
			c.Class("query:" + q.Kind)
		}
		c.Class("shards:%d", len(shards)).Class("orders:%d", len(perms))
		c.ClassIf(tieExtreme, "extremeTiedAcrossShards").ClassIf(overlapRows, "rowSpansShards").NT(nt)
		c.Sample(map[string]interface{}{"data": d.describe(), "queries": calls, "shards": shards, "orders": len(perms)})
	})
}
