package server_test

// Witness of DL1 (found by the thorough tier of C08, repaired in /repo): Clear on a time field whose standard view
// does not exist yet - only a time view was written, by a roaring import into that view - returned at once and left
// the bit in the time view.

import (
	"bytes"
	"context"
	"testing"

	"github.com/pilosa/pilosa"
	"github.com/pilosa/pilosa/roaring"
)

func TestVerifWitness_DL1(t *testing.T) {
	srv := vgtStartServer()
	defer srv.Close()
	index, drop := srv.newIndex(t, pilosa.IndexOptions{})
	defer drop()
	srv.createField(t, index, "f", pilosa.OptFieldTypeTime("YM"))
	bm := roaring.NewBitmap(1*pilosa.ShardWidth+0, 1*pilosa.ShardWidth+65536)
	var buf bytes.Buffer
	if _, err := bm.WriteTo(&buf); err != nil {
		t.Fatal(err)
	}
	req := &pilosa.ImportRoaringRequest{Views: map[string][]byte{"201901": buf.Bytes()}}
	if err := srv.cmd.API.ImportRoaring(context.Background(), index, "f", 0, false, req); err != nil {
		t.Fatalf("ImportRoaring into view 201901: %v", err)
	}
	srv.mustQuery(t, index, "Clear(0, f=1)")
	res := srv.mustQuery(t, index, "Row(f=1, from=2019-01-01T00:00, to=2019-02-01T00:00)")
	if got := vgtRowCols(t, res[0], "Row"); !vgtEqU64(got, []uint64{65536}) {
		t.Fatalf("roaring import of (1,0),(1,65536) into view 201901, then Clear(0, f=1): Row(f=1, from=2019-01-01, to=2019-02-01) = %v, want [65536]", got)
	}
}
