package server_test

// Deterministic witnesses of the defects found by C15 / C16 (group gQ2).

import (
	"fmt"
	"testing"

	"github.com/pilosa/pilosa"
)

// vq2WitnessIndex creates an index with set fields f, g (and whatever else the caller adds to m before).
func vq2WitnessIndex(t *testing.T, env *vq2Env, m *vq2Model, load string) string {
	idx := env.create(t, "wit", m)
	if load != "" {
		if _, err := env.query(idx, load); err != nil {
			t.Fatalf("loading %s: %v", load, err)
		}
	}
	return idx
}

func vq2WitnessCols(t *testing.T, env *vq2Env, idx, q string) []uint64 {
	res := env.mustQuery1(t, idx, q)
	row, ok := res.(*pilosa.Row)
	if !ok {
		t.Fatalf("%s: result type %T", q, res)
	}
	return row.Columns()
}

// D18: Shift is evaluated per shard and a bit shifted past the end of its shard stays in the lower shard's segment.
// Alone (`Shift(Row(f=1), n=1)`) the merged result shows the column, but every consumer that works per shard
// loses it or misplaces it.
func TestVerifWitness_D18(t *testing.T) {
	env := vq2Start()
	defer env.Close()
	m := &vq2Model{}
	m.addField(&vq2Field{Name: "f", Kind: "set"})
	m.addField(&vq2Field{Name: "g", Kind: "set"})
	sw := vq2SW
	idx := vq2WitnessIndex(t, env, m, fmt.Sprintf("Set(%d, f=1) Set(%d, f=2) Set(5, f=1)", sw-1, sw))
	defer env.drop(idx)
	if got, want := vq2WitnessCols(t, env, idx, "Shift(Row(f=1), n=1)"), []uint64{6, sw}; !vq2EqU64(got, want) {
		t.Fatalf("Shift(Row(f=1), n=1) = %v, want %v", got, want)
	}
	if got, want := vq2WitnessCols(t, env, idx, "Intersect(Shift(Row(f=1), n=1), Row(f=2))"), []uint64{sw}; !vq2EqU64(got, want) {
		t.Errorf("Intersect(Shift(Row(f=1), n=1), Row(f=2)) = %v, want %v (row 1 = {5, ShardWidth-1}, row 2 = {ShardWidth})", got, want)
	}
	if got, want := vq2WitnessCols(t, env, idx, "Union(Shift(Row(f=1), n=1), Row(f=2))"), []uint64{6, sw}; !vq2EqU64(got, want) {
		t.Errorf("Union(Shift(Row(f=1), n=1), Row(f=2)) = %v, want %v", got, want)
	}
	env.mustQuery1(t, idx, "Store(Shift(Row(f=1), n=1), g=9)")
	if got, want := vq2WitnessCols(t, env, idx, "Row(g=9)"), []uint64{6, sw}; !vq2EqU64(got, want) {
		t.Errorf("after Store(Shift(Row(f=1), n=1), g=9): Row(g=9) = %v, want %v", got, want)
	}
}

// DQB1: Store(src, f=r) where src has no segment for a shard (source field has no fragment there) removed the
// destination row's containers but returned before invalidating the row cache: the old row stayed readable.
func TestVerifWitness_DQB1(t *testing.T) {
	env := vq2Start()
	defer env.Close()
	m := &vq2Model{}
	m.addField(&vq2Field{Name: "f", Kind: "set"})
	m.addField(&vq2Field{Name: "g", Kind: "set"})
	idx := vq2WitnessIndex(t, env, m, "Set(1, f=1)")
	defer env.drop(idx)
	if got, want := vq2WitnessCols(t, env, idx, "Row(f=1)"), []uint64{1}; !vq2EqU64(got, want) {
		t.Fatalf("Row(f=1) = %v, want %v", got, want)
	}
	env.mustQuery1(t, idx, "Store(Row(g=7), f=1)") // g holds nothing: the source row is empty
	if got := vq2WitnessCols(t, env, idx, "Row(f=1)"); len(got) != 0 {
		t.Fatalf("after Store(Row(g=7), f=1) with empty g: Row(f=1) = %v, want [] (Store replaces the row)", got)
	}
	if got := env.mustQuery1(t, idx, "Count(Row(f=1))"); got != uint64(0) {
		t.Fatalf("after Store of an empty row: Count(Row(f=1)) = %v, want 0", got)
	}
}
