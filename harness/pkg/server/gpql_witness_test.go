package server_test

// Deterministic witnesses of the defects found by C15 / C16 (group gQ2).

import (
	"fmt"
	"testing"

	"github.com/pilosa/pilosa"
)

// vq2WitnessIndex creates an index with set fields f, g (and whatever else the caller adds to m before).
func vq2WitnessIndex(t *testing.T, env *vq2Env, m *vq2Model, load string) string {
	idx := env.create(t, "wit", m)
	if load != "" {
		if _, err := env.query(idx, load); err != nil {
			t.Fatalf("loading %s: %v", load, err)
		}
	}
	return idx
}

func vq2WitnessCols(t *testing.T, env *vq2Env, idx, q string) []uint64 {
	res := env.mustQuery1(t, idx, q)
	row, ok := res.(*pilosa.Row)
	if !ok {
		t.Fatalf("%s: result type %T", q, res)
	}
	return row.Columns()
}

// D18: Shift is evaluated per shard and a bit shifted past the end of its shard stays in the lower shard's segment.
// Alone (`Shift(Row(f=1), n=1)`) the merged result shows the column, but every consumer that works per shard
// loses it or misplaces it.
func TestVerifWitness_D18(t *testing.T) {
	env := vq2Start()
	defer env.Close()
	m := &vq2Model{}
	m.addField(&vq2Field{Name: "f", Kind: "set"})
	m.addField(&vq2Field{Name: "g", Kind: "set"})
	sw := vq2SW
	idx := vq2WitnessIndex(t, env, m, fmt.Sprintf("Set(%d, f=1) Set(%d, f=2) Set(5, f=1)", sw-1, sw))
	defer env.drop(idx)
	if got, want := vq2WitnessCols(t, env, idx, "Shift(Row(f=1), n=1)"), []uint64{6, sw}; !vq2EqU64(got, want) {
		t.Fatalf("Shift(Row(f=1), n=1) = %v, want %v", got, want)
	}
	if got, want := vq2WitnessCols(t, env, idx, "Intersect(Shift(Row(f=1), n=1), Row(f=2))"), []uint64{sw}; !vq2EqU64(got, want) {
		t.Errorf("Intersect(Shift(Row(f=1), n=1), Row(f=2)) = %v, want %v (row 1 = {5, ShardWidth-1}, row 2 = {ShardWidth})", got, want)
	}
	if got, want := vq2WitnessCols(t, env, idx, "Union(Shift(Row(f=1), n=1), Row(f=2))"), []uint64{6, sw}; !vq2EqU64(got, want) {
		t.Errorf("Union(Shift(Row(f=1), n=1), Row(f=2)) = %v, want %v", got, want)
	}
	env.mustQuery1(t, idx, "Store(Shift(Row(f=1), n=1), g=9)")
	if got, want := vq2WitnessCols(t, env, idx, "Row(g=9)"), []uint64{6, sw}; !vq2EqU64(got, want) {
		t.Errorf("after Store(Shift(Row(f=1), n=1), g=9): Row(g=9) = %v, want %v", got, want)
	}
}

// Regression example for finding DF4 of group gF (= DS3 of gS; found independently by C15): Store(src, f=r) where src has no segment for a shard (source field has no fragment there) removed the
// destination row's containers but returned before invalidating the row cache: the old row stayed readable.
func TestVerifC15_RegressionDF4(t *testing.T) {
	env := vq2Start()
	defer env.Close()
	m := &vq2Model{}
	m.addField(&vq2Field{Name: "f", Kind: "set"})
	m.addField(&vq2Field{Name: "g", Kind: "set"})
	idx := vq2WitnessIndex(t, env, m, "Set(1, f=1)")
	defer env.drop(idx)
	if got, want := vq2WitnessCols(t, env, idx, "Row(f=1)"), []uint64{1}; !vq2EqU64(got, want) {
		t.Fatalf("Row(f=1) = %v, want %v", got, want)
	}
	env.mustQuery1(t, idx, "Store(Row(g=7), f=1)") // g holds nothing: the source row is empty
	if got := vq2WitnessCols(t, env, idx, "Row(f=1)"); len(got) != 0 {
		t.Fatalf("after Store(Row(g=7), f=1) with empty g: Row(f=1) = %v, want [] (Store replaces the row)", got)
	}
	if got := env.mustQuery1(t, idx, "Count(Row(f=1))"); got != uint64(0) {
		t.Fatalf("after Store of an empty row: Count(Row(f=1)) = %v, want 0", got)
	}
}

// DQB6: the shard list of a request was computed once, before its first call ran: a Set creating a new shard was
// invisible to the calls after it in the same request.
func TestVerifWitness_DQB6(t *testing.T) {
	env := vq2Start()
	defer env.Close()
	m := &vq2Model{}
	m.addField(&vq2Field{Name: "f", Kind: "set"})
	m.addField(&vq2Field{Name: "g", Kind: "set"})
	idx := vq2WitnessIndex(t, env, m, "")
	defer env.drop(idx)
	col := vq2SW + 1
	q := fmt.Sprintf("Set(%d, f=1) Row(f=1) Count(Row(f=1))", col)
	rs, err := env.query(idx, q)
	if err != nil || len(rs) != 3 {
		t.Fatalf("%s: %v %v", q, rs, err)
	}
	if msg := vq2CheckRow(rs[1], vq2Set{col: true}); msg != "" {
		t.Errorf("%s on an empty index: second result: %s", q, msg)
	}
	if rs[2] != uint64(1) {
		t.Errorf("%s on an empty index: third result %v, want 1", q, rs[2])
	}
	q = fmt.Sprintf("Set(%d, f=5) Store(Row(g=9), f=5)", 3*vq2SW+2)
	if _, err := env.query(idx, q); err != nil {
		t.Fatalf("%s: %v", q, err)
	}
	if got := vq2WitnessCols(t, env, idx, "Row(f=5)"); len(got) != 0 {
		t.Errorf("after one request %s (g is empty): Row(f=5) = %v, want []", q, got)
	}
}

// Regression example for finding DT1 of group gT (same root cause found independently by C15): Field.ClearBit skipped time views (skipAbove walk) and left the bit readable through time ranges.
func TestVerifC15_RegressionDT1(t *testing.T) {
	env := vq2Start()
	defer env.Close()
	m := &vq2Model{}
	m.addField(&vq2Field{Name: "t", Kind: "time", Quantum: "YMD"})
	idx := vq2WitnessIndex(t, env, m, "Set(0, t=2, 2016-12-31T23:00) Set(1, t=2, 2017-01-01T00:00)")
	defer env.drop(idx)
	if got := env.mustQuery1(t, idx, "Clear(1, t=2)"); got != true {
		t.Errorf("Clear(1, t=2) = %v, want true (the bit was set)", got)
	}
	q := "Row(t=2, from='2016-01-01T00:00', to='2020-01-01T00:00')"
	if got, want := vq2WitnessCols(t, env, idx, q), []uint64{0}; !vq2EqU64(got, want) {
		t.Fatalf("after Set(0,t=2,2016-12-31) Set(1,t=2,2017-01-01) Clear(1,t=2): %s = %v, want %v", q, got, want)
	}
}
