package server_test

// gq1 — helpers shared by the API-level checks of C14 and C17: servers/clusters with one
// executor worker (so the local reduce order is the order of QueryRequest.Shards), a naive
// model of an integer field and the small-depth configuration space (same as the in-package half).

import (
	"context"
	"fmt"
	"math/big"
	"os"
	"path/filepath"
	"sort"
	"strconv"
	"strings"
	"syscall"
	"testing"
	"time"

	"github.com/pilosa/pilosa"
	"github.com/pilosa/pilosa/internal/vkit"
	"github.com/pilosa/pilosa/test"
)

func init() {
	// keep the data directories of the test servers inside the run directory of the driver
	if d := os.Getenv("VERIF_RUNDIR"); d != "" {
		p := filepath.Join(d, "tmp")
		if err := os.MkdirAll(p, 0o755); err == nil {
			os.Setenv("TMPDIR", p)
		}
	}
}

const vs1SW = pilosa.ShardWidth

type vs1T interface {
	Fatalf(format string, args ...interface{})
}

// vs1RunSingle starts a single static node with the given executor pool size.
func vs1RunSingle(t vs1T, workers int) *test.Command {
	m := test.NewCommandNode(true)
	m.Config.Cluster.Disabled = true
	m.Config.Metric.Diagnostics = false
	m.Config.WorkerPoolSize = workers
	if err := m.Start(); err != nil {
		t.Fatalf("starting server: %v", err)
	}
	return m
}

// vs1RunCluster starts an n-node gossip cluster with the given replica count and one executor worker per node.
// ok=false (with a reason) when the cluster did not reach NORMAL: start-up trouble is inconclusive, not a violation.
func vs1RunCluster(t testing.TB, n, replicas int) (c test.Cluster, ok bool, why string) {
	c = test.MustNewCluster(t, n)
	for _, m := range c {
		m.Config.Cluster.ReplicaN = replicas
		m.Config.Metric.Diagnostics = false
		m.Config.WorkerPoolSize = 1
	}
	if err := c.Start(); err != nil {
		return c, false, "start: " + err.Error()
	}
	deadline := time.Now().Add(30 * time.Second)
	for {
		all := true
		for _, m := range c {
			if m.API.State() != pilosa.ClusterStateNormal || len(m.API.Hosts(context.Background())) != n {
				all = false
			}
		}
		if all {
			return c, true, ""
		}
		if time.Now().After(deadline) {
			return c, false, "cluster did not reach NORMAL within 30s"
		}
		time.Sleep(5 * time.Millisecond)
	}
}

// vs1Inconclusive ends the process in the only way the driver maps to "inconclusive" (exit 2): killed by a signal.
func vs1Inconclusive(format string, args ...interface{}) {
	fmt.Printf("INCONCLUSIVE: "+format+"\n", args...)
	vkit.Flush()
	syscall.Kill(os.Getpid(), syscall.SIGKILL)
	select {}
}

// vs1SetupErr handles an error of schema set-up (create/delete index or field). Set-up is not what the checks are
// about; the stores open their files with a one-second lock timeout, which an overloaded machine exceeds. Such a
// timeout makes the run inconclusive; any other error fails the test.
func vs1SetupErr(t vs1T, err error, format string, args ...interface{}) {
	if err == nil {
		return
	}
	msg := fmt.Sprintf(format, args...) + ": " + err.Error()
	if strings.Contains(err.Error(), "timeout") {
		vs1Inconclusive("%s", msg)
	}
	t.Fatalf("%s", msg)
}

// vs1Query runs one request (several calls) and returns the results.
func vs1Query(t vs1T, m *test.Command, index, q string, shards []uint64) []interface{} {
	resp, err := m.API.Query(context.Background(), &pilosa.QueryRequest{Index: index, Query: q, Shards: shards})
	if err != nil {
		t.Fatalf("query %q (shards %v): %v", vs1Short(q), shards, err)
	}
	return resp.Results
}

func vs1Short(q string) string {
	if len(q) > 300 {
		return q[:300] + "…"
	}
	return q
}

// vs1Batch runs the calls in requests of at most `per` calls.
func vs1Batch(t vs1T, m *test.Command, index string, calls []string, shards []uint64, per int) []interface{} {
	var out []interface{}
	for i := 0; i < len(calls); i += per {
		j := i + per
		if j > len(calls) {
			j = len(calls)
		}
		res := vs1Query(t, m, index, strings.Join(calls[i:j], "\n"), shards)
		if len(res) != j-i {
			t.Fatalf("request with %d calls returned %d results", j-i, len(res))
		}
		out = append(out, res...)
	}
	return out
}

func vs1Cols(t vs1T, v interface{}, what string) []uint64 {
	r, ok := v.(*pilosa.Row)
	if !ok {
		t.Fatalf("%s: result is %T, want *pilosa.Row", what, v)
	}
	return r.Columns()
}

func vs1VC(t vs1T, v interface{}, what string) pilosa.ValCount {
	r, ok := v.(pilosa.ValCount)
	if !ok {
		t.Fatalf("%s: result is %T, want ValCount", what, v)
	}
	return r
}

// ---------------------------------------------------------------- model (duplicate of the in-package one)

type vs1IntModel struct {
	Min, Max int64
	Vals     map[uint64]int64
}

func vs1NewIntModel(min, max int64) *vs1IntModel {
	return &vs1IntModel{Min: min, Max: max, Vals: map[uint64]int64{}}
}

func (m *vs1IntModel) cols() []uint64 {
	a := make([]uint64, 0, len(m.Vals))
	for c := range m.Vals {
		a = append(a, c)
	}
	sort.Slice(a, func(i, j int) bool { return a[i] < a[j] })
	return a
}

var vs1Ops = []string{"==", "!=", "<", "<=", ">", ">="}

func vs1Sat(op string, v, p int64) bool {
	switch op {
	case "==":
		return v == p
	case "!=":
		return v != p
	case "<":
		return v < p
	case "<=":
		return v <= p
	case ">":
		return v > p
	case ">=":
		return v >= p
	}
	panic("vs1Sat: op " + op)
}

func (m *vs1IntModel) filter(op string, p int64) []uint64 {
	a := []uint64{}
	for _, c := range m.cols() {
		if vs1Sat(op, m.Vals[c], p) {
			a = append(a, c)
		}
	}
	return a
}

func (m *vs1IntModel) between(lo, hi int64) []uint64 {
	a := []uint64{}
	for _, c := range m.cols() {
		if v := m.Vals[c]; v >= lo && v <= hi {
			a = append(a, c)
		}
	}
	return a
}

type vs1Agg struct {
	N          int64
	Sum        *big.Int
	Min, Max   int64
	NMin, NMax int64
}

func (m *vs1IntModel) agg(within map[uint64]bool) vs1Agg {
	a := vs1Agg{Sum: new(big.Int)}
	for _, c := range m.cols() {
		if within != nil && !within[c] {
			continue
		}
		v := m.Vals[c]
		a.Sum.Add(a.Sum, big.NewInt(v))
		if a.N == 0 || v < a.Min {
			a.Min, a.NMin = v, 0
		}
		if a.N == 0 || v > a.Max {
			a.Max, a.NMax = v, 0
		}
		if v == a.Min {
			a.NMin++
		}
		if v == a.Max {
			a.NMax++
		}
		a.N++
	}
	return a
}

// wantSum/wantMin/wantMax: what PQL Sum/Min/Max must return (the zero ValCount when nothing is selected).
func (a vs1Agg) wantSum() (pilosa.ValCount, bool) {
	if a.N == 0 {
		return pilosa.ValCount{}, true
	}
	if !a.Sum.IsInt64() {
		return pilosa.ValCount{}, false // not representable: no claim
	}
	return pilosa.ValCount{Val: a.Sum.Int64(), Count: a.N}, true
}

func (a vs1Agg) wantMin() pilosa.ValCount {
	if a.N == 0 {
		return pilosa.ValCount{}
	}
	return pilosa.ValCount{Val: a.Min, Count: a.NMin}
}

func (a vs1Agg) wantMax() pilosa.ValCount {
	if a.N == 0 {
		return pilosa.ValCount{}
	}
	return pilosa.ValCount{Val: a.Max, Count: a.NMax}
}

func vs1ColSet(cols []uint64) map[uint64]bool {
	s := make(map[uint64]bool, len(cols))
	for _, c := range cols {
		s[c] = true
	}
	return s
}

func vs1EqCols(a, b []uint64) bool {
	if len(a) != len(b) {
		return false
	}
	for i := range a {
		if a[i] != b[i] {
			return false
		}
	}
	return true
}

func vs1Depth(v int64) uint {
	u := uint64(v)
	if v < 0 {
		u = uint64(-v)
	}
	d := uint(0)
	for u != 0 {
		d++
		u >>= 1
	}
	return d
}

func vs1Dump(m *vs1IntModel) string {
	s := ""
	for i, c := range m.cols() {
		if i > 40 {
			s += " …"
			break
		}
		s += fmt.Sprintf(" %d:%d", c, m.Vals[c])
	}
	return s
}

// ---------------------------------------------------------------- small-depth configurations

type vs1Cfg struct {
	Min, Max int64
	Depth    uint
	Mode     string // set | import | mix
	Reopen   bool   // the server is restarted between field creation and the first write (base = min)
}

func (c vs1Cfg) String() string {
	return fmt.Sprintf("bounds(%d,%d) depth=%d mode=%s restartBeforeWrites=%v", c.Min, c.Max, c.Depth, c.Mode, c.Reopen)
}

func (c vs1Cfg) values() (vals []int64, ok bool) {
	if c.Reopen {
		for v := c.Min; v <= c.Max; v++ {
			vals = append(vals, v)
		}
		return vals, true
	}
	lim := int64(1)<<c.Depth - 1
	for v := c.Min; v <= c.Max; v++ {
		if v < -lim || v > lim {
			continue
		}
		vals = append(vals, v)
		if vs1Depth(v) == c.Depth {
			ok = true
		}
	}
	return vals, ok
}

var vs1ExtraBounds = [][2]int64{{5, 100}, {-100, -5}, {0, 0}, {-1, 0}, {0, 1}, {-100, 100}, {-20, 120}}

func vs1AllBounds() [][2]int64 {
	var bounds [][2]int64
	for lo := int64(-9); lo <= 9; lo++ {
		for hi := lo; hi <= 9; hi++ {
			bounds = append(bounds, [2]int64{lo, hi})
		}
	}
	return append(bounds, vs1ExtraBounds...)
}

// vs1AllCfgs enumerates the complete small-depth space (deterministic order), without the restart configurations.
func vs1AllCfgs() []vs1Cfg {
	var out []vs1Cfg
	for _, b := range vs1AllBounds() {
		for d := uint(0); d <= 7; d++ {
			for _, mode := range []string{"set", "import", "mix"} {
				c := vs1Cfg{Min: b[0], Max: b[1], Depth: d, Mode: mode}
				if _, ok := c.values(); ok {
					out = append(out, c)
				}
			}
		}
	}
	return out
}

// vs1ReopenCfgs: fields that go through a server restart before their first write.
func vs1ReopenCfgs() []vs1Cfg {
	var out []vs1Cfg
	for i, b := range vs1AllBounds() {
		mode := "set"
		if i%2 == 1 {
			mode = "mix"
		}
		out = append(out, vs1Cfg{Min: b[0], Max: b[1], Depth: 99, Mode: mode, Reopen: true})
	}
	return out
}

// vs1Pick: thorough = everything of this shard; quick = seeded stride sample of n.
func vs1Pick(all []vs1Cfg, quickPerShard int, thorough bool) (mine []vs1Cfg, complete bool) {
	shard, _ := strconv.Atoi(os.Getenv("VERIF_SHARD"))
	nshards, _ := strconv.Atoi(os.Getenv("VERIF_NSHARDS"))
	if nshards <= 0 {
		nshards = 1
	}
	for i, c := range all {
		if i%nshards == shard {
			mine = append(mine, c)
		}
	}
	if thorough || len(mine) <= quickPerShard {
		return mine, true
	}
	seed, _ := strconv.ParseUint(os.Getenv("VERIF_SEED_EFF"), 10, 64)
	step := len(mine) / quickPerShard
	off := int(seed % uint64(step))
	var pick []vs1Cfg
	for i := off; i < len(mine) && len(pick) < quickPerShard; i += step {
		pick = append(pick, mine[i])
	}
	return pick, false
}

type vs1Write struct {
	Kind string // set | import | clear
	Cols []uint64
	Vals []int64
}

// vs1Program: the write program of a configuration and the model it must lead to (see the in-package twin).
func vs1Program(c vs1Cfg) (prog []vs1Write, m *vs1IntModel, nulls []uint64) {
	vals, _ := c.values()
	m = vs1NewIntModel(c.Min, c.Max)
	col := func(i int) uint64 { return uint64(i%3)*vs1SW + 10 + uint64(i/3) }
	type cv struct {
		c uint64
		v int64
	}
	var final []cv
	for i, v := range vals {
		final = append(final, cv{col(i), v})
	}
	n := len(vals)
	lo, hi := vals[0], vals[n-1]
	base := 3 * ((n + 2) / 3)
	final = append(final, cv{col(base + 1), lo}, cv{col(base + 2), lo}, cv{col(base + 3), lo})
	final = append(final, cv{col(base + 6), hi}, cv{col(base + 7), hi}, cv{col(base + 8), hi}, cv{col(base + 11), hi})
	for _, x := range final {
		m.Vals[x.c] = x.v
	}
	imp := func(kind string, xs []cv) {
		g := map[uint64][]cv{}
		for _, x := range xs {
			g[x.c/vs1SW] = append(g[x.c/vs1SW], x)
		}
		for sh := uint64(0); sh < 3; sh++ {
			if len(g[sh]) == 0 {
				continue
			}
			w := vs1Write{Kind: kind}
			for _, x := range g[sh] {
				w.Cols = append(w.Cols, x.c)
				w.Vals = append(w.Vals, x.v)
			}
			prog = append(prog, w)
		}
	}
	switch c.Mode {
	case "set":
		for _, x := range final {
			prog = append(prog, vs1Write{Kind: "set", Cols: []uint64{x.c}, Vals: []int64{x.v}})
		}
	case "import":
		imp("import", final)
	case "mix":
		big, small := vals[0], vals[0]
		for _, v := range vals {
			if vs1Depth(v) > vs1Depth(big) || (vs1Depth(v) == vs1Depth(big) && v < big) {
				big = v
			}
			if vs1Depth(v) < vs1Depth(small) {
				small = v
			}
		}
		var first []cv
		for i, x := range final {
			if i%2 == 0 {
				first = append(first, cv{x.c, big})
			} else {
				first = append(first, cv{x.c, small})
			}
		}
		gone := []cv{{col(base + 12), hi}, {col(base + 13), lo}, {col(base + 14), big}}
		first = append(first, gone...)
		var rest, clr []cv
		for i, x := range first {
			if i%3 == 0 {
				prog = append(prog, vs1Write{Kind: "set", Cols: []uint64{x.c}, Vals: []int64{x.v}})
			} else {
				rest = append(rest, x)
			}
			if i%3 == 1 {
				clr = append(clr, x)
			}
		}
		imp("import", rest)
		imp("clear", clr)
		var fimp []cv
		for i, x := range final {
			if i%4 == 0 || i%4 == 3 {
				prog = append(prog, vs1Write{Kind: "set", Cols: []uint64{x.c}, Vals: []int64{x.v}})
			} else {
				fimp = append(fimp, x)
			}
		}
		imp("import", fimp)
		imp("clear", gone)
		for _, x := range gone {
			nulls = append(nulls, x.c)
		}
	default:
		panic("mode")
	}
	nulls = append(nulls, 5, 2*vs1SW+5)
	return prog, m, nulls
}

func vs1EffDepth(c vs1Cfg) uint {
	if c.Reopen {
		return vs1Depth(c.Max - c.Min)
	}
	return c.Depth
}

func vs1Predicates(c vs1Cfg, m *vs1IntModel) []int64 {
	span := int64(3)<<vs1EffDepth(c) + 2
	lo, hi := int64(0), int64(0)
	first := true
	for _, v := range m.Vals {
		if first || v < lo {
			lo = v
		}
		if first || v > hi {
			hi = v
		}
		first = false
	}
	seen := map[int64]bool{}
	var ps []int64
	add := func(p int64) {
		if !seen[p] {
			seen[p] = true
			ps = append(ps, p)
		}
	}
	for p := lo - span; p <= hi+span; p++ {
		add(p)
	}
	for _, b := range []int64{c.Min, c.Max, 0} {
		for k := int64(-2); k <= 2; k++ {
			add(b + k)
		}
	}
	sort.Slice(ps, func(i, j int) bool { return ps[i] < ps[j] })
	return ps
}

func vs1Grid(c vs1Cfg, m *vs1IntModel) []int64 {
	lim := int64(1)<<vs1EffDepth(c) - 1
	seen := map[int64]bool{}
	var ps []int64
	add := func(p int64) {
		if !seen[p] {
			seen[p] = true
			ps = append(ps, p)
		}
	}
	for _, b := range []int64{c.Min, c.Max, 0, -lim, lim} {
		for k := int64(-1); k <= 1; k++ {
			add(b + k)
		}
	}
	for _, b := range []int64{c.Min - 2*lim - 3, c.Max + 2*lim + 3, (c.Min + c.Max) / 2, lim / 2, -lim / 2} {
		add(b)
	}
	sort.Slice(ps, func(i, j int) bool { return ps[i] < ps[j] })
	return ps
}

// vs1Apply performs one write through the public API (PQL Set / API.ImportValue with or without clear).
func vs1Apply(t vs1T, m *test.Command, index, field string, w vs1Write, what string) {
	ctx := context.Background()
	switch w.Kind {
	case "set":
		var calls []string
		for i := range w.Cols {
			calls = append(calls, fmt.Sprintf("Set(%d, %s=%d)", w.Cols[i], field, w.Vals[i]))
		}
		vs1Batch(t, m, index, calls, nil, 50)
	case "import", "clear":
		bySh := map[uint64]*pilosa.ImportValueRequest{}
		var order []uint64
		for i := range w.Cols {
			sh := w.Cols[i] / vs1SW
			if bySh[sh] == nil {
				bySh[sh] = &pilosa.ImportValueRequest{Index: index, Field: field, Shard: sh}
				order = append(order, sh)
			}
			bySh[sh].ColumnIDs = append(bySh[sh].ColumnIDs, w.Cols[i])
			bySh[sh].Values = append(bySh[sh].Values, w.Vals[i])
		}
		for _, sh := range order {
			var opts []pilosa.ImportOption
			if w.Kind == "clear" {
				opts = append(opts, pilosa.OptImportOptionsClear(true))
			}
			if err := m.API.ImportValue(ctx, bySh[sh], opts...); err != nil {
				t.Fatalf("%s: ImportValue(%s shard %d cols %v vals %v): %v", what, w.Kind, sh, bySh[sh].ColumnIDs, bySh[sh].Values, err)
			}
		}
	default:
		panic("kind")
	}
}
