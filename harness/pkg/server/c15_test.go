package server_test

// C15 — Bitmap queries return the set-algebra result over stored data.
// Oracle: model interpreter (gpql_model_test.go) grounded in docs/query-language.md.

import (
	"fmt"
	"strings"
	"testing"
	"time"

	"github.com/pilosa/pilosa/internal/vkit"
	"pgregory.net/rapid"
)

// vq2RunExpr executes e (optionally wrapped in Count) and compares with the model. It returns the model evaluation
// and whether the comparison was skipped because of open finding D18.
func vq2RunExpr(t vq2T, env *vq2Env, idx string, m *vq2Model, e *vq2Expr, asCount bool, ctxDesc func() string) (*vq2Eval, bool) {
	ev := m.eval(e, false)
	q := e.pql(m)
	if asCount {
		q = "Count(" + q + ")"
	}
	rs, err := env.query(idx, q)
	if vq2IsHang(err) {
		t.Fatalf("%v\n%s", err, ctxDesc())
	}
	if ev.mustErr {
		if err == nil {
			t.Fatalf("%s returned a result (%v) but Not() requires existence tracking, which is off for this index\n%s", q, rs, ctxDesc())
		}
		return ev, false
	}
	if err != nil {
		if ev.mayErr {
			return ev, false
		}
		t.Fatalf("%s: unexpected error: %v\n%s", q, err, ctxDesc())
	}
	if ev.d18 && vkit.Open("D18") {
		vkit.Excluded("D18")
		return ev, true
	}
	if len(rs) != 1 {
		t.Fatalf("%s: %d results, want 1", q, len(rs))
	}
	if asCount {
		got, ok := rs[0].(uint64)
		if !ok {
			t.Fatalf("%s: result type %T, want uint64", q, rs[0])
		}
		if got != uint64(len(ev.set)) {
			t.Fatalf("%s = %d, want %d (model columns %s)\n%s", q, got, len(ev.set), vq2Cols(ev.set.sorted()), ctxDesc())
		}
		return ev, false
	}
	if msg := vq2CheckRow(rs[0], ev.set); msg != "" {
		t.Fatalf("%s: %s\n%s", q, msg, ctxDesc())
	}
	return ev, false
}

func vq2DrawDataOpt(t *rapid.T, setFields, maxBits int) vq2DataOpt {
	return vq2DataOpt{
		SetFields: setFields,
		Time:      rapid.IntRange(0, 9).Draw(t, "time?") < 7,
		TimeNoStd: true,
		Int:       rapid.IntRange(0, 9).Draw(t, "int?") < 6,
		Mutex:     rapid.IntRange(0, 9).Draw(t, "mutex?") < 4,
		Bool:      rapid.IntRange(0, 9).Draw(t, "bool?") < 3,
		MaxBits:   maxBits, RowsLo: 2, RowsHi: 3,
	}
}

// vq2ExprClasses records what a query exercised.
func vq2ExprClasses(c *vkit.Case, e *vq2Expr, ev *vq2Eval, skipped bool) (nontrivial bool) {
	ops := map[string]bool{}
	e.ops(ops)
	for op := range map[string]bool{"union": true, "intersect": true, "difference": true, "xor": true, "not": true, "shift": true, "rowt": true, "rowi": true} {
		if ops[op] {
			c.Class("op:" + op)
		}
	}
	var walk func(x *vq2Expr)
	walk = func(x *vq2Expr) {
		if x.Op == "rowi" {
			c.Class("int:" + x.Cond)
			c.ClassIf(x.Cond != "notnull" && (x.V1 == 0 || (x.Cond == "between" && x.V2 == 0)), "int:predicate0")
			c.ClassIf(x.Cond != "notnull" && x.V1 < 0, "int:negativePredicate")
		}
		for _, k := range x.Kids {
			walk(k)
		}
	}
	walk(e)
	d := e.depth()
	c.Class("depth:%d", d)
	multi := len(ev.leafSh) >= 2
	c.ClassIf(multi, "operandsIn>=2shards")
	c.ClassIf(ev.carry, "shiftCarriesOverShardEdge")
	c.ClassIf(ev.edge, "shiftCrossesContainerEdge")
	c.ClassIf(ev.notGap, "notWhereAShardHasNoOperandBits")
	c.ClassIf(ev.mustErr, "notWithoutTracking(error expected)")
	c.ClassIf(ev.mayErr, "missingField")
	c.ClassIf(skipped, "skipped:D18")
	c.ClassIf(len(ev.set) == 0, "emptyResult")
	c.ClassIf(len(ev.set) > 0 && d >= 2, "nonEmptyResultDepth>=2")
	return !skipped && !ev.mustErr && ((d >= 2 && multi) || ev.edge || ev.carry || ev.notGap)
}

func vq2SchemaClasses(c *vkit.Case, m *vq2Model) {
	for _, f := range m.Fields {
		if f.Kind == "time" {
			c.Class("quantum:" + f.Quantum)
			c.ClassIf(f.NoStd, "noStandardView")
		}
		if f.Kind == "int" {
			c.Class("intRange:%d..%d", f.Min, f.Max)
		}
	}
}

// TestVerifC15_Expr: generated expression trees over a generated dataset.
func TestVerifC15_Expr(t *testing.T) {
	defer vkit.Flush()
	env := vq2Start()
	defer env.Close()
	rapid.Check(t, func(t *rapid.T) {
		m, cols, ops := vq2GenData(t, vq2DrawDataOpt(t, 2, 14))
		idx := env.create(t, "c15e", m)
		defer env.drop(idx)
		loadText := vq2OpsText(m, ops)
		env.load(t, idx, m, ops)
		g := &vq2ExprGen{m: m, cols: cols, maxDepth: rapid.IntRange(2, 4).Draw(t, "maxDepth")}
		c := vkit.NewCase()
		defer c.Done()
		nq := rapid.IntRange(6, 16).Draw(t, "nq")
		var qs []string
		desc := func() string { return "schema: " + vq2SchemaText(m) + "\ndata: " + loadText }
		for i := 0; i < nq; i++ {
			e := g.gen(t, 0)
			asCount := rapid.IntRange(0, 3).Draw(t, "count?") == 0
			qs = append(qs, e.pql(m))
			ev, skipped := vq2RunExpr(t, env, idx, m, e, asCount, desc)
			c.NT(vq2ExprClasses(c, e, ev, skipped))
			c.ClassIf(asCount, "Count")
		}
		c.Key("expr", vq2SchemaText(m), loadText, qs)
		c.Class("shards:%d", len(vq2Shards(cols)))
		c.ClassIf(m.Track, "trackExistence")
		vq2SchemaClasses(c, m)
		c.Sample(map[string]interface{}{"schema": vq2SchemaText(m), "data": loadText, "queries": qs})
	})
}

// vq2VerifyRow checks one stored row (standard view) against the model.
func vq2VerifyRow(t vq2T, env *vq2Env, idx string, m *vq2Model, f *vq2Field, row uint64, desc func() string) {
	if f.Kind == "int" || f.NoStd {
		return
	}
	q := fmt.Sprintf("Row(%s=%s)", f.Name, vq2RowText(f, row))
	res := env.mustQuery1(t, idx, q)
	if msg := vq2CheckRow(res, f.rowStd(row)); msg != "" {
		t.Fatalf("%s: %s\n%s", q, msg, desc())
	}
}

var (
	vq2FullFrom = time.Date(2016, 1, 1, 0, 0, 0, 0, time.UTC)
	vq2FullTo   = time.Date(2020, 1, 1, 0, 0, 0, 0, time.UTC)
)

// vq2VerifyAll checks the whole stored state against the model.
func vq2VerifyAll(t vq2T, env *vq2Env, idx string, m *vq2Model, extraRows map[string]vq2Set, desc func() string) {
	for _, f := range m.Fields {
		switch f.Kind {
		case "int":
			res := env.mustQuery1(t, idx, fmt.Sprintf("Row(%s != null)", f.Name))
			all := vq2Set{}
			vals := map[int64]vq2Set{}
			for c, v := range f.ints {
				all[c] = true
				if vals[v] == nil {
					vals[v] = vq2Set{}
				}
				vals[v][c] = true
			}
			if msg := vq2CheckRow(res, all); msg != "" {
				t.Fatalf("final state: Row(%s != null): %s\n%s", f.Name, msg, desc())
			}
			for _, c := range all.sorted() { // deterministic order
				v := f.ints[c]
				if vals[v] == nil {
					continue
				}
				q := fmt.Sprintf("Row(%s == %d)", f.Name, v)
				if msg := vq2CheckRow(env.mustQuery1(t, idx, q), vals[v]); msg != "" {
					t.Fatalf("final state: %s: %s\n%s", q, msg, desc())
				}
				delete(vals, v)
			}
		default:
			rows := vq2Set{}
			for _, r := range f.RowPool {
				rows[r] = true
			}
			for _, r := range f.allRows() {
				rows[r] = true
			}
			for r := range extraRows[f.Name] {
				rows[r] = true
			}
			for _, r := range rows.sorted() {
				vq2VerifyRow(t, env, idx, m, f, r, desc)
				if f.Kind == "time" {
					from, to := vq2FullFrom, vq2FullTo
					e := &vq2Expr{Op: "rowt", Field: f.Name, Row: r, From: &from, To: &to}
					q := e.pql(m)
					if msg := vq2CheckRow(env.mustQuery1(t, idx, q), f.rowRange(r, nil, nil)); msg != "" {
						t.Fatalf("final state: %s: %s\n%s", q, msg, desc())
					}
				}
			}
		}
	}
	if m.Track {
		q := "Not(Row(s1=4242))"
		if msg := vq2CheckRow(env.mustQuery1(t, idx, q), m.exist); msg != "" {
			t.Fatalf("final state: existence, %s: %s\n%s", q, msg, desc())
		}
	}
}

// TestVerifC15_Writes: programs of Set / Clear / ClearRow / Store interleaved with reads.
func TestVerifC15_Writes(t *testing.T) {
	defer vkit.Flush()
	env := vq2Start()
	defer env.Close()
	rapid.Check(t, func(t *rapid.T) {
		m, cols, ops := vq2GenData(t, vq2DrawDataOpt(t, 2, 6))
		idx := env.create(t, "c15w", m)
		defer env.drop(idx)
		var hist []string
		hist = append(hist, vq2OpsText(m, ops))
		env.load(t, idx, m, ops)
		desc := func() string { return "schema: " + vq2SchemaText(m) + "\nhistory:\n  " + strings.Join(hist, "\n  ") }
		gRead := &vq2ExprGen{m: m, cols: cols, maxDepth: 3}
		gStore := &vq2ExprGen{m: m, cols: cols, maxDepth: 2, noMiss: true, noNot: !m.Track}
		c := vkit.NewCase()
		defer c.Done()
		touched := map[string]vq2Set{}
		nsteps := rapid.IntRange(3, 14).Draw(t, "nsteps")
		for i := 0; i < nsteps; i++ {
			if rapid.IntRange(0, 9).Draw(t, "read?") < 3 {
				e := gRead.gen(t, 0)
				hist = append(hist, e.pql(m))
				ev, skipped := vq2RunExpr(t, env, idx, m, e, false, desc)
				c.NT(vq2ExprClasses(c, e, ev, skipped))
				continue
			}
			o := vq2GenWrite(t, m, cols, gStore)
			f := m.field(o.Field)
			if o.Kind == "store" {
				ev := m.eval(o.Src, true)
				if ev.d18 && vkit.Open("D18") {
					vkit.Excluded("D18")
					c.Class("skipped:D18(store)")
					continue
				}
				srcSh := vq2Shards(ev.set.sorted())
				c.ClassIf(len(srcSh) >= 2, "storeFromMultiShardSource")
				c.ClassIf(len(ev.set) == 0, "storeEmptySource")
				c.ClassIf(len(f.std[o.Row]) == 0, "storeIntoNewRow")
				dstSh := vq2Shards(f.rowStd(o.Row).sorted())
				shrink := false
				for sh := range dstSh {
					if !srcSh[sh] {
						shrink = true
					}
				}
				c.ClassIf(shrink, "storeRemovesRowFromAShard")
				c.NT(len(srcSh) >= 2 || shrink)
			}
			q := o.pql(m)
			hist = append(hist, q)
			if touched[o.Field] == nil {
				touched[o.Field] = vq2Set{}
			}
			touched[o.Field][o.Row] = true
			c.Class("write:" + o.Kind + ":" + f.Kind)
			c.ClassIf(o.Kind == "clear" && f.NoStd, "write:clear:noStandardView")
			var before vq2Set
			if f.Kind == "mutex" || f.Kind == "bool" {
				before = vq2Set{}
				for r := range f.std {
					before[r] = true
				}
			}
			want, checkable := m.apply(o)
			var res interface{}
			if f.Kind != "int" && !f.NoStd && rapid.IntRange(0, 3).Draw(t, "sameRequest?") == 0 {
				// the write and the read of the written row in one request ("multiple PQL queries in a single request")
				rq := fmt.Sprintf("Row(%s=%s)", f.Name, vq2RowText(f, o.Row))
				rs, err := env.query(idx, q+" "+rq)
				if err != nil || len(rs) != 2 {
					t.Fatalf("%s %s: results %v, error %v\n%s", q, rq, rs, err, desc())
				}
				if msg := vq2CheckRow(rs[1], f.rowStd(o.Row)); msg != "" {
					t.Fatalf("request `%s %s`: second result: %s\n%s", q, rq, msg, desc())
				}
				res = rs[0]
				c.Class("writeAndReadInOneRequest")
			} else {
				res = env.mustQuery1(t, idx, q)
			}
			got, ok := res.(bool)
			if !ok {
				t.Fatalf("%s: result type %T, want bool\n%s", q, res, desc())
			}
			if checkable && got != want {
				t.Fatalf("%s returned %v, want %v (documented: true iff the call changed stored data; Store: always true)\n%s", q, got, want, desc())
			}
			c.ClassIf(checkable && !want, "write:noChange")
			// the written row reads back
			vq2VerifyRow(t, env, idx, m, f, o.Row, desc)
			for _, r := range before.sorted() {
				vq2VerifyRow(t, env, idx, m, f, r, desc)
			}
			c.NT(o.Kind == "clearrow" && want)
		}
		vq2VerifyAll(t, env, idx, m, touched, desc)
		c.Key("writes", vq2SchemaText(m), hist)
		vq2SchemaClasses(c, m)
		c.Class("shards:%d", len(vq2Shards(cols)))
		c.Sample(map[string]interface{}{"schema": vq2SchemaText(m), "history": hist})
	})
}
