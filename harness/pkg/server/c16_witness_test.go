package server_test

// Deterministic witnesses of the defects found by C16 (group gQ2).

import (
	"testing"

	"github.com/pilosa/pilosa"
)

func vq2WitnessRows(t *testing.T, env *vq2Env, idx, q string) []uint64 {
	rs, err := env.query(idx, q)
	if err != nil {
		t.Fatalf("%s: %v", q, err)
	}
	ri, ok := rs[0].(pilosa.RowIdentifiers)
	if !ok {
		t.Fatalf("%s: result type %T", q, rs[0])
	}
	return ri.Rows
}

func vq2WitnessPair(t *testing.T, env *vq2Env, idx, q string) pilosa.Pair {
	rs, err := env.query(idx, q)
	if err != nil {
		t.Fatalf("%s: %v", q, err)
	}
	p, ok := rs[0].(pilosa.Pair)
	if !ok {
		t.Fatalf("%s: result type %T", q, rs[0])
	}
	return p
}

// D19: fragment.maxRow answered from the high-water mark f.maxRowID: a cleared top row was still reported, and rows
// written by Store (setRow) were not seen.
func TestVerifWitness_D19(t *testing.T) {
	env := vq2Start()
	defer env.Close()
	m := &vq2Model{}
	m.addField(&vq2Field{Name: "f", Kind: "set"})
	m.addField(&vq2Field{Name: "g", Kind: "set"})
	idx := vq2WitnessIndex(t, env, m, "Set(1, f=0) Set(2, f=5) Clear(2, f=5) Set(1, g=1) Store(Row(g=1), g=9)")
	defer env.drop(idx)
	if p := vq2WitnessPair(t, env, idx, "MaxRow(field=f)"); p.ID != 0 || p.Count == 0 {
		t.Errorf("after Set(1,f=0) Set(2,f=5) Clear(2,f=5): MaxRow(field=f) = {id:%d count:%d}, want row 0 (row 5 is empty)", p.ID, p.Count)
	}
	if p := vq2WitnessPair(t, env, idx, "MaxRow(field=g)"); p.ID != 9 || p.Count == 0 {
		t.Errorf("after Set(1,g=1) Store(Row(g=1), g=9): MaxRow(field=g) = {id:%d count:%d}, want row 9", p.ID, p.Count)
	}
	if p := vq2WitnessPair(t, env, idx, "MaxRow(Row(g=1), field=g)"); p.ID != 9 || p.Count == 0 {
		t.Errorf("MaxRow(Row(g=1), field=g) = {id:%d count:%d}, want row 9", p.ID, p.Count)
	}
}

// D20: one filterWithLimit closure was shared by all views of a time range.
func TestVerifWitness_D20(t *testing.T) {
	env := vq2Start()
	defer env.Close()
	m := &vq2Model{}
	m.addField(&vq2Field{Name: "t", Kind: "time", Quantum: "M"})
	idx := vq2WitnessIndex(t, env, m, "Set(1, t=101, 2017-01-01T00:00) Set(1, t=2, 2017-02-28T12:00)")
	defer env.drop(idx)
	if got, want := vq2WitnessRows(t, env, idx, "Rows(t, limit=1, from='2017-01-01T00:00', to='2017-04-01T00:00')"), []uint64{2}; !vq2EqU64(got, want) {
		t.Fatalf("rows 101 (January) and 2 (February): Rows(t, limit=1, from=2017-01, to=2017-04) = %v, want %v", got, want)
	}
}

// Regression example for finding DT2 of group gT (same root cause found independently by C16): for quanta whose coarsest unit is the day, minMaxViews took the view "standard" (8 characters, no time part)
// for a YYYYMMDD view and Rows with from/to failed.
func TestVerifC16_RegressionDT2(t *testing.T) {
	env := vq2Start()
	defer env.Close()
	m := &vq2Model{}
	m.addField(&vq2Field{Name: "t", Kind: "time", Quantum: "D"})
	idx := vq2WitnessIndex(t, env, m, "Set(1, t=7, 2017-01-01T00:00)")
	defer env.drop(idx)
	if got, want := vq2WitnessRows(t, env, idx, "Rows(t, from='2017-01-01T00:00', to='2017-01-02T00:00')"), []uint64{7}; !vq2EqU64(got, want) {
		t.Fatalf("Rows(t, from='2017-01-01T00:00', to='2017-01-02T00:00') = %v, want %v", got, want)
	}
}

// DQB3: GroupBy truncated to limit before dropping offset groups; an offset past the end returned everything.
func TestVerifWitness_DQB3(t *testing.T) {
	env := vq2Start()
	defer env.Close()
	m := &vq2Model{}
	m.addField(&vq2Field{Name: "f", Kind: "set"})
	idx := vq2WitnessIndex(t, env, m, "Set(1, f=1) Set(1, f=2) Set(1, f=3)")
	defer env.drop(idx)
	mm := &vq2Model{exist: vq2Set{}}
	f := mm.addField(&vq2Field{Name: "f", Kind: "set"})
	f.setStd(1, 1)
	f.setStd(2, 1)
	f.setStd(3, 1)
	desc := func() string { return "f: rows 1,2,3 each hold column 1" }
	vq2RunGroupBy(t, env, idx, mm, vq2GroupBy{Kids: []vq2RowsCall{{Field: "f"}}, Limit: vq2U64p(1), Offset: vq2U64p(1)}, desc)
	vq2RunGroupBy(t, env, idx, mm, vq2GroupBy{Kids: []vq2RowsCall{{Field: "f"}}, Limit: vq2U64p(2), Offset: vq2U64p(2)}, desc)
	vq2RunGroupBy(t, env, idx, mm, vq2GroupBy{Kids: []vq2RowsCall{{Field: "f"}}, Offset: vq2U64p(5)}, desc)
}

// DQB4: MaxRow with a filter looped forever (uint64 underflow) when row 0 exists and no row intersects the filter.
func TestVerifWitness_DQB4(t *testing.T) {
	env := vq2Start()
	defer env.Close()
	m := &vq2Model{}
	m.addField(&vq2Field{Name: "f", Kind: "set"})
	m.addField(&vq2Field{Name: "g", Kind: "set"})
	idx := vq2WitnessIndex(t, env, m, "Set(1, f=0) Set(2, g=1)")
	defer env.drop(idx)
	rs, err := env.queryTimeout(idx, "MaxRow(Row(g=1), field=f)", 60e9)
	if err != nil {
		t.Fatalf("MaxRow(Row(g=1), field=f) with f: row 0 = {1}, g: row 1 = {2}: %v", err)
	}
	if p, ok := rs[0].(pilosa.Pair); !ok || p.Count != 0 {
		t.Fatalf("MaxRow(Row(g=1), field=f) = %v, want count 0", rs[0])
	}
}

// DQB5: groupByIterator.nextAtIdx kept wrapping a middle field forever once the fields to its left were exhausted
// and none of its rows intersected the stale row to its left.
func TestVerifWitness_DQB5(t *testing.T) {
	env := vq2Start()
	defer env.Close()
	m := &vq2Model{}
	m.addField(&vq2Field{Name: "f", Kind: "set"})
	m.addField(&vq2Field{Name: "g", Kind: "set"})
	m.addField(&vq2Field{Name: "h", Kind: "set"})
	idx := vq2WitnessIndex(t, env, m, "Set(1, f=1) Set(2, g=1) Set(2, h=1)")
	defer env.drop(idx)
	q := "GroupBy(Rows(f), Rows(g), Rows(h))"
	rs, err := env.queryTimeout(idx, q, 60e9)
	if err != nil {
		t.Fatalf("%s with f: row 1 = {1}, g: row 1 = {2}, h: row 1 = {2}: %v", q, err)
	}
	if gcs, ok := rs[0].([]pilosa.GroupCount); !ok || len(gcs) != 0 {
		t.Fatalf("%s = %v, want no groups", q, rs[0])
	}
}

// DQB8: calls that name a bool field but carry no row argument failed in translateCall ("missing bool argument").
func TestVerifWitness_DQB8(t *testing.T) {
	env := vq2Start()
	defer env.Close()
	m := &vq2Model{}
	m.addField(&vq2Field{Name: "b", Kind: "bool"})
	idx := vq2WitnessIndex(t, env, m, "Set(1, b=true) Set(2, b=false) Set(3, b=true)")
	defer env.drop(idx)
	if got, want := vq2WitnessRows(t, env, idx, "Rows(b)"), []uint64{0, 1}; !vq2EqU64(got, want) {
		t.Errorf("Rows(b) = %v, want %v", got, want)
	}
	if p := vq2WitnessPair(t, env, idx, "MaxRow(field=b)"); p.ID != 1 || p.Count == 0 {
		t.Errorf("MaxRow(field=b) = {id:%d count:%d}, want row 1", p.ID, p.Count)
	}
	rs, err := env.query(idx, "GroupBy(Rows(b))")
	if err != nil {
		t.Fatalf("GroupBy(Rows(b)): %v", err)
	}
	if gcs, ok := rs[0].([]pilosa.GroupCount); !ok || len(gcs) != 2 || gcs[0].Count != 1 || gcs[1].Count != 2 {
		t.Errorf("GroupBy(Rows(b)) = %v, want [false:1 true:2]", rs[0])
	}
}
