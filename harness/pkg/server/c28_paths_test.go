package server_test

// C28 — all write paths for the same bits give the same answers.
// One generated logical history (phases of sets / clears with duplicates, redundant sets, set-then-clear) is
// written into identically configured fields — one index per path — through
//   pql       Set()/Clear() calls
//   ids       API.Import by ids (set / clear), grouped by shard            (int fields: API.ImportValue)
//   keys      API.Import by row/column keys                                (keyed cases)
//   rpilosa   API.ImportRoaring, Pilosa encoding, one bitmap per view      (set / time fields only)
//   rofficial API.ImportRoaring, official RoaringFormatSpec encoding       (set / time fields only)
//   mix       every phase through a randomly drawn path of the above
// Every path is probed with the same battery and compared with the model (hence pairwise); int range
// predicates are compared pairwise only (their reading is another group's property).
// Documented asymmetries are part of the model: ImportRoaring is rejected for mutex/bool/int fields and does
// not touch the existence field; TopN is read after RecalculateCaches.

import (
	"bytes"
	"context"
	"encoding/binary"
	"fmt"
	"sort"
	"strings"
	"testing"
	"time"

	"github.com/pilosa/pilosa"
	"github.com/pilosa/pilosa/internal/vkit"
	"github.com/pilosa/pilosa/roaring"
	"pgregory.net/rapid"
)

// TODO(gQ1 D17): Min/Max counts across tying shards are order dependent until D17 is fixed; when false only
// the values of Min/Max are compared with the model.
const vC28CompareMinMaxCount = true // (lead) D17 is repaired on main

type vC28Kind struct {
	Type    string // set mutex bool time int
	Cache   string
	Q       pilosa.TimeQuantum
	NoStd   bool
	Min     int64
	Max     int64
	RowKeys bool
	ColKeys bool
}

func (k vC28Kind) String() string {
	s := k.Type
	if k.Cache != "" {
		s += "/" + k.Cache
	}
	if k.Type == "time" {
		s += "/" + string(k.Q)
		if k.NoStd {
			s += "/noStandardView"
		}
	}
	if k.Type == "int" {
		s += fmt.Sprintf("[%d,%d]", k.Min, k.Max)
	}
	if k.RowKeys {
		s += "+rowKeys"
	}
	if k.ColKeys {
		s += "+colKeys"
	}
	return s
}

func (k vC28Kind) keyed() bool { return k.RowKeys || k.ColKeys }

func (k vC28Kind) fieldOpts() []pilosa.FieldOption {
	var o []pilosa.FieldOption
	switch k.Type {
	case "set":
		o = append(o, pilosa.OptFieldTypeSet(k.Cache, 100))
	case "mutex":
		o = append(o, pilosa.OptFieldTypeMutex(k.Cache, 100))
	case "bool":
		o = append(o, pilosa.OptFieldTypeBool())
	case "time":
		o = append(o, pilosa.OptFieldTypeTime(k.Q, k.NoStd))
	case "int":
		o = append(o, pilosa.OptFieldTypeInt(k.Min, k.Max))
	}
	if k.RowKeys {
		o = append(o, pilosa.OptFieldKeys())
	}
	return o
}

func (k vC28Kind) paths() []string {
	if k.keyed() {
		return []string{"pql", "keys", "mix"}
	}
	if k.Type == "set" || k.Type == "time" {
		return []string{"pql", "ids", "rpilosa", "rofficial", "mix"}
	}
	if k.Type == "int" {
		// bulk: the same batches, the entry of a filler column repeated up to the size of fragment.importValue's bulk (snapshotting) path
		return []string{"pql", "ids", "bulk", "mix"}
	}
	return []string{"pql", "ids", "mix"}
}

type vC28Op struct {
	Row, Col uint64
	TS       time.Time
	Val      int64
}

type vC28Phase struct {
	Clear bool
	Ops   []vC28Op
}

func (p vC28Phase) String() string {
	var sb strings.Builder
	if p.Clear {
		sb.WriteString("clear{")
	} else {
		sb.WriteString("set{")
	}
	for i, o := range p.Ops {
		if i > 0 {
			sb.WriteString(" ")
		}
		fmt.Fprintf(&sb, "(%d,%d", o.Row, o.Col)
		if !o.TS.IsZero() {
			sb.WriteString("," + o.TS.Format("2006-01-02T15:04"))
		}
		fmt.Fprintf(&sb, ",v=%d)", o.Val)
	}
	sb.WriteString("}")
	return sb.String()
}

type vC28RC struct{ Row, Col uint64 }

// vC28Model is the logical content of one field (and of its index's existence field).
type vC28Model struct {
	kind   vC28Kind
	std    map[vC28RC]bool
	stamps map[vC28RC][]time.Time
	views  map[string]bool // time views ever written ("2019", "201901", ...)
	vals   map[uint64]int64
	exist  map[uint64]bool
}

func vC28NewModel(k vC28Kind) *vC28Model {
	return &vC28Model{kind: k, std: map[vC28RC]bool{}, stamps: map[vC28RC][]time.Time{}, views: map[string]bool{}, vals: map[uint64]int64{}, exist: map[uint64]bool{}}
}

func vC28ViewPart(ts time.Time, unit rune) string {
	switch unit {
	case 'Y':
		return ts.Format("2006")
	case 'M':
		return ts.Format("200601")
	case 'D':
		return ts.Format("20060102")
	}
	return ts.Format("2006010215")
}

// apply replays a phase; touchExistence is false for roaring imports.
func (m *vC28Model) apply(p vC28Phase, touchExistence bool) {
	for _, o := range p.Ops {
		rc := vC28RC{o.Row, o.Col}
		if m.kind.Type == "int" && p.Clear {
			delete(m.vals, o.Col)
			continue
		}
		if m.kind.Type == "int" {
			m.vals[o.Col] = o.Val
			if touchExistence {
				m.exist[o.Col] = true
			}
			continue
		}
		if p.Clear {
			delete(m.std, rc)
			delete(m.stamps, rc)
			continue
		}
		if touchExistence {
			m.exist[o.Col] = true
		}
		if m.kind.Type == "mutex" || m.kind.Type == "bool" {
			for other := range m.std {
				if other.Col == o.Col && other.Row != o.Row {
					delete(m.std, other)
				}
			}
		}
		if !(m.kind.Type == "time" && m.kind.NoStd) {
			m.std[rc] = true
		}
		if !o.TS.IsZero() {
			m.stamps[rc] = append(m.stamps[rc], o.TS)
			for _, u := range m.kind.Q {
				m.views[vC28ViewPart(o.TS, u)] = true
			}
		}
	}
}

// ---- roaring encoders ----

func vC28Pilosa(positions []uint64) []byte {
	b := roaring.NewBitmap(positions...)
	var buf bytes.Buffer
	if _, err := b.WriteTo(&buf); err != nil {
		panic(err)
	}
	return buf.Bytes()
}

// vC28Official encodes sorted unique 32-bit positions in the official RoaringFormatSpec layout without run
// containers: cookie 12346, count, (key, card-1) pairs, offsets, then arrays (card <= 4096) or bitsets.
func vC28Official(positions []uint64) []byte {
	type cont struct {
		key  uint16
		vals []uint16
	}
	var conts []cont
	for _, p := range positions {
		if p >= 1<<32 {
			panic("official roaring holds 32-bit values only")
		}
		k := uint16(p >> 16)
		if len(conts) == 0 || conts[len(conts)-1].key != k {
			conts = append(conts, cont{key: k})
		}
		conts[len(conts)-1].vals = append(conts[len(conts)-1].vals, uint16(p))
	}
	var out []byte
	u16 := func(v uint16) { out = append(out, byte(v), byte(v>>8)) }
	u32 := func(v uint32) { out = append(out, byte(v), byte(v>>8), byte(v>>16), byte(v>>24)) }
	u32(12346)
	u32(uint32(len(conts)))
	for _, c := range conts {
		u16(c.key)
		u16(uint16(len(c.vals) - 1))
	}
	bodies := make([][]byte, len(conts))
	for i, c := range conts {
		if len(c.vals) <= 4096 {
			b := make([]byte, 2*len(c.vals))
			for j, v := range c.vals {
				binary.LittleEndian.PutUint16(b[2*j:], v)
			}
			bodies[i] = b
		} else {
			b := make([]byte, 8192)
			for _, v := range c.vals {
				b[v/8] |= 1 << (v % 8)
			}
			bodies[i] = b
		}
	}
	off := uint32(len(out) + 4*len(conts))
	for i := range conts {
		u32(off)
		off += uint32(len(bodies[i]))
	}
	for _, b := range bodies {
		out = append(out, b...)
	}
	return out
}

func vC28SortUniq(a []uint64) []uint64 {
	sort.Slice(a, func(i, j int) bool { return a[i] < a[j] })
	out := a[:0]
	for i, v := range a {
		if i == 0 || v != a[i-1] {
			out = append(out, v)
		}
	}
	return out
}

// ---- writers ----

type vC28Target struct {
	srv   *vgtServer
	index string
	kind  vC28Kind
	model *vC28Model
}

func vC28RowKey(r uint64) string { return fmt.Sprintf("r%d", r) }
func vC28ColKey(c uint64) string { return fmt.Sprintf("c%d", c) }

func (k vC28Kind) pqlRow(r uint64) string {
	if k.Type == "bool" {
		if r == 1 {
			return "true"
		}
		return "false"
	}
	if k.RowKeys {
		return fmt.Sprintf("%q", vC28RowKey(r))
	}
	return fmt.Sprint(r)
}

func (k vC28Kind) pqlCol(c uint64) string {
	if k.ColKeys {
		return fmt.Sprintf("%q", vC28ColKey(c))
	}
	return fmt.Sprint(c)
}

func (tg *vC28Target) writePQL(t vgtFataler, p vC28Phase) {
	var calls []string
	k := tg.kind
	for _, o := range p.Ops {
		switch {
		case k.Type == "int":
			calls = append(calls, fmt.Sprintf("Set(%s, f=%d)", k.pqlCol(o.Col), o.Val))
		case p.Clear:
			calls = append(calls, fmt.Sprintf("Clear(%s, f=%s)", k.pqlCol(o.Col), k.pqlRow(o.Row)))
		case !o.TS.IsZero():
			calls = append(calls, fmt.Sprintf("Set(%s, f=%s, %s)", k.pqlCol(o.Col), k.pqlRow(o.Row), vgtPQLTime(o.TS)))
		default:
			calls = append(calls, fmt.Sprintf("Set(%s, f=%s)", k.pqlCol(o.Col), k.pqlRow(o.Row)))
		}
	}
	tg.srv.runBatched(t, tg.index, calls)
	tg.model.apply(p, true)
}

// vC28BulkN entries in one shard's ImportValue request reach the bulk path for every bit depth
// (len*(bitDepth+1)+opN >= MaxOpN = 10000; MaxOpN cannot be lowered through the API).
const vC28BulkN = 10001

// vC28Filler is the column every unkeyed int set batch also writes in each shard it touches; the bulk path
// repeats that entry to reach the bulk size.
func vC28Filler(shard uint64) uint64 { return shard*pilosa.ShardWidth + 424242 }

func (tg *vC28Target) writeImport(t vgtFataler, p vC28Phase, bulk bool) {
	k := tg.kind
	ctx := context.Background()
	if k.Type == "int" {
		byShard := map[uint64]*pilosa.ImportValueRequest{}
		var shards []uint64
		for _, o := range p.Ops {
			sh := o.Col / pilosa.ShardWidth
			if k.ColKeys {
				sh = 0
			}
			r := byShard[sh]
			if r == nil {
				r = &pilosa.ImportValueRequest{Index: tg.index, Field: "f", Shard: sh}
				byShard[sh] = r
				shards = append(shards, sh)
			}
			if k.ColKeys {
				r.ColumnKeys = append(r.ColumnKeys, vC28ColKey(o.Col))
			} else {
				r.ColumnIDs = append(r.ColumnIDs, o.Col)
			}
			r.Values = append(r.Values, o.Val)
		}
		sort.Slice(shards, func(i, j int) bool { return shards[i] < shards[j] })
		for _, sh := range shards {
			r := byShard[sh]
			if bulk && !k.ColKeys {
				// pad with duplicates of the batch's entry for the shard's filler column (written once by every
				// path): the other columns occur once, as in the other paths
				for i, c := range r.ColumnIDs {
					if c == vC28Filler(sh) {
						for len(r.ColumnIDs) < vC28BulkN {
							r.ColumnIDs = append(r.ColumnIDs, c)
							r.Values = append(r.Values, r.Values[i])
						}
						break
					}
				}
			}
			if err := tg.srv.cmd.API.ImportValue(ctx, r, pilosa.OptImportOptionsClear(p.Clear)); err != nil {
				t.Fatalf("API.ImportValue(%s shard %d, clear=%v, %d entries, batch %s): %v", tg.index, sh, p.Clear, len(r.Values), p, err)
			}
		}
		tg.model.apply(p, true)
		return
	}
	byShard := map[uint64]*pilosa.ImportRequest{}
	var shards []uint64
	hasTS := false
	for _, o := range p.Ops {
		if !o.TS.IsZero() {
			hasTS = true
		}
	}
	for _, o := range p.Ops {
		sh := o.Col / pilosa.ShardWidth
		if k.keyed() {
			sh = 0
		}
		r := byShard[sh]
		if r == nil {
			r = &pilosa.ImportRequest{Index: tg.index, Field: "f", Shard: sh}
			byShard[sh] = r
			shards = append(shards, sh)
		}
		if k.RowKeys {
			r.RowKeys = append(r.RowKeys, vC28RowKey(o.Row))
		} else {
			r.RowIDs = append(r.RowIDs, o.Row)
		}
		if k.ColKeys {
			r.ColumnKeys = append(r.ColumnKeys, vC28ColKey(o.Col))
		} else {
			r.ColumnIDs = append(r.ColumnIDs, o.Col)
		}
		if hasTS {
			ts := int64(0)
			if !o.TS.IsZero() {
				ts = o.TS.UnixNano()
			}
			r.Timestamps = append(r.Timestamps, ts)
		}
	}
	sort.Slice(shards, func(i, j int) bool { return shards[i] < shards[j] })
	for _, sh := range shards {
		if err := tg.srv.cmd.API.Import(ctx, byShard[sh], pilosa.OptImportOptionsClear(p.Clear)); err != nil {
			t.Fatalf("API.Import(%s shard %d, clear=%v, %s): %v", tg.index, sh, p.Clear, p, err)
		}
	}
	tg.model.apply(p, true)
}

// writeRoaring sends one ImportRoaring request per shard holding one bitmap per view.
func (tg *vC28Target) writeRoaring(t vgtFataler, p vC28Phase, official bool) {
	k := tg.kind
	type sv struct {
		shard uint64
		view  string
	}
	pos := map[sv][]uint64{}
	shardSet := map[uint64]bool{}
	add := func(view string, o vC28Op) {
		sh := o.Col / pilosa.ShardWidth
		key := sv{sh, view}
		pos[key] = append(pos[key], o.Row*pilosa.ShardWidth+o.Col%pilosa.ShardWidth)
		shardSet[sh] = true
	}
	for _, o := range p.Ops {
		if !(k.Type == "time" && k.NoStd) {
			add("", o)
		}
		if p.Clear {
			// the client knows every time view it has written: clear the bit in all of them
			for v := range tg.model.views {
				add(v, o)
			}
			continue
		}
		if !o.TS.IsZero() {
			for _, u := range k.Q {
				add(vC28ViewPart(o.TS, u), o)
			}
		}
	}
	var shards []uint64
	for sh := range shardSet {
		shards = append(shards, sh)
	}
	sort.Slice(shards, func(i, j int) bool { return shards[i] < shards[j] })
	for _, sh := range shards {
		req := &pilosa.ImportRoaringRequest{Clear: p.Clear, Views: map[string][]byte{}}
		for key, ps := range pos {
			if key.shard != sh {
				continue
			}
			ps = vC28SortUniq(ps)
			if official {
				req.Views[key.view] = vC28Official(ps)
			} else {
				req.Views[key.view] = vC28Pilosa(ps)
			}
		}
		if err := tg.srv.cmd.API.ImportRoaring(context.Background(), tg.index, "f", sh, false, req); err != nil {
			t.Fatalf("API.ImportRoaring(%s shard %d clear=%v official=%v, %s): %v", tg.index, sh, p.Clear, official, p, err)
		}
	}
	tg.model.apply(p, false)
}

func (tg *vC28Target) write(t vgtFataler, path string, p vC28Phase) {
	switch path {
	case "pql":
		if tg.kind.Type == "int" && p.Clear {
			// PQL cannot clear an int value: every path clears through ImportValue(clear)
			tg.writeImport(t, p, false)
			return
		}
		tg.writePQL(t, p)
	case "ids", "keys":
		tg.writeImport(t, p, false)
	case "bulk":
		tg.writeImport(t, p, true)
	case "rpilosa":
		tg.writeRoaring(t, p, false)
	case "rofficial":
		tg.writeRoaring(t, p, true)
	default:
		panic("path " + path)
	}
}

// ---- readers ----

type vC28Probe struct {
	Call string
	Want string // "" = compared pairwise only
}

func vC28FmtCols(cols []uint64) string { return fmt.Sprint(cols) }

// name returns the presentation of a column / row in results (key or decimal id).
func (k vC28Kind) colName(c uint64) string {
	if k.ColKeys {
		return vC28ColKey(c)
	}
	return fmt.Sprint(c)
}

func (k vC28Kind) rowName(r uint64) string {
	if k.RowKeys {
		return vC28RowKey(r)
	}
	return fmt.Sprint(r)
}

func vC28SortedNames(names []string) string {
	sort.Strings(names)
	return "[" + strings.Join(names, " ") + "]"
}

// render turns a query result into a canonical string.
func (k vC28Kind) render(res interface{}) string {
	switch r := res.(type) {
	case *pilosa.Row:
		var names []string
		if k.ColKeys {
			names = append(names, r.Keys...)
		} else {
			for _, c := range r.Columns() {
				names = append(names, fmt.Sprint(c))
			}
		}
		return vC28SortedNames(names)
	case pilosa.RowIdentifiers:
		var names []string
		if k.RowKeys {
			names = append(names, r.Keys...)
		} else {
			for _, id := range r.Rows {
				names = append(names, fmt.Sprint(id))
			}
		}
		return vC28SortedNames(names)
	case uint64:
		return fmt.Sprint(r)
	case pilosa.ValCount:
		return fmt.Sprintf("{%d %d}", r.Val, r.Count)
	case []pilosa.Pair:
		var names []string
		for _, p := range r {
			n := fmt.Sprint(p.ID)
			if k.RowKeys {
				n = p.Key
			}
			names = append(names, fmt.Sprintf("%s:%d", n, p.Count))
		}
		return vC28SortedNames(names)
	case bool:
		return fmt.Sprint(r)
	}
	return fmt.Sprintf("%T %v", res, res)
}

func (m *vC28Model) rowCols(r uint64) map[uint64]bool {
	out := map[uint64]bool{}
	for rc := range m.std {
		if rc.Row == r {
			out[rc.Col] = true
		}
	}
	return out
}

func (m *vC28Model) names(cols map[uint64]bool) string {
	var names []string
	for c, ok := range cols {
		if ok {
			names = append(names, m.kind.colName(c))
		}
	}
	return vC28SortedNames(names)
}

// probes builds the battery for the model's current state. rows/cols/ranges/preds are the probe parameters
// shared by all paths of a case.
func (m *vC28Model) probes(rows []uint64, ranges [][2]time.Time, preds []int64) []vC28Probe {
	k := m.kind
	var ps []vC28Probe
	if k.Type == "int" {
		notNull := map[uint64]bool{}
		var sum int64
		var min, max int64
		var nmin, nmax int64
		first := true
		for c, v := range m.vals {
			notNull[c] = true
			sum += v
			if first || v < min {
				min, nmin = v, 0
			}
			if first || v > max {
				max, nmax = v, 0
			}
			if v == min {
				nmin++
			}
			if v == max {
				nmax++
			}
			first = false
		}
		ps = append(ps, vC28Probe{"Row(f != null)", m.names(notNull)})
		ps = append(ps, vC28Probe{"Sum(field=f)", fmt.Sprintf("{%d %d}", sum, len(m.vals))})
		if len(m.vals) > 0 {
			if vC28CompareMinMaxCount {
				ps = append(ps, vC28Probe{"Min(field=f)", fmt.Sprintf("{%d %d}", min, nmin)}, vC28Probe{"Max(field=f)", fmt.Sprintf("{%d %d}", max, nmax)})
			} else {
				ps = append(ps, vC28Probe{"Min(field=f)", fmt.Sprintf("min=%d", min)}, vC28Probe{"Max(field=f)", fmt.Sprintf("max=%d", max)})
			}
		}
		seen := map[int64]bool{}
		for _, v := range m.vals {
			if seen[v] {
				continue
			}
			seen[v] = true
			eq := map[uint64]bool{}
			for c, w := range m.vals {
				if w == v {
					eq[c] = true
				}
			}
			ps = append(ps, vC28Probe{fmt.Sprintf("Row(f == %d)", v), m.names(eq)})
		}
		for _, v := range preds {
			// pairwise only: the reading of range predicates is the subject of C14
			ps = append(ps, vC28Probe{fmt.Sprintf("Row(f > %d)", v), ""}, vC28Probe{fmt.Sprintf("Row(f <= %d)", v), ""}, vC28Probe{fmt.Sprintf("Row(f != %d)", v), ""},
				vC28Probe{fmt.Sprintf("Sum(Row(f >= %d), field=f)", v), ""})
		}
		if m.kindTracksExistence() {
			all := map[uint64]bool{}
			for c := range m.exist {
				if !notNull[c] {
					all[c] = true
				}
			}
			ps = append(ps, vC28Probe{"Not(Row(f != null))", m.names(all)})
		}
		sort.SliceStable(ps, func(i, j int) bool { return ps[i].Call < ps[j].Call })
		return ps
	}
	rowHasBits := map[uint64]bool{}
	counts := map[uint64]int{}
	for rc := range m.std {
		rowHasBits[rc.Row] = true
		counts[rc.Row]++
	}
	for _, r := range rows {
		cols := m.rowCols(r)
		ps = append(ps, vC28Probe{fmt.Sprintf("Row(f=%s)", k.pqlRow(r)), m.names(cols)})
		ps = append(ps, vC28Probe{fmt.Sprintf("Count(Row(f=%s))", k.pqlRow(r)), fmt.Sprint(len(cols))})
		if m.kindTracksExistence() {
			not := map[uint64]bool{}
			for c := range m.exist {
				if !cols[c] {
					not[c] = true
				}
			}
			ps = append(ps, vC28Probe{fmt.Sprintf("Not(Row(f=%s))", k.pqlRow(r)), m.names(not)})
		}
	}
	if k.Type != "bool" { // Rows() on a bool field lists ids 0/1; keep to the documented Row(f=true/false) reads
		var names []string
		for r := range rowHasBits {
			names = append(names, k.rowName(r))
		}
		if !(k.Type == "time" && k.NoStd) {
			ps = append(ps, vC28Probe{"Rows(f)", vC28SortedNames(names)})
		}
	}
	if k.Cache == pilosa.CacheTypeRanked || k.Cache == pilosa.CacheTypeLRU {
		var names []string
		for r, n := range counts {
			names = append(names, fmt.Sprintf("%s:%d", k.rowName(r), n))
		}
		ps = append(ps, vC28Probe{"TopN(f)", vC28SortedNames(names)})
		if !k.RowKeys {
			var ids []string
			for _, r := range rows {
				ids = append(ids, fmt.Sprint(r))
			}
			var sel []string
			for _, r := range rows {
				if counts[r] > 0 {
					sel = append(sel, fmt.Sprintf("%s:%d", k.rowName(r), counts[r]))
				}
			}
			ps = append(ps, vC28Probe{"TopN(f, ids=[" + strings.Join(ids, ",") + "])", vC28SortedNames(sel)})
		}
	}
	if k.Type == "time" {
		for _, rg := range ranges {
			rowsIn := map[uint64]bool{}
			for _, r := range rows {
				in := map[uint64]bool{}
				for rc, tss := range m.stamps {
					if rc.Row != r {
						continue
					}
					for _, ts := range tss {
						if !ts.Before(rg[0]) && ts.Before(rg[1]) {
							in[rc.Col] = true
						}
					}
				}
				ps = append(ps, vC28Probe{fmt.Sprintf("Row(f=%s, from=%s, to=%s)", k.pqlRow(r), vgtPQLTime(rg[0]), vgtPQLTime(rg[1])), m.names(in)})
			}
			for rc, tss := range m.stamps {
				for _, ts := range tss {
					if !ts.Before(rg[0]) && ts.Before(rg[1]) {
						rowsIn[rc.Row] = true
					}
				}
			}
			var names []string
			for r := range rowsIn {
				names = append(names, k.rowName(r))
			}
			ps = append(ps, vC28Probe{fmt.Sprintf("Rows(f, from=%s, to=%s)", vgtPQLTime(rg[0]), vgtPQLTime(rg[1])), vC28SortedNames(names)})
		}
	}
	return ps
}

func (m *vC28Model) kindTracksExistence() bool { return true }

func vC28RenderFor(k vC28Kind, call string, res interface{}) string {
	if (strings.HasPrefix(call, "Min(") || strings.HasPrefix(call, "Max(")) && !vC28CompareMinMaxCount {
		if vc, ok := res.(pilosa.ValCount); ok {
			return fmt.Sprintf("%s=%d", strings.ToLower(call[:3]), vc.Val)
		}
	}
	return k.render(res)
}

// ---- generator ----

func vC28GenKind(t *rapid.T) vC28Kind {
	typ := rapid.SampledFrom([]string{"set", "set", "time", "time", "mutex", "bool", "int", "int"}).Draw(t, "type")
	k := vC28Kind{Type: typ}
	switch typ {
	case "set", "mutex":
		k.Cache = rapid.SampledFrom([]string{pilosa.CacheTypeRanked, pilosa.CacheTypeRanked, pilosa.CacheTypeLRU, pilosa.CacheTypeNone}).Draw(t, "cache")
	case "time":
		k.Q = rapid.SampledFrom(vgtQuanta).Draw(t, "q")
		k.NoStd = rapid.IntRange(0, 3).Draw(t, "noStd") == 0
	case "int":
		b := rapid.SampledFrom([][2]int64{{0, 100}, {-100, 100}, {-1000, 1000}, {10, 1 << 40}, {-(1 << 40), -5}}).Draw(t, "bounds")
		k.Min, k.Max = b[0], b[1]
	}
	switch rapid.IntRange(0, 7).Draw(t, "keys") {
	case 0:
		k.ColKeys = true
	case 1:
		k.RowKeys = typ != "bool" && typ != "int"
		k.ColKeys = typ == "int"
	case 2:
		k.ColKeys = true
		k.RowKeys = typ != "bool" && typ != "int"
	}
	return k
}

func vC28GenPhases(t *rapid.T, k vC28Kind) (phases []vC28Phase, rows []uint64, stamps []time.Time) {
	rowPool := []uint64{0, 1, 2, 7, 100, 101, 1000}
	if k.Type == "bool" {
		rowPool = []uint64{0, 1}
	}
	nrows := rapid.IntRange(1, 4).Draw(t, "nrows")
	rowSel := map[uint64]bool{}
	for i := 0; i < nrows; i++ {
		rowSel[rapid.SampledFrom(rowPool).Draw(t, fmt.Sprintf("row%d", i))] = true
	}
	for r := range rowSel {
		rows = append(rows, r)
	}
	sort.Slice(rows, func(i, j int) bool { return rows[i] < rows[j] })
	ncols := rapid.IntRange(1, 6).Draw(t, "ncols")
	var cols []uint64
	for i := 0; i < ncols; i++ {
		cols = append(cols, rapid.SampledFrom(vgtColPool).Draw(t, fmt.Sprintf("col%d", i)))
	}
	nph := rapid.IntRange(1, 5).Draw(t, "nphases")
	var written []vC28Op
	curVals := map[uint64]int64{} // int fields: the value each column holds (a client clears the value it knows)
	var cleared []uint64          // int fields: columns whose value was cleared and not set again
	for pi := 0; pi < nph; pi++ {
		l := fmt.Sprintf("p%d", pi)
		ph := vC28Phase{}
		if len(written) > 0 && (k.Type != "int" || len(curVals) > 0) {
			ph.Clear = rapid.IntRange(0, 2).Draw(t, l+".clear") == 0
			if k.Type == "int" && len(cleared) == 0 && rapid.Bool().Draw(t, l+".clearInt") {
				ph.Clear = true
			}
		}
		nops := rapid.IntRange(1, 8).Draw(t, l+".nops")
		usedCol := map[uint64]uint64{}
		for oi := 0; oi < nops; oi++ {
			ol := fmt.Sprintf("%s.o%d", l, oi)
			var o vC28Op
			switch {
			case len(written) > 0 && rapid.IntRange(0, 2).Draw(t, ol+".again") == 0:
				// duplicate / redundant set / clear of something written before
				o = written[rapid.IntRange(0, len(written)-1).Draw(t, ol+".prev")]
				if k.Type == "int" && rapid.Bool().Draw(t, ol+".newval") {
					o.Val = rapid.Int64Range(k.Min, k.Max).Draw(t, ol+".val")
				}
			case k.Type == "int" && !ph.Clear && len(cleared) > 0 && rapid.IntRange(0, 2).Draw(t, ol+".reset") > 0:
				// a new value for a column whose value was cleared (the cleared value's bits are still stored)
				o.Col = cleared[rapid.IntRange(0, len(cleared)-1).Draw(t, ol+".resetCol")]
				lo, hi := k.Min, k.Max
				if lo < -8 {
					lo = -8
				}
				if hi > 8 {
					hi = 8
				}
				if lo > hi {
					lo, hi = k.Min, k.Max
				}
				o.Val = rapid.OneOf(rapid.Int64Range(lo, hi), rapid.Int64Range(k.Min, k.Max)).Draw(t, ol+".resetVal")
			default:
				o.Row = rows[rapid.IntRange(0, len(rows)-1).Draw(t, ol+".row")]
				o.Col = cols[rapid.IntRange(0, len(cols)-1).Draw(t, ol+".col")]
				if k.Type == "int" {
					o.Row = 0
					o.Val = rapid.OneOf(rapid.Int64Range(k.Min, k.Max), rapid.SampledFrom([]int64{k.Min, k.Max, k.Min + 1, k.Max - 1})).Draw(t, ol+".val")
				}
			}
			if ph.Clear && k.Type == "int" {
				// clear a column that holds a value, with that value; each column once per batch
				var have []uint64
				for c := range curVals {
					if _, used := usedCol[c]; !used {
						have = append(have, c)
					}
				}
				if len(have) == 0 {
					break
				}
				sort.Slice(have, func(i, j int) bool { return have[i] < have[j] })
				o = vC28Op{Col: have[rapid.IntRange(0, len(have)-1).Draw(t, ol+".clearCol")]}
				o.Val = curVals[o.Col]
			}
			if ph.Clear {
				o.TS = time.Time{}
			} else if k.Type == "time" && rapid.IntRange(0, 4).Draw(t, ol+".hasTS") > 0 {
				o.TS = vgtGenStamp(t, ol, stamps)
				stamps = append(stamps, o.TS)
			} else {
				o.TS = time.Time{}
			}
			// one row per column within one mutex/bool set batch, one value per column within one value batch:
			// bulk imports have no documented order inside a batch (the import command may sort it)
			if !ph.Clear && (k.Type == "mutex" || k.Type == "bool") {
				if r, ok := usedCol[o.Col]; ok {
					o.Row = r
				}
				usedCol[o.Col] = o.Row
			}
			if k.Type == "int" {
				if v, ok := usedCol[o.Col]; ok {
					o.Val = int64(v)
				}
				usedCol[o.Col] = uint64(o.Val)
			}
			ph.Ops = append(ph.Ops, o)
			if !ph.Clear {
				written = append(written, o)
			}
		}
		if k.Type == "int" && !k.ColKeys && !ph.Clear {
			touched := map[uint64]bool{}
			var order []uint64
			for _, o := range ph.Ops {
				if sh := o.Col / pilosa.ShardWidth; !touched[sh] {
					touched[sh] = true
					order = append(order, sh)
				}
			}
			fv := rapid.Int64Range(k.Min, k.Max).Draw(t, l+".fillerVal")
			for _, sh := range order {
				if _, has := usedCol[vC28Filler(sh)]; !has { // one value per column within a batch
					ph.Ops = append(ph.Ops, vC28Op{Col: vC28Filler(sh), Val: fv})
				}
			}
		}
		if k.Type == "int" {
			for _, o := range ph.Ops {
				keep := cleared[:0]
				for _, c := range cleared {
					if c != o.Col {
						keep = append(keep, c)
					}
				}
				cleared = keep
				if ph.Clear {
					delete(curVals, o.Col)
					cleared = append(cleared, o.Col)
				} else {
					curVals[o.Col] = o.Val
				}
			}
		}
		phases = append(phases, ph)
	}
	return phases, rows, stamps
}

func TestVerifC28_Paths(t *testing.T) {
	defer vkit.Flush()
	srv := vgtStartServer()
	defer srv.Close()
	rapid.Check(t, func(t *rapid.T) {
		k := vC28GenKind(t)
		phases, rows, stamps := vC28GenPhases(t, k)
		paths := k.paths()
		c := vkit.NewCase().Key("c28", k.String(), fmt.Sprint(phases))
		defer c.Done()
		c.Class("type:"+k.Type).ClassIf(k.keyed(), "keyed").ClassIf(k.NoStd, "noStandardView")

		// probe parameters shared by all paths
		askRows := append(append([]uint64(nil), rows...), 55)
		if k.Type == "bool" {
			askRows = []uint64{0, 1}
		}
		var ranges [][2]time.Time
		if k.Type == "time" {
			unit := vgtFinest(k.Q)
			nr := rapid.IntRange(1, 4).Draw(t, "nranges")
			for i := 0; i < nr; i++ {
				l := fmt.Sprintf("rg%d", i)
				from := vgtTrunc(vgtGenStamp(t, l+".from", stamps), unit)
				to := vgtAdd(from, unit, rapid.IntRange(1, 4).Draw(t, l+".len"))
				if rapid.Bool().Draw(t, l+".far") {
					to = vgtTrunc(vgtGenStamp(t, l+".to", stamps), unit)
				}
				if to.Before(from) {
					from, to = to, from
				}
				ranges = append(ranges, [2]time.Time{from, to})
			}
			if len(stamps) > 0 {
				lo, hi := stamps[0], stamps[0]
				for _, s := range stamps {
					if s.Before(lo) {
						lo = s
					}
					if s.After(hi) {
						hi = s
					}
				}
				ranges = append(ranges, [2]time.Time{vgtTrunc(lo, unit), vgtAdd(vgtTrunc(hi, unit), unit, 1)})
			}
		}
		var preds []int64
		if k.Type == "int" {
			for i := 0; i < 3; i++ {
				preds = append(preds, rapid.Int64Range(k.Min, k.Max).Draw(t, fmt.Sprintf("pred%d", i)))
			}
		}

		// one index per path
		targets := map[string]*vC28Target{}
		for _, p := range paths {
			index, drop := srv.newIndex(t, pilosa.IndexOptions{Keys: k.ColKeys, TrackExistence: true})
			defer drop()
			srv.createField(t, index, "f", k.fieldOpts()...)
			targets[p] = &vC28Target{srv: srv, index: index, kind: k, model: vC28NewModel(k)}
		}
		sub := []string{}
		for _, p := range paths {
			if p != "mix" {
				sub = append(sub, p)
			}
		}
		var mixChoice []string
		midReads := 0
		var calls []string
		probeAll := func(stage int) {
			if err := srv.cmd.API.RecalculateCaches(context.Background()); err != nil {
				t.Fatalf("RecalculateCaches: %v", err)
			}

			desc := fmt.Sprintf("field %s, phases %v, mix=%v, read after phase %d", k, phases, mixChoice, stage)
			answers := map[string][]string{}
			calls = nil
			for _, p := range paths {
				tg := targets[p]
				ps := tg.model.probes(askRows, ranges, preds)
				if calls == nil {
					for _, pr := range ps {
						calls = append(calls, pr.Call)
					}
				} else if len(ps) != len(calls) {
					t.Fatalf("harness: probe batteries differ between paths (%d vs %d)", len(ps), len(calls))
				}
				got := make([]string, len(ps))
				for i := 0; i < len(ps); i += 40 {
					j := i + 40
					if j > len(ps) {
						j = len(ps)
					}
					var qs []string
					for _, pr := range ps[i:j] {
						qs = append(qs, pr.Call)
					}
					res, err := srv.query(tg.index, strings.Join(qs, " "))
					if err != nil {
						t.Fatalf("%s\npath %s: query %s failed: %v", desc, p, vgtClip(strings.Join(qs, " ")), err)
					}
					for x := i; x < j; x++ {
						got[x] = vC28RenderFor(k, ps[x].Call, res[x-i])
					}
				}
				for i, pr := range ps {
					if pr.Want != "" && got[i] != pr.Want {
						t.Fatalf("%s\npath %s: %s = %s, want %s", desc, p, pr.Call, got[i], pr.Want)
					}
				}
				answers[p] = got
			}
			// pairwise (covers the probes without a model answer); existence-dependent probes differ by design
			for _, p := range paths[1:] {
				for i, call := range calls {
					if strings.HasPrefix(call, "Not(") {
						continue
					}
					if answers[p][i] != answers[paths[0]][i] {
						t.Fatalf("%s\n%s: path %s = %s but path %s = %s", desc, call, paths[0], answers[paths[0]][i], p, answers[p][i])
					}
				}
			}

		}
		for pi, ph := range phases {
			mixChoice = append(mixChoice, rapid.SampledFrom(sub).Draw(t, fmt.Sprintf("mix%d", pi)))
			for _, p := range paths {
				if p == "mix" {
					targets[p].write(t, mixChoice[pi], ph)
				} else {
					targets[p].write(t, p, ph)
				}
			}
			// reading between the batches fills the row caches that later batches have to invalidate
			if pi < len(phases)-1 && rapid.Bool().Draw(t, fmt.Sprintf("readAfter%d", pi)) {
				midReads++
				probeAll(pi + 1)
			}
		}
		// documented asymmetry: roaring import is refused for non set/time fields
		if !k.keyed() && k.Type != "set" && k.Type != "time" {
			req := &pilosa.ImportRoaringRequest{Views: map[string][]byte{"": vC28Pilosa([]uint64{1})}}
			if err := srv.cmd.API.ImportRoaring(context.Background(), targets["pql"].index, "f", 0, false, req); err == nil {
				t.Fatalf("ImportRoaring into a %s field was accepted; api.go documents it as supported for set and time fields only", k.Type)
			}
		}
		probeAll(len(phases))

		// classification
		dup, setThenClear := false, false
		seen := map[vC28RC]bool{}
		shards := map[uint64]bool{}
		for _, ph := range phases {
			for _, o := range ph.Ops {
				rc := vC28RC{o.Row, o.Col}
				shards[o.Col/pilosa.ShardWidth] = true
				if ph.Clear && seen[rc] {
					setThenClear = true
				}
				if !ph.Clear {
					if seen[rc] {
						dup = true
					}
					seen[rc] = true
				}
			}
		}
		multiView := k.Type != "time" || len(targets[paths[0]].model.views) >= 2
		intReset := false
		if k.Type == "int" {
			wasCleared := map[uint64]bool{}
			for _, ph := range phases {
				for _, o := range ph.Ops {
					if ph.Clear {
						wasCleared[o.Col] = true
					} else if wasCleared[o.Col] {
						intReset = true
					}
				}
			}
		}
		c.ClassIf(intReset, "intValueClearedThenSetAgain")
		c.ClassIf(midReads > 0, "readsBetweenBatches").ClassIf(dup, "duplicates").ClassIf(setThenClear, "setThenClear").ClassIf(len(shards) >= 2, "multiShard")
		for _, mc := range mixChoice {
			c.Class("mix:" + mc)
		}
		c.NT((dup || setThenClear) && len(shards) >= 2 && multiView)
		c.Sample(map[string]interface{}{"field": k.String(), "phases": fmt.Sprint(phases), "mix": mixChoice, "probes": len(calls)})
	})
}

// TestVerifWitness_DT3: a clear import on a time field must clear the time views like Clear() does.
func TestVerifWitness_DT3(t *testing.T) {
	srv := vgtStartServer()
	defer srv.Close()
	index, drop := srv.newIndex(t, pilosa.IndexOptions{})
	defer drop()
	srv.createField(t, index, "f", pilosa.OptFieldTypeTime("Y"))
	srv.mustQuery(t, index, "Set(1, f=100, 2020-02-01T00:00)")
	srv.importIDs(t, index, "f", []uint64{100}, []uint64{1}, nil, true)
	res := srv.mustQuery(t, index, "Row(f=100) Row(f=100, from=2020-01-01T00:00, to=2022-01-01T00:00)")
	if got := vgtRowCols(t, res[0], "Row(f=100)"); len(got) != 0 {
		t.Fatalf("after Set(1, f=100, 2020-02-01T00:00) and a clear import of (100,1): Row(f=100) = %v, want []", got)
	}
	if got := vgtRowCols(t, res[1], "Row(f=100, from, to)"); len(got) != 0 {
		t.Fatalf("after Set(1, f=100, 2020-02-01T00:00) and a clear import of (100,1): Row(f=100, from=2020-01-01T00:00, to=2022-01-01T00:00) = %v, want [] (Clear(1, f=100) gives [])", got)
	}
}

// TestVerifWitness_DT4: importing a bit without a timestamp into a noStandardView field must behave like Set().
func TestVerifWitness_DT4(t *testing.T) {
	srv := vgtStartServer()
	defer srv.Close()
	index, drop := srv.newIndex(t, pilosa.IndexOptions{})
	defer drop()
	srv.createField(t, index, "f", pilosa.OptFieldTypeTime("M", true))
	srv.createField(t, index, "g", pilosa.OptFieldTypeTime("M", true))
	srv.mustQuery(t, index, "Set(0, f=1)")
	srv.importIDs(t, index, "g", []uint64{1}, []uint64{0}, nil, false)
	res := srv.mustQuery(t, index, "Row(f=1) Row(g=1)")
	viaSet, viaImport := vgtRowCols(t, res[0], "Row(f=1)"), vgtRowCols(t, res[1], "Row(g=1)")
	if !vgtEqU64(viaSet, viaImport) {
		t.Fatalf("noStandardView time field: Row after Set(0, f=1) = %v but Row after importing (1,0) without timestamp = %v", viaSet, viaImport)
	}
}
