package server_test

// C13 — mutex and bool fields hold at most one value per column, the last one written (API level).
// Histories of Set / Clear / Import (batches that repeat a column with conflicting rows, columns that already hold a
// value of the batch) / clear-Import / ClearRow through the executor and API.Import on a mutex field and a bool field
// over several shards. After every step Rows(f, column=c) has at most one element and equals the model (last write in
// request order), and Row(f=r) equals the inverse map.

import (
	"fmt"
	"sort"
	"testing"

	"github.com/pilosa/pilosa"
	"github.com/pilosa/pilosa/internal/vkit"
	"pgregory.net/rapid"
)

var vc13Cols = []uint64{0, 1, 65536, vgaSW - 1, vgaSW, vgaSW + 1, 3*vgaSW + 5}
var vc13MutexRows = []uint64{0, 1, 2, 3, 100}

func TestVerifC13_API(t *testing.T) {
	defer vkit.Flush()
	env := vgaStart()
	defer env.Close()
	rapid.Check(t, func(t *rapid.T) {
		kind := rapid.SampledFrom([]string{"mutex", "mutex", "bool"}).Draw(t, "kind")
		index, drop := env.newIndex(t, "c13x", pilosa.IndexOptions{})
		defer drop()
		rows := vc13MutexRows
		if kind == "mutex" {
			cache := rapid.SampledFrom([]string{pilosa.CacheTypeRanked, pilosa.CacheTypeLRU, pilosa.CacheTypeNone}).Draw(t, "cache")
			env.field(t, index, "f", pilosa.OptFieldTypeMutex(cache, 3))
		} else {
			env.field(t, index, "f", pilosa.OptFieldTypeBool())
			rows = []uint64{0, 1}
		}
		c := &vgaCase{t: t, e: env, index: index, desc: kind + " field"}
		model := map[uint64]uint64{} // column -> row
		rowArg := func(r uint64) string {
			if kind == "bool" {
				if r == 1 {
					return "true"
				}
				return "false"
			}
			return fmt.Sprint(r)
		}
		verify := func() {
			holders := map[uint64][]uint64{} // column -> rows whose Row(f=r) lists it
			for _, r := range rows {
				for _, col := range c.qCols(fmt.Sprintf("Row(f=%s)", rowArg(r))) {
					holders[col] = append(holders[col], r)
				}
			}
			for _, col := range vc13Cols {
				var want []uint64
				if r, ok := model[col]; ok {
					want = []uint64{r}
				}
				if got := holders[col]; len(got) > 1 {
					c.fail("column %d is listed by Row(f=r) for %d values %v on a %s field, want %v", col, len(got), got, kind, want)
				}
				if kind == "bool" {
					// Rows() on a bool field demands a bool 'previous' argument (translateCall), so there is no
					// Rows(f, column=c) to ask; the Row(f=true)/Row(f=false) comparison below decides.
					continue
				}
				got := c.qRows(fmt.Sprintf("Rows(f, column=%d)", col))
				if len(got) > 1 {
					c.fail("column %d holds %d values %v on a %s field, want %v", col, len(got), got, kind, want)
				}
				if !vgaEq(got, want) {
					c.fail("Rows(f, column=%d) = %v, want %v (last write)", col, got, want)
				}
			}
			for _, r := range rows {
				var want []uint64
				for _, col := range vc13Cols {
					if rr, ok := model[col]; ok && rr == r {
						want = append(want, col)
					}
				}
				sort.Slice(want, func(i, j int) bool { return want[i] < want[j] })
				if got := c.qCols(fmt.Sprintf("Row(f=%s)", rowArg(r))); !vgaEq(got, want) {
					c.fail("Row(f=%s) = %v, want %v", rowArg(r), got, want)
				}
			}
		}
		conflict, storedInBatch, storedLast, storedEarlier, rejected, bigBatch, bigConflict := false, false, false, false, false, false, false
		restarts, overwriteAfterRestart := 0, false
		heldAtRestart := map[uint64]bool{}
		// a write of a different value to a column that held a value when the server was restarted
		noteWrite := func(col, r uint64) {
			if old, had := model[col]; had && old != r && heldAtRestart[col] {
				overwriteAfterRestart = true
			}
		}
		paths := map[string]bool{}
		n := rapid.IntRange(1, vkit.Scale(14, 22)).Draw(t, "steps")
		for i := 0; i < n; i++ {
			l := fmt.Sprintf("s%d", i)
			op := rapid.SampledFrom([]string{"Set", "Set", "Clear", "Import", "Import", "Import", "ImportClear", "ClearRow", "ImportBadBool", "Restart", "Restart"}).Draw(t, l+".op")
			if op == "ImportBadBool" && kind != "bool" {
				op = "Import"
			}
			paths[op] = true
			switch op {
			case "Set", "Clear":
				r := rapid.SampledFrom(rows).Draw(t, l+".row")
				col := rapid.SampledFrom(vc13Cols).Draw(t, l+".col")
				q := fmt.Sprintf("%s(%d, f=%s)", op, col, rowArg(r))
				c.hist = append(c.hist, q)
				old, had := model[col]
				var want bool
				if op == "Set" {
					want = !had || old != r
					noteWrite(col, r)
					model[col] = r
				} else {
					want = had && old == r
					if want {
						delete(model, col)
					}
				}
				if got := c.qBool(q); got != want {
					c.fail("%s returned %v, want %v", q, got, want)
				}
			case "Import", "ImportClear":
				// mostly small batches; some with 13-60 entries for ONE shard (sort.Sort is only stable up to 12 elements),
				// over few columns, so that a column is repeated non-adjacently with conflicting rows
				k := rapid.OneOf(rapid.IntRange(1, 6), rapid.IntRange(1, 6), rapid.IntRange(13, 60)).Draw(t, l+".n")
				ncols := rapid.IntRange(1, 3).Draw(t, l+".ncols")
				from := vc13Cols
				if k > 12 {
					bigBatch = true
					from = rapid.SampledFrom([][]uint64{{0, 1, 65536, vgaSW - 1}, {0, 1, 65536, vgaSW - 1}, {vgaSW, vgaSW + 1}}).Draw(t, l+".shardCols")
					ncols = rapid.IntRange(2, len(from)).Draw(t, l+".ncolsBig")
				}
				var pool []uint64
				for j := 0; j < ncols; j++ {
					pool = append(pool, rapid.SampledFrom(from).Draw(t, fmt.Sprintf("%s.pc%d", l, j)))
				}
				var rs, cs []uint64
				for j := 0; j < k; j++ {
					rs = append(rs, rapid.SampledFrom(rows).Draw(t, fmt.Sprintf("%s.r%d", l, j)))
					cs = append(cs, rapid.SampledFrom(pool).Draw(t, fmt.Sprintf("%s.c%d", l, j)))
				}
				clear := op == "ImportClear"
				c.hist = append(c.hist, fmt.Sprintf("%s(f, rows=%v, cols=%v)", op, rs, cs))
				if !clear {
					byCol := map[uint64][]uint64{}
					for j := range cs {
						byCol[cs[j]] = append(byCol[cs[j]], rs[j])
					}
					for col, rr := range byCol {
						distinct := map[uint64]bool{}
						for _, r := range rr {
							distinct[r] = true
						}
						if len(distinct) < 2 {
							continue
						}
						conflict = true
						if k > 12 {
							bigConflict = true
						}
						if old, had := model[col]; had && distinct[old] {
							storedInBatch = true
							if rr[len(rr)-1] == old {
								storedLast = true
							} else {
								storedEarlier = true
							}
						}
					}
				}
				if err := c.importBits("f", rs, cs, clear); err != nil {
					c.fail("Import: %v", err)
				}
				for j := range rs {
					if clear {
						if old, had := model[cs[j]]; had && old == rs[j] {
							delete(model, cs[j])
						}
					} else {
						noteWrite(cs[j], rs[j])
						model[cs[j]] = rs[j]
					}
				}
			case "Restart":
				// clean restart of the server: the fragments are opened from disk again
				c.hist = append(c.hist, "Reopen() of the server")
				if err := env.cmd.Reopen(); err != nil {
					c.fail("Reopen: %v", err)
				}
				restarts++
				heldAtRestart = map[uint64]bool{}
				for col := range model {
					heldAtRestart[col] = true
				}
			case "ImportBadBool":
				col := rapid.SampledFrom(vc13Cols).Draw(t, l+".col")
				c.hist = append(c.hist, fmt.Sprintf("Import(f, rows=[1 2], cols=[%d %d]) (must be rejected)", col, col))
				if err := c.importBits("f", []uint64{1, 2}, []uint64{col, col}, false); err == nil {
					c.fail("Import with row 2 into a bool field was accepted")
				}
				rejected = true
			case "ClearRow":
				r := rapid.SampledFrom(rows).Draw(t, l+".row")
				q := fmt.Sprintf("ClearRow(f=%s)", rowArg(r))
				c.hist = append(c.hist, q)
				want := false
				for col, rr := range model {
					if rr == r {
						want = true
						delete(model, col)
					}
				}
				if got := c.qBool(q); got != want {
					c.fail("%s returned %v, want %v", q, got, want)
				}
			}
			verify()
		}
		kc := vkit.NewCase().Key("c13api", kind, c.hist)
		defer kc.Done()
		kc.Class("kind:"+kind).ClassIf(conflict, "batchRepeatsColumnWithDifferentRows").ClassIf(storedInBatch, "storedValueAppearsInConflictingBatch")
		kc.ClassIf(storedLast, "storedValueIsLastEntry").ClassIf(storedEarlier, "storedValueIsEarlierEntry").ClassIf(rejected, "boolRowAbove1Rejected").ClassIf(restarts > 0, "serverRestarted").ClassIf(overwriteAfterRestart, "differentValueWrittenAfterRestartToHeldColumn").ClassIf(bigBatch, "batchOf13to60EntriesForOneShard").ClassIf(bigConflict, "bigBatchRepeatsColumnWithDifferentRows")
		for p := range paths {
			kc.Class("path:" + p)
		}
		kc.NT(storedInBatch || bigConflict || overwriteAfterRestart)
		kc.Sample(map[string]interface{}{"kind": kind, "history": c.hist})
	})
}
