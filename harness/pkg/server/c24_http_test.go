package server_test

// C24 — replication of the key-translation log over HTTP: a replica
// TranslateFile attached with http.NewTranslateStore to a real node
// (GET /internal/translate/data?offset=N) must end with a log identical to the
// node's, also when it is closed and reattached while the node keeps allocating keys.

import (
	"bytes"
	"context"
	"fmt"
	"io/ioutil"
	"os"
	"path/filepath"
	"strings"
	"testing"
	"time"

	"github.com/pilosa/pilosa"
	"github.com/pilosa/pilosa/http"
	"github.com/pilosa/pilosa/internal/vkit"
	"github.com/pilosa/pilosa/test"
	"pgregory.net/rapid"
)

func TestVerifC24_HTTPReplication(t *testing.T) {
	defer vkit.Flush()
	rapid.Check(t, func(t *rapid.T) {
		m := test.MustRunCommand()
		defer m.Close()
		ctx := context.Background()
		if _, err := m.API.CreateIndex(ctx, "i", pilosa.IndexOptions{Keys: true}); err != nil {
			t.Fatalf("CreateIndex: %v", err)
		}
		if _, err := m.API.CreateField(ctx, "i", "f", pilosa.OptFieldTypeSet(pilosa.CacheTypeNone, 0), pilosa.OptFieldKeys()); err != nil {
			t.Fatalf("CreateField: %v", err)
		}
		primaryPath := filepath.Join(m.Config.DataDir, ".keys")
		dir, err := ioutil.TempDir("", "verif-c24h-")
		if err != nil {
			t.Fatalf("tempdir: %v", err)
		}
		defer os.RemoveAll(dir)
		rpath := filepath.Join(dir, "replica")
		openReplica := func() *pilosa.TranslateFile {
			r := pilosa.NewTranslateFile(pilosa.OptTranslateFileMapSize(1 << 20))
			r.Path = rpath
			if err := r.Open(); err != nil {
				t.Fatalf("open replica: %v", err)
			}
			r.SetPrimaryStore("node", http.NewTranslateStore(m.API.Node()))
			return r
		}
		r := openReplica()
		defer func() { r.Close() }()
		size := func(p string) int64 {
			st, err := os.Stat(p)
			if err != nil {
				return -1
			}
			return st.Size()
		}
		waitCaughtUp := func(what string) {
			deadline := time.Now().Add(120 * time.Second)
			for size(rpath) != size(primaryPath) {
				if time.Now().After(deadline) {
					t.Fatalf("%s: replica log stuck at %d bytes, node's log has %d (waited 120s)", what, size(rpath), size(primaryPath))
				}
				time.Sleep(3 * time.Millisecond)
			}
		}
		var cols, rows []string
		seenC, seenR := map[string]bool{}, map[string]bool{}
		var trace []string
		write := func(label string) {
			n := rapid.IntRange(1, 4).Draw(t, label+"_n")
			var calls []string
			for j := 0; j < n; j++ {
				ck := rapid.SampledFrom([]string{"a", "b", "c1", "col-2", "k k", strings.Repeat("L", 1500), strings.Repeat("c", 127), strings.Repeat("c", 128), strings.Repeat("c", 129), strings.Repeat("c", 256), strings.Repeat("c", 4096), strings.Repeat("c", 16384)}).Draw(t, fmt.Sprintf("%s_c%d", label, j))
				rk := rapid.SampledFrom([]string{"a", "r1", "row-2", "x:y", strings.Repeat("R", 700), strings.Repeat("r", 127), strings.Repeat("r", 128), strings.Repeat("r", 255), strings.Repeat("r", 384), strings.Repeat("r", 16383), strings.Repeat("r", 16385)}).Draw(t, fmt.Sprintf("%s_r%d", label, j))
				calls = append(calls, fmt.Sprintf("Set(%q, f=%q)", ck, rk))
				if !seenC[ck] {
					seenC[ck] = true
					cols = append(cols, ck)
				}
				if !seenR[rk] {
					seenR[rk] = true
					rows = append(rows, rk)
				}
			}
			q := strings.Join(calls, " ")
			if _, err := m.API.Query(ctx, &pilosa.QueryRequest{Index: "i", Query: q}); err != nil {
				t.Fatalf("Query(%s): %v", q, err)
			}
			if len(q) > 80 {
				q = q[:80] + "..."
			}
			trace = append(trace, q)
		}
		var lastCols, lastRows []uint64
		check := func(what string) {
			waitCaughtUp(what)
			pb, e1 := ioutil.ReadFile(primaryPath)
			rb, e2 := ioutil.ReadFile(rpath)
			if e1 != nil || e2 != nil || !bytes.Equal(pb, rb) {
				t.Fatalf("%s: replica log (%d bytes, err %v) differs from the node's (%d bytes, err %v)", what, len(rb), e2, len(pb), e1)
			}
			cids, err := r.TranslateColumnsToUint64("i", cols)
			if err != nil {
				t.Fatalf("%s: replica cannot translate the %d column keys used so far: %v", what, len(cols), err)
			}
			rids, err := r.TranslateRowsToUint64("i", "f", rows)
			if err != nil {
				t.Fatalf("%s: replica cannot translate the %d row keys used so far: %v", what, len(rows), err)
			}
			for _, pair := range []struct {
				name      string
				ids, last []uint64
				keys      []string
			}{{"column", cids, lastCols, cols}, {"row", rids, lastRows, rows}} {
				seen := map[uint64]string{}
				for i, id := range pair.ids {
					if id == 0 {
						t.Fatalf("%s: replica translates %s key %q to 0", what, pair.name, pair.keys[i])
					}
					if other, dup := seen[id]; dup {
						t.Fatalf("%s: replica gives id %d to %s keys %q and %q", what, id, pair.name, other, pair.keys[i])
					}
					seen[id] = pair.keys[i]
					if i < len(pair.last) && pair.last[i] != id {
						t.Fatalf("%s: replica translated %s key %q to %d earlier and to %d now", what, pair.name, pair.keys[i], pair.last[i], id)
					}
				}
			}
			lastCols, lastRows = cids, rids
		}
		c := vkit.NewCase()
		defer c.Done()
		nt := false
		write("w0")
		nOps := rapid.IntRange(1, 7).Draw(t, "nOps")
		for i := 0; i < nOps; i++ {
			label := fmt.Sprintf("op%d", i)
			switch rapid.SampledFrom([]string{"write", "write", "check", "reopenReplica"}).Draw(t, label) {
			case "write":
				write(label)
			case "check":
				check(fmt.Sprintf("check #%d", i))
				trace = append(trace, "check")
			case "reopenReplica":
				// close the replica idle, or while the last entries may still be arriving (finding DM2)
				if rapid.Bool().Draw(t, label+"_catchUpFirst") {
					waitCaughtUp("before closing the replica")
				} else {
					c.Class("closedWhileStreaming")
				}
				if err := r.Close(); err != nil {
					t.Fatalf("replica Close: %v", err)
				}
				behind := size(rpath)
				if rapid.Bool().Draw(t, label+"_writeWhileDown") {
					write(label + "_down")
				}
				if behind > 0 && behind < size(primaryPath) {
					nt = true
					c.Class("resumedBehindNode")
				}
				r = openReplica()
				trace = append(trace, "reopenReplica")
			}
		}
		check("final")
		c.Key("c24http", strings.Join(trace, ";"))
		c.NT(nt)
		c.Sample(map[string]interface{}{"ops": trace})
	})
}
