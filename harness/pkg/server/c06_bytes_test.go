package server_test

// GENERATED COPY of harness/pkg/roaring/c06_bytes_test.go (package clause changed) — do not edit here.
// C06 — byte-level encoders of the two roaring formats (written from the format descriptions in
// docs/architecture.md and the RoaringFormatSpec, independent of the code under test) and
// structure-aware mutators. This file is copied verbatim (except the package clause) to
// harness/pkg/server/c06_bytes_test.go; edit here and re-copy.

import (
	"encoding/binary"
	"fmt"
	"sort"
	"strings"

	"pgregory.net/rapid"
)

type vc06Cont struct {
	Key  uint64
	Typ  int      // 1 array, 2 bitmap, 3 run
	Vals []uint16 // sorted, unique, non-empty
}

type vc06Field struct {
	Name string
	Off  int
	Size int // 2, 4 or 8
}

type vc06Enc struct {
	Format string // "pilosa" | "official" | "official-runs"
	Data   []byte
	Fields []vc06Field
	Bounds []int // section starts / ends
}

func vc06Runs(vals []uint16) [][2]uint16 {
	var runs [][2]uint16
	for i := 0; i < len(vals); i++ {
		s := vals[i]
		e := s
		for i+1 < len(vals) && vals[i+1] == e+1 {
			i++
			e = vals[i]
		}
		runs = append(runs, [2]uint16{s, e})
	}
	return runs
}

func vc06ContData(c vc06Cont, official bool, enc *vc06Enc, base int, idx int) []byte {
	var out []byte
	switch c.Typ {
	case 1:
		for _, v := range c.Vals {
			out = binary.LittleEndian.AppendUint16(out, v)
		}
	case 2:
		out = make([]byte, 8192)
		for _, v := range c.Vals {
			out[v/8] |= 1 << (v % 8)
		}
	case 3:
		runs := vc06Runs(c.Vals)
		enc.Fields = append(enc.Fields, vc06Field{fmt.Sprintf("runcount%d", idx), base, 2})
		out = binary.LittleEndian.AppendUint16(out, uint16(len(runs)))
		for _, r := range runs {
			out = binary.LittleEndian.AppendUint16(out, r[0])
			if official {
				out = binary.LittleEndian.AppendUint16(out, r[1]-r[0]) // start, length-1
			} else {
				out = binary.LittleEndian.AppendUint16(out, r[1]) // start, last
			}
		}
	}
	return out
}

// Pilosa format: cookie(magic u16, version u8, flags u8) keyN u32 | per key: key u64, type u16, n-1 u16 | per key: offset u32 | container data
func vc06EncodePilosa(conts []vc06Cont) vc06Enc {
	enc := vc06Enc{Format: "pilosa"}
	n := len(conts)
	d := make([]byte, 8+16*n)
	binary.LittleEndian.PutUint16(d[0:], 12348)
	d[2], d[3] = 0, 0
	binary.LittleEndian.PutUint32(d[4:], uint32(n))
	enc.Fields = append(enc.Fields, vc06Field{"magic", 0, 2}, vc06Field{"keyN", 4, 4})
	enc.Bounds = append(enc.Bounds, 0, 8, 8+12*n, 8+16*n)
	for i, c := range conts {
		h := 8 + 12*i
		binary.LittleEndian.PutUint64(d[h:], c.Key)
		binary.LittleEndian.PutUint16(d[h+8:], uint16(c.Typ))
		binary.LittleEndian.PutUint16(d[h+10:], uint16(len(c.Vals)-1))
		enc.Fields = append(enc.Fields, vc06Field{fmt.Sprintf("key%d", i), h, 8}, vc06Field{fmt.Sprintf("type%d", i), h + 8, 2}, vc06Field{fmt.Sprintf("card%d", i), h + 10, 2})
	}
	for i, c := range conts {
		o := 8 + 12*n + 4*i
		binary.LittleEndian.PutUint32(d[o:], uint32(len(d)))
		enc.Fields = append(enc.Fields, vc06Field{fmt.Sprintf("offset%d", i), o, 4})
		d = append(d, vc06ContData(c, false, &enc, len(d), i)...)
		enc.Bounds = append(enc.Bounds, len(d))
	}
	enc.Data = d
	return enc
}

// Official format (32-bit keys). Without runs: cookie 12346 u32, keyN u32 | key u16, card-1 u16 ... | offset u32 ... | data.
// With runs: (12347 | (keyN-1)<<16) u32, run bitmap | key/card | [offsets only when keyN >= 4] | data.
func vc06EncodeOfficial(conts []vc06Cont) vc06Enc {
	n := len(conts)
	hasRuns := false
	for _, c := range conts {
		if c.Typ == 3 {
			hasRuns = true
		}
	}
	enc := vc06Enc{Format: "official"}
	var d []byte
	if hasRuns {
		enc.Format = "official-runs"
		d = binary.LittleEndian.AppendUint32(d, 12347|uint32(n-1)<<16)
		enc.Fields = append(enc.Fields, vc06Field{"cookie", 0, 2}, vc06Field{"keyN-1", 2, 2})
		bm := make([]byte, (n+7)/8)
		for i, c := range conts {
			if c.Typ == 3 {
				bm[i/8] |= 1 << (i % 8)
			}
		}
		d = append(d, bm...)
	} else {
		d = binary.LittleEndian.AppendUint32(d, 12346)
		d = binary.LittleEndian.AppendUint32(d, uint32(n))
		enc.Fields = append(enc.Fields, vc06Field{"cookie", 0, 4}, vc06Field{"keyN", 4, 4})
	}
	enc.Bounds = append(enc.Bounds, 0, len(d))
	for i, c := range conts {
		enc.Fields = append(enc.Fields, vc06Field{fmt.Sprintf("key%d", i), len(d), 2}, vc06Field{fmt.Sprintf("card%d", i), len(d) + 2, 2})
		d = binary.LittleEndian.AppendUint16(d, uint16(c.Key))
		d = binary.LittleEndian.AppendUint16(d, uint16(len(c.Vals)-1))
	}
	enc.Bounds = append(enc.Bounds, len(d))
	offPos := -1
	if !hasRuns || n >= 4 {
		offPos = len(d)
		d = append(d, make([]byte, 4*n)...)
		enc.Bounds = append(enc.Bounds, len(d))
	}
	for i, c := range conts {
		if offPos >= 0 {
			binary.LittleEndian.PutUint32(d[offPos+4*i:], uint32(len(d)))
			enc.Fields = append(enc.Fields, vc06Field{fmt.Sprintf("offset%d", i), offPos + 4*i, 4})
		}
		d = append(d, vc06ContData(c, true, &enc, len(d), i)...)
		enc.Bounds = append(enc.Bounds, len(d))
	}
	enc.Data = d
	return enc
}

func vc06GenVals(t *rapid.T, typ int) []uint16 {
	set := map[uint16]bool{}
	switch rapid.IntRange(0, 4).Draw(t, "shape") {
	case 0:
		set[rapid.Uint16().Draw(t, "single")] = true
	case 1:
		n := rapid.IntRange(1, 8).Draw(t, "few")
		for i := 0; i < n; i++ {
			set[rapid.Uint16().Draw(t, "v")] = true
		}
	case 2: // a few runs
		n := rapid.IntRange(1, 4).Draw(t, "nruns")
		for i := 0; i < n; i++ {
			s := rapid.IntRange(0, 65535).Draw(t, "rs")
			l := rapid.IntRange(1, 40).Draw(t, "rl")
			for v := s; v < s+l && v <= 65535; v++ {
				set[uint16(v)] = true
			}
		}
	case 3: // edges
		set[0], set[65535] = true, true
	default: // dense start (forces the official typer to choose bitmap when >= 4096)
		n := rapid.SampledFrom([]int{100, 4095, 4096, 5000}).Draw(t, "dense")
		for v := 0; v < n; v++ {
			set[uint16(v)] = true
		}
	}
	vals := make([]uint16, 0, len(set))
	for v := range set {
		vals = append(vals, v)
	}
	sort.Slice(vals, func(i, j int) bool { return vals[i] < vals[j] })
	return vals
}

// a valid encoding of 1..3 containers whose keys lie in rows 0..3 of a shard (16 containers per row for ShardWidth 2^20)
func vc06GenEnc(t *rapid.T) (vc06Enc, []vc06Cont) {
	official := rapid.Bool().Draw(t, "official")
	n := rapid.IntRange(1, 3).Draw(t, "nconts")
	keys := map[uint64]bool{}
	var conts []vc06Cont
	for len(conts) < n {
		k := uint64(rapid.SampledFrom([]int{0, 1, 15, 16, 17, 31, 32, 48}).Draw(t, "key"))
		if keys[k] {
			continue
		}
		keys[k] = true
		typ := rapid.IntRange(1, 3).Draw(t, "ctype")
		vals := vc06GenVals(t, typ)
		if official && typ != 3 {
			// the official reader derives array/bitmap from the cardinality
			typ = 1
			if len(vals) > 4096 { // RoaringFormatSpec: an array container holds up to 4096 values
				typ = 2
			}
		}
		if !official && typ == 1 && len(vals) > 4096 {
			typ = 2
		}
		conts = append(conts, vc06Cont{Key: k, Typ: typ, Vals: vals})
	}
	sort.Slice(conts, func(i, j int) bool { return conts[i].Key < conts[j].Key })
	if official {
		return vc06EncodeOfficial(conts), conts
	}
	return vc06EncodePilosa(conts), conts
}

func vc06Values(conts []vc06Cont) []uint64 {
	var out []uint64
	for _, c := range conts {
		for _, v := range c.Vals {
			out = append(out, c.Key<<16|uint64(v))
		}
	}
	return out
}

// vc06Mutate applies one structure-aware mutation and names it.
func vc06Mutate(t *rapid.T, enc vc06Enc) ([]byte, string) {
	d := append([]byte(nil), enc.Data...)
	put := func(f vc06Field, v uint64) {
		switch f.Size {
		case 2:
			binary.LittleEndian.PutUint16(d[f.Off:], uint16(v))
		case 4:
			binary.LittleEndian.PutUint32(d[f.Off:], uint32(v))
		case 8:
			binary.LittleEndian.PutUint64(d[f.Off:], v)
		}
	}
	fieldsNamed := func(prefix string) []vc06Field {
		var out []vc06Field
		for _, f := range enc.Fields {
			if len(f.Name) >= len(prefix) && f.Name[:len(prefix)] == prefix {
				out = append(out, f)
			}
		}
		return out
	}
	pick := func(fs []vc06Field) (vc06Field, bool) {
		if len(fs) == 0 {
			return vc06Field{}, false
		}
		return fs[rapid.IntRange(0, len(fs)-1).Draw(t, "fieldidx")], true
	}
	kind := rapid.SampledFrom([]string{"none", "truncate-boundary", "truncate-any", "keyN", "offset", "type", "card", "runcount", "magic", "tiny", "flip", "key", "append"}).Draw(t, "mutation")
	switch kind {
	case "none":
	case "truncate-boundary":
		b := enc.Bounds[rapid.IntRange(0, len(enc.Bounds)-1).Draw(t, "bound")] + rapid.IntRange(-1, 1).Draw(t, "delta")
		if b < 0 {
			b = 0
		}
		if b > len(d) {
			b = len(d)
		}
		d = d[:b]
	case "truncate-any":
		d = d[:rapid.IntRange(0, len(d)).Draw(t, "cut")]
	case "keyN":
		if f, ok := pick(fieldsNamed("keyN")); ok {
			cur := uint64(len(fieldsNamed("key")) - len(fieldsNamed("keyN")))
			v := rapid.SampledFrom([]uint64{0, cur + 1, cur * 2, cur * 16, 1 << 16, 1<<16 + 1, 1 << 24, 0xffffffff, 0xffff}).Draw(t, "keyNval")
			put(f, v)
		}
	case "offset":
		if f, ok := pick(fieldsNamed("offset")); ok {
			l := uint64(len(d))
			v := rapid.SampledFrom([]uint64{0, 1, 7, 8, l - 2, l - 1, l, l + 1, 0xffffffff, 0xfffffffe, 0x7fffffff}).Draw(t, "offval")
			if rapid.IntRange(0, 3).Draw(t, "offrand") == 0 {
				v = uint64(rapid.IntRange(0, len(d)+4).Draw(t, "offany"))
			}
			put(f, v)
		}
	case "type":
		if f, ok := pick(fieldsNamed("type")); ok {
			put(f, rapid.SampledFrom([]uint64{0, 1, 2, 3, 4, 255, 256, 0xffff}).Draw(t, "typeval"))
		}
	case "card":
		if f, ok := pick(fieldsNamed("card")); ok {
			put(f, rapid.SampledFrom([]uint64{0, 1, 4094, 4095, 4096, 65534, 65535}).Draw(t, "cardval"))
		}
	case "runcount":
		if f, ok := pick(fieldsNamed("runcount")); ok {
			put(f, rapid.SampledFrom([]uint64{0, 1, 2047, 2048, 2049, 32768, 65535}).Draw(t, "rcval"))
		}
	case "magic":
		v := rapid.SampledFrom([]uint64{0, 12345, 12346, 12347, 12348, 12349, 0xffff}).Draw(t, "magicval")
		binary.LittleEndian.PutUint16(d[0:], uint16(v))
		if rapid.Bool().Draw(t, "version") && len(d) > 2 {
			d[2] = rapid.Byte().Draw(t, "versionval")
		}
	case "tiny":
		d = d[:rapid.IntRange(0, 9).Draw(t, "tinylen")%(len(d)+1)]
	case "flip":
		n := rapid.IntRange(1, 4).Draw(t, "nflip")
		for i := 0; i < n; i++ {
			d[rapid.IntRange(0, len(d)-1).Draw(t, "pos")] = rapid.Byte().Draw(t, "byte")
		}
	case "key":
		if f, ok := pick(fieldsNamed("key")); ok && f.Name[:4] != "keyN" {
			put(f, rapid.SampledFrom([]uint64{0, 1, 0xffff, 1 << 32, 1<<48 - 1, 1 << 48, 0xffffffffffffffff}).Draw(t, "keyval"))
		}
	case "append":
		d = append(d, rapid.SliceOfN(rapid.Byte(), 1, 20).Draw(t, "tail")...)
	}
	return d, kind
}

// vc06GenPayload: a mutated valid encoding (usually) or raw random bytes.
func vc06GenPayload(t *rapid.T) (data []byte, label string, seed []vc06Cont, unmutated bool) {
	if rapid.IntRange(0, 9).Draw(t, "raw") == 0 {
		return rapid.SliceOfN(rapid.Byte(), 0, 40).Draw(t, "rawbytes"), "random", nil, false
	}
	enc, conts := vc06GenEnc(t)
	d, kind := vc06Mutate(t, enc)
	if rapid.IntRange(0, 5).Draw(t, "second") == 0 {
		enc2 := enc
		enc2.Data = d
		if len(d) == len(enc.Data) {
			var k2 string
			d, k2 = vc06Mutate(t, enc2)
			kind += "+" + k2
		}
	}
	return d, enc.Format + ":" + kind, conts, kind == "none"
}

// ---- reference reading of an import payload (container section only), strict: it answers whether the bytes are a
// well-formed *and internally consistent* roaring encoding (cardinalities match the data, arrays and runs sorted and
// disjoint, keys increasing). Used as the signature of finding DP10 (inconsistent data is accepted) and as a
// cross-check of the decoder on consistent inputs.

const (
	vc06RefConsistent = "consistent"
	vc06RefMalformed  = "malformed"
	vc06RefDubious    = "inconsistent"
)

func vc06RefContainer(d []byte, off int, typ int, card int, official bool) (vals []uint16, size int, status string) {
	switch typ {
	case 1:
		size = 2 * card
		if off < 0 || off+size > len(d) {
			return nil, 0, vc06RefMalformed
		}
		for i := 0; i < card; i++ {
			v := binary.LittleEndian.Uint16(d[off+2*i:])
			if i > 0 && v <= vals[i-1] {
				return nil, size, vc06RefDubious
			}
			vals = append(vals, v)
		}
		return vals, size, vc06RefConsistent
	case 2:
		size = 8192
		if off < 0 || off+size > len(d) {
			return nil, 0, vc06RefMalformed
		}
		for i := 0; i < 65536; i++ {
			if d[off+i/8]&(1<<(uint(i)%8)) != 0 {
				vals = append(vals, uint16(i))
			}
		}
		if len(vals) != card {
			return nil, size, vc06RefDubious
		}
		return vals, size, vc06RefConsistent
	case 3:
		if off < 0 || off+2 > len(d) {
			return nil, 0, vc06RefMalformed
		}
		n := int(binary.LittleEndian.Uint16(d[off:]))
		size = 2 + 4*n
		if off+size > len(d) {
			return nil, 0, vc06RefMalformed
		}
		prevLast := -1
		for i := 0; i < n; i++ {
			s := int(binary.LittleEndian.Uint16(d[off+2+4*i:]))
			l := int(binary.LittleEndian.Uint16(d[off+4+4*i:]))
			if official {
				l = s + l
			}
			if l < s || l > 65535 || s <= prevLast {
				return nil, size, vc06RefDubious
			}
			for v := s; v <= l; v++ {
				vals = append(vals, uint16(v))
			}
			prevLast = l
		}
		if len(vals) != card || n == 0 {
			return nil, size, vc06RefDubious
		}
		return vals, size, vc06RefConsistent
	}
	return nil, 0, vc06RefMalformed
}

func vc06RefDecode(d []byte) (vals []uint64, status string) {
	if len(d) < 8 {
		return nil, vc06RefMalformed
	}
	magic := binary.LittleEndian.Uint16(d)
	switch magic {
	case 12348:
		if d[2] != 0 {
			return nil, vc06RefMalformed
		}
		n := int(binary.LittleEndian.Uint32(d[4:]))
		if n > (len(d)-8)/16 {
			return nil, vc06RefMalformed
		}
		prevKey := uint64(0)
		for i := 0; i < n; i++ {
			h := 8 + 12*i
			key := binary.LittleEndian.Uint64(d[h:])
			typ := int(binary.LittleEndian.Uint16(d[h+8:]))
			card := int(binary.LittleEndian.Uint16(d[h+10:])) + 1
			off := int(binary.LittleEndian.Uint32(d[8+12*n+4*i:]))
			if off < 8+16*n {
				return nil, vc06RefDubious // container data overlapping the headers
			}
			if i > 0 && key <= prevKey {
				return nil, vc06RefDubious
			}
			prevKey = key
			if key >= 1<<48 {
				return nil, vc06RefDubious
			}
			cv, _, st := vc06RefContainer(d, off, typ, card, false)
			if st != vc06RefConsistent {
				return nil, st
			}
			for _, v := range cv {
				vals = append(vals, key<<16|uint64(v))
			}
		}
		return vals, vc06RefConsistent
	case 12346, 12347:
		cookie := binary.LittleEndian.Uint32(d)
		var n, pos int
		var runBM []byte
		if cookie == 12346 {
			n = int(binary.LittleEndian.Uint32(d[4:]))
			pos = 8
		} else {
			n = int(cookie>>16) + 1
			pos = 4
			if pos+(n+7)/8 > len(d) {
				return nil, vc06RefMalformed
			}
			runBM = d[pos : pos+(n+7)/8]
			pos += (n + 7) / 8
			if n >= 4 {
				return nil, vc06RefDubious // an offset header follows (RoaringFormatSpec); the generators stay below 4 containers
			}
		}
		if n > 1<<16 || pos+4*n > len(d) {
			return nil, vc06RefMalformed
		}
		hdr := pos
		pos += 4 * n
		offs := -1
		if runBM == nil {
			offs = pos
			if pos+4*n > len(d) {
				return nil, vc06RefMalformed
			}
			pos += 4 * n
		}
		prevKey := -1
		for i := 0; i < n; i++ {
			key := int(binary.LittleEndian.Uint16(d[hdr+4*i:]))
			card := int(binary.LittleEndian.Uint16(d[hdr+4*i+2:])) + 1
			if key <= prevKey {
				return nil, vc06RefDubious
			}
			prevKey = key
			typ := 1
			if card > 4096 { // RoaringFormatSpec: an array container holds up to 4096 values
				typ = 2
			}
			if runBM != nil && runBM[i/8]&(1<<(uint(i)%8)) != 0 {
				typ = 3
			}
			off := pos
			if offs >= 0 {
				off = int(binary.LittleEndian.Uint32(d[offs+4*i:]))
				if off < pos {
					return nil, vc06RefDubious
				}
			}
			cv, size, st := vc06RefContainer(d, off, typ, card, true)
			if st != vc06RefConsistent {
				return nil, st
			}
			if offs < 0 {
				pos += size
			}
			for _, v := range cv {
				vals = append(vals, uint64(key)<<16|uint64(v))
			}
		}
		return vals, vc06RefConsistent
	}
	return nil, vc06RefMalformed
}

// vc06LabelClasses splits a payload label ("pilosa:none+keyN", "random", "len1") into histogram classes.
func vc06LabelClasses(label string) []string {
	i := strings.Index(label, ":")
	if i < 0 {
		return []string{"payload:" + label}
	}
	out := []string{"format:" + label[:i]}
	for _, m := range strings.Split(label[i+1:], "+") {
		out = append(out, "mut:"+m)
	}
	return out
}

// vc06ErrLabel turns an error text into a class: digits removed, cut to a stable prefix.
func vc06ErrLabel(err error) string {
	if err == nil {
		return "accepted"
	}
	var sb strings.Builder
	for _, r := range err.Error() {
		if r >= '0' && r <= '9' {
			continue
		}
		sb.WriteRune(r)
		if sb.Len() >= 44 {
			break
		}
	}
	return "rejected:" + sb.String()
}
