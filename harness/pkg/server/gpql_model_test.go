package server_test

// gpql — shared by C15 and C16 (group gQ2).
//
//   * vq2Env:   one long-lived single-node server per test process, a fresh index per generated case.
//   * vq2Model: naive reference model of an index (map[field]map[row]set(col), per-bit timestamps for time
//               fields, map[col]int64 for int fields, existence set).
//   * vq2Op:    write operations (Set / Set with timestamp / Set int / Clear / ClearRow / Store) with their PQL text
//               and their effect on the model.
//   * vq2Expr:  grammar-directed PQL bitmap expressions with a model interpreter.
//
// The oracle is grounded in docs/query-language.md.

import (
	"context"
	"fmt"
	"sort"
	"strings"
	"time"

	"github.com/pilosa/pilosa"
	"github.com/pilosa/pilosa/test"
	"pgregory.net/rapid"
)

const vq2SW = uint64(pilosa.ShardWidth)

// vq2T is what the helpers need from *testing.T / *rapid.T.
type vq2T interface {
	Fatalf(format string, args ...interface{})
	Logf(format string, args ...interface{})
}

// ---------------------------------------------------------------------------------------------------------------------
// server

type vq2Env struct {
	cmd   *test.Command
	seq   int
	dropq chan func()
	done  chan struct{}
}

func vq2Start() *vq2Env {
	e := &vq2Env{cmd: test.MustRunCommand(), dropq: make(chan func(), 4096), done: make(chan struct{})}
	// indexes of finished cases are deleted in the background (closing ~30 fragments costs more than a whole case)
	go func() {
		for f := range e.dropq {
			f()
		}
		close(e.done)
	}()
	return e
}

func (e *vq2Env) Close() {
	if e.cmd != nil {
		close(e.dropq)
		<-e.done
		e.cmd.Close()
		e.cmd = nil
	}
}

// restart replaces the server after a query that did not return (its worker goroutines may be stuck forever).
func (e *vq2Env) restart() {
	old := e.cmd
	e.cmd = test.MustRunCommand()
	go old.Close()
}

// vq2QueryTimeout bounds one query over a handful of bits. It only serves to turn a query that never returns into a
// reported failure instead of a test-binary timeout; no result depends on it.
const vq2QueryTimeout = 40 * time.Second

func (e *vq2Env) query(index, q string) ([]interface{}, error) {
	return e.queryTimeout(index, q, vq2QueryTimeout)
}

func (e *vq2Env) queryTimeout(index, q string, timeout time.Duration) ([]interface{}, error) {
	ctx, cancel := context.WithTimeout(context.Background(), timeout)
	defer cancel()
	type res struct {
		r   pilosa.QueryResponse
		err error
	}
	ch := make(chan res, 1)
	go func() {
		r, err := e.cmd.API.Query(ctx, &pilosa.QueryRequest{Index: index, Query: q})
		ch <- res{r, err}
	}()
	select {
	case r := <-ch:
		if r.err != nil && ctx.Err() != nil {
			e.restart()
			return nil, vq2ErrHang{q, timeout}
		}
		return r.r.Results, r.err
	case <-time.After(timeout + 10*time.Second):
		e.restart()
		return nil, vq2ErrHang{q, timeout}
	}
}

type vq2ErrHang struct {
	q string
	d time.Duration
}

func (h vq2ErrHang) Error() string {
	return fmt.Sprintf("query did not return within %v: %s", h.d, h.q)
}

func vq2IsHang(err error) bool { _, ok := err.(vq2ErrHang); return ok }

// mustQuery1 runs one call and returns its single result.
func (e *vq2Env) mustQuery1(t vq2T, index, q string) interface{} {
	rs, err := e.query(index, q)
	if err != nil {
		t.Fatalf("query %s: unexpected error: %v", q, err)
	}
	if len(rs) != 1 {
		t.Fatalf("query %s: %d results, want 1", q, len(rs))
	}
	return rs[0]
}

// create makes a fresh index with the fields of m and returns its name.
func (e *vq2Env) create(t vq2T, prefix string, m *vq2Model) string {
	e.seq++
	name := fmt.Sprintf("%s%d", prefix, e.seq)
	ctx := context.Background()
	if _, err := e.cmd.API.CreateIndex(ctx, name, pilosa.IndexOptions{TrackExistence: m.Track}); err != nil {
		t.Fatalf("creating index %s: %v", name, err)
	}
	for _, f := range m.Fields {
		var opt pilosa.FieldOption
		switch f.Kind {
		case "set":
			opt = pilosa.OptFieldTypeSet(f.Cache, 100)
		case "time":
			opt = pilosa.OptFieldTypeTime(pilosa.TimeQuantum(f.Quantum), f.NoStd)
		case "int":
			opt = pilosa.OptFieldTypeInt(f.Min, f.Max)
		case "mutex":
			opt = pilosa.OptFieldTypeMutex(pilosa.CacheTypeRanked, 100)
		case "bool":
			opt = pilosa.OptFieldTypeBool()
		default:
			t.Fatalf("harness: unknown field kind %q", f.Kind)
		}
		if _, err := e.cmd.API.CreateField(ctx, name, f.Name, opt); err != nil {
			t.Fatalf("creating field %s (%s): %v", f.Name, f.Kind, err)
		}
	}
	return name
}

func (e *vq2Env) drop(index string) {
	cmd := e.cmd
	if cmd != nil {
		e.dropq <- func() { _ = cmd.API.DeleteIndex(context.Background(), index) }
	}
}

// ---------------------------------------------------------------------------------------------------------------------
// sets

type vq2Set map[uint64]bool

func (s vq2Set) sorted() []uint64 {
	out := make([]uint64, 0, len(s))
	for c := range s {
		out = append(out, c)
	}
	sort.Slice(out, func(i, j int) bool { return out[i] < out[j] })
	return out
}

func (s vq2Set) clone() vq2Set {
	o := vq2Set{}
	for c := range s {
		o[c] = true
	}
	return o
}

func vq2EqU64(a, b []uint64) bool {
	if len(a) != len(b) {
		return false
	}
	for i := range a {
		if a[i] != b[i] {
			return false
		}
	}
	return true
}

func vq2Shards(cols []uint64) map[uint64]bool {
	m := map[uint64]bool{}
	for _, c := range cols {
		m[c/vq2SW] = true
	}
	return m
}

// vq2Cols prints a column list relative to shard edges (readable failure messages).
func vq2Cols(cols []uint64) string {
	var sb strings.Builder
	sb.WriteString("[")
	for i, c := range cols {
		if i > 0 {
			sb.WriteString(" ")
		}
		if c >= vq2SW {
			fmt.Fprintf(&sb, "%d*SW+%d", c/vq2SW, c%vq2SW)
		} else {
			fmt.Fprintf(&sb, "%d", c)
		}
	}
	sb.WriteString("]")
	return sb.String()
}

// ---------------------------------------------------------------------------------------------------------------------
// model

type vq2Field struct {
	Name     string
	Kind     string // set | time | int | mutex | bool
	Cache    string
	Quantum  string
	NoStd    bool
	Min, Max int64
	RowPool  []uint64

	std  map[uint64]vq2Set                 // standard view: row -> cols
	tv   map[uint64]map[uint64][]time.Time // time views: row -> col -> timestamps the bit was set with
	ints map[uint64]int64
}

type vq2Model struct {
	Track  bool
	Fields []*vq2Field
	exist  vq2Set
}

func (m *vq2Model) field(name string) *vq2Field {
	for _, f := range m.Fields {
		if f.Name == name {
			return f
		}
	}
	return nil
}

func (m *vq2Model) addField(f *vq2Field) *vq2Field {
	f.std = map[uint64]vq2Set{}
	f.tv = map[uint64]map[uint64][]time.Time{}
	f.ints = map[uint64]int64{}
	if f.Kind == "set" && f.Cache == "" {
		f.Cache = pilosa.CacheTypeRanked
	}
	m.Fields = append(m.Fields, f)
	return f
}

func (f *vq2Field) has(row, col uint64) bool { return f.std[row][col] }

func (f *vq2Field) setStd(row, col uint64) bool {
	if f.std[row] == nil {
		f.std[row] = vq2Set{}
	}
	if f.std[row][col] {
		return false
	}
	f.std[row][col] = true
	return true
}

func (f *vq2Field) clearStd(row, col uint64) bool {
	if !f.std[row][col] {
		return false
	}
	delete(f.std[row], col)
	if len(f.std[row]) == 0 {
		delete(f.std, row)
	}
	return true
}

// rowStd returns the standard-view columns of a row (a copy).
func (f *vq2Field) rowStd(row uint64) vq2Set { return f.std[row].clone() }

// rowRange returns the columns of a row set with a timestamp in [from,to); nil bounds are open.
func (f *vq2Field) rowRange(row uint64, from, to *time.Time) vq2Set {
	out := vq2Set{}
	for col, tss := range f.tv[row] {
		for _, ts := range tss {
			if vq2InRange(ts, from, to) {
				out[col] = true
				break
			}
		}
	}
	return out
}

func vq2InRange(ts time.Time, from, to *time.Time) bool {
	if from != nil && ts.Before(*from) {
		return false
	}
	if to != nil && !ts.Before(*to) {
		return false
	}
	return true
}

// rowIDsStd: rows with at least one bit in the standard view, ascending.
func (f *vq2Field) rowIDsStd() []uint64 {
	var out []uint64
	for r, s := range f.std {
		if len(s) > 0 {
			out = append(out, r)
		}
	}
	sort.Slice(out, func(i, j int) bool { return out[i] < out[j] })
	return out
}

// allRows: every row id that has any bit anywhere (standard or time views), ascending.
func (f *vq2Field) allRows() []uint64 {
	seen := vq2Set{}
	for r, s := range f.std {
		if len(s) > 0 {
			seen[r] = true
		}
	}
	for r, cs := range f.tv {
		if len(cs) > 0 {
			seen[r] = true
		}
	}
	return seen.sorted()
}

// ---------------------------------------------------------------------------------------------------------------------
// write operations

type vq2Op struct {
	Kind  string // set | setint | clear | clearrow | store
	Field string
	Row   uint64
	Col   uint64
	TS    *time.Time
	Val   int64
	Src   *vq2Expr
}

const vq2TimeFmt = "2006-01-02T15:04"

func vq2RowText(f *vq2Field, row uint64) string {
	if f != nil && f.Kind == "bool" {
		if row == 1 {
			return "true"
		}
		return "false"
	}
	return fmt.Sprint(row)
}

func (o vq2Op) pql(m *vq2Model) string {
	f := m.field(o.Field)
	switch o.Kind {
	case "set":
		if o.TS != nil {
			return fmt.Sprintf("Set(%d, %s=%s, %s)", o.Col, o.Field, vq2RowText(f, o.Row), o.TS.Format(vq2TimeFmt))
		}
		return fmt.Sprintf("Set(%d, %s=%s)", o.Col, o.Field, vq2RowText(f, o.Row))
	case "setint":
		return fmt.Sprintf("Set(%d, %s=%d)", o.Col, o.Field, o.Val)
	case "clear":
		return fmt.Sprintf("Clear(%d, %s=%s)", o.Col, o.Field, vq2RowText(f, o.Row))
	case "clearrow":
		return fmt.Sprintf("ClearRow(%s=%s)", o.Field, vq2RowText(f, o.Row))
	case "store":
		return fmt.Sprintf("Store(%s, %s=%d)", o.Src.pql(m), o.Field, o.Row)
	}
	panic("harness: bad op kind " + o.Kind)
}

// apply changes the model as documented and returns the documented boolean result; checkable is false where the
// documentation does not pin the boolean down (Set with a timestamp: several views are written by one call).
func (m *vq2Model) apply(o vq2Op) (want bool, checkable bool) {
	f := m.field(o.Field)
	switch o.Kind {
	case "set":
		if m.Track {
			m.exist[o.Col] = true
		}
		changed := false
		if f.Kind == "mutex" || f.Kind == "bool" {
			for r := range f.std {
				if r != o.Row && f.std[r][o.Col] {
					f.clearStd(r, o.Col)
				}
			}
		}
		if !f.NoStd {
			changed = f.setStd(o.Row, o.Col)
		}
		if o.TS != nil && f.Kind == "time" {
			if f.tv[o.Row] == nil {
				f.tv[o.Row] = map[uint64][]time.Time{}
			}
			f.tv[o.Row][o.Col] = append(f.tv[o.Row][o.Col], o.TS.Truncate(time.Hour))
			return changed, false
		}
		return changed, !f.NoStd
	case "setint":
		if m.Track {
			m.exist[o.Col] = true
		}
		old, ok := f.ints[o.Col]
		f.ints[o.Col] = o.Val
		return !ok || old != o.Val, true
	case "clear":
		changed := f.clearStd(o.Row, o.Col)
		hadTime := false
		if cs := f.tv[o.Row]; cs != nil {
			if len(cs[o.Col]) > 0 {
				hadTime = true
			}
			delete(cs, o.Col)
			if len(cs) == 0 {
				delete(f.tv, o.Row)
			}
		}
		// "Note that clearing a column on a time field will remove all data for that column."
		return changed || hadTime, true
	case "clearrow":
		changed := len(f.std[o.Row]) > 0 || len(f.tv[o.Row]) > 0
		delete(f.std, o.Row)
		delete(f.tv, o.Row)
		return changed, true
	case "store":
		ev := m.eval(o.Src, true)
		delete(f.std, o.Row)
		if len(ev.set) > 0 {
			f.std[o.Row] = ev.set.clone()
		}
		return true, true
	}
	panic("harness: bad op kind " + o.Kind)
}

// ---------------------------------------------------------------------------------------------------------------------
// expressions

type vq2Expr struct {
	Op    string // row | rowt | rowi | union | intersect | difference | xor | not | shift
	Field string
	Row   uint64
	From  *time.Time
	To    *time.Time
	Cond  string // > < >= <= == != notnull between
	V1    int64
	V2    int64
	LoEq  bool // between: lower bound inclusive
	HiEq  bool // between: upper bound inclusive
	N     int
	Kids  []*vq2Expr
}

var vq2OpNames = map[string]string{"union": "Union", "intersect": "Intersect", "difference": "Difference", "xor": "Xor", "not": "Not"}

func (e *vq2Expr) pql(m *vq2Model) string {
	switch e.Op {
	case "row":
		return fmt.Sprintf("Row(%s=%s)", e.Field, vq2RowText(m.field(e.Field), e.Row))
	case "rowt":
		s := fmt.Sprintf("Row(%s=%d", e.Field, e.Row)
		if e.From != nil {
			s += fmt.Sprintf(", from='%s'", e.From.Format(vq2TimeFmt))
		}
		if e.To != nil {
			s += fmt.Sprintf(", to='%s'", e.To.Format(vq2TimeFmt))
		}
		return s + ")"
	case "rowi":
		switch e.Cond {
		case "notnull":
			return fmt.Sprintf("Row(%s != null)", e.Field)
		case "between":
			lo, hi := "<", "<"
			if e.LoEq {
				lo = "<="
			}
			if e.HiEq {
				hi = "<="
			}
			return fmt.Sprintf("Row(%d %s %s %s %d)", e.V1, lo, e.Field, hi, e.V2)
		}
		return fmt.Sprintf("Row(%s %s %d)", e.Field, e.Cond, e.V1)
	case "shift":
		return fmt.Sprintf("Shift(%s, n=%d)", e.Kids[0].pql(m), e.N)
	}
	parts := make([]string, len(e.Kids))
	for i, k := range e.Kids {
		parts[i] = k.pql(m)
	}
	return vq2OpNames[e.Op] + "(" + strings.Join(parts, ", ") + ")"
}

func (e *vq2Expr) depth() int {
	d := 0
	for _, k := range e.Kids {
		if kd := k.depth(); kd > d {
			d = kd
		}
	}
	return d + 1
}

func (e *vq2Expr) ops(into map[string]bool) {
	into[e.Op] = true
	for _, k := range e.Kids {
		k.ops(into)
	}
}

// vq2Eval is the result of interpreting an expression over the model.
type vq2Eval struct {
	set     vq2Set
	mustErr bool // the documentation requires a feature that is off (Not without existence tracking)
	mayErr  bool // refers to a field that does not exist: an error is fine; a result must treat it as empty
	d18     bool // a Shift that carries a bit over a shard edge sits below a per-shard operator (finding D18)
	carry   bool // some Shift carried a bit over a shard edge (anywhere)
	edge    bool // some Shift operand had a bit on the last column of a container
	leafSh  map[uint64]bool
	notGap  bool // Not evaluated while some shard with existence data holds no bit of the operand
}

// eval interprets e. underOp tells whether the value is consumed per shard by something other than the final
// merge (an enclosing operator, Store, a filter).
func (m *vq2Model) eval(e *vq2Expr, underOp bool) *vq2Eval {
	ev := &vq2Eval{leafSh: map[uint64]bool{}}
	ev.set = m.evalRec(e, underOp, ev)
	return ev
}

func (m *vq2Model) evalRec(e *vq2Expr, underOp bool, ev *vq2Eval) vq2Set {
	leaf := func(s vq2Set) vq2Set {
		for c := range s {
			ev.leafSh[c/vq2SW] = true
		}
		return s
	}
	switch e.Op {
	case "row":
		f := m.field(e.Field)
		if f == nil {
			ev.mayErr = true
			return vq2Set{}
		}
		return leaf(f.rowStd(e.Row))
	case "rowt":
		f := m.field(e.Field)
		if f == nil {
			ev.mayErr = true
			return vq2Set{}
		}
		return leaf(f.rowRange(e.Row, e.From, e.To))
	case "rowi":
		f := m.field(e.Field)
		if f == nil {
			ev.mayErr = true
			return vq2Set{}
		}
		out := vq2Set{}
		for c, v := range f.ints {
			ok := false
			switch e.Cond {
			case ">":
				ok = v > e.V1
			case "<":
				ok = v < e.V1
			case ">=":
				ok = v >= e.V1
			case "<=":
				ok = v <= e.V1
			case "==":
				ok = v == e.V1
			case "!=":
				ok = v != e.V1
			case "notnull":
				ok = true
			case "between":
				ok = (v > e.V1 || (e.LoEq && v == e.V1)) && (v < e.V2 || (e.HiEq && v == e.V2))
			}
			if ok {
				out[c] = true
			}
		}
		return leaf(out)
	case "union":
		out := vq2Set{}
		for _, k := range e.Kids {
			for c := range m.evalRec(k, true, ev) {
				out[c] = true
			}
		}
		return out
	case "intersect":
		var out vq2Set
		for i, k := range e.Kids {
			s := m.evalRec(k, true, ev)
			if i == 0 {
				out = s.clone()
				continue
			}
			for c := range out {
				if !s[c] {
					delete(out, c)
				}
			}
		}
		return out
	case "difference":
		var out vq2Set
		for i, k := range e.Kids {
			s := m.evalRec(k, true, ev)
			if i == 0 {
				out = s.clone()
				continue
			}
			for c := range s {
				delete(out, c)
			}
		}
		return out
	case "xor":
		var out vq2Set
		for i, k := range e.Kids {
			s := m.evalRec(k, true, ev)
			if i == 0 {
				out = s.clone()
				continue
			}
			for c := range s {
				if out[c] {
					delete(out, c)
				} else {
					out[c] = true
				}
			}
		}
		return out
	case "not":
		s := m.evalRec(e.Kids[0], true, ev)
		if !m.Track {
			ev.mustErr = true
			return vq2Set{}
		}
		opSh := vq2Shards(s.sorted())
		for sh := range vq2Shards(m.exist.sorted()) {
			if !opSh[sh] {
				ev.notGap = true
			}
		}
		out := m.exist.clone()
		for c := range s {
			delete(out, c)
		}
		return out
	case "shift":
		s := m.evalRec(e.Kids[0], underOp, ev)
		out := vq2Set{}
		for c := range s {
			n := c + uint64(e.N)
			out[n] = true
			if e.N > 0 && c/vq2SW != n/vq2SW {
				ev.carry = true
				if underOp {
					ev.d18 = true
				}
			}
			if e.N > 0 && c>>16 != n>>16 {
				ev.edge = true
			}
		}
		return out
	}
	panic("harness: bad expr op " + e.Op)
}

// ---------------------------------------------------------------------------------------------------------------------
// generators

// vq2ShardLayouts: shard sets of a generated index (adjacent shards for carries, gaps for non-contiguous data).
var vq2ShardLayouts = [][]uint64{
	{0}, {0, 1}, {0, 1}, {0, 1, 2}, {1, 2}, {0, 2}, {0, 1, 3}, {0, 3, 4}, {1, 5}, {0, 1, 2, 3}, {0, 2, 5, 6}, {3},
}

var vq2EdgeOffsets = []uint64{0, 1, 2, 65535, 65536, 65537, vq2SW - 3, vq2SW - 2, vq2SW - 1}

var vq2RowUniverse = []uint64{0, 1, 2, 3, 7, 99, 100, 101, 1000}

// vq2GenCols draws the column pool of one case: columns on container and shard edges of the chosen shards.
func vq2GenCols(t *rapid.T) []uint64 {
	layout := rapid.SampledFrom(vq2ShardLayouts).Draw(t, "shards")
	seen := vq2Set{}
	for _, sh := range layout {
		n := rapid.IntRange(1, 4).Draw(t, "ncols")
		for i := 0; i < n; i++ {
			var off uint64
			if rapid.IntRange(0, 9).Draw(t, "edge?") < 8 {
				off = rapid.SampledFrom(vq2EdgeOffsets).Draw(t, "off")
			} else {
				off = rapid.Uint64Range(0, vq2SW-1).Draw(t, "off")
			}
			seen[sh*vq2SW+off] = true
		}
	}
	return seen.sorted()
}

func vq2GenRowPool(t *rapid.T, lo, hi int) []uint64 {
	n := rapid.IntRange(lo, hi).Draw(t, "nrows")
	seen := vq2Set{}
	for len(seen) < n {
		seen[rapid.SampledFrom(vq2RowUniverse).Draw(t, "row")] = true
	}
	return seen.sorted()
}

// vq2TimePool: timestamps around year/month/day/hour edges.
var vq2TimePool = func() []time.Time {
	var out []time.Time
	for _, s := range []string{
		"2016-12-31T23:00", "2017-01-01T00:00", "2017-01-01T01:30", "2017-01-02T00:00", "2017-01-31T23:00",
		"2017-02-01T00:00", "2017-02-28T12:00", "2017-03-01T13:00", "2017-06-15T10:00", "2017-06-15T11:00",
		"2017-12-31T23:59", "2018-01-01T00:00", "2018-02-03T04:05", "2018-02-03T17:00", "2019-07-04T00:00",
	} {
		ts, err := time.Parse(vq2TimeFmt, s)
		if err != nil {
			panic(err)
		}
		out = append(out, ts)
	}
	return out
}()

// vq2Quanta: every valid time quantum.
var vq2Quanta = []string{"YMDH", "YMD", "YM", "Y", "MDH", "MD", "D", "DH", "M", "H"}

func vq2SmallestUnit(q string) byte { return q[len(q)-1] }

// vq2Align truncates ts to the smallest unit of quantum q; ranges with aligned bounds select whole views, so their
// meaning is exactly "timestamps in [from,to)".
func vq2Align(ts time.Time, q string) time.Time {
	switch vq2SmallestUnit(q) {
	case 'Y':
		return time.Date(ts.Year(), 1, 1, 0, 0, 0, 0, time.UTC)
	case 'M':
		return time.Date(ts.Year(), ts.Month(), 1, 0, 0, 0, 0, time.UTC)
	case 'D':
		return time.Date(ts.Year(), ts.Month(), ts.Day(), 0, 0, 0, 0, time.UTC)
	}
	return time.Date(ts.Year(), ts.Month(), ts.Day(), ts.Hour(), 0, 0, 0, time.UTC)
}

func vq2AddUnit(ts time.Time, q string, n int) time.Time {
	switch vq2SmallestUnit(q) {
	case 'Y':
		return ts.AddDate(n, 0, 0)
	case 'M':
		return ts.AddDate(0, n, 0)
	case 'D':
		return ts.AddDate(0, 0, n)
	}
	return ts.Add(time.Duration(n) * time.Hour)
}

// vq2GenBound draws a range bound aligned to the field's smallest unit, near the pooled timestamps.
func vq2GenBound(t *rapid.T, f *vq2Field, label string) time.Time {
	base := rapid.SampledFrom(vq2TimePool).Draw(t, label)
	d := rapid.IntRange(-1, 2).Draw(t, label+".d")
	return vq2AddUnit(vq2Align(base, f.Quantum), f.Quantum, d)
}

// vq2IntRanges: declared (min,max) of the generated int field: around zero, one-sided, with a non-zero base.
var vq2IntRanges = [][2]int64{{-1000, 1000}, {-1000, 1000}, {0, 1000}, {-1000, 0}, {5, 1000}, {-1000, -5}, {-3, 3}, {-1 << 40, 1 << 40}}

func vq2Clamp(v, lo, hi int64) int64 {
	if v < lo {
		return lo
	}
	if v > hi {
		return hi
	}
	return v
}

// vq2GenIntVal draws a value to store: negative, zero, positive, the declared bounds, powers of two +-1.
func vq2GenIntVal(t *rapid.T, f *vq2Field, label string) int64 {
	v := rapid.OneOf(
		rapid.SampledFrom([]int64{0, 0, 1, -1, 2, -2, 3, 7, -7, 8, -8, 9, 100, -100, 255, 256, 999, 1000, -1000, f.Min, f.Max, f.Min + 1, f.Max - 1}),
		rapid.Int64Range(f.Min, f.Max),
		rapid.Int64Range(-20, 20),
	).Draw(t, label)
	return vq2Clamp(v, f.Min, f.Max)
}

// vq2GenIntPredicate draws a comparison value: 0, +-1, stored values and their neighbours, the declared bounds and
// their neighbours, far outside, anything.
func vq2GenIntPredicate(t *rapid.T, f *vq2Field, label string) int64 {
	var stored []int64
	seen := map[int64]bool{}
	for _, c := range vq2SortedIntCols(f) {
		if v := f.ints[c]; !seen[v] {
			seen[v] = true
			stored = append(stored, v)
		}
	}
	gens := []*rapid.Generator[int64]{
		rapid.SampledFrom([]int64{0, 0, 1, -1, 2, -2, f.Min, f.Min - 1, f.Min + 1, f.Max, f.Max + 1, f.Max - 1, 5000, -5000, 1 << 41, -(1 << 41)}),
		rapid.Int64Range(-1100, 1100),
	}
	if len(stored) > 0 {
		gens = append(gens, rapid.Custom(func(t *rapid.T) int64 {
			return rapid.SampledFrom(stored).Draw(t, "stored") + int64(rapid.IntRange(-1, 1).Draw(t, "d"))
		}))
		gens = append(gens, gens[len(gens)-1]) // weight
	}
	return rapid.OneOf(gens...).Draw(t, label)
}

func vq2SortedIntCols(f *vq2Field) []uint64 {
	s := vq2Set{}
	for c := range f.ints {
		s[c] = true
	}
	return s.sorted()
}

type vq2DataOpt struct {
	SetFields int  // number of set fields (s1..)
	Time      bool // time field t1
	TimeNoStd bool // allow noStandardView for t1
	Int       bool // int field n1 (range drawn from vq2IntRanges)
	Mutex     bool // mutex field m1
	Bool      bool // bool field b1
	MaxBits   int  // per field
	MinBits   int  // per set/time field
	RowsLo    int
	RowsHi    int
}

// vq2GenData draws the schema, the column pool and the initial Set program.
func vq2GenData(t *rapid.T, opt vq2DataOpt) (*vq2Model, []uint64, []vq2Op) {
	m := &vq2Model{Track: rapid.IntRange(0, 3).Draw(t, "track") > 0, exist: vq2Set{}}
	cols := vq2GenCols(t)
	var ops []vq2Op
	col := func() uint64 { return rapid.SampledFrom(cols).Draw(t, "col") }
	for i := 1; i <= opt.SetFields; i++ {
		f := m.addField(&vq2Field{Name: fmt.Sprintf("s%d", i), Kind: "set",
			Cache: rapid.SampledFrom([]string{pilosa.CacheTypeRanked, pilosa.CacheTypeRanked, pilosa.CacheTypeNone, pilosa.CacheTypeLRU}).Draw(t, "cache")})
		f.RowPool = vq2GenRowPool(t, opt.RowsLo, opt.RowsHi)
		n := rapid.IntRange(opt.MinBits, opt.MaxBits).Draw(t, "nbits")
		for j := 0; j < n; j++ {
			ops = append(ops, vq2Op{Kind: "set", Field: f.Name, Row: rapid.SampledFrom(f.RowPool).Draw(t, "row"), Col: col()})
		}
	}
	if opt.Time {
		f := m.addField(&vq2Field{Name: "t1", Kind: "time", Quantum: rapid.SampledFrom(vq2Quanta).Draw(t, "quantum")})
		if opt.TimeNoStd {
			f.NoStd = rapid.IntRange(0, 4).Draw(t, "nostd") == 0
		}
		f.RowPool = vq2GenRowPool(t, opt.RowsLo, opt.RowsHi)
		n := rapid.IntRange(opt.MinBits, opt.MaxBits).Draw(t, "nbits")
		for j := 0; j < n; j++ {
			o := vq2Op{Kind: "set", Field: f.Name, Row: rapid.SampledFrom(f.RowPool).Draw(t, "row"), Col: col()}
			if rapid.IntRange(0, 4).Draw(t, "ts?") > 0 {
				ts := rapid.SampledFrom(vq2TimePool).Draw(t, "ts")
				o.TS = &ts
			}
			ops = append(ops, o)
		}
	}
	if opt.Int {
		rng := rapid.SampledFrom(vq2IntRanges).Draw(t, "intRange")
		f := m.addField(&vq2Field{Name: "n1", Kind: "int", Min: rng[0], Max: rng[1]})
		n := rapid.IntRange(0, opt.MaxBits).Draw(t, "nvals")
		for j := 0; j < n; j++ {
			ops = append(ops, vq2Op{Kind: "setint", Field: f.Name, Col: col(), Val: vq2GenIntVal(t, f, "val")})
		}
	}
	if opt.Mutex {
		f := m.addField(&vq2Field{Name: "m1", Kind: "mutex"})
		f.RowPool = vq2GenRowPool(t, 2, 3)
		n := rapid.IntRange(0, opt.MaxBits).Draw(t, "nbits")
		for j := 0; j < n; j++ {
			ops = append(ops, vq2Op{Kind: "set", Field: f.Name, Row: rapid.SampledFrom(f.RowPool).Draw(t, "row"), Col: col()})
		}
	}
	if opt.Bool {
		f := m.addField(&vq2Field{Name: "b1", Kind: "bool"})
		f.RowPool = []uint64{0, 1}
		n := rapid.IntRange(0, opt.MaxBits/2).Draw(t, "nbits")
		for j := 0; j < n; j++ {
			ops = append(ops, vq2Op{Kind: "set", Field: f.Name, Row: uint64(rapid.IntRange(0, 1).Draw(t, "b")), Col: col()})
		}
	}
	// interleave the per-field programs (order matters for mutex/bool and is otherwise irrelevant)
	if len(ops) > 1 {
		perm := rapid.Permutation(ops).Draw(t, "order")
		ops = perm
	}
	return m, cols, ops
}

// load applies ops to the model and to the server (one request), checking nothing but success.
func (e *vq2Env) load(t vq2T, index string, m *vq2Model, ops []vq2Op) {
	if len(ops) == 0 {
		return
	}
	var sb strings.Builder
	for _, o := range ops {
		sb.WriteString(o.pql(m))
		m.apply(o)
	}
	if _, err := e.query(index, sb.String()); err != nil {
		t.Fatalf("loading data: %v\n%s", err, sb.String())
	}
}

// vq2ExprGen generates expressions over a model.
type vq2ExprGen struct {
	m        *vq2Model
	cols     []uint64
	maxDepth int
	noNot    bool // never generate Not (callers that cannot accept an error)
	noMiss   bool // never refer to a missing field
}

func (g *vq2ExprGen) leaf(t *rapid.T) *vq2Expr {
	var cands []*vq2Field
	for _, f := range g.m.Fields {
		cands = append(cands, f)
	}
	if !g.noMiss && rapid.IntRange(0, 149).Draw(t, "missingField?") == 0 {
		return &vq2Expr{Op: "row", Field: "nofield", Row: 1}
	}
	f := rapid.SampledFrom(cands).Draw(t, "field")
	row := func() uint64 {
		if f.Kind != "bool" && rapid.IntRange(0, 11).Draw(t, "missingRow?") == 0 {
			return rapid.SampledFrom([]uint64{4, 5, 98, 102, 5000}).Draw(t, "row")
		}
		return rapid.SampledFrom(f.RowPool).Draw(t, "row")
	}
	switch f.Kind {
	case "int":
		e := &vq2Expr{Op: "rowi", Field: f.Name}
		e.Cond = rapid.SampledFrom([]string{">", "<", ">=", "<=", "==", "!=", "notnull", "between"}).Draw(t, "cond")
		val := func(l string) int64 { return vq2GenIntPredicate(t, f, l) }
		e.V1 = val("v1")
		if e.Cond == "between" {
			e.V2 = val("v2")
			// mostly lo <= hi; now and then an inverted (empty) interval
			if e.V2 < e.V1 && rapid.IntRange(0, 7).Draw(t, "inverted?") > 0 {
				e.V1, e.V2 = e.V2, e.V1
			}
			e.LoEq = rapid.Bool().Draw(t, "loeq")
			e.HiEq = rapid.Bool().Draw(t, "hieq")
		}
		return e
	case "time":
		mode := rapid.IntRange(0, 9).Draw(t, "tmode")
		if f.NoStd && mode < 3 {
			mode = 5 // plain Row on a field without standard view is not documented: always use a range
		}
		if mode < 3 {
			return &vq2Expr{Op: "row", Field: f.Name, Row: row()}
		}
		e := &vq2Expr{Op: "rowt", Field: f.Name, Row: row()}
		from := vq2GenBound(t, f, "from")
		to := vq2GenBound(t, f, "to")
		if to.Before(from) {
			from, to = to, from
		}
		e.From, e.To = &from, &to
		// open-ended ranges only where the quantum has a year view (the default bounds are year 1 and now+1 day)
		if strings.Contains(f.Quantum, "Y") {
			switch mode {
			case 8:
				e.To = nil
			case 9:
				e.From = nil
			}
		}
		return e
	}
	return &vq2Expr{Op: "row", Field: f.Name, Row: row()}
}

func (g *vq2ExprGen) gen(t *rapid.T, depth int) *vq2Expr {
	if depth >= g.maxDepth || rapid.IntRange(0, 9).Draw(t, "leaf?") < 3 {
		return g.leaf(t)
	}
	ops := []string{"union", "intersect", "difference", "xor", "shift", "shift", "not"}
	if g.noNot || (!g.m.Track && rapid.IntRange(0, 9).Draw(t, "notNoTrack?") > 0) {
		ops = ops[:len(ops)-1]
	}
	op := rapid.SampledFrom(ops).Draw(t, "op")
	e := &vq2Expr{Op: op}
	switch op {
	case "not":
		e.Kids = []*vq2Expr{g.gen(t, depth+1)}
	case "shift":
		e.N = rapid.SampledFrom([]int{0, 1, 1, 1, 2, 3}).Draw(t, "n")
		e.Kids = []*vq2Expr{g.gen(t, depth+1)}
	default:
		lo := 1
		if op == "union" {
			lo = 0
		}
		n := rapid.SampledFrom([]int{lo, 1, 2, 2, 2, 3}).Draw(t, "arity")
		for i := 0; i < n; i++ {
			e.Kids = append(e.Kids, g.gen(t, depth+1))
		}
	}
	return e
}

// ---------------------------------------------------------------------------------------------------------------------
// comparing results

// vq2CheckRow compares the result of a bitmap call with the model value of e.
// It returns "" or a description of the mismatch.
func vq2CheckRow(res interface{}, want vq2Set) string {
	row, ok := res.(*pilosa.Row)
	if !ok {
		return fmt.Sprintf("result has type %T, want *pilosa.Row", res)
	}
	got := row.Columns()
	w := want.sorted()
	if !vq2EqU64(got, w) {
		return fmt.Sprintf("columns %s, want %s", vq2Cols(got), vq2Cols(w))
	}
	return ""
}
