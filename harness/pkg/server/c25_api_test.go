package server_test

// C25 — attributes at the API layer: SetRowAttrs / SetColumnAttrs (single calls,
// bulk requests made only of SetRowAttrs, mixed requests), Row() attrs,
// Options(columnAttrs=true), Options(excludeRowAttrs=true), restart.
// Oracle: the same plain map model as the store-level check. Every attribute
// map found in a response is trashed by the harness afterwards.

import (
	"context"
	"fmt"
	"reflect"
	"sort"
	"strconv"
	"strings"
	"testing"

	"github.com/pilosa/pilosa"
	"github.com/pilosa/pilosa/internal/vkit"
	"github.com/pilosa/pilosa/test"
	"pgregory.net/rapid"
)

var vc25apiKeys = []string{"a", "b", "name", "x1", "k-2", "Cap_s"}
var vc25apiRows = []uint64{0, 1, 99, 100}
var vc25apiCols = []uint64{0, 1, 99, 100, pilosa.ShardWidth + 1}

type vc25apiKV struct {
	K    string
	PQL  string
	Want interface{} // nil = delete
}

func vc25apiGenKVs(t *rapid.T, label string) []vc25apiKV {
	n := rapid.IntRange(1, 3).Draw(t, label+"_n")
	used := map[string]bool{}
	var out []vc25apiKV
	for i := 0; i < n; i++ {
		k := rapid.SampledFrom(vc25apiKeys).Draw(t, fmt.Sprintf("%s_k%d", label, i))
		if used[k] {
			continue
		}
		used[k] = true
		kv := vc25apiKV{K: k}
		switch rapid.IntRange(0, 5).Draw(t, fmt.Sprintf("%s_kind%d", label, i)) {
		case 0:
			kv.PQL, kv.Want = "null", nil
		case 1:
			s := rapid.SampledFrom([]string{"", "v", "two words", "x=1,y(2)", "true", "null", "10", "2017-01-02T03:04"}).Draw(t, fmt.Sprintf("%s_s%d", label, i))
			kv.PQL, kv.Want = `"`+s+`"`, s
		case 2:
			v := rapid.SampledFrom([]int64{0, 1, -1, 123, 1 << 40, -1 << 63, 1<<63 - 1}).Draw(t, fmt.Sprintf("%s_i%d", label, i))
			kv.PQL, kv.Want = strconv.FormatInt(v, 10), v
		case 3:
			v := rapid.Bool().Draw(t, fmt.Sprintf("%s_b%d", label, i))
			kv.PQL, kv.Want = strconv.FormatBool(v), v
		default:
			v := rapid.SampledFrom([]float64{0.5, 1.5, -2.25, 3, 0.001, 12345.678}).Draw(t, fmt.Sprintf("%s_f%d", label, i))
			s := strconv.FormatFloat(v, 'f', -1, 64)
			if !strings.Contains(s, ".") {
				s += ".0"
			}
			kv.PQL, kv.Want = s, v
		}
		out = append(out, kv)
	}
	return out
}

func vc25apiArgs(kvs []vc25apiKV) string {
	var parts []string
	for _, kv := range kvs {
		parts = append(parts, kv.K+"="+kv.PQL)
	}
	return strings.Join(parts, ", ")
}

type vc25apiModel struct {
	rowAttrs map[string]map[uint64]map[string]interface{}
	colAttrs map[uint64]map[string]interface{}
	bits     map[string]map[uint64]map[uint64]bool
}

func vc25apiMerge(dst map[string]interface{}, kvs []vc25apiKV) (deletedExisting bool) {
	for _, kv := range kvs {
		if kv.Want == nil {
			if _, ok := dst[kv.K]; ok {
				deletedExisting = true
			}
			delete(dst, kv.K)
		} else {
			dst[kv.K] = kv.Want
		}
	}
	return
}

func vc25apiCopy(m map[string]interface{}) map[string]interface{} {
	out := map[string]interface{}{}
	for k, v := range m {
		out[k] = v
	}
	return out
}

func vc25apiTrash(m map[string]interface{}) {
	if m == nil {
		return
	}
	for k := range m {
		m[k] = "__trashed"
	}
	m["__poison"] = int64(666)
	m["a"] = "__poison_a"
}

func vc25apiFmt(m map[string]interface{}) string {
	keys := make([]string, 0, len(m))
	for k := range m {
		keys = append(keys, k)
	}
	sort.Strings(keys)
	var parts []string
	for _, k := range keys {
		parts = append(parts, fmt.Sprintf("%q:%T(%v)", k, m[k], m[k]))
	}
	return "{" + strings.Join(parts, ", ") + "}"
}

func vc25apiSameAttrs(got, want map[string]interface{}) bool {
	if len(got) == 0 && len(want) == 0 {
		return true
	}
	return reflect.DeepEqual(got, want)
}

var vc25apiSeq int

func TestVerifC25_API(t *testing.T) {
	defer vkit.Flush()
	m := test.MustRunCommand()
	defer func() { m.Close() }()
	ctx := context.Background()

	rapid.Check(t, func(t *rapid.T) {
		vc25apiSeq++
		index := fmt.Sprintf("vc25i%d", vc25apiSeq)
		if _, err := m.API.CreateIndex(ctx, index, pilosa.IndexOptions{}); err != nil {
			t.Fatalf("CreateIndex: %v", err)
		}
		defer func() { _ = m.API.DeleteIndex(ctx, index) }()
		for _, f := range []string{"f", "g"} {
			if _, err := m.API.CreateField(ctx, index, f, pilosa.OptFieldTypeSet(pilosa.CacheTypeNone, 0)); err != nil {
				t.Fatalf("CreateField: %v", err)
			}
		}
		md := &vc25apiModel{
			rowAttrs: map[string]map[uint64]map[string]interface{}{"f": {}, "g": {}},
			colAttrs: map[uint64]map[string]interface{}{},
			bits:     map[string]map[uint64]map[uint64]bool{"f": {}, "g": {}},
		}
		query := func(q string) pilosa.QueryResponse {
			resp, err := m.API.Query(ctx, &pilosa.QueryRequest{Index: index, Query: q})
			if err != nil {
				t.Fatalf("Query(%s): %v", q, err)
			}
			return resp
		}
		c := vkit.NewCase()
		defer c.Done()
		var trace []string
		nt := false

		// one generated write call, applied to the model
		genWrite := func(label string, kinds []string) string {
			switch rapid.SampledFrom(kinds).Draw(t, label+"_w") {
			case "rowattrs":
				f := rapid.SampledFrom([]string{"f", "g"}).Draw(t, label+"_f")
				r := rapid.SampledFrom(vc25apiRows).Draw(t, label+"_r")
				kvs := vc25apiGenKVs(t, label)
				if md.rowAttrs[f][r] == nil {
					md.rowAttrs[f][r] = map[string]interface{}{}
				}
				if vc25apiMerge(md.rowAttrs[f][r], kvs) {
					nt = true
					c.Class("deleteExisting")
				}
				return fmt.Sprintf("SetRowAttrs(%s, %d, %s)", f, r, vc25apiArgs(kvs))
			case "colattrs":
				col := rapid.SampledFrom(vc25apiCols).Draw(t, label+"_c")
				kvs := vc25apiGenKVs(t, label)
				if md.colAttrs[col] == nil {
					md.colAttrs[col] = map[string]interface{}{}
				}
				if vc25apiMerge(md.colAttrs[col], kvs) {
					nt = true
					c.Class("deleteExisting")
				}
				return fmt.Sprintf("SetColumnAttrs(%d, %s)", col, vc25apiArgs(kvs))
			default:
				f := rapid.SampledFrom([]string{"f", "g"}).Draw(t, label+"_f")
				r := rapid.SampledFrom(vc25apiRows).Draw(t, label+"_r")
				col := rapid.SampledFrom(vc25apiCols).Draw(t, label+"_c")
				if md.bits[f][r] == nil {
					md.bits[f][r] = map[uint64]bool{}
				}
				md.bits[f][r][col] = true
				return fmt.Sprintf("Set(%d, %s=%d)", col, f, r)
			}
		}
		colsOf := func(f string, r uint64) []uint64 {
			var cols []uint64
			for col := range md.bits[f][r] {
				cols = append(cols, col)
			}
			sort.Slice(cols, func(i, j int) bool { return cols[i] < cols[j] })
			return cols
		}
		checkRow := func(q string, res interface{}, f string, r uint64, wantAttrs map[string]interface{}) {
			row, ok := res.(*pilosa.Row)
			if !ok {
				t.Fatalf("%s: result is %T, want *pilosa.Row", q, res)
			}
			want := colsOf(f, r)
			got := row.Columns()
			if len(got) != len(want) || (len(want) > 0 && !reflect.DeepEqual(got, want)) {
				t.Fatalf("%s: columns %v, want %v", q, got, want)
			}
			if !vc25apiSameAttrs(row.Attrs, wantAttrs) {
				t.Fatalf("%s: attrs %s, want %s", q, vc25apiFmt(row.Attrs), vc25apiFmt(wantAttrs))
			}
			vc25apiTrash(row.Attrs)
		}

		nOps := rapid.IntRange(2, 18).Draw(t, "nOps")
		for i := 0; i < nOps; i++ {
			label := fmt.Sprintf("op%d", i)
			switch rapid.SampledFrom([]string{"write", "write", "write", "write", "bulk", "mixed", "mixed", "row", "row", "colattrs", "colattrs", "exclude", "restart"}).Draw(t, label) {
			case "write":
				q := genWrite(label, []string{"rowattrs", "rowattrs", "colattrs", "colattrs", "set", "set"})
				trace = append(trace, q)
				query(q)
				c.Class("op:write")
			case "bulk":
				// a request made only of SetRowAttrs calls takes the bulk path
				n := rapid.IntRange(2, 4).Draw(t, label+"_n")
				var qs []string
				for j := 0; j < n; j++ {
					qs = append(qs, genWrite(fmt.Sprintf("%s_%d", label, j), []string{"rowattrs"}))
				}
				q := strings.Join(qs, " ")
				trace = append(trace, q)
				resp := query(q)
				if len(resp.Results) != n {
					t.Fatalf("%s: %d results, want %d", q, len(resp.Results), n)
				}
				nt = true
				c.Class("op:bulk")
			case "mixed":
				n := rapid.IntRange(2, 4).Draw(t, label+"_n")
				var qs []string
				for j := 0; j < n; j++ {
					qs = append(qs, genWrite(fmt.Sprintf("%s_%d", label, j), []string{"rowattrs", "colattrs", "set"}))
				}
				q := strings.Join(qs, " ")
				trace = append(trace, q)
				query(q)
				c.Class("op:mixed")
			case "row":
				f := rapid.SampledFrom([]string{"f", "g"}).Draw(t, label+"_f")
				r := rapid.SampledFrom(vc25apiRows).Draw(t, label+"_r")
				q := fmt.Sprintf("Row(%s=%d)", f, r)
				trace = append(trace, q)
				for k := 0; k < 2; k++ { // the second read follows the trashing of the first result
					resp := query(q)
					checkRow(q, resp.Results[0], f, r, md.rowAttrs[f][r])
				}
				c.Class("op:row")
			case "exclude":
				f := rapid.SampledFrom([]string{"f", "g"}).Draw(t, label+"_f")
				r := rapid.SampledFrom(vc25apiRows).Draw(t, label+"_r")
				q := fmt.Sprintf("Options(Row(%s=%d), excludeRowAttrs=true)", f, r)
				trace = append(trace, q)
				resp := query(q)
				checkRow(q, resp.Results[0], f, r, nil)
				c.Class("op:exclude")
			case "colattrs":
				f := rapid.SampledFrom([]string{"f", "g"}).Draw(t, label+"_f")
				r := rapid.SampledFrom(vc25apiRows).Draw(t, label+"_r")
				// prefer a row that holds bits (otherwise the attribute-set list is trivially empty)
				var cands [][2]interface{}
				for _, ff := range []string{"f", "g"} {
					for _, rr := range vc25apiRows {
						if len(md.bits[ff][rr]) > 0 {
							cands = append(cands, [2]interface{}{ff, rr})
						}
					}
				}
				if len(cands) > 0 && rapid.IntRange(0, 3).Draw(t, label+"_pref") > 0 {
					pick := cands[rapid.IntRange(0, len(cands)-1).Draw(t, label+"_pick")]
					f, r = pick[0].(string), pick[1].(uint64)
				}
				q := fmt.Sprintf("Options(Row(%s=%d), columnAttrs=true)", f, r)
				trace = append(trace, q)
				for k := 0; k < 2; k++ {
					resp := query(q)
					checkRow(q, resp.Results[0], f, r, md.rowAttrs[f][r])
					var want []*pilosa.ColumnAttrSet
					for _, col := range colsOf(f, r) {
						if len(md.colAttrs[col]) > 0 {
							want = append(want, &pilosa.ColumnAttrSet{ID: col, Attrs: vc25apiCopy(md.colAttrs[col])})
						}
					}
					if len(resp.ColumnAttrSets) != len(want) {
						t.Fatalf("%s: %d column attr sets, want %d (%v)", q, len(resp.ColumnAttrSets), len(want), want)
					}
					for j, w := range want {
						g := resp.ColumnAttrSets[j]
						if g.ID != w.ID || g.Key != "" || !reflect.DeepEqual(g.Attrs, w.Attrs) {
							t.Fatalf("%s: column attr set %d = {id %d key %q attrs %s}, want {id %d attrs %s}", q, j, g.ID, g.Key, vc25apiFmt(g.Attrs), w.ID, vc25apiFmt(w.Attrs))
						}
						vc25apiTrash(g.Attrs)
					}
					if len(want) > 0 {
						c.Class("columnAttrSetsNonEmpty")
					}
				}
				c.Class("op:colattrs")
			case "restart":
				trace = append(trace, "restart")
				if err := m.Reopen(); err != nil {
					t.Fatalf("Reopen: %v", err)
				}
				if len(trace) > 1 {
					nt = true
				}
				c.Class("op:restart")
			}
		}
		// final sweep over every row of both fields and every column through a row that holds it
		for _, f := range []string{"f", "g"} {
			for _, r := range vc25apiRows {
				q := fmt.Sprintf("Row(%s=%d)", f, r)
				checkRow(q, query(q).Results[0], f, r, md.rowAttrs[f][r])
			}
		}
		c.Key("c25api", strings.Join(trace, ";"))
		c.NT(nt)
		if len(trace) > 10 {
			trace = trace[:10]
		}
		c.Sample(map[string]interface{}{"requests": trace})
	})
}
