package server_test

// C19 (API level) — after Clear(column, field=row) on a time field, Row(field=row) and Row(field=row, from, to)
// over every stored interval, the whole span and random aligned ranges never return the column until it is set
// again; other bits are unchanged. Oracle: model of (row, column) -> live timestamps.

import (
	"fmt"
	"sort"
	"strings"
	"testing"
	"time"

	"github.com/pilosa/pilosa"
	"github.com/pilosa/pilosa/internal/vkit"
	"pgregory.net/rapid"
)

type vC19Bit struct{ Row, Col uint64 }

type vC19State struct {
	std    map[vC19Bit]bool
	stamps map[vC19Bit][]time.Time
}

func (s *vC19State) set(b vC19Bit, ts *time.Time, noStd bool) {
	if !noStd {
		s.std[b] = true
	}
	if ts != nil {
		s.stamps[b] = append(s.stamps[b], *ts)
	}
}

func (s *vC19State) clear(b vC19Bit) {
	delete(s.std, b)
	delete(s.stamps, b)
}

// battery builds the read queries and their expected answers.
func vC19Battery(st *vC19State, q pilosa.TimeQuantum, rows []uint64, allStamps []time.Time, extra [][2]time.Time) (calls []string, want [][]uint64) {
	type rng struct{ from, to time.Time }
	var ranges []rng
	seen := map[string]bool{}
	add := func(from, to time.Time) {
		k := from.Format("2006010215") + "-" + to.Format("2006010215")
		if !seen[k] && !to.Before(from) {
			seen[k] = true
			ranges = append(ranges, rng{from, to})
		}
	}
	unit := vgtFinest(q)
	var lo, hi time.Time
	for i, ts := range allStamps {
		for _, u := range q {
			from := vgtTrunc(ts, u)
			add(from, vgtAdd(from, u, 1))
		}
		if i == 0 || ts.Before(lo) {
			lo = ts
		}
		if i == 0 || ts.After(hi) {
			hi = ts
		}
	}
	if len(allStamps) > 0 {
		add(vgtAdd(vgtTrunc(lo, unit), unit, -1), vgtAdd(vgtTrunc(hi, unit), unit, 2))
	}
	for _, e := range extra {
		add(e[0], e[1])
	}
	for _, r := range rows {
		calls = append(calls, fmt.Sprintf("Row(f=%d)", r))
		m := map[uint64]bool{}
		for b := range st.std {
			if b.Row == r {
				m[b.Col] = true
			}
		}
		want = append(want, vgtSortedSet(m))
		for _, rg := range ranges {
			if len(calls)%3 == 0 && rg.from.Unix() > 0 {
				// the same bounds as unix seconds
				calls = append(calls, fmt.Sprintf("Row(f=%d, from=%d, to=%d)", r, rg.from.Unix(), rg.to.Unix()))
			} else {
				calls = append(calls, fmt.Sprintf("Row(f=%d, from=%s, to=%s)", r, vgtPQLTime(rg.from), vgtPQLTime(rg.to)))
			}
			m := map[uint64]bool{}
			for b, tss := range st.stamps {
				if b.Row != r {
					continue
				}
				for _, ts := range tss {
					if !ts.Before(rg.from) && ts.Before(rg.to) {
						m[b.Col] = true
					}
				}
			}
			want = append(want, vgtSortedSet(m))
		}
	}
	return calls, want
}

func TestVerifC19_API(t *testing.T) {
	defer vkit.Flush()
	srv := vgtStartServer()
	defer srv.Close()
	rapid.Check(t, func(t *rapid.T) {
		q := rapid.SampledFrom(vgtQuanta).Draw(t, "q")
		noStd := rapid.Bool().Draw(t, "noStandardView")
		if vkit.Open("D22") && noStd {
			vkit.Excluded("D22")
			noStd = false
		}
		index, drop := srv.newIndex(t, pilosa.IndexOptions{})
		defer drop()
		srv.createField(t, index, "f", pilosa.OptFieldTypeTime(q, noStd))

		st := &vC19State{std: map[vC19Bit]bool{}, stamps: map[vC19Bit][]time.Time{}}
		target := vC19Bit{1, 1}
		others := []vC19Bit{{1, 2}, {2, 1}, {1, pilosa.ShardWidth + 1}, {0, 3}}
		rows := []uint64{0, 1, 2}
		var anchors []time.Time
		var hist []string
		unit := vgtFinest(q)
		nops := rapid.IntRange(2, 10).Draw(t, "nops")
		clears, cutClear := 0, false
		c := vkit.NewCase()
		defer c.Done()

		check := func() {
			var extra [][2]time.Time
			for i := 0; i < 2; i++ {
				l := fmt.Sprintf("x%d.%d", len(hist), i)
				from := vgtTrunc(vgtGenStamp(t, l+".from", anchors), unit)
				to := vgtAdd(from, unit, rapid.IntRange(0, 6).Draw(t, l+".len"))
				if rapid.Bool().Draw(t, l+".far") {
					to = vgtTrunc(vgtGenStamp(t, l+".to", anchors), unit)
				}
				if to.Before(from) {
					from, to = to, from
				}
				extra = append(extra, [2]time.Time{from, to})
			}
			calls, want := vC19Battery(st, q, rows, anchors, extra)
			for i := 0; i < len(calls); i += 40 {
				j := i + 40
				if j > len(calls) {
					j = len(calls)
				}
				res, err := srv.query(index, strings.Join(calls[i:j], " "))
				if err != nil {
					t.Fatalf("quantum %s noStandardView=%v after %s: %s failed: %v", q, noStd, strings.Join(hist, " "), vgtClip(strings.Join(calls[i:j], " ")), err)
				}
				for k := i; k < j; k++ {
					if got := vgtRowCols(t, res[k-i], calls[k]); !vgtEqU64(got, want[k]) {
						t.Fatalf("quantum %s noStandardView=%v after %s:\n%s = %v, want %v", q, noStd, strings.Join(hist, " "), calls[k], got, want[k])
					}
				}
			}
		}

		for i := 0; i < nops; i++ {
			l := fmt.Sprintf("op%d", i)
			kind := rapid.SampledFrom([]string{"setT", "setT", "setO", "setO", "setO", "clearT", "clearO", "setTnoTS"}).Draw(t, l)
			if i == nops-1 {
				kind = "clearT"
			}
			switch kind {
			case "setT", "setO", "setTnoTS":
				b := target
				if kind == "setO" {
					b = others[rapid.IntRange(0, len(others)-1).Draw(t, l+".who")]
				}
				var call string
				var tsp *time.Time
				if kind == "setTnoTS" {
					call = fmt.Sprintf("Set(%d, f=%d)", b.Col, b.Row)
				} else {
					ts := vgtGenStamp(t, l, anchors)
					anchors = append(anchors, ts)
					tsp = &ts
					call = fmt.Sprintf("Set(%d, f=%d, %s)", b.Col, b.Row, vgtPQLTime(ts))
				}
				hist = append(hist, call)
				srv.mustQuery(t, index, call)
				st.set(b, tsp, noStd)
			default:
				b := target
				if kind == "clearO" {
					b = others[rapid.IntRange(0, len(others)-1).Draw(t, l+".who")]
				}
				// non-trivial: the cleared bit lives in some views and >= 3 other stamps exist that it does not have
				mine := map[int64]bool{}
				for _, ts := range st.stamps[b] {
					mine[ts.Unix()] = true
				}
				foreign := map[int64]bool{}
				for _, ts := range anchors {
					if !mine[ts.Unix()] {
						foreign[ts.Unix()] = true
					}
				}
				if len(mine) >= 1 && len(foreign) >= 2 {
					cutClear = true
				}
				call := fmt.Sprintf("Clear(%d, f=%d)", b.Col, b.Row)
				hist = append(hist, call)
				srv.mustQuery(t, index, call)
				st.clear(b)
				clears++
				check()
			}
		}
		sort.Slice(anchors, func(i, j int) bool { return anchors[i].Before(anchors[j]) })
		c.Key("c19api", q, noStd, hist)
		c.Class("q:"+string(q)).ClassIf(noStd, "noStandardView").ClassIf(cutClear, "clearAmongSiblingViews").ClassIf(clears >= 2, "severalClears")
		c.NT(cutClear)
		c.Sample(map[string]interface{}{"q": q, "noStandardView": noStd, "history": strings.Join(hist, " ")})
	})
}

// TestVerifWitness_D22_API: Clear() through PQL on a noStandardView field.
func TestVerifWitness_D22_API(t *testing.T) {
	srv := vgtStartServer()
	defer srv.Close()
	index, drop := srv.newIndex(t, pilosa.IndexOptions{})
	defer drop()
	srv.createField(t, index, "f", pilosa.OptFieldTypeTime("YMDH", true))
	srv.mustQuery(t, index, "Set(1, f=1, 2019-01-15T05:00) Clear(1, f=1)")
	res := srv.mustQuery(t, index, "Row(f=1, from=2019-01-01T00:00, to=2020-01-01T00:00)")
	if got := vgtRowCols(t, res[0], "Row"); len(got) != 0 {
		t.Fatalf("noStandardView YMDH: Set(1, f=1, 2019-01-15T05:00) Clear(1, f=1) then Row(f=1, from=2019-01-01T00:00, to=2020-01-01T00:00) = %v, want []", got)
	}
}

// TestVerifWitness_DT1_API: a sibling view of another column makes Clear skip the populated views.
func TestVerifWitness_DT1_API(t *testing.T) {
	srv := vgtStartServer()
	defer srv.Close()
	index, drop := srv.newIndex(t, pilosa.IndexOptions{})
	defer drop()
	srv.createField(t, index, "f", pilosa.OptFieldTypeTime("YMD"))
	srv.mustQuery(t, index, "Set(2, f=1, 2018-12-31T00:00) Set(1, f=1, 2019-01-15T00:00) Clear(1, f=1)")
	res := srv.mustQuery(t, index, "Row(f=1, from=2019-01-01T00:00, to=2020-01-01T00:00) Row(f=1)")
	if got := vgtRowCols(t, res[0], "Row"); len(got) != 0 {
		t.Fatalf("YMD: Set(2, f=1, 2018-12-31T00:00) Set(1, f=1, 2019-01-15T00:00) Clear(1, f=1) then Row(f=1, from=2019-01-01T00:00, to=2020-01-01T00:00) = %v, want []", got)
	}
	if got := vgtRowCols(t, res[1], "Row"); !vgtEqU64(got, []uint64{2}) {
		t.Fatalf("Row(f=1) = %v, want [2]", got)
	}
}
