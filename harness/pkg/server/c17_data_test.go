package server_test

// C17 — generated index contents, read queries and their model, shared by the arrival-order check
// (c17_order_test.go) and the placement check (c17_cluster_test.go).

import (
	"context"
	"fmt"
	"sort"
	"strings"

	"github.com/pilosa/pilosa"
	"github.com/pilosa/pilosa/test"
	"pgregory.net/rapid"
)

// vc17Data is the logical content of one index: set fields s and t, int field v.
type vc17Data struct {
	S, T   map[uint64]map[uint64]bool // row -> columns
	V      map[uint64]int64           // column -> value
	Exist  map[uint64]bool
	Shards []uint64 // shards holding any data, ascending
}

var (
	vc17ShardPool = []uint64{0, 1, 2, 5, 3, 8}
	vc17RowPool   = []uint64{0, 1, 2, 3, 7, 100}
	vc17ValPool   = []int64{-7, -3, 0, 3, 7, 100, -100}
	vc17OffPool   = []uint64{0, 1, 2, 3, 65535, 65536, vs1SW - 1}
)

const (
	vc17VMin = -1000
	vc17VMax = 1000
)

func vc17GenData(t *rapid.T) *vc17Data {
	d := &vc17Data{S: map[uint64]map[uint64]bool{}, T: map[uint64]map[uint64]bool{}, V: map[uint64]int64{}, Exist: map[uint64]bool{}}
	nsh := rapid.IntRange(2, 5).Draw(t, "nshards")
	col := func(label string) uint64 {
		sh := vc17ShardPool[rapid.IntRange(0, nsh-1).Draw(t, label+".sh")]
		return sh*vs1SW + rapid.SampledFrom(vc17OffPool).Draw(t, label+".off")
	}
	// few rows/values so that shards tie on extremes, counts and row ids
	nrows := rapid.IntRange(1, 4).Draw(t, "nrows")
	nvals := rapid.IntRange(1, 3).Draw(t, "nvals")
	nbits := rapid.IntRange(2, 24).Draw(t, "nbits")
	for i := 0; i < nbits; i++ {
		c := col(fmt.Sprintf("b%d", i))
		r := vc17RowPool[rapid.IntRange(0, nrows-1).Draw(t, fmt.Sprintf("b%d.r", i))]
		m := d.S
		if rapid.IntRange(0, 2).Draw(t, fmt.Sprintf("b%d.f", i)) == 0 {
			m = d.T
		}
		if m[r] == nil {
			m[r] = map[uint64]bool{}
		}
		m[r][c] = true
		d.Exist[c] = true
	}
	nv := rapid.IntRange(1, 12).Draw(t, "nv")
	for i := 0; i < nv; i++ {
		c := col(fmt.Sprintf("v%d", i))
		d.V[c] = vc17ValPool[rapid.IntRange(0, nvals-1).Draw(t, fmt.Sprintf("v%d.v", i))]
		d.Exist[c] = true
	}
	sh := map[uint64]bool{}
	for c := range d.Exist {
		sh[c/vs1SW] = true
	}
	for s := range sh {
		d.Shards = append(d.Shards, s)
	}
	sort.Slice(d.Shards, func(i, j int) bool { return d.Shards[i] < d.Shards[j] })
	return d
}

func (d *vc17Data) describe() string {
	var sb strings.Builder
	dump := func(name string, m map[uint64]map[uint64]bool) {
		var rows []uint64
		for r := range m {
			rows = append(rows, r)
		}
		sort.Slice(rows, func(i, j int) bool { return rows[i] < rows[j] })
		for _, r := range rows {
			fmt.Fprintf(&sb, "%s[%d]=%v ", name, r, vc17SortedSet(m[r]))
		}
	}
	dump("s", d.S)
	dump("t", d.T)
	var cols []uint64
	for c := range d.V {
		cols = append(cols, c)
	}
	sort.Slice(cols, func(i, j int) bool { return cols[i] < cols[j] })
	sb.WriteString("v{")
	for _, c := range cols {
		fmt.Fprintf(&sb, "%d:%d ", c, d.V[c])
	}
	sb.WriteString("}")
	return sb.String()
}

func vc17SortedSet(s map[uint64]bool) []uint64 {
	out := make([]uint64, 0, len(s))
	for c := range s {
		out = append(out, c)
	}
	sort.Slice(out, func(i, j int) bool { return out[i] < out[j] })
	return out
}

// vc17Load creates index `index` (existence tracking on) with fields s, t (set, ranked cache) and v (int) and writes
// the data with PQL Set through node m (which forwards to every owner). A schema error is returned (not fatal):
// the callers decide what a failed set-up means.
func vc17Load(t vs1T, m *test.Command, index string, d *vc17Data) error {
	ctx := context.Background()
	if _, err := m.API.CreateIndex(ctx, index, pilosa.IndexOptions{TrackExistence: true}); err != nil {
		return fmt.Errorf("creating index %s: %v", index, err)
	}
	for _, f := range []string{"s", "t"} {
		if _, err := m.API.CreateField(ctx, index, f, pilosa.OptFieldTypeSet(pilosa.CacheTypeRanked, 1000)); err != nil {
			return fmt.Errorf("creating field %s: %v", f, err)
		}
	}
	if _, err := m.API.CreateField(ctx, index, "v", pilosa.OptFieldTypeInt(vc17VMin, vc17VMax)); err != nil {
		return fmt.Errorf("creating field v: %v", err)
	}
	var calls []string
	for name, mm := range map[string]map[uint64]map[uint64]bool{"s": d.S, "t": d.T} {
		var rows []uint64
		for r := range mm {
			rows = append(rows, r)
		}
		sort.Slice(rows, func(i, j int) bool { return rows[i] < rows[j] })
		for _, r := range rows {
			for _, c := range vc17SortedSet(mm[r]) {
				calls = append(calls, fmt.Sprintf("Set(%d, %s=%d)", c, name, r))
			}
		}
	}
	var cols []uint64
	for c := range d.V {
		cols = append(cols, c)
	}
	sort.Slice(cols, func(i, j int) bool { return cols[i] < cols[j] })
	for _, c := range cols {
		calls = append(calls, fmt.Sprintf("Set(%d, v=%d)", c, d.V[c]))
	}
	sort.Strings(calls) // map iteration order of s/t must not matter
	vs1Batch(t, m, index, calls, nil, 40)
	return nil
}

// ------------------------------------------------------------------ bitmap expressions

type vc17Expr struct {
	Op   string // row | int | union | intersect | difference | xor | not
	F    string
	Row  uint64
	Cmp  string
	P    int64
	Kids []*vc17Expr
}

func vc17GenExpr(t *rapid.T, label string, depth int) *vc17Expr {
	leaf := depth <= 0 || rapid.IntRange(0, 2).Draw(t, label+".leaf") == 0
	if leaf {
		if rapid.IntRange(0, 3).Draw(t, label+".int") == 0 {
			p := rapid.SampledFrom([]int64{-1001, -100, -8, -7, -4, -3, -1, 0, 1, 3, 5, 7, 50, 100, 2000}).Draw(t, label+".p")
			return &vc17Expr{Op: "int", Cmp: rapid.SampledFrom(vs1Ops).Draw(t, label+".cmp"), P: p}
		}
		return &vc17Expr{Op: "row", F: rapid.SampledFrom([]string{"s", "t"}).Draw(t, label+".f"), Row: rapid.SampledFrom([]uint64{0, 1, 2, 3, 7, 9}).Draw(t, label+".row")}
	}
	op := rapid.SampledFrom([]string{"union", "intersect", "difference", "xor", "not"}).Draw(t, label+".op")
	e := &vc17Expr{Op: op}
	n := 1
	if op != "not" {
		n = rapid.IntRange(1, 3).Draw(t, label+".n")
	}
	for i := 0; i < n; i++ {
		e.Kids = append(e.Kids, vc17GenExpr(t, fmt.Sprintf("%s.%d", label, i), depth-1))
	}
	return e
}

func (e *vc17Expr) pql() string {
	switch e.Op {
	case "row":
		return fmt.Sprintf("Row(%s=%d)", e.F, e.Row)
	case "int":
		return fmt.Sprintf("Row(v %s %d)", e.Cmp, e.P)
	}
	var ks []string
	for _, k := range e.Kids {
		ks = append(ks, k.pql())
	}
	name := map[string]string{"union": "Union", "intersect": "Intersect", "difference": "Difference", "xor": "Xor", "not": "Not"}[e.Op]
	return name + "(" + strings.Join(ks, ", ") + ")"
}

func (e *vc17Expr) eval(d *vc17Data) map[uint64]bool {
	out := map[uint64]bool{}
	switch e.Op {
	case "row":
		m := d.S
		if e.F == "t" {
			m = d.T
		}
		for c := range m[e.Row] {
			out[c] = true
		}
	case "int":
		for c, v := range d.V {
			if vs1Sat(e.Cmp, v, e.P) {
				out[c] = true
			}
		}
	case "union":
		for _, k := range e.Kids {
			for c := range k.eval(d) {
				out[c] = true
			}
		}
	case "intersect":
		for c := range e.Kids[0].eval(d) {
			out[c] = true
		}
		for _, k := range e.Kids[1:] {
			ks := k.eval(d)
			for c := range out {
				if !ks[c] {
					delete(out, c)
				}
			}
		}
	case "difference":
		for c := range e.Kids[0].eval(d) {
			out[c] = true
		}
		for _, k := range e.Kids[1:] {
			for c := range k.eval(d) {
				delete(out, c)
			}
		}
	case "xor":
		for _, k := range e.Kids {
			for c := range k.eval(d) {
				if out[c] {
					delete(out, c)
				} else {
					out[c] = true
				}
			}
		}
	case "not":
		ks := e.Kids[0].eval(d)
		for c := range d.Exist {
			if !ks[c] {
				out[c] = true
			}
		}
	}
	return out
}

// ------------------------------------------------------------------ read queries

// vc17Query is one read call with its model answer in canonical text form.
type vc17Query struct {
	PQL  string
	Kind string
	// Want is the canonical model answer; for kind "topk" it is the model's row counts (id -> count) and K.
	Want   string
	Counts map[uint64]uint64
	K      int
}

func vc17GenQuery(t *rapid.T, label string, d *vc17Data) vc17Query {
	kind := rapid.SampledFrom([]string{"bitmap", "bitmap", "count", "sum", "min", "max", "min", "max", "minrow", "maxrow", "topn", "topk", "rows", "rows", "groupby"}).Draw(t, label+".kind")
	var filter *vc17Expr
	withFilter := rapid.IntRange(0, 2).Draw(t, label+".filtered") > 0
	if withFilter || kind == "bitmap" || kind == "count" {
		filter = vc17GenExpr(t, label+".e", 2)
	}
	var fset map[uint64]bool
	fpql := ""
	if filter != nil {
		fset = filter.eval(d)
		fpql = filter.pql()
	}
	q := vc17Query{Kind: kind}
	switch kind {
	case "bitmap":
		q.PQL = fpql
		q.Want = fmt.Sprint(vc17SortedSet(fset))
	case "count":
		q.PQL = "Count(" + fpql + ")"
		q.Want = fmt.Sprint(len(fset))
	case "sum", "min", "max":
		mod := vs1NewIntModel(vc17VMin, vc17VMax)
		mod.Vals = d.V
		a := mod.agg(fset) // nil = no filter
		name := map[string]string{"sum": "Sum", "min": "Min", "max": "Max"}[kind]
		if filter != nil {
			q.PQL = fmt.Sprintf("%s(%s, field=v)", name, fpql)
		} else {
			q.PQL = fmt.Sprintf("%s(field=v)", name)
		}
		switch kind {
		case "sum":
			w, _ := a.wantSum()
			q.Want = fmt.Sprintf("%+v", w)
		case "min":
			q.Want = fmt.Sprintf("%+v", a.wantMin())
		case "max":
			q.Want = fmt.Sprintf("%+v", a.wantMax())
		}
	case "minrow", "maxrow":
		// smallest / largest row of s with a bit (inside the filter); count: 1 without a filter (presence),
		// the number of columns of that row inside the filter otherwise
		var best uint64
		var cnt uint64
		found := false
		for r, cols := range d.S {
			n := uint64(0)
			for c := range cols {
				if filter == nil || fset[c] {
					n++
				}
			}
			if n == 0 {
				continue
			}
			if !found || (kind == "minrow" && r < best) || (kind == "maxrow" && r > best) {
				best, cnt, found = r, n, true
			}
		}
		if filter == nil && found {
			cnt = 1
		}
		name := map[string]string{"minrow": "MinRow", "maxrow": "MaxRow"}[kind]
		if filter != nil {
			q.PQL = fmt.Sprintf("%s(%s, field=s)", name, fpql)
		} else {
			q.PQL = fmt.Sprintf("%s(field=s)", name)
		}
		q.Want = fmt.Sprintf("{id:%d count:%d}", best, cnt)
	case "topn", "topk":
		q.Counts = map[uint64]uint64{}
		for r, cols := range d.S {
			n := uint64(0)
			for c := range cols {
				if filter == nil || kind == "topk" || fset[c] {
					n++
				}
			}
			if n > 0 {
				q.Counts[r] = n
			}
		}
		if kind == "topk" {
			q.K = rapid.IntRange(1, 3).Draw(t, label+".k")
			q.PQL = fmt.Sprintf("TopN(s, n=%d)", q.K)
		} else if filter != nil {
			q.PQL = fmt.Sprintf("TopN(s, %s)", fpql)
		} else {
			q.PQL = "TopN(s)"
		}
		q.Want = vc17CanonCounts(q.Counts)
	case "rows":
		var rows []uint64
		for r, cols := range d.S {
			if len(cols) > 0 {
				rows = append(rows, r)
			}
		}
		sort.Slice(rows, func(i, j int) bool { return rows[i] < rows[j] })
		args := ""
		switch rapid.IntRange(0, 3).Draw(t, label+".rowsArg") {
		case 1:
			k := rapid.IntRange(1, 3).Draw(t, label+".limit")
			args = fmt.Sprintf(", limit=%d", k)
			if len(rows) > k {
				rows = rows[:k]
			}
		case 2:
			p := rapid.SampledFrom([]uint64{0, 1, 2, 7}).Draw(t, label+".prev")
			args = fmt.Sprintf(", previous=%d", p)
			var rr []uint64
			for _, r := range rows {
				if r > p {
					rr = append(rr, r)
				}
			}
			rows = rr
		case 3:
			var cols []uint64
			for c := range d.Exist {
				cols = append(cols, c)
			}
			sort.Slice(cols, func(i, j int) bool { return cols[i] < cols[j] })
			c := cols[rapid.IntRange(0, len(cols)-1).Draw(t, label+".col")]
			args = fmt.Sprintf(", column=%d", c)
			var rr []uint64
			for _, r := range rows {
				if d.S[r][c] {
					rr = append(rr, r)
				}
			}
			rows = rr
		}
		q.PQL = "Rows(s" + args + ")"
		q.Want = fmt.Sprint(append([]uint64{}, rows...))
	case "groupby":
		type gk struct{ a, b uint64 }
		cnt := map[gk]uint64{}
		for ra, ca := range d.S {
			for rb, cb := range d.T {
				n := uint64(0)
				for c := range ca {
					if cb[c] && (filter == nil || fset[c]) {
						n++
					}
				}
				if n > 0 {
					cnt[gk{ra, rb}] = n
				}
			}
		}
		var keys []gk
		for k := range cnt {
			keys = append(keys, k)
		}
		sort.Slice(keys, func(i, j int) bool {
			if keys[i].a != keys[j].a {
				return keys[i].a < keys[j].a
			}
			return keys[i].b < keys[j].b
		})
		args := ""
		if filter != nil {
			args += ", filter=" + fpql
		}
		if rapid.Bool().Draw(t, label+".gblimit") {
			k := rapid.IntRange(1, 3).Draw(t, label+".gbk")
			args += fmt.Sprintf(", limit=%d", k)
			if len(keys) > k {
				keys = keys[:k]
			}
		}
		q.PQL = "GroupBy(Rows(s), Rows(t)" + args + ")"
		var sb strings.Builder
		for _, k := range keys {
			fmt.Fprintf(&sb, "[s=%d t=%d]:%d ", k.a, k.b, cnt[k])
		}
		q.Want = sb.String()
	}
	return q
}

func vc17CanonCounts(m map[uint64]uint64) string {
	var ids []uint64
	for id := range m {
		ids = append(ids, id)
	}
	sort.Slice(ids, func(i, j int) bool { return ids[i] < ids[j] })
	var sb strings.Builder
	for _, id := range ids {
		fmt.Fprintf(&sb, "%d:%d ", id, m[id])
	}
	return sb.String()
}

// vc17Canon renders a query result in the same canonical form as vc17Query.Want ("topk": the descending count sequence).
// problem != "" when the result is malformed for its kind (e.g. a TopN pair whose count is not the true count).
func vc17Canon(q vc17Query, res interface{}) (canon string, problem string) {
	switch q.Kind {
	case "bitmap":
		r, ok := res.(*pilosa.Row)
		if !ok {
			return "", fmt.Sprintf("result type %T", res)
		}
		return fmt.Sprint(append([]uint64{}, r.Columns()...)), ""
	case "count":
		n, ok := res.(uint64)
		if !ok {
			return "", fmt.Sprintf("result type %T", res)
		}
		return fmt.Sprint(n), ""
	case "sum", "min", "max":
		v, ok := res.(pilosa.ValCount)
		if !ok {
			return "", fmt.Sprintf("result type %T", res)
		}
		return fmt.Sprintf("%+v", v), ""
	case "minrow", "maxrow":
		p, ok := res.(pilosa.Pair)
		if !ok {
			return "", fmt.Sprintf("result type %T", res)
		}
		return fmt.Sprintf("{id:%d count:%d}", p.ID, p.Count), ""
	case "topn", "topk":
		ps, ok := res.([]pilosa.Pair)
		if !ok {
			return "", fmt.Sprintf("result type %T", res)
		}
		got := map[uint64]uint64{}
		var seq []uint64
		for i, p := range ps {
			if _, dup := got[p.ID]; dup {
				return "", fmt.Sprintf("row %d listed twice in %v", p.ID, ps)
			}
			got[p.ID] = p.Count
			seq = append(seq, p.Count)
			if i > 0 && ps[i-1].Count < p.Count {
				return "", fmt.Sprintf("not sorted by count: %v", ps)
			}
			if q.Counts[p.ID] != p.Count {
				return "", fmt.Sprintf("row %d reported with count %d, true count %d (%v)", p.ID, p.Count, q.Counts[p.ID], ps)
			}
		}
		if q.Kind == "topk" {
			if len(ps) > q.K {
				return "", fmt.Sprintf("%d pairs for n=%d", len(ps), q.K)
			}
			return fmt.Sprint(seq), ""
		}
		return vc17CanonCounts(got), ""
	case "rows":
		r, ok := res.(pilosa.RowIdentifiers)
		if !ok {
			return "", fmt.Sprintf("result type %T", res)
		}
		return fmt.Sprint(append([]uint64{}, r.Rows...)), ""
	case "groupby":
		gs, ok := res.([]pilosa.GroupCount)
		if !ok {
			return "", fmt.Sprintf("result type %T", res)
		}
		var sb strings.Builder
		for _, g := range gs {
			if len(g.Group) != 2 {
				return "", fmt.Sprintf("group of %d fields", len(g.Group))
			}
			fmt.Fprintf(&sb, "[%s=%d %s=%d]:%d ", g.Group[0].Field, g.Group[0].RowID, g.Group[1].Field, g.Group[1].RowID, g.Count)
		}
		return sb.String(), ""
	}
	return "", "unknown kind"
}

// vc17ModelAgrees: does the canonical result equal the model answer? ("topk": only what is specified is compared —
// every pair carries its true count (checked in vc17Canon), at most K pairs; which of several equal-count rows
// make the cut is unspecified, and so is the candidate set of the two-pass algorithm.)
func vc17ModelAgrees(q vc17Query, canon string) bool {
	if q.Kind == "topk" {
		return true
	}
	return canon == q.Want
}
