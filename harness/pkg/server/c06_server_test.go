package server_test

// C06 — the decisive oracle: a REAL server as a child process receives malformed import payloads, query text and
// internal cluster messages over HTTP. After every request: the child is still alive, the reply is 2xx or an error
// status, a canary query and a canary Set on the same fragment complete (locks released), and a rejected request left
// the data of the field unchanged.

import (
	"bufio"
	"bytes"
	"context"
	"encoding/json"
	"fmt"
	"io"
	"io/ioutil"
	"net/http"
	"os"
	"os/exec"
	"sort"
	"strings"
	"sync"
	"testing"
	"time"

	"github.com/pilosa/pilosa"
	"github.com/pilosa/pilosa/encoding/proto"
	"github.com/pilosa/pilosa/internal/vkit"
	"github.com/pilosa/pilosa/pql"
	"github.com/pilosa/pilosa/test"
	"pgregory.net/rapid"
)

// TestVerifC06_ChildServer is the helper process: with VERIF_C06_CHILD=1 it runs a server, prints its URL and serves
// until its stdin is closed (the parent holds the other end, so the child never outlives it).
func TestVerifC06_ChildServer(t *testing.T) {
	if os.Getenv("VERIF_C06_CHILD") != "1" {
		t.Skip("helper process of TestVerifC06_Server")
	}
	m := test.MustRunCommand()
	fmt.Printf("VERIF_C06_URL %s\n", m.URL())
	os.Stdout.Sync()
	io.Copy(ioutil.Discard, os.Stdin)
	m.Close()
}

type vc06Child struct {
	cmd    *exec.Cmd
	stdin  io.WriteCloser
	url    string
	mu     sync.Mutex
	stderr bytes.Buffer
	exited chan struct{}
	err    error
}

type vc06LockedWriter struct{ c *vc06Child }

func (w vc06LockedWriter) Write(p []byte) (int, error) {
	w.c.mu.Lock()
	defer w.c.mu.Unlock()
	if w.c.stderr.Len() > 1<<20 {
		w.c.stderr.Reset()
	}
	return w.c.stderr.Write(p)
}

func (c *vc06Child) tail() string {
	c.mu.Lock()
	defer c.mu.Unlock()
	s := c.stderr.String()
	if i := strings.Index(s, "panic:"); i >= 0 {
		s = s[i:]
	} else if i := strings.Index(s, "fatal error:"); i >= 0 {
		s = s[i:]
	}
	if len(s) > 3500 {
		s = s[:3500]
	}
	return s
}

func (c *vc06Child) alive() bool {
	select {
	case <-c.exited:
		return false
	default:
		return true
	}
}

func (c *vc06Child) stop() {
	if c == nil {
		return
	}
	c.stdin.Close()
	select {
	case <-c.exited:
	case <-time.After(5 * time.Second):
		c.cmd.Process.Kill()
		<-c.exited
	}
}

func vc06StartChild() (*vc06Child, error) {
	cmd := exec.Command(os.Args[0], "-test.run", "^TestVerifC06_ChildServer$", "-test.timeout", "3h")
	env := []string{"VERIF_C06_CHILD=1"}
	for _, e := range os.Environ() {
		if !strings.HasPrefix(e, "VERIF_STATS=") && !strings.HasPrefix(e, "VERIF_C06_CHILD=") {
			env = append(env, e)
		}
	}
	cmd.Env = env
	c := &vc06Child{cmd: cmd, exited: make(chan struct{})}
	stdin, err := cmd.StdinPipe()
	if err != nil {
		return nil, err
	}
	c.stdin = stdin
	stdout, err := cmd.StdoutPipe()
	if err != nil {
		return nil, err
	}
	cmd.Stderr = vc06LockedWriter{c}
	if err := cmd.Start(); err != nil {
		return nil, err
	}
	urlCh := make(chan string, 1)
	go func() {
		sc := bufio.NewScanner(stdout)
		sc.Buffer(make([]byte, 1<<20), 1<<20)
		for sc.Scan() {
			line := sc.Text()
			if strings.HasPrefix(line, "VERIF_C06_URL ") {
				select {
				case urlCh <- strings.TrimSpace(strings.TrimPrefix(line, "VERIF_C06_URL ")):
				default:
				}
			} else {
				vc06LockedWriter{c}.Write([]byte(line + "\n"))
			}
		}
	}()
	go func() {
		c.err = cmd.Wait()
		close(c.exited)
	}()
	select {
	case c.url = <-urlCh:
		return c, nil
	case <-c.exited:
		return nil, fmt.Errorf("child exited during start-up: %v\n%s", c.err, c.tail())
	case <-time.After(60 * time.Second):
		cmd.Process.Kill()
		return nil, fmt.Errorf("child did not print its URL within 60s")
	}
}

var vc06HTTP = &http.Client{Timeout: 40 * time.Second}

type vc06Reply struct {
	status int
	body   []byte
	err    error // transport level: connection refused/reset, timeout
}

func (c *vc06Child) do(method, path string, body []byte, hdr map[string]string) vc06Reply {
	req, err := http.NewRequest(method, c.url+path, bytes.NewReader(body))
	if err != nil {
		return vc06Reply{err: err}
	}
	for k, v := range hdr {
		req.Header.Set(k, v)
	}
	resp, err := vc06HTTP.Do(req)
	if err != nil {
		return vc06Reply{err: err}
	}
	defer resp.Body.Close()
	b, err := ioutil.ReadAll(io.LimitReader(resp.Body, 8<<20))
	return vc06Reply{status: resp.StatusCode, body: b, err: err}
}

func (c *vc06Child) query(index, q string) vc06Reply {
	return c.do("POST", "/index/"+index+"/query", []byte(q), nil)
}

const vc06Index = "c06"

var vc06JSON = map[string]string{"Content-Type": "application/json", "Accept": "application/json"}

func (c *vc06Child) resetField() error {
	c.do("DELETE", "/index/"+vc06Index+"/field/f", nil, nil)
	if r := c.do("POST", "/index/"+vc06Index+"/field/f", []byte(`{"options":{"type":"set","cacheType":"ranked","cacheSize":1000}}`), vc06JSON); r.err != nil || r.status != 200 {
		return fmt.Errorf("creating field f: %v %d %s", r.err, r.status, r.body)
	}
	if r := c.query(vc06Index, "Set(1, f=1) Set(2, f=1) Set(70000, f=1) Set(5, f=2) Set(1048575, f=3)"); r.err != nil || r.status != 200 {
		return fmt.Errorf("seeding field f: %v %d %s", r.err, r.status, r.body)
	}
	return nil
}

func (c *vc06Child) setup() error {
	if r := c.do("POST", "/index/"+vc06Index, []byte(`{}`), vc06JSON); r.err != nil || r.status != 200 {
		return fmt.Errorf("creating index: %v %d %s", r.err, r.status, r.body)
	}
	return c.resetField()
}

// contents of field f (standard view, every shard) as a canonical string; ok=false if it cannot be read
func (c *vc06Child) contents() (string, int, error) {
	r := c.query(vc06Index, "Rows(f)")
	if r.err != nil || r.status != 200 {
		return "", 0, fmt.Errorf("Rows(f): %v status %d %s", r.err, r.status, vc06Short(r.body))
	}
	var rows struct {
		Results []struct {
			Rows []uint64 `json:"rows"`
		} `json:"results"`
	}
	if err := json.Unmarshal(r.body, &rows); err != nil || len(rows.Results) != 1 {
		return "", 0, fmt.Errorf("Rows(f): unexpected body %s", vc06Short(r.body))
	}
	ids := rows.Results[0].Rows
	if len(ids) == 0 {
		return "empty", 0, nil
	}
	if len(ids) > 400 {
		return "", len(ids), nil // too many rows to compare: the caller resets the field
	}
	var q strings.Builder
	for _, id := range ids {
		fmt.Fprintf(&q, "Row(f=%d)", id)
	}
	r = c.query(vc06Index, q.String())
	if r.err != nil || r.status != 200 {
		return "", len(ids), fmt.Errorf("reading %d rows: %v status %d %s", len(ids), r.err, r.status, vc06Short(r.body))
	}
	return fmt.Sprintf("%v|%s", ids, r.body), len(ids), nil
}

func vc06Short(b []byte) string {
	if len(b) > 400 {
		return string(b[:400]) + "..."
	}
	return string(b)
}

// canary: a read and a write on the fragment the requests touch; both must complete with 200
func (c *vc06Child) canary() error {
	r := c.query(vc06Index, "Count(Row(f=1))")
	if r.err != nil {
		return fmt.Errorf("canary read did not complete: %v", r.err)
	}
	if r.status != 200 {
		return fmt.Errorf("canary read: status %d %s", r.status, vc06Short(r.body))
	}
	r = c.query(vc06Index, "Set(9, f=1)")
	if r.err != nil {
		return fmt.Errorf("canary Set did not complete: %v", r.err)
	}
	if r.status != 200 {
		return fmt.Errorf("canary Set: status %d %s", r.status, vc06Short(r.body))
	}
	r = c.query(vc06Index, "Row(f=1)")
	if r.err != nil || r.status != 200 || !bytes.Contains(r.body, []byte("9")) {
		return fmt.Errorf("canary read-back: %v status %d %s", r.err, r.status, vc06Short(r.body))
	}
	return nil
}

// pristine reports whether the child still sees a cluster of exactly itself in state NORMAL
func (c *vc06Child) pristine() bool {
	r := c.do("GET", "/status", nil, nil)
	if r.err != nil || r.status != 200 {
		return false
	}
	var st struct {
		State string `json:"state"`
		Nodes []struct {
			ID string `json:"id"`
		} `json:"nodes"`
	}
	if err := json.Unmarshal(r.body, &st); err != nil {
		return false
	}
	return st.State == "NORMAL" && len(st.Nodes) == 1
}

func (c *vc06Child) goroutines() string {
	r := c.do("GET", "/debug/pprof/goroutine?debug=2", nil, nil)
	if r.err != nil {
		return "(no goroutine dump: " + r.err.Error() + ")"
	}
	s := string(r.body)
	if len(s) > 6000 {
		s = s[:6000]
	}
	return s
}

// ---- request generators

type vc06Req struct {
	kind   string // import | query | message
	label  string
	method string
	path   string
	body   []byte
	hdr    map[string]string
	// import
	payloads  [][]byte
	bodyValid bool
	// query
	parses  bool
	desc    string
	classes []string
}

var vc06Proto = map[string]string{"Content-Type": "application/x-protobuf", "Accept": "application/x-protobuf"}

func vc06GenImport(t *rapid.T) vc06Req {
	var ser proto.Serializer
	req := vc06Req{kind: "import", method: "POST", hdr: vc06Proto}
	shard := rapid.SampledFrom([]string{"0", "0", "0", "1", "3"}).Draw(t, "shard")
	req.path = "/index/" + vc06Index + "/field/f/import-roaring/" + shard
	if rapid.IntRange(0, 14).Draw(t, "rawbody") == 0 {
		req.body = rapid.SliceOfN(rapid.Byte(), 0, 30).Draw(t, "body")
		req.label = "body:random"
		req.desc = fmt.Sprintf("body %x", req.body)
		return req
	}
	m := &pilosa.ImportRoaringRequest{Clear: rapid.Bool().Draw(t, "clear"), Views: map[string][]byte{}}
	nviews := rapid.SampledFrom([]int{1, 1, 1, 2}).Draw(t, "nviews")
	var labels []string
	for i := 0; i < nviews; i++ {
		name := ""
		if i > 0 {
			name = rapid.SampledFrom([]string{"2019", "x", "é/..", ""}).Draw(t, "viewname")
		}
		var data []byte
		var label string
		if rapid.IntRange(0, 9).Draw(t, "tiny") == 0 {
			data = rapid.SliceOfN(rapid.Byte(), 0, 3).Draw(t, "tinydata")
			label = fmt.Sprintf("len%d", len(data))
		} else {
			data, label, _, _ = vc06GenPayload(t)
		}
		m.Views[name] = data
		req.payloads = append(req.payloads, data)
		labels = append(labels, label)
	}
	buf, err := ser.Marshal(m)
	if err != nil {
		t.Fatalf("marshal import request: %v", err)
	}
	req.body = buf
	req.bodyValid = true
	sort.Strings(labels)
	req.label = strings.Join(labels, ",")
	for _, l := range labels {
		for _, cl := range vc06LabelClasses(l) {
			req.classes = append(req.classes, "import-"+cl)
		}
	}
	if m.Clear {
		req.label += " clear"
		req.classes = append(req.classes, "import-clear")
	}
	if nviews > 1 {
		req.classes = append(req.classes, "import-2views")
	}
	var sb strings.Builder
	for name, d := range m.Views {
		h := d
		if len(h) > 64 {
			h = h[:64]
		}
		fmt.Fprintf(&sb, "view %q: %d bytes %x ", name, len(d), h)
	}
	req.desc = fmt.Sprintf("clear=%v shard=%s %s", m.Clear, shard, sb.String())
	return req
}

var vc06QueryPool = []string{
	"Row(f=1)", "Count(Row(f=1))", "Set(3, f=1)", "Clear(3, f=1)", "Union(Row(f=1), Row(f=2))", "TopN(f, n=2)", "TopN(f, ids=[1,2])", "Rows(f)",
	"SetRowAttrs(f, 1, x=1.5, y=\"é\", z=null)", "SetColumnAttrs(1, a=true)", "Not(Row(f=1))", "Difference(Row(f=1), Row(f=2))", "Xor(Row(f=1), Row(f=2))",
	"GroupBy(Rows(f), limit=2)", "Options(Row(f=1), columnAttrs=true, shards=[0])", "Row(f=1, from='2010-01-01T00:00', to='2011-01-01T00:00')",
	"Store(Row(f=1), f=7)", "ClearRow(f=7)", "Row(nofield=1)", "Shift(Row(f=1), n=1)", "Sum(field=\"f\")", "Min(field=f)", "Row(f > 1)", "Row(1 < f < 5)", "Row(f != null)",
	"TopN(f, ids=[\"a\"])", "TopN(f, ids=1)", "Options(Row(f=1), shards=[\"x\"])", "GroupBy(Rows(f), previous=[1,2])", "Rows(f, previous=\"x\")", "Count()", "Union()", "Not()", "Store(Row(f=1), f=\"k\")",
	"Row(9223372036854775807 < f < 3)", "Row(-5 <= f < -9223372036854775808)", "Row(99999999999999999999 <= f <= 1)", "Row(f=\"\\q\")", "Row(f=1, f=2)",
	"MinRow(field=f)", "MaxRow(field=\"f\")", "Range(f=1, 2010-01-01T00:00, 2011-01-01T00:00)", "Set(1, f=1, 2017-13-45T99:99)", "TopN(f, Row(f=1), n=1, tanimotoThreshold=200)", "Intersect(Row(f=1))",
}

func vc06GenQuery(t *rapid.T) vc06Req {
	req := vc06Req{kind: "query", method: "POST", path: "/index/" + vc06Index + "/query"}
	var text string
	kind := rapid.SampledFrom([]string{"pool", "pool-mutated", "pool-mutated", "random", "unicode", "deep", "long", "concat"}).Draw(t, "qkind")
	base := rapid.SampledFrom(vc06QueryPool).Draw(t, "qbase")
	switch kind {
	case "pool":
		text = base
	case "pool-mutated":
		b := []byte(base)
		n := rapid.IntRange(1, 3).Draw(t, "nmut")
		for i := 0; i < n && len(b) > 0; i++ {
			pos := rapid.IntRange(0, len(b)-1).Draw(t, "pos")
			switch rapid.IntRange(0, 4).Draw(t, "mkind") {
			case 0:
				b = append(b[:pos:pos], b[pos+1:]...)
			case 1:
				tok := rapid.SampledFrom([]string{"(", ")", ",", "=", "[", "]", "\"", "'", "\x00", "99999999999999999999", "-", "null", "<", "><", " ", "\n", "é", "\xff", "\\"}).Draw(t, "tok")
				b = append(b[:pos:pos], append([]byte(tok), b[pos:]...)...)
			case 2:
				b[pos] = rapid.Byte().Draw(t, "byte")
			case 3:
				b = b[:pos]
			default:
				b = append(b, b[pos:]...)
			}
		}
		text = string(b)
	case "random":
		text = string(rapid.SliceOfN(rapid.Byte(), 0, 40).Draw(t, "qbytes"))
	case "unicode":
		text = "Row(f=" + rapid.String().Draw(t, "qstr") + ")"
	case "deep":
		depth := rapid.SampledFrom([]int{10, 100, 1000, vkit.Scale(3000, 20000)}).Draw(t, "depth")
		name := rapid.SampledFrom([]string{"Union", "Not", "Count", "x"}).Draw(t, "deepname")
		closeAll := rapid.Bool().Draw(t, "closeall")
		text = strings.Repeat(name+"(", depth) + "Row(f=1)"
		if closeAll {
			text += strings.Repeat(")", depth)
		}
	case "long":
		n := rapid.SampledFrom([]int{100, 2000, vkit.Scale(5000, 60000)}).Draw(t, "nargs")
		var sb strings.Builder
		sb.WriteString("TopN(f, ids=[")
		for i := 0; i < n; i++ {
			if i > 0 {
				sb.WriteString(",")
			}
			fmt.Fprintf(&sb, "%d", i)
		}
		sb.WriteString("])")
		text = sb.String()
	case "concat":
		text = base + rapid.SampledFrom(vc06QueryPool).Draw(t, "qbase2") + rapid.SampledFrom([]string{"", "(", ")", "Row("}).Draw(t, "qtail")
	}
	req.body = []byte(text)
	_, perr := func() (q *pql.Query, err error) {
		defer func() {
			if r := recover(); r != nil {
				err = fmt.Errorf("parser panic: %v", r)
			}
		}()
		return pql.ParseString(text)
	}()
	req.parses = perr == nil
	req.label = kind
	if len(text) > 300 {
		req.desc = fmt.Sprintf("%q... (%d bytes)", text[:300], len(text))
	} else {
		req.desc = fmt.Sprintf("%q", text)
	}
	return req
}

func vc06Messages() []pilosa.Message {
	node := &pilosa.Node{ID: "zz-node", URI: pilosa.URI{Scheme: "http", Host: "localhost", Port: 1}, State: "READY"}
	return []pilosa.Message{
		&pilosa.CreateShardMessage{Index: "zz", Field: "f", Shard: 3},
		&pilosa.CreateShardMessage{Index: vc06Index, Field: "f", Shard: 2},
		&pilosa.CreateIndexMessage{Index: "zzi", Meta: &pilosa.IndexOptions{}},
		&pilosa.DeleteIndexMessage{Index: "zz"},
		&pilosa.CreateFieldMessage{Index: "zz", Field: "f", Meta: &pilosa.FieldOptions{Type: "set", CacheType: "ranked", CacheSize: 10}},
		&pilosa.CreateFieldMessage{Index: vc06Index, Field: "zzf", Meta: &pilosa.FieldOptions{Type: "set", CacheType: "ranked", CacheSize: 10}},
		&pilosa.DeleteFieldMessage{Index: "zz", Field: "f"},
		&pilosa.DeleteFieldMessage{Index: vc06Index, Field: "zznone"},
		&pilosa.DeleteAvailableShardMessage{Index: "zz", Field: "f", ShardID: 7},
		&pilosa.DeleteAvailableShardMessage{Index: vc06Index, Field: "zznone", ShardID: 7},
		&pilosa.CreateViewMessage{Index: "zz", Field: "f", View: "v"},
		&pilosa.CreateViewMessage{Index: vc06Index, Field: "f", View: "standard_zz"},
		&pilosa.DeleteViewMessage{Index: "zz", Field: "f", View: "v"},
		&pilosa.DeleteViewMessage{Index: vc06Index, Field: "f", View: "zznone"},
		&pilosa.ClusterStatus{ClusterID: "zz", State: "NORMAL", Nodes: []*pilosa.Node{node}},
		&pilosa.ResizeInstruction{JobID: 5, Node: node, Coordinator: node, NodeStatus: &pilosa.NodeStatus{Node: node, Schema: &pilosa.Schema{}}, ClusterStatus: &pilosa.ClusterStatus{}},
		&pilosa.ResizeInstructionComplete{JobID: 5, Node: node, Error: "e"},
		&pilosa.SetCoordinatorMessage{New: node},
		&pilosa.UpdateCoordinatorMessage{New: node},
		&pilosa.NodeStateMessage{NodeID: "zz-node", State: "READY"},
		&pilosa.RecalculateCaches{},
		&pilosa.NodeEvent{Event: pilosa.NodeUpdate, Node: node},
		&pilosa.NodeStatus{Node: node, Schema: &pilosa.Schema{}},
	}
}

func vc06GenMessage(t *rapid.T) vc06Req {
	var ser proto.Serializer
	req := vc06Req{kind: "message", method: "POST", path: "/internal/cluster/message", hdr: map[string]string{"Content-Type": "application/x-protobuf", "Accept": "application/json"}}
	msgs := vc06Messages()
	kind := rapid.SampledFrom([]string{"empty", "type-only", "type+random", "type+truncated", "type+other", "valid", "random"}).Draw(t, "mkind")
	typ := rapid.Byte().Draw(t, "typebyte")
	if rapid.Bool().Draw(t, "smalltype") {
		typ = byte(rapid.IntRange(0, 20).Draw(t, "typesmall"))
	}
	valid := func(label string) []byte {
		m := msgs[rapid.IntRange(0, len(msgs)-1).Draw(t, label)]
		buf, err := pilosa.MarshalInternalMessage(m, ser)
		if err != nil {
			t.Fatalf("MarshalInternalMessage(%T): %v", m, err)
		}
		return buf
	}
	switch kind {
	case "empty":
		req.body = nil
	case "type-only":
		req.body = []byte{typ}
	case "type+random":
		req.body = append([]byte{typ}, rapid.SliceOfN(rapid.Byte(), 1, 24).Draw(t, "mbytes")...)
	case "type+truncated":
		v := valid("vmsg")
		cut := rapid.IntRange(1, len(v)).Draw(t, "cut")
		req.body = v[:cut]
	case "type+other":
		v := valid("vmsg")
		req.body = append([]byte{typ}, v[1:]...)
	case "valid":
		req.body = valid("vmsg")
	case "random":
		req.body = rapid.SliceOfN(rapid.Byte(), 0, 30).Draw(t, "mbytes")
	}
	req.label = kind
	req.desc = fmt.Sprintf("%s: %d bytes %x", kind, len(req.body), req.body)
	return req
}

func TestVerifC06_Server(t *testing.T) {
	defer vkit.Flush()
	var child *vc06Child
	defer func() { child.stop() }()
	ensure := func() {
		if child != nil && child.alive() {
			return
		}
		var err error
		for attempt := 0; attempt < 3; attempt++ {
			child, err = vc06StartChild()
			if err == nil {
				if err = child.setup(); err == nil {
					return
				}
				child.stop()
			}
			time.Sleep(time.Second)
		}
		vgpInconclusive("cannot start the server child: %v", err)
	}
	restarts := 0

	rapid.Check(t, func(t *rapid.T) {
		ensure()
		var req vc06Req
		switch rapid.SampledFrom([]string{"import", "import", "import", "query", "query", "message"}).Draw(t, "entry") {
		case "import":
			req = vc06GenImport(t)
		case "query":
			req = vc06GenQuery(t)
		default:
			req = vc06GenMessage(t)
		}
		c := vkit.NewCase().Key(req.kind, req.path, req.body)
		defer c.Done()
		c.Class("entry:" + req.kind)
		if req.kind == "import" && req.bodyValid {
			for _, cl := range req.classes {
				c.Class(cl)
			}
		} else {
			c.Class(req.kind + ":" + req.label)
		}
		c.Sample(map[string]interface{}{"entry": req.kind, "request": req.desc})

		before, nrows, err := child.contents()
		if err != nil || (before == "" && nrows > 0) {
			// state left by earlier accepted requests is too large or unreadable: start from a clean field
			if rerr := child.resetField(); rerr != nil {
				child.stop()
				ensure()
			}
			before, _, err = child.contents()
			if err != nil {
				t.Fatalf("cannot read the field on a fresh field: %v", err)
			}
		}

		rep := child.do(req.method, req.path, req.body, req.hdr)

		fail := func(format string, args ...interface{}) {
			msg := fmt.Sprintf(format, args...)
			t.Fatalf("%s\nrequest: %s %s  %s\nreply: err=%v status=%d %s", msg, req.method, req.path, req.desc, rep.err, rep.status, vc06Short(rep.body))
		}
		if !child.alive() {
			tail := child.tail()
			fail("the server process died (%v) while serving the request:\n%s", child.err, tail)
		}
		if rep.err != nil {
			// no reply although the process lives: a hang (or a dropped connection)
			dump := child.goroutines()
			child.stop()
			fail("no HTTP reply (hang?) — goroutines of the server:\n%s", dump)
		}
		panicked := rep.status == 500 && bytes.HasPrefix(rep.body, []byte("PANIC:"))
		c.ClassIf(panicked, "reply:500-PANIC-recovered")
		c.Class(fmt.Sprintf("reply:%d", rep.status))
		if rep.status < 200 || rep.status >= 600 {
			fail("reply status %d", rep.status)
		}
		accepted := rep.status >= 200 && rep.status < 300
		if req.kind == "query" && !req.parses && accepted {
			fail("text that pql.ParseString rejects was accepted")
		}
		// non-trivial: the request got past the first validation (decoding reached the containers / the executor / the message decoder)
		switch req.kind {
		case "import":
			c.NT(accepted || bytes.Contains(rep.body, []byte("container")) || bytes.Contains(rep.body, []byte("offset")))
		case "query":
			c.NT(req.parses || panicked)
		case "message":
			c.NT(accepted || bytes.Contains(rep.body, []byte("receiving message")))
		}

		// the child must still be alive a moment later too (import workers and snapshots run in other goroutines)
		after, _, cerr := child.contents()
		if !child.alive() {
			fail("the server process died (%v) after the request was answered:\n%s", child.err, child.tail())
		}
		if req.kind == "message" {
			// an accepted message may legitimately change the state of the node (a well-formed ClusterStatus adds a
			// peer that does not exist, and every later schema change then fails to reach it); only liveness is judged,
			// and the child is replaced when its view of the cluster is no longer "one node, NORMAL"
			if cerr != nil || child.canary() != nil || !child.pristine() {
				if !child.alive() {
					fail("the server process died (%v) after the message:\n%s", child.err, child.tail())
				}
				c.Class("message:state-changed-restart")
				child.stop()
				restarts++
			}
			return
		}
		if cerr != nil {
			if !child.alive() {
				fail("the server process died (%v):\n%s", child.err, child.tail())
			}
			fail("the field cannot be read after the request: %v", cerr)
		}
		rejected := !accepted
		mustBeUnchanged := rejected && (req.kind == "import" || (req.kind == "query" && !req.parses))
		if mustBeUnchanged && after != before && after != "" {
			if req.kind == "import" && vkit.Open("D6") {
				vkit.Excluded("D6")
				c.Class("D6-partial-import")
				child.resetField()
				return
			}
			fail("the request was rejected but the data of field f changed:\n before %s\n after  %s", vc06Short([]byte(before)), vc06Short([]byte(after)))
		}
		if err := child.canary(); err != nil {
			if !child.alive() {
				fail("the server process died (%v) during the canary:\n%s", child.err, child.tail())
			}
			dump := ""
			if strings.Contains(err.Error(), "did not complete") {
				dump = "\ngoroutines:\n" + child.goroutines()
				child.stop()
			}
			fail("canary after the request failed: %v%s", err, dump)
		}
		if !child.alive() {
			fail("the server process died (%v) after the canary:\n%s", child.err, child.tail())
		}
	})
	vkit.Extra("child_restarts_after_messages", restarts)
}

var _ = context.Background

func vc06WitnessChild(t *testing.T) *vc06Child {
	child, err := vc06StartChild()
	if err == nil {
		err = child.setup()
	}
	if err != nil {
		vgpInconclusive("cannot start the server child: %v", err)
	}
	return child
}

func vc06ImportBody(t *testing.T, views map[string][]byte) []byte {
	var ser proto.Serializer
	buf, err := ser.Marshal(&pilosa.ImportRoaringRequest{Views: views})
	if err != nil {
		t.Fatal(err)
	}
	return buf
}

// D5 (import worker): a 1-byte view payload was sliced [0:2] in the worker goroutine, which has no recover.
func TestVerifWitness_D5_ImportWorker(t *testing.T) {
	child := vc06WitnessChild(t)
	defer child.stop()
	rep := child.do("POST", "/index/"+vc06Index+"/field/f/import-roaring/0", vc06ImportBody(t, map[string][]byte{"": {0x3c}}), vc06Proto)
	time.Sleep(200 * time.Millisecond)
	if !child.alive() {
		t.Fatalf("the server died on an import-roaring request whose view holds 1 byte (reply: %v %d):\n%s", rep.err, rep.status, child.tail())
	}
	if rep.err != nil || rep.status < 400 {
		t.Fatalf("1-byte import payload: reply err=%v status=%d %s", rep.err, rep.status, vc06Short(rep.body))
	}
	if err := child.canary(); err != nil {
		t.Fatalf("canary after the request: %v", err)
	}
}

// DP12: the views of one import request were applied one by one; a request rejected because of its second view left the first applied.
func TestVerifWitness_DP12(t *testing.T) {
	child := vc06WitnessChild(t)
	defer child.stop()
	good := vc06EncodePilosa([]vc06Cont{{Key: 16 * 40, Typ: 1, Vals: []uint16{7}}}).Data // row 40, column 7
	for i := 0; i < 40; i++ {                                                            // the order in which the views are applied is a map order
		before, _, err := child.contents()
		if err != nil {
			t.Fatal(err)
		}
		rep := child.do("POST", "/index/"+vc06Index+"/field/f/import-roaring/0", vc06ImportBody(t, map[string][]byte{"": good, "x": {}}), vc06Proto)
		if rep.err != nil || rep.status < 400 {
			t.Fatalf("import with an empty second view: reply err=%v status=%d %s", rep.err, rep.status, vc06Short(rep.body))
		}
		after, _, err := child.contents()
		if err != nil {
			t.Fatal(err)
		}
		if after != before {
			t.Fatalf("the import request was rejected (%d %s) but its first view was applied:\n before %s\n after  %s", rep.status, vc06Short(rep.body), before, after)
		}
	}
}
