package server_test

// C16 — Rows, GroupBy, MinRow and MaxRow return exact, consistently paged results.
// Oracle: the model of gpql_model_test.go; documentation: docs/query-language.md (Rows, Group By).

import (
	"fmt"
	"strings"
	"testing"
	"time"

	"github.com/pilosa/pilosa"
	"github.com/pilosa/pilosa/internal/vkit"
	"pgregory.net/rapid"
)

// ---------------------------------------------------------------------------------------------------------------------
// Rows

type vq2RowsCall struct {
	Field string
	Bool  bool // bool field: rows are written true/false
	Prev  *uint64
	Limit *uint64
	Col   *uint64
	From  *time.Time
	To    *time.Time
}

func (c vq2RowsCall) pql() string {
	s := "Rows(" + c.Field
	if c.Prev != nil {
		if c.Bool {
			s += fmt.Sprintf(", previous=%v", *c.Prev == 1)
		} else {
			s += fmt.Sprintf(", previous=%d", *c.Prev)
		}
	}
	if c.Limit != nil {
		s += fmt.Sprintf(", limit=%d", *c.Limit)
	}
	if c.Col != nil {
		s += fmt.Sprintf(", column=%d", *c.Col)
	}
	if c.From != nil {
		s += fmt.Sprintf(", from='%s'", c.From.Format(vq2TimeFmt))
	}
	if c.To != nil {
		s += fmt.Sprintf(", to='%s'", c.To.Format(vq2TimeFmt))
	}
	return s + ")"
}

// rows: "a list of row IDs in the given field which have at least one bit set" [in column] [within the time span],
// ascending, after previous, at most limit.
func (m *vq2Model) rows(c vq2RowsCall) []uint64 {
	f := m.field(c.Field)
	timeRange := f.Kind == "time" && (c.From != nil || c.To != nil || f.NoStd)
	out := []uint64{}
	for _, r := range f.allRows() {
		if c.Prev != nil && r <= *c.Prev {
			continue
		}
		var cols vq2Set
		if timeRange {
			cols = f.rowRange(r, c.From, c.To)
		} else {
			cols = f.rowStd(r)
		}
		if c.Col != nil {
			if !cols[*c.Col] {
				continue
			}
		} else if len(cols) == 0 {
			continue
		}
		out = append(out, r)
	}
	if c.Limit != nil && uint64(len(out)) > *c.Limit {
		out = out[:*c.Limit]
	}
	return out
}

func vq2RunRows(t vq2T, env *vq2Env, idx string, m *vq2Model, c vq2RowsCall, desc func() string) []uint64 {
	q := c.pql()
	rs, err := env.query(idx, q)
	if err != nil {
		t.Fatalf("%s: unexpected error: %v\n%s", q, err, desc())
	}
	ri, ok := rs[0].(pilosa.RowIdentifiers)
	if !ok {
		t.Fatalf("%s: result type %T, want pilosa.RowIdentifiers", q, rs[0])
	}
	if len(ri.Keys) != 0 {
		t.Fatalf("%s: keys %v returned for an unkeyed field", q, ri.Keys)
	}
	want := m.rows(c)
	if !vq2EqU64(ri.Rows, want) {
		t.Fatalf("%s = %v, want %v\n%s", q, ri.Rows, want, desc())
	}
	return ri.Rows
}

func vq2U64p(v uint64) *uint64 { return &v }

// vq2GenMutations draws and applies (to the model) a program that leaves high-water marks behind: rows that were
// set and are empty again, rows created by Store. It returns the PQL text of the program.
func vq2GenMutations(t *rapid.T, m *vq2Model, cols []uint64, c *vkit.Case) []string {
	var out []string
	g := &vq2ExprGen{m: m, cols: cols, maxDepth: 2, noMiss: true, noNot: !m.Track}
	n := rapid.IntRange(0, 6).Draw(t, "nmut")
	emptied := false
	for i := 0; i < n; i++ {
		var cands []*vq2Field
		for _, f := range m.Fields {
			if f.Kind == "set" || f.Kind == "time" {
				cands = append(cands, f)
			}
		}
		f := rapid.SampledFrom(cands).Draw(t, "mfield")
		rows := f.allRows()
		kind := rapid.SampledFrom([]string{"sethigh", "clearbits", "clearrow", "storeempty", "store", "write"}).Draw(t, "mkind")
		pickRow := func() (uint64, bool) {
			if len(rows) == 0 {
				return 0, false
			}
			// prefer the extremes: they are what MinRow/MaxRow and paging look at
			switch rapid.IntRange(0, 3).Draw(t, "which") {
			case 0:
				return rows[0], true
			case 1, 2:
				return rows[len(rows)-1], true
			}
			return rapid.SampledFrom(rows).Draw(t, "mrow"), true
		}
		var ops []vq2Op
		switch kind {
		case "sethigh":
			r := rapid.SampledFrom([]uint64{1000, 1001, 2000, 150}).Draw(t, "highrow")
			o := vq2Op{Kind: "set", Field: f.Name, Row: r, Col: rapid.SampledFrom(cols).Draw(t, "col")}
			if f.Kind == "time" && (f.NoStd || rapid.Bool().Draw(t, "ts?")) {
				ts := rapid.SampledFrom(vq2TimePool).Draw(t, "ts")
				o.TS = &ts
			}
			ops = append(ops, o)
		case "clearbits":
			r, ok := pickRow()
			if !ok {
				continue
			}
			cs := f.rowStd(r)
			for c := range f.tv[r] {
				cs[c] = true
			}
			for _, c := range cs.sorted() {
				ops = append(ops, vq2Op{Kind: "clear", Field: f.Name, Row: r, Col: c})
			}
			emptied = true
		case "clearrow":
			r, ok := pickRow()
			if !ok {
				continue
			}
			ops = append(ops, vq2Op{Kind: "clearrow", Field: f.Name, Row: r})
			emptied = true
		case "storeempty":
			r, ok := pickRow()
			if !ok || f.Kind != "set" {
				continue
			}
			ops = append(ops, vq2Op{Kind: "store", Field: f.Name, Row: r, Src: &vq2Expr{Op: "row", Field: f.Name, Row: 4242}})
			emptied = true
		case "store":
			if f.Kind != "set" {
				continue
			}
			r := rapid.SampledFrom([]uint64{5, 150, 1000, 3000}).Draw(t, "storerow")
			src := g.gen(t, 0)
			if ev := m.eval(src, true); ev.d18 && vkit.Open("D18") {
				vkit.Excluded("D18")
				continue
			}
			ops = append(ops, vq2Op{Kind: "store", Field: f.Name, Row: r, Src: src})
		default:
			o := vq2GenWrite(t, m, cols, g)
			if o.Kind == "store" {
				if ev := m.eval(o.Src, true); ev.d18 && vkit.Open("D18") {
					vkit.Excluded("D18")
					continue
				}
			}
			ops = append(ops, o)
		}
		for _, o := range ops {
			out = append(out, o.pql(m))
			m.apply(o)
		}
		c.Class("mut:" + kind)
	}
	c.ClassIf(emptied, "rowSetThenEmptied")
	c.NT(emptied)
	return out
}

// vq2Setup creates the index, loads data and applies the mutation program.
func vq2Setup(t *rapid.T, env *vq2Env, prefix string, opt vq2DataOpt, c *vkit.Case) (*vq2Model, []uint64, string, func() string) {
	m, cols, ops := vq2GenData(t, opt)
	idx := env.create(t, prefix, m)
	loadText := vq2OpsText(m, ops)
	env.load(t, idx, m, ops)
	muts := vq2GenMutations(t, m, cols, c)
	if len(muts) > 0 {
		if _, err := env.query(idx, strings.Join(muts, " ")); err != nil {
			t.Fatalf("mutation program: %v\n%s", err, strings.Join(muts, " "))
		}
	}
	desc := func() string {
		return "schema: " + vq2SchemaText(m) + "\ndata: " + loadText + "\nthen: " + strings.Join(muts, " ")
	}
	return m, cols, idx, desc
}

// vq2ShardsDiffer: do at least two shards hold different sets of rows of f (standard view or time views)?
func vq2ShardsDiffer(f *vq2Field) bool {
	per := map[uint64]string{}
	all := map[uint64]vq2Set{}
	for _, r := range f.allRows() {
		cs := f.rowStd(r)
		for c := range f.tv[r] {
			cs[c] = true
		}
		for c := range cs {
			if all[c/vq2SW] == nil {
				all[c/vq2SW] = vq2Set{}
			}
			all[c/vq2SW][r] = true
		}
	}
	seen := map[string]bool{}
	for sh, rs := range all {
		per[sh] = fmt.Sprint(rs.sorted())
		seen[per[sh]] = true
	}
	return len(seen) >= 2
}

// TestVerifC16_Rows: Rows with every subset of previous / limit / column / from / to, and paging loops.
func TestVerifC16_Rows(t *testing.T) {
	defer vkit.Flush()
	env := vq2Start()
	defer env.Close()
	rapid.Check(t, func(t *rapid.T) {
		c := vkit.NewCase()
		defer c.Done()
		opt := vq2DataOpt{SetFields: 2, Time: true, TimeNoStd: true, MaxBits: 14, RowsLo: 2, RowsHi: 5,
			Mutex: rapid.IntRange(0, 3).Draw(t, "mutex?") == 0, Bool: rapid.IntRange(0, 3).Draw(t, "bool?") == 0}
		m, cols, idx, desc := vq2Setup(t, env, "c16r", opt, c)
		defer env.drop(idx)
		var qs []string
		ncalls := rapid.IntRange(4, 10).Draw(t, "ncalls")
		for i := 0; i < ncalls; i++ {
			f := rapid.SampledFrom(m.Fields).Draw(t, "field")
			call := vq2RowsCall{Field: f.Name, Bool: f.Kind == "bool"}
			c.Class("rows:" + f.Kind)
			if f.Kind == "time" {
				switch rapid.IntRange(0, 5).Draw(t, "range") {
				case 0, 1:
					from, to := vq2GenBound(t, f, "from"), vq2GenBound(t, f, "to")
					if to.Before(from) {
						from, to = to, from
					}
					call.From, call.To = &from, &to
				case 2:
					from := vq2GenBound(t, f, "from")
					call.From = &from
				case 3:
					to := vq2GenBound(t, f, "to")
					call.To = &to
				}
				c.ClassIf(call.From != nil || call.To != nil, "rows:timeRange")
				c.ClassIf(f.NoStd, "rows:noStandardView")
			}
			if rapid.IntRange(0, 2).Draw(t, "col?") == 0 {
				col := rapid.SampledFrom(cols).Draw(t, "col")
				if rapid.IntRange(0, 5).Draw(t, "colmiss") == 0 {
					col++
				}
				call.Col = &col
				c.Class("rows:column")
			}
			c.NT(vq2ShardsDiffer(f))
			c.ClassIf(vq2ShardsDiffer(f), "shardsHoldDifferentRows")
			if rapid.IntRange(0, 2).Draw(t, "paging?") == 0 {
				// paging loop: previous = last row of the previous page, fixed limit, until a short page
				lim := uint64(rapid.IntRange(1, 3).Draw(t, "pagelimit"))
				unpaged := m.rows(call)
				var got []uint64
				page := call
				page.Limit = &lim
				pages := 0
				for {
					qs = append(qs, page.pql())
					rows := vq2RunRows(t, env, idx, m, page, desc)
					got = append(got, rows...)
					pages++
					if uint64(len(rows)) < lim {
						break
					}
					if pages > len(unpaged)+2 {
						t.Fatalf("paging %s with limit=%d does not terminate: %d pages so far, rows %v\n%s", call.pql(), lim, pages, got, desc())
					}
					page.Prev = vq2U64p(rows[len(rows)-1])
				}
				if !vq2EqU64(got, unpaged) {
					t.Fatalf("pages of %s (limit=%d) concatenate to %v, unpaged result is %v\n%s", call.pql(), lim, got, unpaged, desc())
				}
				c.Class("rows:pagingLoop")
				c.ClassIf(pages >= 3, "rows:pagingLoop>=3pages")
				c.NT(pages >= 3)
				continue
			}
			if rapid.IntRange(0, 1).Draw(t, "prev?") == 0 {
				all := f.allRows()
				var p uint64
				if len(all) > 0 && rapid.IntRange(0, 3).Draw(t, "prevExisting") > 0 {
					p = rapid.SampledFrom(all).Draw(t, "prev")
				} else {
					p = rapid.SampledFrom(vq2RowUniverse).Draw(t, "prev")
				}
				if call.Bool && p > 1 {
					p = 1
				}
				call.Prev = &p
				c.Class("rows:previous")
			}
			if rapid.IntRange(0, 1).Draw(t, "limit?") == 0 {
				call.Limit = vq2U64p(uint64(rapid.IntRange(0, 4).Draw(t, "limit")))
				c.Class("rows:limit")
			}
			qs = append(qs, call.pql())
			rows := vq2RunRows(t, env, idx, m, call, desc)
			c.ClassIf(len(rows) == 0, "rows:emptyResult")
		}
		c.Key("rows", desc(), qs)
		c.Class("shards:%d", len(vq2Shards(cols)))
		c.Sample(map[string]interface{}{"setup": desc(), "calls": qs})
	})
}

// ---------------------------------------------------------------------------------------------------------------------
// GroupBy

type vq2Group struct {
	Rows  []uint64
	Count uint64
}

type vq2GroupBy struct {
	Kids   []vq2RowsCall // Prev of each child = paging cursor
	Filter *vq2Expr
	Limit  *uint64
	Offset *uint64
}

func (g vq2GroupBy) pql(m *vq2Model) string {
	var parts []string
	for _, k := range g.Kids {
		parts = append(parts, k.pql())
	}
	if g.Limit != nil {
		parts = append(parts, fmt.Sprintf("limit=%d", *g.Limit))
	}
	if g.Offset != nil {
		parts = append(parts, fmt.Sprintf("offset=%d", *g.Offset))
	}
	if g.Filter != nil {
		parts = append(parts, "filter="+g.Filter.pql(m))
	}
	return "GroupBy(" + strings.Join(parts, ", ") + ")"
}

func vq2TupleLess(a, b []uint64) bool { // a < b lexicographically
	for i := range a {
		if a[i] != b[i] {
			return a[i] < b[i]
		}
	}
	return false
}

// groupBy: "the count of the intersection of every combination of rows taking one row each from the specified Rows
// calls ... only those combinations for which the count is greater than 0", ordered, after the `previous` cursor,
// then offset, then limit.
func (m *vq2Model) groupBy(g vq2GroupBy) []vq2Group {
	var filter vq2Set
	if g.Filter != nil {
		filter = m.eval(g.Filter, true).set
	}
	lists := make([][]uint64, len(g.Kids))
	var cursor []uint64
	for i, k := range g.Kids {
		if k.Prev != nil {
			cursor = append(cursor, *k.Prev)
		}
		k.Prev = nil
		lists[i] = m.rows(k)
	}
	var out []vq2Group
	var rec func(i int, tuple []uint64, acc vq2Set)
	rec = func(i int, tuple []uint64, acc vq2Set) {
		if i == len(g.Kids) {
			if len(acc) > 0 && (cursor == nil || vq2TupleLess(cursor, tuple)) {
				out = append(out, vq2Group{Rows: append([]uint64(nil), tuple...), Count: uint64(len(acc))})
			}
			return
		}
		f := m.field(g.Kids[i].Field)
		for _, r := range lists[i] {
			next := vq2Set{}
			for c := range f.std[r] {
				if (acc == nil || acc[c]) && (i > 0 || filter == nil || filter[c]) {
					next[c] = true
				}
			}
			rec(i+1, append(tuple, r), next)
		}
	}
	rec(0, nil, nil)
	if g.Offset != nil {
		if *g.Offset >= uint64(len(out)) {
			out = nil
		} else {
			out = out[*g.Offset:]
		}
	}
	if g.Limit != nil && uint64(len(out)) > *g.Limit {
		out = out[:*g.Limit]
	}
	return out
}

func vq2GroupsText(gs []vq2Group) string {
	var sb strings.Builder
	for _, g := range gs {
		fmt.Fprintf(&sb, "%v:%d ", g.Rows, g.Count)
	}
	return "[" + strings.TrimSpace(sb.String()) + "]"
}

func vq2RunGroupBy(t vq2T, env *vq2Env, idx string, m *vq2Model, g vq2GroupBy, desc func() string) []vq2Group {
	q := g.pql(m)
	rs, err := env.query(idx, q)
	if err != nil {
		t.Fatalf("%s: unexpected error: %v\n%s", q, err, desc())
	}
	gcs, ok := rs[0].([]pilosa.GroupCount)
	if !ok {
		t.Fatalf("%s: result type %T, want []pilosa.GroupCount", q, rs[0])
	}
	var got []vq2Group
	for _, gc := range gcs {
		if len(gc.Group) != len(g.Kids) {
			t.Fatalf("%s: group %v has %d entries, want %d", q, gc, len(gc.Group), len(g.Kids))
		}
		vg := vq2Group{Count: gc.Count}
		for i, fr := range gc.Group {
			if fr.Field != g.Kids[i].Field {
				t.Fatalf("%s: group %v names field %q at position %d, want %q", q, gc, fr.Field, i, g.Kids[i].Field)
			}
			vg.Rows = append(vg.Rows, fr.RowID)
		}
		got = append(got, vg)
	}
	want := m.groupBy(g)
	if vq2GroupsText(got) != vq2GroupsText(want) {
		t.Fatalf("%s =\n   %s, want\n   %s\n%s", q, vq2GroupsText(got), vq2GroupsText(want), desc())
	}
	return got
}

// TestVerifC16_GroupBy: GroupBy unpaged, with limit, paged by limit+offset and by limit+previous.
func TestVerifC16_GroupBy(t *testing.T) {
	defer vkit.Flush()
	env := vq2Start()
	defer env.Close()
	rapid.Check(t, func(t *rapid.T) {
		c := vkit.NewCase()
		defer c.Done()
		opt := vq2DataOpt{SetFields: rapid.IntRange(2, 3).Draw(t, "nset"), Time: rapid.Bool().Draw(t, "time?"), MinBits: rapid.SampledFrom([]int{0, 4, 8}).Draw(t, "minbits"), MaxBits: 20, RowsLo: 1, RowsHi: 4,
			Mutex: rapid.IntRange(0, 3).Draw(t, "mutex?") == 0, Bool: rapid.IntRange(0, 3).Draw(t, "bool?") == 0}
		m, cols, idx, desc := vq2Setup(t, env, "c16g", opt, c)
		defer env.drop(idx)
		eg := &vq2ExprGen{m: m, cols: cols, maxDepth: 2, noMiss: true, noNot: !m.Track}
		var qs []string
		run := func(g vq2GroupBy) []vq2Group {
			qs = append(qs, g.pql(m))
			return vq2RunGroupBy(t, env, idx, m, g, desc)
		}
		ncalls := rapid.IntRange(2, 5).Draw(t, "ncalls")
		for i := 0; i < ncalls; i++ {
			var g vq2GroupBy
			nk := rapid.SampledFrom([]int{1, 2, 2, 2, 3, 3}).Draw(t, "nkids")
			plain := true
			for k := 0; k < nk; k++ {
				f := rapid.SampledFrom(m.Fields).Draw(t, "kidfield")
				kc := vq2RowsCall{Field: f.Name, Bool: f.Kind == "bool"}
				c.ClassIf(f.Kind == "bool" || f.Kind == "mutex", "gb:boolOrMutexChild")
				switch rapid.IntRange(0, 7).Draw(t, "kidarg") {
				case 0:
					kc.Limit = vq2U64p(uint64(rapid.IntRange(1, 3).Draw(t, "kidlimit")))
					plain = false
					c.Class("gb:childLimit")
				case 1:
					kc.Col = vq2U64p(rapid.SampledFrom(cols).Draw(t, "kidcol"))
					plain = false
					c.Class("gb:childColumn")
				}
				g.Kids = append(g.Kids, kc)
			}
			c.Class("gb:children:%d", nk)
			if rapid.IntRange(0, 2).Draw(t, "filter?") == 0 {
				g.Filter = eg.gen(t, 0)
				if ev := m.eval(g.Filter, true); ev.d18 && vkit.Open("D18") {
					vkit.Excluded("D18")
					g.Filter = nil
				} else {
					c.Class("gb:filter")
				}
			}
			// unpaged
			all := run(g)
			c.ClassIf(len(all) == 0, "gb:emptyResult")
			c.Class("gb:groups:%s", vq2Bucket(len(all)))
			lim := uint64(rapid.SampledFrom([]int{1, 1, 2, 2, 3, 5}).Draw(t, "limit"))
			mode := rapid.SampledFrom([]string{"limit", "offset", "previous", "previous", "cursor", "cursor"}).Draw(t, "mode")
			if !plain && (mode == "previous" || mode == "cursor") {
				// a child's own limit/column is applied by Rows semantics together with `previous`; the documented
				// paging protocol is only unambiguous for plain Rows children
				mode = "offset"
			}
			switch mode {
			case "limit":
				gl := g
				gl.Limit = &lim
				run(gl)
				c.Class("gb:limit")
			case "offset":
				var got []vq2Group
				pages := 0
				for off := uint64(0); ; off += lim {
					gp := g
					gp.Limit = &lim
					gp.Offset = vq2U64p(off)
					page := run(gp)
					got = append(got, page...)
					pages++
					if uint64(len(page)) < lim {
						break
					}
					if pages > len(all)+2 {
						t.Fatalf("paging %s by offset (limit=%d) does not terminate\n%s", g.pql(m), lim, desc())
					}
				}
				if vq2GroupsText(got) != vq2GroupsText(all) {
					t.Fatalf("limit/offset pages of %s (limit=%d) concatenate to\n   %s, unpaged result is\n   %s\n%s", g.pql(m), lim, vq2GroupsText(got), vq2GroupsText(all), desc())
				}
				c.Class("gb:pagedByOffset")
				c.ClassIf(pages >= 3, "gb:pagingLoop>=3pages")
				c.NT(pages >= 3)
				if rapid.IntRange(0, 3).Draw(t, "offsetOnly?") == 0 {
					go_ := g
					go_.Offset = vq2U64p(uint64(rapid.IntRange(0, len(all)+1).Draw(t, "offset")))
					run(go_)
					c.Class("gb:offsetWithoutLimit")
				}
			case "previous":
				var got []vq2Group
				pages := 0
				gp := g
				gp.Kids = append([]vq2RowsCall(nil), g.Kids...)
				gp.Limit = &lim
				for {
					page := run(gp)
					got = append(got, page...)
					pages++
					if uint64(len(page)) < lim {
						break
					}
					if pages > len(all)+2 {
						t.Fatalf("paging %s by previous (limit=%d) does not terminate\n%s", g.pql(m), lim, desc())
					}
					last := page[len(page)-1]
					for k := range gp.Kids {
						gp.Kids[k].Prev = vq2U64p(last.Rows[k])
					}
				}
				if vq2GroupsText(got) != vq2GroupsText(all) {
					t.Fatalf("limit/previous pages of %s (limit=%d) concatenate to\n   %s, unpaged result is\n   %s\n%s", g.pql(m), lim, vq2GroupsText(got), vq2GroupsText(all), desc())
				}
				c.Class("gb:pagedByPrevious")
				c.ClassIf(pages >= 3, "gb:pagingLoop>=3pages")
				c.NT(pages >= 3)
			case "cursor":
				// previous = any group of the result (it is the last group of some earlier page), with or without limit
				if len(all) == 0 {
					break
				}
				at := rapid.IntRange(0, len(all)-1).Draw(t, "cursorAt")
				gp := g
				gp.Kids = append([]vq2RowsCall(nil), g.Kids...)
				for k := range gp.Kids {
					gp.Kids[k].Prev = vq2U64p(all[at].Rows[k])
				}
				if rapid.Bool().Draw(t, "cursorLimit?") {
					gp.Limit = &lim
				}
				run(gp)
				c.Class("gb:previousCursor")
			}
			// does the innermost iterator wrap (>= 2 rows in the first child and >= 1 group beyond the first row)?
			if nk >= 2 && len(all) >= 2 && all[0].Rows[0] != all[len(all)-1].Rows[0] {
				c.Class("gb:innerIteratorWraps")
				c.NT(true)
			}
		}
		c.Key("groupby", desc(), qs)
		c.Class("shards:%d", len(vq2Shards(cols)))
		c.Sample(map[string]interface{}{"setup": desc(), "calls": qs})
	})
}

func vq2Bucket(n int) string {
	switch {
	case n == 0:
		return "0"
	case n <= 2:
		return "1-2"
	case n <= 5:
		return "3-5"
	case n <= 10:
		return "6-10"
	}
	return ">10"
}

// ---------------------------------------------------------------------------------------------------------------------
// MinRow / MaxRow

// TestVerifC16_MinMaxRow: MinRow/MaxRow(field=f) with and without a filter row, after rows were emptied again.
func TestVerifC16_MinMaxRow(t *testing.T) {
	defer vkit.Flush()
	env := vq2Start()
	defer env.Close()
	rapid.Check(t, func(t *rapid.T) {
		c := vkit.NewCase()
		defer c.Done()
		opt := vq2DataOpt{SetFields: 2, Time: rapid.Bool().Draw(t, "time?"), MaxBits: 10, RowsLo: 1, RowsHi: 5,
			Mutex: rapid.IntRange(0, 3).Draw(t, "mutex?") == 0, Bool: rapid.IntRange(0, 3).Draw(t, "bool?") == 0}
		m, cols, idx, desc := vq2Setup(t, env, "c16m", opt, c)
		defer env.drop(idx)
		eg := &vq2ExprGen{m: m, cols: cols, maxDepth: 2, noMiss: true, noNot: !m.Track}
		var qs []string
		ncalls := rapid.IntRange(3, 8).Draw(t, "ncalls")
		for i := 0; i < ncalls; i++ {
			f := rapid.SampledFrom(m.Fields).Draw(t, "field")
			name := rapid.SampledFrom([]string{"MinRow", "MaxRow"}).Draw(t, "call")
			c.Class("minmax:" + f.Kind)
			var filter *vq2Expr
			var fset vq2Set
			if rapid.Bool().Draw(t, "filter?") {
				filter = eg.gen(t, 0)
				ev := m.eval(filter, true)
				if ev.d18 && vkit.Open("D18") {
					vkit.Excluded("D18")
					filter = nil
				} else {
					fset = ev.set
					c.Class("minmax:filter")
				}
			}
			// rows of the standard view with at least one bit (within the filter), ascending
			var rows []uint64
			for _, r := range f.rowIDsStd() {
				if filter == nil {
					rows = append(rows, r)
					continue
				}
				for col := range f.std[r] {
					if fset[col] {
						rows = append(rows, r)
						break
					}
				}
			}
			q := fmt.Sprintf("%s(field=%s)", name, f.Name)
			if filter != nil {
				q = fmt.Sprintf("%s(%s, field=%s)", name, filter.pql(m), f.Name)
			}
			qs = append(qs, q)
			rs, err := env.query(idx, q)
			if err != nil {
				t.Fatalf("%s: unexpected error: %v\n%s", q, err, desc())
			}
			p, ok := rs[0].(pilosa.Pair)
			if !ok {
				t.Fatalf("%s: result type %T, want pilosa.Pair", q, rs[0])
			}
			if len(rows) == 0 {
				c.Class("minmax:noRow")
				if p.Count != 0 {
					t.Fatalf("%s = {id:%d count:%d}, but no row of %s has a bit%s: want count 0\n%s", q, p.ID, p.Count, f.Name, map[bool]string{true: " within the filter", false: ""}[filter != nil], desc())
				}
				continue
			}
			want := rows[0]
			if name == "MaxRow" {
				want = rows[len(rows)-1]
			}
			if p.Count == 0 || p.ID != want {
				t.Fatalf("%s = {id:%d count:%d}, want row %d with a count > 0 (rows with a bit%s: %v)\n%s", q, p.ID, p.Count, want, map[bool]string{true: " within the filter", false: ""}[filter != nil], rows, desc())
			}
			c.NT(vq2ShardsDiffer(f))
		}
		c.Key("minmax", desc(), qs)
		c.Class("shards:%d", len(vq2Shards(cols)))
		c.Sample(map[string]interface{}{"setup": desc(), "calls": qs})
	})
}
