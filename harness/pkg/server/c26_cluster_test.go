package server_test

// C26 — end to end: on a 2-node cluster a query whose execution forwards calls to the peer
// (Set/Clear to the owner of the shard, SetRowAttrs/SetColumnAttrs to every node, TopN with ids,
// conditions with null, attribute values that are floats) gives the same typed result as the
// same query sequence on a single node.

import (
	"context"
	"fmt"
	"os"
	"sort"
	"strconv"
	"strings"
	"testing"
	"time"

	"github.com/pilosa/pilosa"
	"github.com/pilosa/pilosa/internal/vkit"
	"github.com/pilosa/pilosa/test"
	"pgregory.net/rapid"
)

func vc26StartCluster(n int) test.Cluster {
	var lastErr error
	for attempt := 0; attempt < 3; attempt++ {
		c, err := vc26TryCluster(n)
		if err == nil {
			return c
		}
		lastErr = err
		time.Sleep(500 * time.Millisecond)
	}
	vgpInconclusive("cannot start a %d-node cluster on loopback: %v", n, lastErr)
	return nil
}

func vc26TryCluster(n int) (c test.Cluster, err error) {
	defer func() {
		if r := recover(); r != nil {
			err = fmt.Errorf("panic while starting: %v", r)
		}
	}()
	c = test.MustNewCluster(vc26TB{}, n)
	if err := c.Start(); err != nil {
		c.Close()
		return nil, err
	}
	deadline := time.Now().Add(20 * time.Second)
	for {
		ok := true
		for _, m := range c {
			if m.API.State() != pilosa.ClusterStateNormal || len(m.API.Hosts(context.Background())) != n {
				ok = false
			}
		}
		if ok {
			return c, nil
		}
		if time.Now().After(deadline) {
			c.Close()
			return nil, fmt.Errorf("cluster did not reach state NORMAL with %d hosts", n)
		}
		time.Sleep(20 * time.Millisecond)
	}
}

// vc26TB is a testing.TB for helpers that want one outside of a test; failures panic (recovered above).
type vc26TB struct{ testing.TB }

func (vc26TB) Fatalf(format string, args ...interface{}) { panic(fmt.Sprintf(format, args...)) }
func (vc26TB) Fatal(args ...interface{})                 { panic(fmt.Sprint(args...)) }
func (vc26TB) Helper()                                   {}

func vc26Attrs(m map[string]interface{}) string {
	keys := make([]string, 0, len(m))
	for k := range m {
		keys = append(keys, k)
	}
	sort.Strings(keys)
	var sb strings.Builder
	sb.WriteString("{")
	for _, k := range keys {
		v := m[k]
		switch x := v.(type) {
		case float64:
			fmt.Fprintf(&sb, "%s:float64(%s) ", k, strconv.FormatFloat(x, 'g', -1, 64))
		case string:
			fmt.Fprintf(&sb, "%s:string(%q) ", k, x)
		default:
			fmt.Fprintf(&sb, "%s:%T(%v) ", k, v, v)
		}
	}
	sb.WriteString("}")
	return sb.String()
}

// canonical, typed rendering of one query result; TopN pairs are sorted because the order of ties is unspecified
func vc26Canon(v interface{}) string {
	switch r := v.(type) {
	case nil:
		return "nil"
	case *pilosa.Row:
		if r == nil {
			return "Row(nil)"
		}
		return fmt.Sprintf("Row{cols:%v keys:%q attrs:%s}", r.Columns(), r.Keys, vc26Attrs(r.Attrs))
	case []pilosa.Pair:
		ps := append([]pilosa.Pair(nil), r...)
		sort.Slice(ps, func(i, j int) bool {
			if ps[i].Count != ps[j].Count {
				return ps[i].Count > ps[j].Count
			}
			if ps[i].ID != ps[j].ID {
				return ps[i].ID < ps[j].ID
			}
			return ps[i].Key < ps[j].Key
		})
		return fmt.Sprintf("Pairs%v", ps)
	case pilosa.RowIDs:
		return fmt.Sprintf("RowIDs%v", []uint64(r))
	case pilosa.RowIdentifiers:
		return fmt.Sprintf("RowIdentifiers{rows:%v keys:%q}", r.Rows, r.Keys)
	case *pilosa.RowIdentifiers:
		return fmt.Sprintf("RowIdentifiers{rows:%v keys:%q}", r.Rows, r.Keys)
	case []pilosa.GroupCount:
		return fmt.Sprintf("GroupCounts%v", r)
	default:
		return fmt.Sprintf("%T(%v)", v, v)
	}
}

type vc26Sys struct {
	name  string
	nodes test.Cluster
}

// query runs q on node i and returns the canonical results, or "ERR" (the message is returned separately:
// wording differs between a local and a forwarded failure, only success/failure is compared).
func (s *vc26Sys) query(node int, index, q string, countsOnly bool) (res string, msg string) {
	m := s.nodes[node%len(s.nodes)]
	// over HTTP a panic of the executor is turned into a 500 by Handler.ServeHTTP: count it as an error reply here too
	defer func() {
		if r := recover(); r != nil {
			res, msg = "ERR", fmt.Sprintf("PANIC: %v", r)
		}
	}()
	resp, err := m.API.Query(context.Background(), &pilosa.QueryRequest{Index: index, Query: q})
	if err != nil {
		return "ERR", err.Error()
	}
	if resp.Err != nil {
		return "ERR", resp.Err.Error()
	}
	parts := make([]string, len(resp.Results))
	for i, r := range resp.Results {
		if ps, ok := r.([]pilosa.Pair); ok && countsOnly {
			// TopN with n: which of several rows with equal counts survive the cut is unspecified; the counts are not
			cs := make([]uint64, len(ps))
			for j := range ps {
				cs[j] = ps[j].Count
			}
			sort.Slice(cs, func(a, b int) bool { return cs[a] > cs[b] })
			parts[i] = fmt.Sprintf("PairCounts%v", cs)
			continue
		}
		parts[i] = vc26Canon(r)
	}
	return strings.Join(parts, " | "), ""
}

// setup creates the index and its fields and waits until every node has them. Errors of the create calls are not
// judged here: the schema reaches a peer both by the synchronous message and by gossip state exchange, and when the
// two meet the call reports "index already exists" / a storage timeout although the schema arrives (not a C26 matter).
// If the schema does not arrive the run is inconclusive.
func (s *vc26Sys) setup(index string) {
	m := s.nodes[0]
	var errs []string
	if _, err := m.API.CreateIndex(context.Background(), index, pilosa.IndexOptions{}); err != nil {
		errs = append(errs, err.Error())
	}
	mk := func(f string, opts ...pilosa.FieldOption) {
		if _, err := m.API.CreateField(context.Background(), index, f, opts...); err != nil {
			errs = append(errs, err.Error())
		}
	}
	mk("f", pilosa.OptFieldTypeSet(pilosa.CacheTypeRanked, 1000))
	mk("n", pilosa.OptFieldTypeInt(-100, 100))
	mk("fk", pilosa.OptFieldTypeSet(pilosa.CacheTypeRanked, 1000), pilosa.OptFieldKeys())
	if len(errs) > 0 {
		vkit.Count("setup-create-error-tolerated", 1)
	}
	deadline := time.Now().Add(15 * time.Second)
	for _, n := range s.nodes {
		for {
			ok := true
			for _, f := range []string{"f", "n", "fk"} {
				if fld, err := n.API.Field(context.Background(), index, f); err != nil || fld == nil {
					ok = false
				}
			}
			if ok {
				break
			}
			if time.Now().After(deadline) {
				vgpInconclusive("%s: schema of %s did not reach every node (create errors: %v)", s.name, index, errs)
			}
			time.Sleep(2 * time.Millisecond)
		}
	}
}

func (s *vc26Sys) drop(index string) {
	s.nodes[0].API.DeleteIndex(context.Background(), index)
}

type vc26cGen struct {
	t     *rapid.T
	feats map[string]bool
}

func (g *vc26cGen) col() string {
	shard := rapid.IntRange(0, 3).Draw(g.t, "shard")
	off := rapid.SampledFrom([]int{0, 1, 2, 3, pilosa.ShardWidth - 1}).Draw(g.t, "off")
	return strconv.Itoa(shard*pilosa.ShardWidth + off)
}
func (g *vc26cGen) row() string { return strconv.Itoa(rapid.IntRange(0, 4).Draw(g.t, "row")) }
func (g *vc26cGen) key() string {
	return strconv.Quote(rapid.SampledFrom([]string{"a", "b", "é", "ünï", "日本", `q"uote`, "sp ace", `b\s`}).Draw(g.t, "key"))
}
func (g *vc26cGen) intv() string { return strconv.Itoa(rapid.IntRange(-100, 100).Draw(g.t, "int")) }

func (g *vc26cGen) attrs() string {
	n := rapid.IntRange(1, 3).Draw(g.t, "nattr")
	var parts []string
	for i := 0; i < n; i++ {
		name := rapid.SampledFrom([]string{"x", "y", "z"}).Draw(g.t, "aname")
		dup := false
		for _, p := range parts {
			if strings.HasPrefix(p, name+"=") {
				dup = true
			}
		}
		if dup {
			continue
		}
		var v string
		switch rapid.IntRange(0, 5).Draw(g.t, "akind") {
		case 0:
			v = g.key()
		case 1:
			v = g.intv()
		case 2, 3:
			v = rapid.SampledFrom([]string{"1.0", "0.5", "-2.25", "1000000000000000000000.0", "0.000001", "3.", ".5", "100.0", "0.1"}).Draw(g.t, "afloat")
			g.feats["attr:float"] = true
		case 4:
			v = rapid.SampledFrom([]string{"true", "false"}).Draw(g.t, "abool")
		default:
			v = "null"
			g.feats["attr:null"] = true
		}
		parts = append(parts, name+"="+v)
	}
	return strings.Join(parts, ", ")
}

func (g *vc26cGen) bitmap(depth int) string {
	k := rapid.IntRange(0, 9).Draw(g.t, "bkind")
	if depth <= 0 && k > 6 {
		k %= 7
	}
	switch k {
	case 0, 1:
		return "Row(f=" + g.row() + ")"
	case 2:
		g.feats["rowkey"] = true
		return "Row(fk=" + g.key() + ")"
	case 3:
		op := rapid.SampledFrom([]string{"<", "<=", ">", ">=", "==", "!="}).Draw(g.t, "op")
		return "Row(n " + op + " " + g.intv() + ")"
	case 4:
		g.feats["cond:null"] = true
		return "Row(n " + rapid.SampledFrom([]string{"!=", "=="}).Draw(g.t, "nullop") + " null)"
	case 5:
		g.feats["cond:between"] = true
		if rapid.Bool().Draw(g.t, "btw") {
			return "Row(n >< [" + g.intv() + "," + g.intv() + "])"
		}
		return "Row(" + g.intv() + rapid.SampledFrom([]string{" < ", " <= "}).Draw(g.t, "l1") + "n" + rapid.SampledFrom([]string{" < ", " <= "}).Draw(g.t, "l2") + g.intv() + ")"
	case 6:
		return "Not(Row(f=" + g.row() + "))"
	default:
		name := rapid.SampledFrom([]string{"Union", "Intersect", "Difference", "Xor"}).Draw(g.t, "setop")
		return name + "(" + g.bitmap(depth-1) + ", " + g.bitmap(depth-1) + ")"
	}
}

// returns the query, whether it is a TopN whose result is cut by n (ties!), and whether caches must be recalculated first
func (g *vc26cGen) query() (q string, countsOnly bool, topn bool) {
	switch rapid.IntRange(0, 19).Draw(g.t, "qkind") {
	case 0, 1, 2, 3:
		g.feats["Set"] = true
		return "Set(" + g.col() + ", f=" + g.row() + ")", false, false
	case 4:
		g.feats["Set:int"] = true
		return "Set(" + g.col() + ", n=" + g.intv() + ")", false, false
	case 5:
		g.feats["Set:key"] = true
		return "Set(" + g.col() + ", fk=" + g.key() + ")", false, false
	case 6:
		g.feats["Clear"] = true
		return "Clear(" + g.col() + ", f=" + g.row() + ")", false, false
	case 7, 8:
		g.feats["SetRowAttrs"] = true
		return "SetRowAttrs(f, " + g.row() + ", " + g.attrs() + ")", false, false
	case 9:
		g.feats["SetRowAttrs:bulk"] = true // only SetRowAttrs calls: executeBulkSetRowAttrs forwards them as one query
		return "SetRowAttrs(f, " + g.row() + ", " + g.attrs() + ") SetRowAttrs(f, " + g.row() + ", " + g.attrs() + ")", false, false
	case 10:
		g.feats["SetColumnAttrs"] = true
		return "SetColumnAttrs(" + g.col() + ", " + g.attrs() + ")", false, false
	case 11:
		g.feats["TopN:ids"] = true
		n := rapid.IntRange(1, 3).Draw(g.t, "nids")
		var ids []string
		for i := 0; i < n; i++ {
			ids = append(ids, g.row())
		}
		src := ""
		if rapid.Bool().Draw(g.t, "tsrc") {
			src = ", " + g.bitmap(0)
		}
		return "TopN(f" + src + ", ids=[" + strings.Join(ids, ",") + "])", false, true
	case 12:
		g.feats["TopN:n"] = true
		src := ""
		if rapid.Bool().Draw(g.t, "tsrc") {
			src = ", " + g.bitmap(0)
		}
		return "TopN(f" + src + ", n=" + strconv.Itoa(rapid.IntRange(1, 4).Draw(g.t, "n")) + ")", true, true
	case 13:
		g.feats["TopN:attr"] = true
		return `TopN(f, attrName="x", attrValues=[1.0, 0.5, "a", true, 3])`, false, true
	case 14:
		g.feats["Store"] = true
		return "Store(" + g.bitmap(1) + ", f=" + g.row() + ")", false, false
	case 15:
		g.feats["ClearRow"] = true
		return "ClearRow(f=" + g.row() + ")", false, false
	case 16:
		g.feats["Count"] = true
		return "Count(" + g.bitmap(2) + ")", false, false
	case 17:
		g.feats["Options"] = true
		return "Options(" + g.bitmap(1) + ", columnAttrs=true)", false, false
	case 18:
		return "Sum(" + g.bitmap(0) + ", field=\"n\")", false, false
	default:
		return g.bitmap(2), false, false
	}
}

func TestVerifC26_Cluster(t *testing.T) {
	defer vkit.Flush()
	cluster := &vc26Sys{name: "2-node cluster", nodes: vc26StartCluster(2)}
	defer cluster.nodes.Close()
	single := &vc26Sys{name: "single node", nodes: vc26StartCluster(1)}
	defer single.nodes.Close()
	counter := 0
	shardTag := os.Getenv("VERIF_SHARD")

	rapid.Check(t, func(t *rapid.T) {
		counter++
		index := fmt.Sprintf("c26s%sx%d", shardTag, counter)
		g := &vc26cGen{t: t, feats: map[string]bool{}}
		cluster.setup(index)
		defer cluster.drop(index)
		single.setup(index)
		defer single.drop(index)

		nq := rapid.IntRange(3, 12).Draw(t, "nq")
		var history []string
		c := vkit.NewCase()
		defer c.Done()
		forwardedKinds := 0
		for i := 0; i < nq; i++ {
			q, countsOnly, topn := g.query()
			node := rapid.IntRange(0, 1).Draw(t, "node")
			if strings.Contains(q, "fk=") {
				node = 0 // key translation is the business of C24: keys always enter through the coordinator
			}
			if topn {
				for _, s := range []*vc26Sys{cluster, single} {
					for _, m := range s.nodes {
						if err := m.API.RecalculateCaches(context.Background()); err != nil {
							t.Fatalf("%s: RecalculateCaches: %v", s.name, err)
						}
					}
				}
			}
			history = append(history, fmt.Sprintf("node%d: %s", node, q))
			got, gotMsg := cluster.query(node, index, q, countsOnly)
			want, wantMsg := single.query(0, index, q, countsOnly)
			if got != want {
				t.Fatalf("query %q sent to node %d of the 2-node cluster gives\n   %s %s\non a single node\n   %s %s\nhistory:\n  %s", q, node, got, gotMsg, want, wantMsg, strings.Join(history, "\n  "))
			}
			if want == "ERR" {
				c.Class("both-error")
			}
			forwardedKinds++
		}
		c.Key(strings.Join(history, ";"))
		fs := make([]string, 0, len(g.feats))
		for f := range g.feats {
			fs = append(fs, f)
		}
		sort.Strings(fs)
		nt := false
		for _, f := range fs {
			c.Class(f)
			switch f {
			case "attr:float", "attr:null", "cond:null", "TopN:ids", "TopN:n", "SetRowAttrs:bulk", "Set:key", "rowkey", "TopN:attr":
				nt = true
			}
		}
		c.NT(nt)
		c.Sample(map[string]interface{}{"history": history})
	})
}

// D26 end to end: the three queries of the defect table, each sent to both nodes of a 2-node cluster.
func TestVerifWitness_D26_Cluster(t *testing.T) {
	cl := vc26StartCluster(2)
	defer cl.Close()
	sys := &vc26Sys{name: "2-node cluster", nodes: cl}
	var failed []string
	sys.setup("w26")
	for node := 0; node < 2; node++ {
		for _, q := range []string{
			"Set(1, f=1) Set(" + strconv.Itoa(pilosa.ShardWidth+1) + ", f=2) Set(" + strconv.Itoa(3*pilosa.ShardWidth+1) + ", f=2)",
			"Set(1, n=5) Set(" + strconv.Itoa(2*pilosa.ShardWidth+7) + ", n=-3)",
			"TopN(f, ids=[1,2])",
			"Row(n != null)",
			"SetRowAttrs(f, 1, z=null)",
			"SetRowAttrs(f, 1, x=1.0, big=1000000000000000000000.0)",
		} {
			if got, msg := sys.query(node, "w26", q, false); got == "ERR" {
				failed = append(failed, fmt.Sprintf("node%d %s: %s", node, q, msg))
			}
		}
	}
	if len(failed) > 0 {
		t.Fatalf("queries that succeed on one node fail on a 2-node cluster:\n%s", strings.Join(failed, "\n"))
	}
	// the float attribute must be a float on both nodes
	for node := 0; node < 2; node++ {
		got, _ := sys.query(node, "w26", "Row(f=1)", false)
		if !strings.Contains(got, "x:float64(1)") {
			t.Fatalf("node%d: attribute x=1.0 of row 1 is not a float64: %s", node, got)
		}
	}
}
