package server_test

// C11 (end to end) — real gossip clusters of 2 and 3 nodes with replicas = nodes and the
// anti-entropy timer off. Divergent contents are written directly to individual nodes
// (Field.SetBit on the node's holder, or API.ImportRoaring with remote=true which does
// not forward), in the standard view and in time views. The contents of every
// (field, view, shard) on every node are then *read back* (they are the input of the
// property), Server.SyncData() runs on one node, and every node must hold the per-bit
// majority (ties = set) of what was read, in the same view, with identical FragmentBlocks.
// Then SyncData runs on every node and nothing may change.

import (
	"bytes"
	"context"
	"fmt"
	"os"
	"sort"
	"strings"
	"testing"
	"time"

	"github.com/pilosa/pilosa"
	"github.com/pilosa/pilosa/encoding/proto"
	"github.com/pilosa/pilosa/internal/vkit"
	"github.com/pilosa/pilosa/roaring"
	"github.com/pilosa/pilosa/test"
	"pgregory.net/rapid"
)

// vC11Inconclusive ends the process in a way the driver maps to exit 2 (never a violation):
// cluster start-up over loopback gossip is environment, not the property.
func vC11Inconclusive(msg string) {
	fmt.Println("panic: test timed out (inconclusive, not a verdict): " + msg)
	os.Exit(3)
}

// vC11Env: an environment/set-up problem (not the property) — flush statistics and end as inconclusive.
func vC11Env(format string, args ...interface{}) {
	vkit.Flush()
	vC11Inconclusive(fmt.Sprintf(format, args...))
}

func vC11StartCluster(_ *testing.T, n int) test.Cluster {
	var lastErr error
	for attempt := 0; attempt < 3; attempt++ {
		c := test.MustNewCluster(vC11TB{}, n)
		for _, cc := range c {
			cc.Config.Cluster.ReplicaN = n
			cc.Config.AntiEntropy.Interval = 0
			cc.Config.Metric.Diagnostics = false
		}
		if err := c.Start(); err != nil {
			lastErr = err
			c.Close()
			continue
		}
		ok := false
		for i := 0; i < 400 && !ok; i++ {
			ok = true
			for _, cc := range c {
				if cc.API.State() != pilosa.ClusterStateNormal || len(cc.API.Hosts(context.Background())) != n {
					ok = false
				}
			}
			if !ok {
				time.Sleep(25 * time.Millisecond)
			}
		}
		if ok {
			return c
		}
		lastErr = fmt.Errorf("cluster of %d did not reach NORMAL with %d hosts", n, n)
		c.Close()
	}
	vC11Inconclusive(fmt.Sprintf("cluster start-up failed: %v", lastErr))
	return nil
}

// vC11TB: MustNewCluster only calls Fatalf (when it cannot write a temp dir) — environment, so inconclusive.
type vC11TB struct{ testing.TB }

func (vC11TB) Fatalf(format string, args ...interface{}) {
	vC11Inconclusive(fmt.Sprintf(format, args...))
}

type vC11Frag struct {
	Field, View string
	Shard       uint64
}

func (f vC11Frag) String() string { return fmt.Sprintf("%s/%s/%d", f.Field, f.View, f.Shard) }

// vC11MaxBlock: rows of the generated data are < 300, i.e. blocks 0..2; block 3 is read too (must stay empty).
const vC11MaxBlock = 3

// vC11ReadFragment returns the storage positions (row*ShardWidth + col%ShardWidth) of a fragment on a node
// (read block by block through the node's API.FragmentBlockData, the call behind /internal/fragment/block/data); nil if absent.
func vC11ReadFragment(cmd *test.Command, index string, fr vC11Frag) ([]uint64, error) {
	var ser proto.Serializer
	var out []uint64
	for b := 0; b <= vC11MaxBlock; b++ {
		body, err := ser.Marshal(&pilosa.BlockDataRequest{Index: index, Field: fr.Field, View: fr.View, Shard: fr.Shard, Block: uint64(b)})
		if err != nil {
			return nil, err
		}
		raw, err := cmd.API.FragmentBlockData(context.Background(), bytes.NewReader(body))
		if err != nil {
			if err == pilosa.ErrFragmentNotFound {
				return nil, nil
			}
			return nil, err
		}
		var resp pilosa.BlockDataResponse
		if err := ser.Unmarshal(raw, &resp); err != nil {
			return nil, err
		}
		if len(resp.RowIDs) != len(resp.ColumnIDs) {
			return nil, fmt.Errorf("block data with %d rows and %d columns", len(resp.RowIDs), len(resp.ColumnIDs))
		}
		for i := range resp.RowIDs {
			out = append(out, resp.RowIDs[i]*pilosa.ShardWidth+resp.ColumnIDs[i]%pilosa.ShardWidth)
		}
	}
	sort.Slice(out, func(i, j int) bool { return out[i] < out[j] })
	return out, nil
}

func vC11Blocks(cmd *test.Command, index string, fr vC11Frag) (string, error) {
	blocks, err := cmd.API.FragmentBlocks(context.Background(), index, fr.Field, fr.View, fr.Shard)
	if err != nil {
		if err == pilosa.ErrFragmentNotFound || strings.Contains(err.Error(), "fragment not found") {
			return "", nil
		}
		return "", err
	}
	var sb strings.Builder
	for _, b := range blocks {
		fmt.Fprintf(&sb, "%d:%x ", b.ID, b.Checksum)
	}
	return sb.String(), nil
}

func vC11Pos(v uint64) string {
	return fmt.Sprintf("(r%d,c%d)", v/pilosa.ShardWidth, v%pilosa.ShardWidth)
}

func vC11PosList(vs []uint64) string {
	s := make([]string, len(vs))
	for i, v := range vs {
		s[i] = vC11Pos(v)
	}
	return "[" + strings.Join(s, " ") + "]"
}

// vC11AllFrags lists every (field, view, shard) known to any node for the index.
func vC11AllFrags(c test.Cluster, index string, shards []uint64) []vC11Frag {
	seen := map[vC11Frag]bool{}
	for _, cmd := range c {
		for _, ii := range cmd.Server.Holder().Schema() {
			if ii.Name != index {
				continue
			}
			for _, fi := range ii.Fields {
				for _, vi := range fi.Views {
					for _, s := range shards {
						seen[vC11Frag{fi.Name, vi.Name, s}] = true
					}
				}
			}
		}
	}
	out := make([]vC11Frag, 0, len(seen))
	for f := range seen {
		out = append(out, f)
	}
	sort.Slice(out, func(i, j int) bool { return out[i].String() < out[j].String() })
	return out
}

func vC11Snapshot(t *rapid.T, c test.Cluster, index string, frags []vC11Frag) map[vC11Frag][][]uint64 {
	out := map[vC11Frag][][]uint64{}
	for _, fr := range frags {
		per := make([][]uint64, len(c))
		for i, cmd := range c {
			vs, err := vC11ReadFragment(cmd, index, fr)
			if err != nil {
				t.Fatalf("reading %s on node %d: %v", fr, i, err)
			}
			per[i] = vs
		}
		out[fr] = per
	}
	return out
}

func vC11MajorityOf(per [][]uint64) []uint64 {
	cnt := map[uint64]int{}
	for _, vs := range per {
		for _, v := range vs {
			cnt[v]++
		}
	}
	var out []uint64
	for v, n := range cnt {
		if 2*n >= len(per) {
			out = append(out, v)
		}
	}
	sort.Slice(out, func(i, j int) bool { return out[i] < out[j] })
	return out
}

func vC11EqU(a, b []uint64) bool {
	if len(a) != len(b) {
		return false
	}
	for i := range a {
		if a[i] != b[i] {
			return false
		}
	}
	return true
}

var vC11Times = []time.Time{
	time.Date(2019, 1, 2, 3, 0, 0, 0, time.UTC),
	time.Date(2019, 1, 3, 15, 0, 0, 0, time.UTC),
	time.Date(2019, 2, 1, 0, 0, 0, 0, time.UTC),
	time.Date(2020, 5, 5, 5, 0, 0, 0, time.UTC),
}

var vC11RoaringViews = []string{"", "2019", "201901", "20190102", "2021"}

var vC11Seq int

const vC11Recycle = 30

func vC11RunCluster(t *testing.T, n int) {
	defer vkit.Flush()
	c := vC11StartCluster(t, n)
	defer func() { c.Close() }()
	ctx := context.Background()
	casesOnCluster := 0
	rowPool := []uint64{0, 1, 99, 100, 101, 250}
	colPool := []uint64{0, 1, 65535, 65536, pilosa.ShardWidth - 1}

	rapid.Check(t, func(t *rapid.T) {
		// One fresh index per case. Indexes are never deleted (a gossiped NodeStatus can re-create a deleted
		// index on one node only, after which that node's SyncHolder fails with "index not found" on its peers);
		// instead the whole cluster is replaced every vC11Recycle cases, which bounds the cost of SyncHolder.
		if casesOnCluster >= vC11Recycle {
			c.Close()
			c = vC11StartCluster(nil, n)
			casesOnCluster = 0
		}
		casesOnCluster++
		// Schema set-up is a precondition, not the property: failures (bolt open timeouts on a loaded
		// machine, ...) are retried with a new index and finally end the unit as inconclusive.
		var index string
		var setupErr error
		for attempt := 0; attempt < 3; attempt++ {
			vC11Seq++
			index = fmt.Sprintf("c11x%d", vC11Seq)
			setupErr = func() error {
				if _, err := c[0].API.CreateIndex(ctx, index, pilosa.IndexOptions{TrackExistence: false}); err != nil {
					return fmt.Errorf("creating index: %v", err)
				}
				if _, err := c[0].API.CreateField(ctx, index, "f", pilosa.OptFieldTypeSet(pilosa.DefaultCacheType, pilosa.DefaultCacheSize)); err != nil {
					return fmt.Errorf("creating field f: %v", err)
				}
				if _, err := c[0].API.CreateField(ctx, index, "t", pilosa.OptFieldTypeTime(pilosa.TimeQuantum("YMD"))); err != nil {
					return fmt.Errorf("creating field t: %v", err)
				}
				for i, cmd := range c {
					if cmd.Server.Holder().Field(index, "t") == nil || cmd.Server.Holder().Field(index, "f") == nil {
						return fmt.Errorf("schema did not reach node %d", i)
					}
				}
				return nil
			}()
			if setupErr == nil {
				break
			}
		}
		if setupErr != nil {
			vC11Env("schema set-up failed three times: %v", setupErr)
		}

		shards := rapid.SliceOfNDistinct(rapid.SampledFrom([]uint64{0, 1, 3}), 1, 2, func(s uint64) uint64 { return s }).Draw(t, "shards")
		sort.Slice(shards, func(i, j int) bool { return shards[i] < shards[j] })
		nw := rapid.IntRange(1, 14).Draw(t, "nwrites")
		type write struct {
			Node   int
			Field  string
			Row    uint64
			Col    uint64
			Time   int    // index into vC11Times, -1 = none
			RView  string // for roaring writes: the view key
			Via    string // "setbit" | "roaring"
			Warmed bool
		}
		var writes []write
		usedTimeView := false
		for k := 0; k < nw; k++ {
			w := write{Time: -1}
			shard := rapid.SampledFrom(shards).Draw(t, "shard")
			w.Row = rapid.SampledFrom(rowPool).Draw(t, "row")
			rel := rapid.OneOf(rapid.SampledFrom(colPool), rapid.Uint64Range(0, pilosa.ShardWidth-1)).Draw(t, "col")
			w.Col = shard*pilosa.ShardWidth + rel
			mask := rapid.IntRange(1, 1<<uint(n)-1).Draw(t, "nodes")
			w.Field = rapid.SampledFrom([]string{"f", "t", "t"}).Draw(t, "field")
			w.Via = rapid.SampledFrom([]string{"setbit", "setbit", "roaring"}).Draw(t, "via")
			for node := 0; node < n; node++ {
				if mask&(1<<uint(node)) == 0 {
					continue
				}
				wn := w
				wn.Node = node
				if w.Field == "t" {
					if w.Via == "setbit" {
						wn.Time = rapid.IntRange(0, len(vC11Times)-1).Draw(t, "time")
						usedTimeView = true
					} else {
						wn.RView = rapid.SampledFrom(vC11RoaringViews).Draw(t, "rview")
						usedTimeView = usedTimeView || wn.RView != ""
					}
				}
				writes = append(writes, wn)
			}
		}
		warmAt := rapid.IntRange(0, len(writes)).Draw(t, "warmAt") // FragmentBlocks is read (checksums cached) after this many writes

		doWrite := func(w write) {
			cmd := c[w.Node]
			shard := w.Col / pilosa.ShardWidth
			switch w.Via {
			case "setbit":
				fld := cmd.Server.Holder().Field(index, w.Field)
				var ts *time.Time
				if w.Time >= 0 {
					ts = &vC11Times[w.Time]
				}
				if _, err := fld.SetBit(w.Row, w.Col, ts); err != nil {
					vC11Env("SetBit on node %d: %v", w.Node, err)
				}
			case "roaring":
				bm := roaring.NewBitmap(w.Row*pilosa.ShardWidth + w.Col%pilosa.ShardWidth)
				var buf bytes.Buffer
				if _, err := bm.WriteTo(&buf); err != nil {
					t.Fatalf("encoding: %v", err)
				}
				req := &pilosa.ImportRoaringRequest{Views: map[string][]byte{w.RView: buf.Bytes()}}
				if err := cmd.API.ImportRoaring(ctx, index, w.Field, shard, true, req); err != nil {
					vC11Env("ImportRoaring(remote) on node %d: %v", w.Node, err)
				}
			}
		}
		for k, w := range writes {
			if k == warmAt {
				for _, fr := range vC11AllFrags(c, index, shards) {
					for _, cmd := range c {
						if _, err := vC11Blocks(cmd, index, fr); err != nil {
							t.Fatalf("FragmentBlocks: %v", err)
						}
					}
				}
			}
			doWrite(w)
		}

		// Shard creation is announced to the other nodes asynchronously (view.CreateFragmentIfNotExists waits at most
		// 50 ms for the broadcast). The property is about a pass over known shards: wait until every node knows them.
		written := map[uint64]bool{}
		for _, w := range writes {
			written[w.Col/pilosa.ShardWidth] = true
		}
		known := false
		for i := 0; i < 800 && !known; i++ {
			known = true
			for _, cmd := range c {
				bm := cmd.API.AvailableShardsByIndex(ctx)[index]
				for s := range written {
					if bm == nil || !bm.Contains(s) {
						known = false
					}
				}
			}
			if !known {
				time.Sleep(25 * time.Millisecond)
			}
		}
		if !known {
			vC11Env("shard creation messages did not reach every node within 20s")
		}

		frags := vC11AllFrags(c, index, shards)
		before := vC11Snapshot(t, c, index, frags)
		want := map[vC11Frag][]uint64{}
		needBoth, multiClear, anyDiff, nonStdDiff := false, false, false, false
		for _, fr := range frags {
			m := vC11MajorityOf(before[fr])
			want[fr] = m
			inM := map[uint64]bool{}
			for _, v := range m {
				inM[v] = true
			}
			for _, vs := range before[fr] {
				clears, has := 0, map[uint64]bool{}
				for _, v := range vs {
					has[v] = true
					if !inM[v] {
						clears++
					}
				}
				sets := 0
				for _, v := range m {
					if !has[v] {
						sets++
					}
				}
				if sets > 0 || clears > 0 {
					anyDiff = true
					if fr.View != "standard" {
						nonStdDiff = true
					}
				}
				if sets > 0 && clears > 0 {
					needBoth = true
				}
				if clears >= 2 {
					multiClear = true
				}
			}
		}
		syncNode := rapid.IntRange(0, n-1).Draw(t, "syncNode")

		cs := vkit.NewCase().Key("e2e", n, shards, fmt.Sprint(writes), warmAt, syncNode)
		defer cs.Done()
		cs.Class("nodes=%d", n).ClassIf(needBoth, "replica-needs-set-and-clear").ClassIf(multiClear, "replica-needs>=2-clears")
		cs.ClassIf(nonStdDiff, "divergent-time-view").ClassIf(!anyDiff, "no-divergence").ClassIf(usedTimeView, "time-view-written")
		cs.NT(anyDiff && (needBoth || multiClear || n >= 3 || nonStdDiff))
		cs.Sample(map[string]interface{}{"nodes": n, "shards": shards, "writes": fmt.Sprint(writes), "sync_on": syncNode})

		describe := func(fr vC11Frag) string {
			var sb strings.Builder
			for i, vs := range before[fr] {
				fmt.Fprintf(&sb, " node%d=%s", i, vC11PosList(vs))
			}
			return sb.String()
		}
		verify := func(stage string) {
			for _, fr := range vC11AllFrags(c, index, shards) {
				w, known := want[fr]
				if !known {
					t.Fatalf("%s: fragment %s appeared that no node had before the sync", stage, fr)
				}
				var sums []string
				for i, cmd := range c {
					got, err := vC11ReadFragment(cmd, index, fr)
					if err != nil {
						t.Fatalf("%s: reading %s on node %d: %v", stage, fr, i, err)
					}
					if !vC11EqU(got, w) {
						t.Fatalf("%s: %d nodes, fragment %s on node %d holds %s, want the majority %s; before the sync:%s", stage, n, fr, i, vC11PosList(got), vC11PosList(w), describe(fr))
					}
					s, err := vC11Blocks(cmd, index, fr)
					if err != nil {
						t.Fatalf("%s: FragmentBlocks %s on node %d: %v", stage, fr, i, err)
					}
					sums = append(sums, s)
				}
				for i := 1; i < len(sums); i++ {
					if sums[i] != sums[0] {
						t.Fatalf("%s: %d nodes, fragment %s: node 0 reports blocks {%s} but node %d reports {%s} although both hold %s; before the sync:%s", stage, n, fr, sums[0], i, sums[i], vC11PosList(w), describe(fr))
					}
				}
			}
		}

		// The property speaks about a *completed* pass: a pass that returns an error says nothing.
		if err := c[syncNode].Server.SyncData(); err != nil {
			vC11Env("SyncData on node %d did not complete: %v", syncNode, err)
		}
		verify(fmt.Sprintf("after SyncData on node %d", syncNode))
		for i := range c {
			if err := c[i].Server.SyncData(); err != nil {
				vC11Env("SyncData on node %d did not complete: %v", i, err)
			}
		}
		verify("after SyncData on every node")
	})
}

func TestVerifC11_E2E2(t *testing.T) { vC11RunCluster(t, 2) }
func TestVerifC11_E2E3(t *testing.T) { vC11RunCluster(t, 3) }
