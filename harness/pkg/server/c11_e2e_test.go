package server_test

// C11 (end to end) — real gossip clusters of 2 and 3 nodes with replicas = nodes and the
// anti-entropy timer off. Divergent contents are written directly to individual nodes
// (Field.SetBit on the node's holder, or API.ImportRoaring with remote=true which does
// not forward), in the standard view and in time views. The contents of every
// (field, view, shard) on every node are then *read back* (they are the input of the
// property), Server.SyncData() runs on one node, and every node must hold the per-bit
// majority (ties = set) of what was read, in the same view, with identical FragmentBlocks.
// Then SyncData runs on every node and nothing may change.

import (
	"bytes"
	"context"
	"fmt"
	"os"
	"sort"
	"strings"
	"testing"
	"time"

	"github.com/pilosa/pilosa"
	"github.com/pilosa/pilosa/encoding/proto"
	"github.com/pilosa/pilosa/internal/vkit"
	"github.com/pilosa/pilosa/roaring"
	"github.com/pilosa/pilosa/test"
	"pgregory.net/rapid"
)

// vC11Inconclusive ends the process in a way the driver maps to exit 2 (never a violation):
// cluster start-up over loopback gossip is environment, not the property.
func vC11Inconclusive(msg string) {
	fmt.Println("panic: test timed out (inconclusive, not a verdict): " + msg)
	os.Exit(3)
}

// vC11Env: an environment/set-up problem (not the property) — flush statistics and end as inconclusive.
func vC11Env(format string, args ...interface{}) {
	vkit.Flush()
	vC11Inconclusive(fmt.Sprintf(format, args...))
}

func vC11StartCluster(_ *testing.T, n int) test.Cluster {
	var lastErr error
	for attempt := 0; attempt < 3; attempt++ {
		c := test.MustNewCluster(vC11TB{}, n)
		for _, cc := range c {
			cc.Config.Cluster.ReplicaN = n
			cc.Config.AntiEntropy.Interval = 0
			cc.Config.Metric.Diagnostics = false
		}
		if err := c.Start(); err != nil {
			lastErr = err
			c.Close()
			continue
		}
		ok := false
		for i := 0; i < 400 && !ok; i++ {
			ok = true
			for _, cc := range c {
				if cc.API.State() != pilosa.ClusterStateNormal || len(cc.API.Hosts(context.Background())) != n {
					ok = false
				}
			}
			if !ok {
				time.Sleep(25 * time.Millisecond)
			}
		}
		if ok {
			return c
		}
		lastErr = fmt.Errorf("cluster of %d did not reach NORMAL with %d hosts", n, n)
		c.Close()
	}
	vC11Inconclusive(fmt.Sprintf("cluster start-up failed: %v", lastErr))
	return nil
}

// vC11TB: MustNewCluster only calls Fatalf (when it cannot write a temp dir) — environment, so inconclusive.
type vC11TB struct{ testing.TB }

func (vC11TB) Fatalf(format string, args ...interface{}) {
	vC11Inconclusive(fmt.Sprintf(format, args...))
}

type vC11Frag struct {
	Field, View string
	Shard       uint64
}

func (f vC11Frag) String() string { return fmt.Sprintf("%s/%s/%d", f.Field, f.View, f.Shard) }

// vC11MaxBlock: rows of the generated data are < 300, i.e. blocks 0..2; block 3 is read too (must stay empty).
const vC11MaxBlock = 3

// vC11ReadFragment returns the storage positions (row*ShardWidth + col%ShardWidth) of a fragment on a node
// (read block by block through the node's API.FragmentBlockData, the call behind /internal/fragment/block/data); nil if absent.
func vC11ReadFragment(cmd *test.Command, index string, fr vC11Frag) ([]uint64, error) {
	var ser proto.Serializer
	var out []uint64
	for b := 0; b <= vC11MaxBlock; b++ {
		body, err := ser.Marshal(&pilosa.BlockDataRequest{Index: index, Field: fr.Field, View: fr.View, Shard: fr.Shard, Block: uint64(b)})
		if err != nil {
			return nil, err
		}
		raw, err := cmd.API.FragmentBlockData(context.Background(), bytes.NewReader(body))
		if err != nil {
			if err == pilosa.ErrFragmentNotFound {
				return nil, nil
			}
			return nil, err
		}
		var resp pilosa.BlockDataResponse
		if err := ser.Unmarshal(raw, &resp); err != nil {
			return nil, err
		}
		if len(resp.RowIDs) != len(resp.ColumnIDs) {
			return nil, fmt.Errorf("block data with %d rows and %d columns", len(resp.RowIDs), len(resp.ColumnIDs))
		}
		for i := range resp.RowIDs {
			out = append(out, resp.RowIDs[i]*pilosa.ShardWidth+resp.ColumnIDs[i]%pilosa.ShardWidth)
		}
	}
	sort.Slice(out, func(i, j int) bool { return out[i] < out[j] })
	return out, nil
}

func vC11Blocks(cmd *test.Command, index string, fr vC11Frag) (string, error) {
	blocks, err := cmd.API.FragmentBlocks(context.Background(), index, fr.Field, fr.View, fr.Shard)
	if err != nil {
		if err == pilosa.ErrFragmentNotFound || strings.Contains(err.Error(), "fragment not found") {
			return "", nil
		}
		return "", err
	}
	var sb strings.Builder
	for _, b := range blocks {
		fmt.Fprintf(&sb, "%d:%x ", b.ID, b.Checksum)
	}
	return sb.String(), nil
}

func vC11Pos(v uint64) string {
	return fmt.Sprintf("(r%d,c%d)", v/pilosa.ShardWidth, v%pilosa.ShardWidth)
}

func vC11PosList(vs []uint64) string {
	s := make([]string, len(vs))
	for i, v := range vs {
		s[i] = vC11Pos(v)
	}
	return "[" + strings.Join(s, " ") + "]"
}

// vC11AllFrags lists every (field, view, shard) known to any node for the index.
func vC11AllFrags(c test.Cluster, index string, shards []uint64) []vC11Frag {
	seen := map[vC11Frag]bool{}
	for _, cmd := range c {
		for _, ii := range cmd.Server.Holder().Schema() {
			if ii.Name != index {
				continue
			}
			for _, fi := range ii.Fields {
				for _, vi := range fi.Views {
					for _, s := range shards {
						seen[vC11Frag{fi.Name, vi.Name, s}] = true
					}
				}
			}
		}
	}
	out := make([]vC11Frag, 0, len(seen))
	for f := range seen {
		out = append(out, f)
	}
	sort.Slice(out, func(i, j int) bool { return out[i].String() < out[j].String() })
	return out
}

func vC11Snapshot(t *rapid.T, c test.Cluster, index string, frags []vC11Frag) map[vC11Frag][][]uint64 {
	out := map[vC11Frag][][]uint64{}
	for _, fr := range frags {
		per := make([][]uint64, len(c))
		for i, cmd := range c {
			vs, err := vC11ReadFragment(cmd, index, fr)
			if err != nil {
				t.Fatalf("reading %s on node %d: %v", fr, i, err)
			}
			per[i] = vs
		}
		out[fr] = per
	}
	return out
}

func vC11MajorityOf(per [][]uint64) []uint64 {
	cnt := map[uint64]int{}
	for _, vs := range per {
		for _, v := range vs {
			cnt[v]++
		}
	}
	var out []uint64
	for v, n := range cnt {
		if 2*n >= len(per) {
			out = append(out, v)
		}
	}
	sort.Slice(out, func(i, j int) bool { return out[i] < out[j] })
	return out
}

func vC11EqU(a, b []uint64) bool {
	if len(a) != len(b) {
		return false
	}
	for i := range a {
		if a[i] != b[i] {
			return false
		}
	}
	return true
}

var vC11Times = []time.Time{
	time.Date(2019, 1, 2, 3, 0, 0, 0, time.UTC),
	time.Date(2019, 1, 3, 15, 0, 0, 0, time.UTC),
	time.Date(2019, 2, 1, 0, 0, 0, 0, time.UTC),
	time.Date(2020, 5, 5, 5, 0, 0, 0, time.UTC),
}

var vC11RoaringViews = []string{"", "2019", "201901", "20190102", "2021"}

type vC11FieldSpec struct {
	Name, Kind string
	Opt        func() pilosa.FieldOption
}

var vC11FieldSpecs = []vC11FieldSpec{
	{"f", "set", func() pilosa.FieldOption { return pilosa.OptFieldTypeSet(pilosa.CacheTypeRanked, 50000) }},
	{"fl", "set", func() pilosa.FieldOption { return pilosa.OptFieldTypeSet(pilosa.CacheTypeLRU, 100) }},
	{"fn", "set", func() pilosa.FieldOption { return pilosa.OptFieldTypeSet(pilosa.CacheTypeNone, 0) }},
	{"t", "time", func() pilosa.FieldOption { return pilosa.OptFieldTypeTime(pilosa.TimeQuantum("YMD")) }},
	{"b", "bool", func() pilosa.FieldOption { return pilosa.OptFieldTypeBool() }},
	{"m", "mutex", func() pilosa.FieldOption { return pilosa.OptFieldTypeMutex(pilosa.CacheTypeRanked, 1000) }},
	{"v", "int", func() pilosa.FieldOption { return pilosa.OptFieldTypeInt(-10, 1000) }},
}

// write paths per field kind; every one acts on the addressed node only
// (holder level, API.Import/ImportValue, API.ImportRoaring(remote=true), PQL with QueryRequest.Remote).
var vC11Vias = map[string][]string{
	"set":   {"setbit", "clearbit", "import", "import", "importclear", "roaring", "roaringclear", "pqlset", "pqlclear", "clearrow", "store"},
	"time":  {"setbit", "clearbit", "import", "import", "importclear", "roaring", "roaringclear", "pqlset", "pqlclear", "clearrow"},
	"bool":  {"setbit", "clearbit", "import", "import", "pqlset", "pqlclear"},
	"mutex": {"setbit", "clearbit", "import", "import", "importclear", "pqlset", "pqlclear", "clearrow"},
	"int":   {"setvalue", "importvalue", "importvalue", "pqlsetvalue"},
}

type vC11Op struct {
	Node      int
	Field     string
	Kind      string
	Via       string
	Row, Row2 uint64
	Col, Col2 uint64 // absolute columns in one shard
	Val, Val2 int64
	Time      int    // index into vC11Times, -1 = none
	RView     string // roaring writes: the view key
}

var vC11Seq int

const vC11Recycle = 30

func vC11RunCluster(t *testing.T, n int) {
	defer vkit.Flush()
	c := vC11StartCluster(t, n)
	defer func() { c.Close() }()
	ctx := context.Background()
	casesOnCluster := 0
	rowPool := []uint64{0, 1, 99, 100, 101, 250}
	colPool := []uint64{0, 1, 65535, 65536, pilosa.ShardWidth - 1}

	rapid.Check(t, func(t *rapid.T) {
		// One fresh index per case. Indexes are never deleted (a gossiped NodeStatus can re-create a deleted
		// index on one node only, after which that node's SyncHolder fails with "index not found" on its peers);
		// instead the whole cluster is replaced every vC11Recycle cases, which bounds the cost of SyncHolder.
		if casesOnCluster >= vC11Recycle {
			c.Close()
			c = vC11StartCluster(nil, n)
			casesOnCluster = 0
		}
		casesOnCluster++
		// Schema set-up is a precondition, not the property: failures (bolt open timeouts on a loaded
		// machine, ...) are retried with a new index and finally end the unit as inconclusive.
		// Every case uses 3 of the 7 field kinds (set ranked / lru / none, time, bool, mutex, int).
		// Open finding DX4: a divergent bool / mutex / int fragment makes the pass fail (the repair goes through
		// ImportRoaring, which refuses these field types), so no completed pass exists for them: only set and
		// time fields (indexes 0..3) are generated while it is open.
		maxSpec := len(vC11FieldSpecs) - 1
		if vkit.Open("DX4") {
			maxSpec = 3
			vkit.Excluded("DX4")
		}
		specIdx := rapid.SliceOfNDistinct(rapid.IntRange(0, maxSpec), 3, 3, func(i int) int { return i }).Draw(t, "fields")
		sort.Ints(specIdx)
		var specs []vC11FieldSpec
		for _, i := range specIdx {
			specs = append(specs, vC11FieldSpecs[i])
		}
		var index string
		var setupErr error
		for attempt := 0; attempt < 3; attempt++ {
			vC11Seq++
			index = fmt.Sprintf("c11x%d", vC11Seq)
			setupErr = func() error {
				if _, err := c[0].API.CreateIndex(ctx, index, pilosa.IndexOptions{TrackExistence: false}); err != nil {
					return fmt.Errorf("creating index: %v", err)
				}
				for _, sp := range specs {
					if _, err := c[0].API.CreateField(ctx, index, sp.Name, sp.Opt()); err != nil {
						return fmt.Errorf("creating field %s: %v", sp.Name, err)
					}
				}
				for i, cmd := range c {
					for _, sp := range specs {
						if cmd.Server.Holder().Field(index, sp.Name) == nil {
							return fmt.Errorf("schema did not reach node %d", i)
						}
					}
				}
				return nil
			}()
			if setupErr == nil {
				break
			}
		}
		if setupErr != nil {
			vC11Env("schema set-up failed three times: %v", setupErr)
		}

		shards := rapid.SliceOfNDistinct(rapid.SampledFrom([]uint64{0, 1, 3}), 1, 2, func(s uint64) uint64 { return s }).Draw(t, "shards")
		sort.Slice(shards, func(i, j int) bool { return shards[i] < shards[j] })
		relCol := rapid.OneOf(rapid.SampledFrom(colPool), rapid.Uint64Range(0, pilosa.ShardWidth-1))

		// genOps draws the writes of one round. prev = writes of the earlier round: half of the new writes
		// reuse a (field, shard, row) of an earlier one, i.e. hit blocks whose checksums are cached by then.
		genOps := func(label string, maxN int, prev []vC11Op) []vC11Op {
			var ops []vC11Op
			nw := rapid.IntRange(1, maxN).Draw(t, label+".nwrites")
			for k := 0; k < nw; k++ {
				op := vC11Op{Time: -1}
				var sp vC11FieldSpec
				var shard uint64
				if len(prev) > 0 && rapid.Bool().Draw(t, label+".reuse") {
					p := rapid.SampledFrom(prev).Draw(t, label+".like")
					for _, x := range specs {
						if x.Name == p.Field {
							sp = x
						}
					}
					shard, op.Row = p.Col/pilosa.ShardWidth, p.Row
				} else {
					sp = rapid.SampledFrom(specs).Draw(t, label+".field")
					shard = rapid.SampledFrom(shards).Draw(t, label+".shard")
					op.Row = rapid.SampledFrom(rowPool).Draw(t, label+".row")
				}
				op.Field, op.Kind = sp.Name, sp.Kind
				op.Col = shard*pilosa.ShardWidth + relCol.Draw(t, label+".col")
				op.Col2 = shard*pilosa.ShardWidth + relCol.Draw(t, label+".col2")
				op.Row2 = rapid.SampledFrom(rowPool).Draw(t, label+".row2")
				op.Val = rapid.Int64Range(-10, 1000).Draw(t, label+".val")
				op.Val2 = rapid.Int64Range(-10, 1000).Draw(t, label+".val2")
				if sp.Kind == "bool" {
					op.Row, op.Row2 = op.Row%2, op.Row2%2
				}
				op.Via = rapid.SampledFrom(vC11Vias[sp.Kind]).Draw(t, label+".via")
				mask := rapid.IntRange(1, 1<<uint(n)-1).Draw(t, label+".nodes")
				for node := 0; node < n; node++ {
					if mask&(1<<uint(node)) == 0 {
						continue
					}
					on := op
					on.Node = node
					if sp.Kind == "time" {
						switch {
						case strings.HasPrefix(op.Via, "roaring"):
							on.RView = rapid.SampledFrom(vC11RoaringViews).Draw(t, label+".rview")
						case op.Via == "setbit" || op.Via == "import" || op.Via == "pqlset":
							on.Time = rapid.IntRange(-1, len(vC11Times)-1).Draw(t, label+".time")
						}
					}
					ops = append(ops, on)
				}
			}
			return ops
		}

		writeErrs := 0
		apply := func(op vC11Op) {
			cmd := c[op.Node]
			shard := op.Col / pilosa.ShardWidth
			fld := cmd.Server.Holder().Field(index, op.Field)
			var ts *time.Time
			if op.Time >= 0 {
				ts = &vC11Times[op.Time]
			}
			query := func(q string, sh []uint64) error {
				_, err := cmd.API.Query(ctx, &pilosa.QueryRequest{Index: index, Query: q, Remote: true, Shards: sh})
				return err
			}
			rowLit := fmt.Sprint(op.Row)
			if op.Kind == "bool" {
				rowLit = fmt.Sprint(op.Row == 1)
			}
			var err error
			switch op.Via {
			case "setbit":
				_, err = fld.SetBit(op.Row, op.Col, ts)
			case "clearbit":
				_, err = fld.ClearBit(op.Row, op.Col)
			case "setvalue":
				_, err = fld.SetValue(op.Col, op.Val)
			case "import", "importclear":
				req := &pilosa.ImportRequest{Index: index, Field: op.Field, Shard: shard, RowIDs: []uint64{op.Row, op.Row2}, ColumnIDs: []uint64{op.Col, op.Col2}}
				if ts != nil {
					req.Timestamps = []int64{ts.UnixNano(), ts.UnixNano()}
				}
				if op.Via == "importclear" {
					err = cmd.API.Import(ctx, req, pilosa.OptImportOptionsClear(true))
				} else {
					err = cmd.API.Import(ctx, req)
				}
			case "importvalue":
				cols, vals := []uint64{op.Col}, []int64{op.Val}
				if op.Col2 != op.Col {
					cols, vals = append(cols, op.Col2), append(vals, op.Val2)
				}
				err = cmd.API.ImportValue(ctx, &pilosa.ImportValueRequest{Index: index, Field: op.Field, Shard: shard, ColumnIDs: cols, Values: vals})
			case "roaring", "roaringclear":
				bm := roaring.NewBitmap(op.Row*pilosa.ShardWidth+op.Col%pilosa.ShardWidth, op.Row2*pilosa.ShardWidth+op.Col2%pilosa.ShardWidth)
				var buf bytes.Buffer
				if _, werr := bm.WriteTo(&buf); werr != nil {
					t.Fatalf("encoding: %v", werr)
				}
				req := &pilosa.ImportRoaringRequest{Clear: op.Via == "roaringclear", Views: map[string][]byte{op.RView: buf.Bytes()}}
				err = cmd.API.ImportRoaring(ctx, index, op.Field, shard, true, req)
			case "pqlset":
				if ts != nil {
					err = query(fmt.Sprintf("Set(%d, %s=%s, %s)", op.Col, op.Field, rowLit, ts.Format("2006-01-02T15:04")), []uint64{shard})
				} else {
					err = query(fmt.Sprintf("Set(%d, %s=%s)", op.Col, op.Field, rowLit), []uint64{shard})
				}
			case "pqlsetvalue":
				err = query(fmt.Sprintf("Set(%d, %s=%d)", op.Col, op.Field, op.Val), []uint64{shard})
			case "pqlclear":
				err = query(fmt.Sprintf("Clear(%d, %s=%s)", op.Col, op.Field, rowLit), []uint64{shard})
			case "clearrow":
				err = query(fmt.Sprintf("ClearRow(%s=%s)", op.Field, rowLit), shards)
			case "store":
				err = query(fmt.Sprintf("Store(Row(%s=%d), %s=%d)", op.Field, op.Row, op.Field, op.Row2), shards)
			default:
				t.Fatalf("harness: unknown write path %q", op.Via)
			}
			if err != nil {
				// a refused write writes nothing (or something): the oracle only uses what is read back afterwards
				writeErrs++
				vkit.Count("write-error:"+op.Kind+"/"+op.Via, 1)
			}
		}
		waitShards := func(ops []vC11Op) {
			// Shard creation is announced to the other nodes asynchronously (view.CreateFragmentIfNotExists waits at most
			// 50 ms for the broadcast). The property is about a pass over known shards: wait until every node knows every
			// shard that holds a fragment somewhere.
			known := false
			for i := 0; i < 800 && !known; i++ {
				known = true
				have := map[uint64]bool{}
				for _, cmd := range c {
					if bm := cmd.Server.Holder().Index(index).AvailableShards(); bm != nil {
						for _, s := range bm.Slice() {
							have[s] = true
						}
					}
				}
				for _, cmd := range c {
					bm := cmd.API.AvailableShardsByIndex(ctx)[index]
					for s := range have {
						if bm == nil || !bm.Contains(s) {
							known = false
						}
					}
				}
				if !known {
					time.Sleep(25 * time.Millisecond)
				}
			}
			if !known {
				vC11Env("shard creation messages did not reach every node within 20s")
			}
		}

		cs := vkit.NewCase()
		defer cs.Done()
		cs.Class("nodes=%d", n)
		anyNT := false
		var sample []string

		// round runs: writes -> read back -> SyncData on one node -> check -> SyncData on all -> check.
		round := func(label string, ops []vC11Op, warmAt int) {
			for k, op := range ops {
				if k == warmAt {
					for _, fr := range vC11AllFrags(c, index, shards) {
						for _, cmd := range c {
							if _, err := vC11Blocks(cmd, index, fr); err != nil {
								t.Fatalf("FragmentBlocks: %v", err)
							}
						}
					}
				}
				apply(op)
				cs.Class("%s:%s/%s", label, op.Kind, op.Via)
			}
			waitShards(ops)
			frags := vC11AllFrags(c, index, shards)
			before := vC11Snapshot(t, c, index, frags)
			want := map[vC11Frag][]uint64{}
			needBoth, multiClear, anyDiff, nonStdDiff := false, false, false, false
			for _, fr := range frags {
				m := vC11MajorityOf(before[fr])
				want[fr] = m
				inM := map[uint64]bool{}
				for _, v := range m {
					inM[v] = true
				}
				for _, vs := range before[fr] {
					clears, has := 0, map[uint64]bool{}
					for _, v := range vs {
						has[v] = true
						if !inM[v] {
							clears++
						}
					}
					sets := 0
					for _, v := range m {
						if !has[v] {
							sets++
						}
					}
					if sets > 0 || clears > 0 {
						anyDiff = true
						cs.Class("%s:divergent-field:%s", label, fr.Field)
						if fr.View != "standard" {
							nonStdDiff = true
						}
					}
					if sets > 0 && clears > 0 {
						needBoth = true
					}
					if clears >= 2 {
						multiClear = true
					}
				}
			}
			syncNode := rapid.IntRange(0, n-1).Draw(t, label+".syncNode")
			cs.ClassIf(needBoth, "replica-needs-set-and-clear").ClassIf(multiClear, "replica-needs>=2-clears")
			cs.ClassIf(nonStdDiff, "divergent-non-standard-view").ClassIf(!anyDiff, label+":no-divergence").ClassIf(anyDiff, label+":divergence")
			if anyDiff && (needBoth || multiClear || n >= 3 || nonStdDiff || label == "round2") {
				anyNT = true
			}
			sample = append(sample, fmt.Sprintf("%s: %v sync on node %d", label, ops, syncNode))

			describe := func(fr vC11Frag) string {
				var sb strings.Builder
				for i, vs := range before[fr] {
					fmt.Fprintf(&sb, " node%d=%s", i, vC11PosList(vs))
				}
				return sb.String()
			}
			verify := func(stage string) {
				for _, fr := range vC11AllFrags(c, index, shards) {
					w, known := want[fr]
					if !known {
						t.Fatalf("%s: fragment %s appeared that no node had before the sync", stage, fr)
					}
					var sums []string
					for i, cmd := range c {
						got, err := vC11ReadFragment(cmd, index, fr)
						if err != nil {
							t.Fatalf("%s: reading %s on node %d: %v", stage, fr, i, err)
						}
						if !vC11EqU(got, w) {
							t.Fatalf("%s: %d nodes, fragment %s on node %d holds %s, want the majority %s; before the sync:%s\nwrites: %s", stage, n, fr, i, vC11PosList(got), vC11PosList(w), describe(fr), strings.Join(sample, " | "))
						}
						s, err := vC11Blocks(cmd, index, fr)
						if err != nil {
							t.Fatalf("%s: FragmentBlocks %s on node %d: %v", stage, fr, i, err)
						}
						sums = append(sums, s)
					}
					for i := 1; i < len(sums); i++ {
						if sums[i] != sums[0] {
							t.Fatalf("%s: %d nodes, fragment %s: node 0 reports blocks {%s} but node %d reports {%s} although both hold %s; before the sync:%s\nwrites: %s", stage, n, fr, sums[0], i, sums[i], vC11PosList(w), describe(fr), strings.Join(sample, " | "))
						}
					}
				}
			}
			// The property speaks about a *completed* pass: a pass that returns an error says nothing.
			if err := c[syncNode].Server.SyncData(); err != nil {
				vC11Env("SyncData on node %d did not complete: %v", syncNode, err)
			}
			verify(fmt.Sprintf("%s, after SyncData on node %d", label, syncNode))
			for i := range c {
				if err := c[i].Server.SyncData(); err != nil {
					vC11Env("SyncData on node %d did not complete: %v", i, err)
				}
			}
			verify(label + ", after SyncData on every node")
		}

		ops1 := genOps("round1", 10, nil)
		warmAt := rapid.IntRange(0, len(ops1)).Draw(t, "warmAt") // FragmentBlocks is read (checksums cached) after this many writes
		ops2 := genOps("round2", 8, ops1)
		cs.Key("e2e", n, shards, specIdx, fmt.Sprint(ops1), warmAt, fmt.Sprint(ops2))
		round("round1", ops1, warmAt)
		// second divergence on replicas whose block checksums are cached by the first round
		round("round2", ops2, -1)
		cs.NT(anyNT)
		cs.Sample(map[string]interface{}{"nodes": n, "shards": shards, "rounds": sample})
	})
}

func TestVerifC11_E2E2(t *testing.T) { vC11RunCluster(t, 2) }
func TestVerifC11_E2E3(t *testing.T) { vC11RunCluster(t, 3) }

// TestVerifWitness_DX4: anti-entropy cannot repair an int (or bool, mutex) field: syncBlock sends the repair
// through ImportRoaring, which only accepts set and time fields, so the pass fails with a 400 and aborts.
func TestVerifWitness_DX4(t *testing.T) {
	c := vC11StartCluster(t, 2)
	defer c.Close()
	ctx := context.Background()
	if _, err := c[0].API.CreateIndex(ctx, "dx4", pilosa.IndexOptions{TrackExistence: false}); err != nil {
		vC11Env("creating index: %v", err)
	}
	for name, opt := range map[string]pilosa.FieldOption{"v": pilosa.OptFieldTypeInt(-10, 1000), "b": pilosa.OptFieldTypeBool(), "m": pilosa.OptFieldTypeMutex(pilosa.CacheTypeRanked, 1000)} {
		if _, err := c[0].API.CreateField(ctx, "dx4", name, opt); err != nil {
			vC11Env("creating field: %v", err)
		}
	}
	for _, name := range []string{"v", "b", "m"} {
		fld := c[0].Server.Holder().Field("dx4", name)
		var err error
		if name == "v" {
			_, err = fld.SetValue(3, 7)
		} else {
			_, err = fld.SetBit(1, 3, nil)
		}
		if err != nil {
			vC11Env("write on node 0: %v", err)
		}
		if err := c[0].Server.SyncData(); err != nil {
			t.Fatalf("field %s differs on the two replicas (written on node 0 only): SyncData on node 0 fails instead of repairing node 1: %v", name, err)
		}
	}
	for _, name := range []string{"v", "b", "m"} {
		view := "standard"
		if name == "v" {
			view = "bsig_v"
		}
		a, _ := vC11ReadFragment(c[0], "dx4", vC11Frag{name, view, 0})
		b, _ := vC11ReadFragment(c[1], "dx4", vC11Frag{name, view, 0})
		if !vC11EqU(a, b) || len(a) == 0 {
			t.Fatalf("field %s after SyncData: node0 %s node1 %s", name, vC11PosList(a), vC11PosList(b))
		}
	}
}
