package server_test

// C23 through the HTTP layer: every route registered on the handler's router
// (enumerated with mux.Router.Walk, so a new route cannot be missed silently)
// x every cluster state. Gated routes must answer with an error status whose
// body carries the state-gate refusal and leave data/schema unchanged in
// STARTING/RESIZING, and must not answer with that refusal in NORMAL/DEGRADED.
//
// The status code of a refusal is recorded in the evidence (class
// "http-refusal-status:<code>") but not asserted: the API's method-not-allowed
// error type is unexported and the handler maps it to 500/400, no document
// promises 405.

import (
	"bytes"
	"fmt"
	"net"
	gohttp "net/http"
	"net/http/httptest"
	"reflect"
	"sort"
	"strings"
	"testing"

	"github.com/gorilla/mux"
	"github.com/pilosa/pilosa"
	"github.com/pilosa/pilosa/http"
	"github.com/pilosa/pilosa/internal/vkit"
	"github.com/pilosa/pilosa/roaring"
)

type vc23Route struct {
	class string
	// build returns the request; hot = arguments that would change the fixture if not refused.
	build func(e *vc23Env, hot bool, draw vc23Draw) *gohttp.Request
}

const vc23RefusalText = "not allowed in state"

func vc23Req(method, url string, body []byte, hdr ...string) *gohttp.Request {
	r := httptest.NewRequest(method, url, bytes.NewReader(body))
	r.Header.Set("Accept", "application/json")
	r.Header.Set("Content-Type", "application/json")
	for i := 0; i+1 < len(hdr); i += 2 {
		r.Header.Set(hdr[i], hdr[i+1])
	}
	return r
}

func vc23pick(hot bool, hotv, safe string) string {
	if hot {
		return hotv
	}
	return safe
}

var vc23PB = []string{"Content-Type", "application/x-protobuf", "Accept", "application/x-protobuf"}

// vc23Routes classifies the known routes by "METHOD path-template".
var vc23Routes = map[string]vc23Route{
	"POST /index/{index}/query": {vc23Gated, func(e *vc23Env, hot bool, draw vc23Draw) *gohttp.Request {
		qs := []string{"Set(9, f=3)", "Clear(1, f=1)", "ClearRow(f=1)", "Store(Row(f=2), f=1)", "Set(5, v=7)", "Row(f=1)"}
		q := qs[draw("query", len(qs))]
		idx := vc23pick(hot, vc23Idx, vc23Scratch)
		if draw("flag:protobuf-body", 2) == 1 {
			// the protobuf form carries the request flags (Remote, ...) in the body
			req := &pilosa.QueryRequest{Index: idx, Query: q}
			for _, name := range vc23BoolFields(reflect.TypeOf(pilosa.QueryRequest{})) {
				if draw("flag:QueryRequest."+name, 2) == 1 {
					reflect.ValueOf(req).Elem().FieldByName(name).SetBool(true)
				}
			}
			body, _ := e.ser.Marshal(req)
			return vc23Req("POST", "/index/"+idx+"/query", body, vc23PB...)
		}
		return vc23Req("POST", "/index/"+idx+"/query", []byte(q))
	}},
	"POST /index/{index}": {vc23Gated, func(e *vc23Env, hot bool, draw vc23Draw) *gohttp.Request {
		e.n++
		return vc23Req("POST", fmt.Sprintf("/index/c23tmph%d", e.n), []byte(`{"options":{"keys":false}}`))
	}},
	"DELETE /index/{index}": {vc23Gated, func(e *vc23Env, hot bool, draw vc23Draw) *gohttp.Request {
		return vc23Req("DELETE", "/index/"+vc23pick(hot, vc23Idx, "c23tmpnone"), nil)
	}},
	"POST /index/{index}/field/{field}": {vc23Gated, func(e *vc23Env, hot bool, draw vc23Draw) *gohttp.Request {
		e.n++
		return vc23Req("POST", fmt.Sprintf("/index/%s/field/tmph%d", vc23pick(hot, vc23Idx, vc23Scratch), e.n), []byte(`{"options":{"type":"set"}}`))
	}},
	"DELETE /index/{index}/field/{field}": {vc23Gated, func(e *vc23Env, hot bool, draw vc23Draw) *gohttp.Request {
		return vc23Req("DELETE", "/index/"+vc23pick(hot, vc23Idx+"/field/f", vc23Scratch+"/field/nosuchfield"), nil)
	}},
	"POST /index/{index}/field/{field}/import": {vc23Gated, func(e *vc23Env, hot bool, draw vc23Draw) *gohttp.Request {
		idx := vc23pick(hot, vc23Idx, vc23Scratch)
		if draw("flag:import-kind", 2) == 0 {
			body, _ := e.ser.Marshal(&pilosa.ImportRequest{Index: idx, Field: "f", Shard: 0, RowIDs: []uint64{7}, ColumnIDs: []uint64{3}})
			return vc23Req("POST", "/index/"+idx+"/field/f/import", body, vc23PB...)
		}
		body, _ := e.ser.Marshal(&pilosa.ImportValueRequest{Index: idx, Field: "v", Shard: 0, ColumnIDs: []uint64{1}, Values: []int64{9}})
		return vc23Req("POST", "/index/"+idx+"/field/v/import", body, vc23PB...)
	}},
	"POST /index/{index}/field/{field}/import-roaring/{shard}": {vc23Gated, func(e *vc23Env, hot bool, draw vc23Draw) *gohttp.Request {
		idx := vc23pick(hot, vc23Idx, vc23Scratch)
		var buf bytes.Buffer
		roaring.NewBitmap(7*pilosa.ShardWidth + 3).WriteTo(&buf)
		body, _ := e.ser.Marshal(&pilosa.ImportRoaringRequest{Clear: draw("flag:body.Clear", 2) == 1, Views: map[string][]byte{"": buf.Bytes()}})
		return vc23Req("POST", "/index/"+idx+"/field/f/import-roaring/0", body, vc23PB...)
	}},
	"GET /export": {vc23Gated, func(e *vc23Env, hot bool, draw vc23Draw) *gohttp.Request {
		return vc23Req("GET", "/export?index="+vc23Idx+"&field=f&shard=0", nil, "Accept", "text/csv")
	}},
	"POST /recalculate-caches": {vc23Gated, func(e *vc23Env, hot bool, draw vc23Draw) *gohttp.Request {
		return vc23Req("POST", "/recalculate-caches", nil)
	}},
	"POST /schema": {vc23Gated, func(e *vc23Env, hot bool, draw vc23Draw) *gohttp.Request {
		body := `{"indexes":[{"name":"` + vc23Scratch + `","fields":[{"name":"f","options":{"type":"set","cacheType":"ranked","cacheSize":100}}]}]}`
		if hot {
			body = `{"indexes":[{"name":"c23tmpapplied","fields":[{"name":"g","options":{"type":"set","cacheType":"ranked","cacheSize":100}}]}]}`
		}
		return vc23Req("POST", "/schema", []byte(body))
	}},
	"GET /internal/fragment/block/data": {vc23Gated, func(e *vc23Env, hot bool, draw vc23Draw) *gohttp.Request {
		body, _ := e.ser.Marshal(&pilosa.BlockDataRequest{Index: vc23Idx, Field: "f", View: "standard", Shard: 0, Block: 0})
		return vc23Req("GET", "/internal/fragment/block/data", body, vc23PB...)
	}},
	"GET /internal/fragment/blocks": {vc23Gated, func(e *vc23Env, hot bool, draw vc23Draw) *gohttp.Request {
		return vc23Req("GET", "/internal/fragment/blocks?index="+vc23Idx+"&field=f&view=standard&shard=0", nil)
	}},
	"GET /internal/fragment/nodes": {vc23Gated, func(e *vc23Env, hot bool, draw vc23Draw) *gohttp.Request {
		return vc23Req("GET", "/internal/fragment/nodes?index="+vc23Idx+"&shard=0", nil)
	}},
	"POST /internal/index/{index}/attr/diff": {vc23Gated, func(e *vc23Env, hot bool, draw vc23Draw) *gohttp.Request {
		return vc23Req("POST", "/internal/index/"+vc23Idx+"/attr/diff", []byte(`{"blocks":[]}`))
	}},
	"POST /internal/index/{index}/field/{field}/attr/diff": {vc23Gated, func(e *vc23Env, hot bool, draw vc23Draw) *gohttp.Request {
		return vc23Req("POST", "/internal/index/"+vc23Idx+"/field/f/attr/diff", []byte(`{"blocks":[]}`))
	}},
	"DELETE /internal/index/{index}/field/{field}/remote-available-shards/{shardID}": {vc23Gated, func(e *vc23Env, hot bool, draw vc23Draw) *gohttp.Request {
		return vc23Req("DELETE", "/internal/index/"+vc23pick(hot, vc23Idx, vc23Scratch)+"/field/f/remote-available-shards/"+vc23pick(hot, "1", "9"), nil)
	}},
	"POST /cluster/resize/remove-node": {vc23Gated, func(e *vc23Env, hot bool, draw vc23Draw) *gohttp.Request {
		return vc23Req("POST", "/cluster/resize/remove-node", []byte(`{"id":"no-such-node"}`))
	}},
	"GET /internal/fragment/data": {vc23Resizing, func(e *vc23Env, hot bool, draw vc23Draw) *gohttp.Request {
		return vc23Req("GET", "/internal/fragment/data?index="+vc23Idx+"&field=f&view=standard&shard=0", nil)
	}},
	"POST /cluster/resize/abort": {vc23Resizing, func(e *vc23Env, hot bool, draw vc23Draw) *gohttp.Request {
		return vc23Req("POST", "/cluster/resize/abort", nil)
	}},
	"POST /internal/cluster/message": {vc23Always, func(e *vc23Env, hot bool, draw vc23Draw) *gohttp.Request {
		body, _ := pilosa.MarshalInternalMessage(&pilosa.RecalculateCaches{}, e.ser)
		return vc23Req("POST", "/internal/cluster/message", body, "Content-Type", "application/x-protobuf")
	}},
	"POST /cluster/resize/set-coordinator": {vc23Always, func(e *vc23Env, hot bool, draw vc23Draw) *gohttp.Request {
		return vc23Req("POST", "/cluster/resize/set-coordinator", []byte(`{"id":"no-such-node"}`))
	}},
	"GET /":                         {vc23Status, nil},
	"GET /index":                    {vc23Status, nil},
	"GET /index/{index}":            {vc23Status, nil},
	"GET /info":                     {vc23Status, nil},
	"GET /schema":                   {vc23Status, nil},
	"GET /status":                   {vc23Status, nil},
	"GET /version":                  {vc23Status, nil},
	"GET /internal/nodes":           {vc23Status, nil},
	"GET /internal/shards/max":      {vc23Status, nil},
	"GET /internal/translate/data":  {vc23Skip, nil}, // streams until the client goes away
	"POST /internal/translate/keys": {vc23Status, nil},
	"GET /debug/vars":               {vc23Skip, nil},
	"GET /metrics":                  {vc23Status, nil},
	"GET /debug/pprof/":             {vc23Skip, nil},
}

// vc23OptionalArgs reads the handler's query-argument validation table (unexported,
// read-only through reflection) and returns the optional arguments of a route.
func vc23OptionalArgs(h *http.Handler, routeName string) (out []string) {
	defer func() {
		if r := recover(); r != nil {
			out = nil
		}
	}()
	spec := reflect.ValueOf(h).Elem().FieldByName("validators").MapIndex(reflect.ValueOf(routeName))
	if !spec.IsValid() || spec.IsNil() {
		return nil
	}
	req := map[string]bool{}
	rv := spec.Elem().FieldByName("required")
	for i := 0; i < rv.Len(); i++ {
		req[rv.Index(i).String()] = true
	}
	for _, k := range spec.Elem().FieldByName("args").MapKeys() {
		if !req[k.String()] {
			out = append(out, k.String())
		}
	}
	sort.Strings(out)
	return out
}

func vc23GenericReq(key string) *gohttp.Request {
	parts := strings.SplitN(key, " ", 2)
	p := parts[1]
	p = strings.Replace(p, "{index}", vc23Idx, -1)
	p = strings.Replace(p, "{field}", "f", -1)
	p = strings.Replace(p, "{shard}", "0", -1)
	p = strings.Replace(p, "{shardID}", "0", -1)
	return vc23Req(parts[0], p, nil)
}

func TestVerifC23_HTTP(t *testing.T) {
	defer vkit.Flush()
	defer vc23CloseEnv()
	e := vc23GetEnv(t)
	ln, err := net.Listen("tcp", "localhost:0")
	if err != nil {
		vgsInconclusive("listen: %v", err)
	}
	defer ln.Close()
	h, err := http.NewHandler(http.OptHandlerAPI(e.cmd.API), http.OptHandlerListener(ln))
	if err != nil {
		vgsInconclusive("new handler: %v", err)
	}
	router, ok := h.Handler.(*mux.Router)
	if !ok {
		vgsInconclusive("handler is %T, not *mux.Router", h.Handler)
	}
	var keys []string
	optional := map[string][]string{}
	router.Walk(func(route *mux.Route, _ *mux.Router, _ []*mux.Route) error {
		tpl, err := route.GetPathTemplate()
		if err != nil {
			return nil
		}
		ms, err := route.GetMethods()
		if err != nil || len(ms) == 0 {
			ms = []string{"GET"}
		}
		for _, m := range ms {
			keys = append(keys, m+" "+tpl)
			if opt := vc23OptionalArgs(h, route.GetName()); len(opt) > 0 {
				optional[m+" "+tpl] = opt
			}
		}
		return nil
	})
	vkit.Extra("http_optional_query_args", optional)
	sort.Strings(keys)
	var unclassified []string
	for _, k := range keys {
		if _, ok := vc23Routes[k]; !ok {
			unclassified = append(unclassified, k)
		}
	}
	vkit.Extra("http_routes", keys)
	vkit.Extra("http_unclassified", unclassified)
	for k := range vc23Routes {
		found := false
		for _, x := range keys {
			found = found || x == k
		}
		if !found {
			vkit.Count("http-table-entry-without-route:"+k, 1)
		}
	}
	variants := vkit.Scale(2, 6)
	api := e.cmd.API
	for _, st := range vc23States {
		refusing := st == pilosa.ClusterStateStarting || st == pilosa.ClusterStateResizing
		for _, k := range keys {
			rt, known := vc23Routes[k]
			if rt.class == vc23Skip {
				continue
			}
			odo := &vc23Odo{}
			for more := true; more || odo.iter < variants; more = odo.next() && more {
				class := rt.class
				if !known {
					class = "unclassified"
				}
				hot := refusing && (class == vc23Gated || !known)
				vc := vkit.NewCase()
				vc.Class("http-state:" + st).Class("http-class:" + class)
				vc23SetState(api, pilosa.ClusterStateNormal)
				var before []string
				if hot {
					before = e.battery(t)
				}
				var req *gohttp.Request
				if rt.build != nil {
					req = rt.build(e, hot, odo.draw)
				} else {
					req = vc23GenericReq(k)
				}
				// every optional query-string argument the handler accepts on this route
				// (read from its validation table), on and off
				qv := req.URL.Query()
				for _, arg := range optional[k] {
					if odo.draw("flag:?"+arg, 2) == 1 {
						val := "true"
						if arg == "shards" {
							val = "0,1"
						}
						qv.Set(arg, val)
					}
				}
				req.URL.RawQuery = qv.Encode()
				desc := fmt.Sprintf("%s %s", req.Method, req.URL.String())
				vc23SetState(api, st)
				rec := httptest.NewRecorder()
				h.ServeHTTP(rec, req)
				vc23SetState(api, pilosa.ClusterStateNormal)
				body := rec.Body.String()
				refused := rec.Code >= 400 && strings.Contains(body, vc23RefusalText)
				saysRefused := strings.Contains(body, vc23RefusalText)
				vc.Key("http", st, desc, odo.iter)
				vc.Sample(map[string]interface{}{"state": st, "route": k, "request": desc, "status": rec.Code, "refused": refused})
				if refused {
					vc.Class(fmt.Sprintf("http-refusal-status:%d", rec.Code))
				} else if rec.Code >= 400 {
					vc.Class(fmt.Sprintf("http-served-with-error:%s:%d", k, rec.Code))
				}
				short := body
				if len(short) > 300 {
					short = short[:300]
				}
				switch {
				case hot:
					vc.NT(true)
					after := e.battery(t)
					changed := ""
					for i := range before {
						if i >= len(after) || before[i] != after[i] {
							changed = fmt.Sprintf("\n  before %s\n  after  %s", before[i], after[i])
							break
						}
					}
					if known && !refused {
						vc.Done()
						t.Fatalf("state %s: HTTP %s was not refused: status %d body %q", st, desc, rec.Code, short)
					}
					if changed != "" {
						vc.Done()
						t.Fatalf("state %s: HTTP %s (status %d) changed data/schema while the cluster is not serving:%s", st, desc, rec.Code, changed)
					}
				case class == vc23Gated:
					if saysRefused {
						vc.Done()
						t.Fatalf("state %s: HTTP %s was refused although the cluster is serving: status %d body %q", st, desc, rec.Code, short)
					}
				case (class == vc23Resizing || class == vc23Always) && st == pilosa.ClusterStateResizing:
					vc.NT(true)
					if saysRefused {
						vc.Done()
						t.Fatalf("state RESIZING: HTTP %s must be served during a resize but was refused: status %d body %q", desc, rec.Code, short)
					}
				}
				vc.Done()
				// undo admitted creations on the scratch side
				if !refusing && strings.HasPrefix(k, "POST /index/{index}") && rec.Code < 300 {
					if k == "POST /index/{index}" {
						api.DeleteIndex(req.Context(), strings.TrimPrefix(req.URL.Path, "/index/"))
					} else if k == "POST /index/{index}/field/{field}" {
						p := strings.Split(req.URL.Path, "/")
						api.DeleteField(req.Context(), p[2], p[4])
					}
				}
			}
		}
	}
	vkit.Extra("exhaustive", true)
}
