package server_test

// C03 layer (c) — query results are isolated values (API level).
//
// Histories on a fresh index of a long-lived in-process server: keep the *Row
// results of earlier queries (Row, Union/Intersect/Difference/Xor, and the
// destination of Store(Row(a), b)), then run more writes (Set, Clear, Import,
// ImportRoaring incl. large ones that force a snapshot, ClearRow, Store),
// restarts (Reopen closes every fragment and unmaps its file) and writes to
// the kept results themselves (exported Row.SetBit). After every step every
// kept result is re-read against ITS OWN model and every stored row against
// the index model.

import (
	"bytes"
	"context"
	"fmt"
	"runtime/debug"
	"sort"
	"strings"
	"testing"

	"github.com/pilosa/pilosa"
	"github.com/pilosa/pilosa/internal/vkit"
	"github.com/pilosa/pilosa/roaring"
	"pgregory.net/rapid"
)

type vc3aKept struct {
	id    int
	desc  string
	row   *pilosa.Row
	model map[uint64]bool
}

type vc3aCase struct {
	t      *rapid.T
	cmdq   func(q string) []interface{}
	index  string
	fields []string
	model  map[string]map[uint64]map[uint64]bool // field -> row -> cols
	kept   []*vc3aKept
	log    []string
	cls    map[string]bool
	nextID int
	after  int // number of write/snapshot/restart steps executed while >= 1 value was kept
}

var vc3aRows = []uint64{0, 1, 2, 3}
var vc3aCols = []uint64{0, 1, 2, 65535, 65536, 65537, vc8SW - 1, vc8SW, vc8SW + 1, 2*vc8SW + 3}

func (c *vc3aCase) logf(format string, a ...interface{}) {
	c.log = append(c.log, fmt.Sprintf(format, a...))
}

func (c *vc3aCase) fatalf(format string, a ...interface{}) {
	c.t.Fatalf("%s\nhistory:\n  %s", fmt.Sprintf(format, a...), strings.Join(c.log, "\n  "))
}

func (c *vc3aCase) rowModel(f string, r uint64) map[uint64]bool {
	if c.model[f] == nil {
		c.model[f] = map[uint64]map[uint64]bool{}
	}
	if c.model[f][r] == nil {
		c.model[f][r] = map[uint64]bool{}
	}
	return c.model[f][r]
}

func vc3aSorted(m map[uint64]bool) []uint64 {
	out := make([]uint64, 0, len(m))
	for k, v := range m {
		if v {
			out = append(out, k)
		}
	}
	sort.Slice(out, func(i, j int) bool { return out[i] < out[j] })
	return out
}

func vc3aEq(a, b []uint64) bool {
	if len(a) != len(b) {
		return false
	}
	for i := range a {
		if a[i] != b[i] {
			return false
		}
	}
	return true
}

func vc3aShort(a []uint64) string {
	if len(a) > 12 {
		return fmt.Sprintf("%v...(%d values)", a[:12], len(a))
	}
	return fmt.Sprint(a)
}

func (c *vc3aCase) checkAll(after string) {
	for _, k := range c.kept {
		got, want := k.row.Columns(), vc3aSorted(k.model)
		if !vc3aEq(got, want) {
			c.fatalf("after %s: kept result #%d (%s) changed: got %s, want %s", after, k.id, k.desc, vc3aShort(got), vc3aShort(want))
		}
		if n := k.row.Count(); n != uint64(len(want)) {
			c.fatalf("after %s: kept result #%d (%s): Count()=%d, want %d", after, k.id, k.desc, n, len(want))
		}
	}
	for _, f := range c.fields {
		var q strings.Builder
		for _, r := range vc3aRows {
			fmt.Fprintf(&q, "Row(%s=%d) ", f, r)
		}
		res := c.cmdq(q.String())
		for i, r := range vc3aRows {
			got, want := res[i].(*pilosa.Row).Columns(), vc3aSorted(c.rowModel(f, r))
			if !vc3aEq(got, want) {
				c.fatalf("after %s: Row(%s=%d) = %s, want %s", after, f, r, vc3aShort(got), vc3aShort(want))
			}
		}
	}
}

func TestVerifC03_API(t *testing.T) {
	defer vkit.Flush()
	defer vc8CloseServer()
	defer debug.SetPanicOnFault(debug.SetPanicOnFault(true))
	rapid.Check(t, func(t *rapid.T) {
		debug.SetPanicOnFault(true)
		cmd := vc8Server()
		c := &vc3aCase{t: t, index: fmt.Sprintf("c3x%d", vc8seq), fields: []string{"f", "g"}, model: map[string]map[uint64]map[uint64]bool{}, cls: map[string]bool{}}
		ctx := context.Background()
		c.cmdq = func(q string) []interface{} {
			resp, err := cmd.API.Query(ctx, &pilosa.QueryRequest{Index: c.index, Query: q})
			if err != nil {
				c.fatalf("query %s: %v", q, err)
			}
			return resp.Results
		}
		defer func() { cmd.API.DeleteIndex(ctx, c.index) }()
		if _, err := cmd.API.CreateIndex(ctx, c.index, pilosa.IndexOptions{}); err != nil {
			t.Fatalf("CreateIndex: %v", err)
		}
		caches := []string{pilosa.CacheTypeRanked, pilosa.CacheTypeNone, pilosa.CacheTypeLRU}
		for _, f := range c.fields {
			if _, err := cmd.API.CreateField(ctx, c.index, f, pilosa.OptFieldTypeSet(caches[rapid.IntRange(0, 2).Draw(t, "cache")], 100)); err != nil {
				t.Fatalf("CreateField: %v", err)
			}
		}
		nsteps := rapid.IntRange(4, vkit.Scale(22, 40)).Draw(t, "nsteps")
		for i := 0; i < nsteps; i++ {
			f := rapid.SampledFrom(c.fields).Draw(t, "field")
			row := rapid.SampledFrom(vc3aRows).Draw(t, "row")
			op := rapid.SampledFrom([]string{"keepRow", "keepRow", "keepOp", "keepStore", "set", "set", "clear", "import", "importRoaring",
				"importBig", "clearRow", "store", "reopen", "mutateKept", "mutateKept"}).Draw(t, "op")
			write := true
			switch op {
			case "keepRow":
				write = false
				r := c.cmdq(fmt.Sprintf("Row(%s=%d)", f, row))[0].(*pilosa.Row)
				m := map[uint64]bool{}
				for k := range c.rowModel(f, row) {
					m[k] = true
				}
				c.kept = append(c.kept, &vc3aKept{id: c.nextID, desc: fmt.Sprintf("Row(%s=%d)", f, row), row: r, model: m})
				c.logf("#%d = Row(%s=%d)", c.nextID, f, row)
				c.nextID++
				c.cls["keep:Row"] = true
			case "keepOp":
				write = false
				f2 := rapid.SampledFrom(c.fields).Draw(t, "field2")
				row2 := rapid.SampledFrom(vc3aRows).Draw(t, "row2")
				kind := rapid.SampledFrom([]string{"Union", "Intersect", "Difference", "Xor"}).Draw(t, "kind")
				q := fmt.Sprintf("%s(Row(%s=%d), Row(%s=%d))", kind, f, row, f2, row2)
				r := c.cmdq(q)[0].(*pilosa.Row)
				a, b := c.rowModel(f, row), c.rowModel(f2, row2)
				m := map[uint64]bool{}
				for k := range a {
					switch kind {
					case "Union":
						m[k] = true
					case "Intersect":
						if b[k] {
							m[k] = true
						}
					default:
						if !b[k] {
							m[k] = true
						}
					}
				}
				for k := range b {
					if kind == "Union" || (kind == "Xor" && !a[k]) {
						m[k] = true
					}
				}
				c.kept = append(c.kept, &vc3aKept{id: c.nextID, desc: q, row: r, model: m})
				c.logf("#%d = %s", c.nextID, q)
				c.nextID++
				c.cls["keep:"+kind] = true
			case "keepStore", "store":
				f2 := rapid.SampledFrom(c.fields).Draw(t, "dstField")
				row2 := rapid.SampledFrom(vc3aRows).Draw(t, "dstRow")
				q := fmt.Sprintf("Store(Row(%s=%d), %s=%d)", f, row, f2, row2)
				c.cmdq(q)
				src := c.rowModel(f, row)
				m := map[uint64]bool{}
				for k := range src {
					m[k] = true
				}
				c.rowModel(f2, row2)
				c.model[f2][row2] = m
				c.logf("%s", q)
				c.cls["write:Store"] = true
				if op == "keepStore" {
					r := c.cmdq(fmt.Sprintf("Row(%s=%d)", f2, row2))[0].(*pilosa.Row)
					km := map[uint64]bool{}
					for k := range m {
						km[k] = true
					}
					c.kept = append(c.kept, &vc3aKept{id: c.nextID, desc: "Row(" + f2 + ") after " + q, row: r, model: km})
					c.logf("#%d = Row(%s=%d)", c.nextID, f2, row2)
					c.nextID++
					c.cls["keep:after-Store"] = true
				}
			case "set":
				col := rapid.SampledFrom(vc3aCols).Draw(t, "col")
				c.cmdq(fmt.Sprintf("Set(%d, %s=%d)", col, f, row))
				c.rowModel(f, row)[col] = true
				c.logf("Set(%d, %s=%d)", col, f, row)
			case "clear":
				col := rapid.SampledFrom(vc3aCols).Draw(t, "col")
				c.cmdq(fmt.Sprintf("Clear(%d, %s=%d)", col, f, row))
				delete(c.rowModel(f, row), col)
				c.logf("Clear(%d, %s=%d)", col, f, row)
			case "clearRow":
				c.cmdq(fmt.Sprintf("ClearRow(%s=%d)", f, row))
				c.rowModel(f, row)
				c.model[f][row] = map[uint64]bool{}
				c.logf("ClearRow(%s=%d)", f, row)
				c.cls["write:ClearRow"] = true
			case "import":
				clear := rapid.IntRange(0, 3).Draw(t, "clear") == 0
				shard := rapid.SampledFrom([]uint64{0, 1}).Draw(t, "shard")
				n := rapid.IntRange(1, 5).Draw(t, "n")
				req := &pilosa.ImportRequest{Index: c.index, Field: f, Shard: shard}
				for k := 0; k < n; k++ {
					r := rapid.SampledFrom(vc3aRows).Draw(t, "irow")
					col := shard*vc8SW + rapid.SampledFrom([]uint64{0, 1, 2, 65535, 65536, vc8SW - 1}).Draw(t, "ioff")
					req.RowIDs = append(req.RowIDs, r)
					req.ColumnIDs = append(req.ColumnIDs, col)
				}
				c.logf("Import(%s shard=%d rows=%v cols=%v clear=%v)", f, shard, req.RowIDs, req.ColumnIDs, clear)
				rows, cols := append([]uint64{}, req.RowIDs...), append([]uint64{}, req.ColumnIDs...)
				var opts []pilosa.ImportOption
				if clear {
					opts = append(opts, pilosa.OptImportOptionsClear(true))
				}
				if err := cmd.API.Import(ctx, req, opts...); err != nil {
					c.fatalf("Import: %v", err)
				}
				for k := range rows {
					if clear {
						delete(c.rowModel(f, rows[k]), cols[k])
					} else {
						c.rowModel(f, rows[k])[cols[k]] = true
					}
				}
				c.cls["write:Import"] = true
			case "importRoaring", "importBig":
				clear := rapid.IntRange(0, 3).Draw(t, "clear") == 0
				shard := rapid.SampledFrom([]uint64{0, 1}).Draw(t, "shard")
				bm := roaring.NewBitmap()
				var desc string
				if op == "importBig" {
					// > MaxOpN (10000) changed bits in one call: the fragment snapshots and remaps its storage
					start := rapid.SampledFrom([]uint64{0, 60000, 131072}).Draw(t, "start")
					n := rapid.SampledFrom([]uint64{10500, 70000}).Draw(t, "len")
					for v := start; v < start+n; v++ {
						bm.DirectAdd(row*vc8SW + v)
						if clear {
							delete(c.rowModel(f, row), shard*vc8SW+v)
						} else {
							c.rowModel(f, row)[shard*vc8SW+v] = true
						}
					}
					desc = fmt.Sprintf("row %d offsets [%d,%d)", row, start, start+n)
					c.cls["write:ImportRoaring-big(snapshot)"] = true
				} else {
					n := rapid.IntRange(1, 5).Draw(t, "n")
					for k := 0; k < n; k++ {
						r := rapid.SampledFrom(vc3aRows).Draw(t, "rrow")
						off := rapid.SampledFrom([]uint64{0, 1, 2, 65535, 65536, vc8SW - 1}).Draw(t, "roff")
						bm.DirectAdd(r*vc8SW + off)
						if clear {
							delete(c.rowModel(f, r), shard*vc8SW+off)
						} else {
							c.rowModel(f, r)[shard*vc8SW+off] = true
						}
						desc += fmt.Sprintf("%d/%d ", r, off)
					}
					c.cls["write:ImportRoaring"] = true
				}
				var buf bytes.Buffer
				bm.WriteTo(&buf)
				c.logf("ImportRoaring(%s shard=%d %s clear=%v)", f, shard, desc, clear)
				if err := cmd.API.ImportRoaring(ctx, c.index, f, shard, false, &pilosa.ImportRoaringRequest{Clear: clear, Views: map[string][]byte{"": buf.Bytes()}}); err != nil {
					c.fatalf("ImportRoaring: %v", err)
				}
			case "reopen":
				if rapid.IntRange(0, 1).Draw(t, "really") == 0 {
					continue
				}
				c.logf("Reopen()")
				if err := cmd.Reopen(); err != nil {
					c.fatalf("Reopen: %v", err)
				}
				c.cls["reopen"] = true
			case "mutateKept":
				write = false
				if len(c.kept) == 0 {
					continue
				}
				k := c.kept[rapid.IntRange(0, len(c.kept)-1).Draw(t, "kept")]
				col := rapid.SampledFrom(vc3aCols).Draw(t, "mcol")
				c.logf("#%d.SetBit(%d)", k.id, col)
				k.row.SetBit(col)
				k.model[col] = true
				c.cls["mutate:SetBit"] = true
			}
			if write && len(c.kept) > 0 {
				c.after++
			}
			c.checkAll(c.log[len(c.log)-1])
		}
		// a final restart closes and unmaps every source
		c.logf("Reopen() (final)")
		if err := cmd.Reopen(); err != nil {
			c.fatalf("Reopen: %v", err)
		}
		if len(c.kept) > 0 {
			c.after++
		}
		c.checkAll("final Reopen()")

		key := strings.Join(c.log, "|")
		vc := vkit.NewCase().Key(key)
		var cl []string
		for k := range c.cls {
			cl = append(cl, k)
		}
		sort.Strings(cl)
		for _, k := range cl {
			vc.Class(k)
		}
		nonEmpty := false
		for _, k := range c.kept {
			if len(k.model) > 0 {
				nonEmpty = true
			}
		}
		vc.NT(nonEmpty && c.after >= 2)
		smp := c.log
		if len(smp) > 12 {
			smp = smp[:12]
		}
		vc.Sample(map[string]interface{}{"history_prefix": smp, "steps": len(c.log), "kept": len(c.kept)})
		vc.Done()
	})
}
