package server_test

// Shared helpers of group gT (C18, C19, C28): one in-process single-node server per test function,
// one fresh index per generated case.

import (
	"context"
	"fmt"
	"os"
	"sort"
	"strconv"
	"strings"
	"testing"
	"time"

	"github.com/pilosa/pilosa"
	"github.com/pilosa/pilosa/internal/vkit"
	"github.com/pilosa/pilosa/test"
	"pgregory.net/rapid"
)

var vgtQuanta = []pilosa.TimeQuantum{"Y", "YM", "YMD", "YMDH", "M", "MD", "MDH", "D", "DH", "H"}

// vgtColPool straddles container and shard edges of up to 4 non-contiguous shards.
var vgtColPool = []uint64{0, 1, 2, 65535, 65536, pilosa.ShardWidth - 1, pilosa.ShardWidth, pilosa.ShardWidth + 1,
	2*pilosa.ShardWidth - 1, 3*pilosa.ShardWidth + 5, 3*pilosa.ShardWidth + 70000, 5 * pilosa.ShardWidth}

var vgtRowPool = []uint64{0, 1, 2, 3, 7, 99, 100, 101, 1000}

type vgtFataler interface {
	Fatalf(format string, args ...interface{})
}

type vgtServer struct {
	cmd *test.Command
	seq int
}

// vgtSetLocalZone gives the test process (hence the in-process server) a local time zone that is not UTC, chosen
// by the shard seed. Everything stored and queried is defined in UTC, so no answer may depend on it.
func vgtSetLocalZone() {
	offsets := []int{-11 * 3600, -(3*3600 + 1800), 5*3600 + 1800, 13 * 3600}
	seed, _ := strconv.Atoi(os.Getenv("VERIF_SEED_EFF"))
	if seed < 0 {
		seed = -seed
	}
	time.Local = time.FixedZone("verif", offsets[seed%len(offsets)])
	vkit.Extra("serverLocalZoneOffsetSeconds", offsets[seed%len(offsets)])
}

func vgtStartServer() *vgtServer {
	vgtSetLocalZone()
	return &vgtServer{cmd: test.MustRunCommand()}
}

func (s *vgtServer) Close() { s.cmd.Close() }

// newIndex creates a fresh index and returns its name and a cleanup function.
func (s *vgtServer) newIndex(t vgtFataler, opts pilosa.IndexOptions) (string, func()) {
	s.seq++
	name := fmt.Sprintf("vi%d", s.seq)
	if _, err := s.cmd.API.CreateIndex(context.Background(), name, opts); err != nil {
		t.Fatalf("creating index %s: %v", name, err)
	}
	return name, func() { _ = s.cmd.API.DeleteIndex(context.Background(), name) }
}

func (s *vgtServer) createField(t vgtFataler, index, field string, opts ...pilosa.FieldOption) {
	if _, err := s.cmd.API.CreateField(context.Background(), index, field, opts...); err != nil {
		t.Fatalf("creating field %s/%s: %v", index, field, err)
	}
}

// query runs PQL and returns the results or the error.
func (s *vgtServer) query(index, pql string) ([]interface{}, error) {
	resp, err := s.cmd.API.Query(context.Background(), &pilosa.QueryRequest{Index: index, Query: pql})
	if err != nil {
		return nil, err
	}
	return resp.Results, nil
}

func (s *vgtServer) mustQuery(t vgtFataler, index, pql string) []interface{} {
	res, err := s.query(index, pql)
	if err != nil {
		t.Fatalf("query %q on %s: %v", vgtClip(pql), index, err)
	}
	return res
}

// runBatched executes PQL calls in batches of one query string each.
func (s *vgtServer) runBatched(t vgtFataler, index string, calls []string) {
	const batch = 50
	for i := 0; i < len(calls); i += batch {
		j := i + batch
		if j > len(calls) {
			j = len(calls)
		}
		s.mustQuery(t, index, strings.Join(calls[i:j], " "))
	}
}

func vgtClip(s string) string {
	if len(s) > 600 {
		return s[:600] + "…"
	}
	return s
}

func vgtRowCols(t vgtFataler, res interface{}, what string) []uint64 {
	r, ok := res.(*pilosa.Row)
	if !ok {
		t.Fatalf("%s: result is %T, want *pilosa.Row", what, res)
	}
	cols := r.Columns()
	if cols == nil {
		cols = []uint64{}
	}
	return cols
}

func vgtRowIDs(t vgtFataler, res interface{}, what string) []uint64 {
	r, ok := res.(pilosa.RowIdentifiers)
	if !ok {
		t.Fatalf("%s: result is %T, want pilosa.RowIdentifiers", what, res)
	}
	if r.Rows == nil {
		return []uint64{}
	}
	return r.Rows
}

func vgtSortedSet(m map[uint64]bool) []uint64 {
	out := make([]uint64, 0, len(m))
	for k, v := range m {
		if v {
			out = append(out, k)
		}
	}
	sort.Slice(out, func(i, j int) bool { return out[i] < out[j] })
	return out
}

func vgtEqU64(a, b []uint64) bool {
	if len(a) != len(b) {
		return false
	}
	for i := range a {
		if a[i] != b[i] {
			return false
		}
	}
	return true
}

// ---- calendar helpers (UTC) ----

func vgtDate(y int, m time.Month, d, h int) time.Time {
	return time.Date(y, m, d, h, 0, 0, 0, time.UTC)
}

func vgtFinest(q pilosa.TimeQuantum) rune { return rune(q[len(q)-1]) }

func vgtTrunc(t time.Time, unit rune) time.Time {
	y, m, d := t.Date()
	switch unit {
	case 'Y':
		return vgtDate(y, 1, 1, 0)
	case 'M':
		return vgtDate(y, m, 1, 0)
	case 'D':
		return vgtDate(y, m, d, 0)
	}
	return vgtDate(y, m, d, t.Hour())
}

// vgtAdd advances a unit-aligned time by n units (time.Date normalisation).
func vgtAdd(t time.Time, unit rune, n int) time.Time {
	y, m, d := t.Date()
	switch unit {
	case 'Y':
		return vgtDate(y+n, m, d, t.Hour())
	case 'M':
		return vgtDate(y, m+time.Month(n), d, t.Hour())
	case 'D':
		return vgtDate(y, m, d+n, t.Hour())
	}
	return vgtDate(y, m, d, t.Hour()+n)
}

func vgtPQLTime(t time.Time) string { return t.Format(pilosa.TimeFormat) }

// vgtImport sends bits (ids) through API.Import grouped by shard, the way clients do.
func (s *vgtServer) importIDs(t vgtFataler, index, field string, rows, cols []uint64, ts []int64, clear bool) {
	type grp struct {
		rows, cols []uint64
		ts         []int64
	}
	byShard := map[uint64]*grp{}
	var shards []uint64
	for i := range rows {
		sh := cols[i] / pilosa.ShardWidth
		g := byShard[sh]
		if g == nil {
			g = &grp{}
			byShard[sh] = g
			shards = append(shards, sh)
		}
		g.rows = append(g.rows, rows[i])
		g.cols = append(g.cols, cols[i])
		if ts != nil {
			g.ts = append(g.ts, ts[i])
		}
	}
	sort.Slice(shards, func(i, j int) bool { return shards[i] < shards[j] })
	for _, sh := range shards {
		g := byShard[sh]
		req := &pilosa.ImportRequest{Index: index, Field: field, Shard: sh, RowIDs: g.rows, ColumnIDs: g.cols, Timestamps: g.ts}
		if err := s.cmd.API.Import(context.Background(), req, pilosa.OptImportOptionsClear(clear)); err != nil {
			t.Fatalf("API.Import(%s/%s shard %d, %d bits, clear=%v): %v", index, field, sh, len(g.rows), clear, err)
		}
	}
}

// vgtGenStamp draws a timestamp (whole minutes) in 2019..2021 (+-2 units around earlier stamps), biased to calendar edges, optionally near an anchor.
func vgtGenStamp(t *rapid.T, label string, anchors []time.Time) time.Time {
	if len(anchors) > 0 && rapid.IntRange(0, 2).Draw(t, label+".near") > 0 {
		a := anchors[rapid.IntRange(0, len(anchors)-1).Draw(t, label+".anchor")]
		u := rapid.SampledFrom([]rune{'H', 'H', 'D', 'D', 'M', 'Y'}).Draw(t, label+".du")
		k := rapid.IntRange(-2, 2).Draw(t, label+".dk")
		return vgtAdd(vgtTrunc(a, 'H'), u, k)
	}
	if rapid.IntRange(0, 2).Draw(t, label+".edge") == 0 {
		// a day next to a coarser-unit boundary, leap year 2020 preferred
		y := rapid.SampledFrom([]int{2019, 2020, 2020, 2021}).Draw(t, label+".ey")
		var a time.Time
		switch rapid.SampledFrom([]string{"jan1", "dec31", "dec31", "first", "last", "feb28", "feb29", "mar1"}).Draw(t, label+".eanchor") {
		case "jan1":
			a = vgtDate(y, 1, 1, 0)
		case "dec31":
			a = vgtDate(y, 12, 31, 0)
		case "first":
			a = vgtDate(y, time.Month(rapid.IntRange(1, 12).Draw(t, label+".em")), 1, 0)
		case "last":
			a = vgtDate(y, time.Month(rapid.IntRange(1, 12).Draw(t, label+".em"))+1, 0, 0)
		case "feb28":
			a = vgtDate(y, 2, 28, 0)
		case "feb29":
			a = vgtDate(y, 2, 29, 0) // 1 Mar in a common year
		default:
			a = vgtDate(y, 3, 1, 0)
		}
		h := rapid.SampledFrom([]int{0, 0, 1, 12, 13, 22, 23, 23}).Draw(t, label+".eh")
		min := rapid.SampledFrom([]int{0, 0, 30, 59}).Draw(t, label+".emin")
		return time.Date(a.Year(), a.Month(), a.Day(), h, min, 0, 0, time.UTC)
	}
	y := rapid.IntRange(2019, 2021).Draw(t, label+".y")
	m := rapid.SampledFrom([]int{1, 2, 2, 3, 6, 11, 12, 12}).Draw(t, label+".m")
	dim := vgtDate(y, time.Month(m)+1, 0, 0).Day()
	d := rapid.SampledFrom([]int{1, 2, 15, 28, dim - 1, dim}).Draw(t, label+".d")
	if d > dim {
		d = dim
	}
	h := rapid.SampledFrom([]int{0, 1, 5, 11, 12, 13, 17, 22, 23}).Draw(t, label+".h")
	min := rapid.SampledFrom([]int{0, 0, 0, 1, 30, 59}).Draw(t, label+".min")
	return time.Date(y, time.Month(m), d, h, min, 0, 0, time.UTC)
}

var _ = testing.Verbose
