package server_test

// C06 — in-process companion for internal cluster messages: the gossip delegate (memberSet.NotifyMsg /
// MergeRemoteState) hands received bytes to API.ClusterMessage WITHOUT any recover, so here a panic is a failure
// (over HTTP the same panic would only be a 500).

import (
	"bytes"
	"context"
	"runtime/debug"
	"strings"
	"testing"

	"github.com/pilosa/pilosa"
	"github.com/pilosa/pilosa/internal/vkit"
	"github.com/pilosa/pilosa/test"
	"pgregory.net/rapid"
)

func TestVerifC06_ClusterMessage(t *testing.T) {
	defer vkit.Flush()
	var m *test.Command
	start := func() {
		m = test.MustRunCommand()
		if _, err := m.API.CreateIndex(context.Background(), vc06Index, pilosa.IndexOptions{}); err != nil {
			t.Fatalf("creating index: %v", err)
		}
		if _, err := m.API.CreateField(context.Background(), vc06Index, "f"); err != nil {
			t.Fatalf("creating field: %v", err)
		}
	}
	start()
	defer func() { m.Close() }()
	rapid.Check(t, func(t *rapid.T) {
		req := vc06GenMessage(t)
		c := vkit.NewCase().Key("msg", req.body)
		defer c.Done()
		c.Class("message:" + req.label)
		c.Sample(map[string]interface{}{"message": req.desc})
		var err error
		var pv interface{}
		inGenerated := false
		func() {
			defer func() {
				if pv = recover(); pv != nil {
					st := string(debug.Stack())
					if i := strings.Index(st, "panic("); i >= 0 {
						st = st[i:]
					}
					if j := strings.Index(st, "encoding/proto.Serializer.Unmarshal"); j >= 0 {
						inGenerated = strings.Contains(st[:j], "/internal/private.pb.go") || strings.Contains(st[:j], "/internal/public.pb.go")
					}
				}
			}()
			err = m.API.ClusterMessage(context.Background(), bytes.NewReader(req.body))
		}()
		if pv != nil && inGenerated && vkit.Open("DP14") {
			// the generated protobuf code (gogo 1.2.0) panics on a length near 2^63: finding DP14
			vkit.Excluded("DP14")
			c.Class("DP14-panic-in-generated-code")
			return
		}
		if pv != nil {
			t.Fatalf("API.ClusterMessage panics on %s: %v", req.desc, pv)
		}
		c.ClassIf(err == nil, "accepted").ClassIf(err != nil, "rejected")
		// non-trivial: the bytes were decoded into a message (accepted, or refused by receiveMessage)
		c.NT(err == nil || bytes.Contains([]byte(err.Error()), []byte("receiving message")))
		// an accepted message may change the node's view of the cluster; keep the following cases meaningful
		if _, qerr := m.API.Query(context.Background(), &pilosa.QueryRequest{Index: vc06Index, Query: "Count(Row(f=1))"}); qerr != nil {
			c.Class("message:state-changed-restart")
			m.Close()
			start()
		}
	})
}

// DP14 (open, C06 side): the generated protobuf code panics on a length near 2^63; through the gossip delegate
// (API.ClusterMessage without recover) that stops the server.
func TestVerifWitness_DP14_Message(t *testing.T) {
	m := test.MustRunCommand()
	defer m.Close()
	body := []byte{0x00, 0x83, 0x0f, 0x82, 0x80, 0x01, 0xff, 0xff, 0xff, 0xff, 0xff, 0xff, 0xff, 0xff, 0xff, 0x00, 0x00, 0x00}
	var pv interface{}
	func() {
		defer func() { pv = recover() }()
		m.API.ClusterMessage(context.Background(), bytes.NewReader(body))
	}()
	if pv != nil {
		t.Fatalf("API.ClusterMessage panics on the %d byte message %x: %v", len(body), body, pv)
	}
}
