package server_test

// C07, API half — reads through the server reflect all completed writes whatever the write path.
// One index with a set field f and an int field v over three shards. Writes: Set / Clear / Import(set|clear) /
// ImportRoaring(set|clear) / ClearRow on f; Set(col, v=x) / ImportValue(set|clear) on v. Reads after generated steps
// and at the end: Row(f=r), Count(Row(f=r)), Rows(f), Rows(f, column=c), export CSV per shard, Row(v == x), Sum(field=v).

import (
	"bytes"
	"context"
	"fmt"
	"sort"
	"strings"
	"testing"

	"github.com/pilosa/pilosa"
	"github.com/pilosa/pilosa/internal/vkit"
	"pgregory.net/rapid"
)

var vc7Cols = []uint64{0, 1, 65536, vgaSW - 1, vgaSW, vgaSW + 1, 3*vgaSW + 5}
var vc7Rows = []uint64{0, 1, 2, 99, 100, 101}

const vc7BulkN = 2600

func vc7Head(a []uint64) []uint64 {
	if len(a) > 12 {
		return a[:12]
	}
	return a
}

func TestVerifC07_API(t *testing.T) {
	defer vkit.Flush()
	env := vgaStart()
	defer env.Close()
	rapid.Check(t, func(t *rapid.T) {
		cache := rapid.SampledFrom([]string{pilosa.CacheTypeRanked, pilosa.CacheTypeLRU, pilosa.CacheTypeNone}).Draw(t, "cache")
		bounds := rapid.SampledFrom([][2]int64{{-2000, 2000}, {-2000, 2000}, {0, 1000}, {-10, 10}, {100, 200}, {-300, -100}}).Draw(t, "bounds")
		min, max := bounds[0], bounds[1]
		index, drop := env.newIndex(t, "c07x", pilosa.IndexOptions{})
		defer drop()
		env.field(t, index, "f", pilosa.OptFieldTypeSet(cache, 3))
		env.field(t, index, "v", pilosa.OptFieldTypeInt(min, max))
		c := &vgaCase{t: t, e: env, index: index, desc: fmt.Sprintf("f: set cache=%s/3; v: int(%d,%d)", cache, min, max)}
		bits := map[uint64]map[uint64]struct{}{}
		vals := map[uint64]int64{}
		genVal := func(l string) int64 {
			return rapid.OneOf(rapid.Int64Range(min, max), rapid.SampledFrom([]int64{min, max, min + 1})).Draw(t, l)
		}
		setBit := func(r, col uint64) bool {
			if bits[r] == nil {
				bits[r] = map[uint64]struct{}{}
			}
			_, had := bits[r][col]
			bits[r][col] = struct{}{}
			return !had
		}
		clearBit := func(r, col uint64) bool {
			_, had := bits[r][col]
			delete(bits[r], col)
			return had
		}
		verify := func() {
			var nonEmpty []uint64
			for _, r := range vc7Rows {
				want := vgaSorted(bits[r])
				if len(want) > 0 {
					nonEmpty = append(nonEmpty, r)
				}
				if got := c.qCols(fmt.Sprintf("Row(f=%d)", r)); !vgaEq(got, want) {
					c.fail("Row(f=%d) = %v, want %v", r, got, want)
				}
				if got, ok := c.q1(fmt.Sprintf("Count(Row(f=%d))", r)).(uint64); !ok || got != uint64(len(want)) {
					c.fail("Count(Row(f=%d)) = %v, want %d", r, got, len(want))
				}
			}
			if got := c.qRows("Rows(f)"); !vgaEq(got, nonEmpty) {
				c.fail("Rows(f) = %v, want %v", got, nonEmpty)
			}
			col := rapid.SampledFrom(vc7Cols).Draw(t, "verify.col")
			var withCol []uint64
			for _, r := range nonEmpty {
				if _, ok := bits[r][col]; ok {
					withCol = append(withCol, r)
				}
			}
			if got := c.qRows(fmt.Sprintf("Rows(f, column=%d)", col)); !vgaEq(got, withCol) {
				c.fail("Rows(f, column=%d) = %v, want %v", col, got, withCol)
			}
			// export
			for _, shard := range []uint64{0, 1, 3} {
				var want []string
				for _, r := range vc7Rows {
					for _, cc := range vgaSorted(bits[r]) {
						if cc/vgaSW == shard {
							want = append(want, fmt.Sprintf("%d,%d", r, cc))
						}
					}
				}
				var buf bytes.Buffer
				err := env.cmd.API.ExportCSV(context.Background(), index, "f", shard, &buf)
				if err == pilosa.ErrFragmentNotFound && len(want) == 0 {
					continue
				}
				if err != nil {
					c.fail("ExportCSV(shard %d): %v", shard, err)
				}
				got := strings.Fields(buf.String())
				if strings.Join(got, " ") != strings.Join(want, " ") {
					c.fail("ExportCSV(f, shard %d) = %v, want %v", shard, got, want)
				}
			}
			// int field
			var wsum int64
			var keys []uint64
			for col, v := range vals {
				wsum += v
				keys = append(keys, col)
			}
			sort.Slice(keys, func(i, j int) bool { return keys[i] < keys[j] })
			if vc, ok := c.q1("Sum(field=v)").(pilosa.ValCount); !ok || vc.Val != wsum || vc.Count != int64(len(vals)) {
				c.fail("Sum(field=v) = %+v, want (%d,%d)", vc, wsum, len(vals))
			}
			if len(keys) > 0 {
				p := vals[rapid.SampledFrom(keys).Draw(t, "verify.pred")]
				var want []uint64
				for _, col := range keys {
					if vals[col] == p {
						want = append(want, col)
					}
				}
				if got := c.qCols(fmt.Sprintf("Row(v == %d)", p)); !vgaEq(got, want) {
					c.fail("Row(v == %d): %d columns, want %d: got %v want %v", p, len(got), len(want), vc7Head(got), vc7Head(want))
				}
				var lt, gt []uint64
				for _, col := range keys {
					if vals[col] < p {
						lt = append(lt, col)
					}
					if vals[col] > p {
						gt = append(gt, col)
					}
				}
				if got := c.qCols(fmt.Sprintf("Row(v < %d)", p)); !vgaEq(got, lt) {
					c.fail("Row(v < %d): %d columns, want %d: got %v want %v", p, len(got), len(lt), vc7Head(got), vc7Head(lt))
				}
				if got := c.qCols(fmt.Sprintf("Row(v > %d)", p)); !vgaEq(got, gt) {
					c.fail("Row(v > %d): %d columns, want %d: got %v want %v", p, len(got), len(gt), vc7Head(got), vc7Head(gt))
				}
				if got := c.qCols("Row(v != null)"); !vgaEq(got, keys) {
					c.fail("Row(v != null): %d columns, want %d: got %v want %v", len(got), len(keys), vc7Head(got), vc7Head(keys))
				}
			}
		}
		paths := map[string]bool{}
		shrinking, bulkPath, bulkClearNeg := false, false, false
		lastPath := map[uint64]string{} // row of f / 1<<40 for v -> last write path; a change of path after a verify is the non-trivial event
		verified, cross := false, false
		wrote := func(path string, keys ...uint64) {
			paths[path] = true
			for _, k := range keys {
				if verified && lastPath[k] != "" && lastPath[k] != path {
					cross = true
				}
				lastPath[k] = path
			}
		}
		const vKey = uint64(1) << 40
		n := rapid.IntRange(1, vkit.Scale(14, 24)).Draw(t, "steps")
		for i := 0; i < n; i++ {
			l := fmt.Sprintf("s%d", i)
			op := rapid.SampledFrom([]string{"Set", "Set", "Clear", "Import", "ImportClear", "Roaring", "RoaringClear", "ClearRow", "SetValue", "SetValue", "ImportValue", "ImportValue", "ImportValueClear", "ImportValueBulk", "ImportValueBulkClear"}).Draw(t, l+".op")
			switch op {
			case "Set", "Clear":
				r, col := rapid.SampledFrom(vc7Rows).Draw(t, l+".row"), rapid.SampledFrom(vc7Cols).Draw(t, l+".col")
				q := fmt.Sprintf("%s(%d, f=%d)", op, col, r)
				c.hist = append(c.hist, q)
				var want bool
				if op == "Set" {
					want = setBit(r, col)
				} else {
					want = clearBit(r, col)
				}
				if got := c.qBool(q); got != want {
					c.fail("%s returned %v, want %v", q, got, want)
				}
				wrote(op, r)
			case "Import", "ImportClear", "Roaring", "RoaringClear":
				k := rapid.IntRange(1, 5).Draw(t, l+".n")
				var rs, cs []uint64
				for j := 0; j < k; j++ {
					rs = append(rs, rapid.SampledFrom(vc7Rows).Draw(t, fmt.Sprintf("%s.r%d", l, j)))
					cs = append(cs, rapid.SampledFrom(vc7Cols).Draw(t, fmt.Sprintf("%s.c%d", l, j)))
				}
				clear := strings.HasSuffix(op, "Clear")
				c.hist = append(c.hist, fmt.Sprintf("%s(f, rows=%v, cols=%v)", op, rs, cs))
				if strings.HasPrefix(op, "Import") {
					if err := c.importBits("f", rs, cs, clear); err != nil {
						c.fail("Import: %v", err)
					}
				} else {
					c.importRoaring("f", rs, cs, clear)
				}
				for j := range rs {
					if clear {
						clearBit(rs[j], cs[j])
					} else {
						setBit(rs[j], cs[j])
					}
				}
				wrote(op, rs...)
			case "ClearRow":
				r := rapid.SampledFrom(vc7Rows).Draw(t, l+".row")
				q := fmt.Sprintf("ClearRow(f=%d)", r)
				c.hist = append(c.hist, q)
				want := len(bits[r]) > 0
				if got := c.qBool(q); got != want {
					c.fail("%s returned %v, want %v", q, got, want)
				}
				bits[r] = map[uint64]struct{}{}
				wrote(op, r)
			case "SetValue":
				col, v := rapid.SampledFrom(vc7Cols).Draw(t, l+".col"), genVal(l+".val")
				q := fmt.Sprintf("Set(%d, v=%d)", col, v)
				c.hist = append(c.hist, q)
				old, had := vals[col]
				vals[col] = v
				if got, want := c.qBool(q), !had || old != v; got != want {
					c.fail("%s returned %v, want %v", q, got, want)
				}
				wrote(op, vKey)
			case "ImportValueBulk", "ImportValueBulkClear":
				// enough values in one request for fragment.importValue's bulk (snapshotting) path: MaxOpN cannot be
				// lowered through the API, so the request has to carry >= 10000/(bitDepth+1) values
				clear := op == "ImportValueBulkClear"
				v := genVal(l + ".val")
				if _, had := vals[2000]; clear && !had {
					// nothing to clear yet: store the values first (and read them back), then clear them
					for j := 0; j < vc7BulkN; j++ {
						vals[2000+uint64(j)] = v
					}
					cs, vs := make([]uint64, vc7BulkN), make([]int64, vc7BulkN)
					for j := range cs {
						cs[j], vs[j] = 2000+uint64(j), v
					}
					c.hist = append(c.hist, fmt.Sprintf("ImportValueBulk(v, shard=0, cols=2000..%d, val=%d)", 2000+vc7BulkN-1, v))
					if err := env.cmd.API.ImportValue(context.Background(), &pilosa.ImportValueRequest{Index: index, Field: "v", Shard: 0, ColumnIDs: cs, Values: vs}); err != nil {
						c.fail("ImportValue: %v", err)
					}
					verify()
					verified = true
				}
				cs := make([]uint64, vc7BulkN)
				vs := make([]int64, vc7BulkN)
				negStored := false
				for j := range cs {
					cs[j] = 2000 + uint64(j)
					vs[j] = v
					if old, had := vals[cs[j]]; had && clear {
						vs[j] = old  // a client clears the value it knows
						if old < 0 { // (the base of a field created through the API is 0)
							negStored = true
						}
					}
				}
				c.hist = append(c.hist, fmt.Sprintf("%s(v, shard=0, cols=2000..%d, val=%d or stored)", op, 2000+vc7BulkN-1, v))
				req := &pilosa.ImportValueRequest{Index: index, Field: "v", Shard: 0, ColumnIDs: cs, Values: vs}
				if err := env.cmd.API.ImportValue(context.Background(), req, pilosa.OptImportOptionsClear(clear)); err != nil {
					c.fail("ImportValue: %v", err)
				}
				for j, col := range cs {
					if clear {
						delete(vals, col)
					} else {
						vals[col] = vs[j]
					}
				}
				if fld, err := env.cmd.API.Field(context.Background(), index, "v"); err == nil && vc7BulkN*(int(fld.Options().BitDepth)+1) >= 10000 {
					bulkPath = true
					if clear && negStored {
						bulkClearNeg = true
					}
				}
				wrote(op, vKey)
			case "ImportValue", "ImportValueClear":
				k := rapid.IntRange(1, 4).Draw(t, l+".n")
				shard := rapid.SampledFrom([]uint64{0, 1, 3}).Draw(t, l+".shard")
				var pool []uint64
				for _, col := range vc7Cols {
					if col/vgaSW == shard {
						pool = append(pool, col)
					}
				}
				var cs []uint64
				var vs []int64
				for j := 0; j < k; j++ {
					cs = append(cs, rapid.SampledFrom(pool).Draw(t, fmt.Sprintf("%s.c%d", l, j)))
					vs = append(vs, genVal(fmt.Sprintf("%s.v%d", l, j)))
				}
				clear := op == "ImportValueClear"
				c.hist = append(c.hist, fmt.Sprintf("%s(v, shard=%d, cols=%v, vals=%v)", op, shard, cs, vs))
				req := &pilosa.ImportValueRequest{Index: index, Field: "v", Shard: shard, ColumnIDs: append([]uint64(nil), cs...), Values: append([]int64(nil), vs...)}
				if err := env.cmd.API.ImportValue(context.Background(), req, pilosa.OptImportOptionsClear(clear)); err != nil {
					c.fail("ImportValue: %v", err)
				}
				for j, col := range cs {
					if old, had := vals[col]; had && !clear {
						a, b := vs[j], old
						if a < 0 {
							a = -a
						}
						if b < 0 {
							b = -b
						}
						if a < b/2 {
							shrinking = true
						}
					}
					if clear {
						delete(vals, col)
					} else {
						vals[col] = vs[j]
					}
				}
				wrote(op, vKey)
			}
			if rapid.IntRange(0, 2).Draw(t, l+".verify") == 0 {
				verify()
				verified = true
			}
		}
		verify()
		kc := vkit.NewCase().Key("c07api", c.desc, c.hist)
		defer kc.Done()
		kc.Class("cache:"+cache).ClassIf(shrinking, "importOverwritesWithMuchSmallerValue").ClassIf(bulkPath, "ImportValue reaches the bulk path").ClassIf(bulkClearNeg, "bulk clear-import of negative stored values").ClassIf(cross, "crossPathAfterRead")
		for p := range paths {
			kc.Class("path:" + p)
		}
		kc.NT(cross)
		kc.Sample(map[string]interface{}{"fields": c.desc, "history": c.hist})
	})
}
