package server_test

// gpql — helpers shared by C15 and C16: text of schemas / programs, the write-operation generator.

import (
	"fmt"
	"strings"

	"pgregory.net/rapid"
)

func vq2OpsText(m *vq2Model, ops []vq2Op) string {
	var sb strings.Builder
	for _, o := range ops {
		sb.WriteString(o.pql(m))
		sb.WriteString(" ")
	}
	return sb.String()
}

func vq2SchemaText(m *vq2Model) string {
	var sb strings.Builder
	fmt.Fprintf(&sb, "trackExistence=%v", m.Track)
	for _, f := range m.Fields {
		fmt.Fprintf(&sb, " %s:%s", f.Name, f.Kind)
		if f.Kind == "time" {
			fmt.Fprintf(&sb, "(%s,noStandardView=%v)", f.Quantum, f.NoStd)
		}
		if f.Kind == "set" {
			fmt.Fprintf(&sb, "(%s)", f.Cache)
		}
		if f.Kind == "int" {
			fmt.Fprintf(&sb, "(%d..%d)", f.Min, f.Max)
		}
	}
	return sb.String()
}

// vq2GenWrite draws one write operation. cols may be extended with fresh columns.
func vq2GenWrite(t *rapid.T, m *vq2Model, cols []uint64, g *vq2ExprGen) vq2Op {
	kind := rapid.SampledFrom([]string{"set", "set", "set", "clear", "clear", "clearrow", "store", "store"}).Draw(t, "write")
	col := func() uint64 {
		c := rapid.SampledFrom(cols).Draw(t, "col")
		switch rapid.IntRange(0, 9).Draw(t, "colshift") {
		case 0:
			c++
		case 1:
			if c > 0 {
				c--
			}
		}
		return c
	}
	pick := func(kinds ...string) *vq2Field {
		var cands []*vq2Field
		for _, f := range m.Fields {
			for _, k := range kinds {
				if f.Kind == k {
					cands = append(cands, f)
				}
			}
		}
		return rapid.SampledFrom(cands).Draw(t, "field")
	}
	row := func(f *vq2Field) uint64 {
		if f.Kind != "bool" && rapid.IntRange(0, 7).Draw(t, "newRow?") == 0 {
			return rapid.SampledFrom(vq2RowUniverse).Draw(t, "row")
		}
		return rapid.SampledFrom(f.RowPool).Draw(t, "row")
	}
	switch kind {
	case "set":
		f := pick("set", "time", "int", "mutex", "bool")
		if f.Kind == "int" {
			return vq2Op{Kind: "setint", Field: f.Name, Col: col(), Val: vq2GenIntVal(t, f, "val")}
		}
		o := vq2Op{Kind: "set", Field: f.Name, Row: row(f), Col: col()}
		if f.Kind == "time" && rapid.IntRange(0, 3).Draw(t, "ts?") > 0 {
			ts := rapid.SampledFrom(vq2TimePool).Draw(t, "ts")
			o.TS = &ts
		}
		return o
	case "clear":
		f := pick("set", "time", "mutex", "bool")
		if tf := m.field("t1"); tf != nil && rapid.IntRange(0, 2).Draw(t, "clearTime?") == 0 {
			f = tf // Clear on time fields (all views, with and without a standard view) gets extra weight
		}
		// prefer a bit that is set
		type bit struct{ r, c uint64 }
		var bits []bit
		for _, r := range f.allRows() {
			cs := f.rowStd(r)
			for c := range f.tv[r] {
				cs[c] = true
			}
			for _, c := range cs.sorted() {
				bits = append(bits, bit{r, c})
			}
		}
		if len(bits) > 0 && rapid.IntRange(0, 9).Draw(t, "existing?") < 8 {
			b := rapid.SampledFrom(bits).Draw(t, "bit")
			return vq2Op{Kind: "clear", Field: f.Name, Row: b.r, Col: b.c}
		}
		return vq2Op{Kind: "clear", Field: f.Name, Row: row(f), Col: col()}
	case "clearrow":
		f := pick("set", "time", "mutex", "bool")
		return vq2Op{Kind: "clearrow", Field: f.Name, Row: row(f)}
	}
	f := pick("set")
	return vq2Op{Kind: "store", Field: f.Name, Row: row(f), Src: g.gen(t, 0)}
}
