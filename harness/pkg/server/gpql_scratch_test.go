package server_test

import (
	"testing"
)

func TestVerifScratch_Q2(t *testing.T) {
	env := vq2Start()
	defer env.Close()
	m := &vq2Model{Track: true, exist: vq2Set{}}
	m.addField(&vq2Field{Name: "n1", Kind: "int", Min: 0, Max: 1000})
	idx := env.create(t, "scr", m)
	for _, q := range []string{"Set(1, n1=0)", "Set(2, n1=3)", "Set(3, n1=999)", "Row(n1 <= 0)", "Row(n1 < 1)", "Row(n1 > 0)", "Row(n1 >= 0)","Row(n1 == 0)","Row(n1 != 0)","Row(0 < n1 < 5)","Row(0 <= n1 < 5)","Row(-1 <= n1 <= 0)","Row(-1 < n1 < 0)", "Row(0 < n1 < 0)", "Row(0 <= n1 <= 0)", "Row(n1 > 1000)", "Row(n1 >= 1001)", "Row(n1 < 5000)", "Row(n1 > 5000)", "Row(n1 == 5000)", "Row(n1 != 5000)", "Row(999 < n1 < 5000)", "Row(999 <= n1 < 5000)"} {
		rs, err := env.query(idx, q)
		t.Logf("%s => %v %v", q, rs, err)
		if err == nil {
			if r, ok := rs[0].(interface{ Columns() []uint64 }); ok {
				t.Logf("   cols %v", r.Columns())
			}
		}
	}
}
