package server_test

import (
	"fmt"
	"testing"
	"time"
)

func TestVerifScratch_Q2(t *testing.T) {
	env := vq2Start()
	defer env.Close()
	for i := 0; i < 5; i++ {
		m := &vq2Model{Track: true, exist: vq2Set{}}
		m.addField(&vq2Field{Name: "s1", Kind: "set"})
		m.addField(&vq2Field{Name: "s2", Kind: "set"})
		m.addField(&vq2Field{Name: "t1", Kind: "time", Quantum: "YMDH"})
		m.addField(&vq2Field{Name: "n1", Kind: "int", Min: 0, Max: 1000})
		m.addField(&vq2Field{Name: "m1", Kind: "mutex"})
		t0 := time.Now()
		idx := env.create(t, "scr", m)
		t1 := time.Now()
		q := ""
		for j := 0; j < 10; j++ {
			q += fmt.Sprintf("Set(%d, s1=%d) Set(%d, s2=1) Set(%d, t1=1, 2017-01-01T00:00) Set(%d, n1=5) Set(%d, m1=3)", j*500000, j%3, j*400000, j*300000, j*700000, j*200000)
		}
		env.query(idx, q)
		t2 := time.Now()
		for j := 0; j < 10; j++ {
			env.query(idx, "Union(Row(s1=1), Intersect(Row(s2=1), Row(t1=1)), Not(Row(m1=3)))")
		}
		t3 := time.Now()
		env.query(idx, "Store(Row(s1=1), s2=5)")
		t4 := time.Now()
		env.drop(idx)
		t5 := time.Now()
		t.Logf("create %v load %v 10 queries %v store %v drop %v", t1.Sub(t0), t2.Sub(t1), t3.Sub(t2), t4.Sub(t3), t5.Sub(t4))
	}
}
