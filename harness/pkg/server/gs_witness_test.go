package server_test

// Deterministic witnesses of the defects recorded in /verif/known_findings.d/gS.json
// (minimal inputs, no generators). A witness fails while its defect is present.

import (
	"context"
	"fmt"
	"testing"

	"github.com/pilosa/pilosa"
	"github.com/pilosa/pilosa/test"
)

func vgsQuery(t *testing.T, cmd *test.Command, index, q string) []interface{} {
	t.Helper()
	resp, err := cmd.API.Query(context.Background(), &pilosa.QueryRequest{Index: index, Query: q})
	if err != nil {
		t.Fatalf("%s: %v", q, err)
	}
	return resp.Results
}

// D9: a new int field is saved with BitDepth=0/Base=0; Field.loadMeta takes
// BitDepth==0 for a v1 file and sets Base=Min, so after a clean restart the
// schema differs and a stored 0 in a field (-10,10) reads -10.
func TestVerifWitness_D9(t *testing.T) {
	cmd := test.MustRunCommand()
	defer cmd.Close()
	cmd.MustCreateIndex(t, "i", pilosa.IndexOptions{})
	cmd.MustCreateField(t, "i", "v", pilosa.OptFieldTypeInt(-10, 10))
	vgsQuery(t, cmd, "i", "Set(1, v=0)")
	before := fmt.Sprint(vgsQuery(t, cmd, "i", "Sum(field=v) Min(field=v) Row(v == 0)")[:2])
	opts := func() pilosa.FieldOptions {
		f, err := cmd.API.Field(context.Background(), "i", "v")
		if err != nil {
			t.Fatal(err)
		}
		return f.Options()
	}
	ob := opts()
	if err := cmd.Reopen(); err != nil {
		t.Fatal(err)
	}
	res := vgsQuery(t, cmd, "i", "Sum(field=v) Min(field=v) Row(v == 0)")
	after := fmt.Sprint(res[:2])
	if before != after {
		t.Fatalf("Sum/Min of an int field (-10,10) holding a single 0: before restart %s, after restart %s", before, after)
	}
	if cols := res[2].(*pilosa.Row).Columns(); len(cols) != 1 || cols[0] != 1 {
		t.Fatalf("Row(v == 0) after restart = %v, want [1]", cols)
	}
	if oa := opts(); oa != ob {
		t.Fatalf("field options changed across restart: before %+v after %+v", ob, oa)
	}
}

// DS1: Bitmap.RemoveN/DirectRemoveN created an empty container for every key
// it was asked to remove from but did not hold, so a clear-import of absent bits
// made Rows() list the rows until the next restart (answer differs across restart).
func TestVerifWitness_DS1(t *testing.T) {
	cmd := test.MustRunCommand()
	defer cmd.Close()
	cmd.MustCreateIndex(t, "i", pilosa.IndexOptions{})
	cmd.MustCreateField(t, "i", "f", pilosa.OptFieldTypeSet("ranked", 100))
	err := cmd.API.Import(context.Background(), &pilosa.ImportRequest{Index: "i", Field: "f", Shard: 0, RowIDs: []uint64{3, 5}, ColumnIDs: []uint64{1, 2}},
		pilosa.OptImportOptionsClear(true))
	if err != nil {
		t.Fatal(err)
	}
	before := vgsQuery(t, cmd, "i", "Rows(f)")[0].(pilosa.RowIdentifiers)
	if err := cmd.Reopen(); err != nil {
		t.Fatal(err)
	}
	after := vgsQuery(t, cmd, "i", "Rows(f)")[0].(pilosa.RowIdentifiers)
	if len(before.Rows) != 0 || len(after.Rows) != 0 {
		t.Fatalf("Rows(f) of a field that never held a bit (after a clear-import of rows 3,5): before restart %v, after restart %v, want none", before.Rows, after.Rows)
	}
}
