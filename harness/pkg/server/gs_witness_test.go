package server_test

// Deterministic witnesses of the defects recorded in /verif/known_findings.d/gS.json
// (minimal inputs, no generators). A witness fails while its defect is present.

import (
	"bytes"
	"context"
	"fmt"
	"testing"

	"github.com/pilosa/pilosa"
	"github.com/pilosa/pilosa/roaring"
	"github.com/pilosa/pilosa/test"
)

func vgsQuery(t *testing.T, cmd *test.Command, index, q string) []interface{} {
	t.Helper()
	resp, err := cmd.API.Query(context.Background(), &pilosa.QueryRequest{Index: index, Query: q})
	if err != nil {
		t.Fatalf("%s: %v", q, err)
	}
	return resp.Results
}

// D9: a new int field is saved with BitDepth=0/Base=0; Field.loadMeta takes
// BitDepth==0 for a v1 file and sets Base=Min, so after a clean restart the
// schema differs and a stored 0 in a field (-10,10) reads -10.
func TestVerifWitness_D9(t *testing.T) {
	cmd := test.MustRunCommand()
	defer cmd.Close()
	cmd.MustCreateIndex(t, "i", pilosa.IndexOptions{})
	cmd.MustCreateField(t, "i", "v", pilosa.OptFieldTypeInt(-10, 10))
	vgsQuery(t, cmd, "i", "Set(1, v=0)")
	before := fmt.Sprint(vgsQuery(t, cmd, "i", "Sum(field=v) Min(field=v) Row(v == 0)")[:2])
	opts := func() pilosa.FieldOptions {
		f, err := cmd.API.Field(context.Background(), "i", "v")
		if err != nil {
			t.Fatal(err)
		}
		return f.Options()
	}
	ob := opts()
	if err := cmd.Reopen(); err != nil {
		t.Fatal(err)
	}
	res := vgsQuery(t, cmd, "i", "Sum(field=v) Min(field=v) Row(v == 0)")
	after := fmt.Sprint(res[:2])
	if before != after {
		t.Fatalf("Sum/Min of an int field (-10,10) holding a single 0: before restart %s, after restart %s", before, after)
	}
	if cols := res[2].(*pilosa.Row).Columns(); len(cols) != 1 || cols[0] != 1 {
		t.Fatalf("Row(v == 0) after restart = %v, want [1]", cols)
	}
	if oa := opts(); oa != ob {
		t.Fatalf("field options changed across restart: before %+v after %+v", ob, oa)
	}
}

// DS1: Bitmap.RemoveN/DirectRemoveN created an empty container for every key
// it was asked to remove from but did not hold, so a clear-import of absent bits
// made Rows() list the rows until the next restart (answer differs across restart).
func TestVerifWitness_DS1(t *testing.T) {
	cmd := test.MustRunCommand()
	defer cmd.Close()
	cmd.MustCreateIndex(t, "i", pilosa.IndexOptions{})
	cmd.MustCreateField(t, "i", "f", pilosa.OptFieldTypeSet("ranked", 100))
	err := cmd.API.Import(context.Background(), &pilosa.ImportRequest{Index: "i", Field: "f", Shard: 0, RowIDs: []uint64{3, 5}, ColumnIDs: []uint64{1, 2}},
		pilosa.OptImportOptionsClear(true))
	if err != nil {
		t.Fatal(err)
	}
	before := vgsQuery(t, cmd, "i", "Rows(f)")[0].(pilosa.RowIdentifiers)
	if err := cmd.Reopen(); err != nil {
		t.Fatal(err)
	}
	after := vgsQuery(t, cmd, "i", "Rows(f)")[0].(pilosa.RowIdentifiers)
	if len(before.Rows) != 0 || len(after.Rows) != 0 {
		t.Fatalf("Rows(f) of a field that never held a bit (after a clear-import of rows 3,5): before restart %v, after restart %v, want none", before.Rows, after.Rows)
	}
}

// DS2: a set/mutex field created with cache type "none" and cache size 0 kept
// the default cache size 50000 in its options until the next restart, where
// applyOptions reset it to 0: Schema() differs across a clean restart.
func TestVerifWitness_DS2(t *testing.T) {
	cmd := test.MustRunCommand()
	defer cmd.Close()
	cmd.MustCreateIndex(t, "i", pilosa.IndexOptions{})
	cmd.MustCreateField(t, "i", "m", pilosa.OptFieldTypeMutex(pilosa.CacheTypeNone, 0))
	opts := func() pilosa.FieldOptions {
		f, err := cmd.API.Field(context.Background(), "i", "m")
		if err != nil {
			t.Fatal(err)
		}
		return f.Options()
	}
	before := opts()
	if err := cmd.Reopen(); err != nil {
		t.Fatal(err)
	}
	if after := opts(); before != after {
		t.Fatalf("options of a mutex field created with cache (none, 0) changed across restart:\n before %+v\n after  %+v", before, after)
	}
}

// DS3: fragment.unprotectedSetRow returned right after removing the old row
// when the source row had no segment for the shard, skipping the row-cache
// invalidation and the snapshot: Store(<empty row>, f=2) emptied row 2 in
// memory only, and the old bits were back after a clean restart.
func TestVerifWitness_DS3(t *testing.T) {
	cmd := test.MustRunCommand()
	defer cmd.Close()
	cmd.MustCreateIndex(t, "i", pilosa.IndexOptions{})
	cmd.MustCreateField(t, "i", "f", pilosa.OptFieldTypeSet("ranked", 100))
	cmd.MustCreateField(t, "i", "g", pilosa.OptFieldTypeSet("ranked", 100))
	vgsQuery(t, cmd, "i", "Set(5, f=2)")
	if cols := vgsQuery(t, cmd, "i", "Row(f=2)")[0].(*pilosa.Row).Columns(); len(cols) != 1 {
		t.Fatalf("Row(f=2) = %v, want [5]", cols)
	}
	vgsQuery(t, cmd, "i", "Store(Row(g=9), f=2)") // g has no data at all
	before := vgsQuery(t, cmd, "i", "Row(f=2)")[0].(*pilosa.Row).Columns()
	if err := cmd.Reopen(); err != nil {
		t.Fatal(err)
	}
	after := vgsQuery(t, cmd, "i", "Row(f=2)")[0].(*pilosa.Row).Columns()
	if len(before) != 0 || len(after) != 0 {
		t.Fatalf("Row(f=2) after Store(Row(g=9), f=2) with g empty: before restart %v, after restart %v, want none", before, after)
	}
}

// DS4: fragment.row handed the cached *Row (writable segment) to every caller,
// and query results adopt its segments: writing to a query result with the
// exported Row.SetBit changed what later queries returned.
func TestVerifWitness_DS4(t *testing.T) {
	cmd := test.MustRunCommand()
	defer cmd.Close()
	cmd.MustCreateIndex(t, "i", pilosa.IndexOptions{})
	cmd.MustCreateField(t, "i", "f", pilosa.OptFieldTypeSet("ranked", 100))
	vgsQuery(t, cmd, "i", "Set(1, f=1)")
	kept := vgsQuery(t, cmd, "i", "Row(f=1)")[0].(*pilosa.Row)
	kept.SetBit(99) // the caller's own copy of the answer
	if got := vgsQuery(t, cmd, "i", "Row(f=1)")[0].(*pilosa.Row).Columns(); len(got) != 1 || got[0] != 1 {
		t.Fatalf("Row(f=1) after SetBit(99) on an earlier query result = %v, want [1]", got)
	}
	if got := vgsQuery(t, cmd, "i", "Count(Row(f=1))")[0]; fmt.Sprint(got) != "1" {
		t.Fatalf("Count(Row(f=1)) after SetBit(99) on an earlier query result = %v, want 1", got)
	}
}

// DS5: ImportRoaringBits(clear) kept a container it had emptied (Remove drops
// it), so after Set(5, f=1) and a roaring clear-import of that bit Rows(f)
// still listed row 1 until the next restart.
func TestVerifWitness_DS5(t *testing.T) {
	cmd := test.MustRunCommand()
	defer cmd.Close()
	cmd.MustCreateIndex(t, "i", pilosa.IndexOptions{})
	cmd.MustCreateField(t, "i", "f", pilosa.OptFieldTypeSet("ranked", 100))
	vgsQuery(t, cmd, "i", "Set(5, f=1)")
	var buf bytes.Buffer
	if _, err := roaring.NewBitmap(1*pilosa.ShardWidth + 5).WriteTo(&buf); err != nil {
		t.Fatal(err)
	}
	req := &pilosa.ImportRoaringRequest{Clear: true, Views: map[string][]byte{"": buf.Bytes()}}
	if err := cmd.API.ImportRoaring(context.Background(), "i", "f", 0, false, req); err != nil {
		t.Fatal(err)
	}
	before := vgsQuery(t, cmd, "i", "Rows(f)")[0].(pilosa.RowIdentifiers)
	if err := cmd.Reopen(); err != nil {
		t.Fatal(err)
	}
	after := vgsQuery(t, cmd, "i", "Rows(f)")[0].(pilosa.RowIdentifiers)
	if len(before.Rows) != 0 || len(after.Rows) != 0 {
		t.Fatalf("Rows(f) after the only bit of row 1 was cleared by a roaring import: before restart %v, after restart %v, want none", before.Rows, after.Rows)
	}
}

// DS6: Store() into a field with keys was not key-translated (the row key
// reached UintArg as a string) and executeSetRow asserted result.(bool) on
// the nil result of the failed map-reduce: API.Query panicked (HTTP: 500 PANIC).
func TestVerifWitness_DS6(t *testing.T) {
	cmd := test.MustRunCommand()
	defer cmd.Close()
	cmd.MustCreateIndex(t, "i", pilosa.IndexOptions{Keys: true})
	cmd.MustCreateField(t, "i", "f", pilosa.OptFieldTypeSet("ranked", 100), pilosa.OptFieldKeys())
	var res []interface{}
	var err error
	func() {
		defer func() {
			if r := recover(); r != nil {
				t.Fatalf(`Set("a", f="x") Store(Row(f="x"), f="y") panicked: %v`, r)
			}
		}()
		var resp pilosa.QueryResponse
		resp, err = cmd.API.Query(context.Background(), &pilosa.QueryRequest{Index: "i", Query: `Set("a", f="x") Store(Row(f="x"), f="y") Row(f="y")`})
		res = resp.Results
	}()
	if err != nil {
		t.Fatalf("Store into a keyed set field: %v", err)
	}
	if keys := res[2].(*pilosa.Row).Keys; len(keys) != 1 || keys[0] != "a" {
		t.Fatalf(`Row(f="y") after Store(Row(f="x"), f="y") = %v, want [a]`, keys)
	}
}
