package server_test

// C14 (API half) — integer fields through PQL: Row(f op p) for every operator and predicate in and out of
// the declared bounds and of the bit-depth range, between, != null, Sum/Min/Max with and without filters,
// under different QueryRequest.Shards orders (one executor worker: the order of Shards is the reduce order).
//   TestVerifC14_PQLExhaustive: plain enumeration of the small-depth space.
//   TestVerifC14_PQLRandom:     rapid, depths up to 63.

import (
	"context"
	"fmt"
	"math"
	"sort"
	"strings"
	"testing"

	"github.com/pilosa/pilosa"
	"github.com/pilosa/pilosa/internal/vkit"
	"github.com/pilosa/pilosa/test"
	"pgregory.net/rapid"
)

const vc14Index = "c14"

// vc14sFilterRows writes the set field used as Sum/Min/Max filter: row -> columns; returns name -> (pql, selected columns).
type vc14sFilter struct {
	Name string
	PQL  string // "" = no filter
	Cols map[uint64]bool
}

func vc14sMakeFilters(t vs1T, m *test.Command, g string, mod *vs1IntModel, nulls []uint64, f string) []vc14sFilter {
	cols := mod.cols()
	rows := map[uint64][]uint64{}
	for i, c := range cols {
		if mod.Vals[c] < 0 {
			rows[1] = append(rows[1], c)
		} else {
			rows[6] = append(rows[6], c)
		}
		if i%2 == 1 {
			rows[3] = append(rows[3], c)
		}
		if c/vs1SW == 1 {
			rows[4] = append(rows[4], c)
		}
	}
	rows[5] = append(rows[5], nulls...)
	if len(cols) > 0 {
		rows[5] = append(rows[5], cols[0], cols[len(cols)-1])
	}
	var calls []string
	for _, r := range []uint64{1, 3, 4, 5, 6} {
		for _, c := range rows[r] {
			calls = append(calls, fmt.Sprintf("Set(%d, %s=%d)", c, g, r))
		}
	}
	vs1Batch(t, m, vc14Index, calls, nil, 80)
	out := []vc14sFilter{{Name: "none"}}
	for _, x := range []struct {
		n string
		r uint64
	}{{"negOnly", 1}, {"emptyRow", 2}, {"alternate", 3}, {"shard1", 4}, {"withNull", 5}, {"nonNeg", 6}} {
		out = append(out, vc14sFilter{Name: x.n, PQL: fmt.Sprintf("Row(%s=%d)", g, x.r), Cols: vs1ColSet(rows[x.r])})
	}
	return out
}

// vc14sCheckAggs compares PQL Sum/Min/Max (each filter, each Shards order) with the model.
func vc14sCheckAggs(t vs1T, m *test.Command, f string, mod *vs1IntModel, filters []vc14sFilter, orders [][]uint64, what string) (tie, negOnly bool) {
	var calls []string
	for _, fl := range filters {
		arg := ""
		if fl.PQL != "" {
			arg = fl.PQL + ", "
		}
		calls = append(calls, fmt.Sprintf("Sum(%sfield=%s)", arg, f), fmt.Sprintf("Min(%sfield=%s)", arg, f), fmt.Sprintf("Max(%sfield=%s)", arg, f))
	}
	for _, order := range orders {
		res := vs1Batch(t, m, vc14Index, calls, order, 60)
		for i, fl := range filters {
			want := mod.agg(fl.Cols)
			w := fmt.Sprintf("%s: %%s with filter %s, Shards=%v", what, fl.Name, order)
			if ws, ok := want.wantSum(); ok {
				if got := vs1VC(t, res[3*i], calls[3*i]); got != ws {
					t.Fatalf(w+" = %+v, want %+v (values %s)", calls[3*i], got, ws, vs1Dump(mod))
				}
			}
			if got := vs1VC(t, res[3*i+1], calls[3*i+1]); got != want.wantMin() {
				t.Fatalf(w+" = %+v, want %+v (values %s)", calls[3*i+1], got, want.wantMin(), vs1Dump(mod))
			}
			if got := vs1VC(t, res[3*i+2], calls[3*i+2]); got != want.wantMax() {
				t.Fatalf(w+" = %+v, want %+v (values %s)", calls[3*i+2], got, want.wantMax(), vs1Dump(mod))
			}
			if want.N > 0 && want.Max < 0 {
				negOnly = true
			}
		}
	}
	a := mod.agg(nil)
	shMin, shMax := map[uint64]bool{}, map[uint64]bool{}
	for c, v := range mod.Vals {
		if v == a.Min {
			shMin[c/vs1SW] = true
		}
		if v == a.Max {
			shMax[c/vs1SW] = true
		}
	}
	return len(shMin) > 1 || len(shMax) > 1, negOnly
}

// vc14sCheckRanges: one query per (op, predicate); returns the number of queries.
func vc14sCheckRanges(t vs1T, m *test.Command, f string, mod *vs1IntModel, preds []int64, shards []uint64, what string) int {
	type q struct {
		op string
		p  int64
	}
	var qs []q
	var calls []string
	for _, p := range preds {
		for _, op := range vs1Ops {
			qs = append(qs, q{op, p})
			calls = append(calls, fmt.Sprintf("Row(%s %s %d)", f, op, p))
		}
	}
	res := vs1Batch(t, m, vc14Index, calls, shards, 90)
	for i, x := range qs {
		if got, want := vs1Cols(t, res[i], calls[i]), mod.filter(x.op, x.p); !vs1EqCols(got, want) {
			t.Fatalf("%s: %s = %v, want %v  (values %s)", what, calls[i], got, want, vs1Dump(mod))
		}
	}
	return len(qs)
}

// vc14sCheckBetween: lo/hi pairs in the four strictness combinations, and != null.
func vc14sCheckBetween(t vs1T, m *test.Command, f string, mod *vs1IntModel, grid []int64, shards []uint64, what string) int {
	type q struct{ lo, hi int64 }
	var qs []q
	var calls []string
	for _, lo := range grid {
		for _, hi := range grid {
			if hi < lo-1 {
				continue
			}
			for k, form := range []string{"Row(%d <= %s <= %d)", "Row(%d < %s < %d)", "Row(%d <= %s < %d)", "Row(%d < %s <= %d)"} {
				l, h := lo, hi
				if k == 1 || k == 3 {
					l++
				}
				if k == 1 || k == 2 {
					h--
				}
				qs = append(qs, q{l, h})
				calls = append(calls, fmt.Sprintf(form, lo, f, hi))
			}
		}
	}
	res := vs1Batch(t, m, vc14Index, calls, shards, 90)
	for i, x := range qs {
		if got, want := vs1Cols(t, res[i], calls[i]), mod.between(x.lo, x.hi); !vs1EqCols(got, want) {
			t.Fatalf("%s: %s = %v, want %v  (values %s)", what, calls[i], got, want, vs1Dump(mod))
		}
	}
	nn := fmt.Sprintf("Row(%s != null)", f)
	r := vs1Query(t, m, vc14Index, nn, shards)
	if got, want := vs1Cols(t, r[0], nn), mod.cols(); !vs1EqCols(got, want) {
		t.Fatalf("%s: %s = %v, want %v", what, nn, got, want)
	}
	return len(qs) + 1
}

func vc14sEnsureIndex(t vs1T, m *test.Command) {
	if _, err := m.API.CreateIndex(context.Background(), vc14Index, pilosa.IndexOptions{}); err != nil && !strings.Contains(err.Error(), "already exists") {
		t.Fatalf("creating index: %v", err)
	}
}

func vc14sCreateField(t vs1T, m *test.Command, name string, opts ...pilosa.FieldOption) {
	_, err := m.API.CreateField(context.Background(), vc14Index, name, opts...)
	vs1SetupErr(t, err, "creating field %s", name)
}

func vc14sDropField(t vs1T, m *test.Command, name string) {
	vs1SetupErr(t, m.API.DeleteField(context.Background(), vc14Index, name), "deleting field %s", name)
}

var vc14sOrders = [][]uint64{nil, {0, 1, 2}, {2, 1, 0}, {1, 2, 0}}

// vc14sRunCfg loads one configuration into field f (already created) and checks everything.
func vc14sRunCfg(t *testing.T, m *test.Command, cfg vs1Cfg, f string) {
	what := cfg.String()
	c := vkit.NewCase().Key("pqlExh", what)
	defer c.Done()
	g := f + "g"
	vc14sCreateField(t, m, g, pilosa.OptFieldTypeSet(pilosa.CacheTypeNone, 0))
	defer vc14sDropField(t, m, g)
	prog, mod, nulls := vs1Program(cfg)
	for _, w := range prog {
		vs1Apply(t, m, vc14Index, f, w, what)
	}
	filters := vc14sMakeFilters(t, m, g, mod, nulls, f)
	preds := vs1Predicates(cfg, mod)
	lim := int64(1)<<vs1EffDepth(cfg) - 1
	base := int64(0)
	if cfg.Reopen {
		base = cfg.Min
	}
	beyond := false
	for _, p := range preds {
		if p >= cfg.Min && p <= cfg.Max && (p-base > lim || p-base < -lim) {
			beyond = true
		}
	}
	nq := vc14sCheckRanges(t, m, f, mod, preds, nil, what)
	nq += vc14sCheckBetween(t, m, f, mod, vs1Grid(cfg, mod), []uint64{2, 0, 1}, what)
	tie, negOnly := vc14sCheckAggs(t, m, f, mod, filters, vc14sOrders, what)
	// a BSI condition as the filter of an aggregate
	for _, p := range []int64{0, mod.agg(nil).Min, mod.agg(nil).Max} {
		for _, op := range []string{">", "<=", "!="} {
			fl := vc14sFilter{Name: fmt.Sprintf("Row(%s %s %d)", f, op, p), PQL: fmt.Sprintf("Row(%s %s %d)", f, op, p), Cols: vs1ColSet(mod.filter(op, p))}
			vc14sCheckAggs(t, m, f, mod, []vc14sFilter{fl}, [][]uint64{{1, 0, 2}}, what)
		}
	}
	c.Class("mode:"+cfg.Mode).Class("depth:%d", vs1EffDepth(cfg)).ClassIf(cfg.Reopen, "restartBeforeWrites(base=min)")
	c.ClassIf(beyond, "predicateBeyondBitDepthInsideBounds").ClassIf(tie, "extremeTiedAcrossShards").ClassIf(negOnly, "negativeOnlySelection")
	c.NT(beyond || tie || negOnly || cfg.Mode == "mix")
	c.Sample(map[string]interface{}{"cfg": what, "columns": len(mod.Vals), "rangeQueries": nq})
	vkit.Count("pqlExhaustive.range_queries", nq)
}

func TestVerifC14_PQLExhaustive(t *testing.T) {
	defer vkit.Flush()
	m := vs1RunSingle(t, 1)
	defer m.Close()
	vc14sEnsureIndex(t, m)
	all := vs1AllCfgs()
	cfgs, complete := vs1Pick(all, vkit.Scale(8, 1<<30), vkit.Thorough())
	reopen, rcomplete := vs1Pick(vs1ReopenCfgs(), vkit.Scale(3, 1<<30), vkit.Thorough())
	vkit.Extra("pqlExhaustive.configurations_total", len(all)+len(vs1ReopenCfgs()))
	// fields that see a restart before their first write are created up front
	for i, cfg := range reopen {
		vc14sCreateField(t, m, fmt.Sprintf("r%d", i), pilosa.OptFieldTypeInt(cfg.Min, cfg.Max))
	}
	if len(reopen) > 0 {
		if err := m.Reopen(); err != nil {
			t.Fatalf("restarting the server: %v", err)
		}
	}
	for i, cfg := range reopen {
		f := fmt.Sprintf("r%d", i)
		vc14sRunCfg(t, m, cfg, f)
		vc14sDropField(t, m, f)
	}
	for i, cfg := range cfgs {
		f := fmt.Sprintf("f%d", i)
		vc14sCreateField(t, m, f, pilosa.OptFieldTypeInt(cfg.Min, cfg.Max))
		vc14sRunCfg(t, m, cfg, f)
		vc14sDropField(t, m, f)
	}
	if complete && rcomplete {
		vkit.Extra("exhaustive", true)
	}
	vkit.Count("pqlExhaustive.configurations_run", len(cfgs)+len(reopen))
}

// ------------------------------------------------------------------ random tier

func vc14sGenMag(t *rapid.T, label string) int64 {
	k := rapid.IntRange(0, 62).Draw(t, label+".k")
	off := rapid.Int64Range(-3, 3).Draw(t, label+".off")
	v := int64(1)<<uint(k) + off
	if rapid.IntRange(0, 7).Draw(t, label+".max") == 0 {
		v = math.MaxInt64 - rapid.Int64Range(0, 3).Draw(t, label+".m")
	}
	if v < 0 {
		v = 0
	}
	return v
}

func vc14sGenBounds(t *rapid.T) (lo, hi int64) {
	switch rapid.SampledFrom([]string{"sym", "pos", "neg", "wide", "small"}).Draw(t, "boundsKind") {
	case "sym":
		a := vc14sGenMag(t, "b")
		return -a, a
	case "pos":
		a, b := vc14sGenMag(t, "a"), vc14sGenMag(t, "b")
		if a > b {
			a, b = b, a
		}
		return a, b
	case "neg":
		a, b := vc14sGenMag(t, "a"), vc14sGenMag(t, "b")
		if a > b {
			a, b = b, a
		}
		return -b, -a
	case "wide":
		return -vc14sGenMag(t, "a"), vc14sGenMag(t, "b")
	default:
		lo = rapid.Int64Range(-40, 40).Draw(t, "lo")
		return lo, lo + rapid.Int64Range(0, 80).Draw(t, "w")
	}
}

func vc14sGenValue(t *rapid.T, label string, lo, hi int64, used []int64) int64 {
	clamp := func(v int64) int64 {
		if v < lo {
			return lo
		}
		if v > hi {
			return hi
		}
		return v
	}
	switch rapid.IntRange(0, 5).Draw(t, label+".kind") {
	case 0:
		return clamp(lo + rapid.Int64Range(0, 2).Draw(t, label+".o"))
	case 1:
		return clamp(hi - rapid.Int64Range(0, 2).Draw(t, label+".o"))
	case 2:
		v := vc14sGenMag(t, label)
		if rapid.Bool().Draw(t, label+".neg") {
			v = -v
		}
		return clamp(v)
	case 3:
		if len(used) > 0 {
			return used[rapid.IntRange(0, len(used)-1).Draw(t, label+".u")]
		}
		return clamp(0)
	case 4:
		return clamp(rapid.Int64Range(-8, 8).Draw(t, label+".s"))
	default:
		return rapid.Int64Range(lo, hi).Draw(t, label+".any")
	}
}

var vc14sShardPool = []uint64{0, 1, 2, 5}

func vc14sGenCol(t *rapid.T, label string, nshards int) uint64 {
	sh := vc14sShardPool[rapid.IntRange(0, nshards-1).Draw(t, label+".sh")]
	off := rapid.SampledFrom([]uint64{0, 1, 2, 3, 65535, 65536, vs1SW - 1}).Draw(t, label+".off")
	return sh*vs1SW + off
}

func TestVerifC14_PQLRandom(t *testing.T) {
	defer vkit.Flush()
	m := vs1RunSingle(t, 1)
	defer m.Close()
	vc14sEnsureIndex(t, m)
	n := 0
	rapid.Check(t, func(t *rapid.T) {
		n++
		f, g := fmt.Sprintf("p%d", n), fmt.Sprintf("p%dg", n)
		lo, hi := vc14sGenBounds(t)
		nshards := rapid.IntRange(2, 4).Draw(t, "nshards")
		nops := rapid.IntRange(1, 12).Draw(t, "nops")
		vc14sCreateField(t, m, f, pilosa.OptFieldTypeInt(lo, hi))
		defer vc14sDropField(t, m, f)
		vc14sCreateField(t, m, g, pilosa.OptFieldTypeSet(pilosa.CacheTypeNone, 0))
		defer vc14sDropField(t, m, g)
		mod := vs1NewIntModel(lo, hi)
		what := fmt.Sprintf("bounds(%d,%d)", lo, hi)
		var used []int64
		var touched []uint64
		var log []string
		shrunk, cleared := false, false
		midReads := 0
		for i := 0; i < nops; i++ {
			kind := rapid.SampledFrom([]string{"set", "set", "import", "import", "clear"}).Draw(t, fmt.Sprintf("op%d", i))
			switch kind {
			case "set":
				col := vc14sGenCol(t, fmt.Sprintf("c%d", i), nshards)
				v := vc14sGenValue(t, fmt.Sprintf("v%d", i), lo, hi, used)
				if old, ok := mod.Vals[col]; ok && vs1Depth(v) < vs1Depth(old) {
					shrunk = true
				}
				vs1Apply(t, m, vc14Index, f, vs1Write{Kind: "set", Cols: []uint64{col}, Vals: []int64{v}}, what)
				mod.Vals[col] = v
				used = append(used, v)
				touched = append(touched, col)
				log = append(log, fmt.Sprintf("Set(%d,%d)", col, v))
			case "import":
				k := rapid.IntRange(1, 5).Draw(t, fmt.Sprintf("n%d", i))
				w := vs1Write{Kind: "import"}
				seen := map[uint64]bool{}
				for j := 0; j < k; j++ {
					col := vc14sGenCol(t, fmt.Sprintf("c%d.%d", i, j), nshards)
					v := vc14sGenValue(t, fmt.Sprintf("v%d.%d", i, j), lo, hi, used)
					if seen[col] {
						continue // one entry per column in a request (the API splits a request by shard)
					}
					seen[col] = true
					w.Cols = append(w.Cols, col)
					w.Vals = append(w.Vals, v)
				}
				vs1Apply(t, m, vc14Index, f, w, what)
				for j := range w.Cols {
					if old, ok := mod.Vals[w.Cols[j]]; ok && vs1Depth(w.Vals[j]) < vs1Depth(old) {
						shrunk = true
					}
					mod.Vals[w.Cols[j]] = w.Vals[j]
					used = append(used, w.Vals[j])
					touched = append(touched, w.Cols[j])
				}
				log = append(log, fmt.Sprintf("ImportValue(%v,%v)", w.Cols, w.Vals))
			case "clear":
				cols := mod.cols()
				if len(cols) == 0 {
					continue
				}
				col := cols[rapid.IntRange(0, len(cols)-1).Draw(t, fmt.Sprintf("cc%d", i))]
				vs1Apply(t, m, vc14Index, f, vs1Write{Kind: "clear", Cols: []uint64{col}, Vals: []int64{mod.Vals[col]}}, what)
				delete(mod.Vals, col)
				cleared = true
				log = append(log, fmt.Sprintf("ImportValueClear(%d)", col))
			}
			// reads between the writes (the next write then meets a warm row cache)
			if len(used) > 0 && rapid.Bool().Draw(t, fmt.Sprintf("read%d", i)) {
				w := what + " after " + fmt.Sprint(log)
				vc14sCheckRanges(t, m, f, mod, []int64{used[len(used)-1], 0}, nil, w)
				vc14sCheckAggs(t, m, f, mod, []vc14sFilter{{Name: "none"}}, [][]uint64{nil}, w)
				midReads++
			}
		}
		what = what + " after " + fmt.Sprint(log)
		c := vkit.NewCase().Key("pqlRand", what)
		defer c.Done()
		// a random arrival order of the shards
		shards := rapid.Permutation(append([]uint64(nil), vc14sShardPool[:nshards]...)).Draw(t, "shardOrder")
		// predicates
		np := rapid.IntRange(2, 10).Draw(t, "npred")
		var preds []int64
		maxDepth := uint(0)
		for _, v := range used {
			if d := vs1Depth(v); d > maxDepth {
				maxDepth = d
			}
		}
		beyond := false
		for i := 0; i < np; i++ {
			var p int64
			switch rapid.IntRange(0, 4).Draw(t, fmt.Sprintf("p%d.kind", i)) {
			case 0:
				if len(used) > 0 {
					p = used[rapid.IntRange(0, len(used)-1).Draw(t, fmt.Sprintf("p%d.u", i))]
				}
			case 1:
				p = lo
			case 2:
				p = hi
			case 3:
				p = vc14sGenMag(t, fmt.Sprintf("p%d", i))
				if rapid.Bool().Draw(t, fmt.Sprintf("p%d.neg", i)) {
					p = -p
				}
			default:
				p = rapid.Int64Range(-5, 5).Draw(t, fmt.Sprintf("p%d.s", i))
			}
			off := rapid.Int64Range(-2, 2).Draw(t, fmt.Sprintf("p%d.off", i))
			if (off > 0 && p <= math.MaxInt64-off) || (off < 0 && p >= math.MinInt64+1-off) {
				p += off
			}
			if p == math.MinInt64 {
				p++ // PQL prints the predicate in decimal; -2^63 is kept out like the values
			}
			if p >= lo && p <= hi && vs1Depth(p) > maxDepth {
				beyond = true
			}
			preds = append(preds, p)
		}
		vc14sCheckRanges(t, m, f, mod, preds, shards, what)
		// between on pairs of the predicates (within +-(2^63-2) so that the strict forms do not overflow in the parser)
		var grid []int64
		for _, p := range preds {
			if p > math.MinInt64+2 && p < math.MaxInt64-2 {
				grid = append(grid, p)
			}
		}
		sort.Slice(grid, func(i, j int) bool { return grid[i] < grid[j] })
		if len(grid) > 5 {
			grid = grid[:5]
		}
		vc14sCheckBetween(t, m, f, mod, grid, shards, what)
		nulls := append([]uint64{7, vs1SW + 7}, touched...)
		var nn []uint64
		for _, x := range nulls {
			if _, has := mod.Vals[x]; !has {
				nn = append(nn, x)
			}
		}
		filters := vc14sMakeFilters(t, m, g, mod, nn, f)
		rev := append([]uint64(nil), shards...)
		for i, j := 0, len(rev)-1; i < j; i, j = i+1, j-1 {
			rev[i], rev[j] = rev[j], rev[i]
		}
		tie, negOnly := vc14sCheckAggs(t, m, f, mod, filters, [][]uint64{shards, rev}, what)
		c.Class("depth:%02d-%02d", maxDepth/8*8, maxDepth/8*8+7)
		c.ClassIf(beyond, "predicateBeyondBitDepthInsideBounds").ClassIf(tie, "extremeTiedAcrossShards").ClassIf(negOnly, "negativeOnlySelection")
		c.ClassIf(shrunk, "overwriteShrinksValue").ClassIf(cleared, "cleared").ClassIf(midReads > 0, "readsBetweenWrites")
		c.NT(beyond || tie || negOnly || shrunk)
		c.Sample(map[string]interface{}{"bounds": []int64{lo, hi}, "ops": log, "shardOrder": shards})
	})
}
