package server_test

// C17 (c) — placement. Gossip clusters of 1, 2, 3 nodes x replica counts, one executor worker per node, loaded with
// the same generated data (PQL Set through one node, which forwards to every owner). Every node is used as
// coordinator: every read query must equal the model (hence the single-node answer and the other coordinators').
// Remote partial results cross the protobuf codec and the PQL text of the forwarded call.

import (
	"context"
	"fmt"
	"os"
	"strconv"
	"strings"
	"testing"

	"github.com/pilosa/pilosa/internal/vkit"
	"pgregory.net/rapid"
)

var vc17Clusters = [][2]int{{2, 1}, {3, 1}, {3, 2}, {2, 2}, {1, 1}, {3, 3}}

func TestVerifC17_Cluster(t *testing.T) {
	defer vkit.Flush()
	shard, _ := strconv.Atoi(os.Getenv("VERIF_SHARD"))
	// the shards of one run take consecutive shapes; the run seed (VERIF_SEED, default 1) rotates through all of them
	seed, _ := strconv.Atoi(os.Getenv("VERIF_SEED"))
	cfg := vc17Clusters[(shard+seed)%len(vc17Clusters)]
	nodes, replicas := cfg[0], cfg[1]
	cl, ok, why := vs1RunCluster(t, nodes, replicas)
	defer cl.Close()
	if !ok {
		// start-up trouble of the loopback gossip cluster is not a violation of the property: the driver maps a
		// process killed by a signal to "inconclusive" (exit 2); there is no other way to tell it from a test.
		vs1Inconclusive("%d-node cluster (replicas %d) did not start: %s", nodes, replicas, why)
	}
	label := fmt.Sprintf("nodes:%d,replicas:%d", nodes, replicas)
	n, skipped := 0, 0
	rapid.Check(t, func(t *rapid.T) {
		n++
		index := fmt.Sprintf("p%d", n)
		d := vc17GenData(t)
		nq := rapid.IntRange(4, 12).Draw(t, "nq")
		var qs []vc17Query
		var calls []string
		for i := 0; i < nq; i++ {
			q := vc17GenQuery(t, fmt.Sprintf("q%d", i), d)
			qs = append(qs, q)
			calls = append(calls, q.PQL)
		}
		writer := rapid.IntRange(0, nodes-1).Draw(t, "writer")
		c := vkit.NewCase().Key("cluster", label, d.describe(), calls)
		defer c.Done()
		if err := vc17Load(t, cl[writer], index, d); err != nil {
			if !strings.Contains(err.Error(), "timeout") && !strings.Contains(err.Error(), "already exists") {
				t.Fatalf("[%s] %v", label, err)
			}
			// Creating an index/field on a peer races with the gossip schema merge creating the same object there: the
			// loser reports "index already exists" or fails to lock the attribute store ("opening storage: timeout").
			// Not a read-path matter: the dataset is dropped; too many of them make the run inconclusive.
			skipped++
			vkit.Count("cluster.datasetDroppedBySchemaRace", 1)
			_ = cl[writer].API.DeleteIndex(context.Background(), index)
			if skipped > 10 && skipped*3 > n {
				vs1Inconclusive("[%s] %d of %d datasets could not be set up: %v", label, skipped, n, err)
			}
			t.Skip("set-up failed: " + err.Error())
		}
		defer func() {
			if err := cl[0].API.DeleteIndex(context.Background(), index); err != nil && !strings.Contains(err.Error(), "timeout") {
				t.Fatalf("deleting index %s: %v", index, err)
			}
		}()
		for _, m := range cl {
			if err := m.API.RecalculateCaches(context.Background()); err != nil {
				t.Fatalf("recalculating caches: %v", err)
			}
		}
		// which nodes own the shards of the data (for the evidence)
		owners := map[string]bool{}
		for _, sh := range d.Shards {
			ns, err := cl[0].API.ShardNodes(context.Background(), index, sh)
			if err != nil {
				t.Fatalf("ShardNodes: %v", err)
			}
			if len(ns) != replicas {
				t.Fatalf("shard %d has %d owners in a %d-node cluster with %d replicas", sh, len(ns), nodes, replicas)
			}
			owners[ns[0].ID] = true
		}
		first := make([]string, len(qs))
		for ci, m := range cl {
			// the shards are named explicitly: the announcement of a new shard to the other nodes is asynchronous
			res := vs1Batch(t, m, index, calls, d.Shards, 40)
			for i, q := range qs {
				canon, problem := vc17Canon(q, res[i])
				if problem != "" {
					t.Fatalf("[%s] %s coordinated by node %d: %s\n data: %s", label, q.PQL, ci, problem, d.describe())
				}
				if !vc17ModelAgrees(q, canon) {
					t.Fatalf("[%s] %s coordinated by node %d (data written through node %d) = %s, model says %s\n data: %s", label, q.PQL, ci, writer, canon, q.Want, d.describe())
				}
				if ci == 0 {
					first[i] = canon
				} else if canon != first[i] {
					t.Fatalf("[%s] %s depends on the coordinator: node 0 gives %s, node %d gives %s\n data: %s", label, q.PQL, first[i], ci, canon, d.describe())
				}
			}
		}
		for _, q := range qs {
			c.Class("query:" + q.Kind)
		}
		c.Class(label).Class("primaryOwners:%d", len(owners))
		c.NT(len(owners) >= 2)
		c.Sample(map[string]interface{}{"cluster": label, "data": d.describe(), "queries": calls})
	})
}
