package server_test

// C23 — Data and schema requests are refused while the cluster is not serving.
//
// The product {STARTING, NORMAL, DEGRADED, RESIZING} x every exported method of
// *pilosa.API (enumerated by reflection) is executed on an in-process server
// whose cluster state is forced. A table classifies the known methods; the
// oracle is the property statement:
//   * gated methods (query/import/export/schema change/anti-entropy) return the
//     method-not-allowed error class and leave data + schema unchanged in
//     STARTING and RESIZING, and do not return that class in NORMAL/DEGRADED;
//   * cluster messages, coordinator changes, shard data transfer and resize
//     abort are served (no method-not-allowed error) in RESIZING;
//   * a method the table does not know is reported as "unclassified" and is a
//     violation only if it is observed to change data/schema in STARTING.
//
// The cluster state is forced through the exported method SetState of the
// (unexported) cluster object held by the API, reached by reflection.

import (
	"bytes"
	"context"
	"encoding/json"
	"fmt"
	"go/ast"
	"go/parser"
	"go/token"
	"io/ioutil"
	"os"
	"reflect"
	"sort"
	"strings"
	"sync"
	"syscall"
	"testing"
	"unsafe"

	"github.com/pilosa/pilosa"
	"github.com/pilosa/pilosa/encoding/proto"
	"github.com/pilosa/pilosa/internal/vkit"
	"github.com/pilosa/pilosa/roaring"
	"github.com/pilosa/pilosa/test"
	"github.com/pkg/errors"
	"pgregory.net/rapid"
)

var vc23States = []string{pilosa.ClusterStateStarting, pilosa.ClusterStateNormal, pilosa.ClusterStateDegraded, pilosa.ClusterStateResizing}

const (
	vc23Gated    = "gated"         // refused in STARTING/RESIZING, admitted in NORMAL/DEGRADED
	vc23Resizing = "resizing-only" // shard data transfer, resize abort: served in RESIZING
	vc23Always   = "always"        // cluster messages, coordinator changes: served in RESIZING
	vc23Status   = "status"        // status / metadata reads the statement does not cover
	vc23Skip     = "skip"          // never invoked (shuts the API down)
)

// vc23Table classifies every known exported method of *pilosa.API.
var vc23Table = map[string]string{
	"Query": vc23Gated, "Import": vc23Gated, "ImportValue": vc23Gated, "ImportRoaring": vc23Gated, "ExportCSV": vc23Gated,
	"CreateIndex": vc23Gated, "DeleteIndex": vc23Gated, "CreateField": vc23Gated, "DeleteField": vc23Gated, "DeleteView": vc23Gated,
	"ApplySchema": vc23Gated, "DeleteAvailableShard": vc23Gated,
	"FragmentBlocks": vc23Gated, "FragmentBlockData": vc23Gated, "IndexAttrDiff": vc23Gated, "FieldAttrDiff": vc23Gated,
	"Index": vc23Gated, "Field": vc23Gated, "Views": vc23Gated, "ShardNodes": vc23Gated, "RecalculateCaches": vc23Gated, "RemoveNode": vc23Gated,
	"FragmentData": vc23Resizing, "ResizeAbort": vc23Resizing,
	"ClusterMessage": vc23Always, "SetCoordinator": vc23Always,
	"Schema": vc23Status, "Hosts": vc23Status, "Node": vc23Status, "State": vc23Status, "Version": vc23Status, "Info": vc23Status,
	"MaxShards": vc23Status, "AvailableShardsByIndex": vc23Status, "LongQueryTime": vc23Status, "StatsWithTags": vc23Status,
	"GetTranslateData": vc23Status, "TranslateKeys": vc23Status,
	"Close": vc23Skip,
}

// vgsInconclusive stops the process in a way the driver reports as
// "inconclusive" (worker died), never as a violation: used when the harness
// itself cannot do its job (e.g. the state could not be forced).
func vgsInconclusive(format string, a ...interface{}) {
	fmt.Fprintf(os.Stderr, "HARNESS-ERROR (inconclusive): "+format+"\n", a...)
	vkit.Flush()
	syscall.Kill(os.Getpid(), syscall.SIGKILL)
	select {}
}

// vc23SetState forces the cluster state of the node behind api.
func vc23SetState(api *pilosa.API, state string) {
	func() {
		defer func() {
			if r := recover(); r != nil {
				vgsInconclusive("cannot reach cluster.SetState by reflection: %v", r)
			}
		}()
		v := reflect.ValueOf(api).Elem().FieldByName("cluster")
		p := reflect.NewAt(v.Type(), unsafe.Pointer(v.UnsafeAddr())).Elem()
		p.MethodByName("SetState").Call([]reflect.Value{reflect.ValueOf(state)})
	}()
	if got := api.State(); got != state {
		vgsInconclusive("cluster state is %s after SetState(%s)", got, state)
	}
}

func vc23IsNotAllowed(err error) bool {
	if err == nil {
		return false
	}
	return fmt.Sprintf("%T", errors.Cause(err)) == "pilosa.apiMethodNotAllowedError"
}

// ---------------------------------------------------------------------------
// environment: one server with a fixture

type vc23Env struct {
	cmd *test.Command
	ser proto.Serializer
	n   int
}

var (
	vc23mu  sync.Mutex
	vc23env *vc23Env
)

const (
	vc23Idx     = "c23i" // fixture, observed by the battery
	vc23Keyed   = "c23k" // fixture with keys
	vc23Scratch = "c23s" // scratch index for admitted writes, not observed
)

func vc23GetEnv(t interface{ Fatalf(string, ...interface{}) }) *vc23Env {
	vc23mu.Lock()
	defer vc23mu.Unlock()
	if vc23env != nil {
		return vc23env
	}
	e := &vc23Env{cmd: test.MustRunCommand()}
	ctx := context.Background()
	api := e.cmd.API
	must := func(err error) {
		if err != nil {
			t.Fatalf("building the C23 fixture: %v", err)
		}
	}
	_, err := api.CreateIndex(ctx, vc23Idx, pilosa.IndexOptions{TrackExistence: true})
	must(err)
	_, err = api.CreateField(ctx, vc23Idx, "f", pilosa.OptFieldTypeSet("ranked", 100))
	must(err)
	_, err = api.CreateField(ctx, vc23Idx, "v", pilosa.OptFieldTypeInt(-10, 100))
	must(err)
	_, err = api.CreateField(ctx, vc23Idx, "t", pilosa.OptFieldTypeTime("YMD"))
	must(err)
	_, err = api.CreateField(ctx, vc23Idx, "m", pilosa.OptFieldTypeMutex("lru", 10))
	must(err)
	_, err = api.Query(ctx, &pilosa.QueryRequest{Index: vc23Idx, Query: fmt.Sprintf(
		`Set(1, f=1) Set(2, f=1) Set(%d, f=1) Set(3, f=2) Set(1, v=5) Set(%d, v=-3) Set(1, t=4, 2019-03-04T00:00) Set(2, m=7) `+
			`SetRowAttrs(f, 1, name="one") SetColumnAttrs(1, tag="c1")`, pilosa.ShardWidth+1, pilosa.ShardWidth+1)})
	must(err)
	_, err = api.CreateIndex(ctx, vc23Keyed, pilosa.IndexOptions{Keys: true})
	must(err)
	_, err = api.CreateField(ctx, vc23Keyed, "kf", pilosa.OptFieldTypeSet("ranked", 100), pilosa.OptFieldKeys())
	must(err)
	_, err = api.Query(ctx, &pilosa.QueryRequest{Index: vc23Keyed, Query: `Set("a", kf="x") Set("b", kf="x")`})
	must(err)
	_, err = api.CreateIndex(ctx, vc23Scratch, pilosa.IndexOptions{})
	must(err)
	_, err = api.CreateField(ctx, vc23Scratch, "f", pilosa.OptFieldTypeSet("ranked", 100))
	must(err)
	_, err = api.CreateField(ctx, vc23Scratch, "v", pilosa.OptFieldTypeInt(-10, 100))
	must(err)
	_, err = api.Query(ctx, &pilosa.QueryRequest{Index: vc23Scratch, Query: `Set(1, f=1)`})
	must(err)
	vc23env = e
	return e
}

func vc23CloseEnv() {
	vc23mu.Lock()
	defer vc23mu.Unlock()
	if vc23env != nil {
		vc23SetState(vc23env.cmd.API, pilosa.ClusterStateNormal)
		vc23env.cmd.Close()
		vc23env = nil
	}
}

// battery reads schema and data of the fixture indexes (cluster must be NORMAL).
func (e *vc23Env) battery(t interface{ Fatalf(string, ...interface{}) }) []string {
	ctx := context.Background()
	api := e.cmd.API
	var out []string
	sj, _ := json.Marshal(api.Schema(ctx))
	var raws []json.RawMessage
	var names []struct {
		Name string `json:"name"`
	}
	json.Unmarshal(sj, &raws)
	json.Unmarshal(sj, &names)
	for i, n := range names {
		if n.Name != vc23Scratch {
			out = append(out, "schema:"+string(raws[i]))
		}
	}
	q := func(index, query string) {
		resp, err := api.Query(ctx, &pilosa.QueryRequest{Index: index, Query: query})
		if err != nil {
			out = append(out, fmt.Sprintf("%s: %s -> error %v", index, query, err))
			return
		}
		b, _ := json.Marshal(&resp)
		out = append(out, fmt.Sprintf("%s: %s -> %s", index, query, b))
	}
	q(vc23Idx, `Row(f=1) Row(f=2) Row(f=3) Row(f=7) Rows(f) Row(v != null) Sum(field=v) Row(v == 5) Row(t=4) Row(t=4, from='2019-03-04T00:00', to='2019-03-05T00:00') Row(m=7) Rows(m) Not(Row(f=1)) TopN(f, ids=[1,2,3,7]) Options(Row(f=1), columnAttrs=true)`)
	q(vc23Keyed, `Row(kf="x") Rows(kf)`)
	for _, sh := range []uint64{0, 1} {
		for _, fld := range []string{"f", "m", "t"} {
			var buf bytes.Buffer
			err := api.ExportCSV(ctx, vc23Idx, fld, sh, &buf)
			out = append(out, fmt.Sprintf("export %s/%d: %q err=%v", fld, sh, buf.String(), err))
		}
	}
	av := api.AvailableShardsByIndex(ctx)
	for _, n := range []string{vc23Idx, vc23Keyed} {
		var sl []uint64
		if av[n] != nil {
			sl = av[n].Slice()
		}
		out = append(out, fmt.Sprintf("shards %s: %v", n, sl))
	}
	if f, err := api.Field(ctx, vc23Idx, "t"); err == nil {
		vs, _ := api.Views(ctx, vc23Idx, "t")
		out = append(out, fmt.Sprintf("views of t: %d (%v)", len(vs), f.Options()))
	} else {
		out = append(out, "field t: "+err.Error())
	}
	return out
}

// ---------------------------------------------------------------------------
// request flags and functional options, enumerated by reflection

// vc23Odo enumerates every combination of the draws whose label starts with
// "flag:" (a mixed-radix counter that grows as draws are met); all other draws
// vary with the iteration number.
type vc23Odo struct {
	digits, radix []int
	labels        []string
	pos, iter     int
}

func (o *vc23Odo) draw(label string, n int) int {
	if !strings.HasPrefix(label, "flag:") {
		h := 0
		for _, ch := range label {
			h = h*31 + int(ch)
		}
		if h < 0 {
			h = -h
		}
		return (o.iter + h%7) % n
	}
	if o.pos == len(o.digits) {
		o.digits = append(o.digits, 0)
		o.radix = append(o.radix, n)
		o.labels = append(o.labels, label)
	}
	v := o.digits[o.pos] % n
	o.pos++
	return v
}

// next advances to the next flag combination; false once all were produced.
func (o *vc23Odo) next() bool {
	o.pos = 0
	o.iter++
	for i := len(o.digits) - 1; i >= 0; i-- {
		o.digits[i]++
		if o.digits[i] < o.radix[i] {
			return true
		}
		o.digits[i] = 0
	}
	return false
}

// vc23BoolFields lists the exported bool fields of a struct type.
func vc23BoolFields(t reflect.Type) []string {
	var out []string
	for i := 0; i < t.NumField(); i++ {
		if f := t.Field(i); f.PkgPath == "" && f.Type.Kind() == reflect.Bool {
			out = append(out, f.Name)
		}
	}
	return out
}

// vc23ImportOpts draws one on/off flag per exported bool field of
// pilosa.ImportOptions (so an option added later is enumerated too) and
// returns the matching functional options: the package's own constructor
// where the harness knows it, else a function that sets the field.
func vc23ImportOpts(draw vc23Draw) (opts []pilosa.ImportOption, set map[string]bool) {
	set = map[string]bool{}
	for _, name := range vc23BoolFields(reflect.TypeOf(pilosa.ImportOptions{})) {
		if draw("flag:ImportOptions."+name, 2) == 0 {
			continue
		}
		set[name] = true
		switch name {
		case "Clear":
			opts = append(opts, pilosa.OptImportOptionsClear(true))
		case "IgnoreKeyCheck":
			opts = append(opts, pilosa.OptImportOptionsIgnoreKeyCheck(true))
		default:
			name := name
			opts = append(opts, func(o *pilosa.ImportOptions) error {
				reflect.ValueOf(o).Elem().FieldByName(name).SetBool(true)
				return nil
			})
		}
	}
	return opts, set
}

// vc23OptConstructors scans the source of the package under test for exported
// Opt... functions that return an ImportOption (evidence: a constructor the
// harness does not know by name is reported, its field is still enumerated
// through vc23ImportOpts).
func vc23OptConstructors() (found, unknown []string) {
	dir := os.Getenv("VERIF_REPO")
	if dir == "" {
		dir = "/repo"
	}
	fset := token.NewFileSet()
	pkgs, err := parser.ParseDir(fset, dir, func(fi os.FileInfo) bool { return !strings.HasSuffix(fi.Name(), "_test.go") }, 0)
	if err != nil {
		return nil, nil
	}
	known := map[string]bool{"OptImportOptionsClear": true, "OptImportOptionsIgnoreKeyCheck": true}
	for _, pkg := range pkgs {
		for _, file := range pkg.Files {
			for _, d := range file.Decls {
				fd, ok := d.(*ast.FuncDecl)
				if !ok || fd.Recv != nil || !strings.HasPrefix(fd.Name.Name, "Opt") || fd.Type.Results == nil || len(fd.Type.Results.List) != 1 {
					continue
				}
				if id, ok := fd.Type.Results.List[0].Type.(*ast.Ident); ok && id.Name == "ImportOption" {
					found = append(found, fd.Name.Name)
					if !known[fd.Name.Name] {
						unknown = append(unknown, fd.Name.Name)
					}
				}
			}
		}
	}
	sort.Strings(found)
	sort.Strings(unknown)
	return found, unknown
}

// ---------------------------------------------------------------------------
// invocation of one method with generated arguments

type vc23Draw func(label string, n int) int // value in [0,n)

type vc23Call struct {
	desc    string
	err     error
	panicV  interface{}
	cleanup func()
}

// invoke calls method name. hot selects arguments that would change the
// fixture if the state gate did not refuse them (used in refusing states);
// otherwise writes go to the scratch index.
func (e *vc23Env) invoke(name string, hot bool, draw vc23Draw) (c vc23Call) {
	ctx := context.Background()
	api := e.cmd.API
	e.n++
	idx, fset, fint := vc23Scratch, "f", "v"
	if hot {
		idx = vc23Idx
	}
	defer func() {
		if r := recover(); r != nil {
			c.panicV = r
		}
	}()
	switch name {
	case "Query":
		qs := []string{"Set(9, f=3)", "Clear(1, f=1)", "ClearRow(f=1)", "Store(Row(f=2), f=1)", "Set(5, v=7)", `SetRowAttrs(f, 1, name="x")`,
			`SetColumnAttrs(1, tag="y")`, "Row(f=1)", "Count(Row(f=1))", "TopN(f, n=2)", "Rows(f)", "Sum(field=v)"}
		q := qs[draw("query", len(qs))]
		req := &pilosa.QueryRequest{Index: idx, Query: q}
		var flags []string
		for _, name := range vc23BoolFields(reflect.TypeOf(pilosa.QueryRequest{})) {
			if draw("flag:QueryRequest."+name, 2) == 1 {
				reflect.ValueOf(req).Elem().FieldByName(name).SetBool(true)
				flags = append(flags, name)
			}
		}
		switch draw("flag:QueryRequest.Shards", 3) {
		case 1:
			req.Shards = []uint64{0}
			flags = append(flags, "Shards=[0]")
		case 2:
			req.Shards = []uint64{0, 1}
			flags = append(flags, "Shards=[0 1]")
		}
		c.desc = fmt.Sprintf("Query(%s, %s, %s)", idx, q, strings.Join(flags, ","))
		_, c.err = api.Query(ctx, req)
	case "CreateIndex":
		n := fmt.Sprintf("c23tmp%d", e.n)
		opt := pilosa.IndexOptions{Keys: draw("keys", 2) == 1, TrackExistence: draw("track", 2) == 1}
		c.desc = fmt.Sprintf("CreateIndex(%s, %+v)", n, opt)
		_, c.err = api.CreateIndex(ctx, n, opt)
		c.cleanup = func() { api.DeleteIndex(ctx, n) }
	case "DeleteIndex":
		n := vc23Idx
		if !hot {
			n = fmt.Sprintf("c23tmp%d", e.n)
			if _, err := api.CreateIndex(ctx, n, pilosa.IndexOptions{}); err != nil {
				vgsInconclusive("creating %s: %v", n, err)
			}
		} else if draw("which", 2) == 1 {
			n = vc23Keyed
		}
		c.desc = fmt.Sprintf("DeleteIndex(%s)", n)
		c.err = api.DeleteIndex(ctx, n)
	case "CreateField":
		n := fmt.Sprintf("tmpf%d", e.n)
		opts := [][]pilosa.FieldOption{
			{pilosa.OptFieldTypeSet("ranked", 10)}, {pilosa.OptFieldTypeInt(0, 10)}, {pilosa.OptFieldTypeTime("YM")},
			{pilosa.OptFieldTypeMutex("none", 0)}, {pilosa.OptFieldTypeBool()}, {pilosa.OptFieldTypeSet("lru", 5), pilosa.OptFieldKeys()}, {},
		}
		k := draw("fieldopts", len(opts))
		c.desc = fmt.Sprintf("CreateField(%s, %s, opts#%d)", idx, n, k)
		_, c.err = api.CreateField(ctx, idx, n, opts[k]...)
		c.cleanup = func() { api.DeleteField(ctx, idx, n) }
	case "DeleteField":
		n := []string{"f", "v", "t", "m"}[draw("field", 4)]
		if !hot {
			n = fmt.Sprintf("tmpf%d", e.n)
			if _, err := api.CreateField(ctx, idx, n, pilosa.OptFieldTypeSet("ranked", 10)); err != nil {
				vgsInconclusive("creating %s/%s: %v", idx, n, err)
			}
		}
		c.desc = fmt.Sprintf("DeleteField(%s, %s)", idx, n)
		c.err = api.DeleteField(ctx, idx, n)
	case "DeleteView":
		f, v := "t", []string{"standard", "standard_2019", "standard_201903", "standard_20190304"}[draw("view", 4)]
		if !hot {
			f, v = "f", "nosuchview"
		}
		c.desc = fmt.Sprintf("DeleteView(%s, %s, %s)", idx, f, v)
		c.err = api.DeleteView(ctx, idx, f, v)
	case "ApplySchema":
		s := &pilosa.Schema{Indexes: []*pilosa.IndexInfo{{Name: vc23Scratch, Fields: []*pilosa.FieldInfo{{Name: "f", Options: pilosa.FieldOptions{Type: "set", CacheType: "ranked", CacheSize: 100}}}}}}
		if hot {
			s = &pilosa.Schema{Indexes: []*pilosa.IndexInfo{
				{Name: "c23tmpapplied", Fields: []*pilosa.FieldInfo{{Name: "g", Options: pilosa.FieldOptions{Type: "set", CacheType: "ranked", CacheSize: 100}}}},
				{Name: vc23Idx, Fields: []*pilosa.FieldInfo{{Name: "applied", Options: pilosa.FieldOptions{Type: "set", CacheType: "ranked", CacheSize: 100}}}},
			}}
			c.cleanup = func() { api.DeleteIndex(ctx, "c23tmpapplied"); api.DeleteField(ctx, vc23Idx, "applied") }
		}
		remote := draw("flag:ApplySchema.remote", 2) == 1
		c.desc = fmt.Sprintf("ApplySchema(%d indexes, remote=%v)", len(s.Indexes), remote)
		c.err = api.ApplySchema(ctx, s, remote)
	case "DeleteAvailableShard":
		sh := uint64(9)
		if hot {
			sh = uint64(draw("shard", 2))
		}
		c.desc = fmt.Sprintf("DeleteAvailableShard(%s, f, %d)", idx, sh)
		c.err = api.DeleteAvailableShard(ctx, idx, fset, sh)
	case "Import":
		opts, set := vc23ImportOpts(draw)
		req := &pilosa.ImportRequest{Index: idx, Field: fset, Shard: 0, RowIDs: []uint64{7, 1}, ColumnIDs: []uint64{3, 4}}
		if set["Clear"] {
			req = &pilosa.ImportRequest{Index: idx, Field: fset, Shard: 0, RowIDs: []uint64{1}, ColumnIDs: []uint64{1}}
		}
		c.desc = fmt.Sprintf("Import(%s/%s rows=%v cols=%v options=%v)", idx, fset, req.RowIDs, req.ColumnIDs, vc23setNames(set))
		c.err = api.Import(ctx, req, opts...)
	case "ImportValue":
		opts, set := vc23ImportOpts(draw)
		req := &pilosa.ImportValueRequest{Index: idx, Field: fint, Shard: 0, ColumnIDs: []uint64{1, 6}, Values: []int64{int64(draw("val", 50)), -2}}
		c.desc = fmt.Sprintf("ImportValue(%s/%s cols=%v vals=%v options=%v)", idx, fint, req.ColumnIDs, req.Values, vc23setNames(set))
		c.err = api.ImportValue(ctx, req, opts...)
	case "ImportRoaring":
		bm := roaring.NewBitmap(7*pilosa.ShardWidth+3, 1*pilosa.ShardWidth+9)
		var buf bytes.Buffer
		bm.WriteTo(&buf)
		rreq := &pilosa.ImportRoaringRequest{}
		var flags []string
		for _, name := range vc23BoolFields(reflect.TypeOf(pilosa.ImportRoaringRequest{})) {
			if draw("flag:ImportRoaringRequest."+name, 2) == 1 {
				reflect.ValueOf(rreq).Elem().FieldByName(name).SetBool(true)
				flags = append(flags, name)
			}
		}
		if rreq.Clear {
			buf.Reset()
			roaring.NewBitmap(1*pilosa.ShardWidth + 1).WriteTo(&buf)
		}
		rreq.Views = map[string][]byte{"": buf.Bytes()}
		remote := draw("flag:ImportRoaring.remote", 2) == 1
		c.desc = fmt.Sprintf("ImportRoaring(%s/%s shard 0 remote=%v %s)", idx, fset, remote, strings.Join(flags, ","))
		c.err = api.ImportRoaring(ctx, idx, fset, 0, remote, rreq)
	case "ExportCSV":
		sh := uint64(draw("shard", 2))
		c.desc = fmt.Sprintf("ExportCSV(%s, f, %d)", vc23Idx, sh)
		c.err = api.ExportCSV(ctx, vc23Idx, "f", sh, ioutil.Discard)
	case "FragmentBlocks":
		c.desc = "FragmentBlocks(c23i, f, standard, 0)"
		_, c.err = api.FragmentBlocks(ctx, vc23Idx, "f", "standard", uint64(draw("shard", 2)))
	case "FragmentBlockData":
		body, _ := e.ser.Marshal(&pilosa.BlockDataRequest{Index: vc23Idx, Field: "f", View: "standard", Shard: 0, Block: 0})
		c.desc = "FragmentBlockData(c23i/f/standard/0 block 0)"
		_, c.err = api.FragmentBlockData(ctx, bytes.NewReader(body))
	case "IndexAttrDiff":
		c.desc = "IndexAttrDiff(c23i, nil)"
		_, c.err = api.IndexAttrDiff(ctx, vc23Idx, nil)
	case "FieldAttrDiff":
		c.desc = "FieldAttrDiff(c23i, f, nil)"
		_, c.err = api.FieldAttrDiff(ctx, vc23Idx, "f", nil)
	case "Index":
		c.desc = "Index(c23i)"
		_, c.err = api.Index(ctx, vc23Idx)
	case "Field":
		c.desc = "Field(c23i, f)"
		_, c.err = api.Field(ctx, vc23Idx, "f")
	case "Views":
		c.desc = "Views(c23i, t)"
		_, c.err = api.Views(ctx, vc23Idx, "t")
	case "ShardNodes":
		c.desc = "ShardNodes(c23i, 0)"
		_, c.err = api.ShardNodes(ctx, vc23Idx, uint64(draw("shard", 3)))
	case "RecalculateCaches":
		c.desc = "RecalculateCaches()"
		c.err = api.RecalculateCaches(ctx)
	case "RemoveNode":
		c.desc = "RemoveNode(no-such-node)"
		_, c.err = api.RemoveNode("no-such-node")
	case "FragmentData":
		c.desc = "FragmentData(c23i, f, standard, 0)"
		_, c.err = api.FragmentData(ctx, vc23Idx, "f", "standard", 0)
	case "ResizeAbort":
		c.desc = "ResizeAbort()"
		c.err = api.ResizeAbort()
	case "ClusterMessage":
		body, err := pilosa.MarshalInternalMessage(&pilosa.RecalculateCaches{}, e.ser)
		if err != nil {
			vgsInconclusive("marshal cluster message: %v", err)
		}
		c.desc = "ClusterMessage(RecalculateCaches)"
		c.err = api.ClusterMessage(ctx, bytes.NewReader(body))
	case "SetCoordinator":
		id := "no-such-node"
		if draw("self", 2) == 1 {
			id = api.Node().ID
		}
		c.desc = fmt.Sprintf("SetCoordinator(%s)", id)
		_, _, c.err = api.SetCoordinator(ctx, id)
	case "Schema":
		api.Schema(ctx)
	case "Hosts":
		api.Hosts(ctx)
	case "Node":
		api.Node()
	case "State":
		api.State()
	case "Version":
		api.Version()
	case "Info":
		api.Info()
	case "MaxShards":
		api.MaxShards(ctx)
	case "AvailableShardsByIndex":
		api.AvailableShardsByIndex(ctx)
	case "LongQueryTime":
		api.LongQueryTime()
	case "StatsWithTags":
		api.StatsWithTags(nil)
	case "GetTranslateData":
		cctx, cancel := context.WithCancel(ctx)
		rc, err := api.GetTranslateData(cctx, 0)
		if err == nil {
			rc.Close()
		}
		cancel()
		c.err = err
	case "TranslateKeys":
		body, _ := e.ser.Marshal(&pilosa.TranslateKeysRequest{Index: vc23Keyed, Keys: []string{"a", "b"}})
		_, c.err = api.TranslateKeys(bytes.NewReader(body))
	default:
		// unknown (unclassified) method: zero-valued arguments
		m := reflect.ValueOf(api).MethodByName(name)
		var args []reflect.Value
		mt := m.Type()
		for i := 0; i < mt.NumIn(); i++ {
			if mt.IsVariadic() && i == mt.NumIn()-1 {
				break
			}
			in := mt.In(i)
			if in == reflect.TypeOf((*context.Context)(nil)).Elem() {
				args = append(args, reflect.ValueOf(ctx))
			} else {
				args = append(args, reflect.Zero(in))
			}
		}
		c.desc = name + "(zero-valued arguments)"
		outs := m.Call(args)
		for _, o := range outs {
			if err, ok := o.Interface().(error); ok && err != nil {
				c.err = err
			}
		}
	}
	if c.desc == "" {
		c.desc = name + "()"
	}
	return c
}

func vc23setNames(m map[string]bool) []string {
	var out []string
	for k := range m {
		out = append(out, k)
	}
	sort.Strings(out)
	return out
}

func vc23Methods(api *pilosa.API) []string {
	var out []string
	tp := reflect.TypeOf(api)
	for i := 0; i < tp.NumMethod(); i++ {
		out = append(out, tp.Method(i).Name)
	}
	sort.Strings(out)
	return out
}

// checkPair runs one (state, method) pair and applies the oracle.
func (e *vc23Env) checkPair(t interface{ Fatalf(string, ...interface{}) }, state, name string, draw vc23Draw) {
	api := e.cmd.API
	class, known := vc23Table[name]
	if class == vc23Skip {
		return
	}
	refusing := state == pilosa.ClusterStateStarting || state == pilosa.ClusterStateResizing
	hot := refusing && (class == vc23Gated || !known)

	vc := vkit.NewCase()
	defer vc.Done()
	if !known {
		class = "unclassified"
	}
	vc.Class("state:" + state).Class("class:" + class).Class("pair:" + state + "/" + class)

	vc23SetState(api, pilosa.ClusterStateNormal)
	var before []string
	if hot {
		before = e.battery(t)
	}
	vc23SetState(api, state)
	call := e.invoke(name, hot, draw)
	vc23SetState(api, pilosa.ClusterStateNormal)
	if call.cleanup != nil && !hot {
		call.cleanup()
	}
	vc.Key(state, "|", call.desc)
	vc.Sample(map[string]interface{}{"state": state, "method": name, "class": class, "call": call.desc, "err": fmt.Sprint(call.err), "panic": call.panicV != nil})
	notAllowed := vc23IsNotAllowed(call.err)
	vc.ClassIf(notAllowed, "outcome:refused")
	vc.ClassIf(!notAllowed && call.panicV == nil, "outcome:admitted")
	vc.ClassIf(call.panicV != nil, "outcome:panic-after-admission:"+name)
	vc.ClassIf(!notAllowed && call.panicV == nil && call.err != nil, "outcome:admitted-with-error:"+name)

	restore := func() {
		if call.cleanup != nil {
			call.cleanup()
		}
	}
	switch {
	case hot:
		vc.NT(true)
		after := e.battery(t)
		changed := ""
		for i := range before {
			if i >= len(after) || before[i] != after[i] {
				changed = fmt.Sprintf("\n  before %s\n  after  %s", before[i], func() string {
					if i < len(after) {
						return after[i]
					}
					return "(missing)"
				}())
				break
			}
		}
		if changed == "" && len(after) != len(before) {
			changed = fmt.Sprintf(" battery size %d -> %d", len(before), len(after))
		}
		if known {
			if !notAllowed {
				restore()
				t.Fatalf("state %s: %s was not refused with the method-not-allowed error (err=%v, panic=%v)", state, call.desc, call.err, call.panicV)
			}
			if changed != "" {
				restore()
				t.Fatalf("state %s: %s was refused (%v) but data/schema changed:%s", state, call.desc, call.err, changed)
			}
		} else if changed != "" {
			restore()
			t.Fatalf("state %s: unclassified API method %s changed data/schema while the cluster is not serving:%s", state, call.desc, changed)
		}
	case class == vc23Gated: // NORMAL / DEGRADED
		if notAllowed {
			t.Fatalf("state %s: %s was refused although the cluster is serving: %v", state, call.desc, call.err)
		}
	case (class == vc23Resizing || class == vc23Always) && state == pilosa.ClusterStateResizing:
		vc.NT(true)
		if notAllowed {
			t.Fatalf("state RESIZING: %s must be served during a resize but was refused: %v", call.desc, call.err)
		}
	}
}

// TestVerifC23_Pairs enumerates every (state, exported API method) pair once
// per argument variant; the method list comes from reflection.
func TestVerifC23_Pairs(t *testing.T) {
	defer vkit.Flush()
	defer vc23CloseEnv()
	e := vc23GetEnv(t)
	methods := vc23Methods(e.cmd.API)
	var unclassified []string
	for _, m := range methods {
		if _, ok := vc23Table[m]; !ok {
			unclassified = append(unclassified, m)
		}
	}
	for m := range vc23Table {
		found := false
		for _, x := range methods {
			if x == m {
				found = true
			}
		}
		if !found {
			vkit.Count("table-entry-without-method:"+m, 1)
		}
	}
	vkit.Extra("api_methods", methods)
	vkit.Extra("unclassified", unclassified)
	variants := vkit.Scale(3, 12)
	pairs, calls := 0, 0
	flagSpace := map[string]string{}
	found, unknownOpts := vc23OptConstructors()
	vkit.Extra("import_option_constructors", found)
	vkit.Extra("import_option_constructors_unknown_to_harness", unknownOpts)
	for _, st := range vc23States {
		for _, m := range methods {
			// every combination of the request flags / functional options of the method,
			// and at least `variants` calls
			odo := &vc23Odo{}
			for more := true; more || odo.iter < variants; {
				e.checkPair(t, st, m, odo.draw)
				more = odo.next() && more
				calls++
			}
			if len(odo.labels) > 0 {
				flagSpace[m] = fmt.Sprintf("%v x %v", odo.labels, odo.radix)
			}
			pairs++
		}
	}
	vkit.Extra("pairs", pairs)
	vkit.Extra("calls", calls)
	vkit.Extra("flag_space_enumerated", flagSpace)
	vkit.Extra("exhaustive", true)
}

// TestVerifC23_Args: generated argument variations and generated orders of the pairs.
func TestVerifC23_Args(t *testing.T) {
	defer vkit.Flush()
	defer vc23CloseEnv()
	e := vc23GetEnv(t)
	methods := vc23Methods(e.cmd.API)
	rapid.Check(t, func(t *rapid.T) {
		n := rapid.IntRange(1, 4).Draw(t, "n")
		for i := 0; i < n; i++ {
			st := rapid.SampledFrom(vc23States).Draw(t, "state")
			m := rapid.SampledFrom(methods).Draw(t, "method")
			draw := func(label string, n int) int { return rapid.IntRange(0, n-1).Draw(t, label) }
			e.checkPair(t, st, m, draw)
		}
	})
}
