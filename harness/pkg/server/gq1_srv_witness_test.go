package server_test

// Deterministic witnesses (minimal inputs, no generators) of defects that need the PQL layer.

import (
	"context"
	"testing"

	"github.com/pilosa/pilosa"
)

// DQA6: an empty between interval (lower bound above upper bound) matched values.
func TestVerifWitness_DQA6(t *testing.T) {
	m := vs1RunSingle(t, 1)
	defer m.Close()
	ctx := context.Background()
	if _, err := m.API.CreateIndex(ctx, "w", pilosa.IndexOptions{}); err != nil {
		t.Fatal(err)
	}
	if _, err := m.API.CreateField(ctx, "w", "f", pilosa.OptFieldTypeInt(-10, 10)); err != nil {
		t.Fatal(err)
	}
	vs1Query(t, m, "w", "Set(1, f=-1) Set(2, f=0) Set(3, f=1)", nil)
	for _, q := range []string{"Row(0 < f < 1)", "Row(-1 < f < 0)", "Row(1 < f <= 1)", "Row(-1 <= f < -1)", "Row(1 <= f <= 0)"} {
		res := vs1Query(t, m, "w", q, nil)
		if got := vs1Cols(t, res[0], q); len(got) != 0 {
			t.Errorf("%s over {1:-1, 2:0, 3:1} = %v, want []", q, got)
		}
	}
	res := vs1Query(t, m, "w", "Row(-1 < f < 1)", nil)
	if got := vs1Cols(t, res[0], "Row(-1 < f < 1)"); !vs1EqCols(got, []uint64{2}) {
		t.Errorf("Row(-1 < f < 1) = %v, want [2]", got)
	}
}

// DQA7: filtered MinRow/MaxRow kept the count of the shard that answered last when shards agree on the row.
func TestVerifWitness_DQA7(t *testing.T) {
	m := vs1RunSingle(t, 1)
	defer m.Close()
	ctx := context.Background()
	if _, err := m.API.CreateIndex(ctx, "w", pilosa.IndexOptions{}); err != nil {
		t.Fatal(err)
	}
	for _, f := range []string{"s", "t"} {
		if _, err := m.API.CreateField(ctx, "w", f); err != nil {
			t.Fatal(err)
		}
	}
	vs1Query(t, m, "w", "Set(1, s=3) Set(2, s=3) Set(1048577, s=3) Set(1, t=1) Set(2, t=1) Set(1048577, t=1)", nil)
	for _, q := range []string{"MaxRow(Row(t=1), field=s)", "MinRow(Row(t=1), field=s)"} {
		for _, shards := range [][]uint64{{0, 1}, {1, 0}} {
			res := vs1Query(t, m, "w", q, shards)
			if p, ok := res[0].(pilosa.Pair); !ok || p.ID != 3 || p.Count != 3 {
				t.Errorf("%s with Shards=%v = %+v, want {ID:3 Count:3}", q, shards, res[0])
			}
		}
		res := vs1Query(t, m, "w", q[:6]+"(field=s)", []uint64{1, 0})
		if p, ok := res[0].(pilosa.Pair); !ok || p.ID != 3 || p.Count != 1 {
			t.Errorf("%s(field=s) = %+v, want {ID:3 Count:1}", q[:6], res[0])
		}
	}
}
