package server_test

import (
	"fmt"
	"os"
	"syscall"
	"time"
)

// vgpInconclusive ends the process in a way the driver reports as inconclusive (worker death), never as a violation.
// Used only for failures of the environment (a server or cluster that cannot be started on loopback).
func vgpInconclusive(format string, args ...interface{}) {
	fmt.Printf("INCONCLUSIVE (environment): "+format+"\n", args...)
	os.Stdout.Sync()
	syscall.Kill(os.Getpid(), syscall.SIGKILL)
	time.Sleep(time.Hour)
}
