package server_test

// C12 — TopN reports true row counts (API level: PQL TopN over several shards).
// A generated write history through Set / Clear / Import / ImportRoaring / ClearRow / Store on a ranked or LRU field
// with a small cache, then
//  (a) TopN(f, ids=[...]) and TopN(f, Row(g=r), ids=[...]): every reported count equals the model's count, rows with
//      count 0 are absent, nothing outside the request is reported;
//  (b) after RecalculateCaches, when on every shard all rows ever written fit the cache: TopN(f[, Row(g=r)][, n=k])
//      returns min(n, #non-empty rows) rows with exact counts in non-increasing order (order only for ranked);
//      they are the largest ones when n covers all rows or the data lives in one shard (per-shard top-n candidates
//      are merged, so the global selection for n < #rows over several shards is approximate by design).

import (
	"fmt"
	"sort"
	"testing"

	"github.com/pilosa/pilosa"
	"github.com/pilosa/pilosa/internal/vkit"
	"pgregory.net/rapid"
)

var vc12Rows = []uint64{1, 2, 3, 4, 5, 6, 7, 100}
var vc12Offs = []uint64{0, 1, 2, 65536}

type vc12Model struct {
	f, g    map[uint64]map[uint64]struct{}
	touched map[uint64]map[uint64]struct{} // shard -> rows of f named by a write
	shards  []uint64
}

func (m *vc12Model) set(fm map[uint64]map[uint64]struct{}, r, c uint64) bool {
	if fm[r] == nil {
		fm[r] = map[uint64]struct{}{}
	}
	if _, ok := fm[r][c]; ok {
		return false
	}
	fm[r][c] = struct{}{}
	return true
}

func (m *vc12Model) clear(fm map[uint64]map[uint64]struct{}, r, c uint64) bool {
	if _, ok := fm[r][c]; !ok {
		return false
	}
	delete(fm[r], c)
	return true
}

func (m *vc12Model) touch(r uint64, shards ...uint64) {
	for _, s := range shards {
		if m.touched[s] == nil {
			m.touched[s] = map[uint64]struct{}{}
		}
		m.touched[s][r] = struct{}{}
	}
}

func (m *vc12Model) count(r uint64, filter map[uint64]struct{}, useFilter bool) uint64 {
	var n uint64
	for c := range m.f[r] {
		if useFilter {
			if _, ok := filter[c]; !ok {
				continue
			}
		}
		n++
	}
	return n
}

func TestVerifC12_API(t *testing.T) {
	defer vkit.Flush()
	env := vgaStart()
	defer env.Close()
	rapid.Check(t, func(t *rapid.T) {
		cache := rapid.SampledFrom([]string{pilosa.CacheTypeRanked, pilosa.CacheTypeRanked, pilosa.CacheTypeLRU}).Draw(t, "cache")
		size := rapid.SampledFrom([]uint32{1, 2, 3, 5, 8, 50000}).Draw(t, "cacheSize")
		shards := rapid.SampledFrom([][]uint64{{0}, {0, 1}, {0, 1, 3}, {2}}).Draw(t, "shards")
		index, drop := env.newIndex(t, "c12x", pilosa.IndexOptions{})
		defer drop()
		env.field(t, index, "f", pilosa.OptFieldTypeSet(cache, size))
		env.field(t, index, "g", pilosa.OptFieldTypeSet(pilosa.CacheTypeRanked, 100))
		c := &vgaCase{t: t, e: env, index: index, desc: fmt.Sprintf("f: set cache=%s/%d shards=%v", cache, size, shards)}
		m := &vc12Model{f: map[uint64]map[uint64]struct{}{}, g: map[uint64]map[uint64]struct{}{}, touched: map[uint64]map[uint64]struct{}{}, shards: shards}
		var cols []uint64
		for _, s := range shards {
			for _, o := range vc12Offs {
				cols = append(cols, s*vgaSW+o)
			}
		}
		genRow := func(l string) uint64 { return rapid.SampledFrom(vc12Rows).Draw(t, l) }
		genCol := func(l string) uint64 { return rapid.SampledFrom(cols).Draw(t, l) }

		// every shard exists in the index from the start (field h), so that Store/ClearRow reach all of them
		env.field(t, index, "h", pilosa.OptFieldTypeSet(pilosa.CacheTypeNone, 0))
		for _, s := range shards {
			c.qBool(fmt.Sprintf("Set(%d, h=0)", s*vgaSW))
		}
		// filter field g: rows 1 and 2
		ng := rapid.IntRange(0, 5).Draw(t, "ng")
		for i := 0; i < ng; i++ {
			r, col := rapid.SampledFrom([]uint64{1, 2}).Draw(t, fmt.Sprintf("g%d.row", i)), genCol(fmt.Sprintf("g%d.col", i))
			c.hist = append(c.hist, fmt.Sprintf("Set(%d, g=%d)", col, r))
			c.qBool(fmt.Sprintf("Set(%d, g=%d)", col, r))
			m.set(m.g, r, col)
		}

		paths := map[string]bool{}
		n := rapid.IntRange(1, vkit.Scale(18, 30)).Draw(t, "steps")
		for i := 0; i < n; i++ {
			l := fmt.Sprintf("s%d", i)
			op := rapid.SampledFrom([]string{"Set", "Set", "Set", "Clear", "Import", "Import", "ImportClear", "Roaring", "Roaring", "RoaringClear", "ClearRow", "Store"}).Draw(t, l+".op")
			paths[op] = true
			switch op {
			case "Set", "Clear":
				r, col := genRow(l+".row"), genCol(l+".col")
				q := fmt.Sprintf("%s(%d, f=%d)", op, col, r)
				c.hist = append(c.hist, q)
				var want bool
				if op == "Set" {
					want = m.set(m.f, r, col)
				} else {
					want = m.clear(m.f, r, col)
				}
				if got := c.qBool(q); got != want {
					c.fail("%s returned %v, want %v", q, got, want)
				}
				m.touch(r, col/vgaSW)
			case "Import", "ImportClear", "Roaring", "RoaringClear":
				k := rapid.IntRange(1, 6).Draw(t, l+".n")
				var rs, cs []uint64
				for j := 0; j < k; j++ {
					rs = append(rs, genRow(fmt.Sprintf("%s.r%d", l, j)))
					cs = append(cs, genCol(fmt.Sprintf("%s.c%d", l, j)))
				}
				clear := op == "ImportClear" || op == "RoaringClear"
				c.hist = append(c.hist, fmt.Sprintf("%s(f, rows=%v, cols=%v)", op, rs, cs))
				if op == "Import" || op == "ImportClear" {
					if err := c.importBits("f", rs, cs, clear); err != nil {
						c.fail("Import: %v", err)
					}
				} else {
					c.importRoaring("f", rs, cs, clear)
				}
				for j := range rs {
					if clear {
						m.clear(m.f, rs[j], cs[j])
					} else {
						m.set(m.f, rs[j], cs[j])
					}
					m.touch(rs[j], cs[j]/vgaSW)
				}
			case "ClearRow":
				r := genRow(l + ".row")
				q := fmt.Sprintf("ClearRow(f=%d)", r)
				c.hist = append(c.hist, q)
				want := len(m.f[r]) > 0
				if got := c.qBool(q); got != want {
					c.fail("%s returned %v, want %v", q, got, want)
				}
				m.f[r] = map[uint64]struct{}{}
				m.touch(r, shards...)
			case "Store":
				r, src := genRow(l+".row"), rapid.SampledFrom([]uint64{1, 2}).Draw(t, l+".src")
				q := fmt.Sprintf("Store(Row(g=%d), f=%d)", src, r)
				c.hist = append(c.hist, q)
				c.qBool(q)
				m.f[r] = map[uint64]struct{}{}
				for col := range m.g[src] {
					m.f[r][col] = struct{}{}
				}
				m.touch(r, shards...)
			}
			if rapid.IntRange(0, 2).Draw(t, l+".query") == 0 {
				vc12CheckIDs(t, c, m, l, size)
			}
			if rapid.IntRange(0, 5).Draw(t, l+".recalc") == 0 {
				c.hist = append(c.hist, "RecalculateCaches")
				c.recalc()
			}
		}
		uncached := vc12CheckIDs(t, c, m, "end", size)
		// the reads of C07 come for free: rows equal the model whatever the write path
		for _, r := range vc12Rows {
			if got, want := c.qCols(fmt.Sprintf("Row(f=%d)", r)), vgaSorted(m.f[r]); !vgaEq(got, want) {
				c.fail("Row(f=%d) = %v, want %v", r, got, want)
			}
		}
		fits := true
		for _, s := range shards {
			if uint32(len(m.touched[s])) > size {
				fits = false
			}
		}
		if fits {
			c.hist = append(c.hist, "RecalculateCaches")
			c.recalc()
			vc12CheckTopN(t, c, m, cache, len(shards) == 1)
		}
		kc := vkit.NewCase().Key("c12api", c.desc, c.hist)
		defer kc.Done()
		kc.Class("cache:%s/%d", cache, size).Class("shards:%d", len(shards)).ClassIf(fits, "topN:rowsFitCache").ClassIf(!fits, "topN:skippedRowsDoNotFit")
		for p := range paths {
			kc.Class("path:" + p)
		}
		emptied := false
		for _, r := range vc12Rows {
			if _, ok := m.f[r]; ok && len(m.f[r]) == 0 {
				emptied = true
			}
		}
		kc.ClassIf(emptied, "someRowEmptied").ClassIf(uncached, "requestedRowsExceedCache")
		kc.NT(uncached || emptied)
		kc.Sample(map[string]interface{}{"field": c.desc, "history": c.hist})
	})
}

// vc12CheckIDs queries TopN with explicit ids, with and without a filter row. It reports whether a non-empty row was
// requested while some shard has seen more rows than its cache holds (rows evicted / below threshold / never admitted).
func vc12CheckIDs(t *rapid.T, c *vgaCase, m *vc12Model, l string, size uint32) bool {
	pool := append([]uint64{9}, vc12Rows...) // 9 is never written
	ids := rapid.SliceOfNDistinct(rapid.SampledFrom(pool), 1, 6, func(v uint64) uint64 { return v }).Draw(t, l+".ids")
	sort.Slice(ids, func(i, j int) bool { return ids[i] < ids[j] })
	for _, filt := range []uint64{0, 1, 2} {
		q := fmt.Sprintf("TopN(f, ids=[%s])", vgaList(ids))
		if filt != 0 {
			q = fmt.Sprintf("TopN(f, Row(g=%d), ids=[%s])", filt, vgaList(ids))
		}
		want := map[uint64]uint64{}
		for _, id := range ids {
			if n := m.count(id, m.g[filt], filt != 0); n > 0 {
				want[id] = n
			}
		}
		got := map[uint64]uint64{}
		pairs := c.qPairs(q)
		for _, p := range pairs {
			if _, dup := got[p.ID]; dup {
				c.fail("%s reports row %d twice: %v", q, p.ID, pairs)
			}
			got[p.ID] = p.Count
		}
		if fmt.Sprint(got) != fmt.Sprint(want) {
			c.fail("%s = %v, want %v (row:count)", q, got, want)
		}
	}
	// some requested non-empty row on a shard where more rows were written than the cache holds
	for _, id := range ids {
		if len(m.f[id]) == 0 {
			continue
		}
		for _, s := range m.shards {
			if uint32(len(m.touched[s])) > size {
				return true
			}
		}
	}
	return false
}

func vc12CheckTopN(t *rapid.T, c *vgaCase, m *vc12Model, cache string, oneShard bool) {
	for _, filt := range []uint64{0, 1} {
		x := map[uint64]uint64{}
		var counts []uint64
		for _, r := range vc12Rows {
			if n := m.count(r, m.g[filt], filt != 0); n > 0 {
				x[r] = n
				counts = append(counts, n)
			}
		}
		sort.Slice(counts, func(i, j int) bool { return counts[i] > counts[j] })
		for _, n := range []int{0, rapid.IntRange(1, 4).Draw(t, fmt.Sprintf("topn%d.n", filt)), 20} {
			args := "f"
			if filt != 0 {
				args += fmt.Sprintf(", Row(g=%d)", filt)
			}
			if n > 0 {
				args += fmt.Sprintf(", n=%d", n)
			}
			q := "TopN(" + args + ")"
			pairs := c.qPairs(q)
			k := len(counts)
			if n > 0 && n < k {
				k = n
			}
			desc := fmt.Sprintf("%s after RecalculateCaches = %v; true counts %v", q, pairs, x)
			if len(pairs) != k {
				c.fail("%s: %d rows returned, want %d", desc, len(pairs), k)
			}
			seen := map[uint64]bool{}
			for i, p := range pairs {
				if seen[p.ID] {
					c.fail("%s: row %d twice", desc, p.ID)
				}
				seen[p.ID] = true
				if x[p.ID] != p.Count {
					c.fail("%s: row %d reported with count %d, true count %d", desc, p.ID, p.Count, x[p.ID])
				}
				if cache == pilosa.CacheTypeRanked && i > 0 && pairs[i-1].Count < p.Count {
					c.fail("%s: not in non-increasing order", desc)
				}
			}
			if oneShard || k == len(counts) {
				var gotCounts []uint64
				for _, p := range pairs {
					gotCounts = append(gotCounts, p.Count)
				}
				sort.Slice(gotCounts, func(i, j int) bool { return gotCounts[i] > gotCounts[j] })
				for i := 0; i < k; i++ {
					if gotCounts[i] != counts[i] {
						c.fail("%s: the %d largest counts are %v, reported (sorted) %v", desc, k, counts[:k], gotCounts)
					}
				}
			}
		}
	}
}
