package server_test

// C14 (API half, bulk imports) — fragment.importValue has two implementations: the small-write path and the bulk path,
// taken when len(values)*(bitDepth+1)+opN >= MaxOpN (10000, not configurable through the API). This unit drives requests
// big enough for the bulk path into one shard: bulk set of generated in-range values (negative, zero, positive),
// bulk overwrite (large->small magnitudes, sign flips), bulk clear of a generated slice of the stored values, mixed with
// small imports / clears / Set overwrites, and after EVERY step (so that the fragment's row cache is warm before the
// next write) the predicate battery: all six operators around 0, +-1, the stored values and the bounds, between,
// != null, Sum/Min/Max unfiltered and under BSI filters — all against the map model.

import (
	"fmt"
	"sort"
	"testing"

	"github.com/pilosa/pilosa"
	"github.com/pilosa/pilosa/internal/vkit"
	"github.com/pilosa/pilosa/test"
	"pgregory.net/rapid"
)

const vc14BulkMaxOpN = 10000 // pilosa's defaultFragmentMaxOpN

// vc14bNeed: number of values a request needs for the bulk path at the given field bit depth.
func vc14bNeed(depth uint) int {
	return vc14BulkMaxOpN/int(depth+1) + 1
}

// vc14bBattery runs the predicate battery against the model.
func vc14bBattery(t vs1T, m *test.Command, f string, mod *vs1IntModel, pool []int64, shards []uint64, what string) {
	seen := map[int64]bool{}
	var preds []int64
	add := func(p int64) {
		if !seen[p] {
			seen[p] = true
			preds = append(preds, p)
		}
	}
	for _, p := range []int64{0, -1, 1, mod.Min, mod.Max, mod.Min - 1, mod.Max + 1} {
		add(p)
	}
	for i, v := range pool {
		if i >= 5 {
			break
		}
		add(v)
		add(v - 1)
		add(v + 1)
	}
	sort.Slice(preds, func(i, j int) bool { return preds[i] < preds[j] })
	vc14sCheckRanges(t, m, f, mod, preds, shards, what)
	grid := []int64{mod.Min, -1, 0, 1, mod.Max}
	if len(pool) > 0 {
		grid = append(grid, pool[0])
	}
	sort.Slice(grid, func(i, j int) bool { return grid[i] < grid[j] })
	vc14sCheckBetween(t, m, f, mod, grid, shards, what)
	filters := []vc14sFilter{{Name: "none"}}
	for _, x := range []struct {
		op string
		p  int64
	}{{"<", 0}, {">=", 0}, {"<=", 1}} {
		q := fmt.Sprintf("Row(%s %s %d)", f, x.op, x.p)
		filters = append(filters, vc14sFilter{Name: q, PQL: q, Cols: vs1ColSet(mod.filter(x.op, x.p))})
	}
	vc14sCheckAggs(t, m, f, mod, filters, [][]uint64{shards}, what)
}

func TestVerifC14_PQLBulk(t *testing.T) {
	defer vkit.Flush()
	m := vs1RunSingle(t, 1)
	defer m.Close()
	vc14sEnsureIndex(t, m)
	n := 0
	rapid.Check(t, func(t *rapid.T) {
		n++
		f := fmt.Sprintf("b%d", n)
		// bounds with at least 9 bits on one side, so that a bulk request needs at most ~1000 values
		kn := rapid.IntRange(0, 30).Draw(t, "negBits")
		kp := rapid.IntRange(0, 30).Draw(t, "posBits")
		if kn < 9 && kp < 9 {
			if rapid.Bool().Draw(t, "widen") {
				kn = 9 + kn
			} else {
				kp = 9 + kp
			}
		}
		lo, hi := -(int64(1)<<uint(kn) - 1), int64(1)<<uint(kp)-1
		if rapid.IntRange(0, 9).Draw(t, "posOnly") == 0 && kp >= 9 {
			lo = 0
		}
		sh := rapid.SampledFrom([]uint64{0, 1, 3}).Draw(t, "shard")
		base := sh*vs1SW + 100
		genPool := func(label string, wantBig bool) []int64 {
			k := rapid.IntRange(2, 6).Draw(t, label+".n")
			var pool []int64
			for i := 0; i < k; i++ {
				pool = append(pool, vc14sGenPoolValue(t, fmt.Sprintf("%s.%d", label, i), lo, hi))
			}
			if wantBig { // the value of largest magnitude fixes the bit depth (and with it the request size)
				if -lo > hi {
					pool = append(pool, lo)
				} else {
					pool = append(pool, hi)
				}
			}
			if lo < 0 {
				pool = append(pool, rapid.Int64Range(lo, -1).Draw(t, label+".neg"))
			}
			return pool
		}
		vc14sCreateField(t, m, f, pilosa.OptFieldTypeInt(lo, hi))
		defer vc14sDropField(t, m, f)
		mod := vs1NewIntModel(lo, hi)
		depth := vs1Depth(lo)
		if d := vs1Depth(hi); d > depth {
			depth = d
		}
		need := vc14bNeed(depth)
		ncols := need + rapid.IntRange(0, 60).Draw(t, "extra")
		what := fmt.Sprintf("bounds(%d,%d) shard %d", lo, hi, sh)
		var log []string
		shards := []uint64{sh}
		if rapid.Bool().Draw(t, "otherShards") {
			shards = []uint64{5, sh, 2}
		}
		imp := func(kind string, cols []uint64, vals []int64) {
			vs1Apply(t, m, vc14Index, f, vs1Write{Kind: kind, Cols: cols, Vals: vals}, what)
			for i, c := range cols {
				if kind == "clear" {
					delete(mod.Vals, c)
				} else {
					mod.Vals[c] = vals[i]
				}
			}
		}
		pattern := func(label string, pool []int64, cols []uint64) []int64 {
			a := rapid.IntRange(1, 7).Draw(t, label+".a")
			b := rapid.IntRange(0, 7).Draw(t, label+".b")
			vals := make([]int64, len(cols))
			for i := range cols {
				vals[i] = pool[(a*i+b+i/len(pool))%len(pool)]
			}
			return vals
		}
		// step 0: bulk set
		pool := genPool("p0", true)
		cols := make([]uint64, ncols)
		for i := range cols {
			cols[i] = base + uint64(i)
		}
		imp("import", cols, pattern("s0", pool, cols))
		log = append(log, fmt.Sprintf("bulkSet(%d cols from %d, pool %v)", ncols, base, pool))
		vc14bBattery(t, m, f, mod, pool, shards, what+" after "+fmt.Sprint(log))
		bulkClearNeg, bulkOverwrite, smallClearNeg, smallShrink := false, false, false, false
		nsteps := rapid.IntRange(1, 4).Draw(t, "nsteps")
		for s := 1; s <= nsteps; s++ {
			l := fmt.Sprintf("s%d", s)
			kind := rapid.SampledFrom([]string{"bulkClear", "bulkClear", "bulkOverwrite", "bulkOverwrite", "smallOverwrite", "smallClear", "setOverwrite"}).Draw(t, l+".kind")
			have := mod.cols()
			switch kind {
			case "bulkClear":
				if len(have) < need {
					kind = "bulkOverwrite" // not enough stored values left for a bulk-sized clear
					break
				}
				k := need + rapid.IntRange(0, len(have)-need).Draw(t, l+".len")
				off := rapid.IntRange(0, len(have)-k).Draw(t, l+".off")
				cs := append([]uint64(nil), have[off:off+k]...)
				vs := make([]int64, k)
				for i, c := range cs {
					vs[i] = mod.Vals[c] // the client names the value it removes
					if vs[i] < 0 {
						bulkClearNeg = true
					}
				}
				imp("clear", cs, vs)
				log = append(log, fmt.Sprintf("bulkClear(%d cols from %d)", k, cs[0]))
			}
			switch kind {
			case "bulkClear":
			case "bulkOverwrite":
				pool = genPool(l+".p", false)
				imp("import", cols, pattern(l, pool, cols))
				bulkOverwrite = true
				log = append(log, fmt.Sprintf("bulkOverwrite(%d cols from %d, pool %v)", ncols, base, pool))
			case "smallOverwrite", "setOverwrite":
				// few columns, to values that need fewer bits (some bit rows only receive clears)
				k := rapid.IntRange(1, 3).Draw(t, l+".k")
				var cs []uint64
				var vs []int64
				seen := map[uint64]bool{}
				for i := 0; i < k; i++ {
					c := cols[rapid.IntRange(0, ncols-1).Draw(t, fmt.Sprintf("%s.c%d", l, i))]
					if seen[c] {
						continue
					}
					seen[c] = true
					v := rapid.SampledFrom([]int64{0, 1, -1, 2, -2, 4, 5}).Draw(t, fmt.Sprintf("%s.v%d", l, i))
					if v < lo {
						v = 0
					}
					if v > hi {
						v = hi
					}
					if old, ok := mod.Vals[c]; ok && vs1Depth(v) < vs1Depth(old) {
						smallShrink = true
					}
					cs, vs = append(cs, c), append(vs, v)
				}
				if kind == "setOverwrite" {
					imp("set", cs, vs)
				} else {
					imp("import", cs, vs)
				}
				pool = append(vs, pool...)
				log = append(log, fmt.Sprintf("%s(%v,%v)", kind, cs, vs))
			case "smallClear":
				if len(have) == 0 {
					continue
				}
				// prefer columns holding negative values
				var neg []uint64
				for _, c := range have {
					if mod.Vals[c] < 0 {
						neg = append(neg, c)
					}
				}
				from := have
				if len(neg) > 0 && rapid.IntRange(0, 3).Draw(t, l+".neg") > 0 {
					from = neg
				}
				k := rapid.IntRange(1, 3).Draw(t, l+".k")
				var cs []uint64
				var vs []int64
				seen := map[uint64]bool{}
				for i := 0; i < k; i++ {
					c := from[rapid.IntRange(0, len(from)-1).Draw(t, fmt.Sprintf("%s.c%d", l, i))]
					if seen[c] {
						continue
					}
					seen[c] = true
					cs, vs = append(cs, c), append(vs, mod.Vals[c])
					if mod.Vals[c] < 0 {
						smallClearNeg = true
					}
				}
				imp("clear", cs, vs)
				log = append(log, fmt.Sprintf("smallClear(%v,%v)", cs, vs))
			}
			vc14bBattery(t, m, f, mod, pool, shards, what+" after "+fmt.Sprint(log))
		}
		c := vkit.NewCase().Key("pqlBulk", what, log)
		defer c.Done()
		c.Class("depth:%02d-%02d", depth/8*8, depth/8*8+7).Class("bulkRequestValues:%d-%d", ncols/200*200, ncols/200*200+199)
		c.ClassIf(bulkClearNeg, "bulkClearOfNegativeValues").ClassIf(bulkOverwrite, "bulkOverwrite")
		c.ClassIf(smallClearNeg, "smallClearOfNegativeValues").ClassIf(smallShrink, "smallOverwriteShrinksValueAfterRead")
		c.NT(bulkClearNeg || bulkOverwrite || smallClearNeg || smallShrink)
		c.Sample(map[string]interface{}{"bounds": []int64{lo, hi}, "steps": log})
	})
}

// vc14sGenPoolValue: an in-range value: 0, +-1, small, near a power of two, a bound.
func vc14sGenPoolValue(t *rapid.T, label string, lo, hi int64) int64 {
	clamp := func(v int64) int64 {
		if v < lo {
			return lo
		}
		if v > hi {
			return hi
		}
		return v
	}
	switch rapid.IntRange(0, 5).Draw(t, label+".kind") {
	case 0:
		return clamp(rapid.Int64Range(-2, 2).Draw(t, label+".s"))
	case 1:
		return clamp(lo + rapid.Int64Range(0, 1).Draw(t, label+".o"))
	case 2:
		return clamp(hi - rapid.Int64Range(0, 1).Draw(t, label+".o"))
	case 3:
		v := int64(1)<<uint(rapid.IntRange(0, 30).Draw(t, label+".k")) + rapid.Int64Range(-1, 1).Draw(t, label+".d")
		if rapid.Bool().Draw(t, label+".neg") {
			v = -v
		}
		return clamp(v)
	default:
		return rapid.Int64Range(lo, hi).Draw(t, label+".any")
	}
}
