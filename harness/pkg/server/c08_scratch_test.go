package server_test

import (
	"context"
	"testing"

	"github.com/pilosa/pilosa"
	"github.com/pilosa/pilosa/test"
)

func TestVerifC08Scratch(t *testing.T) {
	cmd := test.MustRunCommand()
	defer cmd.Close()
	cmd.MustCreateIndex(t, "i", pilosa.IndexOptions{})
	cmd.MustCreateField(t, "i", "f", pilosa.OptFieldTypeSet("lru", 50000))
	err := cmd.API.Import(context.Background(), &pilosa.ImportRequest{Index: "i", Field: "f", Shard: 0, RowIDs: []uint64{3, 5}, ColumnIDs: []uint64{1, 2}}, pilosa.OptImportOptionsClear(true))
	t.Logf("import err=%v", err)
	r0 := cmd.MustQuery(t, &pilosa.QueryRequest{Index: "i", Query: "Set(1,f=7) Clear(1,f=7) Set(2,f=8) ClearRow(f=8) Rows(f)"})
	t.Logf("set-clear: %#v", r0.Results[4])
	if err := cmd.Reopen(); err != nil { t.Fatal(err) }
	r := cmd.MustQuery(t, &pilosa.QueryRequest{Index: "i", Query: "Rows(f) Row(f=3) Count(Row(f=3))"})
	t.Logf("%#v %v %v", r.Results[0], r.Results[1].(*pilosa.Row).Columns(), r.Results[2])
}
