package pql

// C26 — PQL text is parsed faithfully (parse direction) and Call.String() re-parses to the same call
// (forward direction for the value types the parser itself produces; the executor-placed types are
// checked in package pilosa, harness/pkg/_root/c26_forward_test.go).

import (
	"fmt"
	"sort"
	"strings"
	"testing"

	"github.com/pilosa/pilosa/internal/vkit"
	"pgregory.net/rapid"
)

func vc26Parse(text string) (q *Query, err error, panicked interface{}) {
	defer func() {
		if r := recover(); r != nil {
			panicked = r
		}
	}()
	q, err = ParseString(text)
	return q, err, nil
}

var vc26Trivial = map[string]bool{"call:generic": true, "str:bare": true, "str:quote": true, "str:sq": true, "str:dqraw": true, "noargs": true, "trailingcomma": true}

func vc26Record(c *vkit.Case, g *vc26Gen) {
	fs := make([]string, 0, len(g.feats))
	for f := range g.feats {
		fs = append(fs, f)
	}
	sort.Strings(fs)
	nt := false
	for _, f := range fs {
		c.Class(f)
		if !vc26Trivial[f] {
			nt = true
		}
	}
	c.NT(nt)
}

func TestVerifC26_Parse(t *testing.T) {
	defer vkit.Flush()
	rapid.Check(t, func(t *rapid.T) {
		g := &vc26Gen{t: t, feats: map[string]bool{}}
		g.noWS = rapid.IntRange(0, 3).Draw(t, "nows") == 0
		want, text := g.query(3, 3)
		c := vkit.NewCase().Key(text)
		defer c.Done()
		vc26Record(c, g)
		dumps := make([]string, len(want))
		for i := range want {
			dumps[i] = vc26Dump(want[i])
		}
		c.Sample(map[string]interface{}{"text": text, "ast": dumps, "wantErr": g.wantErr})

		q, err, pv := vc26Parse(text)
		if pv != nil {
			t.Fatalf("ParseString(%q) panicked: %v", text, pv)
		}
		if g.syntaxErr {
			if err == nil {
				t.Fatalf("ParseString(%q) accepted text that is not in the grammar (a foreign number literal, or a positional id / conditional bound with a leading zero): %s", text, q)
			}
			return
		}
		if g.wantErr != "" {
			// the query holds a construct that must be rejected; when it holds two, either error may come first
			ok := err != nil && ((g.wantErr == "range" || g.overflowCond) && strings.HasPrefix(err.Error(), intOutOfRangeError) ||
				g.wantErr == "dup" && strings.HasPrefix(err.Error(), duplicateArgErrorMessage))
			if !ok {
				t.Fatalf("ParseString(%q): must be rejected (%s), got err=%v query=%v", text, g.wantErr, err, q)
			}
			return
		}
		if g.overflowCond && err != nil && strings.HasPrefix(err.Error(), intOutOfRangeError) {
			return // `MaxInt64 < f`: rejecting the bound that does not exist is as good as an empty range
		}
		if err != nil {
			t.Fatalf("ParseString(%q) rejected a query of the grammar: %v\nexpected AST: %s", text, err, strings.Join(dumps, " ; "))
		}
		if err := vc26EqCalls(want, q.Calls, false); err != nil {
			t.Fatalf("ParseString(%q): %v", text, err)
		}

		// forward direction, parser value types: the text a node sends to a peer is Query.String()
		fwd := q.String()
		q2, err, pv := vc26Parse(fwd)
		if pv != nil {
			t.Fatalf("re-parsing %q (String() of the parse of %q) panicked: %v", fwd, text, pv)
		}
		if err != nil {
			t.Fatalf("String() of the parse of %q is %q which does not parse: %v", text, fwd, err)
		}
		if err := vc26EqCalls(q.Calls, q2.Calls, true); err != nil {
			t.Fatalf("String() of the parse of %q is %q which parses to a different call: %v", text, fwd, err)
		}
	})
}

func vc26MustParseOne(t *testing.T, text string) *Call {
	t.Helper()
	q, err, pv := vc26Parse(text)
	if pv != nil {
		t.Fatalf("ParseString(%q) panicked: %v", text, pv)
	}
	if err != nil {
		t.Fatalf("ParseString(%q): %v", text, err)
	}
	if len(q.Calls) != 1 {
		t.Fatalf("ParseString(%q): %d calls", text, len(q.Calls))
	}
	return q.Calls[0]
}

func vc26Witness(t *testing.T, text string, want *Call) {
	t.Helper()
	got := vc26MustParseOne(t, text)
	if err := vc26EqCall(want, got, false, ""); err != nil {
		t.Fatalf("ParseString(%q): %v", text, err)
	}
}

// D25: the generated actions sliced the string buffer with rune offsets.
func TestVerifWitness_D25(t *testing.T) {
	vc26Witness(t, `Set("é1", f="ünï")`, &Call{Name: "Set", Args: map[string]interface{}{"_col": "é1", "f": "ünï"}})
	vc26Witness(t, `Row(f='é')`, &Call{Name: "Row", Args: map[string]interface{}{"f": "é"}})
	vc26Witness(t, `Row(x="日本", stargazer=12)`, &Call{Name: "Row", Args: map[string]interface{}{"x": "日本", "stargazer": int64(12)}})
}

// D26 (parser-only part): String() of nil / float64 / lists containing them must re-parse to the same values.
func TestVerifWitness_D26(t *testing.T) {
	for _, text := range []string{`SetRowAttrs(f, 1, z=null)`, `Row(n != null)`, `SetRowAttrs(f, 1, x=1.0)`, `SetColumnAttrs(1, x=1000000000000000000000.0)`, `Foo(a=[null, 1.0, "x"])`} {
		c := vc26MustParseOne(t, text)
		s := c.String()
		q2, err, pv := vc26Parse(s)
		if pv != nil || err != nil {
			t.Fatalf("String() of %q is %q which does not parse: %v %v", text, s, err, pv)
		}
		if err := vc26EqCalls([]*Call{c}, q2.Calls, true); err != nil {
			t.Fatalf("String() of %q is %q which parses differently: %v", text, s, err)
		}
	}
	c := &Call{Name: "TopN", Args: map[string]interface{}{"_field": "f", "ids": []int64{1, 2}}}
	s := c.String()
	q2, err, pv := vc26Parse(s)
	if pv != nil || err != nil {
		t.Fatalf("String() of TopN with ids []int64{1,2} is %q which does not parse: %v %v", s, err, pv)
	}
	if err := vc26EqCalls([]*Call{c}, q2.Calls, true); err != nil {
		t.Fatalf("%q: %v", s, err)
	}
}

// DP1: a quoted timestamp in Set() kept its quotes.
func TestVerifWitness_DP1(t *testing.T) {
	want := &Call{Name: "Set", Args: map[string]interface{}{"_col": int64(1), "f": int64(2), "_timestamp": "2017-01-01T00:00"}}
	vc26Witness(t, `Set(1, f=2, 2017-01-01T00:00)`, want)
	vc26Witness(t, `Set(1, f=2, "2017-01-01T00:00")`, want)
	vc26Witness(t, `Set(1, f=2, '2017-01-01T00:00')`, want)
}

// DP2: true/false/null directly before the closing bracket of a list were parsed as bare-word strings.
func TestVerifWitness_DP2(t *testing.T) {
	vc26Witness(t, `Foo(a=[true,true])`, &Call{Name: "Foo", Args: map[string]interface{}{"a": []interface{}{true, true}}})
	vc26Witness(t, `Foo(a=[null], b=[1, false ])`, &Call{Name: "Foo", Args: map[string]interface{}{"a": []interface{}{nil}, "b": []interface{}{int64(1), false}}})
}

// DP3: `a < f < b` wrapped around at the int64 limits and ignored out-of-range bounds.
func TestVerifWitness_DP3(t *testing.T) {
	for _, text := range []string{`Row(9223372036854775807 < f < 10)`, `Row(0 < f < -9223372036854775808)`, `Row(99999999999999999999 < f < 5)`, `Row(1 <= f <= 99999999999999999999)`} {
		q, err, pv := vc26Parse(text)
		if pv != nil {
			t.Fatalf("ParseString(%q) panicked: %v", text, pv)
		}
		if err != nil {
			continue
		}
		cond, _ := q.Calls[0].Args["f"].(*Condition)
		l, _ := cond.Value.([]interface{})
		if len(l) != 2 || l[0].(int64) <= l[1].(int64) {
			t.Fatalf("ParseString(%q): no int64 satisfies the written condition, parsed as %s", text, vc26Dump(q.Calls[0]))
		}
	}
	vc26Witness(t, `Row(-9223372036854775808 < f < 9223372036854775807)`, &Call{Name: "Row", Args: map[string]interface{}{
		"f": &Condition{Op: BETWEEN, Value: []interface{}{int64(-9223372036854775807), int64(9223372036854775806)}}}})
}

// DP4: escapes in a double-quoted positional column / row key were not decoded.
func TestVerifWitness_DP4(t *testing.T) {
	vc26Witness(t, `Set("a\"b", f="a\"b")`, &Call{Name: "Set", Args: map[string]interface{}{"_col": `a"b`, "f": `a"b`}})
	vc26Witness(t, `SetRowAttrs(f, "\\", x=1)`, &Call{Name: "SetRowAttrs", Args: map[string]interface{}{"_field": "f", "_row": `\`, "x": int64(1)}})
	vc26Witness(t, `SetColumnAttrs("\u00e9", x=1)`, &Call{Name: "SetColumnAttrs", Args: map[string]interface{}{"_col": "é", "x": int64(1)}})
}

// DP5: a double-quoted string with a raw newline (in the grammar) silently became "".
func TestVerifWitness_DP5(t *testing.T) {
	vc26Witness(t, "SetRowAttrs(f, 1, note=\"line1\nline2\")", &Call{Name: "SetRowAttrs", Args: map[string]interface{}{"_field": "f", "_row": int64(1), "note": "line1\nline2"}})
	// an invalid escape has no value: it must be rejected, not read as ""
	q, err, pv := vc26Parse(`Row(f="\q")`)
	if pv != nil {
		t.Fatalf("panic: %v", pv)
	}
	if err == nil {
		if v, _ := q.Calls[0].Args["f"].(string); v == "" {
			t.Fatalf(`Row(f="\q") was accepted with f=""`)
		}
	}
}

// DP6: a condition whose list holds a non-numeric item failed with a runtime.TypeAssertionError.
func TestVerifWitness_DP6(t *testing.T) {
	vc26Witness(t, `Row(f >< [null])`, &Call{Name: "Row", Args: map[string]interface{}{"f": &Condition{Op: BETWEEN, Value: []interface{}{nil}}}})
	vc26Witness(t, `Row(f == ["a", 1, true, x])`, &Call{Name: "Row", Args: map[string]interface{}{"f": &Condition{Op: EQ, Value: []interface{}{"a", int64(1), true, "x"}}}})
}

var _ = fmt.Sprint
