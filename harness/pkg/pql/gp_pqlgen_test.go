package pql

// C26 — generator of (AST, text) pairs from the grammar in pql.peg, and the
// typed comparison of calls. Everything the generator emits is derived from
// the grammar file (rule names in the comments), never from the parser code.

import (
	"fmt"
	"math"
	"sort"
	"strconv"
	"strings"
	"unicode/utf8"

	"github.com/pilosa/pilosa/internal/vkit"
	"pgregory.net/rapid"
)

type vc26Gen struct {
	t       *rapid.T
	feats   map[string]bool
	wantErr string // "" | "range" | "dup": the whole query must be rejected with that error
	// the text holds a token that is not in the grammar (0x10, 1_000, a positional id or conditional bound with a
	// leading zero ...): the whole query must be rejected (any error)
	syntaxErr bool
	noWS      bool
	// conditionals whose bound overflows int64 (a == MaxInt64 with '<' ...): parse must not yield a satisfiable range
	overflowCond bool
}

func (g *vc26Gen) feat(f string) { g.feats[f] = true }

// sp <- ( ' ' / '\t' / '\n' )*
func (g *vc26Gen) sp() string {
	if g.noWS {
		return ""
	}
	s := rapid.SampledFrom([]string{"", "", "", "", " ", " ", "  ", "\t", "\n", " \n\t "}).Draw(g.t, "sp")
	if s != "" && s != " " {
		g.feat("ws:odd")
	}
	return s
}

func (g *vc26Gen) comma() string { return g.sp() + "," + g.sp() }

var vc26Letters = "abcdefghijklmnopqrstuvwxyzABCDEFGHIJKLMNOPQRSTUVWXYZ"

// fieldExpr <- [[A-Z]] ( [[A-Z]] / [0-9] / '_' / '-' )*
func (g *vc26Gen) fieldExpr() string {
	if rapid.IntRange(0, 9).Draw(g.t, "fpool") < 7 {
		return rapid.SampledFrom([]string{"f", "g", "h", "n", "x", "field-1", "a_b", "X", "Zz9", "from", "to", "ids", "null", "true", "Set", "Row", "stargazer", "f_-"}).Draw(g.t, "fname")
	}
	n := rapid.IntRange(0, 6).Draw(g.t, "flen")
	b := []byte{vc26Letters[rapid.IntRange(0, len(vc26Letters)-1).Draw(g.t, "f0")]}
	rest := vc26Letters + "0123456789_-"
	for i := 0; i < n; i++ {
		b = append(b, rest[rapid.IntRange(0, len(rest)-1).Draw(g.t, "fi")])
	}
	return string(b)
}

// IDENT <- [[A-Z]] ([[A-Z]] / [0-9])*
func (g *vc26Gen) ident() string {
	if rapid.IntRange(0, 9).Draw(g.t, "ipool") < 8 {
		return rapid.SampledFrom([]string{"Row", "Union", "Intersect", "Difference", "Xor", "Not", "Count", "Sum", "Min", "Max",
			"GroupBy", "Options", "Shift", "MinRow", "MaxRow", "Foo", "x", "Settle", "TopNx", "Rowss", "Clearx", "R2d2"}).Draw(g.t, "iname")
	}
	n := rapid.IntRange(0, 5).Draw(g.t, "ilen")
	b := []byte{vc26Letters[rapid.IntRange(0, len(vc26Letters)-1).Draw(g.t, "i0")]}
	rest := vc26Letters + "0123456789"
	for i := 0; i < n; i++ {
		b = append(b, rest[rapid.IntRange(0, len(rest)-1).Draw(g.t, "ii")])
	}
	return string(b)
}

// an argument name not yet used in this call (a second use is a "duplicate argument" error by design)
func (g *vc26Gen) freshField(used map[string]bool, reservedOK bool) string {
	for i := 0; i < 30; i++ {
		var f string
		if reservedOK && rapid.IntRange(0, 11).Draw(g.t, "resv") == 0 {
			// reserved <- '_row' / '_col' / '_start' / '_end' / '_timestamp' / '_field'
			f = rapid.SampledFrom([]string{"_row", "_col", "_start", "_end", "_timestamp", "_field"}).Draw(g.t, "rname")
			g.feat("field:reserved")
		} else {
			f = g.fieldExpr()
		}
		if !used[f] {
			used[f] = true
			return f
		}
	}
	for i := 0; ; i++ {
		f := fmt.Sprintf("q%d", i)
		if !used[f] {
			used[f] = true
			return f
		}
	}
}

// ---- strings

func (g *vc26Gen) anyString() string {
	switch rapid.IntRange(0, 9).Draw(g.t, "skind") {
	case 0:
		return ""
	case 1, 2:
		return rapid.SampledFrom([]string{"a", "abc", "hello world", "x-1", "k:1", "it's", `say "hi"`, `back\slash`, "line1\nline2", "tab\there",
			"é", "ünï", "é1", "日本語", "😀", "a😀b", " ", " ", "\x00", "\x7f", "�", "null", "true", "2017-01-01T00:00", "1", "-5", "1.5"}).Draw(g.t, "spool")
	case 3, 4, 5:
		return rapid.String().Draw(g.t, "sany")
	case 6:
		return rapid.StringOfN(rapid.RuneFrom([]rune{'a', 'é', 'ü', '"', '\'', '\\', '\n', ' ', '日', '😀', 0, 'z'}), 0, 12, -1).Draw(g.t, "smix")
	case 7:
		// arbitrary bytes (not necessarily UTF-8): expressible through escapes only
		return string(rapid.SliceOfN(rapid.Byte(), 0, 8).Draw(g.t, "sbytes"))
	default:
		return rapid.StringMatching(`[a-z][a-z0-9_:-]{0,8}`).Draw(g.t, "sword")
	}
}

func vc26IsTimestamp(s string) bool {
	// timestampbasicfmt <- [0-9][0-9][0-9][0-9]'-'[01][0-9]'-'[0-3][0-9]'T'[0-9][0-9]':'[0-9][0-9]
	if len(s) != 16 {
		return false
	}
	for i := 0; i < 16; i++ {
		c := s[i]
		switch i {
		case 4, 7:
			if c != '-' {
				return false
			}
		case 10:
			if c != 'T' {
				return false
			}
		case 13:
			if c != ':' {
				return false
			}
		case 5:
			if c != '0' && c != '1' {
				return false
			}
		case 8:
			if c < '0' || c > '3' {
				return false
			}
		default:
			if c < '0' || c > '9' {
				return false
			}
		}
	}
	return true
}

// can s be written as a bare word and mean the string s?
// item alternative: < ([[A-Z]] / [0-9] / '-' / '_' / ':')+ >, tried after null/true/false, timestamps, numbers and calls.
func vc26BareOK(s string) bool {
	if s == "" || s == "null" || s == "true" || s == "false" {
		return false
	}
	for i := 0; i < len(s); i++ {
		c := s[i]
		if !(c >= 'a' && c <= 'z' || c >= 'A' && c <= 'Z' || c >= '0' && c <= '9' || c == '-' || c == '_' || c == ':') {
			return false
		}
	}
	// a leading number (or timestamp) would be consumed by an earlier alternative
	if s[0] >= '0' && s[0] <= '9' {
		return false
	}
	if s[0] == '-' && len(s) > 1 && s[1] >= '0' && s[1] <= '9' {
		return false
	}
	return true
}

func vc26HasEscape(q string) bool { return strings.Contains(q, `\`) }

func vc26NonASCII(s string) bool {
	for i := 0; i < len(s); i++ {
		if s[i] >= 0x80 {
			return true
		}
	}
	return false
}

// renders string value s as an `item`; every form must mean exactly s.
func (g *vc26Gen) strItem(s string) string {
	var forms []string
	forms = append(forms, "quote", "quote")
	valid := utf8.ValidString(s)
	if valid {
		forms = append(forms, "quoteascii")
		// the text between the quotes, written as it is (a raw newline is in the grammar: [^"])
		if !strings.ContainsAny(s, "\"\\") {
			if !strings.Contains(s, "\n") {
				forms = append(forms, "dqraw")
			} else if !vkit.Open("DP5") {
				forms = append(forms, "dqraw", "dqraw")
				g.feat("str:rawnewline")
			} else {
				vkit.Excluded("DP5")
			}
		}
		if !strings.ContainsAny(s, "'\\") {
			forms = append(forms, "sq", "sq")
		}
	}
	if vc26BareOK(s) {
		forms = append(forms, "bare", "bare")
	}
	if vc26IsTimestamp(s) {
		forms = append(forms, "tsbare")
	}
	form := rapid.SampledFrom(forms).Draw(g.t, "sform")
	if vc26NonASCII(s) {
		g.feat("str:nonascii")
	}
	var out string
	switch form {
	case "quote":
		out = strconv.Quote(s)
	case "quoteascii":
		out = strconv.QuoteToASCII(s)
	case "dqraw":
		out = `"` + s + `"`
	case "sq":
		out = "'" + s + "'"
	case "bare", "tsbare":
		out = s
	}
	g.feat("str:" + form)
	if (form == "quote" || form == "quoteascii") && vc26HasEscape(out) {
		g.feat("str:escape")
	}
	if vc26IsTimestamp(s) {
		g.feat("val:timestamp")
	}
	return out
}

// ---- numbers

// an integer literal for `item`: '-'? [0-9]+
func (g *vc26Gen) intItem() (interface{}, string) {
	k := rapid.IntRange(0, 19).Draw(g.t, "ikind")
	if k == 2 && rapid.IntRange(0, 3).Draw(g.t, "ioorgate") != 0 {
		k = 5
	}
	var txt string
	switch {
	case k == 0:
		txt = "9223372036854775807"
		g.feat("int:edge")
	case k == 1:
		txt = "-9223372036854775808"
		g.feat("int:edge")
	case k == 2 && g.wantErr == "":
		txt = rapid.SampledFrom([]string{"9223372036854775808", "-9223372036854775809", "18446744073709551615", "99999999999999999999", "-18446744073709551616"}).Draw(g.t, "ioor")
		g.wantErr = "range"
		g.feat("int:outofrange")
	case k <= 8:
		txt = strconv.FormatInt(int64(rapid.IntRange(-3, 20).Draw(g.t, "ismall")), 10)
	case k <= 10:
		txt = strconv.FormatInt(rapid.Int64().Draw(g.t, "i64"), 10)
	case k == 11:
		txt = strconv.FormatInt(rapid.SampledFrom([]int64{1 << 32, 1<<32 - 1, -(1 << 31), 1 << 53, 1<<63 - 2, -(1 << 62)}).Draw(g.t, "ipow"), 10)
	case k >= 12 && k <= 14:
		// other spellings of the same number: leading zeros and -0 are in the grammar ('-'? [0-9]+) and the value is
		// the DECIMAL reading (010 is ten, 08 is eight)
		digits := rapid.SampledFrom([]string{"0", "7", "8", "9", "10", "17", "20", "64", "77", "88", "99", "100", "777", "1000", "4096", "9223372036854775807"}).Draw(g.t, "izdigits")
		if rapid.IntRange(0, 3).Draw(g.t, "izrand") == 0 {
			digits = strconv.Itoa(rapid.IntRange(0, 99999).Draw(g.t, "izany"))
		}
		zeros := rapid.SampledFrom([]string{"0", "0", "00", "000", "00000000000000000000"}).Draw(g.t, "izeros")
		sign := rapid.SampledFrom([]string{"", "", "-"}).Draw(g.t, "izsign")
		txt = sign + zeros + digits
		g.feat("int:leadingzero")
	case k == 15 && !g.syntaxErr && rapid.IntRange(0, 2).Draw(g.t, "isyn") == 0:
		// literals of other languages are not PQL: the number rule stops after the digits and nothing may follow a value
		txt = rapid.SampledFrom([]string{"0x10", "0X1F", "0b1", "0o7", "1_000", "1e5", "0x", "-0x8", "1.5e3", "0_1", "1__0", "0b", "10x"}).Draw(g.t, "isyntax")
		g.syntaxErr = true
		g.feat("int:foreign-literal")
		return nil, txt
	default:
		txt = strconv.FormatUint(uint64(rapid.IntRange(0, 1000000).Draw(g.t, "imed")), 10)
	}
	v, err := strconv.ParseInt(txt, 10, 64)
	if err != nil {
		if k == 2 && g.wantErr == "range" {
			return nil, txt
		}
		g.t.Fatalf("generator bug: %q: %v", txt, err)
	}
	return v, txt
}

// a decimal literal: '-'? [0-9]+ '.' [0-9]*   or   '-'? '.' [0-9]+
func (g *vc26Gen) floatItem() (interface{}, string) {
	neg := rapid.SampledFrom([]string{"", "", "-"}).Draw(g.t, "fneg")
	ip := rapid.SampledFrom([]string{"0", "1", "12", "007", "010", "08", "01", "00", "1000000000000000000000", "9223372036854775808", "123456789"}).Draw(g.t, "fint")
	fp := rapid.SampledFrom([]string{"", "0", "5", "25", "50", "000", "125", "1", "3333333333333333333", "0000001", "010"}).Draw(g.t, "ffrac")
	var txt string
	if rapid.IntRange(0, 4).Draw(g.t, "fdot") == 0 && fp != "" {
		txt = neg + "." + fp
		g.feat("float:leadingdot")
	} else {
		txt = neg + ip + "." + fp
		if fp == "" {
			g.feat("float:trailingdot")
		}
	}
	// the value of a decimal literal is defined by IEEE round-to-nearest, which strconv implements (trusted)
	v, err := strconv.ParseFloat(txt, 64)
	if err != nil {
		g.t.Fatalf("generator bug: %q: %v", txt, err)
	}
	g.feat("val:float")
	return v, txt
}

func (g *vc26Gen) timestampText() string {
	return rapid.SampledFrom([]string{"2017-01-01T00:00", "2010-07-08T14:44", "1999-12-31T23:59", "0000-00-00T00:00", "9999-19-39T99:99", "2018-02-28T13:05"}).Draw(g.t, "ts")
}

// timestampfmt <- '"' <timestampbasicfmt> '"' / '\” <timestampbasicfmt> '\” / <timestampbasicfmt>
func (g *vc26Gen) timestampFmt(ts string) string {
	q := rapid.SampledFrom([]string{"", "", "\"", "'"}).Draw(g.t, "tsq")
	if q != "" {
		g.feat("ts:quoted")
	}
	return q + ts + q
}

// ---- values

const (
	vc26PosPlain    = iota // followed by comma or sp close
	vc26PosListMid         // followed by comma
	vc26PosListLast        // followed by rbrack
)

// item (one alternative of the `item` rule). inCondList: the item is an element of a list that is a condition's value.
func (g *vc26Gen) item(depth int, pos int, inCondList bool) (interface{}, string) {
	for {
		k := rapid.IntRange(0, 15).Draw(g.t, "vkind")
		switch {
		case k <= 3:
			return g.intItem()
		case k <= 5:
			return g.floatItem()
		case k <= 9:
			if inCondList && vkit.Open("DP6") {
				vkit.Excluded("DP6")
				continue
			}
			s := g.anyString()
			return s, g.strItem(s)
		case k == 10:
			if inCondList && vkit.Open("DP6") {
				vkit.Excluded("DP6")
				continue
			}
			ts := g.timestampText()
			g.feat("val:timestamp")
			return ts, g.timestampFmt(ts)
		case k <= 13:
			// 'null' / 'true' / 'false'
			if inCondList && vkit.Open("DP6") {
				vkit.Excluded("DP6")
				continue
			}
			if pos == vc26PosListLast && vkit.Open("DP2") {
				vkit.Excluded("DP2")
				continue
			}
			w := rapid.SampledFrom([]string{"null", "true", "false"}).Draw(g.t, "kw")
			g.feat("val:" + w)
			if pos != vc26PosPlain {
				g.feat("val:keyword-in-list")
			}
			switch w {
			case "null":
				return nil, w
			case "true":
				return true, w
			default:
				return false, w
			}
		default:
			if depth <= 0 {
				continue
			}
			if inCondList && vkit.Open("DP6") {
				vkit.Excluded("DP6")
				continue
			}
			// < IDENT > open allargs comma? close   (generic call form only)
			c, txt := g.call(depth-1, true)
			g.feat("val:call")
			return c, txt
		}
	}
}

// value <- item / lbrack list rbrack ; list <- item (comma list)?
func (g *vc26Gen) value(depth int, inCond bool) (interface{}, string) {
	if rapid.IntRange(0, 4).Draw(g.t, "islist") != 0 {
		return g.item(depth, vc26PosPlain, false)
	}
	n := rapid.IntRange(1, 4).Draw(g.t, "listn")
	lst := make([]interface{}, 0, n)
	var sb strings.Builder
	sb.WriteString("[" + g.sp())
	for i := 0; i < n; i++ {
		pos := vc26PosListMid
		if i == n-1 {
			pos = vc26PosListLast
		}
		v, txt := g.item(depth, pos, inCond)
		lst = append(lst, v)
		if i > 0 {
			sb.WriteString(g.comma())
		}
		sb.WriteString(txt)
	}
	sb.WriteString(g.sp() + "]" + g.sp())
	g.feat("val:list")
	return lst, sb.String()
}

var vc26Ops = []struct {
	txt string
	op  Token
}{{"><", BETWEEN}, {"<=", LTE}, {">=", GTE}, {"==", EQ}, {"!=", NEQ}, {"<", LT}, {">", GT}}

// condint <- <'-'? [1-9] [0-9]* / '0'>
func (g *vc26Gen) condInt() int64 {
	switch rapid.IntRange(0, 24).Draw(g.t, "cikind") {
	case 0:
		return math.MaxInt64
	case 1:
		return math.MinInt64
	case 2:
		return rapid.Int64().Draw(g.t, "ci64")
	case 3:
		return rapid.SampledFrom([]int64{math.MaxInt64 - 1, math.MinInt64 + 1, 0}).Draw(g.t, "ciedge")
	default:
		return int64(rapid.IntRange(-20, 100).Draw(g.t, "cismall"))
	}
}

// arg <- field sp '=' sp value / field sp COND sp value / conditional
// Adds the argument to c.Args and returns its text.
func (g *vc26Gen) arg(c *Call, used map[string]bool, depth int, reservedOK bool) string {
	if c.Args == nil {
		c.Args = map[string]interface{}{}
	}
	k := rapid.IntRange(0, 9).Draw(g.t, "akind")
	switch {
	case k <= 5:
		f := g.freshField(used, reservedOK)
		v, txt := g.value(depth, false)
		c.Args[f] = v
		return f + g.sp() + "=" + g.sp() + txt
	case k <= 7:
		f := g.freshField(used, reservedOK)
		op := vc26Ops[rapid.IntRange(0, len(vc26Ops)-1).Draw(g.t, "op")]
		v, txt := g.value(depth, true)
		c.Args[f] = &Condition{Op: op.op, Value: v}
		g.feat("cond:" + op.txt)
		return f + g.sp() + op.txt + g.sp() + txt
	default:
		// conditional <- condint condLT condfield condLT condint    (condfield is a fieldExpr, not a reserved name)
		f := g.freshField(used, false)
		lo, hi := g.condInt(), g.condInt()
		op1 := rapid.SampledFrom([]string{"<", "<="}).Draw(g.t, "clt1")
		op2 := rapid.SampledFrom([]string{"<", "<="}).Draw(g.t, "clt2")
		overflow := (op1 == "<" && lo == math.MaxInt64) || (op2 == "<" && hi == math.MinInt64)
		if overflow && vkit.Open("DP3") {
			vkit.Excluded("DP3")
			op1, op2 = "<=", "<="
			overflow = false
		}
		elo, ehi := lo, hi
		if op1 == "<" {
			elo++
		}
		if op2 == "<" {
			ehi--
		}
		if overflow {
			g.overflowCond = true
			g.feat("conditional:overflow")
			c.Args[f] = &Condition{Op: BETWEEN, Value: "overflow"} // placeholder, see vc26EqCall
		} else {
			c.Args[f] = &Condition{Op: BETWEEN, Value: []interface{}{elo, ehi}}
		}
		g.feat("conditional:" + op1 + op2)
		if lo == math.MaxInt64 || lo == math.MinInt64 || hi == math.MaxInt64 || hi == math.MinInt64 {
			g.feat("conditional:edge")
		}
		lotxt := strconv.FormatInt(lo, 10)
		if g.wantErr == "" && !vkit.Open("DP3") && rapid.IntRange(0, 80).Draw(g.t, "cioor") == 0 {
			lotxt = rapid.SampledFrom([]string{"9223372036854775808", "-9223372036854775809", "99999999999999999999"}).Draw(g.t, "cioortxt")
			g.wantErr = "range"
			g.feat("int:outofrange")
		}
		if !g.syntaxErr && rapid.IntRange(0, 250).Draw(g.t, "cizero") == 0 {
			// condint <- '-'? [1-9] [0-9]* / '0': no leading zeros, no -0
			lotxt = rapid.SampledFrom([]string{"010", "00", "-0", "-07", "0x1", "08"}).Draw(g.t, "cizerotxt")
			g.syntaxErr = true
			g.feat("conditional:leadingzero-rejected")
		}
		hitxt := strconv.FormatInt(hi, 10)
		if g.wantErr == "" && !vkit.Open("DP3") && rapid.IntRange(0, 80).Draw(g.t, "cioorhi") == 0 {
			hitxt = rapid.SampledFrom([]string{"9223372036854775808", "-9223372036854775809", "99999999999999999999"}).Draw(g.t, "cioorhitxt")
			g.wantErr = "range"
			g.feat("int:outofrange")
		}
		if overflow && op1 == "<" && lo == math.MaxInt64 {
			g.feat("conditional:strict-lo-max")
		}
		if overflow && op2 == "<" && hi == math.MinInt64 {
			g.feat("conditional:strict-hi-min")
		}
		return lotxt + g.sp() + op1 + g.sp() + f + g.sp() + op2 + g.sp() + hitxt + g.sp()
	}
}

// args <- arg (comma args)? sp
func (g *vc26Gen) args(c *Call, used map[string]bool, depth, min, max int, reservedOK bool) string {
	n := rapid.IntRange(min, max).Draw(g.t, "nargs")
	if n == 0 {
		return ""
	}
	parts := make([]string, 0, n)
	for i := 0; i < n; i++ {
		parts = append(parts, g.arg(c, used, depth, reservedOK))
	}
	out := parts[0]
	for _, p := range parts[1:] {
		out += g.comma() + p
	}
	// a duplicate argument is rejected by design ("duplicate argument provided")
	if g.wantErr == "" && rapid.IntRange(0, 200).Draw(g.t, "dup") == 0 {
		keys := make([]string, 0, len(c.Args))
		for k, v := range c.Args {
			if _, isCond := v.(*Condition); !isCond && !strings.HasPrefix(k, "_") {
				keys = append(keys, k)
			}
		}
		sort.Strings(keys)
		if len(keys) > 0 {
			k := rapid.SampledFrom(keys).Draw(g.t, "dupkey")
			out += g.comma() + k + "=" + "1"
			g.wantErr = "dup"
			g.feat("dup")
		}
	}
	return out + g.sp()
}

// col / row <- <uint> / '\” <singlequotedstring> '\” / '"' <doublequotedstring> '"'
func (g *vc26Gen) colOrRow() (interface{}, string) {
	switch rapid.IntRange(0, 5).Draw(g.t, "ckind") {
	case 0, 1, 2:
		// uint <- [1-9] [0-9]* / '0'
		k := rapid.IntRange(0, 12).Draw(g.t, "ukind")
		if k == 1 && rapid.IntRange(0, 3).Draw(g.t, "uoorgate") != 0 {
			k = 5
		}
		switch {
		case k == 0:
			g.feat("int:edge")
			return int64(math.MaxInt64), "9223372036854775807"
		case k == 1 && g.wantErr == "":
			g.wantErr = "range"
			g.feat("int:outofrange")
			return nil, rapid.SampledFrom([]string{"9223372036854775808", "18446744073709551615", "18446744073709551616"}).Draw(g.t, "uoor")
		case k == 2 && !g.syntaxErr && rapid.IntRange(0, 2).Draw(g.t, "uzero") == 0:
			// uint <- [1-9] [0-9]* / '0': a positional id has exactly one spelling
			g.syntaxErr = true
			g.feat("pos:leadingzero-rejected")
			return nil, rapid.SampledFrom([]string{"010", "00", "007", "08", "0x10", "-1", "1_0", "+1"}).Draw(g.t, "uzerotxt")
		case k <= 3:
			v := rapid.Int64Range(0, math.MaxInt64).Draw(g.t, "u64")
			return v, strconv.FormatInt(v, 10)
		default:
			v := int64(rapid.IntRange(0, 3000000).Draw(g.t, "usmall"))
			return v, strconv.FormatInt(v, 10)
		}
	default:
		s := g.anyString()
		g.feat("pos:string")
		if vc26NonASCII(s) {
			g.feat("str:nonascii")
		}
		valid := utf8.ValidString(s)
		if valid && !strings.ContainsAny(s, "'\\") && rapid.Bool().Draw(g.t, "csq") {
			return s, "'" + s + "'"
		}
		if valid && !strings.ContainsAny(s, "\"\\") && (!strings.Contains(s, "\n") || !vkit.Open("DP4")) {
			return s, `"` + s + `"`
		}
		if vkit.Open("DP4") {
			vkit.Excluded("DP4")
			return "k", `"k"`
		}
		q := strconv.Quote(s)
		g.feat("pos:escaped")
		return s, q
	}
}

// posfield <- <fieldExpr>
func (g *vc26Gen) posfield() string { return g.fieldExpr() }

// Call. valueCall: the call is an argument value, for which only the generic form exists in the grammar.
func (g *vc26Gen) call(depth int, valueCall bool) (*Call, string) {
	kind := "generic"
	if !valueCall {
		kind = rapid.SampledFrom([]string{"generic", "generic", "generic", "generic", "generic", "Set", "Set", "SetRowAttrs", "SetColumnAttrs",
			"Clear", "ClearRow", "Store", "TopN", "Rows", "Range", "specialname"}).Draw(g.t, "ckind")
	}
	g.feat("call:" + kind)
	used := map[string]bool{}
	switch kind {
	case "Set", "Clear", "SetColumnAttrs":
		// 'Set' open col comma args (comma timestamp)? close
		c := &Call{Name: kind, Args: map[string]interface{}{}}
		cv, ctxt := g.colOrRow()
		c.Args["_col"] = cv
		used["_col"], used["_timestamp"] = true, true
		txt := kind + "(" + g.sp() + ctxt + g.comma() + g.args(c, used, depth, 1, 3, false)
		if kind == "Set" && rapid.Bool().Draw(g.t, "hasts") {
			ts := g.timestampText()
			q := ""
			if !vkit.Open("DP1") {
				q = rapid.SampledFrom([]string{"", "", "\"", "'"}).Draw(g.t, "tsq")
			} else {
				vkit.Excluded("DP1")
			}
			if q != "" {
				g.feat("ts:quoted")
			}
			c.Args["_timestamp"] = ts
			txt += g.comma() + q + ts + q // no sp between the timestamp and ')'
			g.feat("set:timestamp")
		}
		return c, txt + ")" + g.sp()
	case "SetRowAttrs":
		// 'SetRowAttrs' open posfield comma row comma args close
		c := &Call{Name: kind, Args: map[string]interface{}{}}
		pf := g.posfield()
		rv, rtxt := g.colOrRow()
		c.Args["_field"], c.Args["_row"] = pf, rv
		used["_field"], used["_row"] = true, true
		txt := kind + "(" + g.sp() + pf + g.comma() + rtxt + g.comma() + g.args(c, used, depth, 1, 4, false)
		return c, txt + ")" + g.sp()
	case "ClearRow":
		// 'ClearRow' open arg close
		c := &Call{Name: kind}
		txt := kind + "(" + g.sp() + g.arg(c, used, depth, true) + g.sp()
		return c, txt + ")" + g.sp()
	case "Store":
		// 'Store' open Call comma arg close
		c := &Call{Name: kind}
		ch, chtxt := g.call(depth-1, false)
		c.Children = []*Call{ch}
		txt := kind + "(" + g.sp() + chtxt + g.comma() + g.arg(c, used, depth, true) + g.sp()
		return c, txt + ")" + g.sp()
	case "TopN", "Rows":
		// 'TopN' open posfield (comma allargs)? close
		c := &Call{Name: kind, Args: map[string]interface{}{}}
		pf := g.posfield()
		c.Args["_field"] = pf
		used["_field"] = true
		txt := kind + "(" + g.sp() + pf
		if rapid.IntRange(0, 3).Draw(g.t, "hasall") != 0 {
			all := g.allargs(c, used, depth, false)
			txt += g.comma() + all
		}
		return c, txt + ")" + g.sp()
	case "Range":
		// 'Range' open field sp '=' sp value comma 'from='? timestampfmt comma 'to='? sp timestampfmt close
		c := &Call{Name: kind, Args: map[string]interface{}{}}
		used["from"], used["to"] = true, true
		f := g.freshField(used, true)
		v, vtxt := g.value(depth, false)
		c.Args[f] = v
		t1, t2 := g.timestampText(), g.timestampText()
		c.Args["from"], c.Args["to"] = t1, t2
		kw := rapid.Bool().Draw(g.t, "rangekw")
		txt := kind + "(" + g.sp() + f + g.sp() + "=" + g.sp() + vtxt + g.comma()
		if kw {
			txt += "from=" + g.timestampFmt(t1) + g.comma() + "to=" + g.sp() + g.timestampFmt(t2)
		} else {
			txt += g.timestampFmt(t1) + g.comma() + g.sp() + g.timestampFmt(t2)
			g.feat("range:positional")
		}
		return c, txt + ")" + g.sp()
	case "specialname":
		// the special names in the generic form (this is the shape Call.String() produces for forwarding)
		name := rapid.SampledFrom([]string{"Set", "Clear", "SetRowAttrs", "SetColumnAttrs", "ClearRow", "Store", "TopN", "Rows", "Range"}).Draw(g.t, "spname")
		c := &Call{Name: name}
		txt := name + "(" + g.sp() + g.allargsKW(c, used, depth) + ")" + g.sp()
		return c, txt
	default:
		// < IDENT > open allargs comma? close
		c := &Call{Name: g.ident()}
		switch c.Name {
		case "Set", "SetRowAttrs", "SetColumnAttrs", "Clear", "ClearRow", "Store", "TopN", "Rows", "Range":
			c.Name += "x"
		}
		txt := c.Name + "(" + g.sp() + g.allargs(c, used, depth, true)
		if rapid.IntRange(0, 7).Draw(g.t, "trail") == 0 {
			txt += "," + g.sp()
			g.feat("trailingcomma")
		}
		return c, txt + ")" + g.sp()
	}
}

// keyword arguments only, the first being a reserved name or a plain field: no special alternative can match it
func (g *vc26Gen) allargsKW(c *Call, used map[string]bool, depth int) string {
	c.Args = map[string]interface{}{}
	f := rapid.SampledFrom([]string{"_col", "_field", "_row", "_timestamp"}).Draw(g.t, "kwfirst")
	used[f] = true
	v, vtxt := g.item(0, vc26PosPlain, false)
	c.Args[f] = v
	txt := f + g.sp() + "=" + g.sp() + vtxt
	if rapid.Bool().Draw(g.t, "kwmore") {
		txt += g.comma() + g.args(c, used, depth, 1, 3, true)
	} else {
		txt += g.sp()
	}
	return txt
}

// allargs <- Call (comma Call)* (comma args)? / args / sp
func (g *vc26Gen) allargs(c *Call, used map[string]bool, depth int, reservedOK bool) string {
	nch := 0
	if depth > 0 {
		nch = rapid.SampledFrom([]int{0, 0, 1, 1, 2, 3}).Draw(g.t, "nchildren")
	}
	var parts []string
	for i := 0; i < nch; i++ {
		ch, txt := g.call(depth-1, false)
		c.Children = append(c.Children, ch)
		parts = append(parts, txt)
	}
	if nch > 0 {
		g.feat("children")
	}
	out := strings.Join(parts, ",")
	if nch > 1 {
		out = parts[0]
		for _, p := range parts[1:] {
			out += g.comma() + p
		}
	}
	min := 0
	a := g.args(c, used, depth, min, 4, reservedOK)
	if a != "" {
		if nch > 0 {
			out += g.comma()
		}
		out += a
	} else if nch == 0 {
		out += g.sp()
		g.feat("noargs")
	}
	return out
}

// Calls <- sp (Call sp)* !.
func (g *vc26Gen) query(maxCalls, depth int) ([]*Call, string) {
	n := rapid.SampledFrom([]int{1, 1, 1, 1, 2, 3, 0}).Draw(g.t, "ncalls")
	if n > maxCalls {
		n = maxCalls
	}
	txt := g.sp()
	var calls []*Call
	for i := 0; i < n; i++ {
		c, t := g.call(depth, false)
		calls = append(calls, c)
		txt += t + g.sp()
	}
	return calls, txt
}

// ---- comparison

func vc26Dump(c *Call) string {
	if c == nil {
		return "<nil call>"
	}
	var sb strings.Builder
	sb.WriteString(c.Name + "{")
	keys := make([]string, 0, len(c.Args))
	for k := range c.Args {
		keys = append(keys, k)
	}
	sort.Strings(keys)
	for _, k := range keys {
		sb.WriteString(k + ":" + vc26DumpVal(c.Args[k]) + " ")
	}
	for _, ch := range c.Children {
		sb.WriteString("child:" + vc26Dump(ch) + " ")
	}
	sb.WriteString("}")
	return sb.String()
}

func vc26DumpVal(v interface{}) string {
	switch v := v.(type) {
	case *Call:
		return vc26Dump(v)
	case *Condition:
		if v == nil {
			return "<nil cond>"
		}
		return fmt.Sprintf("cond(%s %s)", v.Op, vc26DumpVal(v.Value))
	case []interface{}:
		s := "["
		for _, e := range v {
			s += vc26DumpVal(e) + ","
		}
		return s + "]"
	case string:
		return fmt.Sprintf("string(%q)", v)
	case float64:
		return fmt.Sprintf("float64(%s)", strconv.FormatFloat(v, 'g', -1, 64))
	default:
		return fmt.Sprintf("%T(%v)", v, v)
	}
}

func vc26AsInt(v interface{}) (neg bool, mag uint64, ok bool) {
	switch v := v.(type) {
	case int64:
		if v < 0 {
			return true, uint64(-(v + 1)) + 1, true
		}
		return false, uint64(v), true
	case uint64:
		return false, v, true
	}
	return false, 0, false
}

func vc26AsIntList(v interface{}) ([]interface{}, bool) {
	switch v := v.(type) {
	case []int64:
		out := make([]interface{}, len(v))
		for i := range v {
			out[i] = v[i]
		}
		return out, true
	case []uint64:
		out := make([]interface{}, len(v))
		for i := range v {
			out[i] = v[i]
		}
		return out, true
	case []interface{}:
		return v, true
	}
	return nil, false
}

// vc26EqVal compares want (expected) with got in type and value. identInts: int64/uint64 of equal value
// (and []int64 / []uint64 / lists of such) are identified, as every consumer reads them through
// UintArg/IntArg/UintSliceArg/validateCallArgs.
func vc26EqVal(want, got interface{}, identInts bool, path string) error {
	mismatch := func() error {
		return fmt.Errorf("%s: want %s, got %s", path, vc26DumpVal(want), vc26DumpVal(got))
	}
	switch w := want.(type) {
	case nil:
		if got != nil {
			return mismatch()
		}
	case bool:
		if g, ok := got.(bool); !ok || g != w {
			return mismatch()
		}
	case string:
		if g, ok := got.(string); !ok || g != w {
			return mismatch()
		}
	case int64, uint64:
		if identInts {
			n1, m1, _ := vc26AsInt(want)
			n2, m2, ok := vc26AsInt(got)
			if !ok || n1 != n2 || m1 != m2 {
				return mismatch()
			}
		} else if want != got { // interface comparison: same dynamic type and value
			return mismatch()
		}
	case float64:
		if g, ok := got.(float64); !ok || math.Float64bits(g) != math.Float64bits(w) {
			return mismatch()
		}
	case []interface{}, []int64, []uint64:
		if !identInts {
			if _, ok := want.([]interface{}); !ok {
				return fmt.Errorf("%s: unexpected expected-value type %T", path, want)
			}
			if _, ok := got.([]interface{}); !ok {
				return mismatch()
			}
		}
		wl, _ := vc26AsIntList(want)
		gl, ok := vc26AsIntList(got)
		if !ok || len(wl) != len(gl) {
			return mismatch()
		}
		for i := range wl {
			if err := vc26EqVal(wl[i], gl[i], identInts, fmt.Sprintf("%s[%d]", path, i)); err != nil {
				return err
			}
		}
	case *Condition:
		g, ok := got.(*Condition)
		if !ok || g == nil || w == nil || g.Op != w.Op {
			return mismatch()
		}
		if w.Value == "overflow" && w.Op == BETWEEN {
			// `a < f < b` whose exclusive bound does not exist in int64: no value satisfies it
			l, ok := g.Value.([]interface{})
			if !ok || len(l) != 2 {
				return mismatch()
			}
			lo, ok1 := l[0].(int64)
			hi, ok2 := l[1].(int64)
			if !ok1 || !ok2 || lo <= hi {
				return fmt.Errorf("%s: unsatisfiable conditional was parsed as the satisfiable range %s", path, vc26DumpVal(got))
			}
			return nil
		}
		return vc26EqVal(w.Value, g.Value, identInts, path+".cond")
	case *Call:
		g, ok := got.(*Call)
		if !ok {
			return mismatch()
		}
		return vc26EqCall(w, g, identInts, path)
	default:
		return fmt.Errorf("%s: unexpected expected-value type %T", path, want)
	}
	return nil
}

func vc26EqCall(want, got *Call, identInts bool, path string) error {
	if want == nil || got == nil {
		if want != got {
			return fmt.Errorf("%s: want %s, got %s", path, vc26Dump(want), vc26Dump(got))
		}
		return nil
	}
	path += "/" + want.Name
	if want.Name != got.Name {
		return fmt.Errorf("%s: call name: want %q, got %q", path, want.Name, got.Name)
	}
	if len(want.Args) != len(got.Args) {
		return fmt.Errorf("%s: %d args wanted, got %d: want %s, got %s", path, len(want.Args), len(got.Args), vc26Dump(want), vc26Dump(got))
	}
	keys := make([]string, 0, len(want.Args))
	for k := range want.Args {
		keys = append(keys, k)
	}
	sort.Strings(keys)
	for _, k := range keys {
		gv, ok := got.Args[k]
		if !ok {
			return fmt.Errorf("%s: argument %q missing: want %s, got %s", path, k, vc26Dump(want), vc26Dump(got))
		}
		if err := vc26EqVal(want.Args[k], gv, identInts, path+"."+k); err != nil {
			return err
		}
	}
	if len(want.Children) != len(got.Children) {
		return fmt.Errorf("%s: %d children wanted, got %d: want %s, got %s", path, len(want.Children), len(got.Children), vc26Dump(want), vc26Dump(got))
	}
	for i := range want.Children {
		if err := vc26EqCall(want.Children[i], got.Children[i], identInts, fmt.Sprintf("%s#%d", path, i)); err != nil {
			return err
		}
	}
	return nil
}

func vc26EqCalls(want, got []*Call, identInts bool) error {
	if len(want) != len(got) {
		return fmt.Errorf("%d calls wanted, got %d", len(want), len(got))
	}
	for i := range want {
		if err := vc26EqCall(want[i], got[i], identInts, fmt.Sprintf("call%d", i)); err != nil {
			return err
		}
	}
	return nil
}
