package pql

// C26 — native fuzz target (thorough tier): for every text the parser accepts, String() of the parse must re-parse to
// the same calls; no panic; parse time bounded.

import (
	"strings"
	"testing"
	"time"
)

func FuzzVerifC26Parse(f *testing.F) {
	for _, s := range []string{
		"Row(f=1)", "Count(Row(f=1))", "Set(3, f=1)", `Set("k", f='r', 2017-01-01T00:00)`, "Union(Row(f=1), Row(f=2))", "TopN(f, Row(g=1), n=2, ids=[1,2])",
		`SetRowAttrs(f, 1, x=1.5, y="é", z=null, w=true, v=-.5, u=007)`, "Store(Row(f=1), f=7)", "ClearRow(f=7)", "Row(1 < f <= 5)", "Row(f >< [1,5])", "Row(f != null)",
		"Range(f=1, 2010-01-01T00:00, 2011-01-01T00:00)", "GroupBy(Rows(f), Rows(g), limit=2, filter=Row(h=1))", "Options(Row(f=1), shards=[0,1])", `Rows(f, previous="x")`,
		`Row(f="a\"b\\c\né\xff")`, "Row(f='it is')", "Row(f=a:b-c_d)", "Foo(a=[true,null,\"s\",1.0,x])", "Row(f == [\"a\", 1])", "Row(-9223372036854775808 <= f <= 9223372036854775807)",
		"SetColumnAttrs('k', a=Bar(Baz(), b=1),)", " \n\tRow( f = 1 )  Row(g=2)\n", `Set("日本", f="ünï")`,
	} {
		f.Add(s)
	}
	f.Fuzz(func(t *testing.T, text string) {
		if len(text) > 1<<16 {
			return
		}
		t0 := time.Now()
		q, err, pv := vc26Parse(text)
		if pv != nil {
			t.Fatalf("ParseString(%q) panicked: %v", text, pv)
		}
		if d := time.Since(t0); d > 20*time.Second {
			t.Fatalf("ParseString took %v on %d bytes: %q", d, len(text), text)
		}
		if err != nil {
			return
		}
		fwd := q.String()
		q2, err, pv := vc26Parse(fwd)
		if pv != nil {
			t.Fatalf("re-parsing %q (String() of the parse of %q) panicked: %v", fwd, text, pv)
		}
		if err != nil {
			t.Fatalf("String() of the parse of %q is %q which does not parse: %v", text, fwd, err)
		}
		if err := vc26EqCalls(q.Calls, q2.Calls, true); err != nil {
			t.Fatalf("String() of the parse of %q is %q which parses to a different call: %v", text, fwd, err)
		}
		if s2 := q2.String(); !strings.EqualFold(s2, fwd) && s2 != fwd {
			t.Fatalf("String() is not stable: %q then %q", fwd, s2)
		}
	})
}
