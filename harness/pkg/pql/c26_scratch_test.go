package pql

import (
	"fmt"
	"os"
	"bufio"
	"testing"
)

func TestVerifC26_Scratch(t *testing.T) {
	f, err := os.Open(os.Getenv("VSCRATCH"))
	if err != nil {
		t.Skip()
	}
	sc := bufio.NewScanner(f)
	for sc.Scan() {
		line := sc.Text()
		func() {
			defer func() {
				if r := recover(); r != nil {
					fmt.Printf("%-50q PANIC %v\n", line, r)
				}
			}()
			q, err := ParseString(line)
			if err != nil {
				fmt.Printf("%-50q ERR %v\n", line, firstLine(err.Error()))
				return
			}
			for _, c := range q.Calls {
				fmt.Printf("%-50q %s\n", line, vdump(c))
			}
		}()
	}
}
func firstLine(s string) string {
	if len(s) > 80 { return s[:80] }
	return s
}
func vdump(c *Call) string {
	s := c.Name + "{"
	for _, k := range c.keys() {
		s += fmt.Sprintf("%s:%T(%#v) ", k, c.Args[k], c.Args[k])
		if cd, ok := c.Args[k].(*Condition); ok {
			s += fmt.Sprintf("[%v %T %#v] ", cd.Op, cd.Value, cd.Value)
		}
		if cc, ok := c.Args[k].(*Call); ok {
			s += "<" + vdump(cc) + "> "
		}
	}
	for _, ch := range c.Children {
		s += " CHILD " + vdump(ch)
	}
	return s + "}"
}
