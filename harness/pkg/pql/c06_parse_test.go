package pql

// C06 — in-process companion for PQL text: arbitrary and token-mutated text into ParseString. The parser reports bad
// input found by its actions by panicking with one of three known messages, which parser.Parse turns into errors; any
// other panic is re-raised. Text must be "accepted or rejected with an error", so a panic that leaves ParseString is a
// failure here (in the server it would be a 500 with a stack trace, and a crash for any caller without recover), and so
// is a parse that does not finish (the request goroutine cannot be cancelled and pins a core).
//
// Panic sites of pql/ast.go and how the generator reaches them (kind "errorsite", class site:<name>):
//   endConditional: bound literal outside int64 (lower / upper)      site:cond-literal-lo, site:cond-literal-hi
//   endConditional: strict lower bound == MaxInt64                   site:cond-strict-lo-max
//   endConditional: strict upper bound == MinInt64                   site:cond-strict-hi-min
//   validateArgField: duplicate argument                             site:duplicate-arg
//   unquote: invalid escape in a double-quoted literal               site:invalid-string
//   addNumVal: integer / decimal literal outside the range           site:num-literal
// The remaining panics (conditional of wrong length, addField/addVal/addNumVal called out of order) guard invariants of
// the grammar and cannot be reached from text; the generator also emits the neighbouring representable limits
// (site:cond-limit-ok), which must parse.

import (
	"fmt"
	"strings"
	"testing"
	"time"

	"github.com/pilosa/pilosa/internal/vkit"
	"pgregory.net/rapid"
)

// generous: parses of these sizes take milliseconds
const vc06ParseLimit = 60 * time.Second

func vc06ParseBounded(text string) (err error, pv interface{}, finished bool) {
	type res struct {
		err error
		pv  interface{}
	}
	ch := make(chan res, 1)
	go func() {
		var r res
		defer func() {
			if p := recover(); p != nil {
				r.pv = p
			}
			ch <- r
		}()
		_, r.err = ParseString(text)
	}()
	select {
	case r := <-ch:
		return r.err, r.pv, true
	case <-time.After(vc06ParseLimit):
		return nil, nil, false
	}
}

var vc06Pool = []string{
	"Row(f=1)", "Count(Row(f=1))", "Set(3, f=1)", "Set(\"k\", f='r', 2017-01-01T00:00)", "Union(Row(f=1), Row(f=2))", "TopN(f, Row(g=1), n=2, ids=[1,2])",
	"SetRowAttrs(f, 1, x=1.5, y=\"é\", z=null)", "Store(Row(f=1), f=7)", "ClearRow(f=7)", "Row(1 < f <= 5)", "Row(f >< [1,5])", "Row(f != null)",
	"Range(f=1, 2010-01-01T00:00, 2011-01-01T00:00)", "Range(9223372036854775807 < f < 3)", "Row(-5 <= f < -9223372036854775808)", "Row(-9223372036854775808 < f < 9223372036854775807)", "GroupBy(Rows(f), Rows(g), limit=2, filter=Row(h=1))", "Options(Row(f=1), shards=[0,1])", "Rows(f, previous=\"x\")",
}

func TestVerifC06_ParseString(t *testing.T) {
	defer vkit.Flush()
	rapid.Check(t, func(t *rapid.T) {
		var text string
		kind := rapid.SampledFrom([]string{"mutated", "mutated", "mutated", "random", "nested", "nested-special", "grammar", "errorsite"}).Draw(t, "kind")
		site := ""
		mustReject := false
		switch kind {
		case "errorsite":
			text, site, mustReject = vc06ErrorSite(t)
		case "mutated":
			b := []byte(rapid.SampledFrom(vc06Pool).Draw(t, "base"))
			n := rapid.IntRange(1, 4).Draw(t, "nmut")
			for i := 0; i < n && len(b) > 0; i++ {
				pos := rapid.IntRange(0, len(b)-1).Draw(t, "pos")
				switch rapid.IntRange(0, 4).Draw(t, "mkind") {
				case 0:
					b = append(b[:pos:pos], b[pos+1:]...)
				case 1:
					tok := rapid.SampledFrom([]string{"(", ")", ",", "=", "[", "]", "\"", "'", "\x00", "99999999999999999999", "-", "null", "<", "><", " ", "\n", "é", "\xff", "\\", "Store(", "Set(", "9223372036854775807 < ", " < -9223372036854775808", "-9223372036854775808 <= ", " <= 9223372036854775807", "9223372036854775808"}).Draw(t, "tok")
					b = append(b[:pos:pos], append([]byte(tok), b[pos:]...)...)
				case 2:
					b[pos] = rapid.Byte().Draw(t, "byte")
				case 3:
					b = b[:pos]
				default:
					b = append(b, b[pos:]...)
				}
			}
			text = string(b)
		case "random":
			text = string(rapid.SliceOfN(rapid.Byte(), 0, 60).Draw(t, "bytes"))
		case "nested", "nested-special":
			names := []string{"Union", "Not", "x"}
			if kind == "nested-special" {
				// the call names with a dedicated grammar alternative: a failed alternative must not re-parse its contents at every level
				names = []string{"Store", "TopN", "Rows", "Set", "Clear", "ClearRow", "SetRowAttrs", "SetColumnAttrs", "Range"}
			}
			depth := rapid.SampledFrom([]int{5, 30, 60, 300}).Draw(t, "depth")
			name := rapid.SampledFrom(names).Draw(t, "name")
			inner := rapid.SampledFrom([]string{"Row(f=1)", "", "f", "f=1", "1, f=1"}).Draw(t, "inner")
			sep := rapid.SampledFrom([]string{"", "f, ", "f=", "1, f="}).Draw(t, "sep")
			text = strings.Repeat(name+"("+sep, depth) + inner
			switch rapid.IntRange(0, 2).Draw(t, "close") {
			case 0:
				text += strings.Repeat(")", depth)
			case 1:
				text += strings.Repeat(", g=2)", depth)
			}
		case "grammar":
			g := &vc26Gen{t: t, feats: map[string]bool{}}
			_, text = g.query(3, 3)
		}
		c := vkit.NewCase().Key(text)
		defer c.Done()
		c.Class("text:" + kind)
		if site != "" {
			c.Class("site:" + site)
		}
		sample := text
		if len(sample) > 200 {
			sample = sample[:200] + "..."
		}
		c.Sample(map[string]interface{}{"kind": kind, "text": sample, "len": len(text)})
		err, pv, finished := vc06ParseBounded(text)
		if !finished {
			t.Fatalf("ParseString did not finish within %v on %d bytes of text: %q", vc06ParseLimit, len(text), sample)
		}
		if pv != nil {
			t.Fatalf("ParseString panics (instead of returning an error) on %d bytes of text %q: %v", len(text), sample, pv)
		}
		if mustReject && err == nil {
			t.Fatalf("ParseString accepted %q, which holds a construct without a value (%s)", sample, site)
		}
		if site == "cond-limit-ok" && err != nil {
			t.Fatalf("ParseString rejected %q, whose bounds are representable: %v", sample, err)
		}
		switch {
		case err != nil:
			c.Class("rejected")
			c.NT(!strings.Contains(err.Error(), "line 1 symbol 1 "))
		default:
			c.Class("accepted")
			c.NT(true)
		}
	})
}

// DP13: nested Store() calls were parsed in time exponential in the depth.
func TestVerifWitness_DP13(t *testing.T) {
	text := strings.Repeat("Store(", 32) + "Row(f=1)" + strings.Repeat(")", 32)
	_, _, finished := vc06ParseBounded(text)
	if !finished {
		t.Fatalf("ParseString(%q) did not finish within %v (2^32 re-parses)", text, vc06ParseLimit)
	}
}

var _ = fmt.Sprint

// vc06ErrorSite builds a query that drives the parser into one of the panic sites of pql/ast.go that user text can
// reach (see the table at the top), in both strictness forms and at both int64 limits.
func vc06ErrorSite(t *rapid.T) (text, site string, mustReject bool) {
	call := rapid.SampledFrom([]string{"Row", "Range", "Count(Row", "Set(1, f=2, ", "TopN(f, Row"}).Draw(t, "sitecall")
	wrap := func(arg string) string {
		switch call {
		case "Count(Row":
			return "Count(Row(" + arg + "))"
		case "Set(1, f=2, ":
			return "Set(1, g=2, " + arg + ")"
		case "TopN(f, Row":
			return "TopN(f, Row(" + arg + "), n=1)"
		}
		return call + "(" + arg + ")"
	}
	sp := rapid.SampledFrom([]string{" ", "", "  "}).Draw(t, "sitesp")
	lt := func(label string) string { return rapid.SampledFrom([]string{"<", "<="}).Draw(t, label) }
	small := func(label string) string { return fmt.Sprint(rapid.IntRange(-9, 9).Draw(t, label)) }
	const max, min = "9223372036854775807", "-9223372036854775808"
	switch rapid.IntRange(0, 8).Draw(t, "site") {
	case 0:
		lo := rapid.SampledFrom([]string{"9223372036854775808", "-9223372036854775809", "99999999999999999999"}).Draw(t, "oor")
		return wrap(lo + sp + lt("l1") + sp + "f" + sp + lt("l2") + sp + small("hi")), "cond-literal-lo", true
	case 1:
		hi := rapid.SampledFrom([]string{"9223372036854775808", "-9223372036854775809", "99999999999999999999"}).Draw(t, "oor")
		return wrap(small("lo") + sp + lt("l1") + sp + "f" + sp + lt("l2") + sp + hi), "cond-literal-hi", true
	case 2:
		hi := rapid.SampledFrom([]string{"3", max, min, "-1"}).Draw(t, "hi")
		return wrap(max + sp + "<" + sp + "f" + sp + lt("l2") + sp + hi), "cond-strict-lo-max", true
	case 3:
		lo := rapid.SampledFrom([]string{"-5", max, min, "0"}).Draw(t, "lo")
		return wrap(lo + sp + lt("l1") + sp + "f" + sp + "<" + sp + min), "cond-strict-hi-min", true
	case 4:
		// the neighbouring limits are representable and must parse
		lo := rapid.SampledFrom([]string{max + sp + "<=", "9223372036854775806" + sp + "<", min + sp + "<", min + sp + "<="}).Draw(t, "oklo")
		hi := rapid.SampledFrom([]string{"<=" + sp + min, "<" + sp + "-9223372036854775807", "<" + sp + max, "<=" + sp + max}).Draw(t, "okhi")
		return wrap(lo + sp + "f" + sp + hi), "cond-limit-ok", false
	case 5:
		v := rapid.SampledFrom([]string{"1", `"a"`, "null", "[1,2]", "x"}).Draw(t, "dupv")
		return wrap("f=" + v + "," + sp + "g=1," + sp + "f=2"), "duplicate-arg", true
	case 6:
		lit := rapid.SampledFrom([]string{`"\q"`, `"a\'b"`, `"\x"`, `"\u12"`, `"\400"`, `"\ud800"`}).Draw(t, "badstr")
		if rapid.Bool().Draw(t, "badpos") && call == "Row" {
			return "Set(" + lit + ", f=1)", "invalid-string", true
		}
		return wrap("f=" + lit), "invalid-string", true
	default:
		lit := rapid.SampledFrom([]string{"9223372036854775808", "-9223372036854775809", "18446744073709551616", "1" + strings.Repeat("0", 400) + ".0", "-" + strings.Repeat("9", 330) + "."}).Draw(t, "numoor")
		if rapid.Bool().Draw(t, "numpos") && call == "Row" {
			return "Set(" + strings.TrimPrefix(lit, "-") + ", f=1)", "num-literal", true
		}
		return wrap("f " + rapid.SampledFrom([]string{"=", ">", "><", "=="}).Draw(t, "numop") + " " + lit), "num-literal", true
	}
}
