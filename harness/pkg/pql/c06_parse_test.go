package pql

// C06 — in-process companion for PQL text: arbitrary and token-mutated text into ParseString. The HTTP layer recovers
// panics of the request goroutine, so a panic here is recorded (class "panic") but is not a failure; a parse that does
// not finish is (the request goroutine cannot be cancelled and pins a core).

import (
	"fmt"
	"strings"
	"testing"
	"time"

	"github.com/pilosa/pilosa/internal/vkit"
	"pgregory.net/rapid"
)

// generous: parses of these sizes take milliseconds
const vc06ParseLimit = 60 * time.Second

func vc06ParseBounded(text string) (err error, pv interface{}, finished bool) {
	type res struct {
		err error
		pv  interface{}
	}
	ch := make(chan res, 1)
	go func() {
		var r res
		defer func() {
			if p := recover(); p != nil {
				r.pv = p
			}
			ch <- r
		}()
		_, r.err = ParseString(text)
	}()
	select {
	case r := <-ch:
		return r.err, r.pv, true
	case <-time.After(vc06ParseLimit):
		return nil, nil, false
	}
}

var vc06Pool = []string{
	"Row(f=1)", "Count(Row(f=1))", "Set(3, f=1)", "Set(\"k\", f='r', 2017-01-01T00:00)", "Union(Row(f=1), Row(f=2))", "TopN(f, Row(g=1), n=2, ids=[1,2])",
	"SetRowAttrs(f, 1, x=1.5, y=\"é\", z=null)", "Store(Row(f=1), f=7)", "ClearRow(f=7)", "Row(1 < f <= 5)", "Row(f >< [1,5])", "Row(f != null)",
	"Range(f=1, 2010-01-01T00:00, 2011-01-01T00:00)", "GroupBy(Rows(f), Rows(g), limit=2, filter=Row(h=1))", "Options(Row(f=1), shards=[0,1])", "Rows(f, previous=\"x\")",
}

func TestVerifC06_ParseString(t *testing.T) {
	defer vkit.Flush()
	rapid.Check(t, func(t *rapid.T) {
		var text string
		kind := rapid.SampledFrom([]string{"mutated", "mutated", "mutated", "random", "nested", "nested-special", "grammar"}).Draw(t, "kind")
		switch kind {
		case "mutated":
			b := []byte(rapid.SampledFrom(vc06Pool).Draw(t, "base"))
			n := rapid.IntRange(1, 4).Draw(t, "nmut")
			for i := 0; i < n && len(b) > 0; i++ {
				pos := rapid.IntRange(0, len(b)-1).Draw(t, "pos")
				switch rapid.IntRange(0, 4).Draw(t, "mkind") {
				case 0:
					b = append(b[:pos:pos], b[pos+1:]...)
				case 1:
					tok := rapid.SampledFrom([]string{"(", ")", ",", "=", "[", "]", "\"", "'", "\x00", "99999999999999999999", "-", "null", "<", "><", " ", "\n", "é", "\xff", "\\", "Store(", "Set("}).Draw(t, "tok")
					b = append(b[:pos:pos], append([]byte(tok), b[pos:]...)...)
				case 2:
					b[pos] = rapid.Byte().Draw(t, "byte")
				case 3:
					b = b[:pos]
				default:
					b = append(b, b[pos:]...)
				}
			}
			text = string(b)
		case "random":
			text = string(rapid.SliceOfN(rapid.Byte(), 0, 60).Draw(t, "bytes"))
		case "nested", "nested-special":
			names := []string{"Union", "Not", "x"}
			if kind == "nested-special" {
				// the call names with a dedicated grammar alternative: a failed alternative must not re-parse its contents at every level
				names = []string{"Store", "TopN", "Rows", "Set", "Clear", "ClearRow", "SetRowAttrs", "SetColumnAttrs", "Range"}
			}
			depth := rapid.SampledFrom([]int{5, 30, 60, 300}).Draw(t, "depth")
			name := rapid.SampledFrom(names).Draw(t, "name")
			inner := rapid.SampledFrom([]string{"Row(f=1)", "", "f", "f=1", "1, f=1"}).Draw(t, "inner")
			sep := rapid.SampledFrom([]string{"", "f, ", "f=", "1, f="}).Draw(t, "sep")
			text = strings.Repeat(name+"("+sep, depth) + inner
			switch rapid.IntRange(0, 2).Draw(t, "close") {
			case 0:
				text += strings.Repeat(")", depth)
			case 1:
				text += strings.Repeat(", g=2)", depth)
			}
		case "grammar":
			g := &vc26Gen{t: t, feats: map[string]bool{}}
			_, text = g.query(3, 3)
		}
		c := vkit.NewCase().Key(text)
		defer c.Done()
		c.Class("text:" + kind)
		sample := text
		if len(sample) > 200 {
			sample = sample[:200] + "..."
		}
		c.Sample(map[string]interface{}{"kind": kind, "text": sample, "len": len(text)})
		err, pv, finished := vc06ParseBounded(text)
		if !finished {
			t.Fatalf("ParseString did not finish within %v on %d bytes of text: %q", vc06ParseLimit, len(text), sample)
		}
		switch {
		case pv != nil:
			c.Class("panic") // recovered by Handler.ServeHTTP in the server; reported, not judged here
			c.NT(true)
		case err != nil:
			c.Class("rejected")
			c.NT(!strings.Contains(err.Error(), "line 1 symbol 1 "))
		default:
			c.Class("accepted")
			c.NT(true)
		}
	})
}

// DP13: nested Store() calls were parsed in time exponential in the depth.
func TestVerifWitness_DP13(t *testing.T) {
	text := strings.Repeat("Store(", 32) + "Row(f=1)" + strings.Repeat(")", 32)
	_, _, finished := vc06ParseBounded(text)
	if !finished {
		t.Fatalf("ParseString(%q) did not finish within %v (2^32 re-parses)", text, vc06ParseLimit)
	}
}

var _ = fmt.Sprint
