package cmd_test

// C31 — configuration precedence (flag > env > file > default) for every option
// of the `server` command, and the generate-config round trip.
//
// Everything runs in-process through cmd.NewRootCommand(...).Execute() with
// `server --dry-run` (stops after configuration). Per execution the command
// tree, cmd.Server and the viper instance are new (cmd/root.go creates
// viper.New() in PersistentPreRunE); the only process-global state is the
// environment, which vc31Run owns: it removes every PILOSA_* variable before
// and after each execution.

import (
	"bytes"
	"fmt"
	"io/ioutil"
	"os"
	"path/filepath"
	"reflect"
	"sort"
	"strconv"
	"strings"
	"testing"
	"time"

	gotoml "github.com/pelletier/go-toml"
	"github.com/pilosa/pilosa/cmd"
	"github.com/pilosa/pilosa/internal/vkit"
	"github.com/pilosa/pilosa/server"
	"github.com/spf13/cobra"
	"github.com/spf13/pflag"
	"pgregory.net/rapid"
)

type vc31Fataler interface {
	Fatalf(string, ...interface{})
}

// vc31Opt is one option of the server command, enumerated from its flag set.
type vc31Opt struct {
	Name string
	Type string // pflag type name
	Def  string // pflag default (string form)
}

var vc31Skip = map[string]bool{"help": true, "config": true, "dry-run": true}

func vc31ServerCmd(root *cobra.Command) *cobra.Command {
	sub, _, err := root.Find([]string{"server"})
	if err != nil || sub == nil || sub.Name() != "server" {
		panic(fmt.Sprintf("server subcommand not found: %v", err))
	}
	return sub
}

// vc31Options lists every option from the flag set of `server`.
func vc31Options(t vc31Fataler) []vc31Opt {
	root := cmd.NewRootCommand(strings.NewReader(""), ioutil.Discard, ioutil.Discard)
	var opts []vc31Opt
	vc31ServerCmd(root).Flags().VisitAll(func(f *pflag.Flag) {
		if vc31Skip[f.Name] {
			return
		}
		opts = append(opts, vc31Opt{Name: f.Name, Type: f.Value.Type(), Def: f.DefValue})
	})
	sort.Slice(opts, func(i, j int) bool { return opts[i].Name < opts[j].Name })
	if len(opts) < 20 {
		t.Fatalf("only %d server options found in the flag set: %v", len(opts), opts)
	}
	for _, o := range opts {
		switch o.Type {
		case "string", "int", "uint64", "bool", "duration", "float64", "stringSlice":
		default:
			t.Fatalf("option %s has flag type %q which this check does not know how to generate", o.Name, o.Type)
		}
	}
	return opts
}

// vc31Val is a typed option value: string, int64, uint64, bool, time.Duration, float64 or []string.
type vc31Val interface{}

func vc31Text(v vc31Val) string { // flag / environment text form
	switch x := v.(type) {
	case string:
		return x
	case int64:
		return strconv.FormatInt(x, 10)
	case uint64:
		return strconv.FormatUint(x, 10)
	case bool:
		return strconv.FormatBool(x)
	case time.Duration:
		return x.String()
	case float64:
		return strconv.FormatFloat(x, 'g', -1, 64)
	case []string:
		return strings.Join(x, ",")
	}
	panic(fmt.Sprintf("vc31Text: %T", v))
}

func vc31TomlString(s string) string {
	var b strings.Builder
	b.WriteByte('"')
	for _, r := range s {
		switch r {
		case '"':
			b.WriteString(`\"`)
		case '\\':
			b.WriteString(`\\`)
		default:
			b.WriteRune(r)
		}
	}
	b.WriteByte('"')
	return b.String()
}

func vc31Toml(v vc31Val) string { // TOML value form
	switch x := v.(type) {
	case string:
		return vc31TomlString(x)
	case time.Duration:
		return vc31TomlString(x.String())
	case float64:
		s := strconv.FormatFloat(x, 'f', -1, 64)
		if !strings.Contains(s, ".") {
			s += ".0"
		}
		return s
	case []string:
		parts := make([]string, len(x))
		for i, e := range x {
			parts[i] = vc31TomlString(e)
		}
		return "[" + strings.Join(parts, ", ") + "]"
	default:
		return vc31Text(v)
	}
}

// vc31TomlFile renders option values as a TOML document (top-level keys first, then one table per section).
func vc31TomlFile(vals map[string]vc31Val) string {
	names := make([]string, 0, len(vals))
	for n := range vals {
		names = append(names, n)
	}
	sort.Strings(names)
	var top, rest bytes.Buffer
	sections := map[string][]string{}
	var secNames []string
	for _, n := range names {
		if i := strings.Index(n, "."); i >= 0 {
			sec := n[:i]
			if _, ok := sections[sec]; !ok {
				secNames = append(secNames, sec)
			}
			sections[sec] = append(sections[sec], n)
		} else {
			fmt.Fprintf(&top, "%s = %s\n", n, vc31Toml(vals[n]))
		}
	}
	for _, sec := range secNames {
		fmt.Fprintf(&rest, "\n[%s]\n", sec)
		for _, n := range sections[sec] {
			fmt.Fprintf(&rest, "  %s = %s\n", n[len(sec)+1:], vc31Toml(vals[n]))
		}
	}
	return top.String() + rest.String()
}

func vc31EnvName(opt string) string {
	return "PILOSA_" + strings.ToUpper(strings.NewReplacer("-", "_", ".", "_").Replace(opt))
}

func vc31ClearEnv() {
	for _, kv := range os.Environ() {
		if strings.HasPrefix(kv, "PILOSA_") {
			os.Unsetenv(kv[:strings.Index(kv, "=")])
		}
	}
}

// vc31Result is what one execution left behind.
type vc31Result struct {
	cfg   *server.Config
	flags *pflag.FlagSet
	err   error
	out   string
}

// vc31Run executes `pilosa server --dry-run` with the given sources.
func vc31Run(dir string, flagVals, envVals map[string]vc31Val, fileContent *string) vc31Result {
	vc31ClearEnv()
	defer vc31ClearEnv()
	for n, v := range envVals {
		os.Setenv(vc31EnvName(n), vc31Text(v))
	}
	args := []string{"server", "--dry-run"}
	if fileContent != nil {
		path := filepath.Join(dir, "vc31.toml")
		if err := ioutil.WriteFile(path, []byte(*fileContent), 0o600); err != nil {
			return vc31Result{err: err}
		}
		args = append(args, "-c", path)
	}
	names := make([]string, 0, len(flagVals))
	for n := range flagVals {
		names = append(names, n)
	}
	sort.Strings(names)
	for _, n := range names {
		args = append(args, "--"+n+"="+vc31Text(flagVals[n]))
	}
	var out bytes.Buffer
	root := cmd.NewRootCommand(strings.NewReader(""), &out, &out)
	root.SetArgs(args)
	err := root.Execute()
	return vc31Result{cfg: cmd.Server.Config, flags: vc31ServerCmd(root).Flags(), err: err, out: out.String()}
}

// vc31FlagVal reads the final typed value of a flag.
func vc31FlagVal(fs *pflag.FlagSet, o vc31Opt) (vc31Val, error) {
	switch o.Type {
	case "string":
		return fs.GetString(o.Name)
	case "int":
		v, err := fs.GetInt(o.Name)
		return int64(v), err
	case "uint64":
		return fs.GetUint64(o.Name)
	case "bool":
		return fs.GetBool(o.Name)
	case "duration":
		return fs.GetDuration(o.Name)
	case "float64":
		return fs.GetFloat64(o.Name)
	case "stringSlice":
		return fs.GetStringSlice(o.Name)
	}
	return nil, fmt.Errorf("unknown type %s", o.Type)
}

// vc31Default parses the flag's default.
func vc31Default(o vc31Opt) vc31Val {
	switch o.Type {
	case "string":
		return o.Def
	case "int":
		v, _ := strconv.ParseInt(o.Def, 10, 64)
		return v
	case "uint64":
		v, _ := strconv.ParseUint(o.Def, 10, 64)
		return v
	case "bool":
		return o.Def == "true"
	case "duration":
		v, _ := time.ParseDuration(o.Def)
		return v
	case "float64":
		v, _ := strconv.ParseFloat(o.Def, 64)
		return v
	case "stringSlice":
		s := strings.TrimSuffix(strings.TrimPrefix(o.Def, "["), "]")
		if s == "" {
			return []string{}
		}
		return strings.Split(s, ",")
	}
	return nil
}

func vc31Same(a, b vc31Val) bool {
	as, aok := a.([]string)
	bs, bok := b.([]string)
	if aok && bok {
		if len(as) != len(bs) {
			return false
		}
		for i := range as {
			if as[i] != bs[i] {
				return false
			}
		}
		return true
	}
	return reflect.DeepEqual(a, b)
}

// vc31Field finds the Config field whose toml path equals the option name.
func vc31Field(cfg *server.Config, name string) (reflect.Value, bool) {
	v := reflect.ValueOf(cfg).Elem()
	for _, part := range strings.Split(name, ".") {
		if v.Kind() != reflect.Struct {
			return reflect.Value{}, false
		}
		found := false
		for i := 0; i < v.NumField(); i++ {
			tag := strings.Split(v.Type().Field(i).Tag.Get("toml"), ",")[0]
			if tag == part {
				v = v.Field(i)
				found = true
				break
			}
		}
		if !found {
			return reflect.Value{}, false
		}
	}
	if v.Kind() == reflect.Struct {
		return reflect.Value{}, false
	}
	return v, true
}

// vc31FieldVal converts a Config field to the typed form of the option.
func vc31FieldVal(f reflect.Value, o vc31Opt) vc31Val {
	switch o.Type {
	case "string":
		return f.String()
	case "int":
		return f.Int()
	case "uint64":
		return f.Uint()
	case "bool":
		return f.Bool()
	case "duration":
		return time.Duration(f.Int())
	case "float64":
		return f.Float()
	case "stringSlice":
		out := make([]string, f.Len())
		for i := range out {
			out[i] = f.Index(i).String()
		}
		return out
	}
	return nil
}

func vc31SetField(f reflect.Value, o vc31Opt, v vc31Val) {
	switch x := v.(type) {
	case string:
		f.SetString(x)
	case int64:
		f.SetInt(x)
	case uint64:
		f.SetUint(x)
	case bool:
		f.SetBool(x)
	case time.Duration:
		f.SetInt(int64(x))
	case float64:
		f.SetFloat(x)
	case []string:
		f.Set(reflect.ValueOf(append([]string{}, x...)))
	}
}

// vc31CheckAll compares every option after an execution with its expected value.
func vc31CheckAll(t vc31Fataler, opts []vc31Opt, res vc31Result, expect map[string]vc31Val, what string) (noField int) {
	if res.err == nil || res.err.Error() != "dry run" {
		t.Fatalf("%s: `server --dry-run` returned %v (want the \"dry run\" marker); output: %s", what, res.err, res.out)
	}
	for _, o := range opts {
		want, ok := expect[o.Name]
		if !ok {
			want = vc31Default(o)
		}
		got, err := vc31FlagVal(res.flags, o)
		if err != nil {
			t.Fatalf("%s: reading flag %s: %v", what, o.Name, err)
		}
		if !vc31Same(got, want) {
			t.Fatalf("%s: option %s (%s) ended as %#v, want %#v", what, o.Name, o.Type, got, want)
		}
		f, ok := vc31Field(res.cfg, o.Name)
		if !ok {
			noField++
			continue
		}
		if fv := vc31FieldVal(f, o); !vc31Same(fv, want) {
			t.Fatalf("%s: Config field of option %s (%s) is %#v, want %#v", what, o.Name, o.Type, fv, want)
		}
	}
	return noField
}

// ---------------------------------------------------------------------------
// deterministic values for the exhaustive precedence enumeration

var vc31Sources = []string{"file", "env", "flag"} // increasing precedence

// vc31FixedVal returns a value for (option, source, variant) that differs from the
// default and (except for bools) from the values of the other sources.
func vc31FixedVal(o vc31Opt, oi int, src int, variant int) vc31Val {
	k := int64(oi*10 + src*3 + variant + 1)
	switch o.Type {
	case "string":
		return fmt.Sprintf("%s-%s-v%d", vc31Sources[src], o.Name, variant)
	case "int":
		if variant == 1 && src == 0 {
			return -k
		}
		return 7000 + k
	case "uint64":
		return uint64(9000000 + k)
	case "bool":
		def := o.Def == "true"
		// variant 0: flag=!def env=def file=!def ; variant 1: the opposite
		v := src%2 == 0
		if variant == 1 {
			v = !v
		}
		if v {
			return !def
		}
		return def
	case "duration":
		return time.Duration(k)*time.Second + time.Duration(src+1)*time.Millisecond
	case "float64":
		return float64(k) + 0.25
	case "stringSlice":
		n := []int{3, 1, 2}[src]
		if variant == 1 {
			n = []int{0, 3, 1}[src]
			if src == 2 && oi%2 == 0 {
				n = 0 // an explicitly empty flag value must still win
			}
		}
		out := []string{}
		for i := 0; i < n; i++ {
			out = append(out, fmt.Sprintf("%s%d.example.com:%d", vc31Sources[src], i, 1000+oi))
		}
		return out
	}
	return nil
}

// TestVerifC31_PrecedenceExhaustive: every option x every subset of {file, env, flag} x 2 value variants.
func TestVerifC31_PrecedenceExhaustive(t *testing.T) {
	defer vkit.Flush()
	opts := vc31Options(t)
	dir, err := ioutil.TempDir("", "verif-c31-")
	if err != nil {
		t.Fatal(err)
	}
	defer os.RemoveAll(dir)
	byType := map[string]int{}
	noField := 0
	for oi, o := range opts {
		byType[o.Type]++
		for variant := 0; variant < 2; variant++ {
			for mask := 0; mask < 8; mask++ {
				c := vkit.NewCase().Key("c31x", o.Name, variant, mask)
				flagVals, envVals, fileVals := map[string]vc31Val{}, map[string]vc31Val{}, map[string]vc31Val{}
				expect := map[string]vc31Val{}
				desc := []string{}
				for src := 0; src < 3; src++ { // increasing precedence: later overrides
					if mask&(1<<uint(src)) == 0 {
						continue
					}
					v := vc31FixedVal(o, oi, src, variant)
					if src == 1 && vc31Text(v) == "" {
						continue // an empty environment variable counts as unset (viper convention)
					}
					[]map[string]vc31Val{fileVals, envVals, flagVals}[src][o.Name] = v
					expect[o.Name] = v
					desc = append(desc, fmt.Sprintf("%s=%v", vc31Sources[src], v))
				}
				var file *string
				if mask&1 != 0 {
					s := vc31TomlFile(fileVals)
					file = &s
				}
				res := vc31Run(dir, flagVals, envVals, file)
				what := fmt.Sprintf("option %s sources {%s}", o.Name, strings.Join(desc, " "))
				noField += vc31CheckAll(t, opts, res, expect, what)
				c.Class("type:" + o.Type).Class("sources:%d", len(desc))
				c.NT(len(desc) >= 2)
				c.Sample(map[string]interface{}{"option": o.Name, "type": o.Type, "sources": desc})
				c.Done()
			}
		}
	}
	vkit.Extra("precedence_single_option_enumeration_complete", true)
	vkit.Extra("options", len(opts))
	vkit.Extra("options_by_type", byType)
	vkit.Extra("option_checks_without_config_field", noField)
}

// ---------------------------------------------------------------------------
// generated values

var vc31Runes = []rune("abcXYZ019:/._-~ #='\"\\,[]{}$%éß日本")

func vc31GenVal(t *rapid.T, o vc31Opt, label string, nonEmptyText bool, float32Safe bool) vc31Val {
	switch o.Type {
	case "string":
		min := 0
		if nonEmptyText {
			min = 1
		}
		return string(rapid.SliceOfN(rapid.SampledFrom(vc31Runes), min, 12).Draw(t, label))
	case "int":
		return int64(rapid.OneOf(rapid.IntRange(-3, 3), rapid.IntRange(-1<<31, 1<<31-1)).Draw(t, label))
	case "uint64":
		return rapid.OneOf(rapid.Uint64Range(0, 3), rapid.Uint64Range(0, 1<<63-1)).Draw(t, label)
	case "bool":
		return rapid.Bool().Draw(t, label)
	case "duration":
		return time.Duration(rapid.OneOf(rapid.Int64Range(0, 3), rapid.Int64Range(0, 1e13), rapid.SampledFrom([]int64{1e6, 1e9, 60e9, 3600e9, 90e9})).Draw(t, label))
	case "float64":
		if float32Safe {
			k := rapid.IntRange(-999999, 999999).Draw(t, label+"_k")
			d := rapid.IntRange(0, 6).Draw(t, label+"_d")
			v, _ := strconv.ParseFloat(fmt.Sprintf("%de-%d", k, d), 64)
			return v
		}
		v := rapid.Float64().Draw(t, label)
		if v != v || v > 1e300 || v < -1e300 || v == 0 {
			v = 0.5
		}
		return v
	case "stringSlice":
		min := 0
		if nonEmptyText {
			min = 1
		}
		n := rapid.IntRange(min, 3).Draw(t, label+"_n")
		out := []string{}
		for i := 0; i < n; i++ {
			out = append(out, rapid.StringMatching(`[a-z0-9.:/_-]{1,12}`).Draw(t, fmt.Sprintf("%s_%d", label, i)))
		}
		return out
	}
	return nil
}

// TestVerifC31_PrecedenceMulti: several options at once, each with its own subset of sources and generated values.
func TestVerifC31_PrecedenceMulti(t *testing.T) {
	defer vkit.Flush()
	opts := vc31Options(t)
	dir, err := ioutil.TempDir("", "verif-c31-")
	if err != nil {
		t.Fatal(err)
	}
	defer os.RemoveAll(dir)
	rapid.Check(t, func(t *rapid.T) {
		n := rapid.IntRange(1, 6).Draw(t, "nOptions")
		idx := rapid.SliceOfNDistinct(rapid.IntRange(0, len(opts)-1), n, n, func(i int) int { return i }).Draw(t, "options")
		flagVals, envVals, fileVals := map[string]vc31Val{}, map[string]vc31Val{}, map[string]vc31Val{}
		expect := map[string]vc31Val{}
		var desc []string
		useFile := rapid.Bool().Draw(t, "configFileGiven")
		multi := 0
		types := map[string]bool{}
		for _, i := range idx {
			o := opts[i]
			mask := rapid.IntRange(0, 7).Draw(t, "mask_"+o.Name)
			if !useFile {
				mask &^= 1
			}
			k := 0
			for src := 0; src < 3; src++ {
				if mask&(1<<uint(src)) == 0 {
					continue
				}
				v := vc31GenVal(t, o, fmt.Sprintf("%s_%s", o.Name, vc31Sources[src]), src == 1, false)
				[]map[string]vc31Val{fileVals, envVals, flagVals}[src][o.Name] = v
				expect[o.Name] = v
				desc = append(desc, fmt.Sprintf("%s:%s=%v", o.Name, vc31Sources[src], v))
				k++
			}
			if k >= 2 {
				multi++
			}
			if k > 0 {
				types[o.Type] = true
			}
		}
		var file *string
		if useFile {
			s := vc31TomlFile(fileVals)
			file = &s
		}
		c := vkit.NewCase().Key("c31multi", strings.Join(desc, "|"), useFile)
		defer c.Done()
		res := vc31Run(dir, flagVals, envVals, file)
		vc31CheckAll(t, opts, res, expect, "multi-option case ["+strings.Join(desc, " ")+"]")
		for ty := range types {
			c.Class("type:" + ty)
		}
		c.ClassIf(useFile, "configFile").ClassIf(multi > 0, "optionWithSeveralSources")
		c.NT(multi > 0 && len(expect) >= 2)
		if len(desc) > 8 {
			desc = desc[:8]
		}
		c.Sample(map[string]interface{}{"supplied": desc})
	})
}

// ---------------------------------------------------------------------------
// round trip

func vc31ExecRoot(args ...string) (string, error) {
	vc31ClearEnv()
	var out, errOut bytes.Buffer
	root := cmd.NewRootCommand(strings.NewReader(""), &out, &errOut)
	root.SetArgs(args)
	err := root.Execute()
	return out.String(), err
}

func vc31NormCfg(c server.Config) server.Config {
	v := reflect.ValueOf(&c).Elem()
	var walk func(v reflect.Value)
	walk = func(v reflect.Value) {
		switch v.Kind() {
		case reflect.Struct:
			for i := 0; i < v.NumField(); i++ {
				walk(v.Field(i))
			}
		case reflect.Slice:
			if v.Len() == 0 && v.CanSet() {
				v.Set(reflect.MakeSlice(v.Type(), 0, 0))
			}
		}
	}
	walk(v)
	return c
}

// vc31ReadBack runs `server -c <file> --dry-run` on the TOML text and compares the result with want.
func vc31ReadBack(t vc31Fataler, dir string, opts []vc31Opt, tomlText string, want *server.Config, what string) {
	res := vc31Run(dir, nil, nil, &tomlText)
	if res.err == nil || res.err.Error() != "dry run" {
		t.Fatalf("%s: `server -c` rejects the rendered configuration: %v\n--- rendered ---\n%s", what, res.err, tomlText)
	}
	for _, o := range opts {
		wf, ok1 := vc31Field(want, o.Name)
		gf, ok2 := vc31Field(res.cfg, o.Name)
		if !ok1 || !ok2 {
			continue
		}
		if w, g := vc31FieldVal(wf, o), vc31FieldVal(gf, o); !vc31Same(w, g) {
			t.Fatalf("%s: option %s (%s) read back as %#v, rendered from %#v\n--- rendered ---\n%s", what, o.Name, o.Type, g, w, tomlText)
		}
	}
	if w, g := vc31NormCfg(*want), vc31NormCfg(*res.cfg); !reflect.DeepEqual(w, g) {
		t.Fatalf("%s: configuration read back differs from the rendered one:\n got %+v\nwant %+v\n--- rendered ---\n%s", what, g, w, tomlText)
	}
}

// TestVerifC31_RoundTripDefault: the literal `pilosa generate-config | pilosa server -c` pipeline.
func TestVerifC31_RoundTripDefault(t *testing.T) {
	defer vkit.Flush()
	opts := vc31Options(t)
	dir, err := ioutil.TempDir("", "verif-c31-")
	if err != nil {
		t.Fatal(err)
	}
	defer os.RemoveAll(dir)
	c := vkit.NewCase().Key("c31default")
	defer c.Done()
	out, err := vc31ExecRoot("generate-config")
	if err != nil {
		t.Fatalf("generate-config: %v", err)
	}
	vc31ReadBack(t, dir, opts, out, server.NewConfig(), "generate-config output")
	c.Class("generate-config").NT(true).Sample(map[string]interface{}{"pipeline": "generate-config | server -c"})
}

// TestVerifC31_RoundTrip: generated configurations of all option types.
func TestVerifC31_RoundTrip(t *testing.T) {
	defer vkit.Flush()
	opts := vc31Options(t)
	dir, err := ioutil.TempDir("", "verif-c31-")
	if err != nil {
		t.Fatal(err)
	}
	defer os.RemoveAll(dir)
	float32Safe := vkit.Open("DM1")
	rapid.Check(t, func(t *rapid.T) {
		want := server.NewConfig()
		changed := []string{}
		types := map[string]bool{}
		flagVals := map[string]vc31Val{}
		all := rapid.Bool().Draw(t, "changeAll")
		for _, o := range opts {
			f, ok := vc31Field(want, o.Name)
			if !ok {
				continue
			}
			if !all && rapid.IntRange(0, 3).Draw(t, "change_"+o.Name) != 0 {
				continue
			}
			v := vc31GenVal(t, o, "v_"+o.Name, false, float32Safe)
			if o.Type == "float64" && float32Safe {
				vkit.Excluded("DM1")
			}
			vc31SetField(f, o, v)
			flagVals[o.Name] = v
			changed = append(changed, fmt.Sprintf("%s=%v", o.Name, v))
			types[o.Type] = true
		}
		via := rapid.SampledFrom([]string{"marshal", "marshal", "config-command"}).Draw(t, "via")
		c := vkit.NewCase().Key("c31rt", via, strings.Join(changed, "|"))
		defer c.Done()
		var text string
		if via == "marshal" {
			// exactly what ctl.GenerateConfigCommand does with its Config value
			b, err := gotoml.Marshal(*want)
			if err != nil {
				t.Fatalf("toml.Marshal(%+v): %v", *want, err)
			}
			text = string(b) + "\n"
		} else {
			// `pilosa config --flag=value ...` prints the resulting configuration with the same renderer
			args := []string{"config"}
			names := make([]string, 0, len(flagVals))
			for n := range flagVals {
				names = append(names, n)
			}
			sort.Strings(names)
			for _, n := range names {
				args = append(args, "--"+n+"="+vc31Text(flagVals[n]))
			}
			out, err := vc31ExecRoot(args...)
			if err != nil {
				t.Fatalf("pilosa %v: %v", args, err)
			}
			text = out
		}
		vc31ReadBack(t, dir, opts, text, want, "configuration with "+strings.Join(changed, " ")+" rendered via "+via)
		for ty := range types {
			c.Class("type:" + ty)
		}
		c.Class("via:" + via).ClassIf(all, "allOptionsChanged")
		c.NT(len(types) >= 3)
		if len(changed) > 8 {
			changed = changed[:8]
		}
		c.Sample(map[string]interface{}{"via": via, "changed": changed})
	})
}

// TestVerifWitness_D29: generate-config output must be accepted by server -c.
func TestVerifWitness_D29(t *testing.T) {
	dir, err := ioutil.TempDir("", "verif-c31-")
	if err != nil {
		t.Fatal(err)
	}
	defer os.RemoveAll(dir)
	out, err := vc31ExecRoot("generate-config")
	if err != nil {
		t.Fatalf("generate-config: %v", err)
	}
	res := vc31Run(dir, nil, nil, &out)
	if res.err == nil || res.err.Error() != "dry run" {
		t.Fatalf("`pilosa server -c <output of pilosa generate-config> --dry-run` fails: %v", res.err)
	}
}

// TestVerifWitness_DM1: float options are rendered with float32 precision.
func TestVerifWitness_DM1(t *testing.T) {
	dir, err := ioutil.TempDir("", "verif-c31-")
	if err != nil {
		t.Fatal(err)
	}
	defer os.RemoveAll(dir)
	out, err := vc31ExecRoot("config", "--tracing.sampler-param=0.123456789")
	if err != nil {
		t.Fatalf("pilosa config: %v", err)
	}
	res := vc31Run(dir, nil, nil, &out)
	if res.err == nil || res.err.Error() != "dry run" {
		t.Fatalf("server -c: %v", res.err)
	}
	if got := res.cfg.Tracing.SamplerParam; got != 0.123456789 {
		t.Fatalf("tracing.sampler-param 0.123456789 rendered by `pilosa config` and read back by `pilosa server -c` is %v", got)
	}
}
