package pilosa

// C11 (function level) — fragment.mergeBlock: per-bit majority over local + remote
// replicas of one block, ties = set; the local fragment ends with exactly the
// majority bits of the block, and for every remote i the returned (sets[i],
// clears[i]) are exactly majority∖remote_i and remote_i∖majority.

import (
	"bytes"
	"fmt"
	"os"
	"sort"
	"testing"

	"github.com/pilosa/pilosa/internal/vkit"
	"pgregory.net/rapid"
)

type vC11Pos struct{ Row, Col uint64 } // Col is shard relative

func (p vC11Pos) key() uint64 { return p.Row*ShardWidth + p.Col }

type vC11PosSet map[vC11Pos]bool

func (s vC11PosSet) sorted() []vC11Pos {
	out := make([]vC11Pos, 0, len(s))
	for p := range s {
		out = append(out, p)
	}
	sort.Slice(out, func(i, j int) bool { return out[i].key() < out[j].key() })
	return out
}

func (s vC11PosSet) String() string { return fmt.Sprint(s.sorted()) }

func vC11Equal(a, b vC11PosSet) bool {
	if len(a) != len(b) {
		return false
	}
	for p := range a {
		if !b[p] {
			return false
		}
	}
	return true
}

func vC11PairSet(s vC11PosSet) pairSet {
	var ps pairSet
	for _, p := range s.sorted() { // BlockData returns pairs in position order
		ps.rowIDs = append(ps.rowIDs, p.Row)
		ps.columnIDs = append(ps.columnIDs, p.Col)
	}
	return ps
}

func vC11FromPairSet(ps pairSet) (vC11PosSet, error) {
	if len(ps.rowIDs) != len(ps.columnIDs) {
		return nil, fmt.Errorf("pair set with %d rows and %d columns", len(ps.rowIDs), len(ps.columnIDs))
	}
	s := vC11PosSet{}
	for i := range ps.rowIDs {
		s[vC11Pos{ps.rowIDs[i], ps.columnIDs[i]}] = true
	}
	return s, nil
}

// vC11Majority: a position is set iff at least half of the replicas hold it.
func vC11Majority(replicas []vC11PosSet) vC11PosSet {
	cnt := map[vC11Pos]int{}
	for _, r := range replicas {
		for p := range r {
			cnt[p]++
		}
	}
	out := vC11PosSet{}
	for p, n := range cnt {
		if 2*n >= len(replicas) {
			out[p] = true
		}
	}
	return out
}

// vC11FragContents returns all bits of the fragment as (row, relative column).
func vC11FragContents(f *fragment) vC11PosSet {
	s := vC11PosSet{}
	for _, v := range f.storage.Slice() {
		s[vC11Pos{v / ShardWidth, v % ShardWidth}] = true
	}
	return s
}

func vC11SetLocal(f *fragment, want vC11PosSet) error {
	have := vC11FragContents(f)
	for p := range have {
		if !want[p] {
			if _, err := f.clearBit(p.Row, f.shard*ShardWidth+p.Col); err != nil {
				return err
			}
		}
	}
	for _, p := range want.sorted() {
		if !have[p] {
			if _, err := f.setBit(p.Row, f.shard*ShardWidth+p.Col); err != nil {
				return err
			}
		}
	}
	return nil
}

// vC11CloseFrag: fragment.Clean without a testing.TB.
func vC11CloseFrag(f *fragment) {
	f.awaitSnapshot()
	f.Close()
	os.Remove(f.path)
	os.Remove(f.cachePath())
	if f.snapshotQueue != nil {
		close(f.snapshotQueue)
		f.snapshotQueue = nil
	}
}

type vC11T interface {
	Fatalf(format string, args ...interface{})
}

// vC11CheckMerge runs mergeBlock on f (already holding local ∪ outside) and checks everything.
// replicas[0] is the local block content; outside = local bits in other blocks.
func vC11CheckMerge(t vC11T, f *fragment, block int, replicas []vC11PosSet, outside vC11PosSet, ref *fragment) (needBoth, multiClear bool) {
	desc := func() string {
		return fmt.Sprintf("shard=%d block=%d local=%v remotes=%v outside=%v", f.shard, block, replicas[0], replicas[1:], outside)
	}
	data := make([]pairSet, 0, len(replicas)-1)
	for _, r := range replicas[1:] {
		data = append(data, vC11PairSet(r))
	}
	sets, clears, err := f.mergeBlock(block, data)
	if err != nil {
		t.Fatalf("mergeBlock error %v for %s", err, desc())
	}
	if len(sets) != len(data) || len(clears) != len(data) {
		t.Fatalf("mergeBlock returned %d sets / %d clears for %d remotes; %s", len(sets), len(clears), len(data), desc())
	}
	maj := vC11Majority(replicas)
	// local: exactly the majority bits inside the block, everything else untouched
	wantLocal := vC11PosSet{}
	for p := range maj {
		wantLocal[p] = true
	}
	for p := range outside {
		wantLocal[p] = true
	}
	if got := vC11FragContents(f); !vC11Equal(got, wantLocal) {
		t.Fatalf("local fragment after mergeBlock holds %v, want majority %v plus untouched %v; %s", got, maj, outside, desc())
	}
	for i := range data {
		remote := replicas[i+1]
		gs, err := vC11FromPairSet(sets[i])
		if err != nil {
			t.Fatalf("sets[%d]: %v; %s", i, err, desc())
		}
		gc, err := vC11FromPairSet(clears[i])
		if err != nil {
			t.Fatalf("clears[%d]: %v; %s", i, err, desc())
		}
		wantS, wantC := vC11PosSet{}, vC11PosSet{}
		for p := range maj {
			if !remote[p] {
				wantS[p] = true
			}
		}
		for p := range remote {
			if !maj[p] {
				wantC[p] = true
			}
		}
		if !vC11Equal(gs, wantS) {
			t.Fatalf("sets for remote %d = %v, want %v (majority %v); %s", i, gs, wantS, maj, desc())
		}
		if !vC11Equal(gc, wantC) {
			t.Fatalf("clears for remote %d = %v, want %v (majority %v); %s", i, gc, wantC, maj, desc())
		}
		// the repaired remote (what the syncer makes of it) equals the majority
		rep := vC11PosSet{}
		for p := range remote {
			rep[p] = true
		}
		for p := range gs {
			rep[p] = true
		}
		for p := range gc {
			delete(rep, p)
		}
		if !vC11Equal(rep, maj) {
			t.Fatalf("remote %d after applying sets/clears = %v, want %v; %s", i, rep, maj, desc())
		}
		if len(wantS) > 0 && len(wantC) > 0 {
			needBoth = true
		}
		if len(wantC) >= 2 {
			multiClear = true
		}
	}
	// block checksum of the repaired local fragment = checksum of a fragment that simply holds the majority
	if ref != nil {
		if err := vC11SetLocal(ref, wantLocal); err != nil {
			t.Fatalf("reference fragment: %v", err)
		}
		gb, rb := f.Blocks(), ref.Blocks()
		if len(gb) != len(rb) {
			t.Fatalf("Blocks() after mergeBlock = %v, a fragment with the same bits reports %v; %s", gb, rb, desc())
		}
		for i := range gb {
			if gb[i].ID != rb[i].ID || !bytes.Equal(gb[i].Checksum, rb[i].Checksum) {
				t.Fatalf("Blocks() after mergeBlock = %v, a fragment with the same bits reports %v; %s", gb, rb, desc())
			}
		}
	}
	return needBoth, multiClear
}

// TestVerifC11_MergeExhaustive: 4 positions of one block (two rows on the block's edges x columns 0 and
// ShardWidth-1), every assignment to every replica, R = 2 and 3 (block 0 / shard 0), R = 2 (block 1 / shard 2).
func TestVerifC11_MergeExhaustive(t *testing.T) {
	defer vkit.Flush()
	type cfg struct {
		shard uint64
		block int
		R     int
	}
	for _, cf := range []cfg{{0, 0, 2}, {0, 0, 3}, {2, 1, 2}} {
		f := mustOpenFragment("i", "f", viewStandard, cf.shard, "")
		ref := mustOpenFragment("i", "f", viewStandard, cf.shard, "")
		b := uint64(cf.block)
		pos := []vC11Pos{
			{b * HashBlockSize, 0}, {b * HashBlockSize, ShardWidth - 1},
			{b*HashBlockSize + HashBlockSize - 1, 0}, {b*HashBlockSize + HashBlockSize - 1, ShardWidth - 1},
		}
		outside := vC11PosSet{{(b + 1) * HashBlockSize, 0}: true, {(b + 1) * HashBlockSize, ShardWidth - 1}: true}
		if b > 0 {
			outside[vC11Pos{b*HashBlockSize - 1, ShardWidth - 1}] = true
		}
		total := 1
		for i := 0; i < cf.R; i++ {
			total *= 16
		}
		for code := 0; code < total; code++ {
			replicas := make([]vC11PosSet, cf.R)
			c := code
			for i := range replicas {
				replicas[i] = vC11PosSet{}
				for k := 0; k < 4; k++ {
					if c&(1<<uint(k)) != 0 {
						replicas[i][pos[k]] = true
					}
				}
				c >>= 4
			}
			local := vC11PosSet{}
			for p := range replicas[0] {
				local[p] = true
			}
			for p := range outside {
				local[p] = true
			}
			if err := vC11SetLocal(f, local); err != nil {
				t.Fatal(err)
			}
			cs := vkit.NewCase().Key("exh", cf.shard, cf.block, cf.R, code)
			cs.Class("R=%d", cf.R)
			var chk *fragment
			if code%8 == 0 {
				chk = ref
			}
			both, multi := vC11CheckMerge(t, f, cf.block, replicas, outside, chk)
			cs.ClassIf(both, "remote-needs-set-and-clear").ClassIf(multi, "remote-needs>=2-clears")
			cs.NT(both || multi || cf.R >= 3)
			cs.Sample(map[string]interface{}{"shard": cf.shard, "block": cf.block, "replicas": fmt.Sprint(replicas)})
			cs.Done()
		}
		f.Clean(t)
		ref.Clean(t)
	}
	vkit.Extra("exhaustive", true)
	vkit.Extra("bounds", "mergeBlock: every content of 4 edge positions on every replica for R=2,3 (block 0, shard 0) and R=2 (block 1, shard 2)")
}

var vC11ColPool = []uint64{0, 1, 65535, 65536, ShardWidth/2 - 1, ShardWidth - 2, ShardWidth - 1}

// TestVerifC11_MergeRandom: R = 2..5, up to 200 positions on several rows of the block.
func TestVerifC11_MergeRandom(t *testing.T) {
	defer vkit.Flush()
	rapid.Check(t, func(t *rapid.T) {
		R := rapid.SampledFrom([]int{2, 3, 3, 4, 4, 5}).Draw(t, "R")
		shard := rapid.SampledFrom([]uint64{0, 1, 5}).Draw(t, "shard")
		block := rapid.SampledFrom([]int{0, 1, 7}).Draw(t, "block")
		maxPos := 12
		if rapid.IntRange(0, 9).Draw(t, "big") == 0 {
			maxPos = 200
		}
		b := uint64(block)
		rowGen := rapid.OneOf(
			rapid.SampledFrom([]uint64{b * HashBlockSize, b*HashBlockSize + 1, b*HashBlockSize + HashBlockSize - 1}),
			rapid.Uint64Range(b*HashBlockSize, b*HashBlockSize+HashBlockSize-1),
		)
		colGen := rapid.OneOf(rapid.SampledFrom(vC11ColPool), rapid.Uint64Range(0, ShardWidth-1))
		posGen := rapid.Custom(func(t *rapid.T) vC11Pos {
			return vC11Pos{rowGen.Draw(t, "row"), colGen.Draw(t, "col")}
		})
		positions := rapid.SliceOfNDistinct(posGen, 1, maxPos, func(p vC11Pos) uint64 { return p.key() }).Draw(t, "positions")
		replicas := make([]vC11PosSet, R)
		for i := range replicas {
			replicas[i] = vC11PosSet{}
		}
		masks := make([]int, len(positions))
		for k, p := range positions {
			m := rapid.IntRange(1, 1<<uint(R)-1).Draw(t, "mask")
			masks[k] = m
			for i := 0; i < R; i++ {
				if m&(1<<uint(i)) != 0 {
					replicas[i][p] = true
				}
			}
		}
		outside := vC11PosSet{}
		if rapid.Bool().Draw(t, "outside") {
			outside[vC11Pos{(b + 1) * HashBlockSize, colGen.Draw(t, "ocol")}] = true
			if b > 0 {
				outside[vC11Pos{b*HashBlockSize - 1, ShardWidth - 1}] = true
			}
		}
		cs := vkit.NewCase().Key("rnd", R, shard, block, positions, masks, outside.String())
		defer cs.Done()
		f := mustOpenFragment("i", "f", viewStandard, shard, "")
		defer vC11CloseFrag(f)
		ref := mustOpenFragment("i", "f", viewStandard, shard, "")
		defer vC11CloseFrag(ref)
		local := vC11PosSet{}
		for p := range replicas[0] {
			local[p] = true
		}
		for p := range outside {
			local[p] = true
		}
		if err := vC11SetLocal(f, local); err != nil {
			t.Fatalf("setting local bits: %v", err)
		}
		f.Blocks() // populate the checksum cache as the syncer does before merging
		both, multi := vC11CheckMerge(t, f, block, replicas, outside, ref)
		cs.Class("R=%d", R).ClassIf(both, "remote-needs-set-and-clear").ClassIf(multi, "remote-needs>=2-clears").ClassIf(len(positions) > 12, "positions>12")
		cs.NT(both || multi || R >= 3)
		cs.Sample(map[string]interface{}{"R": R, "shard": shard, "block": block, "replicas": fmt.Sprint(replicas)})
	})
}

// TestVerifWitness_D12: a remote that needs one set and two clears. mergeBlock built clears[i] by appending
// to sets[i], so only the last clear survived and the remote's sets leaked into its clears.
func TestVerifWitness_D12(t *testing.T) {
	f := mustOpenFragment("i", "f", viewStandard, 0, "")
	defer f.Clean(t)
	// local {(0,7)}, remote0 {(0,1),(0,2)}, remote1 {(0,7)}: majority {(0,7)}; remote0 needs set (0,7) and clears (0,1),(0,2)
	f.mustSetBits(0, 7)
	sets, clears, err := f.mergeBlock(0, []pairSet{
		{rowIDs: []uint64{0, 0}, columnIDs: []uint64{1, 2}},
		{rowIDs: []uint64{0}, columnIDs: []uint64{7}},
	})
	if err != nil {
		t.Fatal(err)
	}
	if got := fmt.Sprint(sets[0].rowIDs, sets[0].columnIDs); got != "[0] [7]" {
		t.Fatalf("sets for remote 0 = %s, want [0] [7]", got)
	}
	if got := fmt.Sprint(clears[0].rowIDs, clears[0].columnIDs); got != "[0 0] [1 2]" {
		t.Fatalf("clears for remote 0 = %s, want [0 0] [1 2]", got)
	}
	if got := fmt.Sprint(clears[1].columnIDs, sets[1].columnIDs); got != "[] []" {
		t.Fatalf("remote 1 already holds the majority but gets clears/sets %s", got)
	}
	if got := f.row(0).Columns(); fmt.Sprint(got) != "[7]" {
		t.Fatalf("local row 0 = %v, want [7]", got)
	}
}

// TestVerifWitness_DX1: three replicas all hold (100,0) (block 1) and differ in block 0. Merging block 0
// must not look at row 100: limitIterator's bounds are inclusive and mergeBlock passed (id+1)*HashBlockSize,
// so (100,0) got 1 of 3 votes (remote block data never contains it) and was cleared locally.
func TestVerifWitness_DX1(t *testing.T) {
	f := mustOpenFragment("i", "f", viewStandard, 0, "")
	defer f.Clean(t)
	f.mustSetBits(0, 1)
	f.mustSetBits(HashBlockSize, 0)
	sets, clears, err := f.mergeBlock(0, []pairSet{{}, {}})
	if err != nil {
		t.Fatal(err)
	}
	if got := f.row(HashBlockSize).Columns(); fmt.Sprint(got) != "[0]" {
		t.Fatalf("merging block 0 changed row %d (block 1) to %v, want [0]", HashBlockSize, got)
	}
	if got := f.row(0).Columns(); len(got) != 0 {
		t.Fatalf("row 0 = %v, want [] (1 of 3 votes)", got)
	}
	for i := range sets {
		if len(sets[i].rowIDs) != 0 || len(clears[i].rowIDs) != 0 {
			t.Fatalf("remote %d holds the majority of block 0 but gets sets %v clears %v", i, sets[i], clears[i])
		}
	}
	// two replicas: the row of block 1 must not be sent as a repair of block 0
	g := mustOpenFragment("i", "f", viewStandard, 0, "")
	defer g.Clean(t)
	g.mustSetBits(HashBlockSize, 0)
	sets, _, err = g.mergeBlock(0, []pairSet{{}})
	if err != nil {
		t.Fatal(err)
	}
	if len(sets[0].rowIDs) != 0 {
		t.Fatalf("block 0 repair for the remote contains rows %v of another block", sets[0].rowIDs)
	}
}
