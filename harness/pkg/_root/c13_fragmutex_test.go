package pilosa

// C13 — mutex and bool fields hold at most one value per column, the last one written (fragment level).

import (
	"fmt"
	"os"
	"testing"

	"github.com/pilosa/pilosa/internal/vkit"
	"pgregory.net/rapid"
)

func TestVerifC13_FragMutex(t *testing.T) {
	defer vkit.Flush()
	rapid.Check(t, func(t *rapid.T) {
		cfg := vgfGenCfg(t, "cfg", []string{vgfMutex, vgfMutex, vgfBool}, []string{CacheTypeRanked, CacheTypeLRU, CacheTypeNone}, []uint32{2, 50000})
		dir := vgfTempDir(t)
		defer os.RemoveAll(dir)
		m := vgfNew(t, cfg, dir, "frag")
		closed := false
		defer func() {
			if !closed {
				m.drain()
				_ = m.f.Close()
			}
		}()
		ws := []vgfWeight{{"setBit", 5}, {"clearBit", 2}, {"import", 9}, {"importClear", 3}, {"clearRow", 1}, {"snapshot", 1}, {"bgrun", 1}, {"reopen", 1}}
		n := rapid.IntRange(1, vkit.Scale(20, 30)).Draw(t, "steps")
		c := vkit.NewCase()
		defer c.Done()
		conflict, storedInBatch, storedLast, storedNotLast, bigConflict := false, false, false, false, false
		for i := 0; i < n; i++ {
			l := fmt.Sprintf("s%d", i)
			op := vgfGenOp(t, l, cfg, ws)
			if op.Name == "import" && !op.Clear {
				// shape of the batch relative to the stored values
				byCol := map[uint64][]uint64{}
				for j, col := range op.Cols {
					byCol[col] = append(byCol[col], op.Rows[j])
				}
				for col, rs := range byCol {
					distinct := map[uint64]bool{}
					for _, r := range rs {
						distinct[r] = true
					}
					if len(distinct) < 2 {
						continue
					}
					conflict = true
					if len(op.Cols) > 12 {
						bigConflict = true
					}
					for _, r0 := range m.nonEmptyRows() {
						if m.has(r0, col) && distinct[r0] {
							storedInBatch = true
							if rs[len(rs)-1] == r0 {
								storedLast = true
							} else {
								storedNotLast = true
							}
						}
					}
				}
			}
			m.apply(op)
			m.checkMutex()
			m.checkSome(l)
		}
		m.checkAll()
		m.apply(vgfOp{Name: "reopenNew"})
		m.checkAll()
		m.close()
		closed = true
		c.Key("c13", cfg.String(), m.hist)
		c.Class("kind:"+cfg.Kind).ClassIf(conflict, "batchRepeatsColumnWithDifferentRows").ClassIf(storedInBatch, "storedValueAppearsInConflictingBatch")
		c.ClassIf(storedLast, "storedValueIsLastEntry").ClassIf(storedNotLast, "storedValueIsEarlierEntry")
		for p := range m.paths {
			c.Class("path:" + p)
		}
		c.ClassIf(bigConflict, "bigBatchRepeatsColumnWithDifferentRows")
		c.NT(storedInBatch || bigConflict)
		c.Sample(map[string]interface{}{"cfg": cfg.String(), "history": m.hist})
	})
}
