package pilosa

// C17 (a) — algebraic laws of the reduce functions over generated partial results:
// f(a,b) ~ f(b,a), f(f(a,b),c) ~ f(a,f(b,c)), f(0,a) ~ a, and the fold over any permutation equals the
// naive model, where ~ is equality up to the documented freedom (order of pairs with equal counts;
// a ValCount with Count==0 carries no value).

import (
	"context"
	"fmt"
	"sort"
	"testing"

	"github.com/pilosa/pilosa/internal/vkit"
	"pgregory.net/rapid"
)

// ------------------------------------------------------------------ ValCount

func vc17GenValCounts(t *rapid.T, forSum bool) []ValCount {
	n := rapid.IntRange(1, 6).Draw(t, "n")
	pool := rapid.SliceOfN(rapid.Int64Range(-6, 6), 1, 3).Draw(t, "pool") // few values => ties
	out := make([]ValCount, n)
	for i := range out {
		cnt := rapid.SampledFrom([]int64{0, 0, 1, 1, 2, 3, 7}).Draw(t, fmt.Sprintf("cnt%d", i))
		v := pool[rapid.IntRange(0, len(pool)-1).Draw(t, fmt.Sprintf("v%d", i))]
		if rapid.IntRange(0, 5).Draw(t, fmt.Sprintf("big%d", i)) == 0 {
			v = rapid.Int64Range(-1<<40, 1<<40).Draw(t, fmt.Sprintf("bv%d", i))
		}
		if cnt == 0 && (forSum || rapid.Bool().Draw(t, fmt.Sprintf("z%d", i))) {
			v = 0 // a shard without columns; Min/Max of a shard without columns may carry the field's base as value
		}
		out[i] = ValCount{Val: v, Count: cnt}
	}
	return out
}

// vc17EqVC: ValCounts are equivalent when equal, or when both have Count 0 (no value).
func vc17EqVC(a, b ValCount) bool {
	if a.Count == 0 && b.Count == 0 {
		return true
	}
	return a == b
}

func vc17FoldVC(xs []ValCount, f func(acc *ValCount, x ValCount) ValCount) ValCount {
	var acc ValCount
	for _, x := range xs {
		acc = f(&acc, x)
	}
	return acc
}

func vc17Perm(t *rapid.T, n int, label string) []int {
	idx := make([]int, n)
	for i := range idx {
		idx[i] = i
	}
	return rapid.Permutation(idx).Draw(t, label)
}

func TestVerifC17_LawsValCount(t *testing.T) {
	defer vkit.Flush()
	rapid.Check(t, func(t *rapid.T) {
		op := rapid.SampledFrom([]string{"add", "smaller", "larger"}).Draw(t, "op")
		xs := vc17GenValCounts(t, op == "add")
		var f func(acc *ValCount, x ValCount) ValCount
		var want ValCount
		switch op {
		case "add":
			f = func(a *ValCount, x ValCount) ValCount { return a.add(x) }
			for _, x := range xs {
				want.Val += x.Val
				want.Count += x.Count
			}
		case "smaller", "larger":
			if op == "smaller" {
				f = func(a *ValCount, x ValCount) ValCount { return a.smaller(x) }
			} else {
				f = func(a *ValCount, x ValCount) ValCount { return a.larger(x) }
			}
			for _, x := range xs {
				if x.Count == 0 {
					continue
				}
				better := x.Val < want.Val
				if op == "larger" {
					better = x.Val > want.Val
				}
				if want.Count == 0 || better {
					want = x
				} else if x.Val == want.Val {
					want.Count += x.Count
				}
			}
		}
		c := vkit.NewCase().Key("vc", op, xs)
		defer c.Done()
		// fold in the given order and in a random permutation
		perm := vc17Perm(t, len(xs), "perm")
		ys := make([]ValCount, len(xs))
		for i, p := range perm {
			ys[i] = xs[p]
		}
		g1, g2 := vc17FoldVC(xs, f), vc17FoldVC(ys, f)
		if !vc17EqVC(g1, want) {
			t.Fatalf("%s folded over %v = %+v, want %+v", op, xs, g1, want)
		}
		if !vc17EqVC(g2, want) {
			t.Fatalf("%s folded over %v (a permutation of %v) = %+v, want %+v", op, ys, xs, g2, want)
		}
		// pairwise laws on the first three elements
		a, b := xs[0], xs[len(xs)/2]
		cc := xs[len(xs)-1]
		if ab, ba := f(&a, b), f(&b, a); !vc17EqVC(ab, ba) {
			t.Fatalf("%s not commutative: f(%+v,%+v)=%+v, f(%+v,%+v)=%+v", op, a, b, ab, b, a, ba)
		}
		ab, bc := f(&a, b), f(&b, cc)
		if l, r := f(&ab, cc), f(&a, bc); !vc17EqVC(l, r) {
			t.Fatalf("%s not associative on %+v,%+v,%+v: (ab)c=%+v a(bc)=%+v", op, a, b, cc, l, r)
		}
		var zero ValCount
		if za := f(&zero, a); !vc17EqVC(za, a) {
			t.Fatalf("%s: f(zero,%+v)=%+v", op, a, za)
		}
		if az := f(&a, zero); !vc17EqVC(az, a) {
			t.Fatalf("%s: f(%+v,zero)=%+v", op, a, az)
		}
		// non-trivial: at least two partial results with columns tie on the extreme / several non-empty addends
		ties := 0
		for _, x := range xs {
			if x.Count > 0 && (op == "add" || x.Val == want.Val) {
				ties++
			}
		}
		c.Class("op:" + op).ClassIf(ties >= 2 && op != "add", "tieOfExtreme").NT(ties >= 2)
		c.Sample(map[string]interface{}{"op": op, "partials": xs, "result": g1})
	})
}

// ------------------------------------------------------------------ Pairs.Add

func vc17GenPairs(t *rapid.T, label string) []Pair {
	ids := rapid.SliceOfNDistinct(rapid.Uint64Range(0, 7), 0, 6, func(x uint64) uint64 { return x }).Draw(t, label+".ids")
	out := make([]Pair, 0, len(ids))
	for i, id := range ids {
		out = append(out, Pair{ID: id, Count: rapid.Uint64Range(0, 4).Draw(t, fmt.Sprintf("%s.c%d", label, i))})
	}
	return out
}

func vc17PairMap(ps []Pair) map[uint64]uint64 {
	m := map[uint64]uint64{}
	for _, p := range ps {
		m[p.ID] += p.Count
	}
	return m
}

func vc17EqPairMaps(a, b map[uint64]uint64) bool {
	if len(a) != len(b) {
		return false
	}
	for k, v := range a {
		if w, ok := b[k]; !ok || w != v {
			return false
		}
	}
	return true
}

func vc17NoDupIDs(ps []Pair) bool {
	seen := map[uint64]bool{}
	for _, p := range ps {
		if seen[p.ID] {
			return false
		}
		seen[p.ID] = true
	}
	return true
}

func TestVerifC17_LawsPairs(t *testing.T) {
	defer vkit.Flush()
	rapid.Check(t, func(t *rapid.T) {
		n := rapid.IntRange(1, 5).Draw(t, "n")
		parts := make([][]Pair, n)
		want := map[uint64]uint64{}
		overlap := false
		for i := range parts {
			parts[i] = vc17GenPairs(t, fmt.Sprintf("p%d", i))
			for _, p := range parts[i] {
				if _, ok := want[p.ID]; ok {
					overlap = true
				}
				want[p.ID] += p.Count
			}
		}
		c := vkit.NewCase().Key("pairs", parts)
		defer c.Done()
		fold := func(order []int) []Pair {
			var acc []Pair
			for _, i := range order {
				in := append([]Pair(nil), parts[i]...)
				acc = Pairs(acc).Add(in)
				if !vc17EqPairMaps(vc17PairMap(in), vc17PairMap(parts[i])) {
					t.Fatalf("Pairs.Add changed its argument %v -> %v", parts[i], in)
				}
			}
			return acc
		}
		ident := make([]int, n)
		for i := range ident {
			ident[i] = i
		}
		perm := vc17Perm(t, n, "perm")
		g1, g2 := fold(ident), fold(perm)
		if !vc17NoDupIDs(g1) || !vc17EqPairMaps(vc17PairMap(g1), want) {
			t.Fatalf("Pairs.Add folded over %v = %v, want counts %v", parts, g1, want)
		}
		if !vc17NoDupIDs(g2) || !vc17EqPairMaps(vc17PairMap(g2), want) {
			t.Fatalf("Pairs.Add folded over %v in order %v = %v, want counts %v", parts, perm, g2, want)
		}
		// associativity with explicit grouping: (a+b)+c vs a+(b+c)
		if n >= 3 {
			a, b, cc := parts[0], parts[1], parts[2]
			l := Pairs(Pairs(a).Add(b)).Add(cc)
			r := Pairs(a).Add(Pairs(b).Add(cc))
			if !vc17EqPairMaps(vc17PairMap(l), vc17PairMap(r)) {
				t.Fatalf("Pairs.Add not associative on %v,%v,%v: %v vs %v", a, b, cc, l, r)
			}
		}
		c.ClassIf(overlap, "overlappingRowIDs").NT(overlap && n >= 2)
		c.Sample(map[string]interface{}{"partials": parts})
	})
}

// ------------------------------------------------------------------ RowIDs.merge

func vc17GenRowIDs(t *rapid.T, label string) RowIDs {
	ids := rapid.SliceOfNDistinct(rapid.Uint64Range(0, 12), 0, 7, func(x uint64) uint64 { return x }).Draw(t, label)
	sort.Slice(ids, func(i, j int) bool { return ids[i] < ids[j] })
	return RowIDs(ids)
}

func vc17EqU64(a, b []uint64) bool {
	if len(a) != len(b) {
		return false
	}
	for i := range a {
		if a[i] != b[i] {
			return false
		}
	}
	return true
}

func TestVerifC17_LawsRowIDs(t *testing.T) {
	defer vkit.Flush()
	rapid.Check(t, func(t *rapid.T) {
		n := rapid.IntRange(1, 5).Draw(t, "n")
		limit := rapid.SampledFrom([]int{1, 2, 3, 5, 100, int(^uint(0) >> 1)}).Draw(t, "limit")
		parts := make([]RowIDs, n)
		set := map[uint64]bool{}
		overlap := false
		for i := range parts {
			parts[i] = vc17GenRowIDs(t, fmt.Sprintf("p%d", i))
			// a shard never returns more than `limit` rows
			if len(parts[i]) > limit {
				parts[i] = parts[i][:limit]
			}
			for _, id := range parts[i] {
				if set[id] {
					overlap = true
				}
				set[id] = true
			}
		}
		var want []uint64
		for id := range set {
			want = append(want, id)
		}
		sort.Slice(want, func(i, j int) bool { return want[i] < want[j] })
		truncated := false
		if len(want) > limit {
			want = want[:limit]
			truncated = true
		}
		c := vkit.NewCase().Key("rowids", parts, limit)
		defer c.Done()
		fold := func(order []int) RowIDs {
			var acc RowIDs
			for _, i := range order {
				in := append(RowIDs(nil), parts[i]...)
				acc = acc.merge(in, limit)
			}
			return acc
		}
		ident := make([]int, n)
		for i := range ident {
			ident[i] = i
		}
		perm := vc17Perm(t, n, "perm")
		if g := fold(ident); !vc17EqU64(g, want) {
			t.Fatalf("RowIDs.merge(limit=%d) folded over %v = %v, want %v", limit, parts, g, want)
		}
		if g := fold(perm); !vc17EqU64(g, want) {
			t.Fatalf("RowIDs.merge(limit=%d) folded over %v in order %v = %v, want %v", limit, parts, perm, g, want)
		}
		if n >= 3 {
			a, b, cc := parts[0], parts[1], parts[2]
			l := a.merge(b, limit).merge(cc, limit)
			r := a.merge(b.merge(cc, limit), limit)
			if !vc17EqU64(l, r) {
				t.Fatalf("RowIDs.merge(limit=%d) not associative on %v,%v,%v: %v vs %v", limit, a, b, cc, l, r)
			}
		}
		c.ClassIf(overlap, "overlappingRowIDs").ClassIf(truncated, "limitTruncates").NT(overlap && n >= 2)
		c.Sample(map[string]interface{}{"partials": parts, "limit": limit})
	})
}

// ------------------------------------------------------------------ mergeGroupCounts

func vc17GenGroupCounts(t *rapid.T, label string, nfields int) []GroupCount {
	n := rapid.IntRange(0, 6).Draw(t, label+".n")
	seen := map[string]bool{}
	var out []GroupCount
	for i := 0; i < n; i++ {
		g := GroupCount{Count: rapid.Uint64Range(1, 4).Draw(t, fmt.Sprintf("%s.c%d", label, i))}
		key := ""
		for f := 0; f < nfields; f++ {
			id := rapid.Uint64Range(0, 3).Draw(t, fmt.Sprintf("%s.g%d.%d", label, i, f))
			g.Group = append(g.Group, FieldRow{Field: fmt.Sprintf("f%d", f), RowID: id})
			key += fmt.Sprint(id, ",")
		}
		if seen[key] {
			continue
		}
		seen[key] = true
		out = append(out, g)
	}
	sort.Slice(out, func(i, j int) bool { return out[i].Compare(out[j]) < 0 })
	return out
}

func vc17CloneGCs(a []GroupCount) []GroupCount {
	out := make([]GroupCount, len(a))
	for i, g := range a {
		out[i] = GroupCount{Group: append([]FieldRow(nil), g.Group...), Count: g.Count}
	}
	return out
}

func vc17GCKey(g GroupCount) string {
	s := ""
	for _, fr := range g.Group {
		s += fmt.Sprintf("%s=%d;", fr.Field, fr.RowID)
	}
	return s
}

func vc17EqGCs(a, b []GroupCount) bool {
	if len(a) != len(b) {
		return false
	}
	for i := range a {
		if vc17GCKey(a[i]) != vc17GCKey(b[i]) || a[i].Count != b[i].Count {
			return false
		}
	}
	return true
}

func TestVerifC17_LawsGroupCounts(t *testing.T) {
	defer vkit.Flush()
	rapid.Check(t, func(t *rapid.T) {
		n := rapid.IntRange(1, 5).Draw(t, "n")
		nfields := rapid.IntRange(1, 3).Draw(t, "nfields")
		limit := rapid.SampledFrom([]int{1, 2, 3, 5, 100, int(^uint(0) >> 1)}).Draw(t, "limit")
		parts := make([][]GroupCount, n)
		sum := map[string]*GroupCount{}
		overlap := false
		for i := range parts {
			parts[i] = vc17GenGroupCounts(t, fmt.Sprintf("p%d", i), nfields)
			if len(parts[i]) > limit { // a shard returns at most `limit` groups
				parts[i] = parts[i][:limit]
			}
			for _, g := range parts[i] {
				k := vc17GCKey(g)
				if sum[k] == nil {
					cp := vc17CloneGCs([]GroupCount{g})[0]
					cp.Count = 0
					sum[k] = &cp
				} else {
					overlap = true
				}
				sum[k].Count += g.Count
			}
		}
		var want []GroupCount
		for _, g := range sum {
			want = append(want, *g)
		}
		sort.Slice(want, func(i, j int) bool { return want[i].Compare(want[j]) < 0 })
		truncated := false
		if len(want) > limit {
			want = want[:limit]
			truncated = true
		}
		c := vkit.NewCase().Key("gc", fmt.Sprint(parts), limit)
		defer c.Done()
		fold := func(order []int) []GroupCount {
			var acc []GroupCount
			for _, i := range order {
				acc = mergeGroupCounts(acc, vc17CloneGCs(parts[i]), limit) // it may modify its arguments
			}
			return acc
		}
		ident := make([]int, n)
		for i := range ident {
			ident[i] = i
		}
		perm := vc17Perm(t, n, "perm")
		if g := fold(ident); !vc17EqGCs(g, want) {
			t.Fatalf("mergeGroupCounts(limit=%d) folded over %v = %v, want %v", limit, parts, g, want)
		}
		if g := fold(perm); !vc17EqGCs(g, want) {
			t.Fatalf("mergeGroupCounts(limit=%d) folded over %v in order %v = %v, want %v", limit, parts, perm, g, want)
		}
		if n >= 3 {
			l := mergeGroupCounts(mergeGroupCounts(vc17CloneGCs(parts[0]), vc17CloneGCs(parts[1]), limit), vc17CloneGCs(parts[2]), limit)
			r := mergeGroupCounts(vc17CloneGCs(parts[0]), mergeGroupCounts(vc17CloneGCs(parts[1]), vc17CloneGCs(parts[2]), limit), limit)
			if !vc17EqGCs(l, r) {
				t.Fatalf("mergeGroupCounts(limit=%d) not associative on %v: %v vs %v", limit, parts[:3], l, r)
			}
		}
		c.Class("fields:%d", nfields).ClassIf(overlap, "overlappingGroups").ClassIf(truncated, "limitTruncates").NT(overlap && n >= 2)
		c.Sample(map[string]interface{}{"partials": fmt.Sprint(parts), "limit": limit})
	})
}

// ------------------------------------------------------------------ Row.Merge

func vc17GenRowCols(t *rapid.T, label string) []uint64 {
	n := rapid.IntRange(0, 6).Draw(t, label+".n")
	var cols []uint64
	for i := 0; i < n; i++ {
		sh := rapid.SampledFrom([]uint64{0, 1, 2, 5}).Draw(t, fmt.Sprintf("%s.sh%d", label, i))
		off := rapid.SampledFrom([]uint64{0, 1, 2, 65535, 65536, ShardWidth - 1}).Draw(t, fmt.Sprintf("%s.off%d", label, i))
		cols = append(cols, sh*ShardWidth+off)
	}
	return cols
}

func TestVerifC17_LawsRowMerge(t *testing.T) {
	defer vkit.Flush()
	rapid.Check(t, func(t *rapid.T) {
		n := rapid.IntRange(1, 5).Draw(t, "n")
		parts := make([][]uint64, n)
		set := map[uint64]bool{}
		shardSeen := map[uint64]int{}
		for i := range parts {
			parts[i] = vc17GenRowCols(t, fmt.Sprintf("r%d", i))
			sh := map[uint64]bool{}
			for _, c := range parts[i] {
				set[c] = true
				sh[c/ShardWidth] = true
			}
			for s := range sh {
				shardSeen[s]++
			}
		}
		sameShard := false
		for _, k := range shardSeen {
			if k > 1 {
				sameShard = true
			}
		}
		var want []uint64
		for c := range set {
			want = append(want, c)
		}
		sort.Slice(want, func(i, j int) bool { return want[i] < want[j] })
		c := vkit.NewCase().Key("rowmerge", parts)
		defer c.Done()
		fold := func(order []int) *Row {
			acc := NewRow()
			for _, i := range order {
				other := NewRow(parts[i]...)
				acc.Merge(other)
				if got := other.Columns(); !vc17EqU64(got, vc17SortedUniq(parts[i])) {
					t.Fatalf("Row.Merge changed its argument: %v -> %v", parts[i], got)
				}
			}
			return acc
		}
		ident := make([]int, n)
		for i := range ident {
			ident[i] = i
		}
		perm := vc17Perm(t, n, "perm")
		for _, order := range [][]int{ident, perm} {
			g := fold(order)
			if got := g.Columns(); !vc17EqU64(got, want) {
				t.Fatalf("Row.Merge folded over %v in order %v: columns %v, want %v", parts, order, got, want)
			}
			if g.Count() != uint64(len(want)) {
				t.Fatalf("Row.Merge folded over %v in order %v: Count()=%d, want %d", parts, order, g.Count(), len(want))
			}
		}
		c.ClassIf(sameShard, "partialsShareAShard").NT(len(shardSeen) >= 2 && n >= 2)
		c.Sample(map[string]interface{}{"partials": parts})
	})
}

func vc17SortedUniq(a []uint64) []uint64 {
	m := map[uint64]bool{}
	var out []uint64
	for _, x := range a {
		if !m[x] {
			m[x] = true
			out = append(out, x)
		}
	}
	sort.Slice(out, func(i, j int) bool { return out[i] < out[j] })
	return out
}

// ------------------------------------------------------------------ the lever of the arrival-order check

// TestVerifC17_Lever: with one executor worker, mapperLocal runs the shard jobs and feeds the reducer in exactly the
// order of the shards slice (which API.Query takes from QueryRequest.Shards and shardsByNode keeps per node).
func TestVerifC17_Lever(t *testing.T) {
	defer vkit.Flush()
	e := newExecutor(optExecutorWorkerPoolSize(1))
	defer e.Close()
	rapid.Check(t, func(t *rapid.T) {
		shards := rapid.SliceOfNDistinct(rapid.Uint64Range(0, 9), 1, 6, func(x uint64) uint64 { return x }).Draw(t, "shards")
		c := vkit.NewCase().Key("lever", shards)
		defer c.Done()
		var mapped, reduced []uint64
		mapFn := func(shard uint64) (interface{}, error) {
			mapped = append(mapped, shard) // one worker: no concurrent append
			return shard, nil
		}
		reduceFn := func(prev, v interface{}) interface{} {
			reduced = append(reduced, v.(uint64))
			return v
		}
		if _, err := e.mapperLocal(context.Background(), shards, mapFn, reduceFn); err != nil {
			t.Fatalf("mapperLocal: %v", err)
		}
		if !vc17EqU64(mapped, shards) || !vc17EqU64(reduced, shards) {
			t.Fatalf("one worker, shards %v: jobs ran in order %v, results were reduced in order %v", shards, mapped, reduced)
		}
		c.NT(len(shards) >= 3).Sample(map[string]interface{}{"shards": shards})
	})
}
