package pilosa

// C06 — stored fragment data: a fragment file replaced by malformed bytes must make fragment.Open return an error
// (or be usable), never panic: fragments are opened at server start-up, outside any recover.

import (
	"fmt"
	"io/ioutil"
	"os"
	"path/filepath"
	"strings"
	"testing"
	"time"

	"github.com/pilosa/pilosa/internal/vkit"
	"pgregory.net/rapid"
)

func vc06Try(f func()) (pv interface{}) {
	defer func() {
		if r := recover(); r != nil {
			pv = r
		}
	}()
	f()
	return nil
}

// a real fragment file with containers and an op log, produced by the code itself
func vc06RealFragmentFile(dir string) []byte {
	path := filepath.Join(dir, "seed")
	os.Remove(path)
	os.Remove(path + ".cache")
	f := newFragment(path, "i", "f", viewStandard, 0, 0)
	f.CacheType = DefaultCacheType
	f.RowAttrStore = &memAttrStore{store: make(map[uint64]map[string]interface{})}
	f.snapshotQueue = newSnapshotQueue(1, 1, nil)
	if err := f.Open(); err != nil {
		panic(err)
	}
	for c := uint64(0); c < 30; c++ {
		f.setBit(1, c*3)
	}
	f.setBit(2, 70000)
	if err := f.Snapshot(); err != nil {
		panic(err)
	}
	// ops after the snapshot: single ops, a batch, a roaring import
	f.setBit(3, 5)
	f.clearBit(1, 3)
	f.bulkImport([]uint64{4, 4, 5}, []uint64{1, 2, 3}, &ImportOptions{})
	enc := vc06EncodePilosa([]vc06Cont{{Key: 0, Typ: 1, Vals: []uint16{100, 101}}})
	f.importRoaring(nil, enc.Data, false)
	f.Close()
	data, err := ioutil.ReadFile(path)
	if err != nil {
		panic(err)
	}
	return data
}

func TestVerifC06_StoredFragment(t *testing.T) {
	defer vkit.Flush()
	dir := t.TempDir()
	seed := vc06RealFragmentFile(dir)
	counter := 0
	rapid.Check(t, func(t *rapid.T) {
		var data []byte
		var label string
		if rapid.Bool().Draw(t, "real") {
			// the real file: mutate mostly the op log that follows the containers
			data = append([]byte(nil), seed...)
			label = "realfile:"
			switch rapid.IntRange(0, 5).Draw(t, "rmut") {
			case 0:
				data = data[:rapid.IntRange(0, len(data)).Draw(t, "cut")]
				label += "truncate"
			case 1:
				n := rapid.IntRange(1, 3).Draw(t, "nflip")
				for i := 0; i < n; i++ {
					data[rapid.IntRange(0, len(data)-1).Draw(t, "pos")] = rapid.Byte().Draw(t, "byte")
				}
				label += "flip"
			case 2:
				// flip in the last 120 bytes (op log)
				lo := len(data) - 120
				if lo < 0 {
					lo = 0
				}
				data[rapid.IntRange(lo, len(data)-1).Draw(t, "pos")] = rapid.Byte().Draw(t, "byte")
				label += "flip-oplog"
			case 3:
				data = append(data, rapid.SliceOfN(rapid.Byte(), 1, 40).Draw(t, "tail")...)
				label += "append"
			case 4:
				// an op header with a huge length
				op := []byte{byte(rapid.IntRange(0, 7).Draw(t, "optype")), 0xff, 0xff, 0xff, 0xff, 0xff, 0xff, 0xff, byte(rapid.SampledFrom([]int{0x7f, 0xff, 0x00}).Draw(t, "ophigh")), 1, 2, 3, 4}
				data = append(data, op...)
				label += "huge-op"
			default:
				label += "none"
			}
		} else {
			var kind string
			data, kind, _, _ = vc06GenPayload(t)
			label = "encoded:" + kind
		}
		counter++
		path := filepath.Join(dir, fmt.Sprintf("frag%d", counter))
		if err := ioutil.WriteFile(path, data, 0600); err != nil {
			t.Fatalf("writing fragment file: %v", err)
		}
		defer os.Remove(path)
		defer os.Remove(path + ".cache")
		c := vkit.NewCase().Key("stored", data)
		defer c.Done()
		for _, cl := range vc06LabelClasses(strings.Replace(label, "encoded:", "", 1)) {
			c.Class("stored-" + cl)
		}
		head := data
		if len(head) > 64 {
			head = head[:64]
		}
		c.Sample(map[string]interface{}{"mutation": label, "len": len(data), "head": fmt.Sprintf("%x", head)})

		f := newFragment(path, "i", "f", viewStandard, 0, 0)
		f.CacheType = DefaultCacheType
		f.RowAttrStore = &memAttrStore{store: make(map[uint64]map[string]interface{})}
		f.snapshotQueue = newSnapshotQueue(1, 1, nil)
		var err error
		if pv := vc06Try(func() { err = f.Open() }); pv != nil {
			t.Fatalf("fragment.Open panics on stored data %s (%d bytes, head %x): %v", label, len(data), head, pv)
		}
		c.ClassIf(err == nil, "accepted").ClassIf(err != nil, "rejected")
		c.NT(err == nil || len(data) >= 8)
		if err != nil {
			vc06Try(func() { f.Close() })
			return
		}
		_, ref := vc06RefDecode(data)
		if ref != vc06RefConsistent && vkit.Open("DP10") && label != "realfile:none" {
			vkit.Excluded("DP10")
			c.Class("DP10-accepted-inconsistent")
			vc06Try(func() { f.Close() })
			return
		}
		// what the server does with an opened fragment
		for _, st := range []struct {
			name string
			f    func()
		}{
			{"row", func() { f.row(1).Count() }},
			{"rows", func() { f.rows(0) }},
			{"setBit", func() { f.setBit(1, 9) }},
			{"clearBit", func() { f.clearBit(1, 9) }},
			{"Blocks", func() { f.Blocks() }},
			{"Snapshot", func() { f.Snapshot() }},
			{"Close", func() { f.Close() }},
		} {
			if pv := vc06Try(st.f); pv != nil {
				t.Fatalf("after fragment.Open accepted stored data %s (%d bytes, head %x) %s panics: %v", label, len(data), head, st.name, pv)
			}
		}
	})
}

// DP15: handlePrimaryStoreEvent closed the replication channel on every change of the primary translate store but
// replaced it only when the new primary is a remote store: two changes in a row without one (this node became the
// coordinator, then another node did) closed the same channel twice. The panic is raised in the store's own goroutine,
// so a sequence of well-formed SetCoordinator / ClusterStatus messages stopped the server.
func TestVerifWitness_DP15(t *testing.T) {
	s := NewTranslateFile()
	s.Path = filepath.Join(t.TempDir(), "keys")
	if err := s.Open(); err != nil {
		t.Fatal(err)
	}
	defer s.Close()
	for _, id := range []string{"node-a", "node-b", "", "node-c"} {
		// no remote store object: nothing is replicated, only the bookkeeping of the change runs
		if pv := vc06Try(func() { s.handlePrimaryStoreEvent(primaryStoreEvent{id: id, ts: nil}) }); pv != nil {
			t.Fatalf("changing the primary translate store to %q panics: %v", id, pv)
		}
	}
}

// DP16 (open): handlePrimaryStoreEvent waits for the replication goroutine while holding the store's mutex, and that
// goroutine needs the mutex (replicate -> size()): changing the primary while a replication is starting deadlocks,
// and every later key translation blocks on the mutex.
func TestVerifWitness_DP16(t *testing.T) {
	s := NewTranslateFile()
	s.Path = filepath.Join(t.TempDir(), "keys")
	if err := s.Open(); err != nil {
		t.Fatal(err)
	}
	done := make(chan struct{})
	go func() {
		defer close(done)
		for _, id := range []string{"node-a", "node-b", "node-c", "node-d"} {
			s.handlePrimaryStoreEvent(primaryStoreEvent{id: id, ts: newNopTranslateStore(nil)})
		}
	}()
	select {
	case <-done:
		s.Close()
	case <-time.After(10 * time.Second):
		t.Fatalf("changing the primary translate store while a replication is running did not return within 10s (deadlock on TranslateFile.mu)")
	}
}
