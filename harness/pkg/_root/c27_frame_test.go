package pilosa

// C27 — framing of internal messages: every message handled by Server.receiveMessage must have a type byte,
// getMessageType and getMessage must be mutually inverse, and MarshalInternalMessage -> getMessage(type) ->
// Unmarshal must give back the value. (The real protobuf Serializer cannot be imported here — import cycle —
// so the payload is carried by a JSON serializer; the protobuf round trip of every type is checked in
// harness/pkg/encoding/proto.)

import (
	"encoding/json"
	"fmt"
	"go/ast"
	"go/parser"
	"go/token"
	"os"
	"path/filepath"
	"reflect"
	"sort"
	"strings"
	"testing"

	"github.com/pilosa/pilosa/internal/vkit"
)

type vc27JSONSerializer struct{}

func (vc27JSONSerializer) Marshal(m Message) ([]byte, error)   { return json.Marshal(m) }
func (vc27JSONSerializer) Unmarshal(b []byte, m Message) error { return json.Unmarshal(b, m) }

// one value of every message type that is broadcast between nodes
func vc27Broadcastable() []Message {
	node := &Node{ID: "node1", URI: URI{Scheme: "http", Host: "h", Port: 1}, State: "READY"}
	return []Message{
		&CreateShardMessage{Index: "i", Field: "f", Shard: 3},
		&CreateIndexMessage{Index: "i", Meta: &IndexOptions{Keys: true}},
		&DeleteIndexMessage{Index: "i"},
		&CreateFieldMessage{Index: "i", Field: "f", Meta: &FieldOptions{Type: "set"}},
		&DeleteFieldMessage{Index: "i", Field: "f"},
		&DeleteAvailableShardMessage{Index: "i", Field: "f", ShardID: 7},
		&CreateViewMessage{Index: "i", Field: "f", View: "v"},
		&DeleteViewMessage{Index: "i", Field: "f", View: "v"},
		&ClusterStatus{ClusterID: "c", State: "NORMAL", Nodes: []*Node{node}},
		&ResizeInstruction{JobID: 5, Node: node, Coordinator: node},
		&ResizeInstructionComplete{JobID: 5, Node: node, Error: "e"},
		&SetCoordinatorMessage{New: node},
		&UpdateCoordinatorMessage{New: node},
		&NodeStateMessage{NodeID: "node1", State: "READY"},
		&RecalculateCaches{},
		&NodeEvent{Event: NodeJoin, Node: node},
		&NodeStatus{Node: node, Schema: &Schema{}},
	}
}

func vc27TypeSwitchCases(rel, recv, fn string) ([]string, error) {
	root := os.Getenv("VERIF_REPO")
	if root == "" {
		return nil, fmt.Errorf("VERIF_REPO is not set")
	}
	fset := token.NewFileSet()
	f, err := parser.ParseFile(fset, filepath.Join(root, rel), nil, 0)
	if err != nil {
		return nil, err
	}
	var out []string
	found := false
	for _, d := range f.Decls {
		fd, ok := d.(*ast.FuncDecl)
		if !ok || fd.Name.Name != fn {
			continue
		}
		ast.Inspect(fd.Body, func(n ast.Node) bool {
			ts, ok := n.(*ast.TypeSwitchStmt)
			if !ok || found {
				return true
			}
			found = true
			for _, st := range ts.Body.List {
				for _, e := range st.(*ast.CaseClause).List {
					if se, ok := e.(*ast.StarExpr); ok {
						if id, ok := se.X.(*ast.Ident); ok {
							out = append(out, "*pilosa."+id.Name)
						}
					}
				}
			}
			return false
		})
	}
	if !found {
		return nil, fmt.Errorf("no type switch in %s", fn)
	}
	sort.Strings(out)
	return out, nil
}

func vc27Try(f func()) (pv interface{}) {
	defer func() { pv = recover() }()
	f()
	return nil
}

func TestVerifC27_Framing(t *testing.T) {
	defer vkit.Flush()
	msgs := vc27Broadcastable()
	var reg []string
	for _, m := range msgs {
		reg = append(reg, fmt.Sprintf("%T", m))
	}
	sort.Strings(reg)
	// the registry must be exactly the set of types Server.receiveMessage handles
	handled, err := vc27TypeSwitchCases("server.go", "Server", "receiveMessage")
	if err != nil {
		t.Fatalf("reading Server.receiveMessage: %v", err)
	}
	if strings.Join(handled, " ") != strings.Join(reg, " ") {
		t.Fatalf("harness registry out of date: receiveMessage handles\n  %v\nregistry\n  %v", handled, reg)
	}
	// message -> type -> message
	seenType := map[byte]string{}
	for _, m := range msgs {
		name := fmt.Sprintf("%T", m)
		c := vkit.NewCase().Key("msg", name)
		c.Class("message:" + name).NT(true).Sample(map[string]interface{}{"message": name})
		var typ byte
		if pv := vc27Try(func() { typ = getMessageType(m) }); pv != nil {
			c.Done()
			t.Fatalf("getMessageType(%s) panics: %v — the message is handled by receiveMessage but cannot be sent", name, pv)
		}
		if other, dup := seenType[typ]; dup {
			t.Fatalf("%s and %s share the type byte %d", name, other, typ)
		}
		seenType[typ] = name
		var back Message
		if pv := vc27Try(func() { back = getMessage(typ) }); pv != nil || back == nil {
			t.Fatalf("getMessage(%d) (the type of %s) gives %v (panic %v)", typ, name, back, pv)
		}
		if got := fmt.Sprintf("%T", back); got != name {
			t.Fatalf("getMessage(getMessageType(%s)) is a %s", name, got)
		}
		// framed round trip
		buf, err := MarshalInternalMessage(m, vc27JSONSerializer{})
		if err != nil {
			t.Fatalf("MarshalInternalMessage(%s): %v", name, err)
		}
		out := getMessage(buf[0])
		if err := (vc27JSONSerializer{}).Unmarshal(buf[1:], out); err != nil {
			t.Fatalf("unframing %s: %v", name, err)
		}
		if !reflect.DeepEqual(out, m) {
			t.Fatalf("framed round trip of %s: sent %+v, received %+v", name, m, out)
		}
		c.Done()
	}
	// type -> message -> type, for every byte; unknown bytes must not panic (they come from the network)
	for typ := 0; typ < 256; typ++ {
		c := vkit.NewCase().Key("type", typ)
		c.Class("typebyte").NT(seenType[byte(typ)] != "")
		var m Message
		pv := vc27Try(func() { m = getMessage(byte(typ)) })
		c.Done()
		if pv != nil {
			t.Fatalf("getMessage(%d) panics: %v", typ, pv)
		}
		if m == nil {
			if seenType[byte(typ)] != "" {
				t.Fatalf("getMessage(%d) knows no message although %s has this type", typ, seenType[byte(typ)])
			}
			continue
		}
		var back byte
		if pv := vc27Try(func() { back = getMessageType(m) }); pv != nil || int(back) != typ {
			t.Fatalf("getMessageType(getMessage(%d)) = %d (panic %v)", typ, back, pv)
		}
	}
	vkit.Extra("exhaustive", true)
	vkit.Extra("broadcastable_types", len(msgs))
}

// D27: DeleteAvailableShardMessage had encode/decode code and a receiveMessage case but no type byte.
func TestVerifWitness_D27(t *testing.T) {
	var typ byte
	if pv := vc27Try(func() { typ = getMessageType(&DeleteAvailableShardMessage{Index: "i", Field: "f", ShardID: 1}) }); pv != nil {
		t.Fatalf("getMessageType(*DeleteAvailableShardMessage) panics (API.DeleteAvailableShard cannot send it): %v", pv)
	}
	var m Message
	if pv := vc27Try(func() { m = getMessage(typ) }); pv != nil {
		t.Fatalf("getMessage(%d) panics: %v", typ, pv)
	}
	if _, ok := m.(*DeleteAvailableShardMessage); !ok {
		t.Fatalf("getMessage(%d) is a %T", typ, m)
	}
}

// D5 (framing part): an unknown type byte must not panic.
func TestVerifWitness_D5_GetMessage(t *testing.T) {
	if pv := vc27Try(func() { getMessage(200) }); pv != nil {
		t.Fatalf("getMessage(200) panics: %v (reachable from gossip NotifyMsg without recover)", pv)
	}
}
