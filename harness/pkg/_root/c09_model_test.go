package pilosa

// C09 — history format, generator and the sequential reference model.
//
// A history is a schema plus a list of writes executed one after the other by a
// single client against a real in-process node (vgcOpenNode). The model keeps the
// exact content every fragment must have after each prefix of the history:
// bit positions (row*ShardWidth + col%ShardWidth) per (field, view, shard) for
// set/mutex/bool/time/existence fragments and column->value for the int field.

import (
	"fmt"
	"sort"
	"strings"
	"time"

	"github.com/pilosa/pilosa/internal/vkit"
	"pgregory.net/rapid"
)

const (
	vc09Index = "i"
	vc09BSI   = "bsig_v" // view of int field v
)

type vc09Schema struct {
	IndexKeys      bool   `json:"indexKeys"`
	TrackExistence bool   `json:"trackExistence"`
	Quantum        string `json:"quantum"`
	NoStandardView bool   `json:"noStandardView"` // time field t
	IntMin         int64  `json:"intMin"`
	IntMax         int64  `json:"intMax"`
	MaxOpN         int    `json:"maxOpN"` // applied to every fragment after each write (0 = leave the default)
}

// vc09Write is one acknowledged-or-not write of the history.
// Kinds: set clear setval import importclear importvalue roaring roaringclear store clearrow
type vc09Write struct {
	Kind    string   `json:"kind"`
	Field   string   `json:"field"`
	Row     uint64   `json:"row,omitempty"`
	RowKey  string   `json:"rowKey,omitempty"`
	Col     uint64   `json:"col,omitempty"`
	ColKey  string   `json:"colKey,omitempty"`
	TS      string   `json:"ts,omitempty"` // TimeFormat, time field only
	Val     int64    `json:"val,omitempty"`
	Src     uint64   `json:"src,omitempty"` // store: source row
	Rows    []uint64 `json:"rows,omitempty"`
	RowKeys []string `json:"rowKeys,omitempty"`
	Cols    []uint64 `json:"cols,omitempty"`
	ColKeys []string `json:"colKeys,omitempty"`
	TSs     []string `json:"tss,omitempty"` // "" = no timestamp
	Vals    []int64  `json:"vals,omitempty"`
	Shard   uint64   `json:"shard,omitempty"`
}

type vc09History struct {
	Dir    string      `json:"dir"`
	Schema vc09Schema  `json:"schema"`
	Writes []vc09Write `json:"writes"`
}

func (w vc09Write) String() string {
	var b strings.Builder
	fmt.Fprintf(&b, "%s(%s", w.Kind, w.Field)
	short := func(s string) string {
		if len(s) > 12 {
			return fmt.Sprintf("%s..(%d)", s[:8], len(s))
		}
		return s
	}
	switch w.Kind {
	case "set", "clear":
		if w.RowKey != "" {
			fmt.Fprintf(&b, " row=%q", short(w.RowKey))
		} else {
			fmt.Fprintf(&b, " row=%d", w.Row)
		}
		if w.ColKey != "" {
			fmt.Fprintf(&b, " col=%q", short(w.ColKey))
		} else {
			fmt.Fprintf(&b, " col=%d", w.Col)
		}
		if w.TS != "" {
			fmt.Fprintf(&b, " ts=%s", w.TS)
		}
	case "setval":
		if w.ColKey != "" {
			fmt.Fprintf(&b, " col=%q", short(w.ColKey))
		} else {
			fmt.Fprintf(&b, " col=%d", w.Col)
		}
		fmt.Fprintf(&b, " val=%d", w.Val)
	case "store":
		fmt.Fprintf(&b, " src=%d dst=%d", w.Src, w.Row)
	case "clearrow":
		fmt.Fprintf(&b, " row=%d", w.Row)
	default:
		n := len(w.Cols)
		if n == 0 {
			n = len(w.ColKeys)
		}
		fmt.Fprintf(&b, " shard=%d n=%d", w.Shard, n)
		if n <= 6 {
			if len(w.RowKeys) > 0 {
				b.WriteString(" rowKeys=[")
				for _, k := range w.RowKeys {
					b.WriteString(short(k) + " ")
				}
				b.WriteString("]")
			} else if len(w.Rows) > 0 {
				fmt.Fprintf(&b, " rows=%v", w.Rows)
			}
			if len(w.ColKeys) > 0 {
				b.WriteString(" colKeys=[")
				for _, k := range w.ColKeys {
					b.WriteString(short(k) + " ")
				}
				b.WriteString("]")
			} else {
				fmt.Fprintf(&b, " cols=%v", w.Cols)
			}
			if len(w.Vals) > 0 {
				fmt.Fprintf(&b, " vals=%v", w.Vals)
			}
			if len(w.TSs) > 0 {
				fmt.Fprintf(&b, " tss=%v", w.TSs)
			}
		}
	}
	b.WriteString(")")
	return b.String()
}

func (h *vc09History) describe() string {
	var b strings.Builder
	fmt.Fprintf(&b, "schema=%+v writes=[", h.Schema)
	for i, w := range h.Writes {
		if i > 0 {
			b.WriteString("; ")
		}
		fmt.Fprintf(&b, "%d:%s", i, w.String())
	}
	b.WriteString("]")
	return b.String()
}

// ---------------------------------------------------------------------------
// model

type vc09FragKey struct {
	Field string
	View  string
	Shard uint64
}

func (k vc09FragKey) String() string { return fmt.Sprintf("%s/%s/%d", k.Field, k.View, k.Shard) }

type vc09State struct {
	Bits map[vc09FragKey]map[uint64]bool
	Vals map[uint64]int64 // int field v: absolute column -> value
}

func vc09NewState() *vc09State {
	return &vc09State{Bits: map[vc09FragKey]map[uint64]bool{}, Vals: map[uint64]int64{}}
}

func (s *vc09State) clone() *vc09State {
	c := vc09NewState()
	for k, m := range s.Bits {
		mm := make(map[uint64]bool, len(m))
		for p := range m {
			mm[p] = true
		}
		c.Bits[k] = mm
	}
	for k, v := range s.Vals {
		c.Vals[k] = v
	}
	return c
}

func (s *vc09State) frag(field, view string, shard uint64) map[uint64]bool {
	k := vc09FragKey{field, view, shard}
	m := s.Bits[k]
	if m == nil {
		m = map[uint64]bool{}
		s.Bits[k] = m
	}
	return m
}

func (s *vc09State) setBit(field, view string, row, col uint64) {
	s.frag(field, view, col/ShardWidth)[row*ShardWidth+col%ShardWidth] = true
}

func (s *vc09State) clearBit(field, view string, row, col uint64) {
	k := vc09FragKey{field, view, col / ShardWidth}
	if m := s.Bits[k]; m != nil {
		delete(m, row*ShardWidth+col%ShardWidth)
	}
}

// views of a field that exist in the model (sorted).
func (s *vc09State) views(field string) []string {
	seen := map[string]bool{}
	for k := range s.Bits {
		if k.Field == field {
			seen[k.View] = true
		}
	}
	var out []string
	for v := range seen {
		out = append(out, v)
	}
	sort.Strings(out)
	return out
}

// shards of the index that hold a fragment (what Store/ClearRow iterate over).
func (s *vc09State) shards() []uint64 {
	seen := map[uint64]bool{}
	for k := range s.Bits {
		seen[k.Shard] = true
	}
	for c := range s.Vals {
		seen[c/ShardWidth] = true
	}
	var out []uint64
	for v := range seen {
		out = append(out, v)
	}
	sort.Slice(out, func(i, j int) bool { return out[i] < out[j] })
	return out
}

// vc09IDs resolves keys to the ids the run assigned.
type vc09IDs struct {
	Col map[string]uint64            // column key -> id
	Row map[string]map[string]uint64 // field -> row key -> id
}

func (ids *vc09IDs) col(w *vc09Write, i int) uint64 {
	if i < 0 {
		if w.ColKey != "" {
			return ids.Col[w.ColKey]
		}
		return w.Col
	}
	if len(w.ColKeys) > 0 {
		return ids.Col[w.ColKeys[i]]
	}
	return w.Cols[i]
}

func (ids *vc09IDs) row(w *vc09Write, i int) uint64 {
	if i < 0 {
		if w.RowKey != "" {
			return ids.Row[w.Field][w.RowKey]
		}
		return w.Row
	}
	if len(w.RowKeys) > 0 {
		return ids.Row[w.Field][w.RowKeys[i]]
	}
	return w.Rows[i]
}

func vc09FieldType(field string) string {
	switch field {
	case "m":
		return FieldTypeMutex
	case "b":
		return FieldTypeBool
	case "t":
		return FieldTypeTime
	case "v":
		return FieldTypeInt
	}
	return FieldTypeSet // s, k
}

func vc09ParseTS(ts string) time.Time {
	t, err := time.Parse(TimeFormat, ts)
	if err != nil {
		panic(err)
	}
	return t
}

// apply executes w on the model.
func (s *vc09State) apply(sc *vc09Schema, w *vc09Write, ids *vc09IDs) {
	exist := func(col uint64) {
		if sc.TrackExistence {
			s.setBit(existenceFieldName, viewStandard, 0, col)
		}
	}
	ft := vc09FieldType(w.Field)
	setOne := func(row, col uint64, ts string) {
		if ft == FieldTypeMutex || ft == FieldTypeBool {
			// a mutex column holds one row: drop the others
			m := s.frag(w.Field, viewStandard, col/ShardWidth)
			for p := range m {
				if p%ShardWidth == col%ShardWidth && p/ShardWidth != row {
					delete(m, p)
				}
			}
		}
		if !(ft == FieldTypeTime && sc.NoStandardView) {
			// a noStandardView time field stores nothing for a bit without timestamp
			s.setBit(w.Field, viewStandard, row, col)
		}
		if ts != "" {
			for _, v := range viewsByTime(viewStandard, vc09ParseTS(ts), TimeQuantum(sc.Quantum)) {
				s.setBit(w.Field, v, row, col)
			}
		}
	}
	switch w.Kind {
	case "set":
		col := ids.col(w, -1)
		exist(col)
		setOne(ids.row(w, -1), col, w.TS)
	case "clear":
		col, row := ids.col(w, -1), ids.row(w, -1)
		// Field.ClearBit: a missing standard view makes the call a no-op
		if _, ok := s.Bits[vc09FragKey{w.Field, viewStandard, col / ShardWidth}]; !ok && len(s.views(w.Field)) == 0 {
			return
		}
		for _, v := range s.views(w.Field) {
			s.clearBit(w.Field, v, row, col)
		}
	case "setval":
		col := ids.col(w, -1)
		exist(col)
		s.Vals[col] = w.Val
	case "import":
		n := len(w.Cols) + len(w.ColKeys)
		for i := 0; i < n; i++ {
			exist(ids.col(w, i))
		}
		for i := 0; i < n; i++ {
			ts := ""
			if len(w.TSs) > 0 {
				ts = w.TSs[i]
			}
			setOne(ids.row(w, i), ids.col(w, i), ts)
		}
	case "importclear":
		n := len(w.Cols) + len(w.ColKeys)
		for i := 0; i < n; i++ {
			if ft == FieldTypeTime {
				// a clear import cannot carry timestamps: it clears every view, as Clear() does
				for _, v := range s.views(w.Field) {
					s.clearBit(w.Field, v, ids.row(w, i), ids.col(w, i))
				}
				continue
			}
			s.clearBit(w.Field, viewStandard, ids.row(w, i), ids.col(w, i))
		}
	case "importvalue":
		n := len(w.Cols) + len(w.ColKeys)
		for i := 0; i < n; i++ {
			col := ids.col(w, i)
			exist(col)
			s.Vals[col] = w.Vals[i]
		}
	case "roaring":
		for i := range w.Cols {
			s.setBit(w.Field, viewStandard, w.Rows[i], w.Cols[i])
		}
	case "roaringclear":
		for i := range w.Cols {
			s.clearBit(w.Field, viewStandard, w.Rows[i], w.Cols[i])
		}
	case "store":
		for _, sh := range s.shards() {
			m := s.frag(w.Field, viewStandard, sh)
			var src []uint64
			for p := range m {
				if p/ShardWidth == w.Src {
					src = append(src, p%ShardWidth)
				}
			}
			for p := range m {
				if p/ShardWidth == w.Row {
					delete(m, p)
				}
			}
			for _, c := range src {
				m[w.Row*ShardWidth+c] = true
			}
		}
	case "clearrow":
		for _, v := range s.views(w.Field) {
			for _, sh := range s.shards() {
				k := vc09FragKey{w.Field, v, sh}
				for p := range s.Bits[k] {
					if p/ShardWidth == w.Row {
						delete(s.Bits[k], p)
					}
				}
			}
		}
	default:
		panic("vc09: unknown write kind " + w.Kind)
	}
}

// ---------------------------------------------------------------------------
// generator

var vc09ColPool = []uint64{0, 1, 2, 3, 65535, 65536, ShardWidth - 1, ShardWidth, ShardWidth + 1, 2*ShardWidth + 5}
var vc09RowPool = []uint64{0, 1, 2, 3, 100}
var vc09TSPool = []string{"2018-12-31T23:59", "2019-01-01T00:00", "2019-01-01T11:30", "2019-02-03T04:05", "2020-02-29T12:00"}

func vc09KeyPool(prefix string) []string {
	long1 := prefix + "L" + strings.Repeat("x", 4200)
	long2 := prefix + "M" + strings.Repeat("y", 9000)
	return []string{prefix + "0", prefix + "1", prefix + "2", prefix + "3", prefix + "4", prefix + "5", long1, long2}
}

func vc09GenHistory(t *rapid.T) *vc09History {
	h := &vc09History{}
	sc := &h.Schema
	sc.IndexKeys = rapid.IntRange(0, 3).Draw(t, "indexKeys") == 0
	sc.TrackExistence = rapid.Bool().Draw(t, "trackExistence")
	sc.Quantum = rapid.SampledFrom([]string{"YMDH", "YMD", "YM", "D", "H"}).Draw(t, "quantum")
	sc.NoStandardView = rapid.IntRange(0, 3).Draw(t, "noStandardView") == 0
	rng := rapid.SampledFrom([][2]int64{{-1000, 1000}, {0, 100000}, {-5, 5}, {-1 << 40, 1 << 40}}).Draw(t, "intRange")
	sc.IntMin, sc.IntMax = rng[0], rng[1]
	sc.MaxOpN = rapid.SampledFrom([]int{2, 5, 12, 0}).Draw(t, "maxOpN")

	colKeys := vc09KeyPool("c")
	rowKeys := vc09KeyPool("r")
	genCol := func(w *vc09Write, label string) {
		if sc.IndexKeys {
			w.ColKey = rapid.SampledFrom(colKeys).Draw(t, label+"Key")
		} else {
			w.Col = rapid.SampledFrom(vc09ColPool).Draw(t, label)
		}
	}
	genVal := func(label string) int64 {
		return rapid.OneOf(
			rapid.Int64Range(sc.IntMin, sc.IntMax),
			rapid.SampledFrom([]int64{sc.IntMin, sc.IntMax, 0, 1, -1, 5, 2, 3, -3}),
		).Filter(func(v int64) bool { return v >= sc.IntMin && v <= sc.IntMax }).Draw(t, label)
	}
	genRow := func(w *vc09Write, field, label string) {
		switch field {
		case "b":
			w.Row = uint64(rapid.IntRange(0, 1).Draw(t, label))
		case "k":
			w.RowKey = rapid.SampledFrom(rowKeys).Draw(t, label+"Key")
		default:
			w.Row = rapid.SampledFrom(vc09RowPool).Draw(t, label)
		}
	}

	n := rapid.IntRange(2, vkit.Scale(9, 15)).Draw(t, "nWrites")
	for i := 0; i < n; i++ {
		var w vc09Write
		kinds := []string{
			"set", "set", "set", "clear", "setval", "setval", "import", "import", "importclear",
			"importvalue", "importvalue", "roaring", "roaringclear", "store", "clearrow",
		}
		if !sc.IndexKeys {
			// bulk batches that change 600-3000 bits of one fragment with one op
			kinds = append(kinds, "bigimport", "bigimport", "bigimportclear", "bigimportvalue")
		}
		if i == 0 {
			// the first write creates a shard (Store/ClearRow over an index without
			// any shard is a different subject)
			kinds = []string{"set", "setval", "import", "importvalue"}
		}
		kind := rapid.SampledFrom(kinds).Draw(t, "kind")
		w.Kind = kind
		switch kind {
		case "set", "clear":
			w.Field = rapid.SampledFrom([]string{"s", "m", "m", "b", "t", "t", "k"}).Draw(t, "field")
			genCol(&w, "col")
			genRow(&w, w.Field, "row")
			if w.Field == "t" && kind == "set" && rapid.IntRange(0, 3).Draw(t, "hasTS") > 0 {
				w.TS = rapid.SampledFrom(vc09TSPool).Draw(t, "ts")
			}
		case "setval":
			w.Field = "v"
			genCol(&w, "col")
			w.Val = genVal("val")
		case "import", "importclear":
			w.Field = rapid.SampledFrom([]string{"s", "m", "b", "t", "k"}).Draw(t, "field")
			cnt := rapid.IntRange(1, 6).Draw(t, "n")
			if !sc.IndexKeys {
				w.Shard = uint64(rapid.IntRange(0, 2).Draw(t, "shard"))
			}
			for j := 0; j < cnt; j++ {
				var e vc09Write
				if sc.IndexKeys {
					e.ColKey = rapid.SampledFrom(colKeys).Draw(t, "colKey")
				} else {
					e.Col = w.Shard*ShardWidth + rapid.SampledFrom([]uint64{0, 1, 2, 3, 65535, 65536, ShardWidth - 1}).Draw(t, "colInShard")
				}
				genRow(&e, w.Field, "row")
				if sc.IndexKeys {
					w.ColKeys = append(w.ColKeys, e.ColKey)
				} else {
					w.Cols = append(w.Cols, e.Col)
				}
				if w.Field == "k" {
					w.RowKeys = append(w.RowKeys, e.RowKey)
				} else {
					w.Rows = append(w.Rows, e.Row)
				}
				if w.Field == "t" && kind == "import" {
					ts := ""
					if rapid.IntRange(0, 2).Draw(t, "hasTS") > 0 {
						ts = rapid.SampledFrom(vc09TSPool).Draw(t, "ts")
					}
					w.TSs = append(w.TSs, ts)
				}
			}
		case "importvalue":
			w.Field = "v"
			cnt := rapid.IntRange(1, 6).Draw(t, "n")
			if !sc.IndexKeys {
				w.Shard = uint64(rapid.IntRange(0, 2).Draw(t, "shard"))
			}
			for j := 0; j < cnt; j++ {
				if sc.IndexKeys {
					w.ColKeys = append(w.ColKeys, rapid.SampledFrom(colKeys).Draw(t, "colKey"))
				} else {
					w.Cols = append(w.Cols, w.Shard*ShardWidth+rapid.SampledFrom([]uint64{0, 1, 2, 3, 65535, 65536, ShardWidth - 1}).Draw(t, "colInShard"))
				}
				w.Vals = append(w.Vals, genVal("val"))
			}
		case "roaring", "roaringclear":
			// roaring imports address columns by id (no key translation): unkeyed histories only
			if sc.IndexKeys {
				w.Kind = "set"
				w.Field = "s"
				genCol(&w, "col")
				genRow(&w, "s", "row")
				break
			}
			w.Field = "s"
			if kind == "roaring" && rapid.IntRange(0, 3).Draw(t, "roaringOnTime") == 0 {
				w.Field = "t"
			}
			w.Shard = uint64(rapid.IntRange(0, 2).Draw(t, "shard"))
			cnt := rapid.IntRange(1, 8).Draw(t, "n")
			for j := 0; j < cnt; j++ {
				w.Rows = append(w.Rows, rapid.SampledFrom(vc09RowPool).Draw(t, "row"))
				w.Cols = append(w.Cols, w.Shard*ShardWidth+rapid.SampledFrom([]uint64{0, 1, 2, 3, 65535, 65536, ShardWidth - 1}).Draw(t, "colInShard"))
			}
		case "bigimport", "bigimportclear":
			// a few draws describe the batch: region (so that a later clear hits what
			// an earlier import set), number of columns, shard; 3 rows per column
			w.Kind = strings.TrimPrefix(kind, "big")
			w.Field = "s"
			w.Shard = uint64(rapid.IntRange(0, 1).Draw(t, "shard"))
			region := uint64(rapid.IntRange(0, 1).Draw(t, "region"))
			ncols := uint64(rapid.IntRange(200, 1000).Draw(t, "bigCols"))
			for c := uint64(0); c < ncols; c++ {
				for _, r := range []uint64{1, 2, 3} {
					w.Rows = append(w.Rows, r)
					w.Cols = append(w.Cols, w.Shard*ShardWidth+1000+region*70000+c)
				}
			}
		case "bigimportvalue":
			w.Kind = "importvalue"
			w.Field = "v"
			w.Shard = uint64(rapid.IntRange(0, 1).Draw(t, "shard"))
			region := uint64(rapid.IntRange(0, 1).Draw(t, "region"))
			ncols := uint64(rapid.IntRange(300, 900).Draw(t, "bigCols"))
			base := rapid.IntRange(0, 5).Draw(t, "bigValBase")
			for c := uint64(0); c < ncols; c++ {
				v := int64((base+int(c))%7) - 3 // -3..3
				if v < sc.IntMin {
					v = sc.IntMin
				}
				if v > sc.IntMax {
					v = sc.IntMax
				}
				w.Cols = append(w.Cols, w.Shard*ShardWidth+1000+region*70000+c)
				w.Vals = append(w.Vals, v)
			}
		case "store":
			w.Field = "s"
			w.Src = rapid.SampledFrom(vc09RowPool).Draw(t, "src")
			w.Row = rapid.SampledFrom(vc09RowPool).Draw(t, "dst")
		case "clearrow":
			w.Field = rapid.SampledFrom([]string{"s", "m", "b", "t"}).Draw(t, "field")
			genRow(&w, w.Field, "row")
		}
		h.Writes = append(h.Writes, w)
	}
	return h
}
