package pilosa

// C06 — fragment-level companion (added by the lead after seeded change C06-b was missed: since the API validates
// every view of an import request up front, a payload that the fragment itself rejects is no longer reachable over
// HTTP, so "a rejected request releases its locks" has to be checked where the rejection still happens).
// A mutated roaring payload is handed to fragment.importRoaring directly. Whatever the answer: no panic, the fragment
// lock is free afterwards (TryLock, no wall clock), and when the import was rejected the stored bits are unchanged;
// a canary write and read still work.

import (
	"context"
	"fmt"
	"testing"
	"time"

	"github.com/pilosa/pilosa/internal/vkit"
	"pgregory.net/rapid"
)

func TestVerifC06_FragmentImport(outer *testing.T) {
	defer vkit.Flush()
	rapid.Check(outer, func(t *rapid.T) {
		f := mustOpenFragment("i", "f", viewStandard, 0, CacheTypeRanked)
		defer f.Clean(outer)
		// some existing content
		pre := rapid.SliceOfN(rapid.SampledFrom([]uint64{0, 1, 65535, 65536, ShardWidth - 1, ShardWidth, ShardWidth + 5, 3*ShardWidth + 70000}), 0, 5).Draw(t, "pre")
		for _, p := range pre {
			if _, err := f.setBit(p/ShardWidth, p%ShardWidth); err != nil {
				t.Fatalf("setBit: %v", err)
			}
		}
		// an import of > MaxOpN bits queues a snapshot that rewrites f.storage in the background: read under the
		// fragment lock, as every reader in the server does
		stored := func() []uint64 {
			f.mu.Lock()
			defer f.mu.Unlock()
			return f.storage.Slice()
		}
		before := stored()
		n := rapid.IntRange(1, 3).Draw(t, "nimports")
		c := vkit.NewCase()
		defer c.Done()
		var labels []string
		rejected := 0
		for i := 0; i < n; i++ {
			data, label, _, unmutated := vc06GenPayload(t)
			clear := rapid.Bool().Draw(t, "clear")
			labels = append(labels, fmt.Sprintf("%s clear=%v len=%d", label, clear, len(data)))
			var err error
			if pv := vc06Try(func() { err = f.importRoaring(context.Background(), append([]byte(nil), data...), clear) }); pv != nil {
				t.Fatalf("fragment.importRoaring(%s, % x) panicked: %v", label, data, pv)
			}
			// The lock may legitimately be held for a moment by the background snapshot worker (an import that
			// passes MaxOpN queues a snapshot), so a failed TryLock is retried; a lock leaked by the rejected import
			// never comes back. (Correction: the first version treated one failed TryLock as a leak and unlocked on
			// the fragment's behalf, which crashed the snapshot worker's own Unlock - a false alarm.)
			locked := false
			for i := 0; i < 30000 && !locked; i++ {
				if locked = f.mu.TryLock(); !locked {
					time.Sleep(time.Millisecond)
				}
			}
			if !locked {
				f.mu.Unlock() // release it on the fragment's behalf so that the clean-up (Close) does not hang
				t.Fatalf("fragment.importRoaring(%s, % x) returned (err=%v) with the fragment lock still held after 30 s", label, data, err)
			}
			f.mu.Unlock()
			if err != nil {
				rejected++
				if got := stored(); !vc06EqU64(got, before) {
					t.Fatalf("fragment.importRoaring(%s, % x) was rejected (%v) but changed the stored bits: before %v after %v", label, data, err, before, got)
				}
				c.Class("rejected:" + vc06ErrLabel(err))
			} else {
				before = stored()
				c.ClassIf(!unmutated, "acceptedMutated").ClassIf(unmutated, "acceptedValid")
			}
		}
		// canary: the fragment still serves writes and reads
		col := rapid.Uint64Range(0, ShardWidth-1).Draw(t, "canaryCol")
		if _, err := f.setBit(7, col); err != nil {
			t.Fatalf("canary setBit after imports %v: %v", labels, err)
		}
		if ok, err := f.bit(7, col); err != nil || !ok {
			t.Fatalf("canary bit not readable after imports %v", labels)
		}
		c.Key("fragimport", pre, labels)
		c.NT(rejected > 0)
		c.Sample(map[string]interface{}{"pre": pre, "imports": labels})
	})
}

func vc06EqU64(a, b []uint64) bool {
	if len(a) != len(b) {
		return false
	}
	for i := range a {
		if a[i] != b[i] {
			return false
		}
	}
	return true
}
