package pilosa

// C09 — a crash at any point loses no acknowledged write and never blocks restart.
//
// rapid generates a write history; a child process (this test binary, see
// c09_child_test.go) executes it on a real node under strace; the trace is
// replayed prefix by prefix (c09_trace_test.go) and a fresh node is started on
// the directory materialised after every state-changing file-system operation.
// Oracle (process-kill model): the node starts; every fragment equals the model
// after the acknowledged writes, or — per (view, shard) — the model after the
// write in flight; reads through the API agree with the recovered fragments;
// every acknowledged key still resolves to its id; after a further write and a
// clean restart everything is still there.

import (
	"bytes"
	"encoding/json"
	"fmt"
	"io/ioutil"
	"os"
	"os/exec"
	"path/filepath"
	"regexp"
	"sort"
	"strconv"
	"strings"
	"syscall"
	"testing"

	"github.com/pilosa/pilosa/internal/vkit"
	"pgregory.net/rapid"
)

// vc09Die makes the run inconclusive for the driver (a worker that died is
// reported as exit 2, never as a violation).
func vc09Die(format string, args ...interface{}) {
	fmt.Printf("INCONCLUSIVE (C09): "+format+"\n", args...)
	vkit.Flush()
	os.Stdout.Sync()
	syscall.Kill(os.Getpid(), syscall.SIGKILL)
	select {}
}

func vc09WorkDir() string {
	base := os.Getenv("VERIF_RUNDIR")
	if base == "" {
		base = os.TempDir()
	}
	d, err := ioutil.TempDir(base, "c09-")
	if err != nil {
		vc09Die("temp dir: %v", err)
	}
	return d
}

var vc09Seccomp = true

// vc09RunChild executes h under strace in work/data and returns the parsed trace.
func vc09RunChild(h *vc09History, work string) (*vc09Trace, error) {
	dataDir := filepath.Join(work, "data")
	if err := os.RemoveAll(dataDir); err != nil {
		return nil, vc09Inconcl("%v", err)
	}
	if err := os.MkdirAll(dataDir, 0777); err != nil {
		return nil, vc09Inconcl("%v", err)
	}
	h.Dir = dataDir
	hb, _ := json.Marshal(h)
	histPath := filepath.Join(work, "history.json")
	if err := ioutil.WriteFile(histPath, hb, 0666); err != nil {
		return nil, vc09Inconcl("%v", err)
	}
	tracePath := filepath.Join(work, "trace")
	os.Remove(tracePath)
	self, err := os.Executable()
	if err != nil {
		return nil, vc09Inconcl("os.Executable: %v", err)
	}
	run := func(seccomp bool) ([]byte, error) {
		args := []string{"-f", "-y", "-xx", "-s", "1000000"}
		if seccomp {
			args = append(args, "--seccomp-bpf")
		}
		args = append(args, "-e", "trace="+vc09TraceSyscalls, "-o", tracePath,
			self, "-test.run=^TestVerifC09Child$", "-test.timeout=300s")
		cmd := exec.Command("strace", args...)
		cmd.Dir = work
		env := []string{}
		for _, e := range os.Environ() {
			if strings.HasPrefix(e, "VERIF_STATS=") || strings.HasPrefix(e, "VERIF_C09_CHILD=") {
				continue
			}
			env = append(env, e)
		}
		cmd.Env = append(env, "VERIF_C09_CHILD="+histPath)
		return cmd.CombinedOutput()
	}
	out, err := run(vc09Seccomp)
	if err != nil && vc09Seccomp && !bytes.Contains(out, []byte("SCHEMA")) {
		// strace without seccomp-bpf support: retry the slow way once and remember
		vc09Seccomp = false
		os.RemoveAll(dataDir)
		os.MkdirAll(dataDir, 0777)
		out, err = run(false)
	}
	tr, perr := vc09ParseTrace(tracePath, dataDir)
	if perr != nil {
		return nil, perr
	}
	if tr.ChildErr != "" {
		return tr, fmt.Errorf("child: %s", tr.ChildErr)
	}
	if err != nil || !tr.Done {
		return nil, vc09Inconcl("child did not finish: %v; output: %.2000s", err, out)
	}
	if len(tr.AckAfter) != len(h.Writes) {
		return nil, vc09Inconcl("child acknowledged %d of %d writes", len(tr.AckAfter), len(h.Writes))
	}
	return tr, nil
}

// vc09Recovered is what a restarted node holds.
type vc09Recovered struct {
	Bits map[vc09FragKey][]uint64 // sorted positions
}

func vc09ReadNode(n *vgcNode) *vc09Recovered {
	r := &vc09Recovered{Bits: map[vc09FragKey][]uint64{}}
	for _, f := range vgcAllFragments(n.Server.holder) {
		if f.index != vc09Index {
			continue
		}
		f.mu.Lock()
		r.Bits[vc09FragKey{f.field, f.view, f.shard}] = f.storage.Slice()
		f.mu.Unlock()
	}
	return r
}

// vc09DecodeBSI turns the bits of a BSI fragment into column -> base value for
// the columns whose existence bit is set (other bits are not observable).
func vc09DecodeBSI(shard uint64, pos []uint64) map[uint64]int64 {
	type acc struct {
		exists, neg bool
		mag         uint64
	}
	m := map[uint64]*acc{}
	for _, p := range pos {
		row, c := p/ShardWidth, shard*ShardWidth+p%ShardWidth
		a := m[c]
		if a == nil {
			a = &acc{}
			m[c] = a
		}
		switch {
		case row == bsiExistsBit:
			a.exists = true
		case row == bsiSignBit:
			a.neg = true
		default:
			a.mag |= 1 << (row - bsiOffsetBit)
		}
	}
	out := map[uint64]int64{}
	for c, a := range m {
		if !a.exists {
			continue
		}
		v := int64(a.mag)
		if a.neg {
			v = -v
		}
		out[c] = v
	}
	return out
}

func vc09ValsOfShard(s *vc09State, shard uint64) map[uint64]int64 {
	out := map[uint64]int64{}
	for c, v := range s.Vals {
		if c/ShardWidth == shard {
			out[c] = v
		}
	}
	return out
}

func vc09EqVals(a, b map[uint64]int64) bool {
	if len(a) != len(b) {
		return false
	}
	for k, v := range a {
		if w, ok := b[k]; !ok || w != v {
			return false
		}
	}
	return true
}

func vc09EqBits(got []uint64, want map[uint64]bool) bool {
	if len(got) != len(want) {
		return false
	}
	for _, p := range got {
		if !want[p] {
			return false
		}
	}
	return true
}

func vc09FmtPos(ps []uint64) string {
	var b strings.Builder
	b.WriteString("{")
	for i, p := range ps {
		if i > 0 {
			b.WriteString(" ")
		}
		if i >= 24 {
			fmt.Fprintf(&b, "…+%d", len(ps)-i)
			break
		}
		fmt.Fprintf(&b, "r%d:c%d", p/ShardWidth, p%ShardWidth)
	}
	b.WriteString("}")
	return b.String()
}

func vc09SortedSet(m map[uint64]bool) []uint64 {
	out := make([]uint64, 0, len(m))
	for p := range m {
		out = append(out, p)
	}
	sort.Slice(out, func(i, j int) bool { return out[i] < out[j] })
	return out
}

type vc09Violation struct {
	Class string
	Msg   string
}

var vc09FragPathRe = regexp.MustCompile(`/` + vc09Index + `/([^/]+)/views/([^/]+)/fragments/(\d+)$`)

func vc09FragKeyOfPath(p string) (vc09FragKey, bool) {
	m := vc09FragPathRe.FindStringSubmatch(p)
	if m == nil {
		return vc09FragKey{}, false
	}
	sh, _ := strconv.ParseUint(m[3], 10, 64)
	return vc09FragKey{m[1], m[2], sh}, true
}

// vc09Run is one traced history with its models.
type vc09Run struct {
	h      *vc09History
	tr     *vc09Trace
	ids    *vc09IDs
	acks   []vc09Ack
	models []*vc09State // models[j] = state after writes 0..j-1
}

func vc09Models(h *vc09History, tr *vc09Trace) (*vc09Run, error) {
	r := &vc09Run{h: h, tr: tr, ids: &vc09IDs{Col: map[string]uint64{}, Row: map[string]map[string]uint64{}}}
	for i, js := range tr.AckJSON {
		var a vc09Ack
		if err := json.Unmarshal([]byte(js), &a); err != nil {
			return nil, vc09Inconcl("ACK %d payload: %v", i, err)
		}
		r.acks = append(r.acks, a)
		for k, id := range a.Col {
			if old, ok := r.ids.Col[k]; ok && old != id {
				return nil, fmt.Errorf("column key %.20q changed id %d -> %d at write %d (still running!)", k, old, id, i)
			}
			r.ids.Col[k] = id
		}
		for f, m := range a.Row {
			if r.ids.Row[f] == nil {
				r.ids.Row[f] = map[string]uint64{}
			}
			for k, id := range m {
				if old, ok := r.ids.Row[f][k]; ok && old != id {
					return nil, fmt.Errorf("row key %s/%.20q changed id %d -> %d at write %d (still running!)", f, k, old, id, i)
				}
				r.ids.Row[f][k] = id
			}
		}
	}
	st := vc09NewState()
	r.models = append(r.models, st.clone())
	for i := range h.Writes {
		st.apply(&h.Schema, &h.Writes[i], r.ids)
		r.models = append(r.models, st.clone())
	}
	return r, nil
}

// acked returns the number of writes acknowledged when k operations completed.
func (r *vc09Run) acked(k int) int {
	j := 0
	for j < len(r.tr.AckAfter) && r.tr.AckAfter[j] <= k {
		j++
	}
	return j
}

// window of operations issued while write j was in flight.
func (r *vc09Run) window(j int) (lo, hi int) {
	if j > 0 {
		lo = r.tr.AckAfter[j-1]
	} else if r.tr.SchemaAt > 0 {
		lo = r.tr.SchemaAt
	}
	hi = len(r.tr.Ops)
	if j < len(r.tr.AckAfter) {
		hi = r.tr.AckAfter[j]
	}
	return
}

// vc09Torn counts the op-log appends of the in-flight write to one fragment
// that completed before / after the crash point.
type vc09Torn struct{ Before, After int }

// torn lists the fragments whose op log received some but not all of the
// appends of the in-flight write j when k operations completed.
func (r *vc09Run) torn(j, k int) map[vc09FragKey]vc09Torn {
	out := map[vc09FragKey]vc09Torn{}
	if j >= len(r.h.Writes) {
		return out
	}
	lo, hi := r.window(j)
	cnt := map[vc09FragKey]vc09Torn{}
	for i := lo; i < hi; i++ {
		o := &r.tr.Ops[i]
		if o.Kind != "write" || !o.Append {
			continue
		}
		key, ok := vc09FragKeyOfPath(o.FDPath)
		if !ok {
			continue
		}
		c := cnt[key]
		if i < k {
			c.Before++
		} else {
			c.After++
		}
		cnt[key] = c
	}
	for key, c := range cnt {
		if c.Before > 0 && c.After > 0 {
			out[key] = c
		}
	}
	return out
}

// vc09TornBits returns the one fragment content open finding DC3 excuses for
// a set-like fragment at this crash point, or nil. The unchanged code tears
// exactly like this:
//   - Set() on a mutex/bool field that moves a column: the old row is cleared
//     with the first append, the new row set with the second: in between the
//     column is EMPTY (= the bits both states share);
//   - Import on a mutex/bool field: one AddN append with the new bits, then one
//     RemoveN append with the replaced ones: in between the columns hold BOTH
//     rows (= the union of both states).
func (r *vc09Run) tornBits(w *vc09Write, key vc09FragKey, a, b map[uint64]bool) map[uint64]bool {
	if (w.Field != "m" && w.Field != "b") || key.Field != w.Field || key.View != viewStandard {
		return nil
	}
	out := map[uint64]bool{}
	switch w.Kind {
	case "set":
		for p := range a {
			if b[p] {
				out[p] = true
			}
		}
	case "import":
		for p := range a {
			out[p] = true
		}
		for p := range b {
			out[p] = true
		}
	default:
		return nil
	}
	return out
}

// vc09TornVals is the same for the int fragment: the column -> value map the
// unchanged code leaves when tn.Before of its appends are on disk.
//   - Set(col, v=x) appends one op per value bit (bit 0 upwards, depth =
//     appends-2), then the existence bit, then the sign bit: after m appends the
//     column has the low m bits of the new magnitude, the other bits, the
//     existence and the sign of the old value (existence of the new one once
//     all bit ops are out);
//   - ImportValue (small path) appends all bits to set (AddN), then all bits to
//     clear (RemoveN): in between every imported column has old|new magnitude
//     bits, exists, and is negative if the old or the new value is.
func (r *vc09Run) tornVals(w *vc09Write, key vc09FragKey, tn vc09Torn, av map[uint64]int64) map[uint64]int64 {
	out := map[uint64]int64{}
	for c, v := range av {
		out[c] = v
	}
	mag := func(v int64) uint64 {
		if v < 0 {
			return uint64(-v)
		}
		return uint64(v)
	}
	switch w.Kind {
	case "setval":
		col := r.ids.col(w, -1)
		if col/ShardWidth != key.Shard {
			return nil
		}
		depth := tn.Before + tn.After - 2
		if depth < 0 {
			return nil
		}
		old, oldExists := av[col]
		m := tn.Before
		var v uint64
		for i := 0; i < 64; i++ {
			src := mag(old)
			if i < m && i < depth {
				src = mag(w.Val)
			}
			v |= src & (1 << uint(i))
		}
		if !oldExists && m <= depth {
			delete(out, col) // the existence bit is not out yet
			return out
		}
		if oldExists && old < 0 {
			out[col] = -int64(v)
		} else {
			out[col] = int64(v)
		}
		return out
	case "importvalue":
		if tn.Before != 1 || tn.After != 1 {
			return nil
		}
		n := len(w.Cols) + len(w.ColKeys)
		seen := map[uint64]bool{}
		for i := n - 1; i >= 0; i-- { // the last entry of a column wins
			col := r.ids.col(w, i)
			if col/ShardWidth != key.Shard || seen[col] {
				continue
			}
			seen[col] = true
			old, oldExists := av[col]
			v := mag(w.Vals[i])
			neg := w.Vals[i] < 0
			if oldExists {
				v |= mag(old)
				neg = neg || old < 0
			}
			if neg {
				out[col] = -int64(v)
			} else {
				out[col] = int64(v)
			}
		}
		return out
	}
	return nil
}

// vc09CompareFragments checks every fragment against models[j] / models[j+1].
func (r *vc09Run) compareFragments(rec *vc09Recovered, j, k int) *vc09Violation {
	a := r.models[j]
	var b *vc09State
	if j+1 < len(r.models) {
		b = r.models[j+1]
	}
	torn := r.torn(j, k)
	keys := map[vc09FragKey]bool{}
	for key := range rec.Bits {
		keys[key] = true
	}
	for key := range a.Bits {
		keys[key] = true
	}
	shardsWithVals := func(s *vc09State) {
		for c := range s.Vals {
			keys[vc09FragKey{"v", vc09BSI, c / ShardWidth}] = true
		}
	}
	shardsWithVals(a)
	if b != nil {
		for key := range b.Bits {
			keys[key] = true
		}
		shardsWithVals(b)
	}
	var sorted []vc09FragKey
	for key := range keys {
		sorted = append(sorted, key)
	}
	sort.Slice(sorted, func(x, y int) bool { return sorted[x].String() < sorted[y].String() })
	for _, key := range sorted {
		got := rec.Bits[key]
		if key.Field == "v" && key.View == vc09BSI {
			gv := vc09DecodeBSI(key.Shard, got)
			av := vc09ValsOfShard(a, key.Shard)
			if vc09EqVals(gv, av) {
				continue
			}
			var bv map[uint64]int64
			if b != nil {
				bv = vc09ValsOfShard(b, key.Shard)
				if vc09EqVals(gv, bv) {
					continue
				}
			}
			if tn, isTorn := torn[key]; b != nil && isTorn && vkit.Open("DC3") {
				// tolerated signature: exactly the value map the unchanged code leaves at this append
				if want := r.tornVals(&r.h.Writes[j], key, tn, av); want != nil && vc09EqVals(gv, want) {
					vkit.Excluded("DC3")
					continue
				}
			}
			return &vc09Violation{"int-fragment", fmt.Sprintf("fragment %s holds values %v; acknowledged state has %v, state after the write in flight %v (appends of the write in flight to this fragment before/after the crash: %+v)", key, gv, av, bv, torn[key])}
		}
		if vc09EqBits(got, a.Bits[key]) {
			continue
		}
		if b != nil && vc09EqBits(got, b.Bits[key]) {
			continue
		}
		if _, isTorn := torn[key]; b != nil && isTorn && vkit.Open("DC3") {
			if want := r.tornBits(&r.h.Writes[j], key, a.Bits[key], b.Bits[key]); want != nil && vc09EqBits(got, want) {
				vkit.Excluded("DC3")
				continue
			}
		}
		var bs string
		if b != nil {
			bs = vc09FmtPos(vc09SortedSet(b.Bits[key]))
		} else {
			bs = "(no write in flight)"
		}
		return &vc09Violation{"fragment", fmt.Sprintf("fragment %s holds %s; acknowledged state has %s, state after the write in flight %s (appends of the write in flight to this fragment before/after the crash: %+v)",
			key, vc09FmtPos(got), vc09FmtPos(vc09SortedSet(a.Bits[key])), bs, torn[key])}
	}
	return nil
}

// vc09CheckReads compares reads through the API with the recovered fragments.
func (r *vc09Run) checkReads(n *vgcNode, rec *vc09Recovered) *vc09Violation {
	colKeyOf := map[uint64]string{}
	for k, id := range r.ids.Col {
		colKeyOf[id] = k
	}
	// rows of the standard views
	type fr struct {
		field string
		row   uint64
	}
	want := map[fr]map[uint64]bool{}
	for key, pos := range rec.Bits {
		if key.View != viewStandard || key.Field == existenceFieldName {
			continue
		}
		for _, p := range pos {
			k := fr{key.Field, p / ShardWidth}
			if want[k] == nil {
				want[k] = map[uint64]bool{}
			}
			want[k][key.Shard*ShardWidth+p%ShardWidth] = true
		}
	}
	for _, f := range []string{"s", "m", "b", "t"} {
		for _, row := range vc09RowPool {
			if f == "b" && row > 1 {
				continue
			}
			k := fr{f, row}
			if want[k] == nil {
				want[k] = map[uint64]bool{}
			}
		}
	}
	rowKeyOf := map[uint64]string{}
	for k, id := range r.ids.Row["k"] {
		rowKeyOf[id] = k
	}
	var frs []fr
	for k := range want {
		frs = append(frs, k)
	}
	sort.Slice(frs, func(i, j int) bool {
		if frs[i].field != frs[j].field {
			return frs[i].field < frs[j].field
		}
		return frs[i].row < frs[j].row
	})
	for _, k := range frs {
		w := &vc09Write{Field: k.field, Row: k.row}
		if k.field == "k" {
			key, ok := rowKeyOf[k.row]
			if !ok {
				// a row id whose key was never acknowledged cannot be asked for by key
				continue
			}
			w.RowKey = key
		}
		q := fmt.Sprintf("Row(%s=%s)", k.field, vc09PQLRow(w))
		res, err := n.vgcQuery(vc09Index, q)
		if err != nil {
			return &vc09Violation{"read", fmt.Sprintf("%.80s after restart: %v", q, err)}
		}
		row, ok := res[0].(*Row)
		if !ok {
			return &vc09Violation{"read", fmt.Sprintf("%.80s returned %T", q, res[0])}
		}
		got := map[uint64]bool{}
		if r.h.Schema.IndexKeys {
			for _, key := range row.Keys {
				id, ok := r.ids.Col[key]
				if !ok {
					return &vc09Violation{"read", fmt.Sprintf("%.80s returned unknown column key %.30q", q, key)}
				}
				got[id] = true
			}
			// columns whose key is unknown to the translate store come back as "": count them
			if len(row.Keys) != len(want[k]) {
				return &vc09Violation{"read", fmt.Sprintf("%.80s returned %d keys, the recovered fragments hold %d columns %v", q, len(row.Keys), len(want[k]), vc09SortedSet(want[k]))}
			}
		} else {
			for _, c := range row.Columns() {
				got[c] = true
			}
		}
		if len(got) != len(want[k]) {
			return &vc09Violation{"read", fmt.Sprintf("%.80s returned %v, the recovered fragments hold %v", q, vc09SortedSet(got), vc09SortedSet(want[k]))}
		}
		for c := range got {
			if !want[k][c] {
				return &vc09Violation{"read", fmt.Sprintf("%.80s returned %v, the recovered fragments hold %v", q, vc09SortedSet(got), vc09SortedSet(want[k]))}
			}
		}
	}
	// int values through Field.Value (uses the persisted bit depth)
	fld := n.Server.holder.Field(vc09Index, "v")
	if fld == nil {
		return &vc09Violation{"schema", "int field v is gone after restart"}
	}
	for key, pos := range rec.Bits {
		if key.Field != "v" || key.View != vc09BSI {
			continue
		}
		for c, wantV := range vc09DecodeBSI(key.Shard, pos) {
			v, exists, err := fld.Value(c)
			if err != nil || !exists || v != wantV {
				return &vc09Violation{"read-int", fmt.Sprintf("Field.Value(%d) = %d,%v,%v after restart; the recovered fragment holds %d (bit depth %d)", c, v, exists, err, wantV, fld.bsiGroup("v").BitDepth)}
			}
		}
	}
	return nil
}

// checkKeys: every key acknowledged before the crash resolves to its id, both ways.
func (r *vc09Run) checkKeys(n *vgcNode, j int, extraCol map[string]uint64) *vc09Violation {
	tf := n.Server.holder.translateFile
	tf.mu.RLock()
	defer tf.mu.RUnlock()
	checkCol := func(k string, id uint64, what string) *vc09Violation {
		idx := tf.cols[vc09Index]
		if idx == nil {
			return &vc09Violation{"key-lost", fmt.Sprintf("%s column key %.30q (id %d): the index has no keys after restart", what, k, id)}
		}
		if got, ok := idx.idByKey([]byte(k)); !ok || got != id {
			return &vc09Violation{"key-lost", fmt.Sprintf("%s column key %.30q resolves to (%d,%v) after restart, want id %d", what, k, got, ok, id)}
		}
		if got, ok := idx.keyByID(id); !ok || string(got) != k {
			return &vc09Violation{"key-lost", fmt.Sprintf("%s column id %d resolves to %.30q,%v after restart, want %.30q", what, id, got, ok, k)}
		}
		return nil
	}
	for i := 0; i < j; i++ {
		var ks []string
		for k := range r.acks[i].Col {
			ks = append(ks, k)
		}
		sort.Strings(ks)
		for _, k := range ks {
			if v := checkCol(k, r.acks[i].Col[k], fmt.Sprintf("write %d:", i)); v != nil {
				return v
			}
		}
		for f, m := range r.acks[i].Row {
			var ks []string
			for k := range m {
				ks = append(ks, k)
			}
			sort.Strings(ks)
			idx := tf.rows[fieldKey{vc09Index, f}]
			for _, k := range ks {
				id := m[k]
				if idx == nil {
					return &vc09Violation{"key-lost", fmt.Sprintf("write %d: row key %s/%.30q (id %d): no keys after restart", i, f, k, id)}
				}
				if got, ok := idx.idByKey([]byte(k)); !ok || got != id {
					return &vc09Violation{"key-lost", fmt.Sprintf("write %d: row key %s/%.30q resolves to (%d,%v) after restart, want id %d", i, f, k, got, ok, id)}
				}
				if got, ok := idx.keyByID(id); !ok || string(got) != k {
					return &vc09Violation{"key-lost", fmt.Sprintf("write %d: row id %s/%d resolves to %.30q,%v after restart, want %.30q", i, f, id, got, ok, k)}
				}
			}
		}
	}
	var ks []string
	for k := range extraCol {
		ks = append(ks, k)
	}
	sort.Strings(ks)
	for _, k := range ks {
		if v := checkCol(k, extraCol[k], "probe"); v != nil {
			return v
		}
	}
	return nil
}

// vc09CheckCrashPoint restarts a node on the tree after k operations.
func (r *vc09Run) checkCrashPoint(fs *vc09FS, k int, work string, probe bool) *vc09Violation {
	dst := filepath.Join(work, "restart")
	os.RemoveAll(dst)
	if err := fs.materialise(dst); err != nil {
		vc09Die("materialise: %v", err)
	}
	defer os.RemoveAll(dst)
	j := r.acked(k)
	n, err := vgcOpenNode(dst)
	if err != nil {
		return &vc09Violation{"restart-blocked", fmt.Sprintf("restart fails: %v", err)}
	}
	closed := false
	defer func() {
		if !closed {
			n.Close()
		}
	}()
	if n.Server.holder.Index(vc09Index) == nil {
		return &vc09Violation{"schema", "index is gone after restart"}
	}
	rec := vc09ReadNode(n)
	if v := r.compareFragments(rec, j, k); v != nil {
		return v
	}
	if v := r.checkKeys(n, j, nil); v != nil {
		return v
	}
	if v := r.checkReads(n, rec); v != nil {
		return v
	}
	if !probe {
		return nil
	}
	// One more write, a clean shutdown and a second restart: nothing the
	// crash left behind may corrupt what is appended after it.
	probeCol := uint64(7)
	extra := map[string]uint64{}
	colArg := "7"
	if r.h.Schema.IndexKeys {
		colArg = `"probe-key"`
	}
	q := fmt.Sprintf(`Set(%s, s=9) Set(%s, k="probe-row")`, colArg, colArg)
	if _, err := n.vgcQuery(vc09Index, q); err != nil {
		return &vc09Violation{"probe", fmt.Sprintf("write after restart fails: %v", err)}
	}
	var probeRow uint64
	{
		tf := n.Server.holder.translateFile
		tf.mu.RLock()
		if r.h.Schema.IndexKeys {
			if idx := tf.cols[vc09Index]; idx != nil {
				probeCol, _ = idx.idByKey([]byte("probe-key"))
			}
			extra["probe-key"] = probeCol
		}
		if idx := tf.rows[fieldKey{vc09Index, "k"}]; idx != nil {
			probeRow, _ = idx.idByKey([]byte("probe-row"))
		}
		tf.mu.RUnlock()
	}
	// "Files left by interrupted snapshots never affect the recovered state":
	// every fragment with a leftover .snapshotting file is emptied (so that its
	// next snapshot is shorter than the leftover), snapshotted and written to
	// once more before the clean shutdown.
	shrunk := map[vc09FragKey]bool{}
	var leftovers []string
	for p := range fs.files {
		if strings.HasSuffix(p, snapshotExt) {
			leftovers = append(leftovers, p)
		}
	}
	sort.Strings(leftovers)
	for _, p := range leftovers {
		key, ok := vc09FragKeyOfPath(strings.TrimSuffix(p, snapshotExt))
		if !ok {
			continue
		}
		f := n.Server.holder.fragment(vc09Index, key.Field, key.View, key.Shard)
		if f == nil {
			continue
		}
		f.mu.Lock()
		pos := f.storage.Slice()
		f.mu.Unlock()
		// bit by bit through the op log, so that the snapshot below is the first
		// one after the restart (a second one would start from a fresh temp file)
		for _, p := range pos {
			if _, err := f.clearBit(p/ShardWidth, key.Shard*ShardWidth+p%ShardWidth); err != nil {
				return &vc09Violation{"probe", fmt.Sprintf("clearBit on %s after the crash recovery fails: %v", key, err)}
			}
		}
		if err := f.Snapshot(); err != nil {
			return &vc09Violation{"probe", fmt.Sprintf("snapshot of %s (which has a leftover %s file) after the crash recovery fails: %v", key, snapshotExt, err)}
		}
		if _, err := f.setBit(0, key.Shard*ShardWidth+9); err != nil {
			return &vc09Violation{"probe", fmt.Sprintf("setBit on %s after the crash recovery fails: %v", key, err)}
		}
		shrunk[key] = true
	}
	closed = true
	if err := n.Close(); err != nil {
		return &vc09Violation{"probe", fmt.Sprintf("clean shutdown after the crash recovery fails: %v", err)}
	}
	n2, err := vgcOpenNode(dst)
	if err != nil {
		return &vc09Violation{"restart-blocked", fmt.Sprintf("second restart (after one more write, emptying + snapshotting the %d fragments with a leftover %s file, and a clean shutdown) fails: %v", len(shrunk), snapshotExt, err)}
	}
	defer n2.Close()
	rec2 := vc09ReadNode(n2)
	wantBits := map[vc09FragKey]map[uint64]bool{}
	for key, pos := range rec.Bits {
		m := map[uint64]bool{}
		for _, p := range pos {
			m[p] = true
		}
		wantBits[key] = m
	}
	add := func(f string, row, col uint64) {
		key := vc09FragKey{f, viewStandard, col / ShardWidth}
		if wantBits[key] == nil {
			wantBits[key] = map[uint64]bool{}
		}
		wantBits[key][row*ShardWidth+col%ShardWidth] = true
	}
	add("s", 9, probeCol)
	add("k", probeRow, probeCol)
	if r.h.Schema.TrackExistence {
		add(existenceFieldName, 0, probeCol)
	}
	for key := range shrunk {
		wantBits[key] = map[uint64]bool{9: true}
	}
	for key := range rec2.Bits {
		if wantBits[key] == nil {
			wantBits[key] = map[uint64]bool{}
		}
	}
	for key, want := range wantBits {
		if !vc09EqBits(rec2.Bits[key], want) {
			what := ""
			if shrunk[key] {
				what = fmt.Sprintf(" (this fragment had a leftover %s file: it was emptied, snapshotted and bit r0:c9 was set)", snapshotExt)
			}
			return &vc09Violation{"probe", fmt.Sprintf("after one more write (%s) and a clean restart fragment %s holds %s, want %s%s", q, key, vc09FmtPos(rec2.Bits[key]), vc09FmtPos(vc09SortedSet(want)), what)}
		}
	}
	if v := r.checkKeys(n2, j, extra); v != nil {
		v.Msg = "after one more write and a clean restart: " + v.Msg
		return v
	}
	return nil
}

func vc09OpClass(o *vc09Op) string {
	p := o.Path
	if o.Kind == "write" || o.Kind == "pwrite" || o.Kind == "ftruncate" {
		p = o.FDPath
	}
	if o.Kind == "rename" {
		p = o.Path2
	}
	var file string
	switch {
	case strings.HasSuffix(p, "/.keys"):
		file = "keys"
	case strings.HasSuffix(p, snapshotExt):
		file = "snapshotting"
	case strings.HasSuffix(p, cacheExt):
		file = "cache"
	case strings.HasSuffix(p, "/.meta") || strings.HasSuffix(p, tempExt):
		file = "meta"
	case vc09FragPathRe.MatchString(p):
		file = "fragment"
	default:
		file = "dir/other"
	}
	return o.Kind + ":" + file
}

// vc09CheckHistory runs one history end to end. It returns the first violation.
func vc09CheckHistory(h *vc09History, work string, maxPoints int, pick func(n int) int) (viol *vc09Violation, at int, run *vc09Run, err error) {
	tr, err := vc09RunChild(h, work)
	if err != nil {
		return nil, 0, nil, err
	}
	run, err = vc09Models(h, tr)
	if err != nil {
		return nil, 0, nil, err
	}
	dataDir := filepath.Join(work, "data")
	fs := vc09NewFS(dataDir)
	start := tr.SchemaAt
	if start < 0 {
		return nil, 0, nil, vc09Inconcl("child did not report SCHEMA")
	}
	// first pass: which k are crash points (state changed, after the set-up write)?
	var points []int
	{
		probeFS := vc09NewFS(dataDir)
		for i := range tr.Ops {
			ch, err := probeFS.apply(&tr.Ops[i])
			if err != nil {
				return nil, 0, nil, vc09Inconcl("replay of op %d (%s, trace line %d): %v", i, tr.Ops[i].String(), tr.Ops[i].Line, err)
			}
			if ch && i+1 >= start {
				points = append(points, i+1)
			}
		}
		// self-check: the full replay must equal the real directory
		if err := probeFS.equalsDir(dataDir); err != nil {
			return nil, 0, nil, vc09Inconcl("self-check failed, full replay differs from the real directory: %v", err)
		}
	}
	inside := func(k int) bool {
		j := run.acked(k)
		if j >= len(h.Writes) {
			return false
		}
		lo, hi := run.window(j)
		// strictly inside the in-flight write's operations (some done, some to come)
		first, last := -1, -1
		for i := lo; i < hi; i++ {
			if kd := tr.Ops[i].Kind; kd != "bind" && kd != "unbind" {
				if first < 0 {
					first = i
				}
				last = i
			}
		}
		return first >= 0 && k > first && k <= last
	}
	// sample when there are too many points: keep the interesting ones first
	chosen := map[int]bool{}
	if len(points) <= maxPoints {
		for _, k := range points {
			chosen[k] = true
		}
	} else {
		var in, out []int
		for _, k := range points {
			if inside(k) {
				in = append(in, k)
			} else {
				out = append(out, k)
			}
		}
		for len(chosen) < maxPoints && len(in) > 0 {
			i := pick(len(in))
			chosen[in[i]] = true
			in = append(in[:i], in[i+1:]...)
		}
		for len(chosen) < maxPoints && len(out) > 0 {
			i := pick(len(out))
			chosen[out[i]] = true
			out = append(out[:i], out[i+1:]...)
		}
	}
	hb, _ := json.Marshal(h.Writes)
	hkey := fmt.Sprintf("%+v|%s", h.Schema, hb)
	for i := range tr.Ops {
		if _, err := fs.apply(&tr.Ops[i]); err != nil {
			vc09Die("replay diverged on the second pass: %v", err)
		}
		k := i + 1
		if !chosen[k] {
			continue
		}
		j := run.acked(k)
		in := inside(k)
		c := vkit.NewCase().Key(hkey, "|k=", k)
		c.Class("op:" + vc09OpClass(&tr.Ops[i]))
		if j < len(h.Writes) && in {
			c.Class("inflight:" + h.Writes[j].Kind + "/" + h.Writes[j].Field)
		}
		snap := false
		for p := range fs.files {
			if strings.HasSuffix(p, snapshotExt) {
				snap = true
			}
		}
		c.ClassIf(snap, "snapshot-file-present")
		c.ClassIf(in, "inside-write")
		c.ClassIf(len(run.torn(j, k)) > 0, "inside-multi-append")
		c.NT(in || snap)
		c.Sample(map[string]interface{}{"schema": h.Schema, "writes": len(h.Writes), "k": k, "of": len(tr.Ops), "acked": j,
			"op": tr.Ops[i].String(), "inflight": func() string {
				if j < len(h.Writes) {
					return h.Writes[j].String()
				}
				return ""
			}()})
		v := run.checkCrashPoint(fs, k, work, in || snap)
		c.Done()
		if v != nil {
			return v, k, run, nil
		}
	}
	vkit.Count("histories", 1)
	vkit.Count("crash_points_total", len(points))
	return nil, 0, run, nil
}

func vc09Describe(run *vc09Run, k int) string {
	tr := run.tr
	j := run.acked(k)
	var b strings.Builder
	fmt.Fprintf(&b, "crash after file-system operation %d of %d: %s (trace line %d)\n", k, len(tr.Ops), tr.Ops[k-1].String(), tr.Ops[k-1].Line)
	fmt.Fprintf(&b, "acknowledged writes: %d of %d", j, len(run.h.Writes))
	if j < len(run.h.Writes) {
		fmt.Fprintf(&b, "; next (possibly in flight): %d:%s", j, run.h.Writes[j].String())
		lo, hi := run.window(j)
		fmt.Fprintf(&b, "\noperations of the write in flight (index: op):")
		for i := lo; i < hi; i++ {
			if kd := tr.Ops[i].Kind; kd == "bind" || kd == "unbind" {
				continue
			}
			mark := " "
			if i < k {
				mark = "*"
			}
			fmt.Fprintf(&b, "\n  %s%d: %s", mark, i+1, tr.Ops[i].String())
		}
	}
	fmt.Fprintf(&b, "\nhistory: %s", run.h.describe())
	return b.String()
}

func TestVerifC09_CrashPoints(t *testing.T) {
	defer vkit.Flush()
	if _, err := exec.LookPath("strace"); err != nil {
		vc09Die("strace not found: %v", err)
	}
	work := vc09WorkDir()
	defer os.RemoveAll(work)
	maxPoints := vkit.Scale(90, 400)
	rapid.Check(t, func(t *rapid.T) {
		h := vc09GenHistory(t)
		seed := rapid.Uint64().Draw(t, "sampleSeed")
		pick := func(n int) int {
			seed = seed*6364136223846793005 + 1442695040888963407
			return int((seed >> 33) % uint64(n))
		}
		v, k, run, err := vc09CheckHistory(h, work, maxPoints, pick)
		if err != nil {
			if _, ok := err.(*vc09Inconclusive); ok {
				vc09Die("%v\nhistory: %s", err, h.describe())
			}
			// a generated write was refused or the run could not be modelled: not a
			// statement about crash consistency, so never a violation
			vc09Die("%v\nhistory: %s", err, h.describe())
		}
		if v != nil {
			t.Fatalf("C09 violated [%s]: %s\n%s", v.Class, v.Msg, vc09Describe(run, k))
		}
	})
}

// TestVerifC09_Replay re-checks one saved history (VERIF_C09_HISTORY = path of a
// JSON file {"schema":…, "writes":[…]}) at every crash point; VERIF_C09_DUMP=1
// prints the operation list with the ACK positions.
func TestVerifC09_Replay(t *testing.T) {
	path := os.Getenv("VERIF_C09_HISTORY")
	if path == "" {
		t.Skip("VERIF_C09_HISTORY not set")
	}
	defer vkit.Flush()
	buf, err := ioutil.ReadFile(path)
	if err != nil {
		t.Fatal(err)
	}
	var h vc09History
	if err := json.Unmarshal(buf, &h); err != nil {
		t.Fatal(err)
	}
	work := vc09WorkDir()
	defer os.RemoveAll(work)
	v, k, run, err := vc09CheckHistory(&h, work, 1<<30, func(n int) int { return 0 })
	if run != nil && os.Getenv("VERIF_C09_DUMP") != "" {
		a := 0
		for i := range run.tr.Ops {
			for a < len(run.tr.AckAfter) && run.tr.AckAfter[a] == i {
				fmt.Printf("      ---- ACK %d %s\n", a, run.h.Writes[a].String())
				a++
			}
			if kd := run.tr.Ops[i].Kind; kd != "bind" && kd != "unbind" {
				fmt.Printf("%4d  %s\n", i+1, strings.Replace(run.tr.Ops[i].String(), work, "", -1))
			}
		}
	}
	if err != nil {
		t.Fatalf("C09 replay: %v", err)
	}
	if v != nil {
		t.Fatalf("C09 violated [%s]: %s\n%s", v.Class, v.Msg, vc09Describe(run, k))
	}
}
