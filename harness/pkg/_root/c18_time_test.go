package pilosa

// C18 (function level) — time-range queries read exactly the views covering the range.
//  * viewsByTimeRange: for every valid quantum and every range aligned to the quantum's finest unit, the
//    returned views decode (own parser, gt_timekit_test.go) to pairwise disjoint intervals with units of the
//    quantum whose union is exactly [start,end).
//  * timeOfView(viewByTimeUnit(t,u)) maps every name back to the interval it denotes (all 24 hours).
//  * minMaxViews brackets the timestamps of the view list a time field really has (incl. "standard").

import (
	"fmt"
	"os"
	"sort"
	"strconv"
	"testing"
	"time"

	"github.com/pilosa/pilosa/internal/vkit"
	"pgregory.net/rapid"
)

func vC18Shard() (shard, n int) {
	shard, _ = strconv.Atoi(os.Getenv("VERIF_SHARD"))
	n, _ = strconv.Atoi(os.Getenv("VERIF_NSHARDS"))
	if n <= 0 {
		n, shard = 1, 0
	}
	return shard, n
}

func vC18Date(y int, m time.Month, d, h int) time.Time {
	return time.Date(y, m, d, h, 0, 0, 0, time.UTC)
}

// vC18Starts enumerates the aligned range starts for a finest unit.
func vC18Starts(unit rune) []time.Time {
	var out []time.Time
	switch unit {
	case 'H':
		lo, hi := vC18Date(2019, 11, 1, 0), vC18Date(2021, 3, 1, 0)
		if vkit.Thorough() {
			for t := lo; t.Before(hi); t = t.Add(time.Hour) {
				out = append(out, t)
			}
			return out
		}
		// quick: every hour within 36h of each month boundary of the window (all 24 hours, every
		// month length incl. Feb 2020 (leap) and Feb 2021, the two year ends)
		for m := vC18Date(2019, 12, 1, 0); m.Before(hi); m = vgtNext(m, 'M') {
			for t := m.Add(-36 * time.Hour); t.Before(m.Add(36 * time.Hour)); t = t.Add(time.Hour) {
				out = append(out, t)
			}
		}
	case 'D':
		lo, hi := vC18Date(2019, 11, 1, 0), vC18Date(2021, 3, 1, 0)
		if vkit.Thorough() {
			lo, hi = vC18Date(2018, 11, 1, 0), vC18Date(2023, 3, 1, 0)
		}
		for t := lo; t.Before(hi); t = vgtNext(t, 'D') {
			out = append(out, t)
		}
	case 'M':
		lo, hi := vC18Date(2018, 1, 1, 0), vC18Date(2023, 1, 1, 0)
		for t := lo; t.Before(hi); t = vgtNext(t, 'M') {
			out = append(out, t)
		}
	case 'Y':
		for y := 2014; y <= 2025; y++ {
			out = append(out, vC18Date(y, 1, 1, 0))
		}
	}
	return out
}

func vC18MaxLen(unit rune) int {
	switch unit {
	case 'H':
		return 40
	case 'D':
		return vkit.Scale(70, 120)
	case 'M':
		return vkit.Scale(30, 50)
	}
	return 4
}

func vC18CheckRange(q TimeQuantum, start, end time.Time) (views []string, err error) {
	views = viewsByTimeRange(viewStandard, start, end, q)
	return views, vgtCheckCover(viewStandard, views, start, end, q)
}

const vC18Layout = "2006-01-02T15"

// TestVerifC18_RangeWindow: exhaustive start x length enumeration for all 10 quanta.
func TestVerifC18_RangeWindow(t *testing.T) {
	defer vkit.Flush()
	shard, n := vC18Shard()
	idx := 0
	for _, q := range vgtQuanta {
		unit := vgtFinest(q)
		starts := vC18Starts(unit)
		maxLen := vC18MaxLen(unit)
		for _, start := range starts {
			idx++
			if idx%n != shard {
				continue
			}
			for l := 0; l <= maxLen; l++ {
				end := vgtAdd(start, unit, l)
				c := vkit.NewCase().Key("win", q, start.Unix(), l)
				views, err := vC18CheckRange(q, start, end)
				if err != nil {
					c.Done()
					t.Fatalf("viewsByTimeRange(%s, %s, %s): %v\nviews: %v", q, start.Format(vC18Layout), end.Format(vC18Layout), err, views)
				}
				used := vgtUnitsUsed(viewStandard, views)
				me, ye, ld := vgtCrossing(start, end)
				c.Class("q:" + string(q)).Class("units:" + used)
				c.ClassIf(me, "crossesMonthEnd").ClassIf(ye, "crossesYearEnd").ClassIf(ld, "coversFeb29")
				c.NT(me || ye || ld || len(used) >= 3)
				if l > 0 && (me || len(used) >= 2) {
					c.Sample(map[string]interface{}{"q": q, "start": start.Format(vC18Layout), "end": end.Format(vC18Layout), "views": views})
				}
				c.Done()
			}
		}
	}
	vkit.Extra("exhaustive", true)
	vkit.Extra("window", "H: hourly starts 2019-11..2021-03 (quick: +-36h around each month boundary) x 0..40h; D: daily starts x 0..70 (thorough: 2018-11..2023-03 x 0..120) days; M: 2018-01..2022-12 x 0..30 (50) months; Y: 2014..2025 x 0..4 years")
}

// vC18GenTime draws a time aligned to unit, biased towards month ends, year ends and leap days.
func vC18GenTime(t *rapid.T, label string, unit rune, yearSpan ...int) time.Time {
	ylo, yhi := 2015, 2025
	if len(yearSpan) == 2 {
		ylo, yhi = yearSpan[0], yearSpan[1]
	}
	y := rapid.IntRange(ylo, yhi).Draw(t, label+".y")
	if unit == 'Y' {
		return vC18Date(y, 1, 1, 0)
	}
	m := rapid.SampledFrom([]int{1, 1, 2, 2, 3, 3, 4, 5, 6, 7, 8, 9, 10, 11, 12, 12}).Draw(t, label+".m")
	if unit == 'M' {
		return vC18Date(y, time.Month(m), 1, 0)
	}
	dim := vC18Date(y, time.Month(m)+1, 0, 0).Day()
	d := rapid.OneOf(rapid.IntRange(1, dim), rapid.SampledFrom([]int{1, 2, dim - 1, dim, 28})).Draw(t, label+".d")
	if d > dim {
		d = dim
	}
	if unit == 'D' {
		return vC18Date(y, time.Month(m), d, 0)
	}
	h := rapid.OneOf(rapid.IntRange(0, 23), rapid.SampledFrom([]int{0, 1, 11, 12, 13, 22, 23})).Draw(t, label+".h")
	return vC18Date(y, time.Month(m), d, h)
}

// vC18EdgePoints lists the times aligned to unit that lie within 2 units of a coarser-unit boundary
// (1 Jan, 31 Dec, first / last day of every month, 28/29 Feb, 1 Mar) in the years ylo..yhi (plus 1 Jan yhi+1).
func vC18EdgePoints(unit rune, ylo, yhi int) []time.Time {
	seen := map[int64]bool{}
	var out []time.Time
	add := func(t time.Time) {
		if !seen[t.Unix()] {
			seen[t.Unix()] = true
			out = append(out, t)
		}
	}
	switch unit {
	case 'Y':
		for y := ylo - 1; y <= yhi+2; y++ {
			add(vC18Date(y, 1, 1, 0))
		}
	case 'M':
		for m := vC18Date(ylo, 1, 1, 0); !m.After(vC18Date(yhi+1, 3, 1, 0)); m = vgtNext(m, 'M') {
			add(m)
		}
	default:
		var anchors []time.Time
		for m := vC18Date(ylo, 1, 1, 0); !m.After(vC18Date(yhi+1, 1, 1, 0)); m = vgtNext(m, 'M') {
			anchors = append(anchors, m)
			if unit == 'H' {
				anchors = append(anchors, m.AddDate(0, 0, -1)) // 00:00 of the last day of the previous month
			}
			if m.Month() == 2 {
				anchors = append(anchors, vC18Date(m.Year(), 2, 28, 0))
			}
		}
		for _, a := range anchors {
			for k := -2; k <= 2; k++ {
				add(vgtAdd(a, unit, k))
			}
		}
	}
	sort.Slice(out, func(i, j int) bool { return out[i].Before(out[j]) })
	return out
}

// vC18EdgeSpan bounds end-start by the coarsest unit of the quantum (the number of views, hence the cost of a
// case, grows with span / coarsest unit): 3 years when months or years exist, else 100 days / 4 days.
func vC18EdgeSpan(q TimeQuantum) time.Duration {
	switch vgtCoarsest(q) {
	case 'Y', 'M':
		return (3*366 + 5) * 24 * time.Hour
	case 'D':
		return 100 * 24 * time.Hour
	}
	return 4 * 24 * time.Hour
}

// TestVerifC18_RangeEdges: every pair start<end of points near coarser-unit boundaries (both endpoints within 2
// finest units of a month / year boundary or of 28 Feb), spanning up to 3 years, for all 10 quanta. Reaches the
// ranges that end or start just short of a year or month boundary a whole number of coarser units away.
func TestVerifC18_RangeEdges(t *testing.T) {
	defer vkit.Flush()
	shard, n := vC18Shard()
	ylo, yhi := 2019, 2021
	if vkit.Thorough() {
		ylo, yhi = 2015, 2025
	}
	idx := 0
	for _, q := range vgtQuanta {
		unit := vgtFinest(q)
		pts := vC18EdgePoints(unit, ylo, yhi)
		span := vC18EdgeSpan(q)
		for i, start := range pts {
			idx++
			if idx%n != shard {
				continue
			}
			for _, end := range pts[i+1:] {
				if end.Sub(start) > span {
					break
				}
				c := vkit.NewCase().Key("edge", q, start.Unix(), end.Unix())
				views, err := vC18CheckRange(q, start, end)
				if err != nil {
					c.Done()
					t.Fatalf("viewsByTimeRange(%s, %s, %s): %v\nviews(%d): %v", q, start.Format(vC18Layout), end.Format(vC18Layout), err, len(views), views)
				}
				used := vgtUnitsUsed(viewStandard, views)
				me, ye, ld := vgtCrossing(start, end)
				wholeYear := end.Sub(start) >= 360*24*time.Hour
				c.Class("q:" + string(q)).Class("units:" + used)
				c.ClassIf(me, "crossesMonthEnd").ClassIf(ye, "crossesYearEnd").ClassIf(ld, "coversFeb29").ClassIf(wholeYear, "spansAboutAYearOrMore")
				c.NT(me || ye || ld || len(used) >= 3)
				if len(used) >= 3 {
					c.Sample(map[string]interface{}{"q": q, "start": start.Format(vC18Layout), "end": end.Format(vC18Layout), "views": len(views), "units": used})
				}
				c.Done()
			}
		}
	}
	vkit.Extra("exhaustive", true)
	vkit.Extra("edges", "all pairs of points within 2 finest units of 1 Jan / 31 Dec / first and last day of each month / 28 Feb, years 2019-2021 (thorough 2015-2025), span <= 3 years (100 days / 4 days when the coarsest unit is D / H)")
}

// vC18GenEdge draws a time aligned to unit within 2 units of a coarser-unit boundary.
func vC18GenEdge(t *rapid.T, label string, unit rune, ylo, yhi int) time.Time {
	y := rapid.IntRange(ylo, yhi).Draw(t, label+".y")
	if unit == 'Y' {
		return vC18Date(y, 1, 1, 0)
	}
	var a time.Time
	switch rapid.SampledFrom([]string{"jan1", "jan1", "dec31", "dec31", "first", "last", "feb28", "mar1"}).Draw(t, label+".anchor") {
	case "jan1":
		a = vC18Date(y, 1, 1, 0)
	case "dec31":
		a = vC18Date(y, 12, 31, 0)
	case "first":
		a = vC18Date(y, time.Month(rapid.IntRange(1, 12).Draw(t, label+".m")), 1, 0)
	case "last":
		a = vC18Date(y, time.Month(rapid.IntRange(1, 12).Draw(t, label+".m"))+1, 0, 0)
	case "feb28":
		a = vC18Date(y, 2, 28, 0)
	default:
		a = vC18Date(y, 3, 1, 0)
	}
	if unit == 'M' {
		return vgtAdd(vgtTrunc(a, 'M'), 'M', rapid.IntRange(-1, 1).Draw(t, label+".k"))
	}
	return vgtAdd(a, unit, rapid.IntRange(-2, 2).Draw(t, label+".k"))
}

// TestVerifC18_LongRanges: random long aligned ranges (years apart, any calendar position).
func TestVerifC18_LongRanges(t *testing.T) {
	defer vkit.Flush()
	rapid.Check(t, func(t *rapid.T) {
		q := rapid.SampledFrom(vgtQuanta).Draw(t, "q")
		unit := vgtFinest(q)
		// the number of views of a range grows with span / coarsest unit: keep it below ~30k (cost only)
		ylo, yhi := 2015, 2025
		switch vgtCoarsest(q) {
		case 'D':
			ylo, yhi = 2018, 2022
		case 'H':
			ylo, yhi = 2019, 2021
		}
		a := vC18GenTime(t, "a", unit, ylo, yhi)
		var b time.Time
		if mode := rapid.IntRange(0, 5).Draw(t, "near"); mode >= 4 {
			// both endpoints within 2 finest units of a coarser-unit boundary, any year (other leap years than the edges unit)
			a = vC18GenEdge(t, "ea", unit, ylo, yhi)
			b = vC18GenEdge(t, "eb", unit, ylo, yhi)
		} else if mode == 0 {
			// end a few coarser units after the start, same finest-unit alignment
			cu := rapid.SampledFrom([]rune(string(q))).Draw(t, "cu")
			b = vgtAdd(vgtTrunc(a, cu), cu, rapid.IntRange(0, 14).Draw(t, "k"))
			b = vgtAdd(b, unit, rapid.IntRange(0, 3).Draw(t, "j"))
		} else {
			b = vC18GenTime(t, "b", unit, ylo, yhi)
		}
		if b.Before(a) {
			a, b = b, a
		}
		c := vkit.NewCase().Key("long", q, a.Unix(), b.Unix())
		defer c.Done()
		views, err := vC18CheckRange(q, a, b)
		if err != nil {
			t.Fatalf("viewsByTimeRange(%s, %s, %s): %v\nviews(%d): %v", q, a.Format(vC18Layout), b.Format(vC18Layout), err, len(views), views)
		}
		used := vgtUnitsUsed(viewStandard, views)
		me, ye, ld := vgtCrossing(a, b)
		c.Class("q:" + string(q)).Class("units:" + used)
		c.ClassIf(me, "crossesMonthEnd").ClassIf(ye, "crossesYearEnd").ClassIf(ld, "coversFeb29")
		c.NT(me || ye || ld || len(used) >= 3)
		c.Sample(map[string]interface{}{"q": q, "start": a.Format(vC18Layout), "end": b.Format(vC18Layout), "nviews": len(views), "units": used})
	})
}

// TestVerifC18_TimeOfView: every view name of every hour of the window maps back to its interval.
func TestVerifC18_TimeOfView(t *testing.T) {
	defer vkit.Flush()
	lo, hi := vC18Date(2019, 11, 1, 0), vC18Date(2021, 3, 1, 0)
	if vkit.Thorough() {
		lo, hi = vC18Date(2016, 1, 1, 0), vC18Date(2025, 1, 1, 0)
	}
	for ts := lo; ts.Before(hi); ts = ts.Add(time.Hour) {
		// a time inside the hour: names must not depend on minutes
		in := ts.Add(time.Duration(ts.Hour()*2+1) * time.Minute)
		for _, unit := range "YMDH" {
			if unit != 'H' && ts.Hour() != 0 && ts.Hour() != 13 && ts.Hour() != 23 {
				continue // coarser names are re-derived from 3 hours of each day only (cost)
			}
			c := vkit.NewCase().Key("tov", ts.Unix(), string(unit))
			name := viewByTimeUnit(viewStandard, in, unit)
			wantStart := vgtTrunc(ts, unit)
			wantEnd := vgtNext(wantStart, unit)
			iv, err := vgtParseView(viewStandard, name)
			if err != nil || !iv.Start.Equal(wantStart) || iv.Unit != unit {
				c.Done()
				t.Fatalf("viewByTimeUnit(%s,%c)=%q does not denote the %c containing it (parsed %v %v)", in.Format(time.RFC3339), unit, name, unit, iv, err)
			}
			got, err := timeOfView(name, false)
			if err != nil {
				c.Done()
				t.Fatalf("timeOfView(%q,false): %v (want %s)", name, err, wantStart.Format(vC18Layout))
			}
			if !got.Equal(wantStart) {
				c.Done()
				t.Fatalf("timeOfView(%q,false)=%s want %s", name, got.Format(vC18Layout), wantStart.Format(vC18Layout))
			}
			got, err = timeOfView(name, true)
			if err != nil {
				c.Done()
				t.Fatalf("timeOfView(%q,true): %v (want %s)", name, err, wantEnd.Format(vC18Layout))
			}
			if !got.Equal(wantEnd) {
				c.Done()
				t.Fatalf("timeOfView(%q,true)=%s want %s", name, got.Format(vC18Layout), wantEnd.Format(vC18Layout))
			}
			c.Class("unit:"+string(unit)).Class("hour:%02d", ts.Hour())
			c.NT(ts.Hour() >= 12 || ts.Day() >= 28 || ts.Month() == 12 || ts.Month() == 2)
			c.Sample(map[string]string{"view": name, "start": wantStart.Format(vC18Layout), "end": wantEnd.Format(vC18Layout)})
			c.Done()
		}
	}
	vkit.Extra("exhaustive", true)
}

// TestVerifC18_MinMaxViews: for the view list a time field has after timestamped sets (all quantum views of
// each timestamp, plus "standard" unless noStandardView), minMaxViews returns members of the list with the
// quantum's coarsest unit whose times bracket every timestamp tightly.
func TestVerifC18_MinMaxViews(t *testing.T) {
	defer vkit.Flush()
	rapid.Check(t, func(t *rapid.T) {
		q := rapid.SampledFrom(vgtQuanta).Draw(t, "q")
		n := rapid.IntRange(1, 6).Draw(t, "n")
		var tss []time.Time
		set := map[string]bool{}
		for i := 0; i < n; i++ {
			ts := vC18GenTime(t, fmt.Sprintf("t%d", i), 'H')
			tss = append(tss, ts)
			for _, v := range viewsByTime(viewStandard, ts, q) {
				set[v] = true
			}
		}
		withStd := rapid.Bool().Draw(t, "standardView")
		if withStd {
			set[viewStandard] = true
		}
		var views []string
		for v := range set {
			views = append(views, v)
		}
		sort.Strings(views)
		views = rapid.Permutation(views).Draw(t, "order")
		c := vkit.NewCase().Key("mm", q, views)
		defer c.Done()
		c.Class("q:"+string(q)).ClassIf(withStd, "withStandardView")
		sort.Slice(tss, func(i, j int) bool { return tss[i].Before(tss[j]) })
		c.NT(len(set) >= 4 && withStd)
		c.Sample(map[string]interface{}{"q": q, "views": views})

		in := append([]string(nil), views...)
		min, max := minMaxViews(in, q)
		cu := vgtCoarsest(q)
		for _, mv := range []string{min, max} {
			if !set[mv] {
				t.Fatalf("minMaxViews(%v,%s) returned %q which is not in the list", views, q, mv)
			}
			iv, err := vgtParseView(viewStandard, mv)
			if err != nil {
				t.Fatalf("minMaxViews(%v,%s) returned %q (min=%q max=%q): not a time view: %v", views, q, mv, min, max, err)
			}
			if iv.Unit != cu {
				t.Fatalf("minMaxViews(%v,%s) returned %q with unit %c, want the coarsest unit %c", views, q, mv, iv.Unit, cu)
			}
		}
		minT, err := timeOfView(min, false)
		if err != nil {
			t.Fatalf("timeOfView(%q,false): %v", min, err)
		}
		maxT, err := timeOfView(max, true)
		if err != nil {
			t.Fatalf("timeOfView(%q,true): %v", max, err)
		}
		if want := vgtTrunc(tss[0], cu); !minT.Equal(want) {
			t.Fatalf("min view %q (time %s) for views %v quantum %s: want the %c of the earliest timestamp %s", min, minT.Format(vC18Layout), views, q, cu, want.Format(vC18Layout))
		}
		if want := vgtNext(vgtTrunc(tss[len(tss)-1], cu), cu); !maxT.Equal(want) {
			t.Fatalf("max view %q (end %s) for views %v quantum %s: want the end of the %c of the latest timestamp %s", max, maxT.Format(vC18Layout), views, q, cu, want.Format(vC18Layout))
		}
	})
}

// TestVerifWitness_D21: hour views 13..23 must map back to their hour.
func TestVerifWitness_D21(t *testing.T) {
	got, err := timeOfView("standard_2019010113", false)
	if err != nil {
		t.Fatalf("timeOfView(standard_2019010113): %v", err)
	}
	if want := vC18Date(2019, 1, 1, 13); !got.Equal(want) {
		t.Fatalf("timeOfView(standard_2019010113)=%v want %v", got, want)
	}
}

// TestVerifWitness_DT2: the view "standard" (8 characters) must not be taken for a day view.
func TestVerifWitness_DT2(t *testing.T) {
	min, max := minMaxViews([]string{"standard", "standard_20190105", "standard_20190103"}, TimeQuantum("D"))
	if min != "standard_20190103" || max != "standard_20190105" {
		t.Fatalf("minMaxViews([standard standard_20190105 standard_20190103], D) = (%q,%q) want (standard_20190103, standard_20190105)", min, max)
	}
}
