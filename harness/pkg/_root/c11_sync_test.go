package pilosa

// C11 — fragmentSyncer.syncFragment/syncBlock against a recording InternalClient (in-package):
// the repairs sent to the remote replicas must be addressed to the view that was compared.

import (
	"context"
	"fmt"
	"os"
	"sort"
	"testing"

	"github.com/pilosa/pilosa/roaring"
)

type vC11Import struct {
	uri   string
	shard uint64
	clear bool
	view  string // key of req.Views
	bits  []uint64
}

// vC11Client serves FragmentBlocks/BlockData of fake remote replicas and records ImportRoaring calls.
type vC11Client struct {
	nopInternalClient
	remote  map[string]vC11PosSet // by uri string: block 0 contents of the compared view
	imports []vC11Import
}

func (c *vC11Client) FragmentBlocks(ctx context.Context, uri *URI, index, field, view string, shard uint64) ([]FragmentBlock, error) {
	if len(c.remote[uri.String()]) == 0 {
		return nil, nil
	}
	// any checksum that differs from the local one makes the syncer merge the block
	return []FragmentBlock{{ID: 0, Checksum: []byte("remote-" + uri.String())}}, nil
}

func (c *vC11Client) BlockData(ctx context.Context, uri *URI, index, field, view string, shard uint64, block int) ([]uint64, []uint64, error) {
	ps := vC11PairSet(c.remote[uri.String()])
	return ps.rowIDs, ps.columnIDs, nil
}

func (c *vC11Client) ImportRoaring(ctx context.Context, uri *URI, index, field string, shard uint64, remote bool, req *ImportRoaringRequest) error {
	if !remote {
		return fmt.Errorf("anti-entropy repair sent with remote=false (would be forwarded again)")
	}
	keys := make([]string, 0, len(req.Views))
	for k := range req.Views {
		keys = append(keys, k)
	}
	sort.Strings(keys)
	for _, k := range keys {
		bm := roaring.NewBitmap()
		if err := bm.UnmarshalBinary(req.Views[k]); err != nil {
			return err
		}
		c.imports = append(c.imports, vC11Import{uri: uri.String(), shard: shard, clear: req.Clear, view: k, bits: bm.Slice()})
	}
	return nil
}

// TestVerifWitness_D13: three replicas, view standard_2019; only remote node1 holds (0,1). The local syncer
// must tell node1 to clear (0,1) in view "2019" (= standard_2019); it used the key "" (standard view).
func TestVerifWitness_D13(t *testing.T) {
	c := NewTestCluster(3)
	defer os.RemoveAll(c.Path)
	c.ReplicaN = 3
	cl := &vC11Client{remote: map[string]vC11PosSet{
		c.nodes[1].URI.String(): {{0, 1}: true},
		c.nodes[2].URI.String(): {},
	}}
	c.InternalClient = cl
	f := mustOpenFragment("i", "t", viewStandard+"_2019", 0, "")
	defer f.Clean(t)
	fs := fragmentSyncer{Fragment: f, Node: c.nodes[0], Cluster: c, Closing: make(chan struct{})}
	if err := fs.syncFragment(); err != nil {
		t.Fatal(err)
	}
	if len(cl.imports) != 1 {
		t.Fatalf("repairs sent: %+v, want exactly one clear to node1", cl.imports)
	}
	im := cl.imports[0]
	if im.uri != c.nodes[1].URI.String() || !im.clear || fmt.Sprint(im.bits) != "[1]" {
		t.Fatalf("repair %+v, want clear of position 1 on node1", im)
	}
	if im.view != "2019" {
		t.Fatalf("the clear computed for view standard_2019 was addressed to view key %q, want \"2019\"", im.view)
	}
}
