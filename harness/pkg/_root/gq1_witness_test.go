package pilosa

// Deterministic witnesses (minimal inputs, no generators) of the defects found by the C14/C17 checks.
// A witness fails while its defect is present.

import (
	"testing"

	"github.com/pilosa/pilosa/pql"
)

func vq1WitField(t *testing.T, min, max int64, vals map[uint64]int64, order []uint64) *TestField {
	f := MustOpenField(OptFieldTypeInt(min, max))
	for _, c := range order {
		if _, err := f.SetValue(c, vals[c]); err != nil {
			f.Close()
			t.Fatalf("SetValue(%d,%d): %v", c, vals[c], err)
		}
	}
	return f
}

func vq1WitRange(t *testing.T, f *TestField, op pql.Token, p int64, want ...uint64) {
	t.Helper()
	row, err := f.Range(f.Name(), op, p)
	if err != nil {
		t.Fatalf("Range(f %s %d): %v", op, p, err)
	}
	if got := vq1RowCols(row); !vq1EqCols(got, want) {
		t.Fatalf("Range(f %s %d) = %v, want %v", op, p, got, want)
	}
}

// D16: bsiGroup.baseValue left baseValue=0 for GT/GTE when the predicate is <= the bit-depth minimum, and
// clamped LT/LTE to the bit-depth maximum without widening the operator: with values {3,-3} (bit depth 2)
// in a field declared (-100,100), `f > -50` asked for `> 0` and `f < 50` asked for `< 3`.
func TestVerifWitness_D16(t *testing.T) {
	f := vq1WitField(t, -100, 100, map[uint64]int64{1: 3, 2: -3}, []uint64{1, 2})
	defer f.Close()
	vq1WitRange(t, f, pql.GT, -50, 1, 2)
	vq1WitRange(t, f, pql.GTE, -50, 1, 2)
	vq1WitRange(t, f, pql.GTE, -3, 1, 2)
	vq1WitRange(t, f, pql.GT, -3, 1)
	vq1WitRange(t, f, pql.LT, 50, 1, 2)
	vq1WitRange(t, f, pql.LT, 4, 1, 2)
	vq1WitRange(t, f, pql.LTE, 3, 1, 2)
	vq1WitRange(t, f, pql.LT, 3, 2)
	b := &bsiGroup{Name: "b", Type: bsiGroupTypeInt, Min: -100, Max: 100, BitDepth: 2}
	if bv, oor := b.baseValue(pql.GT, -50); oor || bv != -3 {
		t.Fatalf("baseValue(GT,-50) with bit depth 2 = (%d,%v), want (-3,false)", bv, oor)
	}
}

// D17: ValCount.smaller/larger kept one side's count on ties (order dependent); view.min/max (Field.Min/Max)
// accumulated counts of strictly better fragments, ignored ties, and max started from 0.
func TestVerifWitness_D17(t *testing.T) {
	a, b, c := ValCount{Val: 5, Count: 2}, ValCount{Val: 5, Count: 1}, ValCount{Val: 7, Count: 1}
	for _, order := range [][]ValCount{{a, b, c}, {b, a, c}, {c, b, a}, {c, a, b}, {a, c, b}} {
		var acc ValCount
		for _, x := range order {
			acc = acc.smaller(x)
		}
		if acc != (ValCount{Val: 5, Count: 3}) {
			t.Fatalf("smaller over %v = %+v, want {5 3}", order, acc)
		}
	}
	d := ValCount{Val: 7, Count: 4}
	for _, order := range [][]ValCount{{c, d, a}, {d, c, a}, {a, d, c}} {
		var acc ValCount
		for _, x := range order {
			acc = acc.larger(x)
		}
		if acc != (ValCount{Val: 7, Count: 5}) {
			t.Fatalf("larger over %v = %+v, want {7 5}", order, acc)
		}
	}
	// the field's Go API: three shards holding {5,5}, {5}, {7}
	f := vq1WitField(t, -100, 100, map[uint64]int64{1: 5, 2: 5, ShardWidth + 1: 5, 2*ShardWidth + 1: 7, 2*ShardWidth + 2: 7},
		[]uint64{1, 2, ShardWidth + 1, 2*ShardWidth + 1, 2*ShardWidth + 2})
	defer f.Close()
	if v, n, err := f.Min(nil, "f"); err != nil || v != 5 || n != 3 {
		t.Fatalf("Field.Min over shards {5,5},{5},{7,7} = (%d, count %d, %v), want (5, count 3)", v, n, err)
	}
	if v, n, err := f.Max(nil, "f"); err != nil || v != 7 || n != 2 {
		t.Fatalf("Field.Max over shards {5,5},{5},{7,7} = (%d, count %d, %v), want (7, count 2)", v, n, err)
	}
	g := vq1WitField(t, -100, 100, map[uint64]int64{1: -5, ShardWidth + 1: -7}, []uint64{1, ShardWidth + 1})
	defer g.Close()
	if v, n, err := g.Max(nil, "f"); err != nil || v != -5 || n != 1 {
		t.Fatalf("Field.Max over {-5},{-7} = (%d, count %d, %v), want (-5, count 1)", v, n, err)
	}
}

// DQA1: fragment.sum took the negative values from the whole sign row, ignoring the filter.
func TestVerifWitness_DQA1(t *testing.T) {
	f := vq1WitField(t, -100, 100, map[uint64]int64{1: 5, 2: -3}, []uint64{1, 2})
	defer f.Close()
	if s, n, err := f.Sum(NewRow(1), "f"); err != nil || s != 5 || n != 1 {
		t.Fatalf("Sum(filter {1}) over {1:5, 2:-3} = (sum %d, count %d, %v), want (5, 1)", s, n, err)
	}
	if s, n, err := f.Sum(NewRow(), "f"); err != nil || s != 0 || n != 0 {
		t.Fatalf("Sum(empty filter) over {1:5, 2:-3} = (sum %d, count %d, %v), want (0, 0)", s, n, err)
	}
}

// DQA2: rangeLT/rangeGT sent the strict predicates -1 (and 0 for LT) down the positive half.
func TestVerifWitness_DQA2(t *testing.T) {
	f := vq1WitField(t, -100, 100, map[uint64]int64{1: -2, 2: -1, 3: 0, 4: 1, 5: 2}, []uint64{1, 2, 3, 4, 5})
	defer f.Close()
	vq1WitRange(t, f, pql.LT, -1, 1)
	vq1WitRange(t, f, pql.LT, 0, 1, 2)
	vq1WitRange(t, f, pql.GT, -1, 3, 4, 5)
	vq1WitRange(t, f, pql.GT, 0, 4, 5)
	vq1WitRange(t, f, pql.LTE, -1, 1, 2)
	vq1WitRange(t, f, pql.GTE, -1, 2, 3, 4, 5)
}

// DQA3: Field.Range(NEQ, p) with p beyond the bit-depth range returned the empty row.
func TestVerifWitness_DQA3(t *testing.T) {
	f := vq1WitField(t, -100, 100, map[uint64]int64{1: 3, 2: -3}, []uint64{1, 2})
	defer f.Close()
	vq1WitRange(t, f, pql.NEQ, 50, 1, 2)
	vq1WitRange(t, f, pql.NEQ, -50, 1, 2)
	vq1WitRange(t, f, pql.NEQ, 3, 2)
}

// DQA4: bit depth 0 (only zeros stored): Min/Max count 0, f > 0 matched the zeros.
func TestVerifWitness_DQA4(t *testing.T) {
	f := vq1WitField(t, -100, 100, map[uint64]int64{1: 0, 2: 0}, []uint64{1, 2})
	defer f.Close()
	if v, n, err := f.Min(nil, "f"); err != nil || v != 0 || n != 2 {
		t.Fatalf("Field.Min over {0,0} = (%d, count %d, %v), want (0, count 2)", v, n, err)
	}
	if v, n, err := f.Max(nil, "f"); err != nil || v != 0 || n != 2 {
		t.Fatalf("Field.Max over {0,0} = (%d, count %d, %v), want (0, count 2)", v, n, err)
	}
	vq1WitRange(t, f, pql.GT, 0)
	vq1WitRange(t, f, pql.LT, 0)
	vq1WitRange(t, f, pql.GTE, 0, 1, 2)
	vq1WitRange(t, f, pql.LTE, 0, 1, 2)
}

// DQA5: bitDepthMin/bitDepthMax wrapped around for a base near the int64 limits.
func TestVerifWitness_DQA5(t *testing.T) {
	const lo = -9223372036854775807
	f := MustOpenField(OptFieldTypeInt(lo, -4611686018427387904))
	defer f.Close()
	if err := f.Reopen(); err != nil { // no value yet: base becomes min, bit depth that of max-min
		t.Fatal(err)
	}
	if _, err := f.SetValue(0, lo); err != nil {
		t.Fatal(err)
	}
	vq1WitRange(t, f, pql.EQ, lo, 0)
	vq1WitRange(t, f, pql.LTE, lo+5, 0)
	b := &bsiGroup{Name: "b", Type: bsiGroupTypeInt, Min: lo, Max: -4611686018427387904, Base: lo, BitDepth: 62}
	if got := b.bitDepthMin(); got > lo {
		t.Fatalf("bitDepthMin() with base %d depth 62 = %d, want a value <= base", lo, got)
	}
}

// DQA8 (open): -2^63 is accepted as a field minimum and as a value, but the sign-magnitude storage keeps only 63
// magnitude bits: the value is stored as "-0" and reads back as 0.
func TestVerifWitness_DQA8(t *testing.T) {
	const lo = -9223372036854775808
	f := MustOpenField(OptFieldTypeInt(lo, 0))
	defer f.Close()
	if _, err := f.SetValue(1, lo); err != nil {
		t.Skipf("the write is rejected (%v): nothing stored wrongly", err)
	}
	v, ok, err := f.Value(1)
	if err != nil || !ok || v != lo {
		t.Fatalf("SetValue(1, %d) accepted, Value(1) = (%d, exists %v, %v)", lo, v, ok, err)
	}
}
