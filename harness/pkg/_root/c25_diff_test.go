package pilosa

// C25 — attrBlocks.Diff: "a list of block ids that are different or are new" in
// the receiver, compared with a set model. Both lists sorted by id, ids unique
// (what AttrStore.Blocks() produces; documented precondition of Diff).

import (
	"bytes"
	"fmt"
	"reflect"
	"sort"
	"testing"

	"github.com/pilosa/pilosa/internal/vkit"
	"pgregory.net/rapid"
)

func vc25GenBlocks(t *rapid.T, label string) []AttrBlock {
	ids := rapid.SliceOfNDistinct(rapid.SampledFrom([]uint64{0, 1, 2, 3, 4, 9, 10, 99, 100, 1 << 40, 1<<64 - 1}), 0, 7, func(v uint64) uint64 { return v }).Draw(t, label+"_ids")
	sort.Slice(ids, func(i, j int) bool { return ids[i] < ids[j] })
	out := make([]AttrBlock, len(ids))
	for i, id := range ids {
		sum := rapid.SampledFrom([][]byte{{1}, {2}, {1, 0}, {0xde, 0xad, 0xbe, 0xef, 0, 0, 0, 1}, {0xde, 0xad, 0xbe, 0xef, 0, 0, 0, 2}}).Draw(t, fmt.Sprintf("%s_sum%d", label, i))
		out[i] = AttrBlock{ID: id, Checksum: sum}
	}
	return out
}

func vc25SameBlocks(x, y []AttrBlock) bool {
	if len(x) != len(y) {
		return false
	}
	for i := range x {
		if x[i].ID != y[i].ID || !bytes.Equal(x[i].Checksum, y[i].Checksum) {
			return false
		}
	}
	return true
}

func TestVerifC25_Diff(t *testing.T) {
	defer vkit.Flush()
	rapid.Check(t, func(t *rapid.T) {
		a := vc25GenBlocks(t, "a")
		var other []AttrBlock
		if rapid.Bool().Draw(t, "derive") {
			// derive other from a: drop / alter / keep each block, add a few foreign ones (keeps overlaps frequent)
			for i, blk := range a {
				switch rapid.IntRange(0, 3).Draw(t, fmt.Sprintf("d%d", i)) {
				case 0:
				case 1:
					other = append(other, AttrBlock{ID: blk.ID, Checksum: append(append([]byte(nil), blk.Checksum...), 7)})
				default:
					other = append(other, AttrBlock{ID: blk.ID, Checksum: append([]byte(nil), blk.Checksum...)})
				}
			}
			have := map[uint64]bool{}
			for _, blk := range other {
				have[blk.ID] = true
			}
			for _, blk := range vc25GenBlocks(t, "extra") {
				if !have[blk.ID] {
					other = append(other, blk)
				}
			}
			sort.Slice(other, func(i, j int) bool { return other[i].ID < other[j].ID })
		} else {
			other = vc25GenBlocks(t, "o")
		}
		c := vkit.NewCase().Key("c25diff", fmt.Sprint(a), fmt.Sprint(other))
		defer c.Done()

		om := map[uint64][]byte{}
		for _, blk := range other {
			om[blk.ID] = blk.Checksum
		}
		var want []uint64
		common := false
		for _, blk := range a {
			sum, ok := om[blk.ID]
			if ok {
				common = true
			}
			if !ok || !bytes.Equal(sum, blk.Checksum) {
				want = append(want, blk.ID)
			}
		}
		aCopy := append([]AttrBlock(nil), a...)
		oCopy := append([]AttrBlock(nil), other...)
		got := attrBlocks(a).Diff(other)
		if len(got) != len(want) || (len(want) > 0 && !reflect.DeepEqual(got, want)) {
			t.Fatalf("attrBlocks(%v).Diff(%v) = %v, want %v", a, other, got, want)
		}
		if !vc25SameBlocks(a, aCopy) || !vc25SameBlocks(other, oCopy) {
			t.Fatalf("Diff modified its operands: a=%v (was %v) other=%v (was %v)", a, aCopy, other, oCopy)
		}
		c.ClassIf(len(a) == 0, "aEmpty").ClassIf(len(other) == 0, "otherEmpty").ClassIf(common, "commonID").ClassIf(len(want) == 0, "noDiff")
		c.NT(common && len(a) > 0 && len(other) > 0)
		c.Sample(map[string]interface{}{"a": fmt.Sprint(a), "other": fmt.Sprint(other), "diff": want})
	})
}
