package pilosa

// C09 — the workload child. When VERIF_C09_CHILD names a history file, this
// "test" is the traced process: it starts a node on the history's directory,
// creates the schema, executes the writes and reports `ACK i {ids}` with one
// write(2) on stdout after each acknowledged write. It ends with os.Exit
// without closing anything (the process-kill model needs no clean shutdown).

import (
	"context"
	"encoding/json"
	"fmt"
	"io/ioutil"
	"os"
	"strconv"
	"strings"
	"testing"

	"github.com/pilosa/pilosa/roaring"
)

type vc09Ack struct {
	Col map[string]uint64            `json:"col,omitempty"`
	Row map[string]map[string]uint64 `json:"row,omitempty"`
}

func vc09Say(format string, args ...interface{}) {
	os.Stdout.Write([]byte(fmt.Sprintf(format, args...) + "\n"))
}

func vc09CreateSchema(n *vgcNode, sc *vc09Schema) error {
	ctx := context.Background()
	if _, err := n.API.CreateIndex(ctx, vc09Index, IndexOptions{Keys: sc.IndexKeys, TrackExistence: sc.TrackExistence}); err != nil {
		return err
	}
	fields := []struct {
		name string
		opts []FieldOption
	}{
		{"s", []FieldOption{OptFieldTypeSet(CacheTypeRanked, 100)}},
		{"m", []FieldOption{OptFieldTypeMutex(CacheTypeRanked, 100)}},
		{"b", []FieldOption{OptFieldTypeBool()}},
		{"t", []FieldOption{OptFieldTypeTime(TimeQuantum(sc.Quantum), sc.NoStandardView)}},
		{"v", []FieldOption{OptFieldTypeInt(sc.IntMin, sc.IntMax)}},
		{"k", []FieldOption{OptFieldTypeSet(CacheTypeLRU, 100), OptFieldKeys()}},
	}
	for _, f := range fields {
		if _, err := n.API.CreateField(ctx, vc09Index, f.name, f.opts...); err != nil {
			return fmt.Errorf("create field %s: %v", f.name, err)
		}
	}
	return nil
}

func vc09PQLCol(w *vc09Write) string {
	if w.ColKey != "" {
		return strconv.Quote(w.ColKey)
	}
	return strconv.FormatUint(w.Col, 10)
}

func vc09PQLRow(w *vc09Write) string {
	switch {
	case w.Field == "b":
		if w.Row == 1 {
			return "true"
		}
		return "false"
	case w.RowKey != "":
		return strconv.Quote(w.RowKey)
	}
	return strconv.FormatUint(w.Row, 10)
}

func vc09TSNanos(ts string) int64 {
	if ts == "" {
		return 0
	}
	return vc09ParseTS(ts).UnixNano()
}

// vc09Exec performs one write through the API.
func vc09Exec(n *vgcNode, w *vc09Write) error {
	ctx := context.Background()
	switch w.Kind {
	case "set":
		q := fmt.Sprintf("Set(%s, %s=%s", vc09PQLCol(w), w.Field, vc09PQLRow(w))
		if w.TS != "" {
			q += ", " + w.TS
		}
		_, err := n.vgcQuery(vc09Index, q+")")
		return err
	case "clear":
		_, err := n.vgcQuery(vc09Index, fmt.Sprintf("Clear(%s, %s=%s)", vc09PQLCol(w), w.Field, vc09PQLRow(w)))
		return err
	case "setval":
		_, err := n.vgcQuery(vc09Index, fmt.Sprintf("Set(%s, v=%d)", vc09PQLCol(w), w.Val))
		return err
	case "import", "importclear":
		req := &ImportRequest{Index: vc09Index, Field: w.Field, Shard: w.Shard,
			RowIDs: w.Rows, RowKeys: w.RowKeys, ColumnIDs: w.Cols, ColumnKeys: w.ColKeys}
		if len(w.TSs) > 0 {
			for _, ts := range w.TSs {
				req.Timestamps = append(req.Timestamps, vc09TSNanos(ts))
			}
		}
		return n.API.Import(ctx, req, OptImportOptionsClear(w.Kind == "importclear"))
	case "importvalue":
		req := &ImportValueRequest{Index: vc09Index, Field: w.Field, Shard: w.Shard,
			ColumnIDs: w.Cols, ColumnKeys: w.ColKeys, Values: w.Vals}
		return n.API.ImportValue(ctx, req)
	case "roaring", "roaringclear":
		bm := roaring.NewBitmap()
		for i := range w.Cols {
			bm.DirectAdd(w.Rows[i]*ShardWidth + w.Cols[i]%ShardWidth)
		}
		var buf strings.Builder
		if _, err := bm.WriteTo(&buf); err != nil {
			return err
		}
		req := &ImportRoaringRequest{Clear: w.Kind == "roaringclear", Views: map[string][]byte{"": []byte(buf.String())}}
		return n.API.ImportRoaring(ctx, vc09Index, w.Field, w.Shard, false, req)
	case "store":
		_, err := n.vgcQuery(vc09Index, fmt.Sprintf("Store(Row(s=%d), s=%d)", w.Src, w.Row))
		return err
	case "clearrow":
		_, err := n.vgcQuery(vc09Index, fmt.Sprintf("ClearRow(%s=%s)", w.Field, vc09PQLRow(w)))
		return err
	}
	return fmt.Errorf("unknown kind %q", w.Kind)
}

// vc09AckIDs reads (never allocates) the ids of the keys w used.
func vc09AckIDs(n *vgcNode, w *vc09Write) vc09Ack {
	var a vc09Ack
	tf := n.Server.holder.translateFile
	colKeys := append([]string{}, w.ColKeys...)
	if w.ColKey != "" {
		colKeys = append(colKeys, w.ColKey)
	}
	rowKeys := append([]string{}, w.RowKeys...)
	if w.RowKey != "" {
		rowKeys = append(rowKeys, w.RowKey)
	}
	tf.mu.RLock()
	defer tf.mu.RUnlock()
	for _, k := range colKeys {
		if idx := tf.cols[vc09Index]; idx != nil {
			if id, ok := idx.idByKey([]byte(k)); ok {
				if a.Col == nil {
					a.Col = map[string]uint64{}
				}
				a.Col[k] = id
			}
		}
	}
	for _, k := range rowKeys {
		if idx := tf.rows[fieldKey{vc09Index, w.Field}]; idx != nil {
			if id, ok := idx.idByKey([]byte(k)); ok {
				if a.Row == nil {
					a.Row = map[string]map[string]uint64{}
				}
				if a.Row[w.Field] == nil {
					a.Row[w.Field] = map[string]uint64{}
				}
				a.Row[w.Field][k] = id
			}
		}
	}
	return a
}

func TestVerifC09Child(t *testing.T) {
	path := os.Getenv("VERIF_C09_CHILD")
	if path == "" {
		t.Skip("only runs as the traced child of TestVerifC09_*")
	}
	buf, err := ioutil.ReadFile(path)
	if err != nil {
		vc09Say("ERR read history: %v", err)
		os.Exit(3)
	}
	var h vc09History
	if err := json.Unmarshal(buf, &h); err != nil {
		vc09Say("ERR parse history: %v", err)
		os.Exit(3)
	}
	n, err := vgcOpenNode(h.Dir)
	if err != nil {
		vc09Say("ERR open node: %v", err)
		os.Exit(3)
	}
	if err := vc09CreateSchema(n, &h.Schema); err != nil {
		vc09Say("ERR schema: %v", err)
		os.Exit(3)
	}
	vc09Say("SCHEMA")
	for i := range h.Writes {
		w := &h.Writes[i]
		if err := vc09Exec(n, w); err != nil {
			vc09Say("ERR write %d %s: %v", i, w.String(), err)
			os.Exit(4)
		}
		// acknowledge first (nothing may delay the ACK: a write is acknowledged
		// when the API call returns), then lower the snapshot threshold of the
		// fragments for the writes to come
		ack, _ := json.Marshal(vc09AckIDs(n, w))
		vc09Say("ACK %d %s", i, ack)
		if h.Schema.MaxOpN > 0 {
			for _, f := range vgcAllFragments(n.Server.holder) {
				f.mu.Lock()
				f.MaxOpN = h.Schema.MaxOpN
				f.mu.Unlock()
			}
		}
	}
	// let queued snapshots finish so that no file operation is cut by the exit
	for _, f := range vgcAllFragments(n.Server.holder) {
		f.awaitSnapshot()
	}
	vc09Say("DONE")
	os.Exit(0)
}
