package pilosa

// C24 — Key translation is a stable bijection on every node.
//
// Histories on a real TranslateFile (small mapSize): batches of keys for
// 2 indexes x 2 fields from a pool built to stress the robin-hood table,
// reverse lookups, Close+Open; a concurrent phase; replication of the log to a
// replica TranslateFile that resumes after generated prefixes.
// Oracle: a map model built from first sight (ids positive, stable, injective per
// namespace; dense allocation is not required).

import (
	"bytes"
	"context"
	"fmt"
	"io"
	"io/ioutil"
	"os"
	"path/filepath"
	"sort"
	"strings"
	"sync"
	"testing"
	"time"

	"github.com/pilosa/pilosa/internal/vkit"
	"pgregory.net/rapid"
)

const vc24MapSize = 8 << 20

type vc24Fataler interface {
	Fatalf(string, ...interface{})
}

func vc24TempDir(t vc24Fataler) string {
	base := ""
	if st, err := os.Stat("/dev/shm"); err == nil && st.IsDir() {
		base = "/dev/shm" // every new entry is fsynced
	}
	dir, err := ioutil.TempDir(base, "verif-c24-")
	if err != nil {
		if dir, err = ioutil.TempDir("", "verif-c24-"); err != nil {
			t.Fatalf("tempdir: %v", err)
		}
	}
	return dir
}

// ---------------------------------------------------------------------------
// key pool

type vc24PoolT struct {
	generic  []string // "k0".."k519": enough for two table growths (thresholds 230 and 460)
	special  []string // collision families, 1-byte, long, Unicode, prefixes, empty
	class    map[string]string
	families map[string][]string
}

var vc24PoolOnce sync.Once
var vc24PoolV *vc24PoolT

func vc24Pool() *vc24PoolT {
	vc24PoolOnce.Do(func() {
		p := &vc24PoolT{class: map[string]string{}, families: map[string][]string{}}
		for i := 0; i < 520; i++ {
			p.generic = append(p.generic, fmt.Sprintf("k%d", i))
		}
		add := func(class string, keys ...string) {
			for _, k := range keys {
				if _, dup := p.class[k]; dup {
					continue
				}
				p.class[k] = class
				p.special = append(p.special, k)
				p.families[class] = append(p.families[class], k)
			}
		}
		// keys sharing hash&1023 (hence also &511 and &255): the last bucket (probe chains wrap around
		// the end of the table at every size), the first bucket, and one in the middle
		want := map[uint64]int{1023: 10, 0: 8, 17: 8}
		// keys sharing hash&255 only (they split up when the table grows)
		split := 0
		for i := 0; len(want) > 0 || split < 10; i++ {
			k := fmt.Sprintf("c%d", i)
			h := hashKey([]byte(k))
			if n, ok := want[h&1023]; ok {
				add(fmt.Sprintf("collide1023:%d", h&1023), k)
				if n == 1 {
					delete(want, h&1023)
				} else {
					want[h&1023] = n - 1
				}
			} else if h&255 == 200 && split < 10 {
				add("collide255:200", k)
				split++
			}
			if i > 5000000 {
				panic("vc24: collision search did not terminate")
			}
		}
		for _, b := range []byte("abcxyz019 ~") {
			add("1byte", string([]byte{b}))
		}
		long := strings.Repeat("L", 5120)
		add("long", long+"-a", long+"-b", "x"+long, strings.Repeat("M", 9000))
		add("unicode", "\u00e9", "e\u0301", "日本語", "ünï", "😀", "Ω", "ß", "ss", "\u212a", "K")
		add("prefix", "p", "pp", "ppp", "pppp")
		// key lengths at the uvarint width boundaries of the length prefix (1->2 bytes at 128, 2->3 at 16384),
		// at multiples of 128 (low seven length bits zero) and around the 4 KiB buffer of the log writer/reader
		for _, n := range vc24BoundaryLens {
			add("varintLen", vc24SizedKey(n, "v"))
		}
		add("empty", "")
		vc24PoolV = p
	})
	return vc24PoolV
}

var vc24BoundaryLens = []int{127, 128, 129, 255, 256, 257, 383, 384, 385, 4095, 4096, 4097, 16383, 16384, 16385}

// vc24SizedKey returns a deterministic key of exactly n bytes (n >= 1).
func vc24SizedKey(n int, tag string) string {
	k := fmt.Sprintf("%s%d:", tag, n)
	if len(k) >= n {
		return k[:n]
	}
	return k + strings.Repeat("z", n-len(k))
}

func vc24UvarintLen(x uint64) int {
	n := 1
	for x >= 0x80 {
		x >>= 7
		n++
	}
	return n
}

// vc24EntryBody is the body length of a log entry holding one id/key pair.
func vc24EntryBody(ns vc24NS, id uint64, keyLen int) int {
	return 1 + vc24UvarintLen(uint64(len(ns.Index))) + len(ns.Index) + vc24UvarintLen(uint64(len(ns.Field))) + len(ns.Field) +
		1 + vc24UvarintLen(id) + vc24UvarintLen(uint64(keyLen)) + keyLen
}

// vc24BodyOfDelta recovers the body length of the single entry that made the log grow by delta bytes.
func vc24BodyOfDelta(delta int64) int64 {
	for w := int64(1); w <= 4; w++ {
		if b := delta - w; b >= 0 && int64(vc24UvarintLen(uint64(b))) == w {
			return b
		}
	}
	return -1
}

// entry body lengths (uvarint width of the entry length prefix) and total sizes (4 KiB / 8 KiB buffers) worth hitting exactly
var vc24BodyTargets = []int{126, 127, 128, 129, 255, 256, 4091, 4092, 4093, 4094, 4095, 4096, 4097, 8189, 8190, 8191, 8192, 16382, 16383, 16384, 16385}

func vc24ClassifyEntry(c *vkit.Case, delta int64) bool {
	b := vc24BodyOfDelta(delta)
	hit := false
	for _, tgt := range []int64{127, 128, 16383, 16384} {
		if b == tgt {
			c.Class("entryBody:%d", tgt)
			hit = true
		}
	}
	for _, tgt := range []int64{4095, 4096, 4097, 8191, 8192, 8193} {
		if delta == tgt {
			c.Class("entryTotal:%d", tgt)
			hit = true
		}
	}
	return hit
}

// ---------------------------------------------------------------------------
// namespaces and model

type vc24NS struct {
	Index, Field string // Field == "" => column keys of the index
}

func (n vc24NS) String() string {
	if n.Field == "" {
		return "cols(" + n.Index + ")"
	}
	return "rows(" + n.Index + "," + n.Field + ")"
}

var vc24Namespaces = []vc24NS{{"i0", ""}, {"i1", ""}, {"i0", "f0"}, {"i0", "f1"}, {"i1", "f0"}, {"i1", "f1"}}

func vc24ToIDs(s TranslateStore, ns vc24NS, keys []string) ([]uint64, error) {
	if ns.Field == "" {
		return s.TranslateColumnsToUint64(ns.Index, keys)
	}
	return s.TranslateRowsToUint64(ns.Index, ns.Field, keys)
}

func vc24ToKey(s TranslateStore, ns vc24NS, id uint64) (string, error) {
	if ns.Field == "" {
		return s.TranslateColumnToString(ns.Index, id)
	}
	return s.TranslateRowToString(ns.Index, ns.Field, id)
}

type vc24Model struct {
	ids  map[vc24NS]map[string]uint64
	keys map[vc24NS]map[uint64]string
}

func vc24NewModel() *vc24Model {
	return &vc24Model{ids: map[vc24NS]map[string]uint64{}, keys: map[vc24NS]map[uint64]string{}}
}

func vc24Short(k string) string {
	if len(k) > 24 {
		return fmt.Sprintf("%q...(%d bytes)", k[:12], len(k))
	}
	return fmt.Sprintf("%q", k)
}

// observe checks the ids returned for a batch against the model and records new keys.
// Returns the number of keys first seen in this batch and whether a new key was repeated inside it.
func (m *vc24Model) observe(t vc24Fataler, who string, ns vc24NS, keys []string, ids []uint64) (newKeys int, repeatedNew bool) {
	if len(ids) != len(keys) {
		t.Fatalf("%s: %v: %d ids returned for %d keys", who, ns, len(ids), len(keys))
	}
	if m.ids[ns] == nil {
		m.ids[ns] = map[string]uint64{}
		m.keys[ns] = map[uint64]string{}
	}
	newInBatch := map[string]bool{}
	for i, k := range keys {
		id := ids[i]
		if id == 0 {
			t.Fatalf("%s: %v: key %s got id 0 (ids must be positive)", who, ns, vc24Short(k))
		}
		if want, known := m.ids[ns][k]; known {
			if id != want {
				t.Fatalf("%s: %v: key %s translated to %d, earlier to %d (position %d of a batch of %d)", who, ns, vc24Short(k), id, want, i, len(keys))
			}
			if newInBatch[k] {
				repeatedNew = true
			}
			continue
		}
		if other, taken := m.keys[ns][id]; taken {
			t.Fatalf("%s: %v: new key %s got id %d which already belongs to key %s", who, ns, vc24Short(k), id, vc24Short(other))
		}
		m.ids[ns][k] = id
		m.keys[ns][id] = k
		newInBatch[k] = true
		newKeys++
	}
	return newKeys, repeatedNew
}

// verifyAll re-translates every known key (one batch per namespace) and every known id.
func (m *vc24Model) verifyAll(t vc24Fataler, who string, s TranslateStore) {
	for _, ns := range vc24Namespaces {
		if len(m.ids[ns]) == 0 {
			continue
		}
		keys := make([]string, 0, len(m.ids[ns]))
		for k := range m.ids[ns] {
			keys = append(keys, k)
		}
		sort.Strings(keys)
		ids, err := vc24ToIDs(s, ns, keys)
		if err != nil {
			t.Fatalf("%s: %v: translating %d known keys: %v", who, ns, len(keys), err)
		}
		if len(ids) != len(keys) {
			t.Fatalf("%s: %v: %d ids for %d keys", who, ns, len(ids), len(keys))
		}
		for i, k := range keys {
			if ids[i] != m.ids[ns][k] {
				t.Fatalf("%s: %v: key %s now translates to %d, first translated to %d", who, ns, vc24Short(k), ids[i], m.ids[ns][k])
			}
			got, err := vc24ToKey(s, ns, ids[i])
			if err != nil {
				t.Fatalf("%s: %v: reverse of id %d: %v", who, ns, ids[i], err)
			}
			if got != k {
				t.Fatalf("%s: %v: id %d translates back to %s, want %s", who, ns, ids[i], vc24Short(got), vc24Short(k))
			}
		}
	}
}

func vc24Open(t vc24Fataler, path string, primary TranslateStore) *TranslateFile {
	return vc24OpenSize(t, path, primary, vc24MapSize)
}

func vc24OpenSize(t vc24Fataler, path string, primary TranslateStore, mapSize int) *TranslateFile {
	s := NewTranslateFile(OptTranslateFileMapSize(mapSize))
	s.Path = path
	s.PrimaryTranslateStore = primary
	if err := s.Open(); err != nil {
		t.Fatalf("open %s: %v", path, err)
	}
	return s
}

// ---------------------------------------------------------------------------
// batch generator

type vc24Gen struct {
	pool   *vc24PoolT
	window []string // a few generic keys this history keeps coming back to
	// hint for entry-size targeting: namespace of the next batch and the id its first new key will probably get
	hintNS vc24NS
	hintID uint64
	serial int
}

func (g *vc24Gen) hint(ns vc24NS, m *vc24Model) {
	g.hintNS = ns
	g.hintID = uint64(len(m.ids[ns]) + 1)
	for id := range m.keys[ns] {
		if id >= g.hintID {
			g.hintID = id + 1
		}
	}
}

// boundaryKey returns a fresh key whose single-key entry (for the hinted namespace/id) has a body of exactly `body` bytes, if possible.
func (g *vc24Gen) boundaryKey(body int) string {
	g.serial++
	tag := fmt.Sprintf("B%d_", g.serial)
	best := 1
	for l := 1; l <= body; l++ {
		if b := vc24EntryBody(g.hintNS, g.hintID, l); b <= body {
			best = l
		} else {
			break
		}
	}
	return vc24SizedKey(best, tag)
}

func vc24NewGen(t *rapid.T) *vc24Gen {
	p := vc24Pool()
	g := &vc24Gen{pool: p, hintNS: vc24Namespaces[0], hintID: 1}
	off := rapid.IntRange(0, len(p.generic)-12).Draw(t, "windowOffset")
	g.window = p.generic[off : off+12]
	return g
}

func (g *vc24Gen) key(t *rapid.T, label string) string {
	switch rapid.IntRange(0, 9).Draw(t, label+"_src") {
	case 0, 1, 2, 3:
		return rapid.SampledFrom(g.window).Draw(t, label+"_w")
	case 4:
		return rapid.SampledFrom(g.pool.generic).Draw(t, label+"_g")
	case 5:
		// a key of generated length (content determined by the length, so the same length repeats the key)
		n := rapid.OneOf(rapid.IntRange(1, 300), rapid.IntRange(120, 136), rapid.IntRange(4080, 4110), rapid.IntRange(16370, 16400),
			rapid.SampledFrom([]int{128, 256, 384, 512, 640, 1024, 2048, 8192, 16384, 32768})).Draw(t, label+"_len")
		return vc24SizedKey(n, "r")
	default:
		return rapid.SampledFrom(g.pool.special).Draw(t, label+"_s")
	}
}

// batch draws a small batch (0..7 keys, repeats likely) or, when bulk, a run of generic keys plus a collision family.
func (g *vc24Gen) batch(t *rapid.T, label string, bulk bool) []string {
	var keys []string
	if bulk {
		n := rapid.SampledFrom([]int{225, 232, 240, 300, 455, 462, 470, 520}).Draw(t, label+"_bulkN")
		off := rapid.IntRange(0, len(g.pool.generic)-n).Draw(t, label+"_bulkOff")
		keys = append(keys, g.pool.generic[off:off+n]...)
		fams := make([]string, 0, len(g.pool.families))
		for f := range g.pool.families {
			fams = append(fams, f)
		}
		sort.Strings(fams)
		fam := rapid.SampledFrom(fams).Draw(t, label+"_fam")
		pos := rapid.IntRange(0, len(keys)).Draw(t, label+"_famPos")
		keys = append(keys[:pos:pos], append(append([]string{}, g.pool.families[fam]...), keys[pos:]...)...)
		if rapid.Bool().Draw(t, label+"_bulkDup") {
			keys = append(keys, keys[0], keys[len(keys)/2])
		}
		return keys
	}
	if rapid.IntRange(0, 7).Draw(t, label+"_boundaryEntry") == 0 {
		// one fresh key sized so that the whole entry lands on a length-prefix / buffer boundary
		return []string{g.boundaryKey(rapid.SampledFrom(vc24BodyTargets).Draw(t, label+"_body"))}
	}
	if rapid.IntRange(0, 5).Draw(t, label+"_family") == 0 {
		fams := make([]string, 0, len(g.pool.families))
		for f := range g.pool.families {
			fams = append(fams, f)
		}
		sort.Strings(fams)
		keys = append(keys, g.pool.families[rapid.SampledFrom(fams).Draw(t, label+"_fam")]...)
	}
	n := rapid.IntRange(0, 7).Draw(t, label+"_n")
	for i := 0; i < n; i++ {
		keys = append(keys, g.key(t, fmt.Sprintf("%s_k%d", label, i)))
	}
	if len(keys) > 0 && rapid.IntRange(0, 2).Draw(t, label+"_dup") == 0 {
		keys = append(keys, keys[rapid.IntRange(0, len(keys)-1).Draw(t, label+"_dupOf")])
	}
	return keys
}

func vc24BatchDesc(ns vc24NS, keys []string) string {
	parts := make([]string, len(keys))
	for i, k := range keys {
		parts[i] = vc24Short(k)
	}
	if len(parts) > 16 {
		return fmt.Sprintf("%v<-[%d keys %s..%s]", ns, len(parts), parts[0], parts[len(parts)-1])
	}
	return fmt.Sprintf("%v<-[%s]", ns, strings.Join(parts, ","))
}

func vc24HasLong(keys []string) bool {
	for _, k := range keys {
		if len(k) > 4096 {
			return true
		}
	}
	return false
}

// ---------------------------------------------------------------------------
// sequential state machine

func TestVerifC24_Sequential(t *testing.T) {
	defer vkit.Flush()
	rapid.Check(t, func(t *rapid.T) {
		dir := vc24TempDir(t)
		defer os.RemoveAll(dir)
		path := filepath.Join(dir, "keys")
		s := vc24Open(t, path, nil)
		defer func() { s.Close() }()
		m := vc24NewModel()
		g := vc24NewGen(t)
		c := vkit.NewCase()
		defer c.Done()
		var trace []string
		nt := false
		bulks := 0
		huge := false
		nOps := rapid.IntRange(1, 22).Draw(t, "nOps")
		for i := 0; i < nOps; i++ {
			label := fmt.Sprintf("op%d", i)
			switch rapid.SampledFrom([]string{"translate", "translate", "translate", "translate", "bulk", "reverse", "reopen", "verify"}).Draw(t, label) {
			case "translate", "bulk":
				ns := rapid.SampledFrom(vc24Namespaces).Draw(t, label+"_ns")
				bulk := false
				if rapid.IntRange(0, 4).Draw(t, label+"_isBulk") == 0 && bulks < 2 {
					bulk = true
					bulks++
					if bulks == 2 {
						// the second bulk goes to a namespace that already holds keys, if any (growth with existing entries)
						for _, cand := range vc24Namespaces {
							if len(m.ids[cand]) > 0 {
								ns = cand
								break
							}
						}
					}
				}
				g.hint(ns, m)
				keys := g.batch(t, label, bulk)
				if !bulk && !huge && rapid.IntRange(0, 59).Draw(t, label+"_huge") == 37 {
					// enough keys in one namespace for three-byte id varints (ids above 16383) and five more table growths
					huge = true
					keys = make([]string, 16500)
					for j := range keys {
						keys[j] = fmt.Sprintf("h%d", j)
					}
					c.Class("idsOver16384")
					nt = true
				}
				trace = append(trace, vc24BatchDesc(ns, keys))
				before := len(m.ids[ns])
				sizeBefore := s.size()
				ids, err := vc24ToIDs(s, ns, keys)
				if err != nil {
					t.Fatalf("translate %s: %v", vc24BatchDesc(ns, keys), err)
				}
				if vc24ClassifyEntry(c, s.size()-sizeBefore) {
					nt = true
				}
				for _, k := range keys {
					if len(k) >= 128 && len(k)%128 == 0 {
						c.Class("keyLenMultipleOf128")
						nt = true
						break
					}
				}
				newKeys, repeatedNew := m.observe(t, "translate "+vc24BatchDesc(ns, keys), ns, keys, ids)
				after := len(m.ids[ns])
				for _, th := range []int{230, 460} {
					if before <= th && after > th {
						nt = true
						c.Class("growthCrossed:%d", th)
					}
				}
				if repeatedNew {
					nt = true
					c.Class("repeatedNewKeyInBatch")
				}
				if newKeys > 0 && vc24HasLong(keys) {
					nt = true
					c.Class("entryOver4KiB")
				}
				c.ClassIf(bulk, "op:bulk").ClassIf(!bulk, "op:translate").ClassIf(len(keys) == 0, "emptyBatch")
			case "reverse":
				ns := rapid.SampledFrom(vc24Namespaces).Draw(t, label+"_ns")
				var id uint64
				known := make([]uint64, 0, len(m.keys[ns]))
				for k := range m.keys[ns] {
					known = append(known, k)
				}
				sort.Slice(known, func(a, b int) bool { return known[a] < known[b] })
				if len(known) > 0 && rapid.Bool().Draw(t, label+"_known") {
					id = rapid.SampledFrom(known).Draw(t, label+"_id")
				} else {
					id = rapid.SampledFrom([]uint64{0, 1, 2, 1000000, 1 << 40, 1<<64 - 1}).Draw(t, label+"_absentID")
				}
				trace = append(trace, fmt.Sprintf("%v->%d", ns, id))
				got, err := vc24ToKey(s, ns, id)
				if err != nil {
					t.Fatalf("reverse %v id %d: %v", ns, id, err)
				}
				if want := m.keys[ns][id]; got != want {
					t.Fatalf("reverse %v id %d = %s, want %s", ns, id, vc24Short(got), vc24Short(want))
				}
				c.Class("op:reverse")
			case "reopen":
				trace = append(trace, "reopen")
				if err := s.Close(); err != nil {
					t.Fatalf("Close: %v", err)
				}
				s = vc24Open(t, path, nil)
				c.Class("op:reopen")
			case "verify":
				trace = append(trace, "verify")
				m.verifyAll(t, "verify", s)
			}
		}
		m.verifyAll(t, "final", s)
		if err := s.Close(); err != nil {
			t.Fatalf("Close: %v", err)
		}
		s = vc24Open(t, path, nil)
		m.verifyAll(t, "after final Close+Open", s)
		c.Key("c24seq", strings.Join(trace, ";"))
		c.NT(nt)
		if len(trace) > 10 {
			trace = trace[:10]
		}
		c.Sample(map[string]interface{}{"ops": trace})
	})
}

// ---------------------------------------------------------------------------
// map size edge: a log that fills the configured map exactly (or all but one byte)

func TestVerifC24_MapEdge(t *testing.T) {
	defer vkit.Flush()
	rapid.Check(t, func(t *rapid.T) {
		mapSize := rapid.SampledFrom([]int{4096, 5000, 8192, 32768}).Draw(t, "mapSize")
		slack := rapid.SampledFrom([]int{0, 0, 1, 2}).Draw(t, "slack")
		target := int64(mapSize - slack)
		dir := vc24TempDir(t)
		defer os.RemoveAll(dir)
		ppath, rpath := filepath.Join(dir, "keys"), filepath.Join(dir, "replica")
		s := vc24OpenSize(t, ppath, nil, mapSize)
		defer func() { s.Close() }()
		m := vc24NewModel()
		c := vkit.NewCase().Key("c24edge", mapSize, slack)
		defer c.Done()
		var trace []string
		serial := 0
		put := func(ns vc24NS, keys []string) {
			ids, err := vc24ToIDs(s, ns, keys)
			if err != nil {
				t.Fatalf("translate %s at log size %d (map size %d): %v", vc24BatchDesc(ns, keys), s.size(), mapSize, err)
			}
			m.observe(t, "translate "+vc24BatchDesc(ns, keys), ns, keys, ids)
			trace = append(trace, vc24BatchDesc(ns, keys))
		}
		// generated filler, always leaving room for the closing entries
		for i := 0; i < 12 && target-s.size() > 1500; i++ {
			ns := rapid.SampledFrom(vc24Namespaces).Draw(t, fmt.Sprintf("ns%d", i))
			n := rapid.IntRange(1, 4).Draw(t, fmt.Sprintf("n%d", i))
			var keys []string
			for j := 0; j < n; j++ {
				serial++
				keys = append(keys, vc24SizedKey(rapid.IntRange(1, 200).Draw(t, fmt.Sprintf("len%d_%d", i, j)), fmt.Sprintf("f%d_", serial)))
			}
			put(ns, keys)
		}
		// closing entries: single keys sized so that the log ends exactly at the target
		ns := rapid.SampledFrom(vc24Namespaces).Draw(t, "lastNS")
		g := &vc24Gen{pool: vc24Pool()}
		for attempt := 0; attempt < 12 && s.size() < target; attempt++ {
			remaining := target - s.size()
			g.hint(ns, m)
			if remaining > 600 {
				// a big step first (any size), the exact fit in the last rounds
				step := remaining - 300
				if step > 10000 {
					step = 10000
				}
				put(ns, []string{g.boundaryKey(int(step))})
				continue
			}
			body := int64(-1)
			for w := int64(1); w <= 2; w++ {
				if b := remaining - w; b > 0 && int64(vc24UvarintLen(uint64(b))) == w {
					body = b
				}
			}
			k := g.boundaryKey(int(body))
			if body > 0 && int64(vc24EntryBody(ns, g.hintID, len(k))) == body {
				put(ns, []string{k})
				continue
			}
			if remaining < 40 {
				break // no exact fit possible any more
			}
			put(ns, []string{g.boundaryKey(13 + attempt%3)}) // a tiny entry shifts the remainder off the gap
		}
		exact := s.size() == target
		c.ClassIf(exact, "logEndsAtTarget").ClassIf(!exact, "edgeMissed").Class("mapSize:%d", mapSize).Class("slack:%d", slack)
		if s.size() > int64(mapSize) {
			t.Fatalf("harness error: log grew to %d, beyond the map size %d", s.size(), mapSize)
		}
		m.verifyAll(t, fmt.Sprintf("log of %d bytes in a map of %d", s.size(), mapSize), s)
		// a replica with the same map size takes the whole log
		r := vc24OpenSize(t, rpath, &vc24CutStore{TranslateFile: s, cut: s.size()}, mapSize)
		defer func() { r.Close() }()
		if err := r.replicate(context.Background()); err != nil {
			t.Fatalf("replicate a log of %d bytes into a replica with map size %d: %v", s.size(), mapSize, err)
		}
		if r.size() != s.size() {
			t.Fatalf("replica holds %d of %d bytes", r.size(), s.size())
		}
		m.verifyAll(t, "replica with a full map", r)
		if err := s.Close(); err != nil {
			t.Fatalf("Close: %v", err)
		}
		s = vc24OpenSize(t, ppath, nil, mapSize)
		m.verifyAll(t, fmt.Sprintf("after Close+Open of a log of %d bytes in a map of %d", s.size(), mapSize), s)
		c.NT(exact)
		c.Sample(map[string]interface{}{"mapSize": mapSize, "logSize": s.size(), "entries": len(trace)})
	})
}

// ---------------------------------------------------------------------------
// concurrent phase

type vc24Call struct {
	NS   vc24NS
	Keys []string
	IDs  []uint64
	Err  error
}

func TestVerifC24_Concurrent(t *testing.T) {
	defer vkit.Flush()
	rapid.Check(t, func(t *rapid.T) {
		dir := vc24TempDir(t)
		defer os.RemoveAll(dir)
		path := filepath.Join(dir, "keys")
		s := vc24Open(t, path, nil)
		defer func() { s.Close() }()
		g := vc24NewGen(t)
		m := vc24NewModel()
		nss := []vc24NS{vc24Namespaces[0], vc24Namespaces[2]}
		// optional sequential prefix so that the racing batches mix known and unknown keys
		if rapid.Bool().Draw(t, "prefix") {
			ns := rapid.SampledFrom(nss).Draw(t, "prefix_ns")
			keys := g.batch(t, "prefix", rapid.IntRange(0, 3).Draw(t, "prefixBulk") == 0)
			ids, err := vc24ToIDs(s, ns, keys)
			if err != nil {
				t.Fatalf("prefix translate: %v", err)
			}
			m.observe(t, "prefix", ns, keys, ids)
		}
		const workers = 4
		plans := make([][]*vc24Call, workers)
		total := 0
		var desc []string
		for w := 0; w < workers; w++ {
			nb := rapid.IntRange(1, 5).Draw(t, fmt.Sprintf("w%d_batches", w))
			for b := 0; b < nb; b++ {
				label := fmt.Sprintf("w%d_b%d", w, b)
				call := &vc24Call{NS: rapid.SampledFrom(nss).Draw(t, label+"_ns"), Keys: g.batch(t, label, false)}
				plans[w] = append(plans[w], call)
				desc = append(desc, fmt.Sprintf("w%d:%s", w, vc24BatchDesc(call.NS, call.Keys)))
				total += len(call.Keys)
			}
		}
		// overlap: every worker also gets the first batch of worker 0
		for w := 1; w < workers; w++ {
			plans[w] = append(plans[w], &vc24Call{NS: plans[0][0].NS, Keys: append([]string{}, plans[0][0].Keys...)})
		}
		type rev struct {
			ns  vc24NS
			id  uint64
			got string
		}
		var revs []rev
		var wg sync.WaitGroup
		start := make(chan struct{})
		for w := 0; w < workers; w++ {
			wg.Add(1)
			go func(calls []*vc24Call) {
				defer wg.Done()
				<-start
				for _, c := range calls {
					c.IDs, c.Err = vc24ToIDs(s, c.NS, c.Keys)
				}
			}(plans[w])
		}
		// a reader doing reverse lookups of small ids while the writers run
		wg.Add(1)
		go func() {
			defer wg.Done()
			<-start
			for i := 0; i < 40; i++ {
				ns := nss[i%2]
				id := uint64(i%10 + 1)
				k, err := vc24ToKey(s, ns, id)
				if err == nil && k != "" {
					revs = append(revs, rev{ns, id, k})
				}
			}
		}()
		close(start)
		wg.Wait()
		c := vkit.NewCase().Key("c24conc", strings.Join(desc, ";"))
		defer c.Done()
		repeated := false
		for w := 0; w < workers; w++ {
			for _, call := range plans[w] {
				if call.Err != nil {
					t.Fatalf("worker %d: translate %s: %v", w, vc24BatchDesc(call.NS, call.Keys), call.Err)
				}
				_, rep := m.observe(t, fmt.Sprintf("worker %d (concurrent) %s", w, vc24BatchDesc(call.NS, call.Keys)), call.NS, call.Keys, call.IDs)
				repeated = repeated || rep
			}
		}
		for _, r := range revs {
			if want, ok := m.keys[r.ns][r.id]; !ok || want != r.got {
				t.Fatalf("concurrent reverse lookup %v id %d returned %s, final mapping has %s (present %v)", r.ns, r.id, vc24Short(r.got), vc24Short(want), ok)
			}
		}
		m.verifyAll(t, "after concurrent phase", s)
		if err := s.Close(); err != nil {
			t.Fatalf("Close: %v", err)
		}
		s = vc24Open(t, path, nil)
		m.verifyAll(t, "after concurrent phase and Close+Open", s)
		c.ClassIf(repeated, "repeatedNewKeyInBatch").Class("workers:4")
		c.NT(total >= 4)
		if len(desc) > 8 {
			desc = desc[:8]
		}
		c.Sample(map[string]interface{}{"batches": desc})
	})
}

// ---------------------------------------------------------------------------
// replication

// vc24CutStore is a primary whose stream ends (EOF, like a dropped connection)
// at an absolute byte offset of the primary's log.
type vc24CutStore struct {
	*TranslateFile
	cut int64
}

type vc24CutReader struct {
	io.Reader
	rc io.ReadCloser
}

func (r *vc24CutReader) Close() error { return r.rc.Close() }

func (p *vc24CutStore) Reader(ctx context.Context, off int64) (io.ReadCloser, error) {
	if off > p.cut {
		return nil, fmt.Errorf("vc24: replica asks for offset %d beyond the cut %d", off, p.cut)
	}
	rc, err := p.TranslateFile.Reader(ctx, off)
	if err != nil {
		return nil, err
	}
	return &vc24CutReader{Reader: io.LimitReader(rc, p.cut-off), rc: rc}, nil
}

type vc24Created struct {
	ns  vc24NS
	key string
	end int64 // log size of the primary right after the entry that created the key
}

func TestVerifC24_Replication(t *testing.T) {
	defer vkit.Flush()
	rapid.Check(t, func(t *rapid.T) {
		dir := vc24TempDir(t)
		defer os.RemoveAll(dir)
		ppath, rpath := filepath.Join(dir, "primary"), filepath.Join(dir, "replica")
		p := vc24Open(t, ppath, nil)
		defer func() { p.Close() }()
		cut := &vc24CutStore{TranslateFile: p}
		r := vc24Open(t, rpath, cut)
		defer func() { r.Close() }()
		m := vc24NewModel()
		g := vc24NewGen(t)
		c := vkit.NewCase()
		defer c.Done()
		var trace []string
		boundaries := []int64{0}
		var created []vc24Created
		nt := false
		bulks := 0

		write := func(label string) {
			ns := rapid.SampledFrom(vc24Namespaces).Draw(t, label+"_ns")
			bulk := rapid.IntRange(0, 7).Draw(t, label+"_isBulk") == 0 && bulks < 1
			if bulk {
				bulks++
			}
			g.hint(ns, m)
			keys := g.batch(t, label, bulk)
			sizeBefore := p.size()
			ids, err := vc24ToIDs(p, ns, keys)
			if err != nil {
				t.Fatalf("primary translate %s: %v", vc24BatchDesc(ns, keys), err)
			}
			vc24ClassifyEntry(c, p.size()-sizeBefore)
			known := map[string]bool{}
			for k := range m.ids[ns] {
				known[k] = true
			}
			m.observe(t, "primary "+vc24BatchDesc(ns, keys), ns, keys, ids)
			if sz := p.size(); sz > boundaries[len(boundaries)-1] {
				boundaries = append(boundaries, sz)
				for _, k := range keys {
					if !known[k] {
						known[k] = true
						created = append(created, vc24Created{ns, k, sz})
					}
				}
			}
			trace = append(trace, "P:"+vc24BatchDesc(ns, keys))
		}
		// sync streams the primary's log up to `upto` (absolute offset) into the replica and checks the result
		syncTo := func(upto int64, what string) {
			before := r.size()
			cut.cut = upto
			err := r.replicate(context.Background())
			want := before
			for _, b := range boundaries {
				if b <= upto && b > want {
					want = b
				}
			}
			if got := r.size(); got != want {
				t.Fatalf("%s: replica at %d streamed up to offset %d (entry boundaries %v): replica size %d, want %d (replicate error: %v)", what, before, upto, boundaries, got, want, err)
			}
			pb, e1 := ioutil.ReadFile(ppath)
			rb, e2 := ioutil.ReadFile(rpath)
			if e1 != nil || e2 != nil {
				t.Fatalf("reading logs: %v %v", e1, e2)
			}
			if int64(len(rb)) != want || !bytes.Equal(rb, pb[:want]) {
				t.Fatalf("%s: replica log (%d bytes) is not the %d byte prefix of the primary's log", what, len(rb), want)
			}
		}
		// lookups on the replica: everything created up to its size must be there, identically
		checkReplica := func(what string) {
			sz := r.size()
			byNS := map[vc24NS][]string{}
			for _, cr := range created {
				if cr.end <= sz {
					byNS[cr.ns] = append(byNS[cr.ns], cr.key)
				}
			}
			for _, ns := range vc24Namespaces {
				keys := byNS[ns]
				if len(keys) == 0 {
					continue
				}
				ids, err := vc24ToIDs(r, ns, keys)
				if err != nil {
					t.Fatalf("%s: replica (size %d) translating %d replicated keys of %v: %v", what, sz, len(keys), ns, err)
				}
				for i, k := range keys {
					if ids[i] != m.ids[ns][k] {
						t.Fatalf("%s: replica translates %v key %s to %d, primary to %d", what, ns, vc24Short(k), ids[i], m.ids[ns][k])
					}
					back, err := vc24ToKey(r, ns, ids[i])
					if err != nil || back != k {
						t.Fatalf("%s: replica translates %v id %d back to %s (err %v), want %s", what, ns, ids[i], vc24Short(back), err, vc24Short(k))
					}
				}
			}
			// a key that has not arrived yet cannot be created on a replica
			for _, cr := range created {
				if cr.end > sz {
					ids, err := vc24ToIDs(r, cr.ns, []string{cr.key})
					if err != ErrTranslateStoreReadOnly {
						t.Fatalf("%s: replica (size %d) translating %v key %s that is not replicated yet (entry ends at %d): ids %v err %v, want ErrTranslateStoreReadOnly", what, sz, cr.ns, vc24Short(cr.key), cr.end, ids, err)
					}
					break
				}
			}
		}

		write("w0")
		nOps := rapid.IntRange(1, 14).Draw(t, "nOps")
		for i := 0; i < nOps; i++ {
			label := fmt.Sprintf("op%d", i)
			switch rapid.SampledFrom([]string{"write", "write", "write", "sync", "sync", "reopenReplica", "reopenPrimary", "check"}).Draw(t, label) {
			case "write":
				write(label)
			case "sync":
				cur := r.size()
				last := boundaries[len(boundaries)-1]
				var upto int64
				switch kind := rapid.SampledFrom([]string{"boundary", "boundary", "all", "midEntry"}).Draw(t, label+"_kind"); {
				case kind == "all" || cur == last:
					upto = last
					c.Class("sync:all")
				case kind == "boundary":
					var cands []int64
					for _, b := range boundaries {
						if b >= cur {
							cands = append(cands, b)
						}
					}
					upto = rapid.SampledFrom(cands).Draw(t, label+"_b")
					if upto > cur && upto < last {
						nt = true
						c.Class("sync:interiorBoundary")
					}
				default:
					upto = rapid.Int64Range(cur, last).Draw(t, label+"_off")
					interior := true
					for _, b := range boundaries {
						if b == upto {
							interior = false
						}
					}
					if interior {
						nt = true
						c.Class("sync:midEntryCut")
					}
				}
				trace = append(trace, fmt.Sprintf("sync@%d", upto))
				syncTo(upto, fmt.Sprintf("sync #%d", i))
				checkReplica(fmt.Sprintf("after sync #%d", i))
			case "reopenReplica":
				trace = append(trace, "reopenReplica")
				before := r.size()
				if err := r.Close(); err != nil {
					t.Fatalf("replica Close: %v", err)
				}
				r = vc24Open(t, rpath, cut)
				if got := r.size(); got != before {
					t.Fatalf("replica size after Close+Open is %d, was %d", got, before)
				}
				if before > 0 && before < boundaries[len(boundaries)-1] {
					nt = true
					c.Class("replicaReopenedBehindPrimary")
				}
				checkReplica("after replica Close+Open")
			case "reopenPrimary":
				trace = append(trace, "reopenPrimary")
				if err := p.Close(); err != nil {
					t.Fatalf("primary Close: %v", err)
				}
				p = vc24Open(t, ppath, nil)
				cut.TranslateFile = p
				c.Class("primaryReopened")
			case "check":
				checkReplica(fmt.Sprintf("check #%d", i))
			}
		}
		syncTo(boundaries[len(boundaries)-1], "final sync")
		checkReplica("after final sync")
		m.verifyAll(t, "replica after final sync", r)
		m.verifyAll(t, "primary at the end", p)
		if err := r.Close(); err != nil {
			t.Fatalf("replica Close: %v", err)
		}
		r = vc24Open(t, rpath, cut)
		m.verifyAll(t, "replica after final sync and Close+Open", r)
		c.Key("c24repl", strings.Join(trace, ";"))
		c.NT(nt)
		if len(trace) > 10 {
			trace = trace[:10]
		}
		c.Sample(map[string]interface{}{"ops": trace, "entries": len(boundaries) - 1})
	})
}

func vc24ReadFile(t vc24Fataler, path string) []byte {
	b, err := ioutil.ReadFile(path)
	if err != nil {
		t.Fatalf("reading %s: %v", path, err)
	}
	return b
}

// TestVerifC24_ReplicationLive uses the real machinery end to end: SetPrimaryStore,
// monitorReplication, the primary's streaming reader and its write notifications.
// The replica is closed either idle or while entries may still be arriving (finding DM2).
// Waiting is bounded generously; the bound is
// only there so that a replica that never catches up is reported instead of hanging.
func TestVerifC24_ReplicationLive(t *testing.T) {
	defer vkit.Flush()
	rapid.Check(t, func(t *rapid.T) {
		dir := vc24TempDir(t)
		defer os.RemoveAll(dir)
		ppath, rpath := filepath.Join(dir, "primary"), filepath.Join(dir, "replica")
		p := vc24Open(t, ppath, nil)
		defer func() { p.Close() }()
		openReplica := func() *TranslateFile {
			r := NewTranslateFile(OptTranslateFileMapSize(vc24MapSize))
			r.Path = rpath
			r.replicationRetryInterval = 5 * time.Millisecond
			if err := r.Open(); err != nil {
				t.Fatalf("open replica: %v", err)
			}
			return r
		}
		r := openReplica()
		defer func() { r.Close() }()
		attached := false
		m := vc24NewModel()
		g := vc24NewGen(t)
		c := vkit.NewCase()
		defer c.Done()
		var trace []string
		nt := false
		waitCaughtUp := func(what string) {
			want := p.size()
			deadline := time.Now().Add(120 * time.Second)
			for r.size() != want {
				if time.Now().After(deadline) {
					t.Fatalf("%s: replica stuck at %d, primary log is %d bytes (waited 120s)", what, r.size(), want)
				}
				select {
				case <-r.WriteNotify():
				case <-time.After(2 * time.Millisecond):
				}
			}
		}
		nOps := rapid.IntRange(2, 10).Draw(t, "nOps")
		for i := 0; i < nOps; i++ {
			label := fmt.Sprintf("op%d", i)
			switch rapid.SampledFrom([]string{"write", "write", "write", "attach", "attach", "catchUp", "reopenReplica", "reopenReplica"}).Draw(t, label) {
			case "write":
				ns := rapid.SampledFrom(vc24Namespaces).Draw(t, label+"_ns")
				g.hint(ns, m)
				keys := g.batch(t, label, false)
				ids, err := vc24ToIDs(p, ns, keys)
				if err != nil {
					t.Fatalf("primary translate: %v", err)
				}
				m.observe(t, "primary "+vc24BatchDesc(ns, keys), ns, keys, ids)
				trace = append(trace, "P:"+vc24BatchDesc(ns, keys))
			case "attach":
				if !attached {
					r.SetPrimaryStore("primary", p)
					attached = true
					trace = append(trace, "attach")
				}
			case "catchUp":
				if attached {
					waitCaughtUp("catchUp")
					m.verifyAll(t, "replica after catching up", r)
					trace = append(trace, "catchUp")
				}
			case "reopenReplica":
				// close the replica either idle (caught up) or while entries may still be streaming in
				if attached && rapid.Bool().Draw(t, label+"_catchUpFirst") {
					waitCaughtUp("before closing the replica")
				} else if attached {
					c.Class("closedWhileStreaming")
				}
				if err := r.Close(); err != nil {
					t.Fatalf("replica Close: %v", err)
				}
				st, err := os.Stat(rpath)
				if err != nil {
					t.Fatalf("stat replica log: %v", err)
				}
				behind := st.Size()
				if pb, rb := vc24ReadFile(t, ppath), vc24ReadFile(t, rpath); len(rb) > len(pb) || !bytes.Equal(rb, pb[:len(rb)]) {
					t.Fatalf("closed replica log (%d bytes) is not a prefix of the primary's log (%d bytes)", len(rb), len(pb))
				}
				// the primary moves on while the replica is down
				if rapid.IntRange(0, 3).Draw(t, label+"_writeWhileDown") > 0 {
					ns := rapid.SampledFrom(vc24Namespaces).Draw(t, label+"_ns")
					keys := g.batch(t, label, false)
					ids, err := vc24ToIDs(p, ns, keys)
					if err != nil {
						t.Fatalf("primary translate: %v", err)
					}
					m.observe(t, "primary "+vc24BatchDesc(ns, keys), ns, keys, ids)
					trace = append(trace, "P(down):"+vc24BatchDesc(ns, keys))
				}
				r = openReplica()
				if r.size() != behind {
					t.Fatalf("replica size after Close+Open is %d, was %d", r.size(), behind)
				}
				if behind > 0 && behind < p.size() {
					nt = true
					c.Class("resumedBehindPrimary")
				}
				if attached {
					r.SetPrimaryStore("primary", p)
				}
				trace = append(trace, "reopenReplica")
			}
		}
		if !attached {
			r.SetPrimaryStore("primary", p)
		}
		waitCaughtUp("final")
		pb, _ := ioutil.ReadFile(ppath)
		rb, _ := ioutil.ReadFile(rpath)
		if !bytes.Equal(pb, rb) {
			t.Fatalf("replica log (%d bytes) differs from the primary's (%d bytes) after catching up", len(rb), len(pb))
		}
		m.verifyAll(t, "replica at the end", r)
		c.Key("c24live", strings.Join(trace, ";"))
		c.NT(nt || len(pb) > 0)
		if len(trace) > 10 {
			trace = trace[:10]
		}
		c.Sample(map[string]interface{}{"ops": trace})
	})
}

// TestVerifWitness_DM2: Close must not unmap the log while an append (which holds
// the store lock and reads the map) is in flight. The witness plays the append by
// holding the lock itself: Close has to wait for it.
func TestVerifWitness_DM2(t *testing.T) {
	dir := vc24TempDir(t)
	defer os.RemoveAll(dir)
	s := vc24Open(t, filepath.Join(dir, "keys"), nil)
	if _, err := s.TranslateColumnsToUint64("i", []string{"a"}); err != nil {
		t.Fatal(err)
	}
	s.mu.Lock() // an append is in flight
	done := make(chan struct{})
	go func() { s.Close(); close(done) }()
	select {
	case <-done:
		s.mu.Unlock()
		t.Fatalf("Close() closed and unmapped the log while an append held the store lock (a replicated entry being applied then reads unmapped memory: SIGSEGV)")
	case <-time.After(300 * time.Millisecond):
	}
	s.mu.Unlock()
	<-done
}
