package pilosa

// C19 (field level) — after Field.ClearBit(row, col) on a time field no view of the field (standard or any time
// view, hence no time range) holds the bit until it is set again, whatever timestamps it was set with.
// Oracle: per-view model map[view]set((row,col)) with the harness's own view naming.

import (
	"fmt"
	"sort"
	"strings"
	"testing"
	"time"

	"github.com/pilosa/pilosa/internal/vkit"
	"pgregory.net/rapid"
)

type vC19RC struct{ Row, Col uint64 }

func vC19ViewName(ts time.Time, unit rune) string {
	switch unit {
	case 'Y':
		return fmt.Sprintf("standard_%04d", ts.Year())
	case 'M':
		return fmt.Sprintf("standard_%04d%02d", ts.Year(), int(ts.Month()))
	case 'D':
		return fmt.Sprintf("standard_%04d%02d%02d", ts.Year(), int(ts.Month()), ts.Day())
	}
	return fmt.Sprintf("standard_%04d%02d%02d%02d", ts.Year(), int(ts.Month()), ts.Day(), ts.Hour())
}

type vC19Model struct {
	q     TimeQuantum
	noStd bool
	views map[string]map[vC19RC]bool
}

func (m *vC19Model) add(view string, rc vC19RC) {
	if m.views[view] == nil {
		m.views[view] = map[vC19RC]bool{}
	}
	m.views[view][rc] = true
}

func (m *vC19Model) set(rc vC19RC, ts *time.Time) {
	if !m.noStd {
		m.add("standard", rc)
	}
	if ts != nil {
		for _, u := range m.q {
			m.add(vC19ViewName(*ts, u), rc)
		}
	}
}

func (m *vC19Model) clear(rc vC19RC) {
	for _, s := range m.views {
		delete(s, rc)
	}
}

// interleaved reports whether, in name order, a time view without rc lies between two time views holding rc,
// and how many time views do not hold rc.
func (m *vC19Model) interleaved(rc vC19RC) (bool, int) {
	var names []string
	for n := range m.views {
		if n != "standard" {
			names = append(names, n)
		}
	}
	sort.Strings(names)
	notIn, state, inter := 0, 0, false
	for _, n := range names {
		if m.views[n][rc] {
			if state == 2 {
				inter = true
			}
			if state == 0 {
				state = 1
			}
		} else {
			notIn++
			if state == 1 {
				state = 2
			}
		}
	}
	return inter, notIn
}

var vC19Rows = []uint64{0, 1, 2}

// vC19Verify compares every view of the field with the model.
func vC19Verify(f *Field, m *vC19Model) error {
	real := map[string]bool{}
	for _, v := range f.views() {
		real[v.name] = true
		for _, r := range vC19Rows {
			got := v.row(r).Columns()
			var want []uint64
			for rc := range m.views[v.name] {
				if rc.Row == r {
					want = append(want, rc.Col)
				}
			}
			sort.Slice(want, func(i, j int) bool { return want[i] < want[j] })
			if fmt.Sprint(got) != fmt.Sprint(want) && !(len(got) == 0 && len(want) == 0) {
				return fmt.Errorf("view %s row %d holds columns %v, want %v", v.name, r, got, want)
			}
		}
	}
	for n, s := range m.views {
		if len(s) > 0 && !real[n] {
			return fmt.Errorf("view %s is missing, want bits %v", n, s)
		}
	}
	return nil
}

// vC19GenStamp draws a timestamp near earlier ones (sibling hours/days/months/years) or a fresh one.
func vC19GenStamp(t *rapid.T, label string, anchors []time.Time) time.Time {
	if len(anchors) > 0 && rapid.IntRange(0, 3).Draw(t, label+".near") > 0 {
		a := anchors[rapid.IntRange(0, len(anchors)-1).Draw(t, label+".anchor")]
		u := rapid.SampledFrom([]rune{'H', 'D', 'M', 'Y'}).Draw(t, label+".du")
		k := rapid.IntRange(-2, 2).Draw(t, label+".dk")
		return vgtAdd(a, u, k)
	}
	y := rapid.IntRange(2018, 2020).Draw(t, label+".y")
	mo := rapid.SampledFrom([]int{1, 2, 6, 11, 12}).Draw(t, label+".m")
	d := rapid.SampledFrom([]int{1, 2, 9, 10, 15, 28}).Draw(t, label+".d")
	h := rapid.SampledFrom([]int{0, 3, 9, 10, 13, 23}).Draw(t, label+".h")
	return time.Date(y, time.Month(mo), d, h, 0, 0, 0, time.UTC)
}

func TestVerifC19_FieldClear(t *testing.T) {
	defer vkit.Flush()
	rapid.Check(t, func(t *rapid.T) {
		q := rapid.SampledFrom(vgtQuanta).Draw(t, "q")
		noStd := rapid.Bool().Draw(t, "noStandardView")
		if vkit.Open("D22") && noStd {
			vkit.Excluded("D22")
			noStd = false
		}
		f := MustOpenField(OptFieldTypeTime(q, noStd))
		defer f.Close()
		m := &vC19Model{q: q, noStd: noStd, views: map[string]map[vC19RC]bool{}}
		target := vC19RC{1, 1}
		others := []vC19RC{{1, 2}, {2, 1}, {1, ShardWidth + 1}, {0, 3}}
		var anchors []time.Time
		var hist []string
		nops := rapid.IntRange(2, 14).Draw(t, "nops")
		nt, clears := false, 0
		c := vkit.NewCase()
		defer c.Done()
		for i := 0; i < nops; i++ {
			l := fmt.Sprintf("op%d", i)
			kind := rapid.SampledFrom([]string{"setT", "setT", "setO", "setO", "setO", "clearT", "clearO", "setTnoTS"}).Draw(t, l)
			if i == nops-1 {
				kind = "clearT"
			}
			switch kind {
			case "setT", "setO", "setTnoTS":
				rc := target
				if kind == "setO" {
					rc = others[rapid.IntRange(0, len(others)-1).Draw(t, l+".who")]
				}
				var tsp *time.Time
				if kind != "setTnoTS" {
					ts := vC19GenStamp(t, l, anchors)
					anchors = append(anchors, ts)
					tsp = &ts
					hist = append(hist, fmt.Sprintf("Set(%d,%d,%s)", rc.Row, rc.Col, ts.Format("2006-01-02T15")))
				} else {
					hist = append(hist, fmt.Sprintf("Set(%d,%d)", rc.Row, rc.Col))
				}
				if _, err := f.SetBit(rc.Row, rc.Col, tsp); err != nil {
					t.Fatalf("%s: %v", hist[len(hist)-1], err)
				}
				m.set(rc, tsp)
			default:
				rc := target
				if kind == "clearO" {
					rc = others[rapid.IntRange(0, len(others)-1).Draw(t, l+".who")]
				}
				inter, notIn := m.interleaved(rc)
				if inter && notIn >= 3 {
					nt = true
				}
				hist = append(hist, fmt.Sprintf("Clear(%d,%d)", rc.Row, rc.Col))
				if _, err := f.ClearBit(rc.Row, rc.Col); err != nil {
					t.Fatalf("quantum %s noStandardView=%v history %v: ClearBit: %v", q, noStd, hist, err)
				}
				m.clear(rc)
				clears++
				if err := vC19Verify(f.Field, m); err != nil {
					t.Fatalf("quantum %s noStandardView=%v after %s: %v", q, noStd, strings.Join(hist, " "), err)
				}
			}
		}
		if err := vC19Verify(f.Field, m); err != nil {
			t.Fatalf("quantum %s noStandardView=%v after %s: %v", q, noStd, strings.Join(hist, " "), err)
		}
		c.Key("c19f", q, noStd, hist)
		c.Class("q:"+string(q)).ClassIf(noStd, "noStandardView").ClassIf(nt, "interleavedViews").ClassIf(clears >= 2, "severalClears")
		c.NT(nt)
		c.Sample(map[string]interface{}{"q": q, "noStandardView": noStd, "history": strings.Join(hist, " ")})
	})
}

// TestVerifWitness_D22: Clear on a noStandardView time field must clear the time views.
func TestVerifWitness_D22(t *testing.T) {
	f := MustOpenField(OptFieldTypeTime(TimeQuantum("YMDH"), true))
	defer f.Close()
	ts := time.Date(2019, 1, 15, 5, 0, 0, 0, time.UTC)
	if _, err := f.SetBit(1, 1, &ts); err != nil {
		t.Fatal(err)
	}
	if _, err := f.ClearBit(1, 1); err != nil {
		t.Fatal(err)
	}
	for _, v := range f.views() {
		if cols := v.row(1).Columns(); len(cols) != 0 {
			t.Fatalf("noStandardView field: after Set(1, f=1, 2019-01-15T05:00) Clear(1, f=1), view %s still holds columns %v", v.name, cols)
		}
	}
}

// TestVerifWitness_DT1: ClearBit's skip-level bookkeeping must not skip a view that holds the bit.
func TestVerifWitness_DT1(t *testing.T) {
	f := MustOpenField(OptFieldTypeTime(TimeQuantum("YMD")))
	defer f.Close()
	t1 := time.Date(2018, 12, 31, 0, 0, 0, 0, time.UTC)
	t2 := time.Date(2019, 1, 15, 0, 0, 0, 0, time.UTC)
	if _, err := f.SetBit(1, 2, &t1); err != nil { // another column creates views 2018, 201812, 20181231
		t.Fatal(err)
	}
	if _, err := f.SetBit(1, 1, &t2); err != nil {
		t.Fatal(err)
	}
	if _, err := f.ClearBit(1, 1); err != nil {
		t.Fatal(err)
	}
	for _, v := range f.views() {
		for _, col := range v.row(1).Columns() {
			if col == 1 {
				t.Fatalf("quantum YMD: Set(2, f=1, 2018-12-31) Set(1, f=1, 2019-01-15) Clear(1, f=1): view %s still holds column 1", v.name)
			}
		}
	}
}
