package pilosa

// C10 — block checksums always reflect current block contents.
// The gfrag state machine runs on two fragments A and B (same field type and shard, independent cache / MaxOpN /
// snapshot configuration); each generated operation goes to A, to B or to both. Blocks()/Checksum()/blockData are
// interleaved. Oracles: (1) Blocks() equals Blocks() of a brand-new fragment loaded with the bits currently stored,
// (2) A and B report the same checksum for a block exactly when they store the same bits there,
// (3) InvalidateChecksums() never changes the answer.

import (
	"bytes"
	"fmt"
	"os"
	"testing"

	"github.com/pilosa/pilosa/internal/vkit"
	"pgregory.net/rapid"
)

func vgfC10Weights(kind string) []vgfWeight {
	admin := []vgfWeight{{"snapshot", 1}, {"bgrun", 2}, {"reopen", 1}, {"flush", 1}}
	switch kind {
	case vgfSet:
		return append([]vgfWeight{{"setBit", 3}, {"clearBit", 2}, {"setRow", 4}, {"clearRow", 3}, {"import", 3}, {"importClear", 3}, {"roaring", 4}, {"roaringClear", 3}, {"importWide", 1}, {"roaringWide", 1}}, admin...)
	case vgfMutex, vgfBool:
		return append([]vgfWeight{{"setBit", 4}, {"clearBit", 2}, {"clearRow", 3}, {"import", 5}, {"importClear", 3}, {"importWide", 1}}, admin...)
	default:
		return append([]vgfWeight{{"setValue", 4}, {"importValue", 6}, {"importValueClear", 2}, {"importValueWide", 1}}, admin...)
	}
}

func (m *vgfM) storedByBlock() map[int][]uint64 {
	by := map[int][]uint64{}
	for _, p := range m.storedPositions() {
		id := int(p / (HashBlockSize * ShardWidth))
		by[id] = append(by[id], p)
	}
	return by
}

func vgfC10Differential(a, b *vgfM, ba, bb []FragmentBlock) (differs bool) {
	sa, sb := map[int][]byte{}, map[int][]byte{}
	for _, x := range ba {
		sa[x.ID] = x.Checksum
	}
	for _, x := range bb {
		sb[x.ID] = x.Checksum
	}
	da, db := a.storedByBlock(), b.storedByBlock()
	for id := 0; id < 4; id++ {
		same := vgfEqU(da[id], db[id])
		if !same {
			differs = true
		}
		if sameSum := bytes.Equal(sa[id], sb[id]); same != sameSum {
			a.fail("block %d: replicas hold equal bits = %v but report equal checksums = %v\n A bits %v checksum %x\n B bits %v checksum %x\nhistory of B:\n  %v",
				id, same, sameSum, da[id], sa[id], db[id], sb[id], b.hist)
		}
	}
	return differs
}

func TestVerifC10_Blocks(t *testing.T) {
	defer vkit.Flush()
	rapid.Check(t, func(t *rapid.T) {
		caches := []string{CacheTypeRanked, CacheTypeLRU, CacheTypeNone}
		sizes := []uint32{2, 50000}
		ca := vgfGenCfg(t, "A", []string{vgfSet, vgfSet, vgfMutex, vgfBool, vgfBSI}, caches, sizes)
		cb := vgfGenCfg(t, "B", []string{ca.Kind}, caches, sizes)
		cb.Shard = ca.Shard
		cb.FileLimit = ca.FileLimit // process-global setting
		dir := vgfTempDir(t)
		defer os.RemoveAll(dir)
		a := vgfNew(t, ca, dir, "a")
		b := vgfNew(t, cb, dir, "b")
		closed := false
		defer func() {
			if !closed {
				a.drain()
				b.drain()
				_ = a.f.Close()
				_ = b.f.Close()
			}
		}()
		ws := vgfC10Weights(ca.Kind)
		n := rapid.IntRange(1, vkit.Scale(25, 40)).Draw(t, "steps")
		c := vkit.NewCase()
		defer c.Done()
		nChecks, everDiffered := 0, false
		check := func(fresh bool) {
			ba := a.checkBlocks(dir, fresh)
			bb := b.checkBlocks(dir, fresh)
			if vgfC10Differential(a, b, ba, bb) {
				everDiffered = true
			}
			nChecks++
		}
		for i := 0; i < n; i++ {
			l := fmt.Sprintf("s%d", i)
			op := vgfGenOp(t, l, ca, ws)
			switch rapid.SampledFrom([]string{"both", "both", "a", "b"}).Draw(t, l+".to") {
			case "both":
				a.apply(op)
				b.apply(op)
			case "a":
				a.apply(op)
			case "b":
				b.apply(op)
			}
			switch rapid.SampledFrom([]string{"none", "blocks", "blocks", "fresh", "reads"}).Draw(t, l+".check") {
			case "blocks":
				check(false)
			case "fresh":
				check(true)
			case "reads":
				a.checkSome(l + ".a")
				b.checkSome(l + ".b")
			}
		}
		check(true)
		a.close()
		b.close()
		closed = true

		c.Key("c10", ca.String(), cb.String(), a.hist, "|", b.hist)
		c.Class("kind:"+ca.Kind).ClassIf(everDiffered, "replicasDiffered").ClassIf(!everDiffered, "replicasAlwaysEqual")
		for p := range a.paths {
			c.Class("path:" + p)
		}
		stale := a.staleBlock || b.staleBlock
		c.ClassIf(stale, "cachedChecksumThenOtherPathThenRead")
		c.ClassIf(a.wide || b.wide, "containerBeyondInlineSize")
		c.NT(stale)
		c.Sample(map[string]interface{}{"A": ca.String(), "B": cb.String(), "historyA": a.hist, "historyB": b.hist, "checks": nChecks})
	})
}
