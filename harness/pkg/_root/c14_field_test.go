package pilosa

// C14 (in-package half) — integer fields store values exactly; Field.Value/Sum/Min/Max/Range
// (the field's Go API) agree with a map model.
//   TestVerifC14_FieldExhaustive: plain enumeration of the small-depth space (no generator).
//   TestVerifC14_FieldRandom:     rapid, depths up to 63.

import (
	"fmt"
	"math"
	"math/big"
	"sort"
	"testing"

	"github.com/pilosa/pilosa/internal/vkit"
	"github.com/pilosa/pilosa/pql"
	"pgregory.net/rapid"
)

type vc14T interface {
	Fatalf(format string, args ...interface{})
}

// vc14OpenField opens a standalone int field in a temporary directory.
func vc14OpenField(min, max int64, reopen bool) *TestField {
	f := MustOpenField(OptFieldTypeInt(min, max))
	if reopen {
		if err := f.Reopen(); err != nil {
			panic(err)
		}
	}
	return f
}

func vc14Apply(t vc14T, f *Field, w vq1Write, what string) {
	switch w.Kind {
	case "set":
		for i := range w.Cols {
			if _, err := f.SetValue(w.Cols[i], w.Vals[i]); err != nil {
				t.Fatalf("%s: SetValue(%d,%d): %v", what, w.Cols[i], w.Vals[i], err)
			}
		}
	case "import":
		if err := f.importValue(append([]uint64(nil), w.Cols...), append([]int64(nil), w.Vals...), &ImportOptions{}); err != nil {
			t.Fatalf("%s: importValue(%v,%v): %v", what, w.Cols, w.Vals, err)
		}
	case "clear":
		if err := f.importValue(append([]uint64(nil), w.Cols...), append([]int64(nil), w.Vals...), &ImportOptions{Clear: true}); err != nil {
			t.Fatalf("%s: importValue(clear %v,%v): %v", what, w.Cols, w.Vals, err)
		}
	default:
		panic("kind")
	}
}

// vc14Filters builds the filter rows used with Sum/Min/Max: name -> columns (nil = no filter).
func vc14Filters(m *vq1IntModel, extra []uint64) (names []string, filters map[string][]uint64) {
	filters = map[string][]uint64{}
	cols := m.cols()
	var neg, alt, sh1, nonneg []uint64
	for i, c := range cols {
		if m.Vals[c] < 0 {
			neg = append(neg, c)
		} else {
			nonneg = append(nonneg, c)
		}
		if i%2 == 1 {
			alt = append(alt, c)
		}
		if c/ShardWidth == 1 {
			sh1 = append(sh1, c)
		}
	}
	filters["none"] = nil
	filters["empty"] = []uint64{}
	filters["negOnly"] = append([]uint64{}, neg...)
	filters["nonNeg"] = append([]uint64{}, nonneg...)
	filters["alternate"] = append([]uint64{}, alt...)
	filters["shard1"] = append([]uint64{}, sh1...)
	// columns without a value plus two with one
	wv := append([]uint64{}, extra...)
	if len(cols) > 0 {
		wv = append(wv, cols[0], cols[len(cols)-1])
	}
	filters["withNull"] = wv
	return []string{"none", "empty", "negOnly", "nonNeg", "alternate", "shard1", "withNull"}, filters
}

// vc14CheckAggs compares Field.Sum/Min/Max with the model under every filter.
func vc14CheckAggs(t vc14T, f *Field, m *vq1IntModel, what string, nullCols []uint64) (tieAcrossShards, negOnly bool) {
	names, filters := vc14Filters(m, nullCols)
	for _, name := range names {
		var row *Row
		var within map[uint64]bool
		if cols := filters[name]; cols != nil {
			row = NewRow(cols...)
			within = vq1ColSet(cols)
		}
		want := m.agg(within)
		sum, n, err := f.Sum(row, f.Name())
		if err != nil {
			t.Fatalf("%s: Field.Sum(filter=%s): %v", what, name, err)
		}
		if n != want.N || (want.Sum.IsInt64() && sum != want.Sum.Int64()) {
			t.Fatalf("%s: Field.Sum(filter=%s) = (sum %d, count %d), want (sum %s, count %d)", what, name, sum, n, want.Sum, want.N)
		}
		mn, nmn, err := f.Min(row, f.Name())
		if err != nil {
			t.Fatalf("%s: Field.Min(filter=%s): %v", what, name, err)
		}
		mx, nmx, err := f.Max(row, f.Name())
		if err != nil {
			t.Fatalf("%s: Field.Max(filter=%s): %v", what, name, err)
		}
		if want.N == 0 {
			if nmn != 0 || nmx != 0 {
				t.Fatalf("%s: filter=%s selects no value but Field.Min count=%d, Field.Max count=%d", what, name, nmn, nmx)
			}
			continue
		}
		if mn != want.Min || nmn != want.NMin {
			t.Fatalf("%s: Field.Min(filter=%s) = (%d, count %d), want (%d, count %d)", what, name, mn, nmn, want.Min, want.NMin)
		}
		if mx != want.Max || nmx != want.NMax {
			t.Fatalf("%s: Field.Max(filter=%s) = (%d, count %d), want (%d, count %d)", what, name, mx, nmx, want.Max, want.NMax)
		}
		if want.Max < 0 {
			negOnly = true
		}
	}
	// is the extreme tied across shards?
	a := m.agg(nil)
	shards := map[uint64]bool{}
	for c, v := range m.Vals {
		if v == a.Min {
			shards[c/ShardWidth] = true
		}
	}
	return len(shards) > 1, negOnly
}

// vc14CheckValues compares Field.Value on every column of the model and on the given empty columns.
func vc14CheckValues(t vc14T, f *Field, m *vq1IntModel, what string, nullCols []uint64) {
	for _, c := range m.cols() {
		v, ok, err := f.Value(c)
		if err != nil {
			t.Fatalf("%s: Field.Value(%d): %v", what, c, err)
		}
		if !ok || v != m.Vals[c] {
			t.Fatalf("%s: Field.Value(%d) = (%d, exists %v), want (%d, true)", what, c, v, ok, m.Vals[c])
		}
	}
	for _, c := range nullCols {
		if _, has := m.Vals[c]; has {
			continue
		}
		v, ok, err := f.Value(c)
		if err != nil {
			t.Fatalf("%s: Field.Value(%d): %v", what, c, err)
		}
		if ok {
			t.Fatalf("%s: Field.Value(%d) = (%d, exists true), want no value", what, c, v)
		}
	}
}

// vc14CheckRange compares Field.Range(op, p) with the model. The Go API answers (nil, nil) for a predicate
// outside the declared bounds, so only predicates inside them are in the domain here (PQL covers the rest).
func vc14CheckRange(t vc14T, f *Field, m *vq1IntModel, what string, op pql.Token, p int64) {
	if p < m.Min || p > m.Max {
		return
	}
	row, err := f.Range(f.Name(), op, p)
	if err != nil {
		t.Fatalf("%s: Field.Range(%s %d): %v", what, op, p, err)
	}
	if got, want := vq1RowCols(row), m.filter(op, p); !vq1EqCols(got, want) {
		t.Fatalf("%s: Field.Range(f %s %d) = %v, want %v  (values %v)", what, op, p, got, want, vc14Dump(m))
	}
}

func vc14Dump(m *vq1IntModel) string {
	s := ""
	for i, c := range m.cols() {
		if i > 40 {
			s += " …"
			break
		}
		s += fmt.Sprintf(" %d:%d", c, m.Vals[c])
	}
	return s
}

// vc14NullCols: columns of the program that hold no value at the end, plus two that were never written.
func vc14NullCols(prog []vq1Write, m *vq1IntModel) []uint64 {
	seen := map[uint64]bool{}
	var out []uint64
	for _, w := range prog {
		for _, c := range w.Cols {
			if _, has := m.Vals[c]; !has && !seen[c] {
				seen[c] = true
				out = append(out, c)
			}
		}
	}
	out = append(out, 5, 2*ShardWidth+5, 3*ShardWidth+1)
	sort.Slice(out, func(i, j int) bool { return out[i] < out[j] })
	return out
}

func TestVerifC14_FieldExhaustive(t *testing.T) {
	defer vkit.Flush()
	all := vq1AllCfgs()
	cfgs, complete := vq1PickCfgs(all, vkit.Scale(30, 1<<30), vkit.Thorough())
	vkit.Extra("fieldExhaustive.configurations_total", len(all))
	for _, cfg := range cfgs {
		vc14RunCfg(t, cfg)
	}
	if complete {
		vkit.Extra("exhaustive", true)
	}
	vkit.Count("fieldExhaustive.configurations_run", len(cfgs))
}

func vc14RunCfg(t *testing.T, cfg vq1Cfg) {
	prog, m := vq1Program(cfg)
	what := cfg.String()
	c := vkit.NewCase().Key("fieldExh", what)
	defer c.Done()
	f := vc14OpenField(cfg.Min, cfg.Max, cfg.Reopen)
	defer f.Close()
	for _, w := range prog {
		vc14Apply(t, f.Field, w, what)
	}
	bsig := f.bsiGroup(f.Name())
	// (lead) since the D9 repair a new int field starts at bit depth 1, so data meant for depth 0 reports 1.
	if !cfg.Reopen && bsig.BitDepth != cfg.Depth && !(cfg.Depth == 0 && bsig.BitDepth == 1) {
		t.Fatalf("%s: the data was meant to drive the bit depth to %d, field reports %d", what, cfg.Depth, bsig.BitDepth)
	}
	nulls := vc14NullCols(prog, m)
	vc14CheckValues(t, f.Field, m, what, nulls)
	preds := vq1Predicates(cfg, m)
	lim := int64(1)<<bsig.BitDepth - 1
	beyondDepth := false
	nq := 0
	for _, p := range preds {
		if p >= m.Min && p <= m.Max && (p-bsig.Base > lim || p-bsig.Base < -lim) {
			beyondDepth = true
		}
		for _, op := range vq1Ops {
			vc14CheckRange(t, f.Field, m, what, op, p)
			nq++
		}
	}
	tie, negOnly := vc14CheckAggs(t, f.Field, m, what, nulls)
	c.Class("mode:" + cfg.Mode).Class("depth:%d", bsig.BitDepth).ClassIf(cfg.Reopen, "reopenedBeforeWrites(base=min)")
	c.ClassIf(beyondDepth, "predicateBeyondBitDepthInsideBounds").ClassIf(tie, "extremeTiedAcrossShards").ClassIf(negOnly, "negativeOnlySelection")
	c.NT(beyondDepth || tie || negOnly || cfg.Mode == "mix")
	c.Sample(map[string]interface{}{"cfg": what, "columns": len(m.Vals), "rangeQueries": nq})
	vkit.Count("fieldExhaustive.range_queries", nq)
}

// ------------------------------------------------------------------ random tier (depths up to 63)

// vc14GenBound draws a value near a power of two / an int64 edge.
func vc14GenMag(t *rapid.T, label string) int64 {
	k := rapid.IntRange(0, 62).Draw(t, label+".k")
	off := rapid.Int64Range(-3, 3).Draw(t, label+".off")
	v := int64(1)<<uint(k) + off
	if rapid.IntRange(0, 7).Draw(t, label+".max") == 0 {
		v = math.MaxInt64 - rapid.Int64Range(0, 3).Draw(t, label+".m")
	}
	if v < 0 {
		v = 0
	}
	return v
}

type vc14RandSpec struct {
	Min, Max int64
	Reopen   bool
}

func vc14GenBounds(t *rapid.T) vc14RandSpec {
	kind := rapid.SampledFrom([]string{"sym", "pos", "neg", "wide", "small"}).Draw(t, "boundsKind")
	var lo, hi int64
	switch kind {
	case "sym":
		a := vc14GenMag(t, "b")
		lo, hi = -a, a
	case "pos":
		a, b := vc14GenMag(t, "a"), vc14GenMag(t, "b")
		if a > b {
			a, b = b, a
		}
		lo, hi = a, b
	case "neg":
		a, b := vc14GenMag(t, "a"), vc14GenMag(t, "b")
		if a > b {
			a, b = b, a
		}
		lo, hi = -b, -a
	case "wide":
		lo, hi = -vc14GenMag(t, "a"), vc14GenMag(t, "b")
	case "small":
		lo = rapid.Int64Range(-40, 40).Draw(t, "lo")
		hi = lo + rapid.Int64Range(0, 80).Draw(t, "w")
	}
	// the v1-upgrade path computes max-min: only reopen where that does not overflow
	reopen := false
	if d := new(big.Int).Sub(big.NewInt(hi), big.NewInt(lo)); d.IsInt64() && d.Int64() < 1<<62 {
		reopen = rapid.IntRange(0, 3).Draw(t, "reopen") == 0
	}
	return vc14RandSpec{Min: lo, Max: hi, Reopen: reopen}
}

// vc14GenValue draws an in-range value: bounds, near powers of two (both signs), near already used values.
func vc14GenValue(t *rapid.T, label string, sp vc14RandSpec, used []int64) int64 {
	clamp := func(v int64) int64 {
		if v < sp.Min {
			return sp.Min
		}
		if v > sp.Max {
			return sp.Max
		}
		return v
	}
	switch rapid.IntRange(0, 5).Draw(t, label+".kind") {
	case 0:
		return clamp(sp.Min + rapid.Int64Range(0, 2).Draw(t, label+".o"))
	case 1:
		return clamp(sp.Max - rapid.Int64Range(0, 2).Draw(t, label+".o"))
	case 2:
		v := vc14GenMag(t, label)
		if rapid.Bool().Draw(t, label+".neg") {
			v = -v
		}
		return clamp(v)
	case 3:
		if len(used) > 0 {
			return used[rapid.IntRange(0, len(used)-1).Draw(t, label+".u")]
		}
		return clamp(0)
	case 4:
		return clamp(rapid.Int64Range(-8, 8).Draw(t, label+".s"))
	default:
		return rapid.Int64Range(sp.Min, sp.Max).Draw(t, label+".any")
	}
}

func vc14GenCol(t *rapid.T, label string, nshards int) uint64 {
	sh := uint64(rapid.IntRange(0, nshards-1).Draw(t, label+".sh"))
	if sh == 3 {
		sh = 5 // shards need not be contiguous
	}
	off := rapid.SampledFrom([]uint64{0, 1, 2, 3, 65535, 65536, ShardWidth - 1}).Draw(t, label+".off")
	return sh*ShardWidth + off
}

func TestVerifC14_FieldRandom(t *testing.T) {
	defer vkit.Flush()
	rapid.Check(t, func(t *rapid.T) {
		sp := vc14GenBounds(t)
		if sp.Min == -math.MaxInt64 && vkit.Open("DQA8") {
			vkit.Excluded("DQA8") // the lower bound stops one short of -2^63 (stored as -0 while DQA8 is open)
		}
		nshards := rapid.IntRange(2, 4).Draw(t, "nshards")
		nops := rapid.IntRange(1, 14).Draw(t, "nops")
		m := vq1NewIntModel(sp.Min, sp.Max)
		f := vc14OpenField(sp.Min, sp.Max, sp.Reopen)
		defer f.Close()
		what := fmt.Sprintf("bounds(%d,%d) reopen=%v", sp.Min, sp.Max, sp.Reopen)
		var used []int64
		var touched []uint64
		var log []string
		shrunk, cleared := false, false
		midReads := 0
		for i := 0; i < nops; i++ {
			kind := rapid.SampledFrom([]string{"set", "set", "import", "import", "clear"}).Draw(t, fmt.Sprintf("op%d", i))
			switch kind {
			case "set":
				col := vc14GenCol(t, fmt.Sprintf("c%d", i), nshards)
				v := vc14GenValue(t, fmt.Sprintf("v%d", i), sp, used)
				if old, ok := m.Vals[col]; ok && vq1Depth(v) < vq1Depth(old) {
					shrunk = true
				}
				vc14Apply(t, f.Field, vq1Write{Kind: "set", Cols: []uint64{col}, Vals: []int64{v}}, what)
				m.Vals[col] = v
				used = append(used, v)
				touched = append(touched, col)
				log = append(log, fmt.Sprintf("Set(%d,%d)", col, v))
			case "import":
				n := rapid.IntRange(1, 5).Draw(t, fmt.Sprintf("n%d", i))
				w := vq1Write{Kind: "import"}
				for k := 0; k < n; k++ {
					col := vc14GenCol(t, fmt.Sprintf("c%d.%d", i, k), nshards)
					v := vc14GenValue(t, fmt.Sprintf("v%d.%d", i, k), sp, used)
					w.Cols = append(w.Cols, col)
					w.Vals = append(w.Vals, v)
				}
				vc14Apply(t, f.Field, w, what)
				for k := range w.Cols { // the last entry of a column wins
					if old, ok := m.Vals[w.Cols[k]]; ok && vq1Depth(w.Vals[k]) < vq1Depth(old) {
						shrunk = true
					}
					m.Vals[w.Cols[k]] = w.Vals[k]
					used = append(used, w.Vals[k])
					touched = append(touched, w.Cols[k])
				}
				log = append(log, fmt.Sprintf("Import(%v,%v)", w.Cols, w.Vals))
			case "clear":
				cols := m.cols()
				if len(cols) == 0 {
					continue
				}
				col := cols[rapid.IntRange(0, len(cols)-1).Draw(t, fmt.Sprintf("cc%d", i))]
				vc14Apply(t, f.Field, vq1Write{Kind: "clear", Cols: []uint64{col}, Vals: []int64{m.Vals[col]}}, what)
				delete(m.Vals, col)
				cleared = true
				log = append(log, fmt.Sprintf("ImportClear(%d)", col))
			}
			// reads between the writes (the next write then meets a warm row cache)
			if len(used) > 0 && rapid.Bool().Draw(t, fmt.Sprintf("read%d", i)) {
				w := what + " after " + fmt.Sprint(log)
				for _, p := range []int64{used[len(used)-1], 0} {
					for _, op := range vq1Ops {
						vc14CheckRange(t, f.Field, m, w, op, p)
					}
				}
				vc14CheckAggs(t, f.Field, m, w, nil)
				midReads++
			}
		}
		what = what + " after " + fmt.Sprint(log)
		c := vkit.NewCase().Key("fieldRand", what)
		defer c.Done()
		nulls := append([]uint64{7, ShardWidth + 7}, touched...)
		vc14CheckValues(t, f.Field, m, what, nulls)
		bsig := f.bsiGroup(f.Name())
		// predicates: neighbours of the stored values, of the bounds, of the bit-depth edges, powers of two
		np := rapid.IntRange(2, 10).Draw(t, "npred")
		beyond := false
		for i := 0; i < np; i++ {
			var p int64
			switch rapid.IntRange(0, 4).Draw(t, fmt.Sprintf("p%d.kind", i)) {
			case 0:
				if len(used) > 0 {
					p = used[rapid.IntRange(0, len(used)-1).Draw(t, fmt.Sprintf("p%d.u", i))]
				}
			case 1:
				p = sp.Min
			case 2:
				p = sp.Max
			case 3:
				p = vc14GenMag(t, fmt.Sprintf("p%d", i))
				if rapid.Bool().Draw(t, fmt.Sprintf("p%d.neg", i)) {
					p = -p
				}
			default:
				p = rapid.Int64Range(-5, 5).Draw(t, fmt.Sprintf("p%d.s", i))
			}
			off := rapid.Int64Range(-2, 2).Draw(t, fmt.Sprintf("p%d.off", i))
			if (off > 0 && p <= math.MaxInt64-off) || (off < 0 && p >= math.MinInt64-off) {
				p += off
			}
			if p >= sp.Min && p <= sp.Max && bsig.BitDepth < 63 {
				lim := int64(1)<<bsig.BitDepth - 1
				if d := new(big.Int).Sub(big.NewInt(p), big.NewInt(bsig.Base)); !d.IsInt64() || d.Int64() > lim || d.Int64() < -lim {
					beyond = true
				}
			}
			for _, op := range vq1Ops {
				vc14CheckRange(t, f.Field, m, what, op, p)
			}
		}
		tie, negOnly := vc14CheckAggs(t, f.Field, m, what, nulls)
		c.Class("depth:%02d-%02d", bsig.BitDepth/8*8, bsig.BitDepth/8*8+7).ClassIf(sp.Reopen, "reopenedBeforeWrites(base=min)")
		c.ClassIf(beyond, "predicateBeyondBitDepthInsideBounds").ClassIf(tie, "extremeTiedAcrossShards").ClassIf(negOnly, "negativeOnlySelection")
		c.ClassIf(shrunk, "overwriteShrinksValue").ClassIf(cleared, "cleared").ClassIf(midReads > 0, "readsBetweenWrites")
		c.NT(beyond || tie || negOnly || shrunk)
		c.Sample(map[string]interface{}{"bounds": []int64{sp.Min, sp.Max}, "ops": log, "depth": bsig.BitDepth})
	})
}
