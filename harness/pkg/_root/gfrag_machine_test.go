package pilosa

// gfrag — shared fragment state machine + reference model used by
// C07 (reads reflect writes), C10 (block checksums), C12 (TopN counts) and
// C13 (mutex/bool single value). One fragment of a given field type is opened
// the way view.newFragment opens it (file backed, B-tree storage, mmap) and a
// generated history of writes through every write path is applied to it and to
// a naive map model. The properties specialise what is read back.

import (
	"bytes"
	"context"
	"encoding/binary"
	"fmt"
	"os"
	"path/filepath"
	"sort"
	"strings"

	"github.com/pilosa/pilosa/internal/vkit"
	"github.com/pilosa/pilosa/pql"
	"github.com/pilosa/pilosa/roaring"
	"github.com/pilosa/pilosa/syswrap"
	"pgregory.net/rapid"
)

// vgfTempDir makes the per-case directory (inside the run directory of the driver when there is one).
func vgfTempDir(t *rapid.T) string {
	base := os.Getenv("VERIF_RUNDIR")
	if base == "" {
		base = os.TempDir()
	}
	dir, err := os.MkdirTemp(base, "vgf-")
	if err != nil {
		t.Fatalf("tempdir: %v", err)
	}
	return dir
}

// ---------------------------------------------------------------------------
// universe

// Column offsets inside the shard: 11 of them fall into container 0 of a row, so a row can hold more values per
// container than the 5 that roaring keeps inline in the Container struct (only larger ones are backed by the mmap).
var vgfColOffs = []uint64{0, 1, 2, 3, 4, 5, 6, 7, 8, 9, 65535, 65536, 65537, ShardWidth - 1}

const vgfWideN = 10 // the first vgfWideN offsets are what the "wide" operations write
var vgfRowsSet = []uint64{0, 1, 2, 3, 99, 100, 101, 199, 200}
var vgfRowsMutex = []uint64{0, 1, 2, 3, 100}
var vgfRowsBool = []uint64{0, 1}

const (
	vgfSet   = "set"
	vgfMutex = "mutex"
	vgfBool  = "bool"
	vgfBSI   = "bsi"
)

type vgfCfg struct {
	Kind      string
	Cache     string
	CacheSize uint32
	MaxOpN    int
	Bg        bool // snapshots go to a queue owned by the harness (else: synchronous, as without a holder)
	Shard     uint64
	FileLimit bool // the process is over its open-file limit (syswrap max file count): the data file is closed between operations
}

func (c vgfCfg) String() string {
	s := fmt.Sprintf("{kind=%s cache=%s/%d maxOpN=%d bgQueue=%v shard=%d", c.Kind, c.Cache, c.CacheSize, c.MaxOpN, c.Bg, c.Shard)
	if c.FileLimit {
		s += " fileLimitExceeded"
	}
	return s + "}"
}

const vgfDefaultMaxFileCount = 500000 // syswrap's default (there is no getter)

func vgfGenCfg(t *rapid.T, label string, kinds []string, caches []string, sizes []uint32) vgfCfg {
	c := vgfCfg{}
	c.Kind = rapid.SampledFrom(kinds).Draw(t, label+".kind")
	if c.Kind == vgfBSI {
		c.Cache = CacheTypeNone // view.open: never keep a cache for bsi views
	} else {
		c.Cache = rapid.SampledFrom(caches).Draw(t, label+".cache")
	}
	c.CacheSize = rapid.SampledFrom(sizes).Draw(t, label+".cacheSize")
	c.MaxOpN = rapid.SampledFrom([]int{2, 5, 12, 40, defaultFragmentMaxOpN}).Draw(t, label+".maxOpN")
	c.Bg = rapid.Bool().Draw(t, label+".bg")
	c.Shard = rapid.SampledFrom([]uint64{0, 0, 1, 5}).Draw(t, label+".shard")
	c.FileLimit = rapid.IntRange(0, 3).Draw(t, label+".fileLimit") == 0
	return c
}

// ---------------------------------------------------------------------------
// operations (generated independently of the fragment state, so one op can be applied to two fragments)

type vgfOp struct {
	Name     string
	Row      uint64
	Col      uint64
	Rows     []uint64
	Cols     []uint64
	Vals     []int64
	Val      int64
	Clear    bool
	Src      string // setRow source: new | self | none | union
	SrcRow   uint64
	Official bool
	Optimize bool
	Stored   bool // clear-import: pass the value the column currently holds (as a client that clears a value does)
}

func (o vgfOp) String() string {
	switch o.Name {
	case "setBit", "clearBit":
		return fmt.Sprintf("%s(row=%d,col=%d)", o.Name, o.Row, o.Col)
	case "setRow":
		return fmt.Sprintf("setRow(row=%d,src=%s,srcRow=%d,cols=%v)", o.Row, o.Src, o.SrcRow, o.Cols)
	case "clearRow":
		return fmt.Sprintf("clearRow(row=%d)", o.Row)
	case "import":
		return fmt.Sprintf("bulkImport(rows=%v,cols=%v,clear=%v)", o.Rows, o.Cols, o.Clear)
	case "roaring":
		return fmt.Sprintf("importRoaring(rows=%v,cols=%v,clear=%v,official=%v,optimize=%v)", o.Rows, o.Cols, o.Clear, o.Official, o.Optimize)
	case "importValue":
		return fmt.Sprintf("importValue(cols=%v,vals=%v,clear=%v)", o.Cols, o.Vals, o.Clear)
	case "setValue":
		return fmt.Sprintf("setValue(col=%d,val=%d)", o.Col, o.Val)
	case "retryRestart":
		return "retryRestart: re-import of the stored data, small writes, " + o.Src + " {"
	}
	return o.Name
}

type vgfWeight struct {
	Name string
	W    int
}

func vgfPick(t *rapid.T, label string, ws []vgfWeight) string {
	var names []string
	for _, w := range ws {
		for i := 0; i < w.W; i++ {
			names = append(names, w.Name)
		}
	}
	return rapid.SampledFrom(names).Draw(t, label)
}

// default operation mix per field kind
func vgfDefaultWeights(kind string) []vgfWeight {
	admin := []vgfWeight{{"snapshot", 2}, {"bgrun", 3}, {"reopen", 2}, {"reopenNew", 1}, {"flush", 1}, {"recalc", 1}, {"retryRestart", 2}}
	switch kind {
	case vgfSet:
		return append([]vgfWeight{{"setBit", 6}, {"clearBit", 4}, {"setRow", 3}, {"clearRow", 2}, {"import", 4}, {"importClear", 3}, {"roaring", 4}, {"roaringClear", 3}, {"importWide", 2}, {"roaringWide", 1}}, admin...)
	case vgfMutex, vgfBool:
		return append([]vgfWeight{{"setBit", 6}, {"clearBit", 3}, {"clearRow", 2}, {"import", 6}, {"importClear", 3}, {"importWide", 2}}, admin...)
	default: // bsi
		return append([]vgfWeight{{"setValue", 6}, {"importValue", 6}, {"importValueClear", 4}, {"importValueWide", 2}, {"importValueWideClear", 1}}, admin...)
	}
}

func vgfRowsOf(kind string) []uint64 {
	switch kind {
	case vgfSet:
		return vgfRowsSet
	case vgfMutex:
		return vgfRowsMutex
	case vgfBool:
		return vgfRowsBool
	}
	return nil
}

func vgfGenVal(t *rapid.T, label string) int64 {
	return rapid.OneOf(
		rapid.Int64Range(-5, 5),
		rapid.Int64Range(-40, 40),
		rapid.SampledFrom([]int64{0, 1, -1, 1000, -1000, 1023, 1024, 7, 8}),
	).Draw(t, label)
}

func vgfGenOp(t *rapid.T, label string, cfg vgfCfg, ws []vgfWeight) vgfOp {
	rows := vgfRowsOf(cfg.Kind)
	col := func(l string) uint64 {
		return cfg.Shard*ShardWidth + rapid.SampledFrom(vgfColOffs).Draw(t, label+l)
	}
	row := func(l string) uint64 { return rapid.SampledFrom(rows).Draw(t, label+l) }
	op := vgfOp{Name: vgfPick(t, label+".op", ws)}
	switch op.Name {
	case "setBit", "clearBit":
		op.Row, op.Col = row(".row"), col(".col")
	case "clearRow":
		op.Row = row(".row")
	case "setRow":
		op.Row = row(".row")
		op.Src = rapid.SampledFrom([]string{"new", "new", "self", "union", "none"}).Draw(t, label+".src")
		op.SrcRow = row(".srcRow")
		n := rapid.IntRange(0, 5).Draw(t, label+".ncols")
		for i := 0; i < n; i++ {
			op.Cols = append(op.Cols, col(fmt.Sprintf(".c%d", i)))
		}
	case "import", "importClear", "roaring", "roaringClear":
		op.Clear = strings.HasSuffix(op.Name, "Clear")
		op.Name = strings.TrimSuffix(op.Name, "Clear")
		// mostly small batches; some with 13-60 entries (sorting code switches algorithm above 12 elements), always
		// over few distinct columns so that batches repeat a column, non-adjacently, with conflicting rows
		n := rapid.OneOf(rapid.IntRange(1, 6), rapid.IntRange(1, 6), rapid.IntRange(1, 6), rapid.IntRange(13, 60)).Draw(t, label+".n")
		ncols := rapid.IntRange(1, 3).Draw(t, label+".ncolpool")
		if n > 12 {
			ncols = rapid.IntRange(2, 5).Draw(t, label+".ncolpoolBig")
		}
		var pool []uint64
		for i := 0; i < ncols; i++ {
			pool = append(pool, col(fmt.Sprintf(".pc%d", i)))
		}
		for i := 0; i < n; i++ {
			op.Rows = append(op.Rows, row(fmt.Sprintf(".r%d", i)))
			op.Cols = append(op.Cols, rapid.SampledFrom(pool).Draw(t, fmt.Sprintf("%s.c%d", label, i)))
		}
		if op.Name == "roaring" {
			op.Official = rapid.Bool().Draw(t, label+".official")
			op.Optimize = rapid.Bool().Draw(t, label+".optimize")
		}
	case "importWide", "roaringWide":
		// one row gets the first vgfWideN columns: its container outgrows the inline representation
		op.Name = strings.TrimSuffix(op.Name, "Wide")
		r := row(".row")
		for i := 0; i < vgfWideN; i++ {
			op.Rows = append(op.Rows, r)
			op.Cols = append(op.Cols, cfg.Shard*ShardWidth+vgfColOffs[i])
		}
	case "importValueWide", "importValueWideClear":
		op.Clear = strings.HasSuffix(op.Name, "Clear")
		op.Stored = op.Clear
		op.Name = "importValue"
		v := vgfGenVal(t, label+".val")
		for i := 0; i < vgfWideN; i++ {
			op.Cols = append(op.Cols, cfg.Shard*ShardWidth+vgfColOffs[i])
			op.Vals = append(op.Vals, v)
		}
	case "importValue", "importValueClear":
		op.Clear = strings.HasSuffix(op.Name, "Clear")
		op.Name = "importValue"
		n := rapid.IntRange(1, 5).Draw(t, label+".n")
		for i := 0; i < n; i++ {
			op.Cols = append(op.Cols, col(fmt.Sprintf(".c%d", i)))
			op.Vals = append(op.Vals, vgfGenVal(t, fmt.Sprintf("%s.v%d", label, i)))
		}
		if op.Clear {
			op.Stored = rapid.IntRange(0, 3).Draw(t, label+".stored") > 0
		}
	case "setValue":
		op.Col = col(".col")
		op.Val = vgfGenVal(t, label+".val")
	case "retryRestart":
		// a client retry (re-import of exactly what is stored) followed by a few small writes and a clean restart
		op.Src = rapid.SampledFrom([]string{"reopen", "reopenNew"}).Draw(t, label+".how")
		n := rapid.IntRange(1, 3).Draw(t, label+".nsmall")
		for i := 0; i < n; i++ {
			op.Cols = append(op.Cols, col(fmt.Sprintf(".c%d", i)))
			if cfg.Kind == vgfBSI {
				op.Vals = append(op.Vals, rapid.Int64Range(-3, 3).Draw(t, fmt.Sprintf("%s.d%d", label, i)))
			} else {
				op.Rows = append(op.Rows, row(fmt.Sprintf(".r%d", i)))
			}
		}
		op.Clear = rapid.Bool().Draw(t, label+".smallClears")
		if cfg.Kind == vgfBSI {
			op.Val = rapid.SampledFrom([]int64{-9, 12, 100, -1000}).Draw(t, label+".fill")
		}
	}
	return op
}

// ---------------------------------------------------------------------------
// machine = real fragment + model

type vgfM struct {
	t    *rapid.T
	cfg  vgfCfg
	name string
	path string
	f    *fragment
	q    chan *fragment
	rows []uint64

	// model
	bits  map[uint64]map[uint64]struct{} // row -> absolute columns (set/mutex/bool)
	vals  map[uint64]int64               // bsi: column -> value
	depth uint                           // bsi: bit depth of the field (monotone, as Field keeps it)

	hist []string

	// bookkeeping for the non-trivial rules
	lastPath    map[uint64]string // row -> write path of the last write
	readSince   map[uint64]bool   // row read since its last write
	pendingX    map[uint64]bool   // row written through a different path than before, after a read
	crossPath   bool              // C07 rule satisfied
	everRows    map[uint64]struct{}
	touched     map[uint64]struct{} // rows named by any write (also clears that changed nothing)
	blkComputed map[int]bool        // C10: checksum of block computed (cached)
	blkDirty    map[int]bool        // C10: block written by a path other than setBit/clearBit since
	staleBlock  bool                // C10 rule satisfied
	nSnap       int
	lastOp      string         // name of the operation applied last
	events      map[string]int // free-form class counters of this case

	// C12: a cache epoch starts at a recalculation that found the cache holding at most CacheSize rows (so every
	// later count >= 1 is admitted) and lasts while the rows it could hold still fit.
	epochOn bool
	epochG  map[uint64]struct{} // rows guaranteed to be cached: cached at the epoch start or changed since
	epochB  map[uint64]struct{} // rows that may have an entry: cached at the epoch start or named by a write since
	wide    bool                // some container held more values than fit inline
	nReopen int
	paths   map[string]int
}

func vgfNew(t *rapid.T, cfg vgfCfg, dir, name string) *vgfM {
	m := &vgfM{t: t, cfg: cfg, name: name, path: filepath.Join(dir, name), rows: vgfRowsOf(cfg.Kind),
		bits: map[uint64]map[uint64]struct{}{}, vals: map[uint64]int64{},
		lastPath: map[uint64]string{}, readSince: map[uint64]bool{}, pendingX: map[uint64]bool{},
		events: map[string]int{}, everRows: map[uint64]struct{}{}, touched: map[uint64]struct{}{}, blkComputed: map[int]bool{}, blkDirty: map[int]bool{}, paths: map[string]int{}}
	if cfg.Bg {
		m.q = make(chan *fragment, 1)
	}
	// process-global; rapid runs the cases one after the other, and every case sets it
	if cfg.FileLimit {
		syswrap.SetMaxFileCount(0)
	} else {
		syswrap.SetMaxFileCount(vgfDefaultMaxFileCount)
	}
	if m.cfg.FileLimit && vkit.Open("DF7") {
		// open finding DF7: over the file limit a snapshot triggered in the middle of a write closes the data file and the
		// rest of that write is not logged; keep MaxOpN-triggered snapshots out of file-limit cases (snapshots at the end of
		// setRow/clearRow/large importValue and explicit ones remain)
		vkit.Excluded("DF7")
		m.cfg.MaxOpN = defaultFragmentMaxOpN
	}
	m.f = m.newFrag()
	if err := m.f.Open(); err != nil {
		t.Fatalf("open fragment: %v", err)
	}
	return m
}

func (m *vgfM) newFrag() *fragment {
	flags := byte(0)
	if m.cfg.Kind == vgfBSI {
		flags = 1
	}
	f := newFragment(m.path, "i", "f", viewStandard, m.cfg.Shard, flags)
	f.CacheType = m.cfg.Cache
	f.CacheSize = m.cfg.CacheSize
	f.MaxOpN = m.cfg.MaxOpN
	f.RowAttrStore = &memAttrStore{store: make(map[uint64]map[string]interface{})}
	if m.cfg.Bg {
		f.snapshotQueue = m.q
	}
	switch m.cfg.Kind {
	case vgfMutex:
		f.mutexVector = newRowsVector(f)
	case vgfBool:
		f.mutexVector = newBoolVector(f)
	}
	return f
}

func (m *vgfM) fail(format string, args ...interface{}) {
	m.t.Helper()
	m.t.Fatalf("[%s %s] %s\nhistory:\n  %s", m.name, m.cfg, fmt.Sprintf(format, args...), strings.Join(m.hist, "\n  "))
}

// drain runs the queued background snapshot, if one is pending, exactly as snapshotQueueWorker does.
func (m *vgfM) drain() bool {
	if m.q == nil {
		return false
	}
	select {
	case fr := <-m.q:
		err := fr.protectedSnapshot(true)
		fr.snapshotCond.Broadcast()
		if err != nil {
			m.fail("background snapshot: %v", err)
		}
		m.nSnap++
		return true
	default:
		return false
	}
}

// withWorker runs fn, a write that may wait for the snapshot it enqueues (the large importValue path; setRow and
// clearRow since they are acknowledged only when durable). A pending snapshot runs first (the real worker would get
// to it at the latest now); while fn runs the harness plays the queue worker for the one snapshot fn enqueues; if fn
// did not wait for it, it runs right after fn. Either way the queue is empty afterwards and the outcome is the same.
func (m *vgfM) withWorker(fn func()) {
	if m.q == nil {
		fn()
		return
	}
	m.drain()
	stop, exited := make(chan struct{}), make(chan struct{})
	go func() {
		defer close(exited)
		select {
		case fr := <-m.q:
			_ = fr.protectedSnapshot(true)
			fr.snapshotCond.Broadcast()
		case <-stop:
		}
	}()
	fn()
	close(stop)
	<-exited
	m.drain()
	m.nSnap++
}

func (m *vgfM) close() {
	m.drain()
	syswrap.SetMaxFileCount(vgfDefaultMaxFileCount)
	if err := m.f.Close(); err != nil {
		m.fail("Close: %v", err)
	}
}

// --- model helpers

func (m *vgfM) has(r, c uint64) bool {
	_, ok := m.bits[r][c]
	return ok
}

func (m *vgfM) mset(r, c uint64) bool {
	if m.has(r, c) {
		return false
	}
	if m.bits[r] == nil {
		m.bits[r] = map[uint64]struct{}{}
	}
	m.bits[r][c] = struct{}{}
	m.everRows[r] = struct{}{}
	return true
}

func (m *vgfM) mclear(r, c uint64) bool {
	if !m.has(r, c) {
		return false
	}
	delete(m.bits[r], c)
	return true
}

// msetMutex applies single-value semantics; returns rows touched.
func (m *vgfM) msetMutex(r, c uint64) (changed bool, touched []uint64) {
	if m.has(r, c) {
		return false, nil
	}
	for _, r0 := range m.modelRows() {
		if m.has(r0, c) {
			m.mclear(r0, c)
			touched = append(touched, r0)
		}
	}
	m.mset(r, c)
	return true, append(touched, r)
}

func (m *vgfM) isMutex() bool { return m.cfg.Kind == vgfMutex || m.cfg.Kind == vgfBool }

func (m *vgfM) modelRows() []uint64 { // all rows with an entry, sorted
	var a []uint64
	for r := range m.bits {
		a = append(a, r)
	}
	sort.Slice(a, func(i, j int) bool { return a[i] < a[j] })
	return a
}

func (m *vgfM) rowCols(r uint64) []uint64 {
	a := make([]uint64, 0, len(m.bits[r]))
	for c := range m.bits[r] {
		a = append(a, c)
	}
	sort.Slice(a, func(i, j int) bool { return a[i] < a[j] })
	return a
}

func (m *vgfM) nonEmptyRows() []uint64 {
	var a []uint64
	for _, r := range m.modelRows() {
		if len(m.bits[r]) > 0 {
			a = append(a, r)
		}
	}
	return a
}

func (m *vgfM) valCols() []uint64 {
	var a []uint64
	for c := range m.vals {
		a = append(a, c)
	}
	sort.Slice(a, func(i, j int) bool { return a[i] < a[j] })
	return a
}

func (m *vgfM) allCols() []uint64 {
	var a []uint64
	for _, o := range vgfColOffs {
		a = append(a, m.cfg.Shard*ShardWidth+o)
	}
	return a
}

// storedPositions reads the bits currently stored, bypassing every cache.
func (m *vgfM) storedPositions() []uint64 {
	m.f.mu.Lock()
	defer m.f.mu.Unlock()
	return m.f.storage.Slice()
}

func vgfEqU(a, b []uint64) bool {
	if len(a) != len(b) {
		return false
	}
	for i := range a {
		if a[i] != b[i] {
			return false
		}
	}
	return true
}

// --- bookkeeping

func (m *vgfM) wrote(path string, rows ...uint64) {
	m.paths[path]++
	for _, r := range rows {
		m.touched[r] = struct{}{}
		if m.epochOn {
			m.epochB[r] = struct{}{}
			if uint32(len(m.epochB)) > m.cfg.CacheSize {
				m.epochOn = false
			}
		}
		if m.readSince[r] && m.lastPath[r] != "" && m.lastPath[r] != path {
			m.pendingX[r] = true
		}
		m.lastPath[r] = path
		m.readSince[r] = false
		if path != "setBit" && path != "clearBit" {
			if m.blkComputed[int(r/HashBlockSize)] {
				m.blkDirty[int(r/HashBlockSize)] = true
			}
		}
	}
}

func (m *vgfM) readRow(r uint64) {
	if m.pendingX[r] {
		m.crossPath = true
		delete(m.pendingX, r)
	}
	m.readSince[r] = true
}

func (m *vgfM) bsiRows() []uint64 {
	a := []uint64{0, 1}
	for i := uint(0); i < m.depth; i++ {
		a = append(a, uint64(bsiOffsetBit+i))
	}
	return a
}

// ---------------------------------------------------------------------------
// roaring encodings of an import

func vgfPilosaRoaring(positions []uint64, optimize bool) []byte {
	bm := roaring.NewBitmap(positions...)
	if optimize {
		bm.Optimize()
	}
	var buf bytes.Buffer
	if _, err := bm.WriteTo(&buf); err != nil {
		panic(err)
	}
	return buf.Bytes()
}

// vgfOfficialRoaring writes the official RoaringFormatSpec encoding without run containers (array containers only).
func vgfOfficialRoaring(positions []uint64) []byte {
	ps := append([]uint64(nil), positions...)
	sort.Slice(ps, func(i, j int) bool { return ps[i] < ps[j] })
	var keys []uint16
	var conts [][]uint16
	for i, p := range ps {
		if i > 0 && ps[i-1] == p {
			continue
		}
		k := uint16(p >> 16)
		if len(keys) == 0 || keys[len(keys)-1] != k {
			keys = append(keys, k)
			conts = append(conts, nil)
		}
		conts[len(conts)-1] = append(conts[len(conts)-1], uint16(p&0xFFFF))
	}
	var b []byte
	u32 := func(v uint32) { b = binary.LittleEndian.AppendUint32(b, v) }
	u16 := func(v uint16) { b = binary.LittleEndian.AppendUint16(b, v) }
	u32(12346)
	u32(uint32(len(keys)))
	for i, k := range keys {
		u16(k)
		u16(uint16(len(conts[i]) - 1))
	}
	off := uint32(8 + 8*len(keys))
	for i := range keys {
		u32(off)
		off += uint32(2 * len(conts[i]))
	}
	for i := range keys {
		for _, v := range conts[i] {
			u16(v)
		}
	}
	return b
}

// ---------------------------------------------------------------------------
// applying one operation to the fragment and to the model

func (m *vgfM) rowDigest() map[uint64]string {
	d := map[uint64]string{}
	for _, r := range m.modelRows() {
		d[r] = fmt.Sprint(m.rowCols(r))
	}
	return d
}

// startEpoch recalculates the count cache and opens a cache epoch if all cached rows fit (see epochOn).
func (m *vgfM) startEpoch() bool {
	m.epochOn = false
	if m.cfg.Cache == CacheTypeNone {
		return false
	}
	m.f.RecalculateCache()
	n := m.f.cache.Len()
	m.hist = append(m.hist, fmt.Sprintf("RecalculateCache (cache holds %d rows)", n))
	if uint32(n) > m.cfg.CacheSize {
		return false
	}
	m.epochOn, m.epochG, m.epochB = true, map[uint64]struct{}{}, map[uint64]struct{}{}
	for _, id := range m.f.cache.IDs() {
		m.epochG[id] = struct{}{}
		m.epochB[id] = struct{}{}
	}
	return true
}

// apply runs one operation on the fragment and on the model.
func (m *vgfM) apply(op vgfOp) {
	var before map[uint64]string
	if m.epochOn {
		before = m.rowDigest()
	}
	m.apply1(op)
	if m.epochOn && before != nil {
		after := m.rowDigest()
		for r, d := range after {
			if before[r] != d {
				m.epochG[r] = struct{}{} // every path that changes a row also updates its count in the cache
			}
		}
		for r := range before {
			if _, ok := after[r]; !ok {
				m.epochG[r] = struct{}{}
			}
		}
	}
}

func (m *vgfM) apply1(op vgfOp) {
	if m.cfg.FileLimit && op.Name == "roaring" && vkit.Open("DF6") {
		// open finding DF6: importRoaring does not reopen the data file, the import is not logged
		vkit.Excluded("DF6")
		m.hist = append(m.hist, "(skipped: "+op.String()+")")
		return
	}
	if op.Name == "importValue" && op.Clear && op.Stored {
		op.Vals = append([]int64(nil), op.Vals...)
		for i, c := range op.Cols {
			if v, ok := m.vals[c]; ok {
				op.Vals[i] = v
			}
		}
	}
	m.hist = append(m.hist, op.String())
	m.lastOp = op.Name
	if len(op.Cols) >= vgfWideN {
		m.wide = true
	}
	f := m.f
	switch op.Name {
	case "setBit":
		var want bool
		var touched []uint64
		if m.isMutex() {
			want, touched = m.msetMutex(op.Row, op.Col)
		} else {
			want, touched = m.mset(op.Row, op.Col), []uint64{op.Row}
		}
		got, err := f.setBit(op.Row, op.Col)
		if err != nil {
			m.fail("setBit(%d,%d): %v", op.Row, op.Col, err)
		}
		if got != want {
			m.fail("setBit(%d,%d) reported changed=%v, want %v", op.Row, op.Col, got, want)
		}
		m.wrote("setBit", touched...)
	case "clearBit":
		want := m.mclear(op.Row, op.Col)
		got, err := f.clearBit(op.Row, op.Col)
		if err != nil {
			m.fail("clearBit(%d,%d): %v", op.Row, op.Col, err)
		}
		if got != want {
			m.fail("clearBit(%d,%d) reported changed=%v, want %v", op.Row, op.Col, got, want)
		}
		m.wrote("clearBit", op.Row)
	case "setRow":
		// model of the source row restricted to this shard
		var srcCols []uint64
		var src *Row
		switch op.Src {
		case "new":
			src = NewRow(op.Cols...)
			// a column of another shard: its segment must be ignored
			src.SetBit((m.cfg.Shard+1)*ShardWidth + 7)
			srcCols = op.Cols
		case "self":
			src = f.row(op.SrcRow)
			m.readRow(op.SrcRow)
			srcCols = m.rowCols(op.SrcRow)
		case "union":
			src = f.row(op.SrcRow).Union(NewRow(op.Cols...))
			m.readRow(op.SrcRow)
			srcCols = append(m.rowCols(op.SrcRow), op.Cols...)
		case "none":
			// a source row without a segment for this shard (e.g. Row() of a field that has no fragment here)
			src = NewRow((m.cfg.Shard+1)*ShardWidth + 7)
		}
		var got bool
		var err error
		m.withWorker(func() { got, err = f.setRow(src, op.Row) })
		if err != nil {
			m.fail("setRow: %v", err)
		}
		if !got {
			m.fail("setRow reported changed=false (documented: always true)")
		}
		m.bits[op.Row] = map[uint64]struct{}{}
		for _, c := range srcCols {
			m.mset(op.Row, c)
		}
		m.wrote("setRow", op.Row)
	case "clearRow":
		want := len(m.bits[op.Row]) > 0
		var got bool
		var err error
		m.withWorker(func() { got, err = f.clearRow(op.Row) })
		if err != nil {
			m.fail("clearRow: %v", err)
		}
		if got != want {
			m.fail("clearRow(%d) reported changed=%v, want %v", op.Row, got, want)
		}
		m.bits[op.Row] = map[uint64]struct{}{}
		m.wrote("clearRow", op.Row)
	case "import":
		rows := append([]uint64(nil), op.Rows...)
		cols := append([]uint64(nil), op.Cols...)
		path := "bulkImport"
		var touched []uint64
		for i := range rows {
			switch {
			case op.Clear:
				m.mclear(rows[i], cols[i])
				touched = append(touched, rows[i])
				path = "bulkImportClear"
			case m.isMutex():
				_, tt := m.msetMutex(rows[i], cols[i])
				touched = append(touched, tt...)
				path = "bulkImportMutex"
			default:
				m.mset(rows[i], cols[i])
				touched = append(touched, rows[i])
			}
		}
		if err := f.bulkImport(rows, cols, &ImportOptions{Clear: op.Clear}); err != nil {
			m.fail("bulkImport: %v", err)
		}
		m.wrote(path, touched...)
	case "roaring":
		var ps []uint64
		var touched []uint64
		for i := range op.Rows {
			ps = append(ps, op.Rows[i]*ShardWidth+op.Cols[i]%ShardWidth)
			if op.Clear {
				m.mclear(op.Rows[i], op.Cols[i])
			} else {
				m.mset(op.Rows[i], op.Cols[i])
			}
			touched = append(touched, op.Rows[i])
		}
		var data []byte
		if op.Official {
			data = vgfOfficialRoaring(ps)
		} else {
			data = vgfPilosaRoaring(ps, op.Optimize)
		}
		if err := f.importRoaring(context.Background(), data, op.Clear); err != nil {
			m.fail("importRoaring: %v", err)
		}
		path := "importRoaring"
		if op.Clear {
			path = "importRoaringClear"
		}
		m.wrote(path, touched...)
	case "setValue":
		if d := bitDepthInt64(op.Val); d > m.depth {
			m.depth = d
		}
		old, had := m.vals[op.Col]
		want := !had || old != op.Val
		m.vals[op.Col] = op.Val
		got, err := f.setValue(op.Col, m.depth, op.Val)
		if err != nil {
			m.fail("setValue: %v", err)
		}
		if got != want {
			m.fail("setValue(col=%d,depth=%d,%d) reported changed=%v, want %v", op.Col, m.depth, op.Val, got, want)
		}
		m.wrote("setValue", m.bsiRows()...)
	case "importValue":
		for _, v := range op.Vals {
			if d := bitDepthInt64(v); d > m.depth {
				m.depth = d
			}
		}
		before := map[uint64]int64{}
		for _, c := range op.Cols {
			if v, ok := m.vals[c]; ok {
				before[c] = v
			}
		}
		for i, c := range op.Cols {
			if op.Clear {
				delete(m.vals, c)
			} else {
				m.vals[c] = op.Vals[i]
			}
		}
		// what the import overwrites or clears, for the class histogram
		stored := func(c uint64) string {
			v, ok := before[c]
			switch {
			case !ok:
				return "absent"
			case v < 0:
				return "negative"
			case v == 0:
				return "zero"
			}
			return "positive"
		}
		// the large path waits for the queued snapshot it enqueues (see withWorker); whether it is taken depends on opN,
		// which a pending snapshot resets, so that one runs first in both cases
		m.drain()
		f.mu.Lock()
		large := !(len(op.Cols)*int(m.depth+1)+f.opN < f.MaxOpN)
		f.mu.Unlock()
		path := "importValueSmall"
		if large {
			path = "importValueLarge"
		}
		kind := "import"
		if op.Clear {
			kind = "clear-import"
		}
		for _, c := range op.Cols {
			m.events[fmt.Sprintf("bsi:%s over %s value via %s path", kind, stored(c), strings.ToLower(strings.TrimPrefix(path, "importValue")))]++
		}
		var err error
		call := func() {
			err = f.importValue(append([]uint64(nil), op.Cols...), append([]int64(nil), op.Vals...), m.depth, op.Clear)
		}
		if large {
			m.withWorker(call)
		} else {
			call()
		}
		if err != nil {
			m.fail("importValue: %v", err)
		}
		m.wrote(path, m.bsiRows()...)
	case "retryRestart":
		m.applyRetryRestart(op)
	case "snapshot":
		if err := f.Snapshot(); err != nil {
			m.fail("Snapshot: %v", err)
		}
		m.nSnap++
	case "bgrun":
		m.drain()
	case "reopen":
		m.drain()
		if err := f.Close(); err != nil {
			m.fail("Close: %v", err)
		}
		if err := f.Open(); err != nil {
			m.fail("Open: %v", err)
		}
		m.nReopen++
		m.epochOn = false
		m.blkComputed = map[int]bool{}
		m.blkDirty = map[int]bool{}
	case "reopenNew":
		m.drain()
		if err := f.Close(); err != nil {
			m.fail("Close: %v", err)
		}
		m.f = m.newFrag()
		if err := m.f.Open(); err != nil {
			m.fail("Open (new object): %v", err)
		}
		m.nReopen++
		m.epochOn = false
		m.blkComputed = map[int]bool{}
		m.blkDirty = map[int]bool{}
	case "flush":
		if err := f.FlushCache(); err != nil {
			m.fail("FlushCache: %v", err)
		}
	case "recalc":
		f.RecalculateCache()
	default:
		m.fail("unknown op %q", op.Name)
	}
}

func (m *vgfM) snapshotsTaken() int {
	m.f.mu.Lock()
	defer m.f.mu.Unlock()
	return m.f.snapshotsTaken
}

// applyRetryRestart: everything stored is imported once more (nothing changes; for int fragments through the large
// path when MaxOpN allows), then a few small writes follow, then the fragment is closed and opened and read back.
func (m *vgfM) applyRetryRestart(op vgfOp) {
	large := false
	if m.cfg.Kind == vgfBSI {
		if len(m.vals) < vgfWideN {
			fill := vgfOp{Name: "importValue"}
			for i := 0; i < vgfWideN; i++ {
				fill.Cols = append(fill.Cols, m.cfg.Shard*ShardWidth+vgfColOffs[i])
				fill.Vals = append(fill.Vals, op.Val)
			}
			m.apply(fill)
		}
		m.apply(vgfOp{Name: "snapshot"}) // operation count back to 0, as after any earlier bulk import
		re := vgfOp{Name: "importValue"}
		for _, c := range m.valCols() {
			re.Cols = append(re.Cols, c)
			re.Vals = append(re.Vals, m.vals[c])
		}
		m.drain()
		m.f.mu.Lock()
		large = !(len(re.Cols)*int(m.depth+1)+m.f.opN < m.f.MaxOpN)
		m.f.mu.Unlock()
		m.apply(re)
	} else {
		re := vgfOp{Name: "import"}
		for _, r := range m.nonEmptyRows() {
			for _, c := range m.rowCols(r) {
				re.Rows = append(re.Rows, r)
				re.Cols = append(re.Cols, c)
			}
		}
		if len(re.Rows) > 0 {
			m.apply(re)
		}
	}
	snaps := m.snapshotsTaken()
	pending := m.q != nil && len(m.q) > 0
	for i, c := range op.Cols {
		switch {
		case m.cfg.Kind == vgfBSI:
			lim := int64(1)<<m.depth - 1
			v := m.vals[c] + op.Vals[i] // a neighbour of the stored value: only a few bits change
			if v > lim {
				v = lim
			}
			if v < -lim {
				v = -lim
			}
			m.apply(vgfOp{Name: "setValue", Col: c, Val: v})
		case op.Clear && i%2 == 1:
			m.apply(vgfOp{Name: "clearBit", Row: op.Rows[i], Col: c})
		default:
			m.apply(vgfOp{Name: "setBit", Row: op.Rows[i], Col: c})
		}
	}
	quiet := m.snapshotsTaken() == snaps && !pending && !(m.q != nil && len(m.q) > 0)
	m.apply(vgfOp{Name: op.Src})
	m.hist = append(m.hist, "}")
	m.checkAll()
	switch {
	case m.cfg.Kind == vgfBSI && large && quiet:
		m.events["bsi:no-op re-import via large path, small writes without snapshot, restart"]++
	case m.cfg.Kind == vgfBSI && quiet:
		m.events["bsi:no-op re-import via small path, small writes without snapshot, restart"]++
	case m.cfg.Kind != vgfBSI && quiet:
		m.events["bits:no-op re-import, small writes without snapshot, restart"]++
	}
}

// ---------------------------------------------------------------------------
// reads compared with the model (C07; also run by the other properties)

func (m *vgfM) checkRow(r uint64) {
	want := m.rowCols(r)
	for pass := 0; pass < 2; pass++ { // cache miss, then cache hit
		row := m.f.row(r)
		if got := row.Columns(); !vgfEqU(got, want) {
			m.fail("row(%d) read #%d = %v, want %v", r, pass+1, got, want)
		}
		if got := row.Count(); got != uint64(len(want)) {
			m.fail("row(%d).Count() read #%d = %d, want %d", r, pass+1, got, len(want))
		}
	}
	m.readRow(r)
}

func (m *vgfM) checkBit(r, c uint64) {
	m.f.mu.Lock()
	got, err := m.f.bit(r, c)
	m.f.mu.Unlock()
	if err != nil {
		m.fail("bit(%d,%d): %v", r, c, err)
	}
	if got != m.has(r, c) {
		m.fail("bit(%d,%d) = %v, want %v", r, c, got, !got)
	}
}

func (m *vgfM) checkBits() {
	for _, r := range m.rows {
		for _, c := range m.allCols() {
			m.checkBit(r, c)
		}
	}
}

func (m *vgfM) checkRowsList() {
	ne := m.nonEmptyRows()
	if got := m.f.rows(0); !vgfEqU(got, ne) {
		m.fail("rows(0) = %v, want %v", got, ne)
	}
	start := rapid.SampledFrom(append([]uint64{0, 1, 50, 150, 201}, m.rows...)).Draw(m.t, "rows.start")
	from := func(a []uint64) []uint64 {
		var o []uint64
		for _, r := range a {
			if r >= start {
				o = append(o, r)
			}
		}
		return o
	}
	if got, want := m.f.rows(start), from(ne); !vgfEqU(got, want) {
		m.fail("rows(%d) = %v, want %v", start, got, want)
	}
	c := rapid.SampledFrom(m.allCols()).Draw(m.t, "rows.col")
	var withC []uint64
	for _, r := range ne {
		if m.has(r, c) {
			withC = append(withC, r)
		}
	}
	if got, want := m.f.rows(start, filterColumn(c)), from(withC); !vgfEqU(got, want) {
		m.fail("rows(%d, column=%d) = %v, want %v", start, c, got, want)
	}
	k := rapid.IntRange(1, 4).Draw(m.t, "rows.limit")
	want := from(ne)
	if len(want) > k {
		want = want[:k]
	}
	if got := m.f.rows(start, filterWithLimit(uint64(k))); !vgfEqU(got, want) {
		m.fail("rows(%d, limit=%d) = %v, want %v", start, k, got, want)
	}
	sub := rapid.SliceOfNDistinct(rapid.SampledFrom(m.rows), 1, 4, func(v uint64) uint64 { return v }).Draw(m.t, "rows.in")
	sort.Slice(sub, func(i, j int) bool { return sub[i] < sub[j] })
	var inSub []uint64
	for _, r := range from(ne) {
		for _, s := range sub {
			if s == r {
				inSub = append(inSub, r)
			}
		}
	}
	if got := m.f.rows(start, filterWithRows(sub)); !vgfEqU(got, inSub) {
		m.fail("rows(%d, in=%v) = %v, want %v", start, sub, got, inSub)
	}
}

func (m *vgfM) checkForEach() {
	var want [][2]uint64
	for _, r := range m.nonEmptyRows() {
		for _, c := range m.rowCols(r) {
			want = append(want, [2]uint64{r, c})
		}
	}
	var got [][2]uint64
	if err := m.f.forEachBit(func(r, c uint64) error { got = append(got, [2]uint64{r, c}); return nil }); err != nil {
		m.fail("forEachBit: %v", err)
	}
	if fmt.Sprint(got) != fmt.Sprint(want) {
		m.fail("forEachBit = %v, want %v", got, want)
	}
}

func (m *vgfM) checkMinMaxRow() {
	filter := NewRow(m.allCols()...)
	ne := m.nonEmptyRows()
	var wantMax, wantMaxN, wantMin, wantMinN uint64
	if len(ne) > 0 {
		wantMin, wantMinN = ne[0], uint64(len(m.bits[ne[0]]))
		wantMax, wantMaxN = ne[len(ne)-1], uint64(len(m.bits[ne[len(ne)-1]]))
	}
	if r, n := m.f.maxRow(filter); r != wantMax || n != wantMaxN {
		m.fail("maxRow(filter=all columns) = (%d,%d), want (%d,%d)", r, n, wantMax, wantMaxN)
	}
	if r, n := m.f.minRow(filter); r != wantMin || n != wantMinN {
		m.fail("minRow(filter=all columns) = (%d,%d), want (%d,%d)", r, n, wantMin, wantMinN)
	}
	for _, r := range m.rows {
		m.readSince[r] = true
	}
}

func (m *vgfM) checkMutex() {
	if !m.isMutex() {
		return
	}
	for _, c := range m.allCols() {
		var rs []uint64
		for _, r := range m.nonEmptyRows() {
			if m.has(r, c) {
				rs = append(rs, r)
			}
		}
		if len(rs) > 1 {
			m.fail("harness model holds %v for column %d", rs, c)
		}
		got := m.f.rows(0, filterColumn(c))
		if len(got) > 1 {
			m.fail("column %d holds %d values %v in a %s fragment, want %v", c, len(got), got, m.cfg.Kind, rs)
		}
		if !vgfEqU(got, rs) {
			m.fail("column %d holds %v, want %v (last write)", c, got, rs)
		}
		m.f.mu.Lock()
		r, found, err := m.f.mutexVector.Get(c)
		m.f.mu.Unlock()
		if err != nil {
			m.fail("mutexVector.Get(%d): %v", c, err)
		}
		if found != (len(rs) == 1) || (found && r != rs[0]) {
			m.fail("mutexVector.Get(%d) = (%d,%v), want %v", c, r, found, rs)
		}
	}
}

// --- BSI reads

func (m *vgfM) checkValues() {
	for _, c := range m.allCols() {
		got, ok, err := m.f.value(c, m.depth)
		if err != nil {
			m.fail("value(%d): %v", c, err)
		}
		want, wok := m.vals[c]
		if ok != wok || (ok && got != want) {
			m.fail("value(col=%d,depth=%d) = (%d,%v), want (%d,%v)", c, m.depth, got, ok, want, wok)
		}
	}
}

func (m *vgfM) bsiWhere(pred func(v int64) bool) []uint64 {
	var a []uint64
	for _, c := range m.valCols() {
		if pred(m.vals[c]) {
			a = append(a, c)
		}
	}
	return a
}

func (m *vgfM) checkBSIRows() {
	// existence row (twice: miss + hit)
	want := m.valCols()
	for pass := 0; pass < 2; pass++ {
		if got := m.f.row(bsiExistsBit).Columns(); !vgfEqU(got, want) {
			m.fail("row(exists) read #%d = %v, want %v", pass+1, got, want)
		}
	}
	// a predicate that fits the bit depth: a stored value, a neighbour, or anything below 2^depth
	lim := int64(1)<<m.depth - 1
	cands := []int64{0, lim, -lim}
	for _, c := range m.valCols() {
		cands = append(cands, m.vals[c], m.vals[c]+1, m.vals[c]-1)
	}
	p := rapid.SampledFrom(cands).Draw(m.t, "bsi.pred")
	if p > lim {
		p = lim
	}
	if p < -lim {
		p = -lim
	}
	type rop struct {
		op   pql.Token
		name string
		ok   func(v int64) bool
	}
	ops := []rop{
		{pql.EQ, "==", func(v int64) bool { return v == p }},
		{pql.NEQ, "!=", func(v int64) bool { return v != p }},
	}
	if m.depth >= 1 {
		ops = append(ops,
			rop{pql.LT, "<", func(v int64) bool { return v < p }},
			rop{pql.LTE, "<=", func(v int64) bool { return v <= p }},
			rop{pql.GT, ">", func(v int64) bool { return v > p }},
			rop{pql.GTE, ">=", func(v int64) bool { return v >= p }})
	}
	for _, o := range ops {
		row, err := m.f.rangeOp(o.op, m.depth, p)
		if err != nil {
			m.fail("rangeOp(%s %d): %v", o.name, p, err)
		}
		if got, want := row.Columns(), m.bsiWhere(o.ok); !vgfEqU(got, want) {
			m.fail("rangeOp(value %s %d, depth=%d) = %v, want %v (values %v)", o.name, p, m.depth, got, want, m.vals)
		}
	}
	// the same comparisons against zero and the extremes (the sign row decides these)
	if m.depth >= 1 {
		for _, k := range []int64{0, lim, -lim} {
			k := k
			for _, o := range []rop{
				{pql.LT, "<", func(v int64) bool { return v < k }},
				{pql.LTE, "<=", func(v int64) bool { return v <= k }},
				{pql.GT, ">", func(v int64) bool { return v > k }},
				{pql.GTE, ">=", func(v int64) bool { return v >= k }},
			} {
				row, err := m.f.rangeOp(o.op, m.depth, k)
				if err != nil {
					m.fail("rangeOp(%s %d): %v", o.name, k, err)
				}
				if got, want := row.Columns(), m.bsiWhere(o.ok); !vgfEqU(got, want) {
					m.fail("rangeOp(value %s %d, depth=%d) = %v, want %v (values %v)", o.name, k, m.depth, got, want, m.vals)
				}
			}
		}
	}
	// not-null
	if nn, err := m.f.notNull(); err != nil {
		m.fail("notNull: %v", err)
	} else if got := nn.Columns(); !vgfEqU(got, m.valCols()) {
		m.fail("notNull() = %v, want %v", got, m.valCols())
	}
	// sum / min / max
	var wsum int64
	for _, v := range m.vals {
		wsum += v
	}
	sum, cnt, err := m.f.sum(nil, m.depth)
	if err != nil {
		m.fail("sum: %v", err)
	}
	if sum != wsum || cnt != uint64(len(m.vals)) {
		m.fail("sum(depth=%d) = (%d,%d), want (%d,%d) (values %v)", m.depth, sum, cnt, wsum, len(m.vals), m.vals)
	}
	if m.depth >= 1 && len(m.vals) > 0 {
		var mn, mx int64
		first := true
		for _, v := range m.vals {
			if first || v < mn {
				mn = v
			}
			if first || v > mx {
				mx = v
			}
			first = false
		}
		nmin := uint64(len(m.bsiWhere(func(v int64) bool { return v == mn })))
		nmax := uint64(len(m.bsiWhere(func(v int64) bool { return v == mx })))
		if got, n, _ := m.f.min(nil, m.depth); got != mn || n != nmin {
			m.fail("min(depth=%d) = (%d,%d), want (%d,%d) (values %v)", m.depth, got, n, mn, nmin, m.vals)
		}
		if got, n, _ := m.f.max(nil, m.depth); got != mx || n != nmax {
			m.fail("max(depth=%d) = (%d,%d), want (%d,%d) (values %v)", m.depth, got, n, mx, nmax, m.vals)
		}
	}
	for _, r := range m.bsiRows() {
		m.readRow(r)
	}
}

// checkAll compares every read with the model.
func (m *vgfM) checkAll() {
	if m.cfg.Kind == vgfBSI {
		m.checkValues()
		m.checkBSIRows()
		return
	}
	for _, r := range m.rows {
		m.checkRow(r)
	}
	m.checkBits()
	m.checkRowsList()
	m.checkForEach()
	m.checkMutex()
}

// checkSome draws which reads happen now (a read also changes cache state, so not reading is a case too).
func (m *vgfM) checkSome(label string) {
	mode := rapid.SampledFrom([]string{"none", "all", "all", "some", "some"}).Draw(m.t, label+".reads")
	switch mode {
	case "none":
		return
	case "all":
		m.checkAll()
		return
	}
	if m.cfg.Kind == vgfBSI {
		if rapid.Bool().Draw(m.t, label+".values") {
			m.checkValues()
		} else {
			m.checkBSIRows()
		}
		return
	}
	n := rapid.IntRange(1, 3).Draw(m.t, label+".nrows")
	for i := 0; i < n; i++ {
		m.checkRow(rapid.SampledFrom(m.rows).Draw(m.t, fmt.Sprintf("%s.row%d", label, i)))
	}
	switch rapid.SampledFrom([]string{"bits", "rows", "foreach", "minmax", "mutex"}).Draw(m.t, label+".kind") {
	case "bits":
		m.checkBits()
	case "rows":
		m.checkRowsList()
	case "foreach":
		m.checkForEach()
	case "minmax":
		m.checkMinMaxRow()
	case "mutex":
		m.checkMutex()
	}
}

// ---------------------------------------------------------------------------
// block checksums (C10)

func vgfBlocksString(bs []FragmentBlock) string {
	var sb strings.Builder
	for _, b := range bs {
		fmt.Fprintf(&sb, "%d:%x ", b.ID, b.Checksum)
	}
	return sb.String()
}

// vgfFreshBlocks loads the positions into a brand-new fragment and returns its Blocks().
func vgfFreshBlocks(t *rapid.T, dir string, shard uint64, positions []uint64) []FragmentBlock {
	p := filepath.Join(dir, "oracle")
	g := newFragment(p, "i", "f", viewStandard, shard, 0)
	g.CacheType = CacheTypeNone
	if err := g.Open(); err != nil {
		t.Fatalf("oracle fragment: %v", err)
	}
	rows := make([]uint64, len(positions))
	cols := make([]uint64, len(positions))
	for i, p := range positions {
		rows[i], cols[i] = p/ShardWidth, shard*ShardWidth+p%ShardWidth
	}
	if len(rows) > 0 {
		if err := g.bulkImport(rows, cols, &ImportOptions{}); err != nil {
			t.Fatalf("oracle fragment import: %v", err)
		}
	}
	out := g.Blocks()
	if err := g.Close(); err != nil {
		t.Fatalf("oracle fragment close: %v", err)
	}
	os.Remove(p)
	os.Remove(p + cacheExt)
	return out
}

// checkBlocks: Blocks() equals Blocks() of a fresh fragment holding the stored bits; blockData returns the stored bits;
// InvalidateChecksums does not change the answer.
func (m *vgfM) checkBlocks(dir string, fresh bool) []FragmentBlock {
	got := m.f.Blocks()
	for _, b := range got {
		if m.blkDirty[b.ID] {
			m.staleBlock = true
		}
	}
	for id, d := range m.blkDirty {
		if d {
			m.staleBlock = true // also covers a block that became empty
		}
		delete(m.blkDirty, id)
	}
	stored := m.storedPositions()
	if m.cfg.Kind != vgfBSI {
		// stored bits = model bits (C07), so the oracle below is the model's
		var want []uint64
		for _, r := range m.nonEmptyRows() {
			for _, c := range m.rowCols(r) {
				want = append(want, r*ShardWidth+c%ShardWidth)
			}
		}
		if !vgfEqU(stored, want) {
			m.fail("stored positions %v differ from the model %v", stored, want)
		}
	}
	if fresh {
		want := vgfFreshBlocks(m.t, dir, m.cfg.Shard, stored)
		if vgfBlocksString(got) != vgfBlocksString(want) {
			m.fail("Blocks() = %s\nbut a fresh fragment with the same bits %v reports %s", vgfBlocksString(got), stored, vgfBlocksString(want))
		}
	}
	// checksum of the whole fragment is derived from the same blocks
	_ = m.f.Checksum()
	m.f.InvalidateChecksums()
	again := m.f.Blocks()
	if vgfBlocksString(got) != vgfBlocksString(again) {
		m.fail("Blocks() = %s, after InvalidateChecksums() = %s (stored bits %v)", vgfBlocksString(got), vgfBlocksString(again), stored)
	}
	// blockData of every block id with data, and of one without
	byBlock := map[int][]uint64{}
	for _, p := range stored {
		byBlock[int(p/(HashBlockSize*ShardWidth))] = append(byBlock[int(p/(HashBlockSize*ShardWidth))], p)
	}
	ids := []int{0, 1, 2, 3}
	for _, id := range ids {
		rs, cs := m.f.blockData(id)
		var gotP []uint64
		for i := range rs {
			gotP = append(gotP, rs[i]*ShardWidth+cs[i])
		}
		if !vgfEqU(gotP, byBlock[id]) {
			m.fail("blockData(%d) = %v, want %v", id, gotP, byBlock[id])
		}
	}
	if len(got) != len(byBlock) {
		m.fail("Blocks() lists %d blocks %s, %d blocks hold data", len(got), vgfBlocksString(got), len(byBlock))
	}
	for _, b := range again {
		m.blkComputed[b.ID] = true
	}
	return again
}
