package pilosa

// gq1 — helpers shared by the in-package checks of C14 and C17:
// a naive model of an integer field (map column -> value), the enumeration of
// the small-depth configurations, and field open helpers.

import (
	"fmt"
	"math/big"
	"os"
	"path/filepath"
	"sort"
	"strconv"

	"github.com/pilosa/pilosa/pql"
)

func init() {
	// keep temporary data of the checks inside the run directory of the driver
	if d := os.Getenv("VERIF_RUNDIR"); d != "" {
		p := filepath.Join(d, "tmp")
		if err := os.MkdirAll(p, 0o755); err == nil {
			os.Setenv("TMPDIR", p)
		}
	}
}

// ---------------------------------------------------------------- model

// vq1IntModel is the reference model of one integer field.
type vq1IntModel struct {
	Min, Max int64
	Vals     map[uint64]int64
}

func vq1NewIntModel(min, max int64) *vq1IntModel {
	return &vq1IntModel{Min: min, Max: max, Vals: map[uint64]int64{}}
}

func (m *vq1IntModel) cols() []uint64 {
	a := make([]uint64, 0, len(m.Vals))
	for c := range m.Vals {
		a = append(a, c)
	}
	sort.Slice(a, func(i, j int) bool { return a[i] < a[j] })
	return a
}

var vq1Ops = []pql.Token{pql.EQ, pql.NEQ, pql.LT, pql.LTE, pql.GT, pql.GTE}

func vq1Sat(op pql.Token, v, p int64) bool {
	switch op {
	case pql.EQ:
		return v == p
	case pql.NEQ:
		return v != p
	case pql.LT:
		return v < p
	case pql.LTE:
		return v <= p
	case pql.GT:
		return v > p
	case pql.GTE:
		return v >= p
	}
	panic("vq1Sat: op")
}

// filter returns the sorted columns whose value satisfies (op, p).
func (m *vq1IntModel) filter(op pql.Token, p int64) []uint64 {
	var a []uint64
	for _, c := range m.cols() {
		if vq1Sat(op, m.Vals[c], p) {
			a = append(a, c)
		}
	}
	return a
}

func (m *vq1IntModel) between(lo, hi int64) []uint64 {
	var a []uint64
	for _, c := range m.cols() {
		if v := m.Vals[c]; v >= lo && v <= hi {
			a = append(a, c)
		}
	}
	return a
}

// vq1Agg is the expected outcome of Sum/Min/Max over a set of columns.
type vq1Agg struct {
	N          int64    // columns with a value (Sum's count)
	Sum        *big.Int // exact
	Min, Max   int64
	NMin, NMax int64 // number of columns holding the extreme
}

// agg computes the aggregates over the columns of `within` (nil = all columns).
func (m *vq1IntModel) agg(within map[uint64]bool) vq1Agg {
	a := vq1Agg{Sum: new(big.Int)}
	for _, c := range m.cols() {
		if within != nil && !within[c] {
			continue
		}
		v := m.Vals[c]
		a.Sum.Add(a.Sum, big.NewInt(v))
		if a.N == 0 || v < a.Min {
			a.Min, a.NMin = v, 0
		}
		if a.N == 0 || v > a.Max {
			a.Max, a.NMax = v, 0
		}
		if v == a.Min {
			a.NMin++
		}
		if v == a.Max {
			a.NMax++
		}
		a.N++
	}
	return a
}

func vq1ColSet(cols []uint64) map[uint64]bool {
	s := make(map[uint64]bool, len(cols))
	for _, c := range cols {
		s[c] = true
	}
	return s
}

func vq1EqCols(a, b []uint64) bool {
	if len(a) != len(b) {
		return false
	}
	for i := range a {
		if a[i] != b[i] {
			return false
		}
	}
	return true
}

func vq1RowCols(r *Row) []uint64 {
	if r == nil {
		return nil
	}
	return r.Columns()
}

// vq1Depth is the number of bits needed for |v| (the model's own definition).
func vq1Depth(v int64) uint {
	u := uint64(v)
	if v < 0 {
		u = uint64(-v)
	}
	d := uint(0)
	for u != 0 {
		d++
		u >>= 1
	}
	return d
}

// ---------------------------------------------------------------- small-depth configurations

// vq1Cfg is one configuration of the exhaustive tier: declared bounds, the bit
// depth the stored data is driven to, and how the data is written.
type vq1Cfg struct {
	Min, Max int64
	Depth    uint
	Mode     string // set | import | mix
	Reopen   bool   // reopen the field before the first write (base = min, depth fixed by the bounds)
}

func (c vq1Cfg) String() string {
	return fmt.Sprintf("bounds(%d,%d) depth=%d mode=%s reopen=%v", c.Min, c.Max, c.Depth, c.Mode, c.Reopen)
}

// values returns every writable value of the configuration: all v in [Min,Max]
// with |v| < 2^Depth; ok is false if no such value needs exactly Depth bits.
func (c vq1Cfg) values() (vals []int64, ok bool) {
	lim := int64(1)<<c.Depth - 1
	for v := c.Min; v <= c.Max; v++ {
		if v < -lim || v > lim {
			continue
		}
		vals = append(vals, v)
		if vq1Depth(v) == c.Depth {
			ok = true
		}
	}
	return vals, ok
}

var vq1ExtraBounds = [][2]int64{{5, 100}, {-100, -5}, {0, 0}, {-1, 0}, {0, 1}, {-100, 100}, {-20, 120}}

// vq1AllCfgs enumerates the complete small-depth space (deterministic order).
func vq1AllCfgs() []vq1Cfg {
	var bounds [][2]int64
	for lo := int64(-9); lo <= 9; lo++ {
		for hi := lo; hi <= 9; hi++ {
			bounds = append(bounds, [2]int64{lo, hi})
		}
	}
	bounds = append(bounds, vq1ExtraBounds...)
	var out []vq1Cfg
	for _, b := range bounds {
		for d := uint(0); d <= 7; d++ {
			for _, mode := range []string{"set", "import", "mix"} {
				c := vq1Cfg{Min: b[0], Max: b[1], Depth: d, Mode: mode}
				if _, ok := c.values(); ok {
					out = append(out, c)
				}
			}
		}
		// the restart path: a field reopened while its depth is still 0 gets base=min and
		// the depth of max-min; the data then cannot change the depth any more.
		for _, mode := range []string{"set", "mix"} {
			out = append(out, vq1Cfg{Min: b[0], Max: b[1], Depth: 99, Mode: mode, Reopen: true})
		}
	}
	return out
}

// vq1CfgValues is values() that also understands the Reopen configurations (all of [Min,Max]).
func vq1CfgValues(c vq1Cfg) []int64 {
	if c.Reopen {
		var vals []int64
		for v := c.Min; v <= c.Max; v++ {
			vals = append(vals, v)
		}
		return vals
	}
	vals, _ := c.values()
	return vals
}

// vq1PickCfgs returns the configurations this process has to run:
// thorough = the complete space split over the shards; quick = a seeded sample of n per shard.
func vq1PickCfgs(all []vq1Cfg, quickPerShard int, thorough bool) (mine []vq1Cfg, complete bool) {
	shard, _ := strconv.Atoi(os.Getenv("VERIF_SHARD"))
	nshards, _ := strconv.Atoi(os.Getenv("VERIF_NSHARDS"))
	if nshards <= 0 {
		nshards = 1
	}
	for i, c := range all {
		if i%nshards == shard {
			mine = append(mine, c)
		}
	}
	if thorough || len(mine) <= quickPerShard {
		return mine, true
	}
	seed, _ := strconv.ParseUint(os.Getenv("VERIF_SEED_EFF"), 10, 64)
	// deterministic stride sample that moves with the seed
	step := len(mine) / quickPerShard
	off := int(seed % uint64(step))
	var pick []vq1Cfg
	for i := off; i < len(mine) && len(pick) < quickPerShard; i += step {
		pick = append(pick, mine[i])
	}
	return pick, false
}

// vq1Write is one write of the program that loads a configuration.
type vq1Write struct {
	Kind string // set | import | clear
	Cols []uint64
	Vals []int64
}

// vq1Program builds the write program of a configuration and the model it must lead to.
// One column per value, round-robin over three shards, plus duplicates of the extremes
// in other shards (ties) and columns that end up without a value.
func vq1Program(c vq1Cfg) (prog []vq1Write, m *vq1IntModel) {
	vals := vq1CfgValues(c)
	m = vq1NewIntModel(c.Min, c.Max)
	col := func(i int) uint64 { return uint64(i%3)*ShardWidth + 10 + uint64(i/3) }
	type cv struct {
		c uint64
		v int64
	}
	var final []cv
	for i, v := range vals {
		final = append(final, cv{col(i), v})
	}
	// ties of the extremes in the two other shards and in the same shard
	n := len(vals)
	lo, hi := vals[0], vals[n-1]
	base := 3 * ((n + 2) / 3)
	final = append(final, cv{col(base + 1), lo}, cv{col(base + 2), lo}, cv{col(base + 3), lo})
	final = append(final, cv{col(base + 6), hi}, cv{col(base + 7), hi}, cv{col(base + 8), hi}, cv{col(base + 11), hi})
	for _, x := range final {
		m.Vals[x.c] = x.v
	}
	bySh := func(xs []cv) map[uint64][]cv {
		r := map[uint64][]cv{}
		for _, x := range xs {
			r[x.c/ShardWidth] = append(r[x.c/ShardWidth], x)
		}
		return r
	}
	imp := func(kind string, xs []cv) {
		g := bySh(xs)
		for sh := uint64(0); sh < 3; sh++ {
			if len(g[sh]) == 0 {
				continue
			}
			w := vq1Write{Kind: kind}
			for _, x := range g[sh] {
				w.Cols = append(w.Cols, x.c)
				w.Vals = append(w.Vals, x.v)
			}
			prog = append(prog, w)
		}
	}
	switch c.Mode {
	case "set":
		for _, x := range final {
			prog = append(prog, vq1Write{Kind: "set", Cols: []uint64{x.c}, Vals: []int64{x.v}})
		}
	case "import":
		imp("import", final)
	case "mix":
		// first a wrong value everywhere: even positions get the value of largest magnitude
		// (large -> small overwrite), odd positions the one of smallest magnitude (small -> large)
		big, small := vals[0], vals[0]
		for _, v := range vals {
			if vq1Depth(v) > vq1Depth(big) || (vq1Depth(v) == vq1Depth(big) && v < big) {
				big = v
			}
			if vq1Depth(v) < vq1Depth(small) {
				small = v
			}
		}
		var first []cv
		for i, x := range final {
			if i%2 == 0 {
				first = append(first, cv{x.c, big})
			} else {
				first = append(first, cv{x.c, small})
			}
		}
		// columns that are written and cleared again (stay empty)
		gone := []cv{{col(base + 12), hi}, {col(base + 13), lo}, {col(base + 14), big}}
		first = append(first, gone...)
		for i, x := range first {
			if i%3 == 0 {
				prog = append(prog, vq1Write{Kind: "set", Cols: []uint64{x.c}, Vals: []int64{x.v}})
			}
		}
		var rest []cv
		for i, x := range first {
			if i%3 != 0 {
				rest = append(rest, x)
			}
		}
		imp("import", rest)
		// clear a third of the final columns (with the value they hold) and the `gone` columns
		var clr []cv
		for i, x := range first {
			if i%3 == 1 {
				clr = append(clr, x)
			}
		}
		imp("clear", clr)
		// final values: half by Set (overwrite), half by import (overwrite)
		var fimp []cv
		for i, x := range final {
			if i%4 == 0 || i%4 == 3 {
				prog = append(prog, vq1Write{Kind: "set", Cols: []uint64{x.c}, Vals: []int64{x.v}})
			} else {
				fimp = append(fimp, x)
			}
		}
		imp("import", fimp)
		// `gone` columns: make sure they are cleared at the end
		var g2 []cv
		for _, x := range gone {
			g2 = append(g2, x)
		}
		imp("clear", g2)
	default:
		panic("mode")
	}
	return prog, m
}

// vq1Predicates: every predicate from lo-3*2^d-2 to hi+3*2^d+2 plus the neighbourhood of the declared bounds.
func vq1Predicates(c vq1Cfg, m *vq1IntModel) []int64 {
	d := c.Depth
	if c.Reopen {
		d = vq1Depth(c.Max - c.Min)
	}
	span := int64(3)<<d + 2
	lo, hi := int64(0), int64(0)
	first := true
	for _, v := range m.Vals {
		if first || v < lo {
			lo = v
		}
		if first || v > hi {
			hi = v
		}
		first = false
	}
	seen := map[int64]bool{}
	var ps []int64
	add := func(p int64) {
		if !seen[p] {
			seen[p] = true
			ps = append(ps, p)
		}
	}
	for p := lo - span; p <= hi+span; p++ {
		add(p)
	}
	for _, b := range []int64{c.Min, c.Max, 0} {
		for k := int64(-2); k <= 2; k++ {
			add(b + k)
		}
	}
	sort.Slice(ps, func(i, j int) bool { return ps[i] < ps[j] })
	return ps
}

// vq1Grid: the between grid (edges of the declared bounds, of the bit-depth range, zero, extremes of the data).
func vq1Grid(c vq1Cfg, m *vq1IntModel) []int64 {
	d := c.Depth
	if c.Reopen {
		d = vq1Depth(c.Max - c.Min)
	}
	lim := int64(1)<<d - 1
	seen := map[int64]bool{}
	var ps []int64
	add := func(p int64) {
		if !seen[p] {
			seen[p] = true
			ps = append(ps, p)
		}
	}
	for _, b := range []int64{c.Min, c.Max, 0, -lim, lim} {
		for k := int64(-1); k <= 1; k++ {
			add(b + k)
		}
	}
	for _, b := range []int64{c.Min - 2*lim - 3, c.Max + 2*lim + 3, (c.Min + c.Max) / 2, lim / 2, -lim / 2} {
		add(b)
	}
	sort.Slice(ps, func(i, j int) bool { return ps[i] < ps[j] })
	return ps
}
