package pilosa

// C29 (API level) — concurrent PQL / import requests against one in-process
// node are race-free and linearizable.
//
// Universe: index with a set field f, a time field t (views are created on the
// fly by concurrent Set calls with timestamps), an int field v and a constant
// set field c (source rows of Store); rows {0,1}; columns {0,1} of shards 0
// and 1. A request that touches two shards is not atomic across shards in
// pilosa (each shard is mapped separately), so the linearizable objects are
// the (field, shard) pairs: every request is projected to one sub-operation
// per shard it touches, all with the request's [call, return] interval, and
// porcupine checks each object's history against its sequential model.

import (
	"bytes"
	"context"
	"fmt"
	"os"
	"path/filepath"
	"runtime"
	"sort"
	"strings"
	"sync"
	"sync/atomic"
	"testing"
	"time"

	"github.com/anishathalye/porcupine"
	"github.com/pilosa/pilosa/internal/vkit"
	"github.com/pilosa/pilosa/roaring"
	"pgregory.net/rapid"
)

var vc29IntPool = []int64{0, 1, 5, -7, 300} // state code of a column: 0 = no value, i+1 = vc29IntPool[i]
var vc29TSPool = []string{"", "", "2019-01-01T00:00", "2019-02-03T04:05", "2020-02-29T12:00"}

// vc29Req is one generated request.
type vc29Req struct {
	Kind  string // set clear row rowsWithCol store clearRow import importClear roaring roaringClear setT clearT rowT setV valueV eqV count topn sum recalc
	Row   uint64
	Shard uint64
	Col   uint64 // column inside the shard: 0/1
	Mask  uint8  // import/roaring: bits (row*2+col) inside Shard; store: source row of c (0: {}, 1: {col 0}, 2: {col 0, col 1})
	TS    int    // index into vc29TSPool
	Val   int    // index into vc29IntPool
	Delay int
	Burst bool   // part of the opening burst: all clients issue it at the same moment (barrier)
	KIdx  int    // setKeyed: which of the workload's fresh keyed indexes
	CKey  string // setKeyed: column key (unique per client and step)
	RKey  string // setKeyed: row key (unique per client and step)
}

func (r vc29Req) String() string {
	col := fmt.Sprintf("s%d.c%d", r.Shard, r.Col)
	switch r.Kind {
	case "set", "clear":
		return fmt.Sprintf("%s(f r%d %s)", r.Kind, r.Row, col)
	case "setT":
		return fmt.Sprintf("setT(t r%d %s ts=%q)", r.Row, col, vc29TSPool[r.TS])
	case "clearT":
		return fmt.Sprintf("clearT(t r%d %s)", r.Row, col)
	case "setKeyed":
		return fmt.Sprintf("setKeyed(index k%d: Set(%q, kf=%q) burst=%v)", r.KIdx, r.CKey, r.RKey, r.Burst)
	case "setG":
		return fmt.Sprintf("setG(g r%d %s burst=%v)", r.Row, col, r.Burst)
	case "setM", "clearM", "setB":
		return fmt.Sprintf("%s(r%d %s)", r.Kind, r.Row, col)
	case "rowM", "rowB":
		return fmt.Sprintf("%s(r%d)", r.Kind, r.Row)
	case "setTNew":
		return fmt.Sprintf("setTNew(t r%d %s ts=%d-01-01 burst=%v)", r.Row, col, 2030+r.TS, r.Burst)
	case "row", "rowT", "rowG", "clearRow", "count":
		return fmt.Sprintf("%s(r%d)", r.Kind, r.Row)
	case "rowsWithCol":
		return fmt.Sprintf("rowsWithCol(f %s)", col)
	case "store":
		return fmt.Sprintf("store(f r%d := c r%d)", r.Row, r.Mask)
	case "import", "importClear", "roaring", "roaringClear":
		return fmt.Sprintf("%s(f s%d %04b)", r.Kind, r.Shard, r.Mask&0xF)
	case "setV":
		return fmt.Sprintf("setV(%s = %d)", col, vc29IntPool[r.Val])
	case "valueV":
		return fmt.Sprintf("valueV(%s)", col)
	case "eqV":
		return fmt.Sprintf("eqV(v == %d)", vc29IntPool[r.Val])
	}
	return r.Kind + "()"
}

// vc29Sub is the projection of a request on one (field, shard) object.
type vc29Sub struct {
	Obj  string // f0 f1 t0 t1 v0 v1
	Kind string // setBit clearBit setMask clearMask setRow clearRow row rowsWithCol setV valueV eqV
	Row  uint64
	Col  uint64
	Mask uint8
	Val  int
}

type vc29SubOut struct {
	Changed   bool
	Mask      uint8
	Val       int  // valueV: state code
	Unchecked bool // result not attributable to this object
}

func vc29b(row, col uint64) uint8 { return 1 << (row*2 + col) }

// sequential model of a set-like object: 2 rows x 2 columns.
func vc29SetStep(state, input, output interface{}) (bool, interface{}) {
	s := state.(uint8)
	op := input.(vc29Sub)
	out := output.(vc29SubOut)
	rowMask := func(r uint64) uint8 { return 3 << (r * 2) }
	switch op.Kind {
	case "setBit":
		b := vc29b(op.Row, op.Col)
		return out.Unchecked || out.Changed == (s&b == 0), s | b
	case "setMutex": // mutex/bool field: the column moves to the row
		b := vc29b(op.Row, op.Col)
		return out.Unchecked || out.Changed == (s&b == 0), (s &^ (vc29b(0, op.Col) | vc29b(1, op.Col))) | b
	case "clearBit":
		b := vc29b(op.Row, op.Col)
		return out.Unchecked || out.Changed == (s&b != 0), s &^ b
	case "setMask":
		return true, s | op.Mask
	case "clearMask":
		return true, s &^ op.Mask
	case "setRow":
		return true, (s &^ rowMask(op.Row)) | (op.Mask&3)<<(op.Row*2)
	case "clearRow":
		return true, s &^ rowMask(op.Row)
	case "row":
		return out.Unchecked || out.Mask == (s>>(op.Row*2))&3, s
	case "rowsWithCol":
		var want uint8
		for r := uint64(0); r < 2; r++ {
			if s&vc29b(r, op.Col) != 0 {
				want |= 1 << r
			}
		}
		return out.Unchecked || out.Mask == want, s
	}
	return false, s
}

// sequential model of an int object: 2 columns, each none or a pool value
// (state = code(col0) + 8*code(col1)).
func vc29IntStep(state, input, output interface{}) (bool, interface{}) {
	s := state.(uint8)
	op := input.(vc29Sub)
	out := output.(vc29SubOut)
	code := func(c uint64) int { return int(s>>(3*c)) & 7 }
	switch op.Kind {
	case "setV":
		old := code(op.Col)
		ns := (s &^ (7 << (3 * op.Col))) | uint8(op.Val+1)<<(3*op.Col)
		return out.Unchecked || out.Changed == (old != op.Val+1), ns
	case "valueV":
		return out.Unchecked || out.Val == code(op.Col), s
	case "eqV":
		var want uint8
		for c := uint64(0); c < 2; c++ {
			if code(c) == op.Val+1 {
				want |= 1 << c
			}
		}
		return out.Unchecked || out.Mask == want, s
	}
	return false, s
}

func vc29ObjModel(obj string, init uint8) porcupine.Model {
	step := vc29SetStep
	if obj[0] == 'v' {
		step = vc29IntStep
	}
	return porcupine.Model{
		Init:  func() interface{} { return init },
		Step:  step,
		Equal: func(a, b interface{}) bool { return a.(uint8) == b.(uint8) },
	}
}

type vc29ApiRec struct {
	Client       int
	Req          vc29Req
	Subs         []vc29Sub
	Outs         []vc29SubOut
	Call, Return int64
}

func vc29AbsCol(shard, col uint64) uint64 { return shard*ShardWidth + col }

const vc29MaxShards = 8

// vc29RowMasks splits the columns of a row result per shard.
func vc29RowMasks(cols []uint64) ([vc29MaxShards]uint8, error) {
	var m [vc29MaxShards]uint8
	for _, c := range cols {
		sh, lc := c/ShardWidth, c%ShardWidth
		if sh >= vc29MaxShards || lc > 1 {
			return m, fmt.Errorf("column %d outside the universe", c)
		}
		m[sh] |= 1 << lc
	}
	return m, nil
}

// vc29Do executes one request and returns its per-object projection.
func vc29Do(n *vgcNode, index string, r vc29Req) ([]vc29Sub, []vc29SubOut, error) {
	ctx := context.Background()
	q := func(pql string) (interface{}, error) {
		res, err := n.vgcQuery(index, pql)
		if err != nil {
			return nil, fmt.Errorf("%s: %v", pql, err)
		}
		if len(res) != 1 {
			return nil, fmt.Errorf("%s: %d results", pql, len(res))
		}
		return res[0], nil
	}
	col := vc29AbsCol(r.Shard, r.Col)
	objF := fmt.Sprintf("f%d", r.Shard)
	objT := fmt.Sprintf("t%d", r.Shard)
	objV := fmt.Sprintf("v%d", r.Shard)
	one := func(s vc29Sub, o vc29SubOut) ([]vc29Sub, []vc29SubOut, error) {
		return []vc29Sub{s}, []vc29SubOut{o}, nil
	}
	perShardRow := func(field byte, res interface{}, row uint64, nShards int) ([]vc29Sub, []vc29SubOut, error) {
		rw, ok := res.(*Row)
		if !ok {
			return nil, nil, fmt.Errorf("result is %T, want *Row", res)
		}
		m, err := vc29RowMasks(rw.Columns())
		if err != nil {
			return nil, nil, err
		}
		var subs []vc29Sub
		var outs []vc29SubOut
		for sh := 0; sh < vc29MaxShards; sh++ {
			if sh >= nShards {
				if m[sh] != 0 {
					return nil, nil, fmt.Errorf("row %d of field %c has columns in shard %d", row, field, sh)
				}
				continue
			}
			subs = append(subs, vc29Sub{Obj: fmt.Sprintf("%c%d", field, sh), Kind: "row", Row: row})
			outs = append(outs, vc29SubOut{Mask: m[sh]})
		}
		return subs, outs, nil
	}
	switch r.Kind {
	case "set", "clear":
		name, kind := "Set", "setBit"
		if r.Kind == "clear" {
			name, kind = "Clear", "clearBit"
		}
		res, err := q(fmt.Sprintf("%s(%d, f=%d)", name, col, r.Row))
		if err != nil {
			return nil, nil, err
		}
		return one(vc29Sub{Obj: objF, Kind: kind, Row: r.Row, Col: r.Col}, vc29SubOut{Changed: res.(bool)})
	case "setT":
		pql := fmt.Sprintf("Set(%d, t=%d", col, r.Row)
		if ts := vc29TSPool[r.TS]; ts != "" {
			pql += ", " + ts
		}
		res, err := q(pql + ")")
		if err != nil {
			return nil, nil, err
		}
		// with a timestamp "changed" also reflects the time views: only constrain it without one
		return one(vc29Sub{Obj: objT, Kind: "setBit", Row: r.Row, Col: r.Col}, vc29SubOut{Changed: res.(bool), Unchecked: vc29TSPool[r.TS] != ""})
	case "clearT":
		_, err := q(fmt.Sprintf("Clear(%d, t=%d)", col, r.Row))
		if err != nil {
			return nil, nil, err
		}
		// Field.ClearBit reports the result of the last time view it visited
		return one(vc29Sub{Obj: objT, Kind: "clearBit", Row: r.Row, Col: r.Col}, vc29SubOut{Unchecked: true})
	case "row":
		res, err := q(fmt.Sprintf("Row(f=%d)", r.Row))
		if err != nil {
			return nil, nil, err
		}
		return perShardRow('f', res, r.Row, 2)
	case "rowT":
		res, err := q(fmt.Sprintf("Row(t=%d)", r.Row))
		if err != nil {
			return nil, nil, err
		}
		return perShardRow('t', res, r.Row, 2)
	case "setM", "clearM":
		name, kind := "Set", "setMutex"
		if r.Kind == "clearM" {
			name, kind = "Clear", "clearBit"
		}
		res, err := q(fmt.Sprintf("%s(%d, m=%d)", name, col, r.Row))
		if err != nil {
			return nil, nil, err
		}
		return one(vc29Sub{Obj: fmt.Sprintf("m%d", r.Shard), Kind: kind, Row: r.Row, Col: r.Col}, vc29SubOut{Changed: res.(bool)})
	case "setB":
		res, err := q(fmt.Sprintf("Set(%d, b=%v)", col, r.Row == 1))
		if err != nil {
			return nil, nil, err
		}
		return one(vc29Sub{Obj: fmt.Sprintf("b%d", r.Shard), Kind: "setMutex", Row: r.Row, Col: r.Col}, vc29SubOut{Changed: res.(bool)})
	case "rowM":
		res, err := q(fmt.Sprintf("Row(m=%d)", r.Row))
		if err != nil {
			return nil, nil, err
		}
		return perShardRow('m', res, r.Row, 2)
	case "rowB":
		res, err := q(fmt.Sprintf("Row(b=%v)", r.Row == 1))
		if err != nil {
			return nil, nil, err
		}
		return perShardRow('b', res, r.Row, 2)
	case "setKeyed":
		// the first-ever column key of a fresh keyed index and the first-ever row key of its field
		res, err := n.vgcQuery(vc29KeyedIndex(index, r.KIdx), fmt.Sprintf("Set(%q, kf=%q)", r.CKey, r.RKey))
		if err != nil {
			return nil, nil, fmt.Errorf("Set(%q, kf=%q): %v", r.CKey, r.RKey, err)
		}
		if len(res) != 1 || res[0] != true {
			return nil, nil, fmt.Errorf("Set(%q, kf=%q) with a column key and a row key nobody else uses returned %v, want true (the bit cannot be set already)", r.CKey, r.RKey, res)
		}
		return nil, nil, nil
	case "setG":
		// field g has no fragment until the clients create them
		res, err := q(fmt.Sprintf("Set(%d, g=%d)", col, r.Row))
		if err != nil {
			return nil, nil, err
		}
		return one(vc29Sub{Obj: fmt.Sprintf("g%d", r.Shard), Kind: "setBit", Row: r.Row, Col: r.Col}, vc29SubOut{Changed: res.(bool)})
	case "rowG":
		res, err := q(fmt.Sprintf("Row(g=%d)", r.Row))
		if err != nil {
			return nil, nil, err
		}
		return perShardRow('g', res, r.Row, vc29MaxShards)
	case "setTNew":
		// a timestamp nobody used before: the time views and their fragments are created by this request
		res, err := q(fmt.Sprintf("Set(%d, t=%d, %d-01-01T00:00)", col, r.Row, 2030+r.TS))
		if err != nil {
			return nil, nil, err
		}
		_ = res
		return one(vc29Sub{Obj: objT, Kind: "setBit", Row: r.Row, Col: r.Col}, vc29SubOut{Unchecked: true})
	case "rowsWithCol":
		res, err := q(fmt.Sprintf("Rows(field=f, column=%d)", col))
		if err != nil {
			return nil, nil, err
		}
		ids, ok := res.(RowIdentifiers)
		if !ok {
			return nil, nil, fmt.Errorf("Rows result is %T", res)
		}
		var m uint8
		for _, id := range ids.Rows {
			if id > 1 {
				return nil, nil, fmt.Errorf("Rows returned row %d", id)
			}
			m |= 1 << id
		}
		return one(vc29Sub{Obj: objF, Kind: "rowsWithCol", Col: r.Col}, vc29SubOut{Mask: m})
	case "store":
		if _, err := q(fmt.Sprintf("Store(Row(c=%d), f=%d)", r.Mask, r.Row)); err != nil {
			return nil, nil, err
		}
		cols := []uint8{0, 1, 3}[r.Mask]
		return []vc29Sub{{Obj: "f0", Kind: "setRow", Row: r.Row, Mask: cols}, {Obj: "f1", Kind: "setRow", Row: r.Row, Mask: cols}},
			[]vc29SubOut{{Unchecked: true}, {Unchecked: true}}, nil
	case "clearRow":
		if _, err := q(fmt.Sprintf("ClearRow(f=%d)", r.Row)); err != nil {
			return nil, nil, err
		}
		return []vc29Sub{{Obj: "f0", Kind: "clearRow", Row: r.Row}, {Obj: "f1", Kind: "clearRow", Row: r.Row}},
			[]vc29SubOut{{Unchecked: true}, {Unchecked: true}}, nil
	case "import", "importClear", "roaring", "roaringClear":
		var rows, cols []uint64
		bm := roaring.NewBitmap()
		for rr := uint64(0); rr < 2; rr++ {
			for cc := uint64(0); cc < 2; cc++ {
				if r.Mask&vc29b(rr, cc) != 0 {
					rows = append(rows, rr)
					cols = append(cols, vc29AbsCol(r.Shard, cc))
					bm.DirectAdd(rr*ShardWidth + cc)
				}
			}
		}
		clear := r.Kind == "importClear" || r.Kind == "roaringClear"
		var err error
		if strings.HasPrefix(r.Kind, "import") {
			err = n.API.Import(ctx, &ImportRequest{Index: index, Field: "f", Shard: r.Shard, RowIDs: rows, ColumnIDs: cols}, OptImportOptionsClear(clear))
		} else {
			var buf bytes.Buffer
			if _, err = bm.WriteTo(&buf); err == nil {
				err = n.API.ImportRoaring(ctx, index, "f", r.Shard, false, &ImportRoaringRequest{Clear: clear, Views: map[string][]byte{"": buf.Bytes()}})
			}
		}
		if err != nil {
			return nil, nil, fmt.Errorf("%s: %v", r.String(), err)
		}
		kind := "setMask"
		if clear {
			kind = "clearMask"
		}
		return one(vc29Sub{Obj: objF, Kind: kind, Mask: r.Mask & 0xF}, vc29SubOut{})
	case "setV":
		res, err := q(fmt.Sprintf("Set(%d, v=%d)", col, vc29IntPool[r.Val]))
		if err != nil {
			return nil, nil, err
		}
		return one(vc29Sub{Obj: objV, Kind: "setV", Col: r.Col, Val: r.Val}, vc29SubOut{Changed: res.(bool)})
	case "valueV":
		fld := n.Server.holder.Field(index, "v")
		v, exists, err := fld.Value(col)
		if err != nil {
			return nil, nil, fmt.Errorf("Field.Value(%d): %v", col, err)
		}
		code := 0
		if exists {
			code = -1
			for i, p := range vc29IntPool {
				if p == v {
					code = i + 1
				}
			}
		}
		return one(vc29Sub{Obj: objV, Kind: "valueV", Col: r.Col}, vc29SubOut{Val: code})
	case "eqV":
		res, err := q(fmt.Sprintf("Row(v == %d)", vc29IntPool[r.Val]))
		if err != nil {
			return nil, nil, err
		}
		rw, ok := res.(*Row)
		if !ok {
			return nil, nil, fmt.Errorf("result is %T, want *Row", res)
		}
		m, err := vc29RowMasks(rw.Columns())
		if err != nil {
			return nil, nil, err
		}
		unchecked := vkit.Open("DC5")
		if unchecked {
			vkit.Excluded("DC5")
		}
		return []vc29Sub{{Obj: "v0", Kind: "eqV", Val: r.Val}, {Obj: "v1", Kind: "eqV", Val: r.Val}},
			[]vc29SubOut{{Mask: m[0], Unchecked: unchecked}, {Mask: m[1], Unchecked: unchecked}}, nil
	case "count":
		_, err := q(fmt.Sprintf("Count(Row(f=%d))", r.Row))
		return nil, nil, err
	case "topn":
		_, err := q("TopN(f, n=2)")
		return nil, nil, err
	case "sum":
		_, err := q("Sum(field=v)")
		return nil, nil, err
	case "recalc":
		return nil, nil, n.API.RecalculateCaches(ctx)
	case "flushCaches":
		// what Holder.monitorCacheFlush does on every tick
		n.Server.holder.flushCaches()
		return nil, nil, nil
	}
	return nil, nil, fmt.Errorf("unknown request kind %q", r.Kind)
}

var vc29ReqKinds = []string{
	"set", "set", "set", "clear", "clear", "row", "row", "rowsWithCol", "store", "clearRow",
	"import", "importClear", "roaring", "roaringClear",
	"setT", "setT", "clearT", "rowT",
	"setV", "setV", "valueV", "eqV",
	"count", "topn", "sum", "recalc", "flushCaches", "flushCaches",
	"setG", "rowG",
	"setM", "setM", "setM", "clearM", "rowM", "setB", "setB", "setB", "rowB",
}

func vc29GenReq(t *rapid.T) vc29Req {
	kinds := vc29ReqKinds
	if k := os.Getenv("VERIF_C29_KINDS"); k != "" { // development aid: restrict the request kinds
		kinds = strings.Split(k, ",")
	}
	r := vc29Req{Kind: rapid.SampledFrom(kinds).Draw(t, "kind")}
	r.Row = uint64(rapid.IntRange(0, 1).Draw(t, "row"))
	r.Shard = uint64(rapid.IntRange(0, 1).Draw(t, "shard"))
	r.Col = uint64(rapid.IntRange(0, 1).Draw(t, "col"))
	switch r.Kind {
	case "import", "importClear", "roaring", "roaringClear":
		r.Mask = uint8(rapid.IntRange(1, 15).Draw(t, "mask"))
	case "store":
		r.Mask = uint8(rapid.IntRange(0, 2).Draw(t, "src"))
	case "setT":
		r.TS = rapid.IntRange(0, len(vc29TSPool)-1).Draw(t, "ts")
	case "setV", "eqV":
		r.Val = rapid.IntRange(0, len(vc29IntPool)-1).Draw(t, "val")
	case "setG":
		r.Shard = uint64(rapid.IntRange(0, vc29MaxShards-1).Draw(t, "gShard"))
	}
	r.Delay = rapid.SampledFrom([]int{0, 0, 0, 1, 2, 3, 4, 6}).Draw(t, "delay")
	return r
}

func vc29FormatApiHistory(recs []vc29ApiRec, obj string) string {
	sort.Slice(recs, func(i, j int) bool { return recs[i].Call < recs[j].Call })
	var b strings.Builder
	for _, r := range recs {
		for i, s := range r.Subs {
			if s.Obj != obj {
				continue
			}
			o := r.Outs[i]
			fmt.Fprintf(&b, "  [%d,%d] client %d: %s => %s", r.Call, r.Return, r.Client, r.Req.String(), s.Kind)
			if o.Unchecked {
				b.WriteString(" (result not constrained)\n")
			} else {
				fmt.Fprintf(&b, " changed=%v mask=%02b val=%d\n", o.Changed, o.Mask, o.Val)
			}
		}
	}
	return b.String()
}

const vc29NKeyed = 4

func vc29KeyedIndex(index string, i int) string { return fmt.Sprintf("%sk%d", index, i) }

// vc29CheckKeyed verifies the keyed indexes after the workload: every client
// used its own column key and row key per index, so distinct keys must have
// distinct ids, both directions of the translate store must agree, and
// Row(kf=<row key>) must return exactly the client's column key.
func vc29CheckKeyed(n *vgcNode, index string, i int, clients []int) error {
	kidx := vc29KeyedIndex(index, i)
	tf := n.Server.holder.translateFile
	colIDs, rowIDs := map[uint64]string{}, map[uint64]string{}
	for _, c := range clients {
		ck, rk := fmt.Sprintf("c%d-%d", i, c), fmt.Sprintf("r%d-%d", i, c)
		tf.mu.RLock()
		var cid, rid uint64
		var cok, rok bool
		var cback, rback []byte
		if idx := tf.cols[kidx]; idx != nil {
			if cid, cok = idx.idByKey([]byte(ck)); cok {
				cback, _ = idx.keyByID(cid)
			}
		}
		if idx := tf.rows[fieldKey{kidx, "kf"}]; idx != nil {
			if rid, rok = idx.idByKey([]byte(rk)); rok {
				rback, _ = idx.keyByID(rid)
			}
		}
		tf.mu.RUnlock()
		if !cok || !rok {
			return fmt.Errorf("index %s: after Set(%q, kf=%q) was acknowledged the translate store knows the column key: %v, the row key: %v", kidx, ck, rk, cok, rok)
		}
		if other, dup := colIDs[cid]; dup {
			return fmt.Errorf("index %s: column keys %q and %q were both given id %d", kidx, other, ck, cid)
		}
		if other, dup := rowIDs[rid]; dup {
			return fmt.Errorf("index %s field kf: row keys %q and %q were both given id %d", kidx, other, rk, rid)
		}
		colIDs[cid], rowIDs[rid] = ck, rk
		if string(cback) != ck || string(rback) != rk {
			return fmt.Errorf("index %s: column key %q -> id %d -> %q, row key %q -> id %d -> %q", kidx, ck, cid, cback, rk, rid, rback)
		}
		res, err := n.vgcQuery(kidx, fmt.Sprintf("Row(kf=%q)", rk))
		if err != nil {
			return fmt.Errorf("index %s: Row(kf=%q): %v", kidx, rk, err)
		}
		row, ok := res[0].(*Row)
		if !ok || len(row.Keys) != 1 || row.Keys[0] != ck {
			var keys []string
			if ok {
				keys = row.Keys
			}
			return fmt.Errorf("index %s: Row(kf=%q) returns column keys %q, want exactly [%q] (each client set one bit with keys of its own)", kidx, rk, keys, ck)
		}
	}
	return nil
}

// vc29Barrier is a reusable spin barrier: the opening burst makes all clients
// issue their request for a shard that has no fragment yet at the same moment.
type vc29Barrier struct {
	n, count, gen int32
}

func (b *vc29Barrier) wait() {
	g := atomic.LoadInt32(&b.gen)
	if atomic.AddInt32(&b.count, 1) == b.n {
		atomic.StoreInt32(&b.count, 0)
		atomic.AddInt32(&b.gen, 1)
		return
	}
	for atomic.LoadInt32(&b.gen) == g {
		runtime.Gosched()
	}
}

func TestVerifC29_API(t *testing.T) {
	defer vkit.Flush()
	work := vc29WorkDir()
	defer os.RemoveAll(work)
	defer runtime.GOMAXPROCS(runtime.GOMAXPROCS(0))
	node, err := vgcOpenNode(filepath.Join(work, "data"))
	if err != nil {
		vc29Die("open node: %v", err)
	}
	defer node.Close()
	ctx := context.Background()
	seq := 0
	rapid.Check(t, func(t *rapid.T) {
		seq++
		nClients := rapid.IntRange(2, 8).Draw(t, "clients")
		procs := rapid.SampledFrom([]int{1, 2, 4, 16}).Draw(t, "gomaxprocs")
		maxOpN := rapid.SampledFrom([]int{2, 5, 20, 0}).Draw(t, "maxOpN")
		caches := []string{CacheTypeRanked, CacheTypeLRU, CacheTypeLRU, CacheTypeNone}
		fCache := rapid.SampledFrom(caches).Draw(t, "cacheF")
		gCache := rapid.SampledFrom(caches).Draw(t, "cacheG")
		mCache := rapid.SampledFrom(caches).Draw(t, "cacheM")
		plans := make([][]vc29Req, nClients)
		var key strings.Builder
		fmt.Fprintf(&key, "p%d m%d %s %s %s", procs, maxOpN, fCache, gCache, mCache)
		// opening burst: every client sends its first write to the same shard of
		// field g (no fragment yet) / to a time view of t that does not exist yet,
		// step by step behind a barrier
		nBurst := rapid.IntRange(2, 6).Draw(t, "burstSteps")
		burst := make([]vc29Req, nBurst)
		for i := range burst {
			burst[i] = vc29Req{Kind: "setG", Shard: uint64(i), Burst: true}
			if i >= 2 && rapid.IntRange(0, 2).Draw(t, "burstOnTime") == 0 {
				burst[i] = vc29Req{Kind: "setTNew", Shard: uint64(rapid.IntRange(0, 1).Draw(t, "burstShard")), TS: i, Burst: true}
			}
		}
		for c := range plans {
			n := rapid.IntRange(10, 40).Draw(t, "nOps")
			key.WriteString("|")
			for i := 0; i < vc29NKeyed; i++ {
				kr := vc29Req{Kind: "setKeyed", Burst: true, KIdx: i, CKey: fmt.Sprintf("c%d-%d", i, c), RKey: fmt.Sprintf("r%d-%d", i, c)}
				plans[c] = append(plans[c], kr)
			}
			for _, b := range burst {
				b.Row = uint64(rapid.IntRange(0, 1).Draw(t, "burstRow"))
				b.Col = uint64(rapid.IntRange(0, 1).Draw(t, "burstCol"))
				plans[c] = append(plans[c], b)
				fmt.Fprintf(&key, "%s ", b.String())
			}
			for i := 0; i < n; i++ {
				r := vc29GenReq(t)
				if r.Kind == "topn" && fCache == CacheTypeNone {
					r.Kind = "count" // TopN is refused on a field without cache
				}
				plans[c] = append(plans[c], r)
				fmt.Fprintf(&key, "%s/%d ", r.String(), r.Delay)
			}
		}
		cs := vkit.NewCase().Key(key.String())
		defer cs.Done()

		// fresh index on the long-lived node
		index := fmt.Sprintf("c%d", seq)
		if _, err := node.API.CreateIndex(ctx, index, IndexOptions{TrackExistence: false}); err != nil {
			t.Fatalf("create index: %v", err)
		}
		defer node.API.DeleteIndex(ctx, index)
		for _, f := range []struct {
			name string
			opt  FieldOption
		}{{"f", OptFieldTypeSet(fCache, 100)}, {"c", OptFieldTypeSet(CacheTypeRanked, 100)}, {"g", OptFieldTypeSet(gCache, 100)},
			{"m", OptFieldTypeMutex(mCache, 100)}, {"b", OptFieldTypeBool()},
			{"t", OptFieldTypeTime(TimeQuantum("YMD"))}, {"v", OptFieldTypeInt(-1000, 1000)}} {
			if _, err := node.API.CreateField(ctx, index, f.name, f.opt); err != nil {
				t.Fatalf("create field %s: %v", f.name, err)
			}
		}
		// fresh keyed indexes: no column key, no row key yet
		for i := 0; i < vc29NKeyed; i++ {
			kidx := vc29KeyedIndex(index, i)
			if _, err := node.API.CreateIndex(ctx, kidx, IndexOptions{Keys: true}); err != nil {
				t.Fatalf("create keyed index: %v", err)
			}
			defer node.API.DeleteIndex(ctx, kidx)
			if _, err := node.API.CreateField(ctx, kidx, "kf", OptFieldTypeSet(CacheTypeRanked, 100), OptFieldKeys()); err != nil {
				t.Fatalf("create keyed field: %v", err)
			}
		}
		// constant source rows of Store, and one touch of every (field, shard) so
		// that the fragments exist (their snapshot threshold is lowered below).
		// Initial state: f, t empty; v column 0 of each shard holds 1.
		var setup strings.Builder
		for sh := uint64(0); sh < 2; sh++ {
			c0, c1 := vc29AbsCol(sh, 0), vc29AbsCol(sh, 1)
			fmt.Fprintf(&setup, "Set(%d, c=1) Set(%d, c=2) Set(%d, c=2) ", c0, c0, c1)
			fmt.Fprintf(&setup, "Set(%d, f=0) Clear(%d, f=0) Set(%d, t=0) Clear(%d, t=0) Set(%d, v=1) Set(%d, m=0) Clear(%d, m=0) Set(%d, b=false) Clear(%d, b=false) ", c0, c0, c0, c0, c0, c0, c0, c0, c0)
		}
		if vkit.Open("D28") {
			// open finding D28: growing the int field's bit depth races with every
			// reader of it. Steer around exactly that: grow the depth to what the
			// value pool needs before the clients start, so that no request changes it.
			fmt.Fprintf(&setup, "Set(0, v=300) Set(0, v=1)")
			vkit.Excluded("D28")
		}
		if _, err := node.vgcQuery(index, setup.String()); err != nil {
			t.Fatalf("setup: %v", err)
		}
		if maxOpN > 0 {
			for _, f := range vgcAllFragments(node.Server.holder) {
				if f.index == index {
					f.mu.Lock()
					f.MaxOpN = maxOpN
					f.mu.Unlock()
				}
			}
		}
		inits := map[string]uint8{"f0": 0, "f1": 0, "t0": 0, "t1": 0, "v0": 2, "v1": 2}

		runtime.GOMAXPROCS(procs)
		var clock int64
		barrier := &vc29Barrier{n: int32(nClients)}
		recs := make([][]vc29ApiRec, nClients)
		errs := make([]error, nClients)
		var wg sync.WaitGroup
		start := make(chan struct{})
		for c := 0; c < nClients; c++ {
			wg.Add(1)
			go func(c int) {
				defer wg.Done()
				<-start
				for _, r := range plans[c] {
					if r.Burst {
						barrier.wait()
					}
					if errs[c] != nil {
						continue // keep serving the barrier
					}
					vc29Delay(r.Delay)
					call := atomic.AddInt64(&clock, 1)
					subs, outs, err := vc29Do(node, index, r)
					ret := atomic.AddInt64(&clock, 1)
					if err != nil {
						errs[c] = err
						continue
					}
					recs[c] = append(recs[c], vc29ApiRec{Client: c, Req: r, Subs: subs, Outs: outs, Call: call, Return: ret})
				}
			}(c)
		}
		done := make(chan struct{})
		go func() { wg.Wait(); close(done) }()
		close(start)
		vc29Await(done, &clock, 300*time.Second, "TestVerifC29_API", key.String())
		for c, err := range errs {
			if err != nil {
				t.Fatalf("C29 violated: client %d: a valid request failed: %v (GOMAXPROCS=%d; requests marked burst are issued by all clients at the same moment)\nplan of the client: %v", c, err, procs, plans[c])
			}
		}
		clientIDs := make([]int, nClients)
		for c := range clientIDs {
			clientIDs[c] = c
		}
		for i := 0; i < vc29NKeyed; i++ {
			if err := vc29CheckKeyed(node, index, i, clientIDs); err != nil {
				t.Fatalf("C29 violated: key translation is not consistent with any sequential order of the %d concurrent first-ever Set calls (GOMAXPROCS=%d): %v", nClients, procs, err)
			}
		}
		var all []vc29ApiRec
		for _, rs := range recs {
			all = append(all, rs...)
		}
		// final reads after every client returned
		for _, r := range []vc29Req{{Kind: "row", Row: 0}, {Kind: "row", Row: 1}, {Kind: "rowT", Row: 0}, {Kind: "rowT", Row: 1}, {Kind: "rowG", Row: 0}, {Kind: "rowG", Row: 1}, {Kind: "rowM", Row: 0}, {Kind: "rowM", Row: 1}, {Kind: "rowB", Row: 0}, {Kind: "rowB", Row: 1},
			{Kind: "valueV", Shard: 0, Col: 0}, {Kind: "valueV", Shard: 0, Col: 1}, {Kind: "valueV", Shard: 1, Col: 0}, {Kind: "valueV", Shard: 1, Col: 1}} {
			call := atomic.AddInt64(&clock, 1)
			subs, outs, err := vc29Do(node, index, r)
			ret := atomic.AddInt64(&clock, 1)
			if err != nil {
				t.Fatalf("final read %s: %v", r.String(), err)
			}
			all = append(all, vc29ApiRec{Client: nClients, Req: r, Subs: subs, Outs: outs, Call: call, Return: ret})
		}
		// no column of a mutex/bool field may end up with two rows
		finalMask := map[string][2]uint8{} // object -> mask of row 0, row 1
		for _, r := range all {
			if r.Client != nClients || (r.Req.Kind != "rowM" && r.Req.Kind != "rowB") {
				continue
			}
			for i, sub := range r.Subs {
				m := finalMask[sub.Obj]
				m[r.Req.Row] = r.Outs[i].Mask
				finalMask[sub.Obj] = m
			}
		}
		for obj, m := range finalMask {
			if m[0]&m[1] != 0 {
				t.Fatalf("C29 violated: object %s (mutex/bool field %c, shard %c) ends with a column that holds two rows: row 0 = %02b, row 1 = %02b (GOMAXPROCS=%d)\n%s", obj, obj[0], obj[1], m[0], m[1], procs, vc29FormatApiHistory(all, obj))
			}
		}
		overlap := false
		objs := []string{"f0", "f1", "t0", "t1", "v0", "v1", "m0", "m1", "b0", "b1"}
		for sh := 0; sh < vc29MaxShards; sh++ {
			objs = append(objs, fmt.Sprintf("g%d", sh))
		}
		for _, obj := range objs {
			var ops []porcupine.Operation
			type iv struct {
				c, r   int64
				client int
				w      bool
			}
			var ivs []iv
			for _, r := range all {
				for i, s := range r.Subs {
					if s.Obj != obj {
						continue
					}
					ops = append(ops, porcupine.Operation{ClientId: r.Client, Input: s, Call: r.Call, Output: r.Outs[i], Return: r.Return})
					ivs = append(ivs, iv{r.Call, r.Return, r.Client, strings.HasPrefix(s.Kind, "set") || strings.HasPrefix(s.Kind, "clear")})
				}
			}
			for i := range ivs {
				for j := i + 1; j < len(ivs); j++ {
					if ivs[i].client != ivs[j].client && ivs[i].r >= ivs[j].c && ivs[j].r >= ivs[i].c && (ivs[i].w || ivs[j].w) {
						overlap = true
					}
				}
			}
			switch porcupine.CheckOperationsTimeout(vc29ObjModel(obj, inits[obj]), ops, 60*time.Second) {
			case porcupine.Illegal:
				t.Fatalf("C29 violated: the history of object %s (field %c, shard %c) is not linearizable (GOMAXPROCS=%d, MaxOpN=%d, initial state %d; the requests of client %d ran after all others finished)\n%s",
					obj, obj[0], obj[1], procs, maxOpN, inits[obj], nClients, vc29FormatApiHistory(all, obj))
			case porcupine.Unknown:
				vkit.Count("porcupine_timeout", 1)
			}
		}
		cs.Class(fmt.Sprintf("clients:%d", nClients)).Class(fmt.Sprintf("gomaxprocs:%d", procs)).Class("cacheF:" + fCache).Class("cacheM:" + mCache)
		cs.NT(overlap)
		cs.Sample(map[string]interface{}{"clients": nClients, "gomaxprocs": procs, "maxOpN": maxOpN, "requests_client0": len(plans[0])})
	})
}
