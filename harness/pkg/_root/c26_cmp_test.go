package pilosa

// C26 — typed comparison of pql calls (copy of the comparison half of harness/pkg/pql/gp_pqlgen_test.go for package pilosa;
// generated from it, keep in sync).

import (
	"fmt"
	"math"
	"sort"
	"strconv"
	"strings"

	"github.com/pilosa/pilosa/pql"
)

// ---- comparison

func vc26rDump(c *pql.Call) string {
	if c == nil {
		return "<nil call>"
	}
	var sb strings.Builder
	sb.WriteString(c.Name + "{")
	keys := make([]string, 0, len(c.Args))
	for k := range c.Args {
		keys = append(keys, k)
	}
	sort.Strings(keys)
	for _, k := range keys {
		sb.WriteString(k + ":" + vc26rDumpVal(c.Args[k]) + " ")
	}
	for _, ch := range c.Children {
		sb.WriteString("child:" + vc26rDump(ch) + " ")
	}
	sb.WriteString("}")
	return sb.String()
}

func vc26rDumpVal(v interface{}) string {
	switch v := v.(type) {
	case *pql.Call:
		return vc26rDump(v)
	case *pql.Condition:
		if v == nil {
			return "<nil cond>"
		}
		return fmt.Sprintf("cond(%s %s)", v.Op, vc26rDumpVal(v.Value))
	case []interface{}:
		s := "["
		for _, e := range v {
			s += vc26rDumpVal(e) + ","
		}
		return s + "]"
	case string:
		return fmt.Sprintf("string(%q)", v)
	case float64:
		return fmt.Sprintf("float64(%s)", strconv.FormatFloat(v, 'g', -1, 64))
	default:
		return fmt.Sprintf("%T(%v)", v, v)
	}
}

func vc26rAsInt(v interface{}) (neg bool, mag uint64, ok bool) {
	switch v := v.(type) {
	case int64:
		if v < 0 {
			return true, uint64(-(v + 1)) + 1, true
		}
		return false, uint64(v), true
	case uint64:
		return false, v, true
	}
	return false, 0, false
}

func vc26rAsIntList(v interface{}) ([]interface{}, bool) {
	switch v := v.(type) {
	case []int64:
		out := make([]interface{}, len(v))
		for i := range v {
			out[i] = v[i]
		}
		return out, true
	case []uint64:
		out := make([]interface{}, len(v))
		for i := range v {
			out[i] = v[i]
		}
		return out, true
	case []interface{}:
		return v, true
	}
	return nil, false
}

// vc26rEqVal compares want (expected) with got in type and value. identInts: int64/uint64 of equal value
// (and []int64 / []uint64 / lists of such) are identified, as every consumer reads them through
// UintArg/IntArg/UintSliceArg/validateCallArgs.
func vc26rEqVal(want, got interface{}, identInts bool, path string) error {
	mismatch := func() error {
		return fmt.Errorf("%s: want %s, got %s", path, vc26rDumpVal(want), vc26rDumpVal(got))
	}
	switch w := want.(type) {
	case nil:
		if got != nil {
			return mismatch()
		}
	case bool:
		if g, ok := got.(bool); !ok || g != w {
			return mismatch()
		}
	case string:
		if g, ok := got.(string); !ok || g != w {
			return mismatch()
		}
	case int64, uint64:
		if identInts {
			n1, m1, _ := vc26rAsInt(want)
			n2, m2, ok := vc26rAsInt(got)
			if !ok || n1 != n2 || m1 != m2 {
				return mismatch()
			}
		} else if want != got { // interface comparison: same dynamic type and value
			return mismatch()
		}
	case float64:
		if g, ok := got.(float64); !ok || math.Float64bits(g) != math.Float64bits(w) {
			return mismatch()
		}
	case []interface{}, []int64, []uint64:
		if !identInts {
			if _, ok := want.([]interface{}); !ok {
				return fmt.Errorf("%s: unexpected expected-value type %T", path, want)
			}
			if _, ok := got.([]interface{}); !ok {
				return mismatch()
			}
		}
		wl, _ := vc26rAsIntList(want)
		gl, ok := vc26rAsIntList(got)
		if !ok || len(wl) != len(gl) {
			return mismatch()
		}
		for i := range wl {
			if err := vc26rEqVal(wl[i], gl[i], identInts, fmt.Sprintf("%s[%d]", path, i)); err != nil {
				return err
			}
		}
	case *pql.Condition:
		g, ok := got.(*pql.Condition)
		if !ok || g == nil || w == nil || g.Op != w.Op {
			return mismatch()
		}
		if w.Value == "overflow" && w.Op == pql.BETWEEN {
			// `a < f < b` whose exclusive bound does not exist in int64: no value satisfies it
			l, ok := g.Value.([]interface{})
			if !ok || len(l) != 2 {
				return mismatch()
			}
			lo, ok1 := l[0].(int64)
			hi, ok2 := l[1].(int64)
			if !ok1 || !ok2 || lo <= hi {
				return fmt.Errorf("%s: unsatisfiable conditional was parsed as the satisfiable range %s", path, vc26rDumpVal(got))
			}
			return nil
		}
		return vc26rEqVal(w.Value, g.Value, identInts, path+".cond")
	case *pql.Call:
		g, ok := got.(*pql.Call)
		if !ok {
			return mismatch()
		}
		return vc26rEqCall(w, g, identInts, path)
	default:
		return fmt.Errorf("%s: unexpected expected-value type %T", path, want)
	}
	return nil
}

func vc26rEqCall(want, got *pql.Call, identInts bool, path string) error {
	if want == nil || got == nil {
		if want != got {
			return fmt.Errorf("%s: want %s, got %s", path, vc26rDump(want), vc26rDump(got))
		}
		return nil
	}
	path += "/" + want.Name
	if want.Name != got.Name {
		return fmt.Errorf("%s: call name: want %q, got %q", path, want.Name, got.Name)
	}
	if len(want.Args) != len(got.Args) {
		return fmt.Errorf("%s: %d args wanted, got %d: want %s, got %s", path, len(want.Args), len(got.Args), vc26rDump(want), vc26rDump(got))
	}
	keys := make([]string, 0, len(want.Args))
	for k := range want.Args {
		keys = append(keys, k)
	}
	sort.Strings(keys)
	for _, k := range keys {
		gv, ok := got.Args[k]
		if !ok {
			return fmt.Errorf("%s: argument %q missing: want %s, got %s", path, k, vc26rDump(want), vc26rDump(got))
		}
		if err := vc26rEqVal(want.Args[k], gv, identInts, path+"."+k); err != nil {
			return err
		}
	}
	if len(want.Children) != len(got.Children) {
		return fmt.Errorf("%s: %d children wanted, got %d: want %s, got %s", path, len(want.Children), len(got.Children), vc26rDump(want), vc26rDump(got))
	}
	for i := range want.Children {
		if err := vc26rEqCall(want.Children[i], got.Children[i], identInts, fmt.Sprintf("%s#%d", path, i)); err != nil {
			return err
		}
	}
	return nil
}

func vc26rEqCalls(want, got []*pql.Call, identInts bool) error {
	if len(want) != len(got) {
		return fmt.Errorf("%d calls wanted, got %d", len(want), len(got))
	}
	for i := range want {
		if err := vc26rEqCall(want[i], got[i], identInts, fmt.Sprintf("call%d", i)); err != nil {
			return err
		}
	}
	return nil
}
