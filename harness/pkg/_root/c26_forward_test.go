package pilosa

// C26 — forward direction: a call as it exists after the executor's front half
// (translateCalls: keys -> uint64 ids, bool -> row id; validateCallArgs: ids -> []int64;
// TopN refetch: ids -> []uint64) is sent to peers as Call.String(); parsing that text must
// give the same call (int64/uint64 of equal value identified, as UintArg/IntArg do).

import (
	"fmt"
	"sort"
	"strconv"
	"strings"
	"testing"

	"github.com/pilosa/pilosa/internal/vkit"
	"github.com/pilosa/pilosa/pql"
	"pgregory.net/rapid"
)

type vc26fEnv struct {
	e   *executor
	idx map[string]*Index
}

func vc26fSetup(t *testing.T) *vc26fEnv {
	e := &executor{Holder: NewHolder()}
	e.Holder.Path = t.TempDir()
	if err := e.Holder.Open(); err != nil {
		t.Fatalf("opening holder: %v", err)
	}
	e.TranslateStore = e.Holder.translateFile
	e.Holder.translateFile.Path = t.TempDir() + "/keys"
	if err := e.Holder.translateFile.Open(); err != nil {
		t.Fatalf("opening translateFile: %v", err)
	}
	env := &vc26fEnv{e: e, idx: map[string]*Index{}}
	for _, name := range []string{"i", "ik"} {
		idx, err := e.Holder.CreateIndex(name, IndexOptions{Keys: name == "ik"})
		if err != nil {
			t.Fatalf("creating index: %v", err)
		}
		env.idx[name] = idx
		mk := func(f string, opts ...FieldOption) {
			if _, err := idx.CreateField(f, opts...); err != nil {
				t.Fatalf("creating field %s: %v", f, err)
			}
		}
		mk("f")
		mk("g")
		mk("fk", OptFieldKeys())
		mk("b", OptFieldTypeBool())
		mk("n", OptFieldTypeInt(-1000, 1000))
		mk("t", OptFieldTypeTime("YMD"))
	}
	t.Cleanup(func() {
		e.Holder.translateFile.Close()
		e.Holder.Close()
	})
	return env
}

type vc26fGen struct {
	t     *rapid.T
	keys  bool // index has column keys
	feats map[string]bool
}

func (g *vc26fGen) feat(s string) { g.feats[s] = true }

var vc26fKeyPool = []string{"a", "b", "\xff\xfe", "a\x80b", "key one", "é", "ünï", "日本", "😀", "it's", `q"uote`, `back\slash`, "line\nbreak", "null", "1"}

func (g *vc26fGen) str() string {
	if rapid.IntRange(0, 3).Draw(g.t, "spool") > 0 {
		return rapid.SampledFrom(vc26fKeyPool).Draw(g.t, "skey")
	}
	s := rapid.String().Draw(g.t, "sany")
	if s == "" {
		s = "z"
	}
	return s
}

func (g *vc26fGen) col() string {
	if g.keys {
		g.feat("colkey")
		return strconv.Quote(g.str())
	}
	return strconv.FormatUint(uint64(rapid.IntRange(0, 3*ShardWidth).Draw(g.t, "col")), 10)
}

func (g *vc26fGen) setField() string {
	return rapid.SampledFrom([]string{"f", "g", "fk", "fk", "b", "t"}).Draw(g.t, "field")
}

func (g *vc26fGen) row(field string) string {
	switch field {
	case "fk":
		g.feat("rowkey")
		return strconv.Quote(g.str())
	case "b":
		g.feat("boolrow")
		return rapid.SampledFrom([]string{"true", "false"}).Draw(g.t, "brow")
	default:
		return strconv.FormatUint(uint64(rapid.IntRange(0, 1000).Draw(g.t, "row")), 10)
	}
}

func (g *vc26fGen) ts() string {
	return rapid.SampledFrom([]string{"2017-01-01T00:00", "2018-03-04T05:06", "1999-12-31T23:59"}).Draw(g.t, "ts")
}

func (g *vc26fGen) intv() string {
	return strconv.Itoa(rapid.IntRange(-1000, 1000).Draw(g.t, "int"))
}

func (g *vc26fGen) attrs() string {
	n := rapid.IntRange(1, 4).Draw(g.t, "nattr")
	var parts []string
	for i := 0; i < n; i++ {
		name := fmt.Sprintf("a%d", i)
		var v string
		switch rapid.IntRange(0, 5).Draw(g.t, "akind") {
		case 0:
			v = strconv.Quote(g.str())
		case 1:
			v = g.intv()
		case 2:
			v = rapid.SampledFrom([]string{"1.0", "0.5", "-2.25", "1000000000000000000000.0", "0.000001", "3.", ".5", "123456789.125", "-0.0", "0.1"}).Draw(g.t, "afloat")
			g.feat("attr:float")
		case 3:
			v = rapid.SampledFrom([]string{"true", "false"}).Draw(g.t, "abool")
		case 4:
			v = "null"
			g.feat("attr:null")
		default:
			v = strconv.FormatFloat(rapid.Float64().Draw(g.t, "afloat64"), 'f', -1, 64)
			if !strings.Contains(v, ".") {
				v += ".0"
			}
			g.feat("attr:float")
		}
		parts = append(parts, name+"="+v)
	}
	return strings.Join(parts, ", ")
}

// as the value of an argument (filter=...) only the generic call form is in the grammar
func (g *vc26fGen) bitmapValue(depth int) string {
	for {
		s := g.bitmap(depth)
		if !strings.HasPrefix(s, "Range(") && !strings.HasPrefix(s, "Rows(") {
			return s
		}
	}
}

func (g *vc26fGen) bitmap(depth int) string {
	k := rapid.IntRange(0, 11).Draw(g.t, "bkind")
	if depth <= 0 && k > 6 {
		k = k % 7
	}
	switch k {
	case 0, 1:
		f := g.setField()
		return "Row(" + f + "=" + g.row(f) + ")"
	case 2:
		g.feat("row:timerange")
		return "Row(t=" + g.row("t") + ", from='" + g.ts() + "', to=\"" + g.ts() + "\")"
	case 3:
		g.feat("range:legacy")
		return "Range(t=" + g.row("t") + ", " + g.ts() + ", " + g.ts() + ")"
	case 4:
		op := rapid.SampledFrom([]string{"<", "<=", ">", ">=", "==", "!="}).Draw(g.t, "op")
		g.feat("cond:" + op)
		return "Row(n " + op + " " + g.intv() + ")"
	case 5:
		if rapid.Bool().Draw(g.t, "btw") {
			g.feat("cond:><")
			return "Row(n >< [" + g.intv() + "," + g.intv() + "])"
		}
		g.feat("conditional")
		return "Row(" + g.intv() + rapid.SampledFrom([]string{" < ", " <= "}).Draw(g.t, "l1") + "n" + rapid.SampledFrom([]string{" < ", " <= "}).Draw(g.t, "l2") + g.intv() + ")"
	case 6:
		g.feat("cond:null")
		return "Row(n " + rapid.SampledFrom([]string{"!=", "=="}).Draw(g.t, "nullop") + " null)"
	case 7, 8:
		name := rapid.SampledFrom([]string{"Union", "Intersect", "Difference", "Xor"}).Draw(g.t, "setop")
		n := rapid.IntRange(1, 3).Draw(g.t, "nop")
		var parts []string
		for i := 0; i < n; i++ {
			parts = append(parts, g.bitmap(depth-1))
		}
		g.feat("nested")
		return name + "(" + strings.Join(parts, ", ") + ")"
	case 9:
		return "Not(" + g.bitmap(depth-1) + ")"
	case 10:
		return "Shift(" + g.bitmap(depth-1) + ", n=" + strconv.Itoa(rapid.IntRange(0, 3).Draw(g.t, "shift")) + ")"
	default:
		return "Rows(" + g.setField() + ")" // not a bitmap, but the parser and String() do not care
	}
}

func (g *vc26fGen) call() string {
	switch rapid.IntRange(0, 15).Draw(g.t, "ckind") {
	case 0, 1:
		f := g.setField()
		s := "Set(" + g.col() + ", " + f + "=" + g.row(f)
		if f == "t" && rapid.Bool().Draw(g.t, "hasts") {
			q := rapid.SampledFrom([]string{"", "\"", "'"}).Draw(g.t, "tsq")
			s += ", " + q + g.ts() + q
			g.feat("set:timestamp")
		}
		return s + ")"
	case 2:
		return "Set(" + g.col() + ", n=" + g.intv() + ")"
	case 3:
		f := g.setField()
		return "Clear(" + g.col() + ", " + f + "=" + g.row(f) + ")"
	case 4, 5:
		f := rapid.SampledFrom([]string{"f", "fk", "g"}).Draw(g.t, "afield")
		g.feat("SetRowAttrs")
		return "SetRowAttrs(" + f + ", " + g.row(f) + ", " + g.attrs() + ")"
	case 6:
		g.feat("SetColumnAttrs")
		return "SetColumnAttrs(" + g.col() + ", " + g.attrs() + ")"
	case 7:
		f := g.setField()
		return "ClearRow(" + f + "=" + g.row(f) + ")"
	case 8:
		f := rapid.SampledFrom([]string{"f", "fk"}).Draw(g.t, "sfield")
		g.feat("Store")
		return "Store(" + g.bitmap(1) + ", " + f + "=" + g.row(f) + ")"
	case 9, 10:
		f := rapid.SampledFrom([]string{"f", "fk", "g"}).Draw(g.t, "tfield")
		s := "TopN(" + f
		if rapid.Bool().Draw(g.t, "tsrc") {
			s += ", " + g.bitmap(1)
		}
		if rapid.Bool().Draw(g.t, "tn") {
			s += ", n=" + strconv.Itoa(rapid.IntRange(0, 10).Draw(g.t, "topn"))
		}
		if rapid.Bool().Draw(g.t, "tids") {
			n := rapid.IntRange(1, 4).Draw(g.t, "nids")
			var ids []string
			for i := 0; i < n; i++ {
				ids = append(ids, strconv.Itoa(rapid.IntRange(0, 1000).Draw(g.t, "id")))
			}
			s += ", ids=[" + strings.Join(ids, ",") + "]"
			g.feat("topn:ids")
		}
		if rapid.IntRange(0, 3).Draw(g.t, "tattr") == 0 {
			s += `, attrName="x", attrValues=["a", 1, 1.5, true, ` + strconv.Quote(g.str()) + `]`
			g.feat("topn:attrValues")
		}
		return s + ")"
	case 11:
		f := rapid.SampledFrom([]string{"f", "fk", "g"}).Draw(g.t, "rfield")
		s := "Rows(" + f
		if rapid.Bool().Draw(g.t, "rprev") {
			s += ", previous=" + g.row(f)
		}
		if rapid.Bool().Draw(g.t, "rlim") {
			s += ", limit=" + strconv.Itoa(rapid.IntRange(0, 10).Draw(g.t, "limit"))
		}
		if rapid.Bool().Draw(g.t, "rcol") {
			s += ", column=" + g.col()
		}
		g.feat("Rows")
		return s + ")"
	case 12:
		f1 := rapid.SampledFrom([]string{"f", "fk"}).Draw(g.t, "g1")
		f2 := rapid.SampledFrom([]string{"g", "fk"}).Draw(g.t, "g2")
		s := "GroupBy(Rows(" + f1 + "), Rows(" + f2 + ")"
		if rapid.Bool().Draw(g.t, "glim") {
			s += ", limit=" + strconv.Itoa(rapid.IntRange(1, 10).Draw(g.t, "limit"))
		}
		if rapid.Bool().Draw(g.t, "gfilter") {
			s += ", filter=" + g.bitmapValue(1)
			g.feat("groupby:filter")
		}
		if rapid.Bool().Draw(g.t, "gprev") {
			s += ", previous=[" + g.row(f1) + ", " + g.row(f2) + "]"
			g.feat("groupby:previous")
		}
		return s + ")"
	case 13:
		name := rapid.SampledFrom([]string{"Sum", "Min", "Max"}).Draw(g.t, "agg")
		if rapid.Bool().Draw(g.t, "aggsrc") {
			return name + "(" + g.bitmap(1) + ", field=\"n\")"
		}
		return name + "(field=\"n\")"
	case 14:
		return "Options(" + g.bitmap(1) + ", shards=[0, 2], columnAttrs=true, excludeColumns=false)"
	default:
		return "Count(" + g.bitmap(2) + ")"
	}
}

func vc26fHasType(c *pql.Call, seen map[string]bool) {
	for _, v := range c.Args {
		seen[fmt.Sprintf("argtype:%T", v)] = true
		switch v := v.(type) {
		case *pql.Condition:
			seen[fmt.Sprintf("condtype:%T", v.Value)] = true
		case *pql.Call:
			vc26fHasType(v, seen)
		}
	}
	for _, ch := range c.Children {
		vc26fHasType(ch, seen)
	}
}

func TestVerifC26_Forward(t *testing.T) {
	defer vkit.Flush()
	env := vc26fSetup(t)
	rapid.Check(t, func(t *rapid.T) {
		g := &vc26fGen{t: t, feats: map[string]bool{}}
		index := rapid.SampledFrom([]string{"i", "ik"}).Draw(t, "index")
		g.keys = index == "ik"
		n := rapid.IntRange(1, 3).Draw(t, "ncalls")
		var texts []string
		for i := 0; i < n; i++ {
			texts = append(texts, g.call())
		}
		text := strings.Join(texts, " ")
		c := vkit.NewCase().Key(index, text)
		defer c.Done()
		c.Class("index:" + index)

		q, err := pql.ParseString(text)
		if err != nil {
			t.Fatalf("generated query does not parse: %q: %v", text, err)
		}
		// the executor's front half
		if err := env.e.translateCalls(nil, index, env.idx[index], q.Calls); err != nil {
			// not a forwarding question (e.g. Rows(b) on a bool field is refused by translateCall); the query is never sent
			c.Class("translate-refused")
			return
		}
		calls := q.Calls
		for _, call := range q.Calls {
			if err := env.e.validateCallArgs(call); err != nil {
				t.Fatalf("validateCallArgs(%s): %v", call, err)
			}
		}
		// executeTopN's second pass: a clone whose ids are the []uint64 keys of the first pass
		for _, call := range q.Calls {
			if call.Name == "TopN" && rapid.Bool().Draw(t, "refetch") {
				other := call.Clone()
				ids := rapid.SliceOfN(rapid.Uint64Range(0, 1<<63-1), 1, 4).Draw(t, "refetchIDs") // never empty: executeTopN refetches only when the first pass returned pairs
				sort.Sort(uint64Slice(ids))
				other.Args["ids"] = ids
				calls = append(calls, other)
				g.feat("topn:refetch")
			}
		}
		seen := map[string]bool{}
		for _, call := range calls {
			vc26fHasType(call, seen)
		}
		for k := range g.feats {
			seen[k] = true
		}
		keys := make([]string, 0, len(seen))
		for k := range seen {
			keys = append(keys, k)
		}
		sort.Strings(keys)
		nt := false
		for _, k := range keys {
			c.Class(k)
			switch k {
			case "argtype:uint64", "argtype:[]int64", "argtype:[]uint64", "argtype:<nil>", "argtype:float64", "argtype:*pql.Condition", "argtype:*pql.Call",
				"argtype:[]interface {}", "condtype:<nil>", "colkey", "rowkey", "set:timestamp", "row:timerange":
				nt = true
			}
		}
		c.NT(nt)
		c.Sample(map[string]interface{}{"index": index, "text": text, "forwarded": (&pql.Query{Calls: calls}).String()})

		for _, call := range calls {
			fwd := call.String()
			q2, err := pql.ParseString(fwd)
			if err != nil {
				t.Fatalf("index %s, query %q: the forwarded text %q does not parse on the peer: %v", index, text, fwd, err)
			}
			if len(q2.Calls) != 1 {
				t.Fatalf("index %s, query %q: the forwarded text %q parses to %d calls", index, text, fwd, len(q2.Calls))
			}
			if err := vc26rEqCall(call, q2.Calls[0], true, ""); err != nil {
				t.Fatalf("index %s, query %q: the forwarded text %q parses to a different call: %v", index, text, fwd, err)
			}
		}
		// executeBulkSetRowAttrs forwards several calls as one query
		all := (&pql.Query{Calls: calls}).String()
		q3, err := pql.ParseString(all)
		if err != nil {
			t.Fatalf("index %s: forwarded multi-call text %q does not parse: %v", index, all, err)
		}
		if err := vc26rEqCalls(calls, q3.Calls, true); err != nil {
			t.Fatalf("index %s: forwarded multi-call text %q parses differently: %v", index, all, err)
		}
	})
}
