package pilosa

// C20 — Every node computes the same replica set for every shard.
//
// Enumerative, in-package. Reference model (independent of cluster.go):
//   partition(index, shard) = fnv64a(index || bigEndian64(shard)) mod 256        (glossary: Partition, DefaultPartitionN)
//   primary                 = sortedIDs[jump(partition, n)]                       (glossary: Jump Consistent Hash, arXiv 1406.2294)
//   owners                  = the min(max(r,1),n) ring successors starting at primary  (docs/faq.md "Replication on each node?")
// The real clusters are built in every join order, with different "self" nodes and
// with URIs that are *not* ordered like the IDs, through addNodeBasicSorted, addNode
// and (non-coordinator) mergeClusterStatus.

import (
	"fmt"
	"io/ioutil"
	"os"
	"sort"
	"strings"
	"testing"

	"github.com/pilosa/pilosa/internal/vkit"
	"github.com/pilosa/pilosa/logger"
	"github.com/pilosa/pilosa/roaring"
	"pgregory.net/rapid"
)

// id alphabet: "nodeN" style (incl. node10 < node2 in byte order), uuid-like, upper/lower case.
var vC20Alphabet = []string{
	"node0", "node1", "node2", "node10",
	"0c6f3a2e-8b1d-4c57-9f0a-5e2d7b9a1c33", "f3b1c0de-1111-4222-8333-944455556666",
	"a", "Z", "nodeA",
}

var vC20Indexes = []string{"i", "foo", "an-index_2"}

type vC20T interface {
	Fatalf(format string, args ...interface{})
}

type vC20Pair struct {
	index string
	shard uint64
	part  int
}

// vC20CoveringPairs: for every index name, the smallest shard of every partition
// (found by search) plus shards 0..7 — every partition is hit for every index.
func vC20CoveringPairs() []vC20Pair {
	var out []vC20Pair
	for _, idx := range vC20Indexes {
		seen := map[int]bool{}
		for s := uint64(0); len(seen) < 256; s++ {
			p := vGXPartition(idx, s)
			if !seen[p] || s < 8 {
				seen[p] = true
				out = append(out, vC20Pair{idx, s, p})
			}
		}
	}
	return out
}

func vC20IDs(nodes []*Node) []string {
	ids := make([]string, len(nodes))
	for i, n := range nodes {
		ids[i] = n.ID
	}
	return ids
}

func vC20Eq(a, b []string) bool {
	if len(a) != len(b) {
		return false
	}
	for i := range a {
		if a[i] != b[i] {
			return false
		}
	}
	return true
}

// vC20Node: the URI depends on the join position (reversed), never on the id.
func vC20Node(id string, pos, n int) *Node {
	return &Node{ID: id, URI: NewTestURI("http", fmt.Sprintf("h%02d", n-pos), uint16(10101+pos))}
}

// vC20BuildBasic joins the ids in the given order with addNodeBasicSorted.
func vC20BuildBasic(order []string, self int) *cluster {
	c := newCluster()
	for pos, id := range order {
		n := vC20Node(id, pos, len(order))
		if pos == self {
			c.Node = n
		}
		c.addNodeBasicSorted(n)
	}
	return c
}

// vC20BuildAddNode joins through cluster.addNode (topology file, coordinator path).
func vC20BuildAddNode(t vC20T, dir string, order []string, self int) *cluster {
	c := newCluster()
	c.Path = dir
	c.Topology = newTopology()
	for pos, id := range order {
		n := vC20Node(id, pos, len(order))
		if pos == self {
			c.Node = n
		}
		if err := c.addNode(n); err != nil {
			t.Fatalf("addNode(%s): %v", id, err)
		}
	}
	return c
}

// vC20BuildMerge builds the view of a non-coordinator node: it starts with itself
// (cluster.setup) and then receives the coordinator's ClusterStatus after every
// join (the coordinator's list is its own, id-sorted, list).
func vC20BuildMerge(t vC20T, dir string, order []string, self int) *cluster {
	c := newCluster()
	c.Path = dir
	c.Topology = newTopology()
	c.holder = NewHolder()
	c.Node = vC20Node(order[self], self, len(order))
	coord := 0
	if self == 0 {
		coord = 1
	}
	c.Coordinator = order[coord]
	if err := c.addNode(c.Node); err != nil {
		t.Fatalf("addNode(self): %v", err)
	}
	coordC := newCluster()
	for pos, id := range order {
		coordC.addNodeBasicSorted(vC20Node(id, pos, len(order)))
		if pos < self || pos < coord {
			continue // the coordinator only talks to this node once both exist
		}
		cs := &ClusterStatus{ClusterID: "cid", State: ClusterStateNormal}
		for _, n := range coordC.nodes {
			cp := *n
			cs.Nodes = append(cs.Nodes, &cp)
		}
		if err := c.mergeClusterStatus(cs); err != nil {
			t.Fatalf("mergeClusterStatus: %v", err)
		}
	}
	return c
}

// vC20Status: the coordinator's status message for the given members (its list is id-sorted).
func vC20Status(members []string, coord string) *ClusterStatus {
	cs := &ClusterStatus{ClusterID: "cid", State: ClusterStateNormal}
	for i, id := range members {
		n := vC20Node(id, i, len(members))
		n.IsCoordinator = id == coord
		cs.Nodes = append(cs.Nodes, n)
	}
	return cs
}

// vC20BuildSingle: a follower that starts with itself and receives ONE status naming all members.
func vC20BuildSingle(t vC20T, dir string, sorted []string, self, coord string) *cluster {
	c := newCluster()
	c.Path = dir
	c.Topology = newTopology()
	c.holder = NewHolder()
	c.Node = vC20Node(self, 0, len(sorted))
	c.Coordinator = coord
	if err := c.addNode(c.Node); err != nil {
		t.Fatalf("addNode(self): %v", err)
	}
	if err := c.mergeClusterStatus(vC20Status(sorted, coord)); err != nil {
		t.Fatalf("mergeClusterStatus: %v", err)
	}
	return c
}

// vC20ShrinkAll: membership history must not matter. For every non-empty set of members other than the
// follower itself and the coordinator, ONE status message that drops the whole set (adjacent ids, first,
// last, ...) is delivered to the follower; it must end with exactly the announced members and compute the
// model's owners; then the full list is announced again (grow after shrink) and must be restored.
func vC20ShrinkAll(t vC20T, c *cluster, sorted []string, coord string, pairs []vC20Pair, how string) int {
	self := c.Node.ID
	var others []string
	for _, id := range sorted {
		if id != self && id != coord {
			others = append(others, id)
		}
	}
	cases := 0
	for mask := 1; mask < 1<<uint(len(others)); mask++ {
		drop := map[string]bool{}
		var dropped []string
		for i, id := range others {
			if mask&(1<<uint(i)) != 0 {
				drop[id] = true
				dropped = append(dropped, id)
			}
		}
		var remaining []string
		adjacent := false
		for i, id := range sorted {
			if !drop[id] {
				remaining = append(remaining, id)
			} else if i+1 < len(sorted) && drop[sorted[i+1]] {
				adjacent = true
			}
		}
		if err := c.mergeClusterStatus(vC20Status(remaining, coord)); err != nil {
			t.Fatalf("%s: mergeClusterStatus(shrink): %v", how, err)
		}
		if got := vC20IDs(c.nodes); !vC20Eq(got, remaining) {
			t.Fatalf("%s: members %v, one status drops %v: follower %s now lists %v, the coordinator announced %v", how, sorted, dropped, self, got, remaining)
		}
		for _, r := range []int{1, 2, 3} {
			vC20CheckPartitions(t, c, remaining, r, how+" after a status dropping "+strings.Join(dropped, ","))
		}
		vC20CheckHelpers(t, c, remaining, 2, pairs[:24], how+" helpers after a status dropping "+strings.Join(dropped, ","))
		if err := c.mergeClusterStatus(vC20Status(sorted, coord)); err != nil {
			t.Fatalf("%s: mergeClusterStatus(grow): %v", how, err)
		}
		if got := vC20IDs(c.nodes); !vC20Eq(got, sorted) {
			t.Fatalf("%s: after re-announcing all members follower %s lists %v, want %v", how, self, got, sorted)
		}
		k := vkit.NewCase().Key("shrink", how, sorted, self, coord, dropped)
		k.Class("status-drops=%d", len(dropped)).ClassIf(adjacent, "status-drops-adjacent-ids")
		k.NT(len(dropped) >= 2)
		k.Sample(map[string]interface{}{"members": sorted, "follower": self, "coordinator": coord, "one_status_drops": dropped})
		k.Done()
		cases++
	}
	return cases
}

func vC20NextPerm(p []int) bool {
	i := len(p) - 2
	for i >= 0 && p[i] >= p[i+1] {
		i--
	}
	if i < 0 {
		return false
	}
	j := len(p) - 1
	for p[j] <= p[i] {
		j--
	}
	p[i], p[j] = p[j], p[i]
	for l, r := i+1, len(p)-1; l < r; l, r = l+1, r-1 {
		p[l], p[r] = p[r], p[l]
	}
	return true
}

// vC20CheckPartitions compares partitionNodes of c for all 256 partitions with the model.
func vC20CheckPartitions(t vC20T, c *cluster, sorted []string, r int, how string) {
	c.ReplicaN = r
	want := vGXReplicaN(r, len(sorted))
	for p := 0; p < 256; p++ {
		got := vC20IDs(c.partitionNodes(p))
		if len(got) != want {
			t.Fatalf("%s: ids=%v replicas=%d partition=%d: %d owners %v, want %d", how, sorted, r, p, len(got), got, want)
		}
		for i := range got {
			for j := i + 1; j < len(got); j++ {
				if got[i] == got[j] {
					t.Fatalf("%s: ids=%v replicas=%d partition=%d: duplicate owner in %v", how, sorted, r, p, got)
				}
			}
			if sort.SearchStrings(sorted, got[i]) >= len(sorted) || sorted[sort.SearchStrings(sorted, got[i])] != got[i] {
				t.Fatalf("%s: ids=%v replicas=%d partition=%d: owner %q is not a member", how, sorted, r, p, got[i])
			}
		}
		if m := vGXPartitionOwners(sorted, r, p); !vC20Eq(got, m) {
			t.Fatalf("%s: ids=%v replicas=%d partition=%d: owners %v, every node must compute %v (self=%s)", how, sorted, r, p, got, m, c.Node.ID)
		}
	}
}

// vC20CheckHelpers: shardNodes/ShardNodes/ownsShard/containsShards/shardsByNode/validateShardOwnership
// against membership in the model owner list.
func vC20CheckHelpers(t vC20T, c *cluster, sorted []string, r int, pairs []vC20Pair, how string) {
	c.ReplicaN = r
	api := &API{cluster: c, server: &Server{cluster: c, logger: logger.NopLogger}}
	ex := &executor{Cluster: c, Node: c.Node}
	self := c.Node.ID
	stranger := &Node{ID: "not-a-member"}
	byIndex := map[string][]uint64{}
	ownersOf := map[string]map[uint64][]string{}
	for _, pr := range pairs {
		if got := c.partition(pr.index, pr.shard); got != pr.part {
			t.Fatalf("%s: partition(%q,%d)=%d, want %d", how, pr.index, pr.shard, got, pr.part)
		}
		m := vGXPartitionOwners(sorted, r, pr.part)
		if ownersOf[pr.index] == nil {
			ownersOf[pr.index] = map[uint64][]string{}
		}
		ownersOf[pr.index][pr.shard] = m
		byIndex[pr.index] = append(byIndex[pr.index], pr.shard)
		if got := vC20IDs(c.shardNodes(pr.index, pr.shard)); !vC20Eq(got, m) {
			t.Fatalf("%s: ids=%v replicas=%d shardNodes(%q,%d)=%v, want %v", how, sorted, r, pr.index, pr.shard, got, m)
		}
		if got := vC20IDs(c.ShardNodes(pr.index, pr.shard)); !vC20Eq(got, m) {
			t.Fatalf("%s: ids=%v replicas=%d ShardNodes(%q,%d)=%v, want %v", how, sorted, r, pr.index, pr.shard, got, m)
		}
		inModel := func(id string) bool {
			for _, x := range m {
				if x == id {
					return true
				}
			}
			return false
		}
		for _, id := range sorted {
			if got := c.ownsShard(id, pr.index, pr.shard); got != inModel(id) {
				t.Fatalf("%s: ids=%v replicas=%d ownsShard(%q,%q,%d)=%v but owners are %v", how, sorted, r, id, pr.index, pr.shard, got, m)
			}
		}
		if c.ownsShard(stranger.ID, pr.index, pr.shard) {
			t.Fatalf("%s: ownsShard reports a non-member as owner of (%q,%d)", how, pr.index, pr.shard)
		}
		err := api.validateShardOwnership(pr.index, pr.shard)
		if (err == nil) != inModel(self) {
			t.Fatalf("%s: ids=%v replicas=%d self=%s validateShardOwnership(%q,%d)=%v but owners are %v", how, sorted, r, self, pr.index, pr.shard, err, m)
		}
		if err != nil && err != ErrClusterDoesNotOwnShard {
			t.Fatalf("%s: validateShardOwnership unexpected error %v", how, err)
		}
	}
	for _, idx := range vC20Indexes {
		shards := byIndex[idx]
		bm := roaring.NewBitmap(shards...)
		sortedShards := append([]uint64(nil), shards...)
		sort.Slice(sortedShards, func(i, j int) bool { return sortedShards[i] < sortedShards[j] })
		// containsShards for every member and a stranger
		for _, n := range append(append([]*Node(nil), c.nodes...), stranger) {
			var want []uint64
			for _, s := range sortedShards {
				for _, o := range ownersOf[idx][s] {
					if o == n.ID {
						want = append(want, s)
					}
				}
			}
			got := c.containsShards(idx, bm, n)
			if fmt.Sprint(got) != fmt.Sprint(want) {
				t.Fatalf("%s: ids=%v replicas=%d containsShards(%q, node %s) = %v, want %v", how, sorted, r, idx, n.ID, got, want)
			}
		}
		// shardsByNode with all nodes, and with each single node missing
		for drop := -1; drop < len(c.nodes); drop++ {
			var avail []*Node
			for i, n := range c.nodes {
				if i != drop {
					avail = append(avail, n)
				}
			}
			availID := map[string]bool{}
			for _, n := range avail {
				availID[n.ID] = true
			}
			wantErr := false
			want := map[string][]uint64{}
			for _, s := range shards {
				ok := false
				for _, o := range ownersOf[idx][s] {
					if availID[o] {
						want[o] = append(want[o], s)
						ok = true
						break
					}
				}
				if !ok {
					wantErr = true
				}
			}
			got, err := ex.shardsByNode(avail, idx, shards)
			if wantErr {
				if err != errShardUnavailable {
					t.Fatalf("%s: ids=%v replicas=%d shardsByNode without %d: err=%v, want errShardUnavailable", how, sorted, r, drop, err)
				}
				continue
			}
			if err != nil {
				t.Fatalf("%s: ids=%v replicas=%d shardsByNode without %d: unexpected %v", how, sorted, r, drop, err)
			}
			gotM := map[string][]uint64{}
			for n, ss := range got {
				gotM[n.ID] = ss
			}
			if len(gotM) != len(want) {
				t.Fatalf("%s: ids=%v replicas=%d shardsByNode(%q) without %d = %v, want %v", how, sorted, r, idx, drop, gotM, want)
			}
			for id, ss := range want {
				if fmt.Sprint(gotM[id]) != fmt.Sprint(ss) {
					t.Fatalf("%s: ids=%v replicas=%d shardsByNode(%q) without %d: node %s gets %v, want %v", how, sorted, r, idx, drop, id, gotM[id], ss)
				}
			}
		}
	}
}

func vC20Subsets(alpha []string, maxN int) [][]string {
	var out [][]string
	for mask := 1; mask < 1<<uint(len(alpha)); mask++ {
		var s []string
		for i := range alpha {
			if mask&(1<<uint(i)) != 0 {
				s = append(s, alpha[i])
			}
		}
		if len(s) <= maxN {
			out = append(out, s)
		}
	}
	return out
}

// TestVerifC20_Enum: all id subsets (<= maxN nodes) x all join orders (<= 6 nodes; rotations,
// reversal and a few fixed shuffles above) x replicas x all 256 partitions.
func TestVerifC20_Enum(t *testing.T) {
	defer vkit.Flush()
	maxN := vkit.Scale(5, 8)
	maxR := vkit.Scale(6, 9)
	shard, nshards := vGXShardEnv()
	pairs := vC20CoveringPairs()
	dir, err := ioutil.TempDir("", "verif-c20-")
	if err != nil {
		t.Fatal(err)
	}
	defer os.RemoveAll(dir)

	subsets := vC20Subsets(vC20Alphabet, maxN)
	for si, ids := range subsets {
		if si%nshards != shard {
			continue
		}
		sorted := append([]string(nil), ids...)
		sort.Strings(sorted)
		n := len(ids)
		perm := make([]int, n)
		for i := range perm {
			perm[i] = i
		}
		permIdx := 0
		for {
			// above 6 nodes only every 97th permutation (plus identity and the reversal) is taken
			take := n <= 6 || permIdx%97 == 0
			if !take {
				rev := true
				for i := range perm {
					if perm[i] != n-1-i {
						rev = false
					}
				}
				take = rev
			}
			if take {
				order := make([]string, n)
				isSorted := true
				for i, p := range perm {
					order[i] = sorted[p]
					if p != i {
						isSorted = false
					}
				}
				self := permIdx % n
				c := vC20BuildBasic(order, self)
				if got := vC20IDs(c.nodes); !vC20Eq(got, sorted) {
					t.Fatalf("join order %v: node list %v, want id order %v", order, got, sorted)
				}
				for r := 0; r <= maxR; r++ {
					cs := vkit.NewCase().Key("enum", order, self, r)
					cs.Class("n=%d", n).Class("r=%d", r)
					cs.ClassIf(r > n, "replicas>nodes").ClassIf(r == 0, "replicas=0").ClassIf(!isSorted, "unsorted-join-order")
					cs.NT((n >= 2 && !isSorted) || r == 0 || r > n)
					cs.Sample(map[string]interface{}{"join_order": order, "self": order[self], "replicas": r, "partitions": 256})
					vC20CheckPartitions(t, c, sorted, r, "addNodeBasicSorted "+strings.Join(order, ","))
					cs.Done()
				}
				// helper agreement on the covering (index, shard) pairs: identity and every 29th order
				if permIdx%29 == 0 || isSorted {
					for r := 0; r <= maxR; r++ {
						if n > 5 && r > n+1 {
							continue
						}
						vC20CheckHelpers(t, c, sorted, r, pairs, "helpers "+strings.Join(order, ","))
						vkit.Count("helper-configs", 1)
					}
				}
				// the two other construction routes, for a slice of the orders
				if permIdx%11 == 0 {
					c2 := vC20BuildAddNode(t, dir, order, (self+1)%n)
					for r := 0; r <= maxR; r += 2 {
						vC20CheckPartitions(t, c2, sorted, r, "addNode "+strings.Join(order, ","))
					}
					vkit.Count("route:addNode", 1)
					if n >= 2 {
						c3 := vC20BuildMerge(t, dir, order, self)
						if got := vC20IDs(c3.nodes); !vC20Eq(got, sorted) {
							t.Fatalf("mergeClusterStatus, join order %v self %s: node list %v, want %v", order, order[self], got, sorted)
						}
						for r := 1; r <= maxR; r += 2 {
							vC20CheckPartitions(t, c3, sorted, r, "mergeClusterStatus "+strings.Join(order, ","))
						}
						vC20CheckHelpers(t, c3, sorted, 2, pairs[:64], "helpers/merge "+strings.Join(order, ","))
						vkit.Count("route:mergeClusterStatus", 1)
						if n >= 3 {
							coord := order[0]
							if self == 0 {
								coord = order[1]
							}
							vC20ShrinkAll(t, c3, sorted, coord, pairs, "follower built by successive statuses "+strings.Join(order, ","))
							c4 := vC20BuildSingle(t, dir, sorted, order[self], coord)
							vC20ShrinkAll(t, c4, sorted, coord, pairs, "follower built by one status")
						}
					}
				}
			}
			permIdx++
			if !vC20NextPerm(perm) {
				break
			}
		}
	}
	vkit.Extra("exhaustive", true)
	vkit.Extra("bounds", fmt.Sprintf("id subsets of a %d-id alphabet with <=%d nodes; all join orders for <=6 nodes; replicas 0..%d; 256 partitions; %d covering (index,shard) pairs", len(vC20Alphabet), maxN, maxR, len(pairs)))
}

// TestVerifC20_Random: ids drawn from generators (not the fixed alphabet), random join order and self.
var vC20RandomDir string

func TestVerifC20_Random(t *testing.T) {
	defer vkit.Flush()
	d, err := ioutil.TempDir("", "verif-c20-")
	if err != nil {
		t.Fatal(err)
	}
	defer os.RemoveAll(d)
	vC20RandomDir = d
	pairs := vC20CoveringPairs()
	rapid.Check(t, func(t *rapid.T) {
		n := rapid.IntRange(1, 8).Draw(t, "n")
		idGen := rapid.OneOf(
			rapid.StringMatching(`node[0-9]{1,2}`),
			rapid.StringMatching(`[0-9a-f]{8}-[0-9a-f]{4}-4[0-9a-f]{3}-[89ab][0-9a-f]{3}-[0-9a-f]{12}`),
			rapid.StringMatching(`[A-Za-z0-9_.-]{1,6}`),
		)
		order := rapid.SliceOfNDistinct(idGen, n, n, func(s string) string { return s }).Draw(t, "order")
		self := rapid.IntRange(0, n-1).Draw(t, "self")
		r := rapid.IntRange(0, 9).Draw(t, "replicas")
		sorted := append([]string(nil), order...)
		sort.Strings(sorted)
		isSorted := vC20Eq(sorted, order)
		cs := vkit.NewCase().Key("random", order, self, r)
		defer cs.Done()
		cs.Class("n=%d", n).ClassIf(r > n, "replicas>nodes").ClassIf(r == 0, "replicas=0").ClassIf(!isSorted, "unsorted-join-order")
		cs.NT((n >= 2 && !isSorted) || r == 0 || r > n)
		cs.Sample(map[string]interface{}{"join_order": order, "self": order[self], "replicas": r})
		c := vC20BuildBasic(order, self)
		vC20CheckPartitions(t, c, sorted, r, "random "+strings.Join(order, ","))
		off := rapid.IntRange(0, len(pairs)-40).Draw(t, "pairs")
		vC20CheckHelpers(t, c, sorted, r, pairs[off:off+40], "random helpers "+strings.Join(order, ","))
		if n >= 3 {
			coordIdx := rapid.IntRange(0, n-2).Draw(t, "coordinator")
			if coordIdx >= self {
				coordIdx++
			}
			f := vC20BuildSingle(t, vC20RandomDir, sorted, order[self], order[coordIdx])
			vC20ShrinkAll(t, f, sorted, order[coordIdx], pairs, "random follower")
		}
	})
}
