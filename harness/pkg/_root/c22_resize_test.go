package pilosa

// C22 — Cluster resize completes or aborts cleanly without stalling.
//
// A real coordinator `cluster` (real Holder with data, listenForJoins running) whose broadcaster only
// records what it is asked to send. The test owns the delivery schedule: every node join/leave,
// ResizeInstructionComplete (pending / duplicate / foreign node / finished job / unknown job / with
// Error) and abort is an explicit step, executed in its own goroutine, followed by a quiescence wait
// (every goroutine that runs cluster code is blocked, twice in a row). One more schedule point is
// owned through the cluster's logger: the coordinator can be parked between receiving the job result
// and completing the job, which is where duplicates, failures and aborts "race with completion".
//
// After every step the implementation is compared with a small reference state machine.
// A wall-clock limit is only used for the quiescence wait itself; hitting it ends the process as
// inconclusive, never as a violation.

import (
	"fmt"
	"io/ioutil"
	"os"
	"regexp"
	"runtime"
	"sort"
	"strings"
	"sync"
	"sync/atomic"
	"testing"
	"time"

	"github.com/pilosa/pilosa/internal/vkit"
	"github.com/pilosa/pilosa/roaring"
	"pgregory.net/rapid"
)

// ---------------------------------------------------------------- recording broadcaster / gating logger

type vC22Bcast struct {
	mu     sync.Mutex
	instrs []*ResizeInstruction
	states []string
}

func (b *vC22Bcast) record(m Message) {
	b.mu.Lock()
	defer b.mu.Unlock()
	switch obj := m.(type) {
	case *ResizeInstruction:
		b.instrs = append(b.instrs, obj)
	case *ClusterStatus:
		b.states = append(b.states, obj.State)
	}
}
func (b *vC22Bcast) SendSync(m Message) error         { b.record(m); return nil }
func (b *vC22Bcast) SendAsync(m Message) error        { b.record(m); return nil }
func (b *vC22Bcast) SendTo(to *Node, m Message) error { b.record(m); return nil }
func (b *vC22Bcast) instructionsOf(job int64) []string {
	b.mu.Lock()
	defer b.mu.Unlock()
	var out []string
	for _, in := range b.instrs {
		if in.JobID == job {
			out = append(out, in.Node.ID)
		}
	}
	sort.Strings(out)
	return out
}

// vC22Logger parks the goroutine that logs "received jobResult" (handleNodeAction, no lock held) while armed.
type vC22Logger struct {
	armed  int32
	parked int32
	gate   chan struct{}
}

func (l *vC22Logger) Printf(format string, v ...interface{}) {
	if strings.HasPrefix(format, "received jobResult") && atomic.CompareAndSwapInt32(&l.armed, 1, 0) {
		atomic.StoreInt32(&l.parked, 1)
		vC22GateWait(l.gate)
		atomic.StoreInt32(&l.parked, 0)
	}
}
func (l *vC22Logger) Debugf(format string, v ...interface{}) {}

func vC22GateWait(ch chan struct{}) { <-ch }

// ---------------------------------------------------------------- goroutine inspection

type vC22G struct {
	id    string
	state string
	text  string
}

var vC22HeaderRE = regexp.MustCompile(`^goroutine (\d+) \[([^\],]+)`)

func vC22Goroutines() []vC22G {
	buf := make([]byte, 1<<20)
	for {
		n := runtime.Stack(buf, true)
		if n < len(buf) {
			buf = buf[:n]
			break
		}
		buf = make([]byte, 2*len(buf))
	}
	var out []vC22G
	for _, blk := range strings.Split(string(buf), "\n\n") {
		m := vC22HeaderRE.FindStringSubmatch(blk)
		if m == nil {
			continue
		}
		out = append(out, vC22G{id: m[1], state: m[2], text: blk})
	}
	return out
}

// vC22Relevant: every goroutine that did not exist when the case started (those are in the ignore set) and is not
// the test goroutine itself counts. Filtering by "runs cluster code" is NOT sound: a goroutine started through
// errgroup.Go (unprotectedSendSync, handleNodeAction) shows only errgroup frames until it is first scheduled, so
// it would be invisible while runnable and the wait could end with the handler still inside nodeJoin.
func vC22Relevant(g vC22G) bool {
	return !strings.Contains(g.text, "vC22Quiesce")
}

func vC22Blocked(state string) bool {
	switch state {
	case "chan receive", "chan send", "select", "sync.Mutex.Lock", "sync.RWMutex.Lock", "sync.RWMutex.RLock",
		"semacquire", "sync.WaitGroup.Wait", "sync.Cond.Wait", "chan receive (nil chan)", "chan send (nil chan)", "select (no cases)":
		return true
	}
	return false
}

// vC22Quiesce waits until every goroutine created since the case started (i.e. not in ignore) is blocked in two
// consecutive snapshots with identical (id, state) sets. Returns those goroutines.
func vC22Quiesce(ignore map[string]bool) []vC22G {
	deadline := time.Now().Add(60 * time.Second)
	prev := ""
	for {
		runtime.Gosched()
		gs := vC22Goroutines()
		var rel []vC22G
		all := true
		var sig []string
		for _, g := range gs {
			if ignore[g.id] || !vC22Relevant(g) {
				continue
			}
			rel = append(rel, g)
			sig = append(sig, g.id+":"+g.state)
			if !vC22Blocked(g.state) {
				all = false
			}
		}
		sort.Strings(sig)
		s := strings.Join(sig, ",")
		if all && s == prev {
			return rel
		}
		if all {
			prev = s
		} else {
			prev = ""
		}
		if time.Now().After(deadline) {
			vkit.Flush()
			fmt.Println("panic: test timed out (inconclusive, not a verdict): cluster goroutines did not become quiescent within 60s")
			for _, g := range rel {
				fmt.Println(g.text)
			}
			os.Exit(3)
		}
		time.Sleep(200 * time.Microsecond)
	}
}

func vC22Dump(gs []vC22G) string {
	var sb strings.Builder
	for _, g := range gs {
		// keep the dump short: header + function lines only
		for i, ln := range strings.Split(g.text, "\n") {
			if i == 0 || (!strings.HasPrefix(ln, "\t") && ln != "") {
				sb.WriteString("    " + ln + "\n")
			}
		}
	}
	return sb.String()
}

// ---------------------------------------------------------------- harness around one coordinator

type vC22Delivery struct {
	name     string
	done     chan struct{}
	err      error
	panicked interface{}
}

func (d *vC22Delivery) returned() bool {
	select {
	case <-d.done:
		return true
	default:
		return false
	}
}

type vC22Env struct {
	c       *cluster
	h       *Holder
	dir     string
	b       *vC22Bcast
	log     *vC22Logger
	ignore  map[string]bool
	deliv   []*vC22Delivery
	history []string
	api     *API
}

func vC22Node(id string) *Node {
	return &Node{ID: id, URI: NewTestURI("http", "host-"+id, 10101), State: nodeStateReady}
}

func vC22NewEnv(t vGXT, members []string, replicas int) *vC22Env {
	e := &vC22Env{b: &vC22Bcast{}, log: &vC22Logger{gate: make(chan struct{})}, ignore: map[string]bool{}}
	for _, g := range vC22Goroutines() {
		e.ignore[g.id] = true // everything that exists before the case: test runner, leftovers of abandoned cases
	}
	dir, err := ioutil.TempDir("", "verif-c22-")
	if err != nil {
		t.Fatalf("tempdir: %v", err)
	}
	e.dir = dir
	h := NewHolder()
	h.Path = dir
	if err := h.Open(); err != nil {
		t.Fatalf("holder: %v", err)
	}
	idx, err := h.CreateIndex("i", IndexOptions{})
	if err != nil {
		t.Fatalf("index: %v", err)
	}
	f, err := idx.CreateField("f", OptFieldTypeSet(CacheTypeNone, 0))
	if err != nil {
		t.Fatalf("field: %v", err)
	}
	for s := uint64(0); s < 4; s++ {
		if _, err := f.SetBit(1, s*ShardWidth+1, nil); err != nil {
			t.Fatalf("setbit: %v", err)
		}
	}
	var all []uint64
	for s := uint64(0); s < 24; s++ {
		all = append(all, s)
	}
	if err := f.AddRemoteAvailableShards(roaring.NewBitmap(all...)); err != nil {
		t.Fatalf("remote shards: %v", err)
	}
	e.h = h
	c := newCluster()
	c.ReplicaN = replicas
	c.Path = dir
	c.Topology = newTopology()
	c.holder = h
	c.broadcaster = e.b
	c.logger = e.log
	c.Node = vC22Node(members[0])
	c.Node.IsCoordinator = true
	c.Coordinator = members[0]
	for i, id := range members {
		n := c.Node
		if i > 0 {
			n = vC22Node(id)
		}
		if err := c.addNode(n); err != nil {
			t.Fatalf("addNode: %v", err)
		}
	}
	c.state = ClusterStateNormal
	c.listenForJoins()
	e.c = c
	e.api = &API{cluster: c, holder: h}
	return e
}

// run executes f in its own goroutine (as the server runs every message handler) and waits for quiescence.
func (e *vC22Env) run(name string, f func() error) *vC22Delivery {
	d := &vC22Delivery{name: name, done: make(chan struct{})}
	e.deliv = append(e.deliv, d)
	e.history = append(e.history, name)
	go vC22Deliver(d, f)
	vC22Quiesce(e.ignore)
	return d
}

func vC22Deliver(d *vC22Delivery, f func() error) {
	defer close(d.done)
	defer func() {
		if r := recover(); r != nil {
			d.panicked = r
		}
	}()
	d.err = f()
}

type vC22JobObs struct {
	id      int64
	locked  bool
	state   string
	action  string
	pending []string // IDs with false
}

type vC22Obs struct {
	locked  bool
	state   string
	members []string
	current int64
	jobs    map[int64]vC22JobObs
}

func (e *vC22Env) observe() vC22Obs {
	var o vC22Obs
	c := e.c
	if !c.mu.TryRLock() {
		o.locked = true
		return o
	}
	defer c.mu.RUnlock()
	o.state = c.state
	o.members = Nodes(c.nodes).IDs()
	if c.currentJob != nil {
		o.current = c.currentJob.ID
	}
	o.jobs = map[int64]vC22JobObs{}
	for id, j := range c.jobs {
		jo := vC22JobObs{id: id, action: j.action}
		if j.mu.TryRLock() {
			jo.state = j.state
			for n, done := range j.IDs {
				if !done {
					jo.pending = append(jo.pending, n)
				}
			}
			sort.Strings(jo.pending)
			j.mu.RUnlock()
		} else {
			jo.locked = true
		}
		o.jobs[id] = jo
	}
	return o
}

// ---------------------------------------------------------------- reference model

type vC22Action struct {
	kind string // resizeJobActionAdd / resizeJobActionRemove
	node string
}

type vC22MJob struct {
	id       int64
	act      vC22Action
	targets  []string        // nodes that were sent an instruction
	reported map[string]bool // successful completions delivered while running
	ended    bool
	outcome  string
}

type vC22Model struct {
	members []string
	queue   []vC22Action
	cur     *vC22MJob
	jobs    map[int64]*vC22MJob
	// altMembers: second admissible membership (an abort raced with the completion of the job)
	altMembers []string
}

func (m *vC22Model) apply(members []string, a vC22Action) []string {
	var out []string
	for _, id := range members {
		if !(a.kind == resizeJobActionRemove && id == a.node) {
			out = append(out, id)
		}
	}
	if a.kind == resizeJobActionAdd {
		out = append(out, a.node)
	}
	sort.Strings(out)
	return out
}

func (m *vC22Model) finish(outcome string) {
	m.cur.ended = true
	m.cur.outcome = outcome
	if outcome == resizeJobStateDone {
		m.members = m.apply(m.members, m.cur.act)
	}
	m.cur = nil
}

// ---------------------------------------------------------------- the property

type vC22Stats struct {
	dup, late, failed, abort, unknown, window, foreign int
}

func vC22Check(t *rapid.T, e *vC22Env, m *vC22Model, step string, gs []vC22G) {
	hist := func() string { return strings.Join(e.history, " ; ") }
	// 1. every handler has returned, none panicked
	for _, d := range e.deliv {
		if !d.returned() {
			t.Fatalf("after %q: handler %q has not returned although no goroutine of the cluster can run: it is blocked for good "+
				"(a send on resizeJob.result has a single receiver, handleNodeAction, which receives once per job and is not receiving).\nhistory: %s\ngoroutines:\n%s",
				step, d.name, hist(), vC22Dump(gs))
		}
		if d.panicked != nil {
			t.Fatalf("after %q: handler %q panicked: %v\nhistory: %s", step, d.name, d.panicked, hist())
		}
	}
	o := e.observe()
	if o.locked {
		t.Fatalf("after %q: cluster.mu is held or awaited by a goroutine that is blocked for good (nothing can run any more) — the coordinator is dead-locked.\nhistory: %s\ngoroutines:\n%s",
			step, hist(), vC22Dump(gs))
	}
	// 2. adopt jobs the coordinator created for queued actions (eager: at quiescence nothing else will happen)
	var fresh []vC22JobObs
	for id, jo := range o.jobs {
		if m.jobs[id] == nil {
			fresh = append(fresh, jo)
		}
	}
	// jobs without instructions complete at once; at most one fresh job can still be running and it is the last one
	sort.Slice(fresh, func(i, j int) bool {
		ri, rj := len(e.b.instructionsOf(fresh[i].id)) > 0, len(e.b.instructionsOf(fresh[j].id)) > 0
		if ri != rj {
			return !ri
		}
		return fresh[i].id < fresh[j].id
	})
	for _, jo := range fresh {
		if jo.locked {
			t.Fatalf("after %q: resizeJob.mu of job %d is held by a goroutine that is blocked for good.\nhistory: %s\ngoroutines:\n%s", step, jo.id, hist(), vC22Dump(gs))
		}
		if m.cur != nil {
			t.Fatalf("after %q: job %d was created while job %d is still running (more than one resize job at a time)\nhistory: %s", step, jo.id, m.cur.id, hist())
		}
		if len(m.queue) == 0 {
			t.Fatalf("after %q: job %d (%s) was created although no join/leave is waiting\nhistory: %s", step, jo.id, jo.action, hist())
		}
		act := m.queue[0]
		m.queue = m.queue[1:]
		mj := &vC22MJob{id: jo.id, act: act, targets: e.b.instructionsOf(jo.id), reported: map[string]bool{}}
		m.jobs[jo.id] = mj
		m.cur = mj
		if len(mj.targets) == 0 {
			m.finish(resizeJobStateDone)
		}
	}
	if m.cur == nil && len(m.queue) > 0 {
		t.Fatalf("after %q: %d accepted join/leave request(s) %v are waiting, no job is running and no goroutine of the cluster can run: they wait for good.\nhistory: %s\ngoroutines:\n%s",
			step, len(m.queue), m.queue, hist(), vC22Dump(gs))
	}
	// 3. at most one job runs; none is left running after it ended
	var running []int64
	for id, jo := range o.jobs {
		if jo.locked {
			t.Fatalf("after %q: resizeJob.mu of job %d is held by a goroutine that is blocked for good.\nhistory: %s\ngoroutines:\n%s", step, id, hist(), vC22Dump(gs))
		}
		if jo.state == resizeJobStateRunning || jo.state == "" {
			running = append(running, id)
		}
	}
	if len(running) > 1 {
		t.Fatalf("after %q: %d resize jobs are running: %v\nhistory: %s", step, len(running), running, hist())
	}
	if m.cur == nil && (len(running) != 0 || o.current != 0) {
		t.Fatalf("after %q: every job has ended (model) but the coordinator still has running=%v currentJob=%d\nhistory: %s", step, running, o.current, hist())
	}
	if m.cur != nil && (len(running) != 1 || running[0] != m.cur.id || o.current != m.cur.id) {
		t.Fatalf("after %q: job %d should be running (targets %v, reported %v) but the coordinator has running=%v currentJob=%d\nhistory: %s",
			step, m.cur.id, m.cur.targets, m.cur.reported, running, o.current, hist())
	}
	// 4. membership changes only after all targets reported success (and then it does change)
	sort.Strings(o.members)
	if fmt.Sprint(o.members) != fmt.Sprint(m.members) {
		if m.altMembers != nil && fmt.Sprint(o.members) == fmt.Sprint(m.altMembers) {
			m.members, m.altMembers = m.altMembers, nil
		} else {
			t.Fatalf("after %q: members are %v, want %v (alt %v): the member list changes exactly when every node that was sent an instruction has reported success\nhistory: %s",
				step, o.members, m.members, m.altMembers, hist())
		}
	} else {
		m.altMembers = nil
	}
	// 5. RESIZING exactly while a job runs
	if m.cur != nil && o.state != ClusterStateResizing {
		t.Fatalf("after %q: job %d is running but the cluster state is %s\nhistory: %s", step, m.cur.id, o.state, hist())
	}
	if m.cur == nil && o.state != ClusterStateNormal {
		t.Fatalf("after %q: no job is running and none is waiting but the cluster state is %s (and no goroutine of the cluster can run)\nhistory: %s\ngoroutines:\n%s",
			step, o.state, hist(), vC22Dump(gs))
	}
}

var vC22Pool = []string{"node-b", "node-c", "node-d", "node-e", "node-f", "node-g", "node-h", "node-i", "node-j", "node-k", "node-l", "node-m", "node-n"}

func TestVerifC22_Resize(t *testing.T) {
	defer vkit.Flush()
	rapid.Check(t, func(t *rapid.T) {
		nInit := rapid.IntRange(1, 3).Draw(t, "members")
		replicas := rapid.IntRange(1, 2).Draw(t, "replicas")
		members := append([]string{"node-a"}, vC22Pool[:nInit-1]...) // node-a is the coordinator
		nextNew := nInit - 1
		e := vC22NewEnv(t, members, replicas)
		healthy := false
		defer func() {
			if healthy {
				e.c.close()
				e.h.Close()
			} else {
				close(e.c.closing) // abandoned: goroutines of this cluster are ignored by later cases
			}
			os.RemoveAll(e.dir)
		}()
		m := &vC22Model{members: append([]string(nil), members...), jobs: map[int64]*vC22MJob{}}
		sort.Strings(m.members)
		var st vC22Stats
		unknownID := int64(4242)
		var lastEnded *vC22MJob

		complete := func(name string, job int64, node string, errStr string) {
			e.run(name, func() error {
				return e.c.markResizeInstructionComplete(&ResizeInstructionComplete{JobID: job, Node: vC22Node(node), Error: errStr})
			})
		}
		// model effect of a completion message delivered outside the window
		applyComplete := func(job int64, node, errStr string) {
			if m.cur == nil || m.cur.id != job {
				return // finished or unknown job: no effect
			}
			if errStr != "" {
				lastEnded = m.cur
				m.finish(resizeJobStateAborted)
				return
			}
			if vGXHas(m.cur.targets, node) {
				m.cur.reported[node] = true
			}
			if len(m.cur.reported) == len(m.cur.targets) {
				lastEnded = m.cur
				m.finish(resizeJobStateDone)
			}
		}
		pendingOf := func(j *vC22MJob) []string {
			var out []string
			for _, n := range j.targets {
				if !j.reported[n] {
					out = append(out, n)
				}
			}
			return out
		}

		nEvents := rapid.IntRange(1, 12).Draw(t, "events")
		for ev := 0; ev < nEvents; ev++ {
			var kinds []string
			if len(m.queue) < 3 && nextNew < len(vC22Pool) {
				kinds = append(kinds, "join", "join")
			}
			if len(m.members) > 1 {
				kinds = append(kinds, "leave")
			}
			if m.cur != nil {
				kinds = append(kinds, "complete", "complete", "complete", "fail", "foreign", "window")
				if len(m.cur.reported) > 0 {
					kinds = append(kinds, "duplicate", "duplicate", "duplicate")
				}
			}
			kinds = append(kinds, "abort", "unknown")
			if lastEnded != nil {
				kinds = append(kinds, "late", "latefail")
			}
			kind := rapid.SampledFrom(kinds).Draw(t, "event")
			step := kind
			switch kind {
			case "join":
				id := vC22Pool[nextNew]
				nextNew++
				step = "join " + id
				d := e.run(step, func() error { return e.c.ReceiveEvent(&NodeEvent{Event: NodeJoin, Node: vC22Node(id)}) })
				if d.returned() && d.panicked == nil && d.err == nil {
					m.queue = append(m.queue, vC22Action{resizeJobActionAdd, id})
				}
			case "leave":
				cands := []string{}
				for _, id := range m.members {
					if id != "node-a" {
						cands = append(cands, id)
					}
				}
				id := rapid.SampledFrom(cands).Draw(t, "leaving")
				step = "leave " + id
				d := e.run(step, func() error { return e.c.nodeLeave(id) })
				if d.returned() && d.panicked == nil && d.err == nil {
					m.queue = append(m.queue, vC22Action{resizeJobActionRemove, id})
				}
			case "complete":
				node := rapid.SampledFrom(pendingOf(m.cur)).Draw(t, "node")
				job := m.cur.id
				step = fmt.Sprintf("complete job=current node=%s", node)
				complete(step, job, node, "")
				applyComplete(job, node, "")
			case "duplicate":
				var rep []string
				for n := range m.cur.reported {
					rep = append(rep, n)
				}
				sort.Strings(rep)
				node := rapid.SampledFrom(rep).Draw(t, "node")
				step = fmt.Sprintf("duplicate complete job=current node=%s", node)
				st.dup++
				complete(step, m.cur.id, node, "")
			case "foreign":
				step = "complete job=current node=not-in-job"
				st.foreign++
				complete(step, m.cur.id, "node-zz", "")
			case "fail":
				node := rapid.SampledFrom(m.cur.targets).Draw(t, "node")
				job := m.cur.id
				step = fmt.Sprintf("failed complete job=current node=%s", node)
				st.failed++
				complete(step, job, node, "copying remote shard: boom")
				applyComplete(job, node, "boom")
			case "late":
				node := rapid.SampledFrom(append([]string{"node-zz"}, lastEnded.targets...)).Draw(t, "node")
				step = fmt.Sprintf("late complete job=finished(%s) node=%s", lastEnded.outcome, node)
				st.late++
				complete(step, lastEnded.id, node, "")
			case "latefail":
				node := rapid.SampledFrom(append([]string{"node-zz"}, lastEnded.targets...)).Draw(t, "node")
				step = fmt.Sprintf("late failed complete job=finished(%s) node=%s", lastEnded.outcome, node)
				st.late++
				st.failed++
				complete(step, lastEnded.id, node, "boom")
			case "unknown":
				unknownID++
				withErr := rapid.Bool().Draw(t, "withError")
				step = fmt.Sprintf("complete job=unknown error=%v", withErr)
				st.unknown++
				es := ""
				if withErr {
					es = "boom"
				}
				complete(step, unknownID, "node-a", es)
			case "abort":
				st.abort++
				step = "abort"
				e.run(step, func() error { return e.api.ResizeAbort() })
				if m.cur != nil {
					lastEnded = m.cur
					m.finish(resizeJobStateAborted)
				}
			case "window":
				// deliver all outstanding successes; the coordinator is parked right after it received the job result
				st.window++
				job := m.cur
				pend := pendingOf(job)
				atomic.StoreInt32(&e.log.armed, 1)
				for _, node := range pend {
					complete(fmt.Sprintf("complete job=current node=%s (coordinator parks after receiving the result)", node), job.id, node, "")
					applyComplete(job.id, node, "")
				}
				if atomic.LoadInt32(&e.log.parked) != 1 {
					// the coordinator did not reach the schedule point (should not happen); no verdict from this case
					atomic.StoreInt32(&e.log.armed, 0)
					t.Skip("schedule point not reached")
				}
				lastEnded = job
				// 0..3 further messages for the same job arrive while the coordinator is between result and completion
				nIn := rapid.IntRange(0, 3).Draw(t, "nInWindow")
				what := ""
				for wi := 0; wi < nIn; wi++ {
					one := rapid.SampledFrom([]string{"duplicate", "fail", "abort", "foreign"}).Draw(t, "inWindow")
					what += one + " "
					switch one {
					case "duplicate":
						st.dup++
						complete(fmt.Sprintf("duplicate complete node=%s while the coordinator is between result and completion", pend[len(pend)-1]), job.id, pend[len(pend)-1], "")
					case "fail":
						st.failed++
						complete("failed complete while the coordinator is between result and completion", job.id, job.targets[wi%len(job.targets)], "boom")
					case "foreign":
						st.foreign++
						complete("complete node=not-in-job while the coordinator is between result and completion", job.id, "node-zz", "")
					case "abort":
						st.abort++
						e.run("abort while the coordinator is between result and completion", func() error { return e.api.ResizeAbort() })
						// linearizable either way: the abort came after every node had reported, or it wins
						if m.altMembers == nil {
							m.altMembers = append([]string(nil), m.members...)
							undo := vC22Action{resizeJobActionRemove, job.act.node}
							if job.act.kind == resizeJobActionRemove {
								undo = vC22Action{resizeJobActionAdd, job.act.node}
							}
							m.altMembers = m.apply(m.altMembers, undo)
						}
					}
				}
				step = "window(" + what + ") then the coordinator continues"
				e.history = append(e.history, "coordinator continues")
				e.log.gate <- struct{}{}
				vC22Quiesce(e.ignore)
			}
			gs := vC22Quiesce(e.ignore)
			vC22Check(t, e, m, step, gs)
		}
		// drain: every node that still owes a report for the running job sends it (real nodes answer every instruction once)
		for m.cur != nil {
			node := pendingOf(m.cur)[0]
			job := m.cur.id
			step := fmt.Sprintf("drain: complete job=current node=%s", node)
			complete(step, job, node, "")
			applyComplete(job, node, "")
			gs := vC22Quiesce(e.ignore)
			vC22Check(t, e, m, step, gs)
		}
		healthy = true

		cs := vkit.NewCase().Key("c22", nInit, replicas, strings.Join(e.history, ";"))
		cs.Class("members=%d", nInit).Class("replicas=%d", replicas)
		cs.ClassIf(st.dup > 0, "duplicate").ClassIf(st.late > 0, "late").ClassIf(st.failed > 0, "failed").ClassIf(st.abort > 0, "abort")
		cs.ClassIf(st.unknown > 0, "unknown-job").ClassIf(st.window > 0, "race-window").ClassIf(st.foreign > 0, "foreign-node").ClassIf(len(m.jobs) > 1, "jobs>1")
		cs.NT(len(m.jobs) > 0 && (st.dup > 0 || st.late > 0 || st.failed > 0 || st.abort > 0 || st.window > 0))
		cs.Sample(map[string]interface{}{"members": members, "replicas": replicas, "history": e.history})
		cs.Done()
	})
}
