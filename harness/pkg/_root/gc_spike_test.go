package pilosa

import (
	"fmt"
	"os"
	"testing"
)

func TestVerifGCSpike(t *testing.T) {
	dir := os.Getenv("VGC_DIR")
	if dir == "" {
		dir = t.TempDir()
	}
	n, err := vgcOpenNode(dir)
	if err != nil {
		t.Fatal(err)
	}
	if _, err := n.API.CreateIndex(nil, "i", IndexOptions{TrackExistence: true}); err != nil {
		t.Fatal(err)
	}
	if _, err := n.API.CreateField(nil, "i", "f", OptFieldTypeSet(CacheTypeRanked, 100)); err != nil {
		t.Fatal(err)
	}
	if _, err := n.API.CreateField(nil, "i", "k", OptFieldTypeSet(CacheTypeRanked, 100), OptFieldKeys()); err != nil {
		t.Fatal(err)
	}
	r, err := n.vgcQuery("i", `Set(1, f=2) Set(3,k="abc") Row(f=2)`)
	fmt.Println(r, err)
	os.Stdout.Write([]byte("ACK 1\n"))
	if os.Getenv("VGC_DIR") != "" {
		os.Exit(0)
	}
	n.Close()
}
