package pilosa

// Deterministic witnesses of the C29 findings.

import (
	"bytes"
	"fmt"
	"io/ioutil"
	"os"
	"sync"
	"testing"
	"time"

	"github.com/pilosa/pilosa/roaring"
)

// DC4: enumerator.Every (Bitmap.Optimize, run by every snapshot) kept using
// its position after deleting an emptied container: the following item was
// skipped and, when the delete released the page, the enumerator read a page
// that was back in the pool (under -race: snapshot worker vs. a write to
// another fragment whose tree had taken the page). Sequential symptom: only
// every other empty container is removed.
func TestVerifWitness_DC4(t *testing.T) {
	b := roaring.NewFileBitmap()
	for k := uint64(0); k < 4; k++ {
		b.DirectAdd(k << 16)
	}
	// a clearing roaring import leaves the emptied containers in place
	var buf bytes.Buffer
	if _, err := b.WriteTo(&buf); err != nil {
		t.Fatal(err)
	}
	if _, _, err := b.ImportRoaringBits(buf.Bytes(), true, false, 0); err != nil {
		t.Fatal(err)
	}
	if b.Containers.Size() != 4 || b.Count() != 0 {
		t.Skipf("precondition: a clearing import keeps the emptied containers (have %d containers, %d bits)", b.Containers.Size(), b.Count())
	}
	b.Optimize()
	if n := b.Containers.Size(); n != 0 {
		t.Fatalf("Optimize over 4 emptied containers left %d of them: the enumerator skips the item that follows a deleted one (and keeps reading a page the delete may have released)", n)
	}
}

// D28 (open): bsiGroup.BitDepth is read without a lock by every int read and
// write path while SetValue/importValue grow it. Besides the data race, two
// concurrent Set() calls that both need a larger depth can leave the smaller
// one: here Set(col 1, 300) and Set(col 2, 5) both pass the unlocked check with
// depth 0, then 300's depth 9 is overwritten by 5's depth 3 and column 1 reads
// 300 & 7 = 4.
func TestVerifWitness_D28(t *testing.T) {
	dir, err := ioutil.TempDir(os.Getenv("VERIF_RUNDIR"), "vc29-d28-")
	if err != nil {
		t.Fatal(err)
	}
	defer os.RemoveAll(dir)
	n, err := vgcOpenNode(dir)
	if err != nil {
		t.Fatal(err)
	}
	defer n.Close()
	for attempt := 0; attempt < 40; attempt++ {
		index := fmt.Sprintf("w%d", attempt)
		if _, err := n.API.CreateIndex(nil, index, IndexOptions{}); err != nil {
			t.Fatal(err)
		}
		fld, err := n.API.CreateField(nil, index, "v", OptFieldTypeInt(-1000, 1000))
		if err != nil {
			t.Fatal(err)
		}
		// hold the field lock so that both writers have done the unlocked
		// depth check before either of them updates the depth
		fld.mu.Lock()
		var wg sync.WaitGroup
		for _, w := range []struct {
			col uint64
			val int64
		}{{1, 300}, {2, 5}} {
			w := w
			wg.Add(1)
			go func() {
				defer wg.Done()
				if _, err := fld.SetValue(w.col, w.val); err != nil {
					t.Errorf("SetValue: %v", err)
				}
			}()
			time.Sleep(20 * time.Millisecond) // the writers queue on the lock in this order
		}
		fld.mu.Unlock()
		wg.Wait()
		v, exists, err := fld.Value(1)
		if err != nil {
			t.Fatal(err)
		}
		if !exists || v != 300 {
			t.Fatalf("after concurrent Set(1, v=300) and Set(2, v=5), column 1 reads %d (exists=%v), bit depth is %d: the larger depth was overwritten by the smaller one", v, exists, fld.bsiGroup("v").BitDepth)
		}
		n.API.DeleteIndex(nil, index)
	}
}
