package pilosa

// Deterministic witnesses of the C29 findings.

import (
	"fmt"
	"io/ioutil"
	"os"
	"runtime"
	"strings"
	"sync"
	"testing"
	"time"

	"github.com/pilosa/pilosa/pql"
	"github.com/pilosa/pilosa/roaring"
)

// DC4: enumerator.Every (Bitmap.Optimize, run by every snapshot) kept using
// its position after deleting an emptied container: the following item was
// skipped and, when the delete released the page, the enumerator read a page
// that was back in the pool (under -race: snapshot worker vs. a write to
// another fragment whose tree had taken the page). Sequential symptom: only
// every other empty container is removed.
func TestVerifWitness_DC4(t *testing.T) {
	b := roaring.NewFileBitmap()
	for k := uint64(0); k < 4; k++ {
		b.DirectAdd(k << 16)
	}
	// (lead) removing the last value of a container leaves its key behind with an emptied container
	// (a clearing roaring import used to do the same until that was repaired as DS5)
	for k := uint64(0); k < 4; k++ {
		if _, err := b.Remove(k << 16); err != nil {
			t.Fatal(err)
		}
	}
	if b.Containers.Size() == 0 {
		// newer trees drop emptied containers on a clearing import: put them there directly
		for k := uint64(0); k < 4; k++ {
			b.Containers.Put(k, roaring.NewContainerArray(nil))
		}
	}
	if b.Containers.Size() != 4 || b.Count() != 0 {
		t.Skipf("precondition: removes keep the emptied containers (have %d containers, %d bits)", b.Containers.Size(), b.Count())
	}
	b.Optimize()
	if n := b.Containers.Size(); n != 0 {
		t.Fatalf("Optimize over 4 emptied containers left %d of them: the enumerator skips the item that follows a deleted one (and keeps reading a page the delete may have released)", n)
	}
}

// D28 (open): bsiGroup.BitDepth is read without a lock by every int read and
// write path while SetValue/importValue grow it. Besides the data race, two
// concurrent Set() calls that both need a larger depth can leave the smaller
// one: here Set(col 1, 300) and Set(col 2, 5) both pass the unlocked check with
// depth 0, then 300's depth 9 is overwritten by 5's depth 3 and column 1 reads
// 300 & 7 = 4.
func TestVerifWitness_D28(t *testing.T) {
	dir, err := ioutil.TempDir(os.Getenv("VERIF_RUNDIR"), "vc29-d28-")
	if err != nil {
		t.Fatal(err)
	}
	defer os.RemoveAll(dir)
	n, err := vgcOpenNode(dir)
	if err != nil {
		t.Fatal(err)
	}
	defer n.Close()
	for attempt := 0; attempt < 40; attempt++ {
		index := fmt.Sprintf("w%d", attempt)
		if _, err := n.API.CreateIndex(nil, index, IndexOptions{}); err != nil {
			t.Fatal(err)
		}
		fld, err := n.API.CreateField(nil, index, "v", OptFieldTypeInt(-1000, 1000))
		if err != nil {
			t.Fatal(err)
		}
		// hold the field lock so that both writers have done the unlocked
		// depth check before either of them updates the depth
		fld.mu.Lock()
		var wg sync.WaitGroup
		for _, w := range []struct {
			col uint64
			val int64
		}{{1, 300}, {2, 5}} {
			w := w
			wg.Add(1)
			go func() {
				defer wg.Done()
				if _, err := fld.SetValue(w.col, w.val); err != nil {
					t.Errorf("SetValue: %v", err)
				}
			}()
			time.Sleep(20 * time.Millisecond) // the writers queue on the lock in this order
		}
		fld.mu.Unlock()
		wg.Wait()
		v, exists, err := fld.Value(1)
		if err != nil {
			t.Fatal(err)
		}
		if !exists || v != 300 {
			t.Fatalf("after concurrent Set(1, v=300) and Set(2, v=5), column 1 reads %d (exists=%v), bit depth is %d: the larger depth was overwritten by the smaller one", v, exists, fld.bsiGroup("v").BitDepth)
		}
		n.API.DeleteIndex(nil, index)
	}
}

// D28a: fragment.minRow/maxRow read the storage tree and maxRowID without the
// fragment lock. The witness is meaningful in a -race build (the C29 units):
// the detector reports the unordered accesses and fails the test.
func TestVerifWitness_D28a(t *testing.T) {
	dir, err := ioutil.TempDir(os.Getenv("VERIF_RUNDIR"), "vc29-d28a-")
	if err != nil {
		t.Fatal(err)
	}
	defer os.RemoveAll(dir)
	f, err := vc29OpenFragment(dir+"/0", 0, 0, nil)
	if err != nil {
		t.Fatal(err)
	}
	defer f.Close()
	var wg sync.WaitGroup
	wg.Add(2)
	go func() {
		defer wg.Done()
		for r := uint64(0); r < 300; r++ {
			if _, err := f.setBit(r, r%7); err != nil {
				t.Error(err)
				return
			}
		}
	}()
	go func() {
		defer wg.Done()
		for i := 0; i < 300; i++ {
			f.maxRow(nil)
			f.minRow(nil)
		}
	}()
	wg.Wait()
}

// D28b: Field.ClearBit read the view map without the field lock while Set()
// calls with timestamps create views (meaningful in a -race build).
func TestVerifWitness_D28b(t *testing.T) {
	dir, err := ioutil.TempDir(os.Getenv("VERIF_RUNDIR"), "vc29-d28b-")
	if err != nil {
		t.Fatal(err)
	}
	defer os.RemoveAll(dir)
	n, err := vgcOpenNode(dir)
	if err != nil {
		t.Fatal(err)
	}
	defer n.Close()
	if _, err := n.API.CreateIndex(nil, "w", IndexOptions{}); err != nil {
		t.Fatal(err)
	}
	fld, err := n.API.CreateField(nil, "w", "t", OptFieldTypeTime(TimeQuantum("YMD")))
	if err != nil {
		t.Fatal(err)
	}
	if _, err := fld.SetBit(0, 0, nil); err != nil {
		t.Fatal(err)
	}
	var wg sync.WaitGroup
	wg.Add(2)
	go func() {
		defer wg.Done()
		for d := 0; d < 40; d++ {
			ts := time.Date(2001+d, time.Month(1+d%12), 1+d%28, 0, 0, 0, 0, time.UTC)
			if _, err := fld.SetBit(1, 1, &ts); err != nil {
				t.Error(err)
				return
			}
		}
	}()
	go func() {
		defer wg.Done()
		for i := 0; i < 400; i++ {
			if _, err := fld.ClearBit(0, 0); err != nil {
				t.Error(err)
				return
			}
		}
	}()
	wg.Wait()
}

// DC5 (open): BSI range reads (Row(v == x), <, >, between, and Sum/Min/Max)
// evaluate row by row and take the fragment lock once per row, so a Set() that
// runs in between is seen half: the high bits of the old value and the low bits
// of the new one. Column 1 holds 0 and is set to 5 (binary 101) while
// Row(v == 1) has read the existence, sign and bit-2 rows: the result contains
// column 1, which never held 1. The witness single-steps the reader by holding
// the fragment lock and watching which rows it has read (they enter the row cache).
func TestVerifWitness_DC5(t *testing.T) {
	f := mustOpenBSIFragment("i", "v", viewBSIGroupPrefix+"v", 0)
	defer f.Close()
	const depth = 3
	order := []uint64{bsiExistsBit, bsiSignBit, bsiOffsetBit + 2, bsiOffsetBit + 1, bsiOffsetBit + 0}
	for attempt := uint64(0); attempt < 400; attempt++ {
		col := attempt + 1
		if _, err := f.setValue(col, depth, 0); err != nil {
			t.Fatal(err)
		}
		f.mu.Lock()
		for _, r := range order {
			f.rowCache.Add(r, nil)
		}
		progress := func() int {
			n := 0
			for _, r := range order {
				if row, ok := f.rowCache.Fetch(r); ok && row != nil {
					n++
				} else {
					break
				}
			}
			return n
		}
		done := make(chan *Row, 1)
		go func() {
			row, err := f.rangeOp(pql.EQ, depth, 1)
			if err != nil {
				t.Error(err)
			}
			done <- row
		}()
		hit := false
		for spins := 0; spins < 100000; spins++ {
			p := progress()
			if p == 3 {
				// the reader has seen "exists, not negative, bit 2 clear": now the write 0 -> 5
				if _, err := f.unprotectedSetBit(bsiOffsetBit+0, col); err != nil {
					t.Fatal(err)
				}
				if _, err := f.unprotectedSetBit(bsiOffsetBit+2, col); err != nil {
					t.Fatal(err)
				}
				hit = true
				break
			}
			if p > 3 {
				break
			}
			f.mu.Unlock()
			runtime.Gosched()
			f.mu.Lock()
		}
		f.mu.Unlock()
		row := <-done
		has := false
		if row != nil {
			for _, c := range row.Columns() {
				if c == col {
					has = true
				}
			}
		}
		if hit && has {
			t.Fatalf("Row(v == 1) returned column %d, which held 0 and was set to 5 while the query ran (attempt %d): the query read bit 2 before and bits 1,0 after the write — a value never written", col, attempt)
		}
	}
}

// DC6 (open): top(ids=...) (TopN with ids) reads the per-row counts from the
// rank cache without the fragment lock. A Set() that moves a column of a
// mutex/bool field updates the counts of the old and the new row one after the
// other while it holds the lock, so a concurrent top(ids) can report the old
// row already without and the new row not yet with the column: a state in which
// the column has no row, which never exists. The witness takes the writer's
// place: it holds the fragment lock, performs the first half of the move and
// asks top(ids=[0]) from another goroutine. The call must wait for the lock
// (seen in its goroutine state); returning the half-updated count is the defect.
func TestVerifWitness_DC6(t *testing.T) {
	dir, err := ioutil.TempDir(os.Getenv("VERIF_RUNDIR"), "vc29-dc6-")
	if err != nil {
		t.Fatal(err)
	}
	defer os.RemoveAll(dir)
	f, err := vc29OpenFragment(dir+"/0", 0, 0, nil, FieldTypeMutex)
	if err != nil {
		t.Fatal(err)
	}
	defer f.Close()
	for _, c := range []uint64{1, 2} {
		if _, err := f.setBit(0, c); err != nil {
			t.Fatal(err)
		}
	}
	f.mu.Lock()
	// first half of Set(col 2, row 1): the old row is cleared, the new one not yet set
	if _, err := f.unprotectedClearBit(0, 2); err != nil {
		f.mu.Unlock()
		t.Fatal(err)
	}
	type res struct {
		pairs []Pair
		err   error
	}
	done := make(chan res, 1)
	go func() {
		p, err := f.top(topOptions{RowIDs: []uint64{0}})
		done <- res{p, err}
	}()
	var early *res
	for early == nil {
		select {
		case r := <-done:
			early = &r
		default:
		}
		if early != nil {
			break
		}
		buf := make([]byte, 1<<20)
		buf = buf[:runtime.Stack(buf, true)]
		blocked := false
		for _, g := range strings.Split(string(buf), "\n\n") {
			if strings.Contains(g, "topBitmapPairs") && (strings.Contains(g, "Mutex.Lock") || strings.Contains(g, "[semacquire")) {
				blocked = true
			}
		}
		if blocked {
			break
		}
		runtime.Gosched()
	}
	if _, err := f.unprotectedSetBit(1, 2); err != nil {
		f.mu.Unlock()
		t.Fatal(err)
	}
	f.mu.Unlock()
	if early != nil {
		t.Fatalf("top(ids=[0]) returned %+v (err %v) while a Set() that moves column 2 from row 0 to row 1 held the fragment lock half-way: row 0 is reported with 1 column although no state exists in which column 2 is in neither row", early.pairs, early.err)
	}
	if r := <-done; r.err != nil || len(r.pairs) != 1 || r.pairs[0].Count != 1 {
		t.Fatalf("top(ids=[0]) after the move: %+v, %v", r.pairs, r.err)
	}
}
