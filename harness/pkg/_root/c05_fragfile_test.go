package pilosa

// C05, fragment level — the fragment's data file (snapshot bytes followed by the appended op log) decodes to exactly
// the in-memory storage bitmap, and the decoded operation / bit-change counters equal the ones the live bitmap reports.
// The gfrag state machine runs over every fragment kind; after every step at which no snapshot is pending or in
// flight (the harness owns the snapshot queue, so it knows) the file is read from disk as it is, decoded into a fresh
// file bitmap and compared with fragment.storage (set and Ops()) and with the map model.

import (
	"fmt"
	"os"
	"testing"

	"github.com/pilosa/pilosa/internal/vkit"
	"github.com/pilosa/pilosa/roaring"
	"pgregory.net/rapid"
)

func (m *vgfM) quiescent() bool {
	if m.q != nil && len(m.q) > 0 {
		return false
	}
	m.f.mu.Lock()
	defer m.f.mu.Unlock()
	return !m.f.snapshotting
}

// checkFile compares the bytes on disk with the live storage bitmap. It reports whether the comparison took place.
func (m *vgfM) checkFile() bool {
	if !m.quiescent() {
		return false
	}
	data, err := os.ReadFile(m.path)
	if err != nil {
		m.fail("reading the fragment file: %v", err)
	}
	dec := roaring.NewFileBitmap()
	if err := dec.UnmarshalBinary(data); err != nil {
		m.fail("the fragment file (%d bytes) does not decode: %v", len(data), err)
	}
	m.f.mu.Lock()
	live := m.f.storage.Slice()
	lops, lopN := m.f.storage.Ops()
	m.f.mu.Unlock()
	got := dec.Slice()
	if !vgfEqU(got, live) {
		m.fail("the fragment file decodes to positions %v, the live storage holds %v", got, live)
	}
	if m.cfg.Kind != vgfBSI {
		var want []uint64
		for _, r := range m.nonEmptyRows() {
			for _, c := range m.rowCols(r) {
				want = append(want, r*ShardWidth+c%ShardWidth)
			}
		}
		if !vgfEqU(live, want) {
			m.fail("the live storage holds positions %v, the model %v", live, want)
		}
	}
	if dops, dopN := dec.Ops(); dops != lops || dopN != lopN {
		m.fail("the fragment file decodes with counters ops=%d opN=%d, the live storage bitmap reports ops=%d opN=%d (%d positions stored)", dops, dopN, lops, lopN, len(live))
	}
	return true
}

// emptyThenSnapshot removes every bit through ordinary writes and takes a snapshot of the empty fragment.
func (m *vgfM) emptyThenSnapshot() {
	if m.cfg.Kind == vgfBSI {
		// a clear-import leaves the value bits it is given; clearing value 0 leaves nothing
		for _, c := range m.valCols() {
			m.apply(vgfOp{Name: "setValue", Col: c, Val: 0})
		}
		if cols := m.valCols(); len(cols) > 0 {
			m.apply(vgfOp{Name: "importValue", Cols: cols, Vals: make([]int64, len(cols)), Clear: true})
		}
	} else {
		for _, r := range m.nonEmptyRows() {
			m.apply(vgfOp{Name: "clearRow", Row: r})
		}
	}
	m.apply(vgfOp{Name: "snapshot"})
}

func vgfRunC05(t *rapid.T, kinds []string) {
	cfg := vgfGenCfg(t, "cfg", kinds, []string{CacheTypeRanked, CacheTypeLRU, CacheTypeNone}, []uint32{3, 50000})
	dir := vgfTempDir(t)
	defer os.RemoveAll(dir)
	m := vgfNew(t, cfg, dir, "frag")
	closed := false
	defer func() {
		if !closed {
			m.drain()
			_ = m.f.Close()
		}
	}()
	ws := append(vgfDefaultWeights(cfg.Kind), vgfWeight{"emptySnapshot", 2})
	n := rapid.IntRange(1, vkit.Scale(25, 40)).Draw(t, "steps")
	c := vkit.NewCase()
	defer c.Done()
	compared, skipped, emptySnaps, noopRoaring := 0, 0, 0, 0
	writesAfterEmptySnap := false
	if !m.checkFile() {
		m.fail("a freshly opened fragment is not quiescent")
	}
	for i := 0; i < n; i++ {
		l := fmt.Sprintf("s%d", i)
		if name := vgfPick(t, l+".op", ws); name == "emptySnapshot" {
			m.hist = append(m.hist, "emptySnapshot {")
			m.emptyThenSnapshot()
			m.hist = append(m.hist, "}")
			emptySnaps++
		} else {
			op := vgfGenOp(t, l, cfg, []vgfWeight{{name, 1}})
			before := len(m.storedPositions())
			m.apply(op)
			if op.Name == "roaring" && len(m.storedPositions()) == before {
				noopRoaring++ // (a set-import of stored bits or a clear-import of absent ones)
			}
			if emptySnaps > 0 && len(m.storedPositions()) > 0 {
				writesAfterEmptySnap = true
			}
		}
		if m.checkFile() {
			compared++
		} else {
			skipped++
		}
		if rapid.IntRange(0, 3).Draw(t, l+".reads") == 0 {
			m.checkSome(l)
		}
	}
	m.drain()
	if !m.checkFile() {
		m.fail("the fragment is not quiescent after the queue was drained")
	}
	m.close()
	closed = true
	c.Key("c05frag", cfg.String(), m.hist)
	c.Class("kind:"+cfg.Kind).ClassIf(cfg.Bg, "bgQueue").ClassIf(cfg.FileLimit, "openFileLimitExceeded").ClassIf(skipped > 0, "comparisonSkippedWhileSnapshotPending")
	c.ClassIf(emptySnaps > 0, "snapshotOfEmptyFragment").ClassIf(writesAfterEmptySnap, "writesAfterSnapshotOfEmptyFragment").ClassIf(noopRoaring > 0, "roaringImportChangingNothing")
	for ev := range m.events {
		c.Class(ev)
	}
	for p := range m.paths {
		c.Class("path:" + p)
	}
	c.NT(m.nSnap > 0 && compared > 1)
	c.Sample(map[string]interface{}{"cfg": cfg.String(), "history": m.hist, "comparisons": compared})
}

func TestVerifC05_FragmentFile(t *testing.T) {
	defer vkit.Flush()
	rapid.Check(t, func(t *rapid.T) { vgfRunC05(t, []string{vgfSet, vgfSet, vgfMutex, vgfBool, vgfBSI, vgfBSI}) })
}
