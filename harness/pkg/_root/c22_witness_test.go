package pilosa

// Deterministic witnesses of the resize-protocol defects (C22). Same harness as c22_resize_test.go:
// real coordinator cluster, recording broadcaster, explicit delivery steps with quiescence waits.

import (
	"os"
	"sync/atomic"
	"testing"
)

func vC22WitnessJoin(t *testing.T, e *vC22Env, id string) (int64, []string) {
	before := map[int64]bool{}
	for jid := range e.observe().jobs {
		before[jid] = true
	}
	d := e.run("join "+id, func() error { return e.c.ReceiveEvent(&NodeEvent{Event: NodeJoin, Node: vC22Node(id)}) })
	if !d.returned() || d.err != nil || d.panicked != nil {
		t.Fatalf("join %s: returned=%v err=%v panic=%v", id, d.returned(), d.err, d.panicked)
	}
	o := e.observe()
	if o.locked {
		t.Fatalf("join %s: cluster.mu unavailable", id)
	}
	for jid, jo := range o.jobs {
		if !before[jid] {
			if len(jo.pending) == 0 {
				t.Skipf("job for %s needs no data movement; witness not applicable with this hash", id)
			}
			return jid, jo.pending
		}
	}
	t.Fatalf("join %s did not start a resize job (state %s, jobs %v)\ngoroutines:\n%s", id, o.state, o.jobs, vC22Dump(vC22Quiesce(e.ignore)))
	return 0, nil
}

func vC22WitnessComplete(e *vC22Env, name string, job int64, node, errStr string) *vC22Delivery {
	return e.run(name, func() error {
		return e.c.markResizeInstructionComplete(&ResizeInstructionComplete{JobID: job, Node: vC22Node(node), Error: errStr})
	})
}

// DX3 (first item of D23 in DESIGN.md): a completion message for an unknown job id dereferences a nil job.
func TestVerifWitness_DX3(t *testing.T) {
	e := vC22NewEnv(t, []string{"node-a"}, 1)
	defer os.RemoveAll(e.dir)
	d := vC22WitnessComplete(e, "complete job=unknown", 4243, "node-a", "")
	if d.panicked != nil {
		t.Fatalf("completion for an unknown job: handler panicked: %v", d.panicked)
	}
	if !d.returned() || d.err == nil {
		t.Fatalf("completion for an unknown job: returned=%v err=%v, want an error", d.returned(), d.err)
	}
	e.c.close()
	e.h.Close()
}

// D23: (b) a failed completion for a job that has ended blocks its handler forever (send on the unbuffered
// result channel nobody receives from); (c) a duplicate of the last successful completion, delivered after the
// coordinator received DONE and before it completed the job, blocks in that send while holding j.mu and
// dead-locks the coordinator on cluster.mu.
func TestVerifWitness_D23(t *testing.T) {
	e := vC22NewEnv(t, []string{"node-a"}, 1)
	defer os.RemoveAll(e.dir)
	// (b)
	job, pend := vC22WitnessJoin(t, e, "node-b")
	if d := vC22WitnessComplete(e, "failed complete", job, pend[0], "boom"); !d.returned() {
		t.Fatalf("failed completion of the running job did not return")
	}
	d := vC22WitnessComplete(e, "late failed complete", job, pend[0], "boom")
	if !d.returned() {
		t.Fatalf("a second failed completion for the (aborted) job never returns: nothing receives from the job's result channel any more\n%s", vC22Dump(vC22Quiesce(e.ignore)))
	}
	if o := e.observe(); o.locked || o.state != ClusterStateNormal {
		t.Fatalf("after the aborted job: locked=%v state=%s, want NORMAL", o.locked, o.state)
	}
	// (c)
	job, pend = vC22WitnessJoin(t, e, "node-c")
	atomic.StoreInt32(&e.log.armed, 1)
	for _, n := range pend {
		vC22WitnessComplete(e, "complete "+n, job, n, "")
	}
	if atomic.LoadInt32(&e.log.parked) != 1 {
		t.Fatalf("harness: coordinator did not reach the schedule point after the last completion")
	}
	dup := vC22WitnessComplete(e, "duplicate complete", job, pend[len(pend)-1], "")
	e.log.gate <- struct{}{}
	gs := vC22Quiesce(e.ignore)
	if !dup.returned() {
		t.Fatalf("duplicate of the last successful completion never returns (blocked in the send on job.result while holding j.mu)\n%s", vC22Dump(gs))
	}
	o := e.observe()
	if o.locked {
		t.Fatalf("coordinator dead-locked on cluster.mu after a duplicate completion\n%s", vC22Dump(gs))
	}
	if o.state != ClusterStateNormal || len(o.members) != 2 {
		t.Fatalf("after the completed job: state=%s members=%v, want NORMAL and [node-a node-c]", o.state, o.members)
	}
	e.c.close()
	e.h.Close()
}

// DX2: API.ResizeAbort marks the job aborted but never wakes handleNodeAction: the cluster stays RESIZING
// and the next join is never processed.
func TestVerifWitness_DX2(t *testing.T) {
	e := vC22NewEnv(t, []string{"node-a"}, 1)
	defer os.RemoveAll(e.dir)
	vC22WitnessJoin(t, e, "node-b")
	d := e.run("abort", func() error { return e.api.ResizeAbort() })
	if !d.returned() || d.err != nil {
		t.Fatalf("ResizeAbort: returned=%v err=%v", d.returned(), d.err)
	}
	gs := vC22Quiesce(e.ignore)
	o := e.observe()
	if o.locked {
		t.Fatalf("cluster.mu unavailable after abort\n%s", vC22Dump(gs))
	}
	if o.state != ClusterStateNormal || o.current != 0 {
		t.Fatalf("after ResizeAbort the cluster state is %s (currentJob=%d) and no goroutine of the cluster can run; want NORMAL\n%s", o.state, o.current, vC22Dump(gs))
	}
	if len(o.members) != 1 {
		t.Fatalf("aborted join changed the members to %v", o.members)
	}
	job, _ := vC22WitnessJoin(t, e, "node-c") // the next join must start a job
	_ = job
	if d := e.run("abort", func() error { return e.api.ResizeAbort() }); !d.returned() {
		t.Fatalf("second abort did not return")
	}
	vC22Quiesce(e.ignore)
	e.c.close()
	e.h.Close()
}
